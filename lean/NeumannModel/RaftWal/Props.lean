import NeumannModel.RaftWal.LemmasRot
import NeumannModel.RaftWal.LemmasFail
import NeumannModel.RaftWal.LemmasInstall
/-
  C10 — Raft node restart never forgets a vote, a term or an acknowledged entry.

  Setting of every theorem below (the quantifier of the property):
    * `acts`  : ANY history of handler calls and crashes — `Act.ev e` runs handler `e` to the end,
                `Act.crash e k` kills the process after `k` micro steps of handler `e` (a micro step is
                one fsynced WAL append or one acknowledgement sent) and restarts the node from its WAL.
                The list is arbitrary, so the number of crashes is unbounded.
    * then handler `e` starts and the machine dies leaving ANY byte prefix `n` of the WAL file that
      still contains the part synced before `e` started (appends are fsynced one after the other, so a
      crash can only tear the record being written);
    * `ghost` is what the node had told the outside world at that moment: the highest term it acted in,
      the votes it granted, the entries it acknowledged to a leader or accepted as leader
      (`microAllG σ.ghost (ms.take k)` for every `k` consistent with the records found on disk).
  `restart` is `RaftNode::with_wal`; `recoverBytes` is `RaftWal::open` + `replay` + `from_entries`.
  Events are ALL handlers of the model, `install_snapshot` included (code after fix 73e56b11: the
  snapshot's entries are written as `LogEntryFull` records, then `LogTruncate{last+1}`, before the
  in-memory switch).  When an obligation about an acknowledged entry ends is fixed by `microG`
  (Model.lean): at the WAL record by which a later leader's order starts to drop the entry — a conflict
  truncation at or below its index, or a snapshot entry of the same index and different content.
  What is NOT claimed (outside C10's three obligations): the install is not atomic in the WAL; a crash
  after `k` of its `n` `LogEntryFull` records restarts the node with the log
  `snapshot[1..k] ++ old[k+1..]`, a log it never held in memory (`snapshot_install_not_atomic_witness`).
  Every obligation still in force holds for that log (the theorems below), its log-matching with the
  leader is a matter for C01.
  Because `microG` reads the end of an obligation off the records the handler writes, the section
  "a crash inside a snapshot install, judged by the ORDER" states the install's crash safety a second time
  with the licence taken from the snapshot alone (`snapshot_install_cut_keeps_acknowledged_entries`), and
  shows that the order of the install's two WAL steps is what it rests on
  (`truncate_first_install_loses_acknowledged_entries_witness`).
-/
namespace Neumann.RaftWal.Props
open Neumann.RaftWal Neumann.FramedLog

variable (crc : List Nat → Nat) (ser : WalEntry → List Nat) (deser : List Nat → Option WalEntry)

/-- the file cut at byte `n` while handler `e` was running on the system reached by `acts` -/
def crashFile (id : Nat) (acts : List Act) (e : Event) (n : Nat) : List Nat :=
  let σ := exec (initSys id) acts
  (fileOf crc ser (σ.dur ++ recs (step σ.node e).micros)).take n

/-- obligations in force when `k` micro steps of `e` were done -/
def ghostAt (id : Nat) (acts : List Act) (e : Event) (k : Nat) : Ghost :=
  let σ := exec (initSys id) acts
  microAllG σ.ghost ((step σ.node e).micros.take k)

/-- Core statement: a byte-level crash is a record-level crash, the restarted system satisfies the
    invariant again (so the argument repeats for any further crash), and the repaired file is the
    exact encoding of the surviving records. -/
theorem byte_crash_refines_record_crash (h : GoodSer crc ser deser) (id : Nat) (acts : List Act) (e : Event)
    (n : Nat)
    (hn : (fileOf crc ser (exec (initSys id) acts).dur).length ≤ n) :
    ∃ s cnt en, recoverBytes crc deser (crashFile crc ser id acts e n) = .ok s cnt en ∧
      ∀ k, (exec (initSys id) acts).dur.length + (recs ((step (exec (initSys id) acts).node e).micros.take k)).length = cnt →
        let σ' := execAct (exec (initSys id) acts) (.crash e k)
        s = fromEntries σ'.dur ∧ openRepair (crashFile crc ser id acts e n) = fileOf crc ser σ'.dur ∧ Inv σ' := by
  obtain ⟨j, _, ⟨en, hrec⟩, hrep⟩ := byte_cut crc ser deser h (exec (initSys id) acts).dur
    (recs (step (exec (initSys id) acts).node e).micros) n hn
  refine ⟨_, _, en, hrec, ?_⟩
  intro k hk
  have hj : (recs ((step (exec (initSys id) acts).node e).micros.take k)).length = j := by omega
  have hd : (execAct (exec (initSys id) acts) (.crash e k)).dur
      = (exec (initSys id) acts).dur ++ (recs (step (exec (initSys id) acts).node e).micros).take j := by
    simp only [execAct]
    rw [recs_take, hj]
  refine ⟨by rw [hd], by rw [hd]; exact hrep, ?_⟩
  exact inv_execAct _ _ (inv_exec _ _ (inv_init id))

/-- **Term.** The restarted node's term is at least every term it had acted in. -/
theorem recovered_term_ge_acted (h : GoodSer crc ser deser) (id : Nat) (acts : List Act) (e : Event)
    (n : Nat)
    (hn : (fileOf crc ser (exec (initSys id) acts).dur).length ≤ n) :
    ∃ s cnt en, recoverBytes crc deser (crashFile crc ser id acts e n) = .ok s cnt en ∧
      ∀ k, (exec (initSys id) acts).dur.length + (recs ((step (exec (initSys id) acts).node e).micros.take k)).length = cnt →
        (ghostAt id acts e k).actedTerm ≤ (restart id s).term := by
  obtain ⟨s, cnt, en, hrec, hall⟩ := byte_crash_refines_record_crash crc ser deser h id acts e n hn
  refine ⟨s, cnt, en, hrec, fun k hk => ?_⟩
  obtain ⟨hs, _, hinv⟩ := hall k hk
  have := hinv.2.2.1
  rw [← hs] at this
  exact this

/-- **Vote.** For every vote `(t, c)` the node had granted: after restart it is past term `t`, or still
    in term `t` with `votedFor = c`. -/
theorem recovered_vote_eq_cast (h : GoodSer crc ser deser) (id : Nat) (acts : List Act) (e : Event)
    (n : Nat)
    (hn : (fileOf crc ser (exec (initSys id) acts).dur).length ≤ n) :
    ∃ s cnt en, recoverBytes crc deser (crashFile crc ser id acts e n) = .ok s cnt en ∧
      ∀ k, (exec (initSys id) acts).dur.length + (recs ((step (exec (initSys id) acts).node e).micros.take k)).length = cnt →
        ∀ v ∈ (ghostAt id acts e k).votes,
          v.1 < (restart id s).term ∨ (v.1 = (restart id s).term ∧ (restart id s).votedFor = some v.2) := by
  obtain ⟨s, cnt, en, hrec, hall⟩ := byte_crash_refines_record_crash crc ser deser h id acts e n hn
  refine ⟨s, cnt, en, hrec, fun k hk v hv => ?_⟩
  obtain ⟨hs, _, hinv⟩ := hall k hk
  have := hinv.2.2.2.1 v hv
  rw [← hs] at this
  exact this

/-- **Log.** Every entry the node had acknowledged to a leader, accepted as leader or installed from a
    snapshot (and that no conflict truncation / snapshot overwrite ordered by a later leader had begun
    to remove, see `microG`) is in the restarted node's log. -/
theorem recovered_log_contains_acked (h : GoodSer crc ser deser) (id : Nat) (acts : List Act) (e : Event)
    (n : Nat)
    (hn : (fileOf crc ser (exec (initSys id) acts).dur).length ≤ n) :
    ∃ s cnt en, recoverBytes crc deser (crashFile crc ser id acts e n) = .ok s cnt en ∧
      ∀ k, (exec (initSys id) acts).dur.length + (recs ((step (exec (initSys id) acts).node e).micros.take k)).length = cnt →
        ∀ a ∈ (ghostAt id acts e k).acked, a ∈ (restart id s).log := by
  obtain ⟨s, cnt, en, hrec, hall⟩ := byte_crash_refines_record_crash crc ser deser h id acts e n hn
  refine ⟨s, cnt, en, hrec, fun k hk a ha => ?_⟩
  obtain ⟨hs, _, hinv⟩ := hall k hk
  have hmem := hinv.2.2.2.2 a ha
  rw [← hs] at hmem
  have hshape : Shape s := by
    rw [hs]; exact ⟨_, hinv.2.1, hinv.1.2.2⟩
  have hsync := (restart_sync id s hshape).1.2.2
  rw [hsync] at hmem
  exact mem_map_entKV.mp hmem

/-- The same three facts for a node that is simply running (or was restarted any number of times):
    its memory equals what a restart would recover, and the obligations hold. -/
theorem running_node_matches_its_log (id : Nat) (acts : List Act) :
    let σ := exec (initSys id) acts
    σ.node.term = (fromEntries σ.dur).term ∧ σ.node.votedFor = (fromEntries σ.dur).votedFor
      ∧ σ.node.log = (restart id (fromEntries σ.dur)).log
      ∧ σ.ghost.actedTerm ≤ σ.node.term
      ∧ (∀ a ∈ σ.ghost.acked, a ∈ σ.node.log) := by
  have hinv := inv_exec (initSys id) acts (inv_init id)
  obtain ⟨hS, hwf, hsat⟩ := hinv
  have hshape : Shape (fromEntries (exec (initSys id) acts).dur) := ⟨_, hwf, hS.2.2⟩
  refine ⟨hS.1, hS.2.1, ?_, by rw [hS.1]; exact hsat.1, ?_⟩
  · simp only [restart, recoveredLog, hS.2.2]
    exact (filterMap_dec _).symm
  · intro a ha
    have hmem := hsat.2.2 a ha
    rw [hS.2.2] at hmem
    exact mem_map_entKV.mp hmem

/-- **Corollary: no double vote across restarts.** Whatever the history — any handler calls, any
    number of crashes, each at any micro step (equivalently, by `byte_crash_refines_record_crash`, at
    any byte of the record being written) — the node never announces votes for two different
    candidates in one term. -/
theorem no_double_vote_across_restarts (id : Nat) (acts : List Act)
    (t c1 c2 : Nat) (h1 : (t, c1) ∈ (exec (initSys id) acts).ghost.votes)
    (h2 : (t, c2) ∈ (exec (initSys id) acts).ghost.votes) : c1 = c2 := by
  have hf := votesFn_exec (initSys id) acts (inv_init id) (by intro v hv; simp [initSys] at hv)
  exact hf (t, c1) h1 (t, c2) h2 rfl

/-- **Snapshot install is durable, local suffix included.** Whatever the node held before (entries
    conflicting with the snapshot, a suffix beyond the snapshot's last index, …): once
    `install_snapshot` has returned `Ok`, a restart recovers exactly the snapshot's entries. -/
theorem installed_snapshot_is_the_recovered_log (id : Nat) (acts : List Act) (li lt : Nat) (ents : List (Nat × Nat))
    (hok : (step (exec (initSys id) acts).node (.installSnapshot li lt ents)).reply = .snapshot true) :
    let σ := exec (initSys id) (acts ++ [.ev (.installSnapshot li lt ents)])
    (restart id (fromEntries σ.dur)).log = mkEntries 0 ents ∧ σ.node.log = mkEntries 0 ents := by
  have hrun := running_node_matches_its_log id (acts ++ [.ev (.installSnapshot li lt ents)])
  have hlog : (exec (initSys id) (acts ++ [.ev (.installSnapshot li lt ents)])).node.log = mkEntries 0 ents := by
    simp only [exec, List.foldl_append, List.foldl_cons, List.foldl_nil, execAct]
    simp only [exec] at hok
    generalize (List.foldl execAct (initSys id) acts).node = n at *
    simp only [step] at hok ⊢
    split at hok
    · simp at hok
    · split at hok
      · simp at hok
      · split at hok
        · simp at hok
        · next h1 h2 h3 => simp only [h2, h3]; simp
  exact ⟨by rw [← hrun.2.2.1]; exact hlog, hlog⟩

/-- The statement for the code BEFORE fix 73e56b11 (`installSnapshotOld`: the in-memory log is replaced
    by the snapshot's entries and nothing about it is logged): an old-style install somewhere in the
    history.  False — `snapshot_install_not_durable_witness`. -/
def recovered_log_contains_acked_old_install : Prop :=
  ∀ (id : Nat) (pre post : List Act) (lt : Nat) (ents : List (Nat × Nat)),
    let σ0 := exec (initSys id) pre
    let σ := exec (applyOut σ0 (installSnapshotOld σ0.node lt ents)) post
    ∀ a ∈ σ.ghost.acked, a ∈ (restart id (fromEntries σ.dur)).log

/-- follower holds [1,2]; a snapshot with entries 1..4 is installed the old way; the leader's next
    AppendEntries (prev = 4) is acknowledged with match_index 5; after a restart entries 3 and 4 are gone. -/
theorem snapshot_install_not_durable_witness : ¬ recovered_log_contains_acked_old_install := by
  intro hall
  have := hall 0
    [.ev (.appendEntries 1 1 0 0 [(1, 10), (1, 11)])]
    [.ev (.appendEntries 1 1 4 1 [(1, 14)])]
    1 [(1, 10), (1, 11), (1, 12), (1, 13)]
    ⟨3, 1, 12⟩ (by decide)
  revert this
  decide

/-- **Pre-fix `open` (append position = physical end of file).** A record torn by a crash, then a
    restart that appends an acknowledged record behind the torn bytes: the next replay stops with a
    checksum error and returns nothing — the acknowledged record is lost.  With the repaired `open`
    the same bytes replay to exactly the acknowledged record. -/
def wcrc (p : List Nat) : Nat := p.sum + 1

theorem append_after_torn_tail_witness :
    parse wcrc (fun _ => true) (openOld ((encodeAll wcrc [[9]]).take 8) ++ encodeAll wcrc [[7]]) = ([], .badCrc)
    ∧ parse wcrc (fun _ => true) (openRepair ((encodeAll wcrc [[9]]).take 8) ++ encodeAll wcrc [[7]]) = ([[7]], .clean) := by
  constructor
  · rw [parse]; simp [openOld, encodeAll, encodeRec, le32, de32, wcrc]
  · have := reopen_append_replay wcrc (fun _ => true) [[9]] [[7]] 8
      (by simp [GoodRec, wcrc, U32]) (by simp [GoodRec, wcrc, U32])
    simpa [wholeWithin, encodeRec, le32] using this

/-! ### non-vacuity: the hypotheses are satisfiable by non-trivial executions -/

/-- a concrete history with an election, a granted vote, appends, a conflict truncation, a proposal, a
    snapshot install over a conflicting log with a local suffix beyond the snapshot index, a crash in
    the middle of a second install and two more crashes -/
def demoActs : List Act :=
  [.ev (.requestVote 1 2 0 0),
   .ev (.appendEntries 1 2 0 0 [(1, 10), (1, 11), (1, 12)]),
   .crash (.appendEntries 2 3 1 1 [(2, 20), (2, 21)]) 2,
   .ev (.appendEntries 2 3 1 1 [(2, 20), (2, 21)]),
   .ev .startElection, .ev .becomeLeader, .ev (.propose 30),
   .ev (.installSnapshot 2 4 [(1, 10), (4, 40)]),
   .ev (.appendEntries 4 1 2 4 [(4, 41)]),
   .crash (.installSnapshot 3 5 [(1, 10), (5, 50), (5, 51)]) 3,
   .crash (.requestVote 9 4 9 9) 1]

example : (exec (initSys 0) demoActs).ghost.votes = [(3, 0), (1, 2)] := by decide
/-- the vote of term 1 really is re-requested by another candidate after the restart and refused -/
example : (step (exec (initSys 0) [.ev (.requestVote 1 2 0 0), .crash (.requestVote 1 2 0 0) 0]).node
    (.requestVote 1 3 5 5)).reply = .vote 1 false := by decide
/-- before the first install: log [1:1:10, 2:2:20, 3:2:21, 4:3:30], all four acknowledged -/
example : (exec (initSys 0) (demoActs.take 7)).node.log = [⟨1, 1, 10⟩, ⟨2, 2, 20⟩, ⟨3, 2, 21⟩, ⟨4, 3, 30⟩] := by decide
/-- the install writes TV4, F1, F2, LT3; entries 2 (conflicting) and 3, 4 (beyond the snapshot) leave the
    log and the obligations; memory and a restart agree on the snapshot -/
example : recs (step (exec (initSys 0) (demoActs.take 7)).node (.installSnapshot 2 4 [(1, 10), (4, 40)])).micros
    = [.termAndVote 4 none, .logEntryFull 1 1 [1, 1, 10], .logEntryFull 2 4 [2, 4, 40], .logTruncate 3] := by decide
example : (exec (initSys 0) (demoActs.take 8)).node.log = [⟨1, 1, 10⟩, ⟨2, 4, 40⟩]
    ∧ (restart 0 (fromEntries (exec (initSys 0) (demoActs.take 8)).dur)).log = [⟨1, 1, 10⟩, ⟨2, 4, 40⟩]
    ∧ (⟨2, 2, 20⟩ : LogEntry) ∉ (exec (initSys 0) (demoActs.take 8)).ghost.acked
    ∧ (⟨4, 3, 30⟩ : LogEntry) ∉ (exec (initSys 0) (demoActs.take 8)).ghost.acked
    ∧ (⟨2, 4, 40⟩ : LogEntry) ∈ (exec (initSys 0) (demoActs.take 8)).ghost.acked := by decide
/-- the hypothesis of `installed_snapshot_is_the_recovered_log` holds there -/
example : (step (exec (initSys 0) (demoActs.take 7)).node (.installSnapshot 2 4 [(1, 10), (4, 40)])).reply
    = .snapshot true := by decide
/-- a stale snapshot (not newer than the installed one) and one whose metadata disagree with its last
    entry are refused without writing anything -/
example : (step (exec (initSys 0) (demoActs.take 8)).node (.installSnapshot 2 4 [(1, 10), (4, 40)])).micros = []
    ∧ (step (exec (initSys 0) (demoActs.take 8)).node (.installSnapshot 3 4 [(1, 10), (4, 40)])).micros = [] := by decide
/-- The second install dies after 3 micro steps (TV5, F1, F2 durable; F3 and LT4 not): the node restarts
    with the snapshot's first two entries and its own third one — a log it never held in memory.  The
    acknowledged entry 2:4:40 was released by the overwrite, 1:1:10 and 3:4:41 are still owed and there. -/
theorem snapshot_install_not_atomic_witness :
    (exec (initSys 0) (demoActs.take 10)).node.log = [⟨1, 1, 10⟩, ⟨2, 5, 50⟩, ⟨3, 4, 41⟩]
    ∧ (exec (initSys 0) (demoActs.take 10)).node.term = 5
    ∧ (exec (initSys 0) (demoActs.take 10)).ghost.acked.all
        (fun a => a ∈ (exec (initSys 0) (demoActs.take 10)).node.log) = true
    ∧ ⟨3, 4, 41⟩ ∈ (exec (initSys 0) (demoActs.take 10)).ghost.acked := by decide
example : (exec (initSys 0) demoActs).node.term = 9 ∧ (exec (initSys 0) demoActs).node.votedFor = none := by decide
/-- `GoodSer` is satisfiable: a toy injective serializer -/
def toySer : WalEntry → List Nat
  | .termChange t => [0, t]
  | .voteCast t c => [1, t, c]
  | .termAndVote t none => [2, t]
  | .termAndVote t (some c) => [3, t, c]
  | .logAppend i t => [4, i, t]
  | .logTruncate f => [5, f]
  | .snapshotTaken i t => [6, i, t]
  | .logEntryFull i t d => 7 :: i :: t :: d
def toyDeser : List Nat → Option WalEntry
  | [0, t] => some (.termChange t)
  | [1, t, c] => some (.voteCast t c)
  | [2, t] => some (.termAndVote t none)
  | [3, t, c] => some (.termAndVote t (some c))
  | [4, i, t] => some (.logAppend i t)
  | [5, f] => some (.logTruncate f)
  | [6, i, t] => some (.snapshotTaken i t)
  | 7 :: i :: t :: d => some (.logEntryFull i t d)
  | _ => none
example : ∀ r, toyDeser (toySer r) = some r := by
  intro r; cases r <;> try rfl
  case termAndVote t v => cases v <;> rfl

/-! ### size limit and rotation of the WAL

  Every theorem above speaks about `fileOf … dur`, ONE file holding every record the node ever wrote.
  `RaftWal::append` keeps it that way while the file stays within `max_size_bytes`
  (`no_rotation_within_size_limit`).  What happens at the limit depends on `auto_rotate`:
    * `RaftNode::with_wal` opens its WAL with `auto_rotate = false` (and the limit at `u64::MAX`) since
      fix c45da25c: an append is then either refused — an ordinary failed append, covered by the
      theorems of the next section — or extends the live file; nothing is ever moved away
      (`node_wal_is_never_rotated_away`);
    * with `auto_rotate` (the `WalConfig` default, which `with_wal` used before that fix) the append that
      crosses the limit renames the file to `<wal>.1` and starts an empty one, and neither `replay` nor
      `with_wal` ever reads `<wal>.k`: whatever the history was, a restart then sees exactly the records
      written since (`rotation_recovers_only_the_new_record`) and the property failed
      (`rotation_forgets_term_vote_log_witness`; nothing in raft.rs truncates or compacts the WAL, so every
      node whose WAL had grown to 1 GiB was in this situation). -/

/-- **Within the size limit there is no rotation**: appending the records `rs` of any history to a live
    file that holds `d` leaves the single file `fileOf (d ++ rs)` the theorems above are about — as long
    as that file is at most `max_size_bytes` long. -/
theorem no_rotation_within_size_limit (c : WalCfg) (old : List (List Nat)) (d rs : List WalEntry)
    (h : (fileOf crc ser (d ++ rs)).length ≤ c.maxSize) :
    walAppendAll crc c { cur := fileOf crc ser d, rotated := old } (rs.map ser)
      = { cur := fileOf crc ser (d ++ rs), rotated := old } :=
  walAppendAll_fits crc ser c old d rs h

/-- **The node's WAL is never rotated away** (configuration of `RaftNode::with_wal`): whatever is
    appended, in whatever amount, the live file afterwards is what it held followed by the encoding of the
    accepted records (a sublist, in order, of the submitted ones — a refused append writes nothing and is
    reported to the handler as a failure), and no file is renamed. -/
theorem node_wal_is_never_rotated_away (w : WalFiles) (ps : List (List Nat)) :
    ∃ acc : List (List Nat), acc.Sublist ps
      ∧ walAppendAll crc nodeWalCfg w ps = { cur := w.cur ++ encodeAll crc acc, rotated := w.rotated } :=
  walAppendAll_noRotate crc nodeWalCfg rfl w ps

/-- **With `auto_rotate`, the append that crosses the limit makes a restart forget everything before
    it**: whatever the live file held, afterwards it holds the new record only, recovery returns
    `from_entries [r]`, and the old content sits in `<wal>.1`, which nothing reads. -/
theorem rotation_recovers_only_the_new_record (h : GoodSer crc ser deser) (c : WalCfg) (ha : c.autoRotate = true)
    (w : WalFiles) (r : WalEntry) (hrot : w.cur.length + (encodeRec crc (ser r)).length > c.maxSize) :
    ∃ w', walAppend crc c w (ser r) = some w'
      ∧ w'.cur = fileOf crc ser [r]
      ∧ recoverBytes crc deser w'.cur = .ok (fromEntries [r]) 1 .clean
      ∧ w'.rotated.head? = some w.cur := by
  refine ⟨_, walAppend_rotates crc c w (ser r) ha hrot, by simp [fileOf, encodeAll],
    recover_single crc ser deser h r, ?_⟩
  have : max c.maxRot 1 = (max c.maxRot 1 - 1) + 1 := by omega
  rw [this, List.take_succ_cons]; rfl

/-- C10 for a node whose WAL rotates (`with_wal` BEFORE fix c45da25c; the limit scaled down): after any
    crash-free history, what a restart recovers from the live file satisfies the three obligations.
    False — `rotation_forgets_term_vote_log_witness`. -/
def restart_keeps_obligations_with_rotation : Prop :=
  ∀ (maxSize id : Nat) (evs : List Event),
    let σ := exec (initSys id) (evs.map Act.ev)
    let w := walAppendAll wcrc { oldNodeWalCfg with maxSize := maxSize } {} (σ.dur.map toySer)
    ∀ s n e, recoverBytes wcrc toyDeser w.cur = .ok s n e → SatB s σ.ghost = true

/-- the history of the harness' directed regression case `rot.node`: vote for n2 in term 5, entries 1 and
    2 acknowledged, then entry 3 — whose record crosses the limit — acknowledged.  The restart came back
    with term 0, no vote and the log [3]. -/
def rotDemo : List Event :=
  [.requestVote 5 2 0 0, .appendEntries 5 2 0 0 [(5, 11), (5, 12)], .appendEntries 5 2 2 5 [(5, 13)]]

theorem rotation_forgets_term_vote_log_witness : ¬ restart_keeps_obligations_with_rotation := by
  intro hall
  have hw : walAppendAll wcrc { oldNodeWalCfg with maxSize := 50 } {}
        ((exec (initSys 0) (rotDemo.map Act.ev)).dur.map toySer)
      = { cur := encodeRec wcrc (toySer (.logEntryFull 3 5 [3, 5, 13])) ++ [],
          rotated := [encodeAll wcrc [[2, 5], [3, 5, 2], [7, 1, 5, 1, 5, 11], [7, 2, 5, 2, 5, 12]]] } := by
    decide
  have hg : GoodRec wcrc (fun p => (toyDeser p).isSome) (toySer (.logEntryFull 3 5 [3, 5, 13])) := by
    refine ⟨by decide, by decide, by decide⟩
  have hp := parse_cons wcrc (fun p => (toyDeser p).isSome) _ [] hg
  rw [parse_nil] at hp
  have := hall 50 0 rotDemo (fromEntries [.logEntryFull 3 5 [3, 5, 13]]) 1 .clean (by
    rw [hw]
    simp only [recoverBytes, hp]
    rfl)
  revert this
  decide

/-- what exactly was lost in that history: the node had acted in term 5, voted for n2 and acknowledged
    entries 1..3; the restart had term 0, no vote, and entry 3 only -/
example : (exec (initSys 0) (rotDemo.map Act.ev)).ghost.actedTerm = 5
    ∧ (exec (initSys 0) (rotDemo.map Act.ev)).ghost.votes = [(5, 2)]
    ∧ (⟨1, 5, 11⟩ : LogEntry) ∈ (exec (initSys 0) (rotDemo.map Act.ev)).ghost.acked
    ∧ (⟨2, 5, 12⟩ : LogEntry) ∈ (exec (initSys 0) (rotDemo.map Act.ev)).ghost.acked
    ∧ (restart 0 (fromEntries [.logEntryFull 3 5 [3, 5, 13]])).term = 0
    ∧ (restart 0 (fromEntries [.logEntryFull 3 5 [3, 5, 13]])).votedFor = none
    ∧ (restart 0 (fromEntries [.logEntryFull 3 5 [3, 5, 13]])).log = [⟨3, 5, 13⟩] := by decide
/-- … and so it granted n3 the vote of term 5 it had already given to n2 -/
example : (step (restart 0 (fromEntries [.logEntryFull 3 5 [3, 5, 13]])) (.requestVote 5 3 9 9)).reply
    = .vote 5 true := by decide
/-- the hypothesis of `no_rotation_within_size_limit` is satisfiable with a non-trivial history, and the
    one of `rotation_recovers_only_the_new_record` by the next record of the same history -/
example : (fileOf wcrc toySer ((exec (initSys 0) ((rotDemo.take 2).map Act.ev)).dur)).length = 49 := by decide
example : (fileOf wcrc toySer ((exec (initSys 0) ((rotDemo.take 2).map Act.ev)).dur)).length
    + (encodeRec wcrc (toySer (.logEntryFull 3 5 [3, 5, 13]))).length > 50 := by decide
/-- with the node's configuration scaled down the same way (limit 50, no rotation) the crossing append is
    refused and the live file keeps the first four records -/
example : walAppendAll wcrc { nodeWalCfg with maxSize := 50 } {}
      ((exec (initSys 0) (rotDemo.map Act.ev)).dur.map toySer)
    = { cur := encodeAll wcrc [[2, 5], [3, 5, 2], [7, 1, 5, 1, 5, 11], [7, 2, 5, 2, 5, 12]], rotated := [] } := by
  decide

/-! ### histories in which the WAL rejects appends for a while (disk-space check, I/O error, size limit)

  `ActF`: besides `ev e` / `crash e k` as above, `evFail e` runs handler `e` while EVERY `RaftWal::append`
  returns `Err` without writing (what `check_space` does when less than `min_free_space_bytes` is left),
  and `crashFail e k` kills the process `k` micro steps into such a handler.  `execF true` is the code
  as it is; `execF false` is the code before fix 54033160, where `append_leader_entries` pushed a new
  entry into memory BEFORE `persist_log_entry`, left it there when the append failed, and ignored a
  failed `LogTruncate`: the leader's retry then found the entry "already held", wrote nothing and
  acknowledged it — an acknowledged entry that no restart would ever see
  (`acked_entry_lost_before_fix_witness`).  The term/vote theorems hold for both (their invariant does
  not need memory and WAL to agree on the log). -/

/-- **All three obligations survive any mix of WAL failures and crashes.**  After any history — handlers
    with a working WAL, handlers whose appends all fail, crashes at any micro step of either kind — a
    restart has a term at least the highest the node acted in, holds every vote it announced (or is past
    that term), has every acknowledged entry, and memory equals what a restart recovers. -/
theorem all_obligations_survive_wal_failures (id : Nat) (acts : List ActF) :
    let σ := execF true (initSys id) acts
    let r := restart id (fromEntries σ.dur)
    σ.ghost.actedTerm ≤ r.term
      ∧ (∀ v ∈ σ.ghost.votes, v.1 < r.term ∨ (v.1 = r.term ∧ r.votedFor = some v.2))
      ∧ (∀ a ∈ σ.ghost.acked, a ∈ r.log)
      ∧ σ.node.term = r.term ∧ σ.node.votedFor = r.votedFor ∧ σ.node.log = r.log := by
  obtain ⟨hS, hwf, hsat⟩ := inv_execF_fixed (initSys id) acts (inv_init id)
  have hlog : (restart id (fromEntries (execF true (initSys id) acts).dur)).log = (execF true (initSys id) acts).node.log := by
    simp only [restart, recoveredLog, hS.2.2]
    exact filterMap_dec _
  refine ⟨hsat.1, hsat.2.1, ?_, hS.1, hS.2.1, hlog.symm⟩
  intro a ha
  rw [hlog]
  have hmem := hsat.2.2 a ha
  rw [hS.2.2] at hmem
  exact mem_map_entKV.mp hmem

/-- the file cut at byte `n` while handler `e` (WAL working again) runs after a history with failures -/
def crashFileF (id : Nat) (acts : List ActF) (e : Event) (n : Nat) : List Nat :=
  let σ := execF true (initSys id) acts
  (fileOf crc ser (σ.dur ++ recs (step σ.node e).micros)).take n

/-- **Byte-granular crash after a history with WAL failures**: the cut file recovers without error to
    the record-level crash state, is repaired to its exact encoding, and the restarted node satisfies the
    three obligations in force at that micro step. -/
theorem byte_crash_with_wal_failures (h : GoodSer crc ser deser) (id : Nat) (acts : List ActF) (e : Event)
    (n : Nat) (hn : (fileOf crc ser (execF true (initSys id) acts).dur).length ≤ n) :
    ∃ s cnt en, recoverBytes crc deser (crashFileF crc ser id acts e n) = .ok s cnt en ∧
      ∀ k, (execF true (initSys id) acts).dur.length
            + (recs ((step (execF true (initSys id) acts).node e).micros.take k)).length = cnt →
        let σ' := execActF true (execF true (initSys id) acts) (.crash e k)
        s = fromEntries σ'.dur ∧ openRepair (crashFileF crc ser id acts e n) = fileOf crc ser σ'.dur
          ∧ σ'.ghost.actedTerm ≤ (restart id s).term
          ∧ (∀ v ∈ σ'.ghost.votes, v.1 < (restart id s).term
                ∨ (v.1 = (restart id s).term ∧ (restart id s).votedFor = some v.2))
          ∧ (∀ a ∈ σ'.ghost.acked, a ∈ (restart id s).log) := by
  obtain ⟨j, _, ⟨en, hrec⟩, hrep⟩ := byte_cut crc ser deser h (execF true (initSys id) acts).dur
    (recs (step (execF true (initSys id) acts).node e).micros) n hn
  refine ⟨_, _, en, hrec, ?_⟩
  intro k hk
  have hj : (recs ((step (execF true (initSys id) acts).node e).micros.take k)).length = j := by omega
  have hd : (execActF true (execF true (initSys id) acts) (.crash e k)).dur
      = (execF true (initSys id) acts).dur ++ (recs (step (execF true (initSys id) acts).node e).micros).take j := by
    simp only [execActF, stepM, Bool.false_eq_true, if_false]
    rw [recs_take, hj]
  have hinv := inv_execActF_fixed _ (.crash e k) (inv_execF_fixed (initSys id) acts (inv_init id))
  obtain ⟨hS, hwf, hsat⟩ := hinv
  rw [hd] at hS hsat
  refine ⟨by rw [hd], by rw [hd]; exact hrep, hsat.1, hsat.2.1, ?_⟩
  intro a ha
  have hmem := hsat.2.2 a ha
  have hshape : Shape (fromEntries ((execF true (initSys id) acts).dur
      ++ (recs (step (execF true (initSys id) acts).node e).micros).take j)) := ⟨_, hwf, hS.2.2⟩
  have hsync := (restart_sync id _ hshape).1.2.2
  rw [hsync] at hmem
  exact mem_map_entKV.mp hmem

/-- **No double vote, WAL failures included.** -/
theorem no_double_vote_with_wal_failures (id : Nat) (acts : List ActF)
    (t c1 c2 : Nat) (h1 : (t, c1) ∈ (execF true (initSys id) acts).ghost.votes)
    (h2 : (t, c2) ∈ (execF true (initSys id) acts).ghost.votes) : c1 = c2 := by
  have hf := votesFn_execF true (initSys id) acts (tvinv_init id) (by intro v hv; simp [initSys] at hv)
  exact hf (t, c1) h1 (t, c2) h2 rfl

/-- **Term and vote do not depend on memory and WAL agreeing on the log**: for the code as it is
    (`fixed = true`) and as it was before fix 54033160 (`false`) alike. -/
theorem term_and_vote_survive_wal_failures (fixed : Bool) (id : Nat) (acts : List ActF) :
    let σ := execF fixed (initSys id) acts
    let r := restart id (fromEntries σ.dur)
    σ.ghost.actedTerm ≤ r.term
      ∧ (∀ v ∈ σ.ghost.votes, v.1 < r.term ∨ (v.1 = r.term ∧ r.votedFor = some v.2))
      ∧ σ.node.term = r.term ∧ σ.node.votedFor = r.votedFor := by
  have h := tvinv_execF fixed (initSys id) acts (tvinv_init id)
  exact ⟨h.2.1, h.2.2, h.1.1, h.1.2⟩

/-- the log obligation in histories with WAL failures for the code BEFORE fix 54033160.  False —
    `acked_entry_lost_before_fix_witness`. -/
def acked_entries_survive_wal_failures_before_fix : Prop :=
  ∀ (id : Nat) (acts : List ActF),
    let σ := execF false (initSys id) acts
    ∀ a ∈ σ.ghost.acked, a ∈ (restart id (fromEntries σ.dur)).log

/-- entry 1 acknowledged; AppendEntries(entry 2) while the WAL rejects appends: answered `success = false`;
    the leader repeats the request with the WAL working again.  (Directed regression case of the harness.) -/
def failDemo : List ActF :=
  [.ev (.appendEntries 1 2 0 0 [(1, 11)]),
   .evFail (.appendEntries 1 2 1 1 [(1, 12)]),
   .ev (.appendEntries 1 2 1 1 [(1, 12)])]

theorem acked_entry_lost_before_fix_witness : ¬ acked_entries_survive_wal_failures_before_fix := by
  intro hall
  have := hall 0 failDemo ⟨2, 1, 12⟩ (by decide)
  revert this
  decide

/-- the three steps of `failDemo` before the fix: entry 2 stayed in memory, the retry found it "already
    held", wrote nothing and answered `success = true, match_index = 2`; a restart had entry 1 only … -/
example : (stepFailOld (execF false (initSys 0) (failDemo.take 1)).node (.appendEntries 1 2 1 1 [(1, 12)])).reply
      = .append 1 false 2
    ∧ (execF false (initSys 0) (failDemo.take 2)).node.log = [⟨1, 1, 11⟩, ⟨2, 1, 12⟩]
    ∧ (execF false (initSys 0) (failDemo.take 2)).dur = (execF false (initSys 0) (failDemo.take 1)).dur
    ∧ (step (execF false (initSys 0) (failDemo.take 2)).node (.appendEntries 1 2 1 1 [(1, 12)])).reply
      = .append 1 true 2
    ∧ recs (step (execF false (initSys 0) (failDemo.take 2)).node (.appendEntries 1 2 1 1 [(1, 12)])).micros = []
    ∧ (restart 0 (fromEntries (execF false (initSys 0) failDemo).dur)).log = [⟨1, 1, 11⟩] := by decide
/-- … and as the code is: the failing call leaves memory alone, the retry writes the record -/
example : (execF true (initSys 0) (failDemo.take 2)).node.log = [⟨1, 1, 11⟩]
    ∧ (restart 0 (fromEntries (execF true (initSys 0) failDemo).dur)).log = [⟨1, 1, 11⟩, ⟨2, 1, 12⟩] := by decide
/-- a history with every kind of act: failing election, failing vote request of a higher term (answered
    with the old term), a granted vote, a conflicting entry refused while the WAL fails, crashes of both
    kinds, a pre-vote quorum that cannot start its election, one that can, votes making the node leader -/
def failActs : List ActF :=
  [.evFail .startElection, .evFail (.requestVote 3 2 0 0), .ev (.requestVote 3 2 0 0),
   .ev (.appendEntries 3 2 0 0 [(3, 11), (3, 12)]), .ev (.appendEntries 4 1 0 0 []),
   .evFail (.appendEntries 4 1 1 3 [(4, 22)]), .crashFail (.appendEntries 4 1 1 3 [(4, 22)]) 1,
   .evFail (.propose 5), .crash (.requestVote 9 4 9 9) 1,
   .ev .startPreVote, .evFail (.preVoteResponse 1 9 true), .evFail (.preVoteResponse 2 9 true),
   .ev .startPreVote, .ev (.preVoteResponse 1 9 true), .ev (.preVoteResponse 2 9 true),
   .ev (.voteResponse 1 10 true), .evFail (.voteResponse 2 10 true), .ev (.propose 77)]
example : (execF true (initSys 0) (failActs.take 2)).node.term = 0
    ∧ (stepFail (initSys 0).node (.requestVote 3 2 0 0)).reply = .vote 0 false
    ∧ (execF true (initSys 0) (failActs.take 3)).ghost.votes = [(3, 2)]
    ∧ (execF true (initSys 0) (failActs.take 6)).node.log = [⟨1, 3, 11⟩, ⟨2, 3, 12⟩]
    ∧ (execF false (initSys 0) (failActs.take 6)).node.log = [⟨1, 3, 11⟩, ⟨2, 4, 22⟩]
    ∧ (execF true (initSys 0) (failActs.take 9)).node.term = 9
    ∧ (execF true (initSys 0) (failActs.take 12)).node.term = 9
    ∧ (execF true (initSys 0) (failActs.take 12)).node.inPreVote = false
    ∧ (execF true (initSys 0) (failActs.take 15)).node.term = 10
    ∧ (execF true (initSys 0) (failActs.take 15)).node.role = .candidate
    ∧ (execF true (initSys 0) (failActs.take 17)).node.role = .leader
    ∧ (execF true (initSys 0) failActs).ghost.votes = [(10, 0), (3, 2)]
    ∧ (⟨3, 10, 77⟩ : LogEntry) ∈ (execF true (initSys 0) failActs).ghost.acked := by decide

/-! ### a crash inside a snapshot install, judged by the ORDER and not by the records written

  The theorems above release the obligation about an acknowledged entry at the WAL record that starts to
  drop it (`microG`): right for the code as it is, where such a record is only ever written on a leader's
  order — but blind to a handler that writes one unasked.  `install_snapshot_entries` with its two WAL
  steps swapped (one `LogTruncate{first.index}` up front, then the entries: `installSnapshotTruncateFirst`)
  satisfies every `microG`-based statement, because its own first record "releases" all it had
  acknowledged, and recovers the identical log after a complete install; yet a crash between the
  truncation record and the last re-written entry restarts the node without entries it had acknowledged
  and that the snapshot itself REPEATS.  The statements below take the licence from the snapshot alone:
  an acknowledged entry `a ∈ mkEntries 0 ents` (same index, term and payload in the snapshot) is dropped
  or replaced by no part of the order, so it must be in the log recovered from EVERY prefix of what the
  install writes.  (Entries beyond the snapshot's last index and entries the snapshot contradicts are the
  ones the order does remove; for them the `microG` statements say until which record they stay.) -/

/-- "wherever a crash cuts the records of a snapshot install, every entry the node had acknowledged before
    and the snapshot repeats is still recovered" — for an install handler `install`, after any history
    (handlers, periods of failing WAL appends, crashes of both kinds), any snapshot, any number `j` of
    surviving records -/
def InstallCutKeepsAcked (install : Node → Nat → Nat → List (Nat × Nat) → StepOut) : Prop :=
  ∀ (id : Nat) (acts : List ActF) (li lt : Nat) (ents : List (Nat × Nat)) (j : Nat),
    let σ := execF true (initSys id) acts
    ∀ a ∈ σ.ghost.acked, a ∈ mkEntries 0 ents →
      a ∈ (restart id (fromEntries (σ.dur ++ (recs (install σ.node li lt ents).micros).take j))).log

/-- **Record level.** The code as it is (`LogEntryFull` per snapshot entry first, `LogTruncate{last+1}`
    last) keeps them at every record cut. -/
theorem snapshot_install_record_cut_keeps_acknowledged_entries :
    InstallCutKeepsAcked (fun n li lt ents => step n (.installSnapshot li lt ents)) := by
  intro id acts li lt ents j σ a hack ha
  exact mem_restart_log id
    (install_prefix_keeps σ (inv_execF_fixed (initSys id) acts (inv_init id)) li lt ents j hack ha)

/-- **Byte level: a crash at ANY byte inside a snapshot install keeps every acknowledged entry the
    snapshot repeats.**  After any history `acts` (handlers, WAL-failure periods, crashes), for any snapshot
    `(li, lt, ents)` — accepted or refused, reaching beyond the node's log, ending below it with a local
    suffix beyond its index, contradicting it — and any cut `n` of the WAL file that keeps the part synced
    before the install started: recovery succeeds, and every entry the node had acknowledged before the
    install that occurs in the snapshot is in the restarted node's log. -/
theorem snapshot_install_cut_keeps_acknowledged_entries (h : GoodSer crc ser deser) (id : Nat) (acts : List ActF)
    (li lt : Nat) (ents : List (Nat × Nat)) (n : Nat)
    (hn : (fileOf crc ser (execF true (initSys id) acts).dur).length ≤ n) :
    ∃ s cnt en, recoverBytes crc deser (crashFileF crc ser id acts (.installSnapshot li lt ents) n) = .ok s cnt en ∧
      ∀ a ∈ (execF true (initSys id) acts).ghost.acked, a ∈ mkEntries 0 ents → a ∈ (restart id s).log := by
  obtain ⟨j, _, ⟨en, hrec⟩, _⟩ := byte_cut crc ser deser h (execF true (initSys id) acts).dur
    (recs (step (execF true (initSys id) acts).node (.installSnapshot li lt ents)).micros) n hn
  exact ⟨_, _, en, hrec, fun a hack ha =>
    snapshot_install_record_cut_keeps_acknowledged_entries id acts li lt ents j a hack ha⟩

/-- The same statement for the truncate-first order is false: the follower acknowledges entries 1..5
    (`match_index = 5`), then installs the snapshot 1..8 of the same leader; with only the install's first
    record on disk (`LogTruncate{1}`) the restarted node has an empty log.  (The harness' directed case
    `install.cut` / `snapshot_beyond_acked`; on the real node 725 of the install's 1172 byte cuts.) -/
theorem truncate_first_install_loses_acknowledged_entries_witness :
    ¬ InstallCutKeepsAcked installSnapshotTruncateFirst := by
  intro hall
  have := hall 0 [.ev (.appendEntries 1 1 0 0 [(1, 101), (1, 102), (1, 103), (1, 104), (1, 105)])] 8 1
    [(1, 101), (1, 102), (1, 103), (1, 104), (1, 105), (1, 106), (1, 107), (1, 108)] 1
    ⟨5, 1, 105⟩ (by decide) (by decide)
  revert this
  decide

/-- the history of the witness -/
def installDemo : List ActF := [.ev (.appendEntries 1 1 0 0 [(1, 101), (1, 102), (1, 103), (1, 104), (1, 105)])]
def installDemoSnap : List (Nat × Nat) :=
  [(1, 101), (1, 102), (1, 103), (1, 104), (1, 105), (1, 106), (1, 107), (1, 108)]

/-- non-vacuity of the three statements: all five entries are acknowledged and repeated by the snapshot,
    the install is accepted and writes 9 records (8 `LogEntryFull`, `LogTruncate{9}`) -/
example : (execF true (initSys 0) installDemo).ghost.acked.length = 5
    ∧ (∀ a ∈ (execF true (initSys 0) installDemo).ghost.acked, a ∈ mkEntries 0 installDemoSnap)
    ∧ (step (execF true (initSys 0) installDemo).node (.installSnapshot 8 1 installDemoSnap)).reply = .snapshot true
    ∧ (recs (step (execF true (initSys 0) installDemo).node (.installSnapshot 8 1 installDemoSnap)).micros).length = 9
    ∧ (recs (step (execF true (initSys 0) installDemo).node (.installSnapshot 8 1 installDemoSnap)).micros).getLast?
        = some (.logTruncate 9) := by decide
/-- the truncate-first order after 1, 3 and 6 of its 9 records: log empty, [1, 2], [1 … 5]; complete: the
    same log as the real order — no crash-free run tells the two apart -/
example :
    let σ := execF true (initSys 0) installDemo
    let rs := recs (installSnapshotTruncateFirst σ.node 8 1 installDemoSnap).micros
    rs.head? = some (.logTruncate 1) ∧ rs.length = 9
    ∧ (restart 0 (fromEntries (σ.dur ++ rs.take 1))).log = []
    ∧ (restart 0 (fromEntries (σ.dur ++ rs.take 3))).log = [⟨1, 1, 101⟩, ⟨2, 1, 102⟩]
    ∧ (restart 0 (fromEntries (σ.dur ++ rs.take 6))).log.length = 5
    ∧ (restart 0 (fromEntries (σ.dur ++ rs))).log
        = (restart 0 (fromEntries (σ.dur ++ recs (step σ.node (.installSnapshot 8 1 installDemoSnap)).micros))).log
    ∧ (installSnapshotTruncateFirst σ.node 8 1 installDemoSnap).node
        = (step σ.node (.installSnapshot 8 1 installDemoSnap)).node := by decide
/-- why the `microG`-based theorems cannot see it: the variant's first record releases every obligation
    about the log, so "every entry still owed is recovered" holds trivially at that cut -/
example :
    let σ := execF true (initSys 0) installDemo
    (microAllG σ.ghost ((installSnapshotTruncateFirst σ.node 8 1 installDemoSnap).micros.take 1)).acked = [] := by
  decide
/-- what the order does remove (and the real install removes only with its last record): a snapshot 1..3
    over the acknowledged 1..5 keeps 4 and 5 through every proper prefix and drops them at `LogTruncate{4}`;
    entries 1..3 — the ones the theorem speaks about — are there throughout -/
example :
    let σ := execF true (initSys 0) installDemo
    let rs := recs (step σ.node (.installSnapshot 3 1 (installDemoSnap.take 3))).micros
    rs.length = 4
    ∧ (restart 0 (fromEntries (σ.dur ++ rs.take 3))).log.length = 5
    ∧ (restart 0 (fromEntries (σ.dur ++ rs))).log = [⟨1, 1, 101⟩, ⟨2, 1, 102⟩, ⟨3, 1, 103⟩] := by decide
/-- a snapshot that contradicts the log and leaves a conflicting local suffix beyond its index (entries 1, 2
    repeated, 3 replaced, 4 and 5 beyond): 1 and 2 survive every cut, here after TV2, F1, F2, F3 -/
example :
    let σ := execF true (initSys 0) installDemo
    let rs := recs (step σ.node (.installSnapshot 3 2 [(1, 101), (1, 102), (2, 203)])).micros
    rs.length = 5
    ∧ (restart 0 (fromEntries (σ.dur ++ rs.take 4))).log
        = [⟨1, 1, 101⟩, ⟨2, 1, 102⟩, ⟨3, 2, 203⟩, ⟨4, 1, 104⟩, ⟨5, 1, 105⟩] := by decide

/-! ### log compaction (`truncate_log`, `log_base_index`)

  Compaction (a leader's `tick` → `try_auto_compact` → `perform_compaction` → `truncate_log`, or
  `with_store`'s re-truncation) drains the head of the IN-MEMORY log and moves `log_base_index`; it writes
  nothing to the WAL.  In the model `Node.log` stays the whole log and the node's `persistent.log` is
  `log.drop base`; `compact` is an event of `step` (so every theorem above quantifies over histories with
  compactions anywhere), handlers skip entries at or below `base` and treat a compacted `prev_log_index`
  as consistent, as the code does. -/

/-- **Compaction never costs a restart anything**: after any history with compactions, failures and
    crashes, the log a restart recovers is the whole log, of which the node's in-memory log is the part
    beyond `log_base_index`; and compaction itself appends no record. -/
theorem compacted_node_restarts_with_its_whole_log (id : Nat) (acts : List ActF) :
    let σ := execF true (initSys id) acts
    let r := restart id (fromEntries σ.dur)
    r.log = σ.node.log ∧ (σ.node.log.drop σ.node.base) <:+ r.log ∧ r.base = 0
      ∧ ∀ i, recs (step σ.node (.compact i)).micros = [] := by
  have h := all_obligations_survive_wal_failures id acts
  refine ⟨h.2.2.2.2.2.symm, ?_, rfl, fun i => rfl⟩
  rw [← h.2.2.2.2.2]
  exact List.drop_suffix _ _

/-- a follower with entries 1..5, trailing = 1: compaction at snapshot index 4 drains 3 entries from memory
    (base 3); a heartbeat whose prev (2) is compacted is accepted, an entry at a compacted index (3) is
    skipped even though its term differs, entry 6 is appended and logged; a restart has all six -/
def compactDemo : List ActF :=
  [.ev (.appendEntries 1 2 0 0 [(1, 11), (1, 12), (1, 13), (1, 14), (1, 15)]),
   .ev (.compact 4),
   .ev (.appendEntries 2 3 2 9 [(2, 99)]),
   .ev (.appendEntries 2 3 5 1 [(2, 16)])]
example : (execF true { node := { id := 0, trailing := 1 } } (compactDemo.take 2)).node.base = 3
    ∧ ((execF true { node := { id := 0, trailing := 1 } } (compactDemo.take 2)).node.log.drop 3).length = 2
    ∧ (step (execF true { node := { id := 0, trailing := 1 } } (compactDemo.take 2)).node
          (.appendEntries 2 3 2 9 [(2, 99)])).reply = .append 2 true 3
    ∧ recs (step (execF true { node := { id := 0, trailing := 1 } } (compactDemo.take 2)).node
          (.appendEntries 2 3 2 9 [(2, 99)])).micros = [.termAndVote 2 none]
    ∧ (execF true { node := { id := 0, trailing := 1 } } compactDemo).node.log.length = 6
    ∧ (restart 0 (fromEntries (execF true { node := { id := 0, trailing := 1 } } compactDemo).dur)).log.length = 6 := by
  decide
/-- with the default `snapshot_trailing_logs` (100) the same compaction drains nothing -/
example : (execF true (initSys 0) (compactDemo.take 2)).node.base = 0 := by decide

/-! ### elections started by messages

  `start_election` is also reached from `handle_pre_vote_response` (a quorum of pre-votes) and from
  `handle_timeout_now` (leadership transfer), and `become_leader` from `handle_request_vote_response` (a
  quorum of votes).  These are events of `step`, so every theorem above covers them; the examples show the
  paths are taken. -/

def electDemo : List Act :=
  [.ev .startPreVote, .ev (.preVoteResponse 1 0 true), .ev (.preVoteResponse 1 0 true),
   .ev (.preVoteResponse 2 0 true),
   .ev (.voteResponse 1 1 true), .ev (.voteResponse 2 1 true), .ev (.propose 7),
   .ev (.appendEntries 2 3 0 0 []), .crash (.timeoutNow 3 2 3) 1, .ev (.timeoutNow 3 2 3),
   .ev (.appendEntries 2 3 0 0 []), .ev (.timeoutNow 4 2 3)]
/-- two distinct pre-votes plus its own make the quorum of 3 (a repeated one is not counted): the election
    writes TV(1, self) before anything is announced -/
example : (exec (initSys 0) (electDemo.take 3)).node.term = 0
    ∧ recs (step (exec (initSys 0) (electDemo.take 3)).node (.preVoteResponse 2 0 true)).micros
        = [.termAndVote 1 (some 0)]
    ∧ (exec (initSys 0) (electDemo.take 4)).node.role = .candidate
    ∧ (exec (initSys 0) (electDemo.take 6)).node.role = .leader
    ∧ (exec (initSys 0) (electDemo.take 7)).node.log = [⟨1, 1, 7⟩] := by decide
/-- TimeoutNow from the believed leader: a crash after the record but before the announcement restarts the
    node in term 3 with its own vote; a TimeoutNow of a stale term (the node is now in term 3) is ignored;
    after a new heartbeat from leader 3 in term 3 … the last one names leader 3 and is honoured -/
example : (exec (initSys 0) (electDemo.take 9)).node.term = 3
    ∧ (exec (initSys 0) (electDemo.take 9)).node.votedFor = some 0
    ∧ (exec (initSys 0) (electDemo.take 9)).ghost.votes = [(1, 0)]
    ∧ (exec (initSys 0) (electDemo.take 10)).node.term = 3
    ∧ (exec (initSys 0) electDemo).node.term = 3 := by decide

end Neumann.RaftWal.Props
