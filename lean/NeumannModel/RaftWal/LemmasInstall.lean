import NeumannModel.RaftWal.LemmasFail
/-
  C10, a crash INSIDE a snapshot install, judged by the order the install carries out and not by the
  records it happens to write.

  `microG` (Model.lean) ends the obligation about an acknowledged entry at the WAL record that starts to
  drop it, so the theorems built on it are blind to a handler that writes such a record without being
  ordered to: an install that begins with `LogTruncate{1}` "releases" every acknowledged entry by its
  own first record.  Here the licence comes from the snapshot alone: an acknowledged entry that the
  snapshot REPEATS (`a ∈ mkEntries 0 ents`) must be recoverable from every prefix of the install's
  records.  `Keeps a r`: replaying record `r` cannot remove `a` from the recovered map.
-/
namespace Neumann.RaftWal

/-- replaying `r` leaves `(a.index, encEntry a)` in the recovered map -/
def Keeps (a : LogEntry) : WalEntry → Prop
  | .logTruncate f => a.index < f
  | .logEntryFull i _ d => i ≠ a.index ∨ d = encEntry a
  | _ => True

theorem mem_mapInsert_self (k : Nat) (v : List Nat) (m : List (Nat × List Nat)) : (k, v) ∈ mapInsert k v m := by
  induction m with
  | nil => simp [mapInsert]
  | cons x r ih =>
    obtain ⟨k', v'⟩ := x
    simp only [mapInsert]
    split
    · simp
    · split
      · simp
      · exact List.mem_cons_of_mem _ ih

theorem mem_mapInsert_other {k i : Nat} {v d : List Nat} {m : List (Nat × List Nat)} (h : (k, v) ∈ m)
    (hne : i ≠ k) : (k, v) ∈ mapInsert i d m := by
  induction m with
  | nil => simp at h
  | cons x r ih =>
    obtain ⟨k', v'⟩ := x
    simp only [mapInsert]
    split
    · exact List.mem_cons_of_mem _ h
    · split
      · next heq =>
        rcases List.mem_cons.mp h with hx | hr
        · simp only [Prod.mk.injEq] at hx; omega
        · exact List.mem_cons_of_mem _ hr
      · rcases List.mem_cons.mp h with hx | hr
        · rw [hx]; exact List.mem_cons_self
        · exact List.mem_cons_of_mem _ (ih hr)

theorem keeps_applyEntry {a : LogEntry} {s : RState} {r : WalEntry} (h : entKV a ∈ s.logMap) (hk : Keeps a r) :
    entKV a ∈ (applyEntry s r).logMap := by
  cases r with
  | termChange t => simp only [applyEntry]; split <;> exact h
  | voteCast t c => simp only [applyEntry]; repeat' split
                    all_goals exact h
  | termAndVote t v => simp only [applyEntry]; repeat' split
                       all_goals exact h
  | logAppend i t => exact h
  | snapshotTaken i t => simp only [applyEntry]; split <;> exact h
  | logTruncate f =>
    simp only [applyEntry, mapRemoveFrom, List.mem_filter]
    exact ⟨h, decide_eq_true hk⟩
  | logEntryFull i t d =>
    simp only [applyEntry]
    rcases hk with hne | heq
    · exact mem_mapInsert_other h hne
    · by_cases hi : i = a.index
      · subst hi; rw [heq]; exact mem_mapInsert_self _ _ _
      · exact mem_mapInsert_other h hi

theorem keeps_applyAll {a : LogEntry} {s : RState} {rs : List WalEntry} (h : entKV a ∈ s.logMap)
    (hk : ∀ r ∈ rs, Keeps a r) : entKV a ∈ (applyAll s rs).logMap := by
  induction rs generalizing s with
  | nil => exact h
  | cons r rs ih =>
    simp only [applyAll, List.foldl_cons]
    exact ih (keeps_applyEntry h (hk r List.mem_cons_self)) (fun r' hr' => hk r' (List.mem_cons_of_mem _ hr'))

/-- an entry of the recovered map is an entry of the restarted node's log (no `Shape` needed) -/
theorem mem_restart_log {a : LogEntry} {s : RState} (id : Nat) (h : entKV a ∈ s.logMap) : a ∈ (restart id s).log := by
  simp only [restart, recoveredLog, List.mem_filterMap, List.mem_map]
  exact ⟨encEntry a, ⟨entKV a, h, rfl⟩, decEntry_encEntry a⟩

theorem mem_recs {r : WalEntry} {ms : List Micro} : r ∈ recs ms ↔ Micro.wal r ∈ ms := by
  simp only [recs, List.mem_filterMap]
  constructor
  · rintro ⟨μ, hμ, hr⟩
    cases μ <;> simp at hr
    subst hr; exact hμ
  · intro h; exact ⟨_, h, rfl⟩

/-- in a well-numbered list the index determines the entry -/
theorem wf_index_inj {b : Nat} {l : List LogEntry} (h : WFfrom b l) {e a : LogEntry} (he : e ∈ l) (ha : a ∈ l)
    (hi : e.index = a.index) : e = a := by
  induction l generalizing b with
  | nil => simp at he
  | cons x r ih =>
    simp only [WFfrom] at h
    rcases List.mem_cons.mp he with rfl | her <;> rcases List.mem_cons.mp ha with rfl | har
    · rfl
    · have := wf_index h.2 har; omega
    · have := wf_index h.2 her; omega
    · exact ih h.2 her har

/-- **Every record `install_snapshot` writes keeps every entry the snapshot repeats** — the code as it
    is: `TermAndVote` (log untouched), `LogEntryFull` per snapshot entry (the one of `a`'s index carries
    `a` itself), `LogTruncate{last+1}` (beyond `a`). -/
theorem install_records_keep (n : Node) (li lt : Nat) (ents : List (Nat × Nat)) {a : LogEntry}
    (ha : a ∈ mkEntries 0 ents) : ∀ r ∈ recs (step n (.installSnapshot li lt ents)).micros, Keeps a r := by
  intro r hr
  rw [mem_recs] at hr
  have hwf := mkEntries_wf 0 ents
  simp only [step] at hr
  split at hr
  · simp at hr
  · next last hlast =>
    split at hr
    · simp at hr
    · split at hr
      · simp at hr
      · simp only [List.mem_append, List.mem_map, List.mem_cons, List.not_mem_nil, or_false] at hr
        rcases hr with (hpre | ⟨w, ⟨e, he, rfl⟩, hw⟩) | hlt | hx | hx
        · simp only [preHigher] at hpre
          split at hpre
          · simp only [List.mem_cons, List.not_mem_nil, or_false, Micro.wal.injEq] at hpre
            subst hpre; trivial
          · simp at hpre
        · simp only [Micro.wal.injEq] at hw
          subst hw
          by_cases hi : e.index = a.index
          · right; rw [wf_index_inj hwf he ha hi]
          · left; exact hi
        · simp only [Micro.wal.injEq] at hlt
          subst hlt
          have h1 := wf_getLast hwf hlast
          have h2 := wf_index hwf ha
          simp only [Keeps]; omega
        · simp at hx
        · simp at hx

/-- record level: whatever prefix of the install's records survives, the recovered map still holds every
    acknowledged entry the snapshot repeats -/
theorem install_prefix_keeps (σ : Sys) (hinv : Inv σ) (li lt : Nat) (ents : List (Nat × Nat)) (j : Nat)
    {a : LogEntry} (hack : a ∈ σ.ghost.acked) (ha : a ∈ mkEntries 0 ents) :
    entKV a ∈ (fromEntries (σ.dur ++ (recs (step σ.node (.installSnapshot li lt ents)).micros).take j)).logMap := by
  rw [fromEntries_append]
  refine keeps_applyAll (hinv.2.2.2.2 a hack) (fun r hr => ?_)
  exact install_records_keep σ.node li lt ents ha r (List.mem_of_mem_take hr)

end Neumann.RaftWal
