import NeumannModel.RaftWal.LemmasReplay
import NeumannModel.RaftWal.Props
/-
  C10 — the write side, `open` and the read side of the Raft WAL accept the same records.

  `RaftWal::append` has no per-record size limit (only `max_size_bytes` of the whole file, which the
  node's WAL sets to `u64::MAX`), `complete_frames_len` (`open`) keeps every complete frame whatever
  its length, and `replay_with_validation` reads every complete frame whatever its length: every
  record whose append was acknowledged is replayed, whatever its size (a `LogEntryFull` whose block
  carries megabytes of transaction data arrives through AppendEntries, `propose` and snapshot
  installs alike), and so is every record written after it.  The theorems of `Props.lean` already
  hold for EVERY `ser`, i.e. for every assignment of payload lengths; here the agreement is stated on
  its own — at the level of frames, of one append, and of a restart — together with the contrast: a
  replay that refuses frames longer than some cap (`recoverBytesCapped`, NOT the code) agrees with
  `recoverBytes` exactly as long as every record is short — which is why ordinary logs of empty
  blocks never show the difference — and from the first longer record on hides every later record:
  acknowledged entries, term records and votes alike, so that the restarted node comes back in an
  older term and grants a second candidate the vote of a term in which it had already voted
  (`capped_replay_forgets_entry_term_and_vote_witness`).
  ONLY property theorems and their non-vacuity examples; helpers are in `LemmasReplay.lean`.
-/
namespace Neumann.RaftWal.PropsReplay
open Neumann.RaftWal Neumann.FramedLog Neumann.RaftWal.Props

variable (crc : List Nat → Nat) (ser : WalEntry → List Nat) (deser : List Nat → Option WalEntry)

/-! ### frames -/

/-- **`open` and replay accept the frame `append` writes for a payload of ANY length.**  The only
    conditions on the payload are the ones the writer guarantees: its length fits the 4-byte length
    field, the checksum is a `u32`, bitcode decodes it.  `complete_frames_len` steps over the frame
    and replay returns its payload; whatever follows the frame is then read exactly as if the frame
    were not there: a long record never ends the replay and never shortens what `open` keeps. -/
theorem open_and_replay_accept_frames_of_any_length (p rest : List Nat)
    (hlen : p.length < U32) (hcrc : crc p < U32) (hdec : (deser p).isSome = true) :
    parse crc (fun q => (deser q).isSome) (encodeRec crc p ++ rest)
        = (p :: (parse crc (fun q => (deser q).isSome) rest).1, (parse crc (fun q => (deser q).isSome) rest).2)
    ∧ validPrefixLen (encodeRec crc p ++ rest) = (8 + p.length) + validPrefixLen rest := by
  refine ⟨parse_cons crc _ p rest ⟨hlen, hcrc, hdec⟩, ?_⟩
  rw [validPrefixLen_cons crc p rest hlen, encodeRec_length]

-- non-vacuity: the 2 MiB payload satisfies the hypotheses (with the constant checksum 0 and a
-- decoder that accepts payloads of exactly that length)
example : bigPayload.length < U32 ∧ (fun _ : List Nat => 0) bigPayload < U32
    ∧ ((fun q : List Nat => if q.length = 2097152 then some (WalEntry.logTruncate 0) else none) bigPayload).isSome = true := by
  refine ⟨by rw [bigPayload_length]; decide, by decide, ?_⟩
  show (if bigPayload.length = 2097152 then some (WalEntry.logTruncate 0) else none).isSome = true
  rw [if_pos bigPayload_length]; rfl

/-! ### one append -/

/-- **The write side refuses a record only because of the size of the FILE.**  `append` answers
    `SizeLimitExceeded` exactly when `auto_rotate` is off and the live file plus the record's frame
    would exceed `max_size_bytes`; there is no other, per-record, limit.  An accepted record's frame
    is in the live file afterwards (appended to it, or — rotation — alone in a fresh one). -/
theorem append_refuses_only_by_file_size (c : WalCfg) (w : WalFiles) (p : List Nat) :
    (walAppend crc c w p = none ↔ c.autoRotate = false ∧ c.maxSize < w.cur.length + (8 + p.length))
    ∧ (∀ w', walAppend crc c w p = some w' →
          w'.cur = w.cur ++ encodeRec crc p ∨ w'.cur = encodeRec crc p) := by
  unfold walAppend
  simp only [encodeRec_length]
  by_cases hfit : w.cur.length + (8 + p.length) > c.maxSize
  · cases hrot : c.autoRotate
    · simp [hfit]
    · simp [hfit]
  · simp only [hfit, if_false]
    refine ⟨by simp, fun w' h => ?_⟩
    left; simp only [Option.some.injEq] at h; rw [← h]

/-- **Every append the node's WAL acknowledged is kept by `open` and replayed, whatever the record's
    size.**  With the configuration of `RaftNode::with_wal` (no rotation, limit `u64::MAX`): if the
    live file holds the records `d` and stays below 2^64 bytes with the new record `r`, `append`
    accepts `r` — however long its payload —, reopening leaves the file as it is, and recovery returns
    all of `d ++ [r]`.  (Apply the statement again for the next append: the new file is again the
    encoding of its log; so a record written AFTER the longest one the file has ever seen is
    replayed as well.) -/
theorem node_append_is_recovered_whatever_its_size (old : List (List Nat)) (d : List WalEntry) (r : WalEntry)
    (h : CodecOK crc ser deser (d ++ [r]))
    (hfile : (fileOf crc ser (d ++ [r])).length ≤ nodeWalCfg.maxSize) :
    walAppend crc nodeWalCfg { cur := fileOf crc ser d, rotated := old } (ser r)
        = some { cur := fileOf crc ser (d ++ [r]), rotated := old }
    ∧ openRepair (fileOf crc ser (d ++ [r])) = fileOf crc ser (d ++ [r])
    ∧ recoverBytes crc deser (fileOf crc ser (d ++ [r])) = .ok (fromEntries (d ++ [r])) (d.length + 1) .clean := by
  refine ⟨?_, openRepair_fileOf crc ser deser _ h, ?_⟩
  · rw [fileOf_snoc] at hfile ⊢
    rw [walAppend_fits crc nodeWalCfg _ _ (by rw [List.length_append] at hfile; exact hfile)]
  · have := recover_fileOf crc ser deser _ h
    rw [List.length_append] at this
    exact this

/-! ### a restart -/

/-- "after any history — handlers, periods of failing WAL appends, crashes —, with any serializer of
    the records (any payload lengths), a restart from the complete WAL file as `open` leaves it and
    `recover` reads it satisfies the three obligations" — for a recovery function `recover` -/
def RestartKeepsObligations
    (recover : (List Nat → Nat) → (List Nat → Option WalEntry) → List Nat → Recovered) : Prop :=
  ∀ (crc : List Nat → Nat) (ser : WalEntry → List Nat) (deser : List Nat → Option WalEntry)
    (id : Nat) (acts : List ActF),
    CodecOK crc ser deser (execF true (initSys id) acts).dur →
    ∃ s n e, recover crc deser (openRepair (fileOf crc ser (execF true (initSys id) acts).dur)) = .ok s n e
      ∧ (execF true (initSys id) acts).ghost.actedTerm ≤ (restart id s).term
      ∧ (∀ v ∈ (execF true (initSys id) acts).ghost.votes,
            v.1 < (restart id s).term ∨ (v.1 = (restart id s).term ∧ (restart id s).votedFor = some v.2))
      ∧ (∀ a ∈ (execF true (initSys id) acts).ghost.acked, a ∈ (restart id s).log)

/-- **A restart sees every record, whatever the record sizes.**  In every state reachable by any
    history, with ANY serialization of the records: `open` leaves the complete file as it is,
    recovery reads ALL its records and ends cleanly, and the restarted node has exactly the term, vote
    and (whole) log of the running one.  Histories contain restarts (`crash e 0` is a restart between
    two handler calls), so this holds again after further protocol steps and further restarts — the
    records written after a restart land behind the long ones and are read all the same. -/
theorem restart_sees_every_record_whatever_the_record_sizes (id : Nat) (acts : List ActF)
    (h : CodecOK crc ser deser (execF true (initSys id) acts).dur) :
    openRepair (fileOf crc ser (execF true (initSys id) acts).dur) = fileOf crc ser (execF true (initSys id) acts).dur
    ∧ recoverBytes crc deser (openRepair (fileOf crc ser (execF true (initSys id) acts).dur))
        = .ok (fromEntries (execF true (initSys id) acts).dur) (execF true (initSys id) acts).dur.length .clean
    ∧ (restart id (fromEntries (execF true (initSys id) acts).dur)).term = (execF true (initSys id) acts).node.term
    ∧ (restart id (fromEntries (execF true (initSys id) acts).dur)).votedFor = (execF true (initSys id) acts).node.votedFor
    ∧ (restart id (fromEntries (execF true (initSys id) acts).dur)).log = (execF true (initSys id) acts).node.log := by
  have hobl := all_obligations_survive_wal_failures id acts
  refine ⟨openRepair_fileOf crc ser deser _ h, ?_, hobl.2.2.2.1.symm, hobl.2.2.2.2.1.symm, hobl.2.2.2.2.2.symm⟩
  rw [openRepair_fileOf crc ser deser _ h]
  exact recover_fileOf crc ser deser _ h

/-- **The three obligations survive a restart whatever the record sizes** (the code as it is). -/
theorem restart_keeps_obligations_whatever_the_record_sizes : RestartKeepsObligations recoverBytes := by
  intro crc ser deser id acts h
  have hobl := all_obligations_survive_wal_failures id acts
  exact ⟨_, _, _, (restart_sees_every_record_whatever_the_record_sizes crc ser deser id acts h).2.1,
    hobl.1, hobl.2.1, hobl.2.2.1⟩

/-! ### the contrast: a replay that caps the frame length -/

/-- **A read-side cap is invisible while every record is short.**  On a log whose payloads are all
    at most `cap` bytes the capped recovery returns what `recoverBytes` returns: the state of the whole
    log.  (The records of empty blocks have a few hundred bytes; no run over such logs can tell the
    two apart.) -/
theorem recoverCapped_agrees_while_records_are_short (cap : Nat) (d : List WalEntry)
    (h : CodecOK crc ser deser d) (hs : ∀ r ∈ d, (ser r).length ≤ cap) :
    recoverBytesCapped cap crc deser (fileOf crc ser d) = recoverBytes crc deser (fileOf crc ser d) := by
  have hall : d.all (fun r => decide ((ser r).length ≤ cap)) = true :=
    List.all_eq_true.mpr (fun r hr => decide_eq_true (hs r hr))
  have hp : shortPrefix ser cap d = d := takeWhile_all _ _ (fun r hr => decide_eq_true (hs r hr))
  rw [recoverCapped_fileOf crc ser deser cap d h, recover_fileOf crc ser deser d h, hp, hall]
  rfl

/-- **A read-side cap hides everything from the first longer record on.**  If the log is
    `A ++ w :: B` with the records of `A` at most `cap` bytes and `w` longer — a record `append`
    wrote and acknowledged like any other, and `open` keeps — then recovery returns the state of all
    of it and the capped recovery the state of `A` only: `w` and every record of `B`, whatever it
    says (a later entry, a higher term, a vote), is invisible to the restarted node.  Whatever the
    cap, such a log exists as soon as some record `append` can write is longer. -/
theorem recoverCapped_stops_at_first_long_record (cap : Nat) (A B : List WalEntry) (w : WalEntry)
    (h : CodecOK crc ser deser (A ++ w :: B)) (hA : ∀ r ∈ A, (ser r).length ≤ cap)
    (hw : cap < (ser w).length) :
    recoverBytes crc deser (openRepair (fileOf crc ser (A ++ w :: B)))
        = .ok (fromEntries (A ++ w :: B)) (A ++ w :: B).length .clean
    ∧ recoverBytesCapped cap crc deser (openRepair (fileOf crc ser (A ++ w :: B)))
        = .ok (fromEntries A) A.length .torn := by
  rw [openRepair_fileOf crc ser deser _ h]
  refine ⟨recover_fileOf crc ser deser _ h, ?_⟩
  have hnw : ¬ (ser w).length ≤ cap := by omega
  have hp : shortPrefix ser cap (A ++ w :: B) = A := by
    unfold shortPrefix
    rw [List.takeWhile_append_of_pos (fun r hr => decide_eq_true (hA r hr))]
    simp [hnw]
  have hall : (A ++ w :: B).all (fun r => decide ((ser r).length ≤ cap)) = false := by
    simp only [List.all_append, List.all_cons, decide_eq_false hnw, Bool.false_and, Bool.and_false]
  rw [recoverCapped_fileOf crc ser deser cap _ h, hp, hall]
  rfl

/-! ### the witness -/

/-- a toy serializer in which the size of a log entry's record depends on its command: commands from
    1000 on stand for blocks with a large payload (4 more bytes on the toy scale, as > 1 MiB on the
    real one) -/
def szSer : WalEntry → List Nat
  | .logEntryFull i t d =>
    7 :: i :: t :: d ++ List.replicate (match d with | [_, _, c] => if c ≥ 1000 then 4 else 0 | _ => 0) 0
  | r => toySer r
def szDeser : List Nat → Option WalEntry
  | 7 :: i :: t :: a :: b :: c :: _ => some (.logEntryFull i t [a, b, c])
  | p => toyDeser p

/-- the harness' directed case `large.append_entries`: a follower acknowledges entry 1, the LARGE
    entry 2 and entry 3 to the leader of term 1, then grants candidate 2 its vote of term 2 -/
def bigDemo : List ActF :=
  [.ev (.appendEntries 1 1 0 0 [(1, 11)]), .ev (.appendEntries 1 1 1 1 [(1, 2000)]),
   .ev (.appendEntries 1 1 2 1 [(1, 13)]), .ev (.requestVote 2 2 3 1)]

-- non-vacuity of the theorems above on that history: six records with payloads of 2, 6, 10, 6, 2
-- and 3 bytes, well-formed; all three entries acknowledged, the vote announced
example : (execF true (initSys 0) bigDemo).dur
      = [.termAndVote 1 none, .logEntryFull 1 1 [1, 1, 11], .logEntryFull 2 1 [2, 1, 2000],
         .logEntryFull 3 1 [3, 1, 13], .termAndVote 2 none, .termAndVote 2 (some 2)]
    ∧ (execF true (initSys 0) bigDemo).dur.map (fun r => (szSer r).length) = [2, 6, 10, 6, 2, 3]
    ∧ CodecOK wcrc szSer szDeser (execF true (initSys 0) bigDemo).dur
    ∧ (execF true (initSys 0) bigDemo).ghost.actedTerm = 2
    ∧ (execF true (initSys 0) bigDemo).ghost.votes = [(2, 2)]
    ∧ (⟨2, 1, 2000⟩ : LogEntry) ∈ (execF true (initSys 0) bigDemo).ghost.acked
    ∧ (⟨3, 1, 13⟩ : LogEntry) ∈ (execF true (initSys 0) bigDemo).ghost.acked := by decide

/-- **With a read-side cap the restarted node forgets an acknowledged entry, a term and a vote.**
    The statement `RestartKeepsObligations` is false of the capped recovery (cap 8 on the toy codec,
    as 1 MiB on the real one): after `bigDemo` the file holds six records, the third — the large
    entry — longer than the cap; `open` keeps all of them; the capped replay returns the first two. -/
theorem capped_replay_forgets_entry_term_and_vote_witness :
    ¬ RestartKeepsObligations (recoverBytesCapped 8) := by
  intro hall
  have hc : CodecOK wcrc szSer szDeser (execF true (initSys 0) bigDemo).dur := by decide
  obtain ⟨s, n, e, hrec, hterm, _, _⟩ := hall wcrc szSer szDeser 0 bigDemo hc
  rw [openRepair_fileOf wcrc szSer szDeser _ hc, recoverCapped_fileOf wcrc szSer szDeser 8 _ hc] at hrec
  have hs : s = fromEntries (shortPrefix szSer 8 (execF true (initSys 0) bigDemo).dur) := by
    injection hrec with h1 _ _; exact h1.symm
  subst hs
  revert hterm
  decide

/-- the records of the second vote of term 2 (the step-down record is not written again: the node
    restarted by the capped variant is in term 1 and adopts term 2 first) -/
def secondVote : List WalEntry := [.termAndVote 2 none, .termAndVote 2 (some 3)]

/-- what exactly happens in that history.  The code: the restart has term 2, the vote for candidate 2
    and all three entries, and refuses candidate 3 in term 2.  The capped variant: the restart has term
    1, no vote and entry 1 only — the acknowledged entries 2 and 3 are gone — and GRANTS candidate 3
    the vote of term 2, which the node had already given to candidate 2; the record of that second
    vote lands behind the long frame as well, so the next restart has forgotten it too. -/
theorem capped_replay_double_vote_witness :
    -- the code
    recoverBytes wcrc szDeser (openRepair (fileOf wcrc szSer (execF true (initSys 0) bigDemo).dur))
        = .ok (fromEntries (execF true (initSys 0) bigDemo).dur) 6 .clean
    ∧ (restart 0 (fromEntries (execF true (initSys 0) bigDemo).dur)).term = 2
    ∧ (restart 0 (fromEntries (execF true (initSys 0) bigDemo).dur)).votedFor = some 2
    ∧ (restart 0 (fromEntries (execF true (initSys 0) bigDemo).dur)).log = [⟨1, 1, 11⟩, ⟨2, 1, 2000⟩, ⟨3, 1, 13⟩]
    ∧ (step (restart 0 (fromEntries (execF true (initSys 0) bigDemo).dur)) (.requestVote 2 3 9 9)).reply = .vote 2 false
    -- the capped variant
    ∧ recoverBytesCapped 8 wcrc szDeser (openRepair (fileOf wcrc szSer (execF true (initSys 0) bigDemo).dur))
        = .ok (fromEntries ((execF true (initSys 0) bigDemo).dur.take 2)) 2 .torn
    ∧ (restart 0 (fromEntries ((execF true (initSys 0) bigDemo).dur.take 2))).term = 1
    ∧ (restart 0 (fromEntries ((execF true (initSys 0) bigDemo).dur.take 2))).votedFor = none
    ∧ (restart 0 (fromEntries ((execF true (initSys 0) bigDemo).dur.take 2))).log = [⟨1, 1, 11⟩]
    ∧ (step (restart 0 (fromEntries ((execF true (initSys 0) bigDemo).dur.take 2))) (.requestVote 2 3 9 9)).reply
        = .vote 2 true
    -- … and the second restart of the capped variant, after that second vote was written
    ∧ recoverBytesCapped 8 wcrc szDeser (openRepair (fileOf wcrc szSer
          ((execF true (initSys 0) bigDemo).dur ++ secondVote)))
        = .ok (fromEntries ((execF true (initSys 0) bigDemo).dur.take 2)) 2 .torn := by
  have hc : CodecOK wcrc szSer szDeser (execF true (initSys 0) bigDemo).dur := by decide
  have hc2 : CodecOK wcrc szSer szDeser
      ((execF true (initSys 0) bigDemo).dur ++ secondVote) := by decide
  refine ⟨?_, by decide, by decide, by decide, by decide, ?_, by decide, by decide, by decide, by decide, ?_⟩
  · rw [openRepair_fileOf wcrc szSer szDeser _ hc]; exact recover_fileOf wcrc szSer szDeser _ hc
  · rw [openRepair_fileOf wcrc szSer szDeser _ hc, recoverCapped_fileOf wcrc szSer szDeser 8 _ hc]
    have h1 : shortPrefix szSer 8 (execF true (initSys 0) bigDemo).dur = (execF true (initSys 0) bigDemo).dur.take 2 := by
      decide
    have h2 : (execF true (initSys 0) bigDemo).dur.all (fun r => decide ((szSer r).length ≤ 8)) = false := by decide
    rw [h1, h2]; rfl
  · rw [openRepair_fileOf wcrc szSer szDeser _ hc2, recoverCapped_fileOf wcrc szSer szDeser 8 _ hc2]
    have h1 : shortPrefix szSer 8 ((execF true (initSys 0) bigDemo).dur ++ secondVote)
        = (execF true (initSys 0) bigDemo).dur.take 2 := by decide
    have h2 : ((execF true (initSys 0) bigDemo).dur ++ secondVote).all
        (fun r => decide ((szSer r).length ≤ 8)) = false := by decide
    rw [h1, h2]; rfl

-- the same hiding evaluated directly on the bytes of the file (the capped loop is structural), with
-- the cap just below and exactly at the long record's 10 bytes: the boundary is `len > cap`
example : (parseCapped 9 wcrc (fun p => (szDeser p).isSome) (fileOf wcrc szSer (execF true (initSys 0) bigDemo).dur)).1.length = 2
    ∧ (parseCapped 10 wcrc (fun p => (szDeser p).isSome) (fileOf wcrc szSer (execF true (initSys 0) bigDemo).dur)).1.length = 6 := by
  decide

end Neumann.RaftWal.PropsReplay
