import NeumannModel.Common.Proto
import NeumannModel.Common.Crc32
import NeumannModel.RaftWal.Model
/-
  Line-protocol driver for the Raft WAL model (C10).

  Record tokens: T<term> | V<term>:<cand> | TV<term>:<cand|-> | LA<idx>:<term> | LT<from>
               | S<idx>:<term> | F<idx>:<term>:<data>       data = <i>.<t>.<c> | x<hex|->
  ops:
    def <hexpayload> <rec>      register what bitcode::deserialize says about a payload   → ok
    clear                       forget the table                                          → ok
    crc <hex>                   → crc32 as decimal
    valid_len <hexfile>         → complete_frames_len
    recover <hexfile>           RaftWal::open (tail repair) + from_wal  → ok n=.. <state> | err checksum
    replay_raw <hexfile>        replay WITHOUT the tail repair (pre-fix open)            → same format
    entries <rec> <rec> …       RaftRecoveryState::from_entries                          → <state>
    node <id> [trailing]        fresh node (config.snapshot_trailing_logs, default 100), empty ghost → <nodestate>
    restart <id> <hexfile>      RaftNode::with_wal on these bytes, same config (ghost kept) → <nodestate> | err checksum
    ev elect | rv t c li lt | rvr from t 0|1 | prestart | pv t c li lt | pvr from t 0|1 | tnow from t leader
       | lead | ae t l pi pt <t.c,…|-> | aer t | prop c | compact <snapshot index>
       | snap li lt <t.c,…|->   (install_snapshot: metadata index/term, entries 1..n)
                                → recs=<rec,…|-> reply=<…> state=<nodestate>
    evf <same events>           the handler while every RaftWal::append fails (stepFail)  → same format
    shrink <rec> …              apply the in-flight records' effect on the obligations    → ok
    ghost                       → acted=.. votes=.. acked=..
    save | load <k> | drop_slots  snapshots of (node, ghost), numbered from 0
    frame <hexpayload>          → the record bytes `write_entry_bytes` produces
    sat <hexfile>               obligations evaluated on recover(file)                    → true|false|err checksum
    wal_new <max> <maxrot> <0|1>  RaftWal::open_with_config on a fresh path (max_size_bytes, max_rotated_files,
                                auto_rotate) → ok
    wal_append <hexpayload>     RaftWal::append (size check, rotation)   → cur=<hex|-> rot=<hex;hex;…|-> | err size
    wal_reopen                  drop + open_with_config on the same path (tail repair)    → cur=… rot=…
    recover_capped <cap> <hexfile>  NOT the code: tail repair + the replay variant that refuses frames whose
                                length prefix exceeds <cap> (`recoverBytesCapped`; the harness uses it to
                                check that its record-size oracles would notice such a reader)  → as recover
  Files and payloads may be megabytes long (log entries with large blocks): hex strings are decoded by a
  loop over the line's bytes (`unhexFast`, same language as `Proto.unhex`).
-/
open Neumann Neumann.Proto Neumann.RaftWal

/-- value of a hex digit, 255 if it is none -/
def nibble (b : UInt8) : Nat :=
  if 48 ≤ b ∧ b ≤ 57 then (b - 48).toNat
  else if 97 ≤ b ∧ b ≤ 102 then (b - 87).toNat
  else if 65 ≤ b ∧ b ≤ 70 then (b - 55).toNat
  else 255

/-- pairs `i-1, …, 0` of `a`, prepended to `acc` -/
def unhexLoop (a : ByteArray) : Nat → List Nat → Option (List Nat)
  | 0, acc => some acc
  | i + 1, acc =>
    let x := nibble (a.get! (2 * i))
    let y := nibble (a.get! (2 * i + 1))
    if x = 255 ∨ y = 255 then none else unhexLoop a i ((x * 16 + y) :: acc)

/-- `Proto.unhex` without building a `List Char` and without deep recursion (files of many MiB) -/
def unhexFast (s : String) : Option (List Nat) :=
  if s = "-" then some [] else
  let a := s.toUTF8
  if a.size % 2 ≠ 0 then none else unhexLoop a (a.size / 2) []

structure DState where
  table : List (List Nat × WalEntry) := []
  node : Node := { id := 0 }
  ghost : Ghost := {}
  slots : List (Node × Ghost) := []
  wal : WalFiles := {}
  walCfg : WalCfg := { maxSize := 0 }

def junkTag : List Nat := [999999, 0, 0, 0]

def showData (d : List Nat) : String :=
  match d with
  | [i, t, c] => s!"{i}.{t}.{c}"
  | _ => "x" ++ hex (d.drop 4)

def parseData (s : String) : Option (List Nat) :=
  if s.startsWith "x" then (unhex (s.drop 1).toString).map (junkTag ++ ·)
  else match (s.splitOn ".").mapM (·.toNat?) with
    | some [i, t, c] => some [i, t, c]
    | _ => none

def showOptNat : Option Nat → String
  | some n => toString n
  | none => "-"

def parseOptNat (s : String) : Option (Option Nat) :=
  if s = "-" then some none else s.toNat?.map some

def showRec : WalEntry → String
  | .termChange t => s!"T{t}"
  | .voteCast t c => s!"V{t}:{c}"
  | .termAndVote t v => s!"TV{t}:{showOptNat v}"
  | .logAppend i t => s!"LA{i}:{t}"
  | .logTruncate f => s!"LT{f}"
  | .snapshotTaken i t => s!"S{i}:{t}"
  | .logEntryFull i t d => s!"F{i}:{t}:{showData d}"

def parseRec (s : String) : Option WalEntry :=
  if s.startsWith "TV" then
    match (s.drop 2).toString.splitOn ":" with
    | [t, v] => do let t ← t.toNat?; let v ← parseOptNat v; pure (.termAndVote t v)
    | _ => none
  else if s.startsWith "LA" then
    match (s.drop 2).toString.splitOn ":" with
    | [i, t] => do let i ← i.toNat?; let t ← t.toNat?; pure (.logAppend i t)
    | _ => none
  else if s.startsWith "LT" then (s.drop 2).toString.toNat?.map .logTruncate
  else if s.startsWith "T" then (s.drop 1).toString.toNat?.map .termChange
  else if s.startsWith "V" then
    match (s.drop 1).toString.splitOn ":" with
    | [t, c] => do let t ← t.toNat?; let c ← c.toNat?; pure (.voteCast t c)
    | _ => none
  else if s.startsWith "S" then
    match (s.drop 1).toString.splitOn ":" with
    | [i, t] => do let i ← i.toNat?; let t ← t.toNat?; pure (.snapshotTaken i t)
    | _ => none
  else if s.startsWith "F" then
    match (s.drop 1).toString.splitOn ":" with
    | [i, t, d] => do let i ← i.toNat?; let t ← t.toNat?; let d ← parseData d; pure (.logEntryFull i t d)
    | _ => none
  else none

def showList (xs : List String) : String := if xs.isEmpty then "-" else ",".intercalate xs

def showRState (s : RState) : String :=
  s!"term={s.term} voted={showOptNat s.votedFor} snap={showOptNat s.snapIdx}:{showOptNat s.snapTerm} " ++
  s!"log={showList ((recoveredLog s).map showData)}"

def showRole : Role → String
  | .follower => "F" | .candidate => "C" | .leader => "L"

def sortNats (xs : List Nat) : List Nat :=
  xs.foldl (fun acc x => (acc.filter (· < x)) ++ [x] ++ (acc.filter (x < ·))) []

/-- `<term>/<votedFor>/<role>/<in-memory log> l=<current_leader> pv=<in_pre_vote> votes=<ids> pvotes=<ids>
    b=<log_base_index>` -/
def showNode (n : Node) : String :=
  s!"{n.term}/{showOptNat n.votedFor}/{showRole n.role}/" ++
  showList ((n.log.drop n.base).map fun e => s!"{e.index}:{e.term}:{e.cmd}") ++
  s!" l={showOptNat n.leader} pv={if n.inPreVote then 1 else 0}" ++
  s!" votes={showList ((sortNats n.votesReceived).map toString)}" ++
  s!" pvotes={showList ((sortNats n.preVotes).map toString)}" ++
  s!" b={n.base}"

def showReply : Reply → String
  | .none => "none"
  | .vote t g => s!"vote:{t}:{if g then 1 else 0}"
  | .append t s m => s!"append:{t}:{if s then 1 else 0}:{m}"
  | .proposed i => s!"proposed:{i}"
  | .notLeader => "notleader"
  | .snapshot ok => s!"snap:{if ok then 1 else 0}"
  | .walFailed => "walfail"
  | .preVote t => s!"prevote:{t}"

def parsePairs (s : String) : Option (List (Nat × Nat)) :=
  if s = "-" then some [] else
  (s.splitOn ",").mapM fun p =>
    match p.splitOn "." with
    | [t, c] => do let t ← t.toNat?; let c ← c.toNat?; pure (t, c)
    | _ => none

def lookup (tb : List (List Nat × WalEntry)) (p : List Nat) : Option WalEntry :=
  (tb.find? (·.1 == p)).map (·.2)

def insertionSort (xs : List (Nat × Nat × Nat)) : List (Nat × Nat × Nat) :=
  xs.foldl (fun acc x =>
    let lt (a b : Nat × Nat × Nat) : Bool :=
      a.1 < b.1 || (a.1 == b.1 && (a.2.1 < b.2.1 || (a.2.1 == b.2.1 && a.2.2 < b.2.2)))
    if acc.contains x then acc else (acc.filter (lt · x)) ++ [x] ++ (acc.filter (lt x ·))) []

def showGhost (g : Ghost) : String :=
  let vs := insertionSort (g.votes.map fun v => (v.1, v.2, 0))
  let as := insertionSort (g.acked.map fun e => (e.index, e.term, e.cmd))
  s!"acted={g.actedTerm} votes={showList (vs.map fun v => s!"{v.1}:{v.2.1}")} " ++
  s!"acked={showList (as.map fun a => s!"{a.1}:{a.2.1}:{a.2.2}")}"

def showRecovered (r : Recovered) : String :=
  match r with
  | .checksumError => "err checksum"
  | .ok s n _ => s!"ok n={n} {showRState s}"

def parseEvent : List String → Option Event
  | ["elect"] => some .startElection
  | ["rv", t, c, li, lt] => do
      pure (.requestVote (← t.toNat?) (← c.toNat?) (← li.toNat?) (← lt.toNat?))
  | ["rvr", f, t, b] => do pure (.voteResponse (← f.toNat?) (← t.toNat?) ((← b.toNat?) != 0))
  | ["prestart"] => some .startPreVote
  | ["pv", t, c, li, lt] => do
      pure (.preVote (← t.toNat?) (← c.toNat?) (← li.toNat?) (← lt.toNat?))
  | ["pvr", f, t, b] => do pure (.preVoteResponse (← f.toNat?) (← t.toNat?) ((← b.toNat?) != 0))
  | ["tnow", f, t, l] => do pure (.timeoutNow (← f.toNat?) (← t.toNat?) (← l.toNat?))
  | ["lead"] => some .becomeLeader
  | ["ae", t, l, pi, pt, es] => do
      pure (.appendEntries (← t.toNat?) (← l.toNat?) (← pi.toNat?) (← pt.toNat?) (← parsePairs es))
  | ["aer", t] => t.toNat?.map .appendResponse
  | ["prop", c] => c.toNat?.map .propose
  | ["compact", i] => i.toNat?.map .compact
  | ["snap", li, lt, es] => do
      pure (.installSnapshot (← li.toNat?) (← lt.toNat?) (← parsePairs es))
  | _ => none

def hexOrDash (b : List Nat) : String := if b.isEmpty then "-" else hex b

def showWal (w : WalFiles) : String :=
  s!"cur={hexOrDash w.cur} rot={if w.rotated.isEmpty then "-" else ";".intercalate (w.rotated.map hexOrDash)}"

def walStep (st : DState) (line : String) : DState × String :=
  let unhex := unhexFast
  let bad := (st, "bad-op")
  let crc := Crc32.crc32
  let deser := lookup st.table
  match words line with
  | ["def", h, r] => match unhex h, parseRec r with
      | some p, some e => ({ st with table := (p, e) :: st.table }, "ok")
      | _, _ => bad
  | ["clear"] => ({ st with table := [] }, "ok")
  | ["crc", h] => match unhex h with
      | some b => (st, toString (crc b)) | none => bad
  | ["valid_len", h] => match unhex h with
      | some b => (st, toString (FramedLog.validPrefixLen b)) | none => bad
  | ["recover", h] => match unhex h with
      | some b => (st, showRecovered (recoverBytes crc deser (FramedLog.openRepair b))) | none => bad
  | ["recover_capped", c, h] => match c.toNat?, unhex h with
      | some c, some b => (st, showRecovered (recoverBytesCapped c crc deser (FramedLog.openRepair b))) | _, _ => bad
  | ["replay_raw", h] => match unhex h with
      | some b => (st, showRecovered (recoverBytes crc deser (FramedLog.openOld b))) | none => bad
  | "entries" :: rs =>
      let rs := if rs = ["-"] then [] else rs
      match rs.mapM parseRec with
      | some es => (st, showRState (fromEntries es)) | none => bad
  | ["node", id] => match id.toNat? with
      | some i => ({ st with node := { id := i }, ghost := {} }, showNode { id := i }) | none => bad
  | ["node", id, tr] => match id.toNat?, tr.toNat? with
      | some i, some tr =>
        ({ st with node := { id := i, trailing := tr }, ghost := {} }, showNode { id := i, trailing := tr })
      | _, _ => bad
  | ["restart", id, h] => match id.toNat?, unhex h with
      | some i, some b =>
        (match recoverBytes crc deser (FramedLog.openRepair b) with
         | .checksumError => (st, "err checksum")
         | .ok s _ _ =>
           let n := { restart i s with trailing := st.node.trailing }
           ({ st with node := n }, showNode n))
      | _, _ => bad
  | "ev" :: rest => match parseEvent rest with
      | some e =>
        let o := step st.node e
        ({ st with node := o.node, ghost := microAllG st.ghost o.micros },
         s!"recs={showList ((recs o.micros).map showRec)} reply={showReply o.reply} state={showNode o.node}")
      | none => bad
  | "evf" :: rest => match parseEvent rest with
      | some e =>
        let o := stepFail st.node e
        ({ st with node := o.node, ghost := microAllG st.ghost o.micros },
         s!"recs={showList ((recs o.micros).map showRec)} reply={showReply o.reply} state={showNode o.node}")
      | none => bad
  | "shrink" :: rs =>
      let rs := if rs = ["-"] then [] else rs
      match rs.mapM parseRec with
      | some es => ({ st with ghost := microAllG st.ghost (es.map Micro.wal) }, "ok") | none => bad
  | ["ghost"] => (st, showGhost st.ghost)
  | ["save"] => ({ st with slots := st.slots ++ [(st.node, st.ghost)] }, toString st.slots.length)
  | ["load", k] => match k.toNat? with
      | some k => (match st.slots[k]? with
          | some (n, g) => ({ st with node := n, ghost := g }, "ok")
          | none => bad)
      | none => bad
  | ["drop_slots"] => ({ st with slots := [] }, "ok")
  | ["frame", h] => match unhex h with
      | some p => (st, hex (FramedLog.encodeRec crc p)) | none => bad
  | ["sat", h] => match unhex h with
      | some b =>
        (match recoverBytes crc deser (FramedLog.openRepair b) with
         | .checksumError => (st, "err checksum")
         | .ok s _ _ => (st, toString (SatB s st.ghost)))
      | none => bad
  | ["wal_new", mx, mr, au] => match mx.toNat?, mr.toNat?, au.toNat? with
      | some mx, some mr, some au =>
        ({ st with wal := {}, walCfg := { maxSize := mx, maxRot := mr, autoRotate := au != 0 } }, "ok")
      | _, _, _ => bad
  | ["wal_append", h] => match unhex h with
      | some p =>
        (match walAppend crc st.walCfg st.wal p with
         | some w => ({ st with wal := w }, showWal w)
         | none => (st, "err size"))
      | none => bad
  | ["wal_reopen"] =>
      let w := { st.wal with cur := FramedLog.openRepair st.wal.cur }
      ({ st with wal := w }, showWal w)
  | _ => bad

def main : IO Unit := run walStep {}
