import NeumannModel.RaftWal.LemmasRot
/-
  C10, helper lemmas for `PropsReplay.lean`: recovery of a whole well-formed file (records of any
  length), and the frame-length-capped replay variant (`parseCapped`, NOT the code), which reads a
  well-formed file up to — and not including — its first record whose payload is longer than the cap.
-/
namespace Neumann.RaftWal
open FramedLog

section replay
variable (crc : List Nat → Nat) (ser : WalEntry → List Nat) (deser : List Nat → Option WalEntry)

/-- what the writer guarantees about the records of ONE log: bitcode decodes what it encoded, the
    payload length fits the 4-byte length field, the checksum is a `u32`.  No other bound on the
    payload lengths.  (`GoodSer` is the same for every record there is.) -/
def CodecOK (d : List WalEntry) : Prop :=
  ∀ r ∈ d, deser (ser r) = some r ∧ (ser r).length < U32 ∧ crc (ser r) < U32

instance (d : List WalEntry) : Decidable (CodecOK crc ser deser d) :=
  inferInstanceAs (Decidable (∀ r ∈ d, deser (ser r) = some r ∧ (ser r).length < U32 ∧ crc (ser r) < U32))

theorem codecOK_of_goodSer (h : GoodSer crc ser deser) (d : List WalEntry) : CodecOK crc ser deser d :=
  fun r _ => ⟨h.rt r, h.len r, h.crcb _⟩

theorem codecOK_append (d e : List WalEntry) :
    CodecOK crc ser deser (d ++ e) ↔ CodecOK crc ser deser d ∧ CodecOK crc ser deser e := by
  unfold CodecOK
  constructor
  · intro h; exact ⟨fun r hr => h r (by simp [hr]), fun r hr => h r (by simp [hr])⟩
  · intro ⟨h1, h2⟩ r hr
    rcases List.mem_append.mp hr with h | h
    · exact h1 r h
    · exact h2 r h

theorem goodrec_of_codec (d : List WalEntry) (h : CodecOK crc ser deser d) :
    ∀ p ∈ d.map ser, GoodRec crc (fun p => (deser p).isSome) p := by
  intro p hp
  obtain ⟨r, hr, rfl⟩ := List.mem_map.mp hp
  obtain ⟨h1, h2, h3⟩ := h r hr
  exact ⟨h2, h3, by simp [h1]⟩

theorem filterMap_deser_codec (d : List WalEntry) (h : CodecOK crc ser deser d) :
    (d.map ser).filterMap deser = d := by
  induction d with
  | nil => rfl
  | cons r d ih =>
    have hr := (h r (by simp)).1
    simp only [List.map_cons, List.filterMap_cons, hr]
    rw [ih (fun q hq => h q (by simp [hq]))]

/-- **Recovery of a whole file**: every record, in order, ending cleanly. -/
theorem recover_fileOf (d : List WalEntry) (h : CodecOK crc ser deser d) :
    recoverBytes crc deser (fileOf crc ser d) = .ok (fromEntries d) d.length .clean := by
  have hp := parse_encodeAll crc (fun p => (deser p).isSome) (d.map ser) (goodrec_of_codec crc ser deser d h)
  simp only [recoverBytes, fileOf, hp, filterMap_deser_codec crc ser deser d h, List.length_map]

/-- `open` leaves a file of complete frames as it is -/
theorem openRepair_fileOf (d : List WalEntry) (h : CodecOK crc ser deser d) :
    openRepair (fileOf crc ser d) = fileOf crc ser d := by
  have hlen : ∀ p ∈ d.map ser, p.length < U32 := fun p hp => (goodrec_of_codec crc ser deser d h p hp).1
  have := openRepair_take crc (d.map ser) (fileOf crc ser d).length hlen
  unfold fileOf at this ⊢
  rw [List.take_length] at this
  rw [this]
  have hw : wholeWithin crc (d.map ser) (encodeAll crc (d.map ser)).length = (d.map ser).length := by
    have h1 := wholeWithin_ge crc (d.map ser) (d.map ser).length (encodeAll crc (d.map ser)).length
      (Nat.le_refl _) (by rw [List.take_length]; exact Nat.le_refl _)
    have h2 := wholeWithin_le crc (d.map ser) (encodeAll crc (d.map ser)).length
    omega
  rw [hw, List.take_length]

end replay

section capped
variable (crc : List Nat → Nat) (dec : List Nat → Bool)

/-- one iteration of the capped loop on a well-formed frame -/
theorem parseCappedAux_cons (cap fuel : Nat) (p rest : List Nat) (hp : GoodRec crc dec p) :
    parseCappedAux cap crc dec (fuel + 1) (encodeRec crc p ++ rest)
      = if cap < p.length then ([], PEnd.torn)
        else (p :: (parseCappedAux cap crc dec fuel rest).1, (parseCappedAux cap crc dec fuel rest).2) := by
  obtain ⟨h1, h2, h3⟩ := hp
  rw [parseCappedAux]
  have hl : ¬ (encodeRec crc p ++ rest).length < 8 := by simp [encodeRec, le32]
  have e1 : (encodeRec crc p ++ rest).take 4 = le32 p.length := by simp [encodeRec, le32]
  have e2 : ((encodeRec crc p ++ rest).drop 4).take 4 = le32 (crc p) := by simp [encodeRec, le32]
  have e3 : (encodeRec crc p ++ rest).drop 8 = p ++ rest := by simp [encodeRec, le32]
  simp only [hl, if_false, e1, e2, e3, le32_rt _ h1, le32_rt _ h2]
  by_cases hc : cap < p.length
  · simp [hc]
  · simp [hc, h3]

/-- the capped loop over a whole well-formed file: the records before the first long one; it ends
    cleanly iff there is no long one -/
theorem parseCappedAux_encodeAll (cap : Nat) (ps : List (List Nat)) (h : ∀ p ∈ ps, GoodRec crc dec p)
    (fuel : Nat) (hf : (encodeAll crc ps).length < fuel) :
    (parseCappedAux cap crc dec fuel (encodeAll crc ps)).1 = ps.takeWhile (fun p => decide (p.length ≤ cap))
    ∧ (parseCappedAux cap crc dec fuel (encodeAll crc ps)).2
        = if ps.all (fun p => decide (p.length ≤ cap)) then PEnd.clean else PEnd.torn := by
  induction ps generalizing fuel with
  | nil =>
    cases fuel with
    | zero => simp [encodeAll, parseCappedAux]
    | succ f => simp [encodeAll, parseCappedAux]
  | cons p ps ih =>
    have henc : encodeAll crc (p :: ps) = encodeRec crc p ++ encodeAll crc ps := by simp [encodeAll]
    cases fuel with
    | zero => omega
    | succ f =>
      rw [henc] at hf ⊢
      rw [parseCappedAux_cons crc dec cap f p _ (h p (by simp))]
      have hf' : (encodeAll crc ps).length < f := by
        simp only [List.length_append, encodeRec_length] at hf; omega
      obtain ⟨i1, i2⟩ := ih (fun q hq => h q (by simp [hq])) f hf'
      by_cases hc : cap < p.length
      · have : ¬ p.length ≤ cap := by omega
        simp [hc, this]
      · have : p.length ≤ cap := by omega
        simp [hc, this, i1, i2]

theorem parseCapped_encodeAll (cap : Nat) (ps : List (List Nat)) (h : ∀ p ∈ ps, GoodRec crc dec p) :
    (parseCapped cap crc dec (encodeAll crc ps)).1 = ps.takeWhile (fun p => decide (p.length ≤ cap))
    ∧ (parseCapped cap crc dec (encodeAll crc ps)).2
        = if ps.all (fun p => decide (p.length ≤ cap)) then PEnd.clean else PEnd.torn :=
  parseCappedAux_encodeAll crc dec cap ps h _ (Nat.lt_succ_self _)

end capped

section cappedRecover
variable (crc : List Nat → Nat) (ser : WalEntry → List Nat) (deser : List Nat → Option WalEntry)

theorem mem_of_mem_takeWhile' {α : Type} (q : α → Bool) (l : List α) (a : α) (h : a ∈ l.takeWhile q) : a ∈ l := by
  induction l with
  | nil => simp at h
  | cons b l ih =>
    simp only [List.takeWhile_cons] at h
    split at h
    · rcases List.mem_cons.mp h with rfl | h'
      · simp
      · exact List.mem_cons_of_mem _ (ih h')
    · simp at h

theorem takeWhile_all {α : Type} (q : α → Bool) (l : List α) (h : ∀ a ∈ l, q a = true) : l.takeWhile q = l := by
  induction l with
  | nil => rfl
  | cons b l ih =>
    rw [List.takeWhile_cons, h b (by simp), if_pos rfl, ih (fun a ha => h a (by simp [ha]))]

/-- the records the capped replay returns from the file of `d` -/
def shortPrefix (cap : Nat) (d : List WalEntry) : List WalEntry :=
  d.takeWhile (fun r => decide ((ser r).length ≤ cap))

/-- **The capped recovery of a well-formed file** is the recovery state of the records before the
    first one whose payload is longer than the cap — and nothing after it. -/
theorem recoverCapped_fileOf (cap : Nat) (d : List WalEntry) (h : CodecOK crc ser deser d) :
    recoverBytesCapped cap crc deser (fileOf crc ser d)
      = .ok (fromEntries (shortPrefix ser cap d)) (shortPrefix ser cap d).length
          (if d.all (fun r => decide ((ser r).length ≤ cap)) then .clean else .torn) := by
  obtain ⟨h1, h2⟩ := parseCapped_encodeAll crc (fun p => (deser p).isSome) cap (d.map ser)
    (goodrec_of_codec crc ser deser d h)
  have hall : (d.map ser).all (fun p => decide (p.length ≤ cap)) = d.all (fun r => decide ((ser r).length ≤ cap)) := by
    rw [List.all_map]; rfl
  have htw : (d.map ser).takeWhile (fun p => decide (p.length ≤ cap)) = (shortPrefix ser cap d).map ser := by
    unfold shortPrefix; rw [List.takeWhile_map]; rfl
  have hsub : CodecOK crc ser deser (shortPrefix ser cap d) :=
    fun r hr => h r (mem_of_mem_takeWhile' _ _ _ hr)
  unfold recoverBytesCapped fileOf
  simp only [h1, h2, hall, htw, filterMap_deser_codec crc ser deser _ hsub, List.length_map]
  cases d.all (fun r => decide ((ser r).length ≤ cap)) <;> rfl

end cappedRecover

/-- a payload of 2 MiB (what the block of one log entry with a large `Put` serializes to); used by the
    non-vacuity example of `open_and_replay_accept_frames_of_any_length` -/
def bigPayload : List Nat := List.replicate 2097152 7
theorem bigPayload_length : bigPayload.length = 2097152 := List.length_replicate ..

end Neumann.RaftWal
