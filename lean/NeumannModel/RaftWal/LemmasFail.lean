import NeumannModel.RaftWal.Lemmas
/-
  C10, histories in which the WAL rejects appends for a while (`ActF`, `stepFailOld`).

  Part A: term and vote.  The invariant is about `current_term` / `voted_for` only — it does not
          need memory and WAL to agree on the LOG, which the code as it is does not guarantee once an
          append has failed inside `append_leader_entries`.
  Part B: one vote per term in such histories.
  Part C: with `append_leader_entries` repaired (`stepFail`) the full invariant `Inv` of
          Lemmas.lean is preserved, so all three obligations hold.
-/
namespace Neumann.RaftWal

/-! ### Part A -/

def TVSync (n : Node) (s : RState) : Prop := n.term = s.term ∧ n.votedFor = s.votedFor

def TVSat (s : RState) (g : Ghost) : Prop := g.actedTerm ≤ s.term ∧ ∀ v ∈ g.votes, VoteOk s v

/-- `TVSat` before the first micro step and after every one of them -/
def TVChain (s : RState) (g : Ghost) : List Micro → Prop
  | [] => TVSat s g
  | μ :: ms => TVSat s g ∧ TVChain (microS s μ) (microG g μ) ms

theorem tvchain_head {s g ms} (h : TVChain s g ms) : TVSat s g := by
  cases ms with
  | nil => exact h
  | cons μ ms => exact h.1

theorem tvchain_take {s g ms} (h : TVChain s g ms) (k : Nat) :
    TVSat (microAllS s (ms.take k)) (microAllG g (ms.take k)) := by
  induction ms generalizing s g k with
  | nil => simpa [microAllS, microAllG, TVChain] using h
  | cons μ ms ih =>
    cases k with
    | zero => simpa [microAllS, microAllG] using h.1
    | succ k =>
      simp only [List.take_succ_cons, microAllS, microAllG, List.foldl_cons]
      exact ih h.2 k

theorem tvchain_end {s g ms} (h : TVChain s g ms) : TVSat (microAllS s ms) (microAllG g ms) := by
  have := tvchain_take h ms.length
  simpa using this

/-- the acknowledgements of a micro list are covered by what is durable when they are sent -/
def AcksOk (s : RState) : List Micro → Prop
  | [] => True
  | .ackTerm t :: ms => t ≤ s.term ∧ AcksOk s ms
  | .ackVote t c :: ms => VoteOk s (t, c) ∧ AcksOk s ms
  | .ackLog _ :: ms => AcksOk s ms
  | .wal r :: ms => AcksOk (applyEntry s r) ms

theorem microG_wal_tv (g : Ghost) (r : WalEntry) :
    (microG g (.wal r)).actedTerm = g.actedTerm ∧ (microG g (.wal r)).votes = g.votes := by
  cases r <;> exact ⟨rfl, rfl⟩

/-- ANY record keeps the term/vote obligations (recovery is monotone) -/
theorem tvsat_wal (s : RState) (g : Ghost) (r : WalEntry) (h : TVSat s g) :
    TVSat (applyEntry s r) (microG g (.wal r)) := by
  obtain ⟨h1, h2⟩ := microG_wal_tv g r
  refine ⟨?_, ?_⟩
  · rw [h1]; exact Nat.le_trans h.1 (applyEntry_term_mono s r)
  · rw [h2]; intro v hv; exact applyEntry_voteOk s r v (h.2 v hv)

theorem tvchain_of_acksOk {s : RState} {g : Ghost} {ms : List Micro} (hs : TVSat s g) (ha : AcksOk s ms) :
    TVChain s g ms := by
  induction ms generalizing s g with
  | nil => exact hs
  | cons μ ms ih =>
    refine ⟨hs, ?_⟩
    cases μ with
    | wal r => exact ih (tvsat_wal s g r hs) ha
    | ackTerm t =>
      refine ih ?_ ha.2
      refine ⟨?_, hs.2⟩
      simp only [microG]
      exact Nat.max_le.mpr ⟨hs.1, ha.1⟩
    | ackVote t c =>
      refine ih ?_ ha.2
      refine ⟨hs.1, ?_⟩
      intro v hv
      simp only [microG, List.mem_cons] at hv
      rcases hv with rfl | hv
      · exact ha.1
      · exact hs.2 v hv
    | ackLog es => exact ih ⟨hs.1, hs.2⟩ ha

theorem acksOk_append (s : RState) (a b : List Micro) :
    AcksOk s (a ++ b) ↔ AcksOk s a ∧ AcksOk (microAllS s a) b := by
  induction a generalizing s with
  | nil => simp [AcksOk, microAllS]
  | cons μ a ih =>
    cases μ <;> simp only [List.cons_append, AcksOk, microAllS, List.foldl_cons, microS] <;>
      (rw [ih]; simp only [microAllS, and_assoc])

theorem acksOk_wals (s : RState) (rs : List WalEntry) : AcksOk s (rs.map Micro.wal) := by
  induction rs generalizing s with
  | nil => trivial
  | cons r rs ih => exact ih _

/-- records that only concern the log -/
def IsLogRec : WalEntry → Prop
  | .logEntryFull _ _ _ => True
  | .logTruncate _ => True
  | _ => False

theorem applyEntry_logrec_tv (s : RState) (r : WalEntry) (h : IsLogRec r) :
    (applyEntry s r).term = s.term ∧ (applyEntry s r).votedFor = s.votedFor := by
  cases r <;> simp [IsLogRec] at h <;> exact ⟨rfl, rfl⟩

theorem microAllS_logrecs_tv (s : RState) (rs : List WalEntry) (h : ∀ r ∈ rs, IsLogRec r) :
    (microAllS s (rs.map Micro.wal)).term = s.term ∧ (microAllS s (rs.map Micro.wal)).votedFor = s.votedFor := by
  induction rs generalizing s with
  | nil => exact ⟨rfl, rfl⟩
  | cons r rs ih =>
    simp only [List.map_cons, microAllS, List.foldl_cons, microS]
    have h1 := applyEntry_logrec_tv s r (h r (by simp))
    have h2 := ih (applyEntry s r) (fun q hq => h q (by simp [hq]))
    simp only [microAllS] at h2
    exact ⟨by rw [h2.1, h1.1], by rw [h2.2, h1.2]⟩

theorem appendOne_logonly (base : Nat) (log : List LogEntry) (e : LogEntry) :
    ∀ r ∈ (appendOne base log e).1, IsLogRec r := by
  intro r hr
  unfold appendOne at hr
  split at hr
  · simp at hr; subst hr; trivial
  · split at hr
    · simp at hr
    · split at hr
      · split at hr
        · simp at hr; rcases hr with rfl | rfl <;> trivial
        · simp at hr
      · simp at hr

theorem appendLoop_logonly (base : Nat) (log : List LogEntry) (es : List LogEntry) :
    ∀ r ∈ (appendLoop base log es).1, IsLogRec r := by
  induction es generalizing log with
  | nil => intro r hr; simp [appendLoop] at hr
  | cons e es ih =>
    intro r hr
    simp only [appendLoop, List.mem_append] at hr
    rcases hr with h | h
    · exact appendOne_logonly base log e r h
    · exact ih _ r h

theorem microAllS_append (s : RState) (a b : List Micro) :
    microAllS s (a ++ b) = microAllS (microAllS s a) b := by
  simp [microAllS, List.foldl_append]

structure TVStepOk (s : RState) (o : StepOut) : Prop where
  acks : AcksOk s o.micros
  sync : TVSync o.node (microAllS s o.micros)

theorem preHigher_tv (n : Node) (s : RState) (t : Nat) (r : Role) (hS : TVSync n s) :
    AcksOk s (preHigher n t r).1 ∧ TVSync (preHigher n t r).2 (microAllS s (preHigher n t r).1) := by
  unfold preHigher
  split
  · next h =>
    have hgt : t > s.term := by rw [← hS.1]; exact h
    refine ⟨trivial, ?_⟩
    simp only [microAllS, List.foldl_cons, List.foldl_nil, microS, apply_tv_higher s t none hgt]
    exact ⟨rfl, rfl⟩
  · exact ⟨trivial, hS⟩

theorem tv_stepdown (n : Node) (s : RState) (t : Nat) (hS : TVSync n s) (ht : t > n.term) :
    TVStepOk s (stepDownOut n t) := by
  unfold stepDownOut
  have hgt : t > s.term := by rw [← hS.1]; exact ht
  have hs1 := apply_tv_higher s t none hgt
  refine ⟨?_, ?_⟩
  · simp only [AcksOk, hs1]; exact ⟨Nat.le_refl _, trivial⟩
  · simp only [microAllS, List.foldl_cons, List.foldl_nil, microS, hs1]; exact ⟨rfl, rfl⟩

theorem tv_elect (n : Node) (s : RState) (hS : TVSync n s) : TVStepOk s (electOut n) := by
  unfold electOut
  have hgt : n.term + 1 > s.term := by rw [← hS.1]; omega
  have hs1 := apply_tv_higher s (n.term + 1) (some n.id) hgt
  refine ⟨?_, ?_⟩
  · simp only [AcksOk, hs1]
    exact ⟨Nat.le_refl _, Or.inr ⟨rfl, rfl⟩, trivial⟩
  · simp only [microAllS, List.foldl_cons, List.foldl_nil, microS, hs1]; exact ⟨rfl, rfl⟩

theorem tv_noop (n n' : Node) (s : RState) (rp : Reply) (hS : TVSync n s)
    (h1 : n'.term = n.term) (h2 : n'.votedFor = n.votedFor) :
    TVStepOk s { micros := [], node := n', reply := rp } :=
  ⟨trivial, by simp only [microAllS, List.foldl_nil]; exact ⟨by rw [h1]; exact hS.1, by rw [h2]; exact hS.2⟩⟩

/-- every handler, whatever log the node holds in memory: acknowledgements of a term or a vote are
    sent only after the record that makes them durable, and memory ends equal to what recovery
    would return -/
theorem tvstep_ok (n : Node) (s : RState) (e : Event) (hS : TVSync n s) : TVStepOk s (step n e) := by
  cases e with
  | startElection => exact tv_elect n s hS
  | compact i =>
    simp only [step]
    exact tv_noop n _ s _ hS rfl rfl
  | voteResponse frm t granted =>
    simp only [step]
    split
    · exact tv_noop n n s _ hS rfl rfl
    · split
      · next h => exact tv_stepdown n s t hS h
      · split
        · split
          · exact tv_noop n _ s _ hS rfl rfl
          · exact tv_noop n _ s _ hS rfl rfl
        · exact tv_noop n n s _ hS rfl rfl
  | startPreVote =>
    simp only [step]
    exact tv_noop n _ s _ hS rfl rfl
  | preVote t c li lt =>
    simp only [step]
    exact ⟨⟨by rw [hS.1]; exact Nat.le_refl _, trivial⟩,
           by simp only [microAllS, List.foldl_cons, List.foldl_nil, microS]; exact hS⟩
  | preVoteResponse frm t granted =>
    simp only [step]
    split
    · exact tv_noop n n s _ hS rfl rfl
    · split
      · next h => exact tv_stepdown { n with inPreVote := false } s t ⟨hS.1, hS.2⟩ h
      · split
        · split
          · exact tv_elect _ s ⟨hS.1, hS.2⟩
          · exact tv_noop n _ s _ hS rfl rfl
        · exact tv_noop n n s _ hS rfl rfl
  | timeoutNow frm t lid =>
    simp only [step]
    split
    · exact tv_noop n n s _ hS rfl rfl
    · split
      · exact tv_noop n n s _ hS rfl rfl
      · exact tv_elect n s hS
  | appendResponse t =>
    simp only [step]
    split
    · next h => exact tv_stepdown n s t hS h.2
    · exact tv_noop n n s _ hS rfl rfl
  | becomeLeader =>
    simp only [step]
    exact tv_noop n _ s _ hS rfl rfl
  | propose cmd =>
    simp only [step]
    split
    · refine ⟨?_, ?_⟩
      · simp only [AcksOk, applyEntry]
        exact ⟨by rw [hS.1]; exact Nat.le_refl _, trivial⟩
      · simp only [microAllS, List.foldl_cons, List.foldl_nil, microS, applyEntry]
        exact ⟨hS.1, hS.2⟩
    · exact tv_noop n n s _ hS rfl rfl
  | requestVote t cand li lt =>
    obtain ⟨ha1, hS1⟩ := preHigher_tv n s t .follower hS
    simp only [step]
    generalize (preHigher n t .follower).2 = n1 at *
    generalize (preHigher n t .follower).1 = m1 at *
    generalize hs1 : microAllS s m1 = s1 at *
    have tailDeny : TVStepOk s (StepOut.mk (m1 ++ [Micro.ackTerm n1.term]) n1 (Reply.vote n1.term false)) := by
      refine ⟨(acksOk_append _ _ _).mpr ⟨ha1, ?_⟩, ?_⟩
      · rw [hs1]; exact ⟨by rw [hS1.1]; exact Nat.le_refl _, trivial⟩
      · rw [microAllS_append, hs1]; exact hS1
    split
    · split
      · next hterm hgrant =>
        have hts : n1.term = s1.term := hS1.1
        have hs2 : (applyEntry s1 (.termAndVote n1.term (some cand))).term = s1.term
            ∧ (applyEntry s1 (.termAndVote n1.term (some cand))).votedFor = some cand := by
          rw [hts]
          rcases hgrant.1 with hv | hv
          · have : s1.votedFor = none := by rw [← hS1.2]; exact hv
            rw [apply_tv_same_none s1 _ this]; exact ⟨rfl, rfl⟩
          · have : s1.votedFor = some cand := by rw [← hS1.2]; exact hv
            rw [apply_tv_same_some s1 _ this]; exact ⟨rfl, this⟩
        refine ⟨(acksOk_append _ _ _).mpr ⟨ha1, ?_⟩, ?_⟩
        · rw [hs1]
          simp only [AcksOk]
          exact ⟨by rw [hs2.1, hts]; exact Nat.le_refl _, Or.inr ⟨by rw [hs2.1, hts], hs2.2⟩, trivial⟩
        · rw [microAllS_append, hs1]
          simp only [microAllS, List.foldl_cons, List.foldl_nil, microS]
          exact ⟨by rw [hs2.1]; exact hts, by rw [hs2.2]⟩
      · exact tailDeny
    · exact tailDeny
  | appendEntries t leader prevIdx prevTerm ents =>
    obtain ⟨ha1, hS1⟩ := preHigher_tv n s t .follower hS
    simp only [step]
    generalize (preHigher n t .follower).2 = n1 at *
    generalize (preHigher n t .follower).1 = m1 at *
    generalize hs1 : microAllS s m1 = s1 at *
    have tailFail : ∀ n2 : Node, n2.term = n1.term → n2.votedFor = n1.votedFor →
        TVStepOk s (StepOut.mk (m1 ++ [Micro.ackTerm n1.term]) n2 (Reply.append n1.term false 0)) := by
      intro n2 h1 h2
      refine ⟨(acksOk_append _ _ _).mpr ⟨ha1, ?_⟩, ?_⟩
      · rw [hs1]; exact ⟨by rw [hS1.1]; exact Nat.le_refl _, trivial⟩
      · rw [microAllS_append, hs1]; exact ⟨by rw [h1]; exact hS1.1, by rw [h2]; exact hS1.2⟩
    split
    · split
      · have hlo := appendLoop_logonly n1.base n1.log (mkEntries prevIdx ents)
        generalize appendLoop n1.base n1.log (mkEntries prevIdx ents) = r at *
        have htv := microAllS_logrecs_tv s1 r.1 hlo
        refine ⟨?_, ?_⟩
        · rw [List.append_assoc]
          refine (acksOk_append _ _ _).mpr ⟨ha1, ?_⟩
          rw [hs1]
          refine (acksOk_append _ _ _).mpr ⟨acksOk_wals _ _, ?_⟩
          simp only [AcksOk]
          exact ⟨by rw [htv.1, hS1.1]; exact Nat.le_refl _, trivial⟩
        · rw [List.append_assoc, microAllS_append, hs1, microAllS_append]
          simp only [microAllS, List.foldl_cons, List.foldl_nil, microS]
          simp only [microAllS] at htv
          exact ⟨by rw [htv.1]; exact hS1.1, by rw [htv.2]; exact hS1.2⟩
      · exact tailFail _ rfl rfl
    · exact tailFail _ rfl rfl
  | installSnapshot li lt ents =>
    simp only [step]
    cases hlast : (mkEntries 0 ents).getLast? with
    | none => exact tv_noop n n s _ hS rfl rfl
    | some last =>
      dsimp only
      split
      · exact tv_noop n n s _ hS rfl rfl
      · split
        · exact tv_noop n n s _ hS rfl rfl
        · obtain ⟨ha1, hS1⟩ := preHigher_tv n s lt n.role hS
          generalize (preHigher n lt n.role).2 = n1 at *
          generalize (preHigher n lt n.role).1 = m1 at *
          generalize hs1 : microAllS s m1 = s1 at *
          generalize hR : ((mkEntries 0 ents).map fun e => WalEntry.logEntryFull e.index e.term (encEntry e)) = R
          have hlo : ∀ r ∈ R ++ [WalEntry.logTruncate (last.index + 1)], IsLogRec r := by
            intro r hr
            rw [← hR] at hr
            simp only [List.mem_append, List.mem_map, List.mem_singleton] at hr
            rcases hr with ⟨e, _, rfl⟩ | rfl <;> trivial
          have htv := microAllS_logrecs_tv s1 _ hlo
          have hshape : m1 ++ R.map Micro.wal ++ [Micro.wal (.logTruncate (last.index + 1)),
                .ackTerm n1.term, .ackLog (mkEntries 0 ents)]
              = m1 ++ ((R ++ [WalEntry.logTruncate (last.index + 1)]).map Micro.wal
                  ++ [.ackTerm n1.term, .ackLog (mkEntries 0 ents)]) := by simp
          rw [hshape]
          refine ⟨?_, ?_⟩
          · refine (acksOk_append _ _ _).mpr ⟨ha1, ?_⟩
            rw [hs1]
            refine (acksOk_append _ _ _).mpr ⟨acksOk_wals _ _, ?_⟩
            simp only [AcksOk]
            exact ⟨by rw [htv.1, hS1.1]; exact Nat.le_refl _, trivial⟩
          · rw [microAllS_append, hs1, microAllS_append]
            simp only [microAllS, List.foldl_cons, List.foldl_nil, microS]
            simp only [microAllS] at htv
            exact ⟨by rw [htv.1]; exact hS1.1, by rw [htv.2]; exact hS1.2⟩

/-- a handler whose appends all fail writes nothing, changes neither term nor vote, and only
    repeats acknowledgements of the term it already holds -/
theorem tvstepFailOld_ok (n : Node) (s : RState) (e : Event) (hS : TVSync n s) : TVStepOk s (stepFailOld n e) := by
  have hle : n.term ≤ s.term := by rw [hS.1]; exact Nat.le_refl _
  cases e with
  | appendEntries t leader prevIdx prevTerm ents =>
    simp only [stepFailOld]
    (repeat' split) <;>
      exact ⟨by simp only [AcksOk]; exact ⟨hle, trivial⟩,
             by simp only [microAllS, List.foldl_cons, List.foldl_nil, microS]; exact hS⟩
  | requestVote t c li lt =>
    exact ⟨⟨hle, trivial⟩, by simp only [stepFailOld, microAllS, List.foldl_cons, List.foldl_nil, microS]; exact hS⟩
  | propose c =>
    simp only [stepFailOld]; split <;> exact tv_noop n n s _ hS rfl rfl
  | startElection => exact tv_noop n n s _ hS rfl rfl
  | voteResponse frm t granted =>
    simp only [stepFailOld]
    split
    · exact tv_noop n n s _ hS rfl rfl
    · exact tvstep_ok n s (.voteResponse frm t granted) hS
  | startPreVote => exact tvstep_ok n s .startPreVote hS
  | compact i => exact tvstep_ok n s (.compact i) hS
  | preVote t c li lt => exact tvstep_ok n s (.preVote t c li lt) hS
  | preVoteResponse frm t granted =>
    simp only [stepFailOld]
    (repeat' split) <;> exact tv_noop n _ s _ hS rfl rfl
  | timeoutNow frm t lid => exact tv_noop n n s _ hS rfl rfl
  | becomeLeader => exact tv_noop n _ s _ hS rfl rfl
  | appendResponse t => exact tv_noop n n s _ hS rfl rfl
  | installSnapshot a b c => exact tv_noop n n s _ hS rfl rfl

theorem stepFail_eq (n : Node) (e : Event) (h : ∀ t l pi pt es, e ≠ .appendEntries t l pi pt es) :
    stepFail n e = stepFailOld n e := by
  cases e <;> first | rfl | exact absurd rfl (h _ _ _ _ _)

theorem tvstepFail_ok (n : Node) (s : RState) (e : Event) (hS : TVSync n s) :
    TVStepOk s (stepFail n e) := by
  have hle : n.term ≤ s.term := by rw [hS.1]; exact Nat.le_refl _
  cases e with
  | appendEntries t leader prevIdx prevTerm ents =>
    simp only [stepFail]
    (repeat' split) <;>
      exact ⟨by simp only [AcksOk]; exact ⟨hle, trivial⟩,
             by simp only [microAllS, List.foldl_cons, List.foldl_nil, microS]; exact hS⟩
  | _ => (rw [stepFail_eq n _ (by intros; simp)]; exact tvstepFailOld_ok n s _ hS)

theorem tvstepM_ok (fixed fail : Bool) (n : Node) (s : RState) (e : Event) (hS : TVSync n s) :
    TVStepOk s (stepM fixed fail n e) := by
  unfold stepM
  cases fail <;> cases fixed <;> simp only [Bool.false_eq_true, if_false, if_true]
  · exact tvstep_ok n s e hS
  · exact tvstep_ok n s e hS
  · exact tvstepFailOld_ok n s e hS
  · exact tvstepFail_ok n s e hS

/-- the term/vote invariant of a running (or just restarted) node -/
def TVInv (σ : Sys) : Prop :=
  TVSync σ.node (fromEntries σ.dur) ∧ TVSat (fromEntries σ.dur) σ.ghost

theorem tvinv_init (id : Nat) : TVInv (initSys id) :=
  ⟨⟨rfl, rfl⟩, Nat.le_refl _, by intro v hv; simp [initSys] at hv⟩

theorem tvinv_applyOut (σ : Sys) (o : StepOut) (h : TVInv σ) (ho : TVStepOk (fromEntries σ.dur) o) :
    TVInv (applyOut σ o) := by
  simp only [applyOut, TVInv, fromEntries_recs]
  exact ⟨ho.sync, tvchain_end (tvchain_of_acksOk h.2 ho.acks)⟩

theorem tvinv_crash (σ : Sys) (o : StepOut) (k : Nat) (h : TVInv σ) (ho : TVStepOk (fromEntries σ.dur) o) :
    TVInv { dur := σ.dur ++ recs (o.micros.take k),
            node := restart σ.node.id (fromEntries (σ.dur ++ recs (o.micros.take k))),
            ghost := microAllG σ.ghost (o.micros.take k) } := by
  simp only [TVInv, fromEntries_recs]
  exact ⟨⟨rfl, rfl⟩, tvchain_take (tvchain_of_acksOk h.2 ho.acks) k⟩

theorem tvinv_execActF (fixed : Bool) (σ : Sys) (a : ActF) (h : TVInv σ) : TVInv (execActF fixed σ a) := by
  cases a with
  | ev e => exact tvinv_applyOut σ _ h (tvstepM_ok fixed false σ.node _ e h.1)
  | evFail e => exact tvinv_applyOut σ _ h (tvstepM_ok fixed true σ.node _ e h.1)
  | crash e k => exact tvinv_crash σ _ k h (tvstepM_ok fixed false σ.node _ e h.1)
  | crashFail e k => exact tvinv_crash σ _ k h (tvstepM_ok fixed true σ.node _ e h.1)

theorem tvinv_execF (fixed : Bool) (σ : Sys) (as : List ActF) (h : TVInv σ) : TVInv (execF fixed σ as) := by
  induction as generalizing σ with
  | nil => exact h
  | cons a as ih =>
    simp only [execF, List.foldl_cons]
    exact ih _ (tvinv_execActF fixed σ a h)

/-! ### Part B: one candidate per term -/

theorem stepFailOld_no_vote (n : Node) (e : Event) (t c : Nat) : Micro.ackVote t c ∉ (stepFailOld n e).micros := by
  cases e with
  | voteResponse frm t' granted =>
    simp only [stepFailOld, step]
    (repeat' split) <;> first | exact stepDownOut_no_vote _ _ _ _ | simp
  | startPreVote => simp [stepFailOld, step]
  | compact i => simp [stepFailOld, step]
  | preVote a b c' d => simp [stepFailOld, step]
  | _ => simp only [stepFailOld] <;> (repeat' split) <;> simp

theorem stepFail_no_vote (n : Node) (e : Event) (t c : Nat) :
    Micro.ackVote t c ∉ (stepFail n e).micros := by
  cases e with
  | appendEntries t' l pi pt es => simp only [stepFail]; (repeat' split) <;> simp
  | _ => (rw [stepFail_eq n _ (by intros; simp)]; exact stepFailOld_no_vote n _ t c)

theorem stepM_votes (fixed fail : Bool) (n : Node) (e : Event) (t c : Nat)
    (h : Micro.ackVote t c ∈ (stepM fixed fail n e).micros) :
    (stepM fixed fail n e).node.term = t ∧ (stepM fixed fail n e).node.votedFor = some c := by
  unfold stepM at h ⊢
  cases fail <;> cases fixed <;> simp only [Bool.false_eq_true, if_false, if_true] at h ⊢
  · exact step_votes n e t c h
  · exact step_votes n e t c h
  · exact absurd h (stepFailOld_no_vote n e t c)
  · exact absurd h (stepFail_no_vote n e t c)

theorem votesFn_applyOut (σ : Sys) (o : StepOut) (h : TVInv σ) (ho : TVStepOk (fromEntries σ.dur) o)
    (hvotes : ∀ t c, Micro.ackVote t c ∈ o.micros → o.node.term = t ∧ o.node.votedFor = some c)
    (hf : VotesFn σ.ghost.votes) : VotesFn (microAllG σ.ghost o.micros).votes := by
  obtain ⟨hS', hsat'⟩ := tvinv_applyOut σ o h ho
  simp only [applyOut] at hS' hsat'
  have key : ∀ w : Nat × Nat, Micro.ackVote w.1 w.2 ∈ o.micros →
      ∀ v ∈ (microAllG σ.ghost o.micros).votes, v.1 = w.1 → v.2 = w.2 := by
    intro w hw v hv hvw
    have hn := hvotes w.1 w.2 hw
    have hvo := hsat'.2 v hv
    have ht : (fromEntries (σ.dur ++ recs o.micros)).term = w.1 := by rw [← hS'.1]; exact hn.1
    have hvf : (fromEntries (σ.dur ++ recs o.micros)).votedFor = some w.2 := by rw [← hS'.2]; exact hn.2
    rcases hvo with hlt | ⟨_, hsome⟩
    · omega
    · rw [hvf] at hsome; exact (Option.some.inj hsome).symm
  intro v hv w hw hvw
  have hv' := (votes_microAllG σ.ghost o.micros v).mp hv
  have hw' := (votes_microAllG σ.ghost o.micros w).mp hw
  rcases hw' with hwold | hwnew
  · rcases hv' with hvold | hvnew
    · exact hf v hvold w hwold hvw
    · exact (key v hvnew w hw hvw.symm).symm
  · exact key w hwnew v hv hvw

theorem votesFn_take (g : Ghost) (ms : List Micro) (k : Nat) (hfull : VotesFn (microAllG g ms).votes) :
    VotesFn (microAllG g (ms.take k)).votes := by
  have sub : ∀ v ∈ (microAllG g (ms.take k)).votes, v ∈ (microAllG g ms).votes := by
    intro v hv
    have := (votes_microAllG g (ms.take k) v).mp hv
    apply (votes_microAllG g ms v).mpr
    rcases this with h1 | h2
    · exact Or.inl h1
    · exact Or.inr (List.mem_of_mem_take h2)
  intro v hv w hw hvw
  exact hfull v (sub v hv) w (sub w hw) hvw

theorem votesFn_execActF (fixed : Bool) (σ : Sys) (a : ActF) (h : TVInv σ) (hf : VotesFn σ.ghost.votes) :
    VotesFn (execActF fixed σ a).ghost.votes := by
  cases a with
  | ev e =>
    exact votesFn_applyOut σ _ h (tvstepM_ok fixed false σ.node _ e h.1) (stepM_votes fixed false σ.node e) hf
  | evFail e =>
    exact votesFn_applyOut σ _ h (tvstepM_ok fixed true σ.node _ e h.1) (stepM_votes fixed true σ.node e) hf
  | crash e k =>
    exact votesFn_take _ _ k
      (votesFn_applyOut σ _ h (tvstepM_ok fixed false σ.node _ e h.1) (stepM_votes fixed false σ.node e) hf)
  | crashFail e k =>
    exact votesFn_take _ _ k
      (votesFn_applyOut σ _ h (tvstepM_ok fixed true σ.node _ e h.1) (stepM_votes fixed true σ.node e) hf)

theorem votesFn_execF (fixed : Bool) (σ : Sys) (as : List ActF) (h : TVInv σ) (hf : VotesFn σ.ghost.votes) :
    VotesFn (execF fixed σ as).ghost.votes := by
  induction as generalizing σ with
  | nil => exact hf
  | cons a as ih =>
    simp only [execF, List.foldl_cons]
    exact ih _ (tvinv_execActF fixed σ a h) (votesFn_execActF fixed σ a h hf)

/-! ### Part C: the repaired `append_leader_entries` keeps the full invariant -/

theorem stepFail_ok (n : Node) (s : RState) (g : Ghost) (e : Event)
    (hS : Sync n s) (hwf : WF n.log) (hsat : Sat s g) : StepOk s g (stepFail n e) := by
  have hP := P_of_sync hS hwf hsat
  have hle : n.term ≤ s.term := by rw [hS.1]; exact Nat.le_refl _
  have ackOnly : ∀ n' : Node, n'.term = n.term → n'.votedFor = n.votedFor → n'.log = n.log → ∀ rp,
      StepOk s g { micros := [.ackTerm n.term], node := n', reply := rp } := by
    intro n' h1 h2 h3 rp
    refine ⟨chain_ackTerm_end hP hle, ?_, by rw [h3]; exact hwf⟩
    simp only [microAllS, List.foldl_cons, List.foldl_nil, microS]
    exact ⟨by rw [h1]; exact hS.1, by rw [h2]; exact hS.2.1, by rw [h3]; exact hS.2.2⟩
  cases e with
  | appendEntries t leader prevIdx prevTerm ents =>
    simp only [stepFail]
    (repeat' split) <;> first
      | (apply ackOnly <;> rfl)
      | (-- every entry already held: acknowledged from memory = from the WAL
         have hP1 := P_ackTerm s g n.term hP hle
         have hP2 : P s (microG (microG g (.ackTerm n.term)) (.ackLog ((n.log.drop n.base).filter (fun e => decide (e.index ≤ min (prevIdx + ents.length) n.log.length))))) := by
           refine P_ackLog _ _ _ hP1 ?_
           intro a ha
           rw [hS.2.2]
           exact List.mem_map_of_mem (List.mem_of_mem_drop (List.mem_filter.mp ha).1)
         refine ⟨?_, ?_, hwf⟩
         · show P s g ∧ P s (microG g (.ackTerm n.term)) ∧ P s _
           exact ⟨hP, hP1, hP2⟩
         · simp only [microAllS, List.foldl_cons, List.foldl_nil, microS]
           exact ⟨hS.1, hS.2.1, hS.2.2⟩)
  | requestVote t c li lt => exact ackOnly n rfl rfl rfl _
  | propose c =>
    simp only [stepFail, stepFailOld]; split <;> exact noop_ok n n s g _ hS hwf hsat rfl rfl rfl
  | startElection => exact noop_ok n n s g _ hS hwf hsat rfl rfl rfl
  | voteResponse frm t granted =>
    simp only [stepFail, stepFailOld]
    split
    · exact noop_ok n n s g _ hS hwf hsat rfl rfl rfl
    · exact step_ok n s g (.voteResponse frm t granted) hS hwf hsat
  | startPreVote => exact step_ok n s g .startPreVote hS hwf hsat
  | compact i => exact step_ok n s g (.compact i) hS hwf hsat
  | preVote t c li lt => exact step_ok n s g (.preVote t c li lt) hS hwf hsat
  | preVoteResponse frm t granted =>
    simp only [stepFail, stepFailOld]
    (repeat' split) <;> exact noop_ok n _ s g _ hS hwf hsat rfl rfl rfl
  | timeoutNow frm t lid => exact noop_ok n n s g _ hS hwf hsat rfl rfl rfl
  | becomeLeader => exact noop_ok n _ s g _ hS hwf hsat rfl rfl rfl
  | appendResponse t => exact noop_ok n n s g _ hS hwf hsat rfl rfl rfl
  | installSnapshot a b c => exact noop_ok n n s g _ hS hwf hsat rfl rfl rfl

theorem inv_applyOut (σ : Sys) (o : StepOut) (ho : StepOk (fromEntries σ.dur) σ.ghost o) : Inv (applyOut σ o) := by
  simp only [applyOut, Inv, fromEntries_recs]
  exact ⟨ho.sync, ho.wf, (chain_end ho.chain).1⟩

theorem inv_crashOut (σ : Sys) (o : StepOut) (k : Nat) (ho : StepOk (fromEntries σ.dur) σ.ghost o) :
    Inv { dur := σ.dur ++ recs (o.micros.take k),
          node := restart σ.node.id (fromEntries (σ.dur ++ recs (o.micros.take k))),
          ghost := microAllG σ.ghost (o.micros.take k) } := by
  have hp := chain_take ho.chain k
  simp only [Inv, fromEntries_recs]
  have hr := restart_sync σ.node.id _ hp.2
  exact ⟨hr.1, hr.2, hp.1⟩

theorem inv_execActF_fixed (σ : Sys) (a : ActF) (h : Inv σ) : Inv (execActF true σ a) := by
  obtain ⟨hS, hwf, hsat⟩ := h
  have ok := step_ok σ.node (fromEntries σ.dur) σ.ghost
  have okF := stepFail_ok σ.node (fromEntries σ.dur) σ.ghost
  cases a with
  | ev e => exact inv_applyOut σ _ (by simpa [stepM] using ok e hS hwf hsat)
  | evFail e => exact inv_applyOut σ _ (by simpa [stepM] using okF e hS hwf hsat)
  | crash e k => exact inv_crashOut σ _ k (by simpa [stepM] using ok e hS hwf hsat)
  | crashFail e k => exact inv_crashOut σ _ k (by simpa [stepM] using okF e hS hwf hsat)

theorem inv_execF_fixed (σ : Sys) (as : List ActF) (h : Inv σ) : Inv (execF true σ as) := by
  induction as generalizing σ with
  | nil => exact h
  | cons a as ih =>
    simp only [execF, List.foldl_cons]
    exact ih _ (inv_execActF_fixed σ a h)

/-- failure-free histories are the old ones -/
theorem execF_ofAct (fixed : Bool) (σ : Sys) (as : List Act) :
    execF fixed σ (as.map ActF.ofAct) = exec σ as := by
  induction as generalizing σ with
  | nil => rfl
  | cons a as ih =>
    simp only [List.map_cons, execF, exec, List.foldl_cons]
    have : execActF fixed σ (ActF.ofAct a) = execAct σ a := by
      cases a <;> simp [ActF.ofAct, execActF, execAct, stepM, applyOut]
    rw [this]
    exact ih _

end Neumann.RaftWal
