import NeumannModel.Common.FramedLog
/-
  Raft write-ahead log (C10): tensor_chain/src/raft_wal.rs + the persist-before-act
  discipline of the handlers in tensor_chain/src/raft.rs.

  * `WalEntry`        = `RaftWalEntry` (all seven kinds; `command_hash` of the legacy
                        `LogAppend` is dropped, recovery ignores that record).
  * `applyEntry` / `fromEntries` = `RaftRecoveryState::from_entries`, branch by branch
                        (`logMap` is the `BTreeMap<u64, Vec<u8>>`, kept sorted by key).
  * `restart`         = `RaftNode::with_wal` (recovered log = map values in key order, each
                        `bitcode::deserialize`d, undecodable ones dropped; role Follower).
  * `step`            = the handlers, each returning the WAL records it appends (in order,
                        all BEFORE the reply), the new in-memory state and the reply:
        start_election                 persist_term_and_vote(term+1, Some(self))
        handle_request_vote            [TermAndVote(rv.term, None)] if higher term, then
                                       [TermAndVote(term, Some(cand))] iff the vote is granted
        handle_request_vote_response / handle_pre_vote_response / handle_append_entries_response
                                       TermAndVote(t, None) on a higher term (role permitting);
                                       a granted vote is counted (`votes_received`), a quorum ⇒ become_leader;
                                       a granted pre-vote is counted (`pre_votes_received`), a quorum ⇒
                                       start_election
        start_pre_vote / handle_pre_vote  no record (the answer carries the current term)
        handle_timeout_now             sender or named leader is the believed leader and the term matches ⇒
                                       start_election
        handle_append_entries          TermAndVote(ae.term, None) if higher term; then per entry
                                       (append_leader_entries): new index ⇒ LogEntryFull;
                                       term conflict ⇒ LogTruncate{from_index}, LogEntryFull
        propose                        LogEntryFull(len+1)
        install_snapshot (+ install_snapshot_entries, after fix 73e56b11)
                                       rejected without any effect when the snapshot is empty, its
                                       last entry does not carry the metadata's index / term, or it
                                       is not newer than the last installed one; otherwise
                                       TermAndVote(last_term, None) if higher term, then one
                                       LogEntryFull per snapshot entry (persist_log_entry), then
                                       LogTruncate{from_index: last.index + 1}; only then the log
                                       is replaced in memory.  (`installSnapshotOld` is the code
                                       before the fix: nothing about the log was logged;
                                       `installSnapshotTruncateFirst` is the two WAL steps in the
                                       other order — not the code, a witness of why the order matters.)
  Modelling decisions: node ids are `Nat`; a log entry is `(index, term, cmd)` and its
  `entry_data` is the opaque list `[index, term, cmd]` (bitcode round-trip assumed; checked on
  the real node by the correspondence run); log compaction (`truncate_log`) is an event that only
  moves `log_base_index` — the model keeps the whole log and the node's in-memory log is
  `log.drop base` (the WAL is not touched by compaction, a restart comes back with base 0);
  WAL appends succeed (the failure branches return early without changing state);
  `is_peer_healthy` = true and geometric tie-break off (harness config).
  AppendEntries carries `(term, cmd)` pairs, the index of the k-th is `prev_log_index+1+k`
  (what a leader sends); a snapshot carries the entries `1..n` (what `create_snapshot` of an
  uncompacted log produces).  Import-free apart from Common.FramedLog.
-/
namespace Neumann.RaftWal

/-- `RaftWalEntry` -/
inductive WalEntry where
  | termChange (newTerm : Nat)
  | voteCast (term : Nat) (cand : Nat)
  | termAndVote (term : Nat) (votedFor : Option Nat)
  | logAppend (index term : Nat)
  | logTruncate (fromIndex : Nat)
  | snapshotTaken (lastIdx lastTerm : Nat)
  | logEntryFull (index term : Nat) (data : List Nat)
  deriving DecidableEq, Repr

/-- `RaftRecoveryState` (`recovered_log` = values of `logMap`) -/
structure RState where
  term : Nat := 0
  votedFor : Option Nat := none
  snapIdx : Option Nat := none
  snapTerm : Option Nat := none
  logMap : List (Nat × List Nat) := []
  deriving DecidableEq, Repr

/-- `BTreeMap::insert` on a key-sorted association list -/
def mapInsert (k : Nat) (v : List Nat) : List (Nat × List Nat) → List (Nat × List Nat)
  | [] => [(k, v)]
  | (k', v') :: rest =>
    if k < k' then (k, v) :: (k', v') :: rest
    else if k = k' then (k, v) :: rest
    else (k', v') :: mapInsert k v rest

/-- remove every key `≥ from` (`log_map.range(from..)` then `remove`) -/
def mapRemoveFrom (f : Nat) (m : List (Nat × List Nat)) : List (Nat × List Nat) :=
  m.filter (fun kv => kv.1 < f)

/-- one iteration of the `for entry in entries` loop of `from_entries` -/
def applyEntry (s : RState) : WalEntry → RState
  | .termChange t =>
    if t > s.term then { s with term := t, votedFor := none } else s
  | .voteCast t c =>
    if t > s.term then { s with term := t, votedFor := some c }
    else if t = s.term ∧ s.votedFor = none then { s with votedFor := some c }
    else s
  | .termAndVote t v =>
    if t > s.term then { s with term := t, votedFor := v }
    else if t = s.term ∧ s.votedFor = none then { s with votedFor := v }
    else s
  | .snapshotTaken i t =>
    let s1 := { s with snapIdx := some i, snapTerm := some t }
    if t > s.term then { s1 with term := t, votedFor := none } else s1
  | .logEntryFull i _ d => { s with logMap := mapInsert i d s.logMap }
  | .logTruncate f => { s with logMap := mapRemoveFrom f s.logMap }
  | .logAppend _ _ => s

def applyAll (s : RState) (es : List WalEntry) : RState := es.foldl applyEntry s

/-- `RaftRecoveryState::from_entries` -/
def fromEntries (es : List WalEntry) : RState := applyAll {} es

def recoveredLog (s : RState) : List (List Nat) := s.logMap.map (·.2)

/-! ### file level: `RaftWal::open` + `replay` + `from_wal` -/

/-- outcome of `RaftRecoveryState::from_wal` on raw file bytes -/
inductive Recovered where
  | ok (s : RState) (n : Nat) (e : FramedLog.PEnd)
  | checksumError
  deriving Repr

/-- `deser` = `bitcode::deserialize::<RaftWalEntry>` (opaque; supplied by the caller) -/
def recoverBytes (crc : List Nat → Nat) (deser : List Nat → Option WalEntry) (bs : List Nat) : Recovered :=
  let r := FramedLog.parse crc (fun p => (deser p).isSome) bs
  match r.2 with
  | .badCrc => .checksumError
  | e => .ok (fromEntries (r.1.filterMap deser)) r.1.length e

/-! ### which frames the two sides accept

  `RaftWal::append` → `write_entry_bytes` (raft_wal.rs) writes the record of an entry as ONE frame
  `[len as u32][crc][payload]` whatever the payload's length: the write side has no per-record
  limit, only the limit on the size of the whole file (`walAppend` below; for the node's WAL that is
  `u64::MAX`).  `complete_frames_len` (`FramedLog.validPrefixLen`, used by `open`) walks the headers and
  keeps every frame that is wholly in the file, whatever its length.  `replay_with_validation`
  (`FramedLog.parse` above) reads `len` and then exactly that many bytes: the read side has no
  per-record limit either.  The three therefore agree on every payload length the 4-byte length field
  can hold: a `LogEntryFull` whose block carries megabytes of transaction data is written,
  acknowledged, kept by `open` AND replayed — and so is every `TermAndVote` / `LogTruncate` /
  `LogEntryFull` record written after it.  Nothing in `FramedLog.parse` depends on a payload's length
  apart from the frame arithmetic, so every theorem of `Props.lean` holds for EVERY serializer `ser`,
  i.e. for every assignment of payload lengths; `PropsReplay.lean` states the agreement on its own.

  `parseCapped` / `recoverBytesCapped` are NOT the code: they are the variant in which the read side
  alone refuses a frame whose length prefix exceeds `cap` ("a damaged length prefix must not make
  replay allocate up to 4 GiB: stop as for a corrupted entry"), while `append` and `open` keep
  accepting it.  Kept only for the contrast theorems and the `…_witness` of `PropsReplay.lean`.
  Structural recursion on a fuel argument (the bytes left), so it evaluates under `decide`. -/

def parseCappedAux (cap : Nat) (crc : List Nat → Nat) (decodable : List Nat → Bool) :
    Nat → List Nat → List (List Nat) × FramedLog.PEnd
  | 0, bs => ([], if bs.isEmpty then .clean else .torn)
  | fuel + 1, bs =>
    if bs.length < 8 then ([], if bs.isEmpty then .clean else .torn) else
      let len := FramedLog.de32 (bs.take 4)
      if cap < len then ([], .torn) else       -- the read-side limit: `break`
      let c := FramedLog.de32 ((bs.drop 4).take 4)
      let body := bs.drop 8
      if body.length < len then ([], .torn) else
        let p := body.take len
        if c ≠ 0 ∧ c ≠ crc p then ([], .badCrc) else
        if !decodable p then ([], .undecodable) else
          let r := parseCappedAux cap crc decodable fuel (body.drop len)
          (p :: r.1, r.2)

def parseCapped (cap : Nat) (crc : List Nat → Nat) (decodable : List Nat → Bool) (bs : List Nat) :
    List (List Nat) × FramedLog.PEnd :=
  parseCappedAux cap crc decodable (bs.length + 1) bs

/-- `from_wal` over a replay with the read-side frame-length limit `cap` (see above: not the code) -/
def recoverBytesCapped (cap : Nat) (crc : List Nat → Nat) (deser : List Nat → Option WalEntry)
    (bs : List Nat) : Recovered :=
  let r := parseCapped cap crc (fun p => (deser p).isSome) bs
  match r.2 with
  | .badCrc => .checksumError
  | e => .ok (fromEntries (r.1.filterMap deser)) r.1.length e


/-! ### `RaftWal::append`: size limit and rotation

  `append` → `check_size_limit(write_size)`: when `current_size + write_size > max_size_bytes`
    * `auto_rotate` (the `WalConfig` default) → `rotate()`: `<wal>.k` → `<wal>.(k+1)` (the oldest beyond
      `max_rotated_files` deleted), the live file renamed to `<wal>.1`, a fresh empty live file created;
      then the record is written to it;
    * otherwise → `Err(SizeLimitExceeded)`, nothing written (an ordinary failed append, see `stepFail`).
  `replay` / `from_wal` / `RaftNode::with_wal` read the live file only.
  `RaftNode::with_wal` opens its WAL with `auto_rotate = false, max_size_bytes = u64::MAX` since fix
  c45da25c (`nodeWalCfg`); before, with the defaults (`oldNodeWalCfg`: 1 GiB, rotating). -/

structure WalFiles where
  /-- bytes of the live file (`current_size` = its length) -/
  cur : List Nat := []
  /-- `<wal>.1`, `<wal>.2`, … -/
  rotated : List (List Nat) := []
  deriving DecidableEq, Repr

/-- the part of `WalConfig` that `append` looks at -/
structure WalCfg where
  maxSize : Nat
  maxRot : Nat := 3
  autoRotate : Bool := true
  deriving DecidableEq, Repr

/-- what `RaftNode::with_wal` passes to `open_with_config` -/
def nodeWalCfg : WalCfg := { maxSize := 18446744073709551615, maxRot := 3, autoRotate := false }

/-- `WalConfig::default()`, what `with_wal` used before fix c45da25c -/
def oldNodeWalCfg : WalCfg := { maxSize := 1073741824, maxRot := 3, autoRotate := true }

/-- `RaftWal::append(entry)` with `p = bitcode::serialize(entry)`; `none` = `Err(SizeLimitExceeded)` -/
def walAppend (crc : List Nat → Nat) (c : WalCfg) (w : WalFiles) (p : List Nat) : Option WalFiles :=
  let r := FramedLog.encodeRec crc p
  if w.cur.length + r.length > c.maxSize then
    if c.autoRotate then some { cur := r, rotated := (w.cur :: w.rotated).take (max c.maxRot 1) }
    else none
  else some { w with cur := w.cur ++ r }

/-- a series of appends; a refused one leaves the files as they are -/
def walAppendAll (crc : List Nat → Nat) (c : WalCfg) (w : WalFiles) (ps : List (List Nat)) : WalFiles :=
  ps.foldl (fun w p => (walAppend crc c w p).getD w) w

/-! ### the node -/

structure LogEntry where
  index : Nat
  term : Nat
  cmd : Nat
  deriving DecidableEq, Repr

/-- stands for `bitcode::serialize(&LogEntry)` -/
def encEntry (e : LogEntry) : List Nat := [e.index, e.term, e.cmd]

/-- stands for `bitcode::deserialize::<LogEntry>` -/
def decEntry : List Nat → Option LogEntry
  | [i, t, c] => some ⟨i, t, c⟩
  | _ => none

inductive Role where
  | follower | candidate | leader
  deriving DecidableEq, Repr

/-- the part of `RaftNode` the WAL discipline is about (`PersistentState` + role) -/
structure Node where
  id : Nat
  term : Nat := 0
  votedFor : Option Nat := none
  log : List LogEntry := []
  role : Role := .follower
  /-- `snapshot_state.last_snapshot.last_included_index` (volatile: a restart forgets it) -/
  snapIdx : Option Nat := none
  /-- `votes_received` (volatile) -/
  votesReceived : List Nat := []
  /-- `pre_votes_received` (volatile) -/
  preVotes : List Nat := []
  /-- `in_pre_vote` (volatile) -/
  inPreVote : Bool := false
  /-- `leadership.current_leader` (volatile) -/
  leader : Option Nat := none
  /-- `peers.len()` (the harness' cluster: 4 peers, quorum 3) -/
  npeers : Nat := 4
  /-- `log_base_index` (volatile): how many leading entries `truncate_log` has drained from the
      in-memory log.  `log` above stays the WHOLE log (what the WAL holds and a restart recovers); the
      node's `persistent.log` is `log.drop base`. -/
  base : Nat := 0
  /-- `config.snapshot_trailing_logs` -/
  trailing : Nat := 100
  deriving DecidableEq, Repr

/-- `quorum_size()` = `(peers.len() + 1) / 2 + 1` -/
def quorum (n : Node) : Nat := (n.npeers + 1) / 2 + 1

/-- `RaftNode::with_wal` after `from_wal` succeeded -/
def restart (id : Nat) (s : RState) : Node :=
  { id := id, term := s.term, votedFor := s.votedFor,
    log := (recoveredLog s).filterMap decEntry, role := .follower }

inductive Event where
  | startElection
  | requestVote (term cand lastIdx lastTerm : Nat)
  | voteResponse (frm term : Nat) (granted : Bool)     -- RequestVoteResponse{term, vote_granted} from `frm`
  | startPreVote
  | preVote (term cand lastIdx lastTerm : Nat)         -- PreVote request (answered, nothing changes)
  | preVoteResponse (frm term : Nat) (granted : Bool)
  | timeoutNow (frm term leaderId : Nat)               -- leadership transfer: elect immediately
  | becomeLeader
  | appendEntries (term leader prevIdx prevTerm : Nat) (entries : List (Nat × Nat))
  | appendResponse (term : Nat)               -- AppendEntriesResponse{term, ..} seen by a leader
  | propose (cmd : Nat)
  | installSnapshot (lastIdx lastTerm : Nat) (entries : List (Nat × Nat))
  | compact (snapIdx : Nat)                              -- `truncate_log(meta)` (log compaction, memory only)
  deriving DecidableEq, Repr

inductive Reply where
  | none
  | vote (term : Nat) (granted : Bool)
  | append (term : Nat) (success : Bool) (matchIdx : Nat)
  | proposed (index : Nat)
  | notLeader
  | snapshot (ok : Bool)
  | walFailed                     -- `propose` → Err(StorageError "WAL log persist failed")
  | preVote (term : Nat)          -- PreVoteResponse{term, ..} (`vote_granted` depends on the clock)
  deriving DecidableEq, Repr

/-- what the outside world has been told; the obligations of the property -/
inductive Micro where
  | wal (r : WalEntry)            -- a WAL append (fsynced before the next micro step)
  | ackTerm (t : Nat)             -- the node acted in term `t` (sent a message carrying it)
  | ackVote (t c : Nat)           -- granted its vote of term `t` to `c` (or to itself)
  | ackLog (es : List LogEntry)   -- acknowledged / accepted these entries
  deriving DecidableEq, Repr

/-- last entry of the in-memory log; `truncate_log` never drains it, so it is the last entry of the
    whole log -/
def lastLogInfo (log : List LogEntry) : Nat × Nat :=
  match log.getLast? with
  | some e => (e.index, e.term)
  | none => (0, 0)

/-- one iteration of `append_leader_entries`; `base` = `log_base_index`: an entry at or below it has been
    compacted away in memory (`log_index_to_array_index` = None) and is skipped -/
def appendOne (base : Nat) (log : List LogEntry) (e : LogEntry) : List WalEntry × List LogEntry :=
  if e.index > log.length then
    ([.logEntryFull e.index e.term (encEntry e)], log ++ [e])
  else if e.index ≤ base then ([], log)
  else match log[e.index - 1]? with
    | some old =>
      if old.term ≠ e.term then
        ([.logTruncate e.index, .logEntryFull e.index e.term (encEntry e)], log.take (e.index - 1) ++ [e])
      else ([], log)
    | none => ([], log)

/-- `append_leader_entries` -/
def appendLoop (base : Nat) (log : List LogEntry) : List LogEntry → List WalEntry × List LogEntry
  | [] => ([], log)
  | e :: es =>
    let r1 := appendOne base log e
    let r2 := appendLoop base r1.2 es
    (r1.1 ++ r2.1, r2.2)

/-- entries of an AppendEntries / snapshot message with their indices -/
def mkEntries (base : Nat) : List (Nat × Nat) → List LogEntry
  | [] => []
  | (t, c) :: rest => ⟨base + 1, t, c⟩ :: mkEntries (base + 1) rest

/-- the AppendEntries consistency check (a compacted `prev` counts as consistent) -/
def logOk (base : Nat) (log : List LogEntry) (prevIdx prevTerm : Nat) : Bool :=
  if prevIdx = 0 then true
  else if prevIdx ≤ log.length then
    if prevIdx ≤ base then true
    else match log[prevIdx - 1]? with
      | some e => e.term = prevTerm
      | none => false
  else false

structure StepOut where
  micros : List Micro
  node : Node
  reply : Reply
  deriving Repr

def recs (ms : List Micro) : List WalEntry :=
  ms.filterMap fun | .wal r => some r | _ => none

/-- "if the message carries a higher term: persist_term_and_vote(term, None), adopt it" -/
def preHigher (n : Node) (t : Nat) (r : Role) : List Micro × Node :=
  if t > n.term then ([.wal (.termAndVote t none)], { n with term := t, votedFor := none, role := r })
  else ([], n)

/-- "incoming is not newer": `metadata.last_included_index <= existing.last_included_index` -/
def snapStale (existing : Option Nat) (incoming : Nat) : Bool :=
  match existing with
  | some x => decide (incoming ≤ x)
  | none => false

/-- `start_election` — from the election timer, from `handle_pre_vote_response` (quorum of pre-votes)
    and from `handle_timeout_now` (leadership transfer) -/
def electOut (n : Node) : StepOut :=
  let t := n.term + 1
  { micros := [.wal (.termAndVote t (some n.id)), .ackTerm t, .ackVote t n.id],
    node := { n with term := t, votedFor := some n.id, role := .candidate, votesReceived := [n.id] },
    reply := .none }

/-- "a response carries a higher term": persist_term_and_vote(t, None), then step down -/
def stepDownOut (n : Node) (t : Nat) : StepOut :=
  { micros := [.wal (.termAndVote t none), .ackTerm t],
    node := { n with term := t, votedFor := none, role := .follower }, reply := .none }

/-- one handler call: WAL records first, then the acknowledgements it sends -/
def step (n : Node) : Event → StepOut
  | .startElection => electOut n
  | .requestVote t cand li lt =>
    let m1 : List Micro := (preHigher n t .follower).1
    let n1 : Node := (preHigher n t .follower).2
    if t = n1.term then
      let lli := (lastLogInfo n1.log).1
      let llt := (lastLogInfo n1.log).2
      if (n1.votedFor = none ∨ n1.votedFor = some cand)
          ∧ ((lt > llt ∨ (lt = llt ∧ li > lli)) ∨ (lt = llt ∧ li = lli)) then
        { micros := m1 ++ [.wal (.termAndVote n1.term (some cand)), .ackTerm n1.term, .ackVote n1.term cand],
          node := { n1 with votedFor := some cand }, reply := .vote n1.term true }
      else { micros := m1 ++ [.ackTerm n1.term], node := n1, reply := .vote n1.term false }
    else { micros := m1 ++ [.ackTerm n1.term], node := n1, reply := .vote n1.term false }
  | .voteResponse frm t granted =>
    if n.role ≠ .candidate then { micros := [], node := n, reply := .none }
    else if t > n.term then stepDownOut n t
    else if granted ∧ t = n.term ∧ frm ∉ n.votesReceived then
      let vs := n.votesReceived ++ [frm]
      if vs.length ≥ quorum n then
        -- become_leader
        { micros := [], node := { n with votesReceived := vs, role := .leader, leader := some n.id }, reply := .none }
      else { micros := [], node := { n with votesReceived := vs }, reply := .none }
    else { micros := [], node := n, reply := .none }
  | .startPreVote =>
    { micros := [], node := { n with inPreVote := true, preVotes := [n.id] }, reply := .none }
  | .preVote _ _ _ _ => { micros := [.ackTerm n.term], node := n, reply := .preVote n.term }
  | .preVoteResponse frm t granted =>
    if ¬ n.inPreVote then { micros := [], node := n, reply := .none }
    else if t > n.term then stepDownOut { n with inPreVote := false } t
    else if granted ∧ t = n.term ∧ frm ∉ n.preVotes then
      let vs := n.preVotes ++ [frm]
      if vs.length ≥ quorum n then electOut { n with preVotes := vs, inPreVote := false }
      else { micros := [], node := { n with preVotes := vs }, reply := .none }
    else { micros := [], node := n, reply := .none }
  | .timeoutNow frm t lid =>
    if n.leader ≠ some frm ∧ n.leader ≠ some lid then { micros := [], node := n, reply := .none }
    else if t ≠ n.term then { micros := [], node := n, reply := .none }
    else electOut n
  | .becomeLeader => { micros := [], node := { n with role := .leader, leader := some n.id }, reply := .none }
  | .appendEntries t ldr prevIdx prevTerm ents =>
    let m1 : List Micro := (preHigher n t .follower).1
    let n1 : Node := (preHigher n t .follower).2
    if t = n1.term then
      if logOk n1.base n1.log prevIdx prevTerm then
        let r := appendLoop n1.base n1.log (mkEntries prevIdx ents)
        let mi := min (prevIdx + ents.length) r.2.length
        { micros := m1 ++ r.1.map Micro.wal
                    ++ [.ackTerm n1.term, .ackLog ((r.2.drop n1.base).filter (fun e => decide (e.index ≤ mi)))],
          node := { n1 with log := r.2, role := .follower, leader := some ldr }, reply := .append n1.term true mi }
      else { micros := m1 ++ [.ackTerm n1.term], node := { n1 with role := .follower, leader := some ldr },
             reply := .append n1.term false 0 }
    else { micros := m1 ++ [.ackTerm n1.term], node := n1, reply := .append n1.term false 0 }
  | .appendResponse t =>
    if n.role = .leader ∧ t > n.term then stepDownOut n t
    else { micros := [], node := n, reply := .none }
  | .propose cmd =>
    if n.role = .leader then
      let e : LogEntry := ⟨n.log.length + 1, n.term, cmd⟩
      { micros := [.wal (.logEntryFull e.index e.term (encEntry e)), .ackTerm n.term, .ackLog [e]],
        node := { n with log := n.log ++ [e] }, reply := .proposed e.index }
    else { micros := [], node := n, reply := .notLeader }
  | .compact snapIdx =>
    -- truncate_log: cut = (snapIdx - trailing) - log_base_index; drained iff 0 < cut < persistent.log.len()
    let cut := (snapIdx - n.trailing) - n.base
    let b := if 0 < cut ∧ cut < n.log.length - n.base then n.base + cut else n.base
    { micros := [], node := { n with base := b, snapIdx := some snapIdx }, reply := .none }
  | .installSnapshot lastIdx lastTerm ents =>
    let snap := mkEntries 0 ents
    -- install_snapshot: "snapshot contains no entries" / index mismatch / term mismatch
    match snap.getLast? with
    | none => { micros := [], node := n, reply := .snapshot false }
    | some last =>
      if last.index ≠ lastIdx ∨ last.term ≠ lastTerm then
        { micros := [], node := n, reply := .snapshot false }
      -- install_snapshot_entries: out-of-order snapshot (incoming index ≤ existing index)
      else if snapStale n.snapIdx lastIdx then
        { micros := [], node := n, reply := .snapshot false }
      else
        let m1 : List Micro := (preHigher n lastTerm n.role).1
        let n1 : Node := (preHigher n lastTerm n.role).2
        { micros := m1 ++ (snap.map fun e => WalEntry.logEntryFull e.index e.term (encEntry e)).map Micro.wal
                    ++ [.wal (.logTruncate (last.index + 1)), .ackTerm n1.term, .ackLog snap],
          node := { n1 with log := snap, snapIdx := some lastIdx, base := 0 }, reply := .snapshot true }

/-- `install_snapshot_entries` BEFORE fix 73e56b11 (kept only for
    `snapshot_install_not_durable_witness`): the log is replaced in memory, nothing about it is logged. -/
def installSnapshotOld (n : Node) (lastTerm : Nat) (ents : List (Nat × Nat)) : StepOut :=
  let m1 : List Micro := (preHigher n lastTerm n.role).1
  let n1 : Node := (preHigher n lastTerm n.role).2
  { micros := m1 ++ [.ackTerm n1.term], node := { n1 with log := mkEntries 0 ents }, reply := .snapshot true }

/-- `install_snapshot_entries` with its two WAL steps in the OTHER order — NOT the code; kept only for
    `truncate_first_install_loses_acknowledged_entries_witness`: one `LogTruncate{from_index: first.index}`
    up front ("retire the old log, the snapshot is a complete set of entries"), then one `LogEntryFull` per
    snapshot entry.  After a COMPLETE install a restart recovers exactly the log the real order gives, so
    no crash-free run tells the two apart; between the truncation record and the last re-written entry the
    durable log is empty or a proper prefix of what the node had already acknowledged. -/
def installSnapshotTruncateFirst (n : Node) (lastIdx lastTerm : Nat) (ents : List (Nat × Nat)) : StepOut :=
  let snap := mkEntries 0 ents
  let m1 : List Micro := (preHigher n lastTerm n.role).1
  let n1 : Node := (preHigher n lastTerm n.role).2
  let up : List Micro := match snap.head? with
    | some first => [.wal (.logTruncate first.index)]
    | none => []
  { micros := m1 ++ up ++ (snap.map fun e => WalEntry.logEntryFull e.index e.term (encEntry e)).map Micro.wal
              ++ [.ackTerm n1.term, .ackLog snap],
    node := { n1 with log := snap, snapIdx := some lastIdx, base := 0 }, reply := .snapshot true }


/-! ### handlers while the WAL rejects every append

  `RaftWal::append` returns `Err` before writing anything (e.g. `check_space`: less than
  `min_free_space_bytes` left, the directory is gone, or — for the node's WAL, which since fix
  c45da25c is opened with `auto_rotate = false` — the size limit); `persist_term_and_vote` gives up
  after three attempts.  Every handler then takes its failure branch:
    start_election, the three step-downs      return without touching memory
    handle_request_vote                       answers with the OLD term, vote not granted
    handle_append_entries                     higher term: answers failure with the old term;
                                              otherwise `append_leader_entries` (below)
    propose                                   pushes, fails to persist, pops, `Err`
    install_snapshot                          `Err` before the in-memory switch
  `append_leader_entries` (since fix 54033160): `persist_log_entry` first, the in-memory push after;
  on a conflict the `LogTruncate` append is checked before the in-memory truncation.  A call whose
  appends all fail therefore leaves the log alone (`stepFail`).
  BEFORE that fix (`stepFailOld`, kept for `acked_entry_lost_before_fix_witness`): a new entry was
  pushed into the in-memory log BEFORE `persist_log_entry` and not popped on failure; on a conflict
  the result of the `LogTruncate` append was ignored, the in-memory log truncated and the new entry
  pushed, then `persist_log_entry` failed.  Either way memory held an entry the WAL did not. -/

/-- one iteration of `append_leader_entries` BEFORE fix 54033160, every WAL append failing:
    (keep going?, log) -/
def appendOneFail (base : Nat) (log : List LogEntry) (e : LogEntry) : Bool × List LogEntry :=
  if e.index > log.length then (false, log ++ [e])
  else if e.index ≤ base then (true, log)
  else match log[e.index - 1]? with
    | some old => if old.term ≠ e.term then (false, log.take (e.index - 1) ++ [e]) else (true, log)
    | none => (true, log)

def appendLoopFail (base : Nat) (log : List LogEntry) : List LogEntry → Bool × List LogEntry
  | [] => (true, log)
  | e :: es =>
    let r := appendOneFail base log e
    if r.1 then appendLoopFail base r.2 es else (false, r.2)

/-- does `append_leader_entries` need the WAL at all for these entries? (no: all already held) -/
def appendNeedsWal (base : Nat) (log : List LogEntry) (es : List LogEntry) : Bool := !(appendLoopFail base log es).1

/-- one handler call while every WAL append fails, code BEFORE fix 54033160 -/
def stepFailOld (n : Node) : Event → StepOut
  | .startElection => { micros := [], node := n, reply := .none }
  | .requestVote _ _ _ _ => { micros := [.ackTerm n.term], node := n, reply := .vote n.term false }
  | .voteResponse frm t granted =>
    -- only the step-down writes; counting votes and `become_leader` do not touch the WAL
    if n.role = .candidate ∧ t > n.term then { micros := [], node := n, reply := .none }
    else step n (.voteResponse frm t granted)
  | .startPreVote => step n .startPreVote
  | .preVote t c li lt => step n (.preVote t c li lt)
  | .preVoteResponse frm t granted =>
    if ¬ n.inPreVote then { micros := [], node := n, reply := .none }
    else if t > n.term then { micros := [], node := n, reply := .none }
    else if granted ∧ t = n.term ∧ frm ∉ n.preVotes then
      let vs := n.preVotes ++ [frm]
      -- quorum: `in_pre_vote` is cleared, then `start_election` gives up at its failed append
      if vs.length ≥ quorum n then { micros := [], node := { n with preVotes := vs, inPreVote := false }, reply := .none }
      else { micros := [], node := { n with preVotes := vs }, reply := .none }
    else { micros := [], node := n, reply := .none }
  | .timeoutNow _ _ _ => { micros := [], node := n, reply := .none }
  | .becomeLeader => { micros := [], node := { n with role := .leader, leader := some n.id }, reply := .none }
  | .appendEntries t ldr prevIdx prevTerm ents =>
    if t > n.term then { micros := [.ackTerm n.term], node := n, reply := .append n.term false 0 }
    else if t = n.term then
      if logOk n.base n.log prevIdx prevTerm then
        let r := appendLoopFail n.base n.log (mkEntries prevIdx ents)
        let mi := min (prevIdx + ents.length) r.2.length
        if r.1 then
          -- nothing to write: the ordinary success path
          { micros := [.ackTerm n.term, .ackLog ((r.2.drop n.base).filter (fun e => decide (e.index ≤ mi)))],
            node := { n with log := r.2, role := .follower, leader := some ldr }, reply := .append n.term true mi }
        else
          { micros := [.ackTerm n.term], node := { n with log := r.2, role := .follower, leader := some ldr },
            reply := .append n.term false mi }
      else { micros := [.ackTerm n.term], node := { n with role := .follower, leader := some ldr },
             reply := .append n.term false 0 }
    else { micros := [.ackTerm n.term], node := n, reply := .append n.term false 0 }
  | .appendResponse _ => { micros := [], node := n, reply := .none }
  | .propose _ =>
    if n.role = .leader then { micros := [], node := n, reply := .walFailed }
    else { micros := [], node := n, reply := .notLeader }
  | .installSnapshot _ _ _ => { micros := [], node := n, reply := .snapshot false }
  | .compact i => step n (.compact i)

/-- one handler call while every WAL append fails (code as it is: persist first, then change
    memory; the `LogTruncate` result checked): a failing call leaves the log alone -/
def stepFail (n : Node) : Event → StepOut
  | .appendEntries t ldr prevIdx prevTerm ents =>
    if t > n.term then { micros := [.ackTerm n.term], node := n, reply := .append n.term false 0 }
    else if t = n.term then
      if logOk n.base n.log prevIdx prevTerm then
        let r := appendLoopFail n.base n.log (mkEntries prevIdx ents)
        let mi := min (prevIdx + ents.length) n.log.length
        if r.1 then
          { micros := [.ackTerm n.term, .ackLog ((n.log.drop n.base).filter (fun e => decide (e.index ≤ mi)))],
            node := { n with role := .follower, leader := some ldr }, reply := .append n.term true mi }
        else
          { micros := [.ackTerm n.term], node := { n with role := .follower, leader := some ldr },
            reply := .append n.term false mi }
      else { micros := [.ackTerm n.term], node := { n with role := .follower, leader := some ldr },
             reply := .append n.term false 0 }
    else { micros := [.ackTerm n.term], node := n, reply := .append n.term false 0 }
  | e => stepFailOld n e

/-! ### obligations (ghost state) and executions with crashes -/

structure Ghost where
  actedTerm : Nat := 0
  votes : List (Nat × Nat) := []
  acked : List LogEntry := []
  deriving Repr

/-- An obligation about an acknowledged entry ends when the durable log starts to drop it on the
    order of a later leader: a conflict truncation at or below its index, or a snapshot entry
    with the same index and a different content written over it. -/
def microG (g : Ghost) : Micro → Ghost
  | .wal (.logTruncate f) => { g with acked := g.acked.filter (fun e => e.index < f) }
  | .wal (.logEntryFull i _ d) =>
    { g with acked := g.acked.filter (fun e => decide (e.index ≠ i) || decide (encEntry e = d)) }
  | .wal _ => g
  | .ackTerm t => { g with actedTerm := max g.actedTerm t }
  | .ackVote t c => { g with votes := (t, c) :: g.votes }
  | .ackLog es => { g with acked := es ++ g.acked }

def microAllG (g : Ghost) (ms : List Micro) : Ghost := ms.foldl microG g

/-- the three obligations, evaluated on a recovery state -/
def SatB (s : RState) (g : Ghost) : Bool :=
  decide (g.actedTerm ≤ s.term)
  && g.votes.all (fun v => decide (v.1 < s.term) || (decide (v.1 = s.term) && decide (s.votedFor = some v.2)))
  && g.acked.all (fun e => s.logMap.contains (e.index, encEntry e))

/-- the system: durable records, the running node, what it has told the world -/
structure Sys where
  dur : List WalEntry := []
  node : Node
  ghost : Ghost := {}
  deriving Repr

inductive Act where
  | ev (e : Event)                 -- a handler runs to completion
  | crash (e : Event) (k : Nat)    -- handler `e` starts, the process dies after `k` micro steps; restart
  deriving Repr

/-- a handler ran to completion with this outcome -/
def applyOut (σ : Sys) (o : StepOut) : Sys :=
  { dur := σ.dur ++ recs o.micros, node := o.node, ghost := microAllG σ.ghost o.micros }

def execAct (σ : Sys) : Act → Sys
  | .ev e =>
    let o := step σ.node e
    { dur := σ.dur ++ recs o.micros, node := o.node, ghost := microAllG σ.ghost o.micros }
  | .crash e k =>
    let ms := (step σ.node e).micros.take k
    let d := σ.dur ++ recs ms
    { dur := d, node := restart σ.node.id (fromEntries d), ghost := microAllG σ.ghost ms }

def exec (σ : Sys) (as : List Act) : Sys := as.foldl execAct σ

def initSys (id : Nat) : Sys := { node := { id := id } }

/-! executions in which the WAL may reject appends for a while -/

inductive ActF where
  | ev (e : Event)                  -- handler runs to completion, WAL working
  | evFail (e : Event)              -- handler runs to completion while every WAL append fails
  | crash (e : Event) (k : Nat)     -- as `Act.crash`
  | crashFail (e : Event) (k : Nat) -- the process dies `k` micro steps into a handler whose appends fail
  deriving Repr

/-- `fixed = true`: the code as it is; `fixed = false`: `append_leader_entries` before fix 54033160 -/
def stepM (fixed fail : Bool) (n : Node) (e : Event) : StepOut :=
  if fail then (if fixed then stepFail n e else stepFailOld n e) else step n e

def execActF (fixed : Bool) (σ : Sys) : ActF → Sys
  | .ev e => applyOut σ (stepM fixed false σ.node e)
  | .evFail e => applyOut σ (stepM fixed true σ.node e)
  | .crash e k =>
    let ms := (stepM fixed false σ.node e).micros.take k
    let d := σ.dur ++ recs ms
    { dur := d, node := restart σ.node.id (fromEntries d), ghost := microAllG σ.ghost ms }
  | .crashFail e k =>
    let ms := (stepM fixed true σ.node e).micros.take k
    let d := σ.dur ++ recs ms
    { dur := d, node := restart σ.node.id (fromEntries d), ghost := microAllG σ.ghost ms }

def execF (fixed : Bool) (σ : Sys) (as : List ActF) : Sys := as.foldl (execActF fixed) σ

/-- a failure-free history in the richer alphabet -/
def ActF.ofAct : Act → ActF
  | .ev e => .ev e
  | .crash e k => .crash e k

end Neumann.RaftWal
