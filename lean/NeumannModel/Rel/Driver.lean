import NeumannModel.Common.Proto
import NeumannModel.Rel.Model
import NeumannModel.Rel.VecModel
import NeumannModel.Rel.Bucket
import NeumannModel.Rel.ParModel
/-
  Line-protocol driver for the relational model (C04).  One table at a time.

    new <ty><nullable>...            e.g. `new i1 f0 s1`   (i f s b y ; 1 = nullable)      → ok
    ins <val>...                                                                          → ok <id> | err <e>
    upd <k> (c<j> <val>)*k <cond>                                                         → ok <n>  | err <e>
    del <cond>                                                                            → ok <n>
    cidx h|o <col>     didx h|o <col>                                                     → ok | err <e>
    q select|scan|count|columnar <cond>      q limit <n> <off> <cond>     q cursor <batch> <cond>
    dump                                                                                  → id=v,v;id=v,v | -
    bins <nrows> <val>...   (nrows * width values, row-major)                             → ok <id>,<id> | err <e>
    q iter <limit|-> <off> <cond>     q cursorm <batch> <max|-> <cond>
    q router <limit|-> <off|-> <cond>     q routerl <limit|-> <cond>
    q countcol <col> <cond>  → ok <n> | err col_not_found       q sum <col> <cond> → <val>,<val> | -
    q min|max <col> <cond>   → <val> | none          (aggregate column `_id` = a name no row has)
    q columnarw <cond>       → <ids> ; <ids>   (word-level vectorised path with the unspecified storage all-zero / all-junk)
    q aggs <col> <cond>      → countcol=<..> terms=<..> min=<..> max=<..>   (the four answers above in one line)
    evald <mx> <d> <id> <nvals> <val>... <cond>                                           → ok 0|1 | err too_deep
    qd <mx> select|count|columnar <cond>    qd <mx> limit <n> <off> <cond>                → <answer> | err too_deep
    deld <mx> <cond>     updd <mx> <k> (c<j> <val>)*k <cond>                              → ok <n> | err <e> | err too_deep
    vcmp <val> <val>                                                                      → eq=0|1 cmp=lt|eq|gt|none
    buckets h|o <col>     → none (no such index) | - (no entry) | <id>,<id>;<id>,...   (every id vector in its own
                             order; the vectors ordered by their smallest id)
    q cand <cond>         → scan | <ids>   (candidate ids of `try_index_lookup` in the order the code produces them:
                             hash vector as it stands, B-tree vectors in ascending key order)
    rbdel <cond>          → ok <n>          (begin; tx_delete; rollback -- n rows were deleted and restored)
    rbupd <k> (c<j> <val>)*k <cond>         → ok <n> | err <e>   (begin; tx_update; rollback)
  values: n | i<int> | f<16 hex digits> | s<hex> | b0 | b1 | y<hex> | j<tree>~<hex of the rendered text>
  JSON tree (prefix code, no blanks): z null | t | f | u<dec>; PosInt | m<dec>; NegInt (magnitude) |
      d<16 hex digits> Float | s<hex>; string | a<tree>*] array | o(s<hex>;<tree>)*} object (keys ascending)
  columns: _id | c<index>            column types of `new`: i f s b y j
  conditions (prefix): T | eq|ne|lt|le|gt|ge <col> <val> | and <c> <c> | or <c> <c>
-/
open Neumann Neumann.Proto Neumann.Rel

def natOfBytes (bs : List Nat) : Nat := bs.foldl (fun acc b => acc * 256 + b) 0

/-- characters up to (not including) the first `stop`, and the rest after it -/
def splitAt1 (stop : Char) : List Char → Option (List Char × List Char)
  | [] => none
  | c :: rest => if c = stop then some ([], rest) else
      (splitAt1 stop rest).map (fun p => (c :: p.1, p.2))

def hexOrEmpty (cs : List Char) : Option (List Nat) := if cs.isEmpty then some [] else unhexChars cs

mutual
  def parseJson : Nat → List Char → Option (Json × List Char)
    | 0, _ => none
    | _ + 1, 'z' :: rest => some (.null, rest)
    | _ + 1, 't' :: rest => some (.bool true, rest)
    | _ + 1, 'f' :: rest => some (.bool false, rest)
    | _ + 1, 'u' :: rest => match splitAt1 ';' rest with
        | some (ds, r) => (String.ofList ds).toNat?.map (fun n => (.num (.pos n), r))
        | none => none
    | _ + 1, 'm' :: rest => match splitAt1 ';' rest with
        | some (ds, r) => (String.ofList ds).toNat?.map (fun n => (.num (.neg (-(n : Int))), r))
        | none => none
    | _ + 1, 'd' :: rest =>
        if rest.length < 16 then none
        else (unhexChars (rest.take 16)).map (fun bs => (.num (.flt (natOfBytes bs)), rest.drop 16))
    | _ + 1, 's' :: rest => match splitAt1 ';' rest with
        | some (hs, r) => (hexOrEmpty hs).map (fun bs => (.str bs, r))
        | none => none
    | fuel + 1, 'a' :: rest => parseItems fuel rest
    | fuel + 1, 'o' :: rest => parseFields fuel rest
    | _, _ => none
  def parseItems : Nat → List Char → Option (Json × List Char)
    | 0, _ => none
    | _ + 1, ']' :: rest => some (.anil, rest)
    | fuel + 1, cs => match parseJson fuel cs with
        | some (h, r1) => (match parseItems fuel r1 with
            | some (t, r2) => some (.acons h t, r2) | none => none)
        | none => none
  def parseFields : Nat → List Char → Option (Json × List Char)
    | 0, _ => none
    | _ + 1, '}' :: rest => some (.onil, rest)
    | fuel + 1, 's' :: cs => match splitAt1 ';' cs with
        | some (hs, r0) => (match hexOrEmpty hs, parseJson fuel r0 with
            | some k, some (v, r1) => (match parseFields fuel r1 with
                | some (t, r2) => some (.ocons k v t, r2) | none => none)
            | _, _ => none)
        | none => none
    | _, _ => none
end

def parseJsonVal (cs : List Char) : Option Value :=
  match parseJson (cs.length + 1) cs with
  | some (j, '~' :: hs) => (unhexChars hs).map (fun tx => .json j tx)
  | _ => none

def parseVal (s : String) : Option Value :=
  match s.toList with
  | ['n'] => some .null
  | 'i' :: rest => (String.ofList rest).toInt?.map .int
  | 'f' :: rest => if rest.length = 16 then (unhexChars rest).map (fun bs => .float (natOfBytes bs)) else none
  | 's' :: rest => (unhex (String.ofList rest)).map .str
  | 'y' :: rest => (unhex (String.ofList rest)).map .bytes
  | ['b', '0'] => some (.bool false)
  | ['b', '1'] => some (.bool true)
  | 'j' :: rest => parseJsonVal rest
  | _ => none

def bytesOfNat8 (n : Nat) : List Nat :=
  (List.range 8).reverse.map (fun i => n / (256 ^ i) % 256)

def hex16 (b : Nat) : String :=
  String.ofList ((bytesOfNat8 b).flatMap fun x => [hexNibble (x / 16 % 16), hexNibble (x % 16)])

def hexRaw (bs : List Nat) : String :=
  String.ofList (bs.flatMap fun b => [hexNibble (b / 16 % 16), hexNibble (b % 16)])

def showJson : Json → String
  | .null => "z"
  | .bool b => if b then "t" else "f"
  | .num (.pos n) => "u" ++ toString n ++ ";"
  | .num (.neg i) => "m" ++ toString i.natAbs ++ ";"
  | .num (.flt b) => "d" ++ hex16 b
  | .str s => "s" ++ hexRaw s ++ ";"
  | _ => "?"          -- cons cells are printed by `showJsonTop`

/-- arrays / objects open with `a` / `o`; the cons cells print their items and the closing bracket -/
def showJsonTop : Json → String
  | .acons h t => "a" ++ showJsonTop h ++ showJsonRest t
  | .anil => "a]"
  | .ocons k v r => "os" ++ hexRaw k ++ ";" ++ showJsonTop v ++ showJsonRestO r
  | .onil => "o}"
  | j => showJson j
where
  showJsonRest : Json → String
    | .acons h t => showJsonTop h ++ showJsonRest t
    | _ => "]"
  showJsonRestO : Json → String
    | .ocons k v r => "s" ++ hexRaw k ++ ";" ++ showJsonTop v ++ showJsonRestO r
    | _ => "}"

def showVal : Value → String
  | .null => "n"
  | .int i => "i" ++ toString i
  | .float b => "f" ++ hex16 b
  | .json j tx => "j" ++ showJsonTop j ++ "~" ++ hexRaw tx
  | .str s => "s" ++ hex s
  | .bool b => if b then "b1" else "b0"
  | .bytes s => "y" ++ hex s

def parseCol (s : String) : Option ColRef :=
  if s = "_id" then some .id
  else match s.toList with
    | 'c' :: rest => (String.ofList rest).toNat?.map .col
    | _ => none

def parseCond : Nat → List String → Option (Cond × List String)
  | 0, _ => none
  | _ + 1, "T" :: rest => some (.tt, rest)
  | fuel + 1, "and" :: rest => match parseCond fuel rest with
      | some (a, r1) => (match parseCond fuel r1 with
          | some (b, r2) => some (.and a b, r2) | none => none)
      | none => none
  | fuel + 1, "or" :: rest => match parseCond fuel rest with
      | some (a, r1) => (match parseCond fuel r1 with
          | some (b, r2) => some (.or a b, r2) | none => none)
      | none => none
  | _ + 1, op :: c :: v :: rest => match parseCol c, parseVal v with
      | some c, some v =>
        if op = "eq" then some (.eq c v, rest)
        else if op = "ne" then some (.ne c v, rest)
        else if op = "lt" then some (.rng .lt c v, rest)
        else if op = "le" then some (.rng .le c v, rest)
        else if op = "gt" then some (.rng .gt c v, rest)
        else if op = "ge" then some (.rng .ge c v, rest)
        else none
      | _, _ => none
  | _, _ => none

def parseWholeCond (ws : List String) : Option Cond :=
  match parseCond (ws.length + 1) ws with
  | some (c, []) => some c
  | _ => none

def parseColDef (s : String) : Option (ColType × Bool) :=
  match s.toList with
  | [t, n] =>
    let ty := if t = 'i' then some ColType.int else if t = 'f' then some .float else if t = 's' then some .str
              else if t = 'b' then some .bool else if t = 'y' then some .bytes
              else if t = 'j' then some .json else none
    let nu := if n = '1' then some true else if n = '0' then some false else none
    match ty, nu with | some a, some b => some (a, b) | _, _ => none
  | _ => none

def parseSets : Nat → List String → Option (List (Nat × Value) × List String)
  | 0, rest => some ([], rest)
  | k + 1, c :: v :: rest => match parseCol c, parseVal v with
      | some (.col j), some v => (match parseSets k rest with
          | some (l, r) => some ((j, v) :: l, r) | none => none)
      | _, _ => none
  | _, _ => none

def showErr : Err → String
  | .nullNotAllowed => "null_not_allowed" | .typeMismatch => "type_mismatch" | .colNotFound => "col_not_found"
  | .indexExists => "index_exists" | .indexNotFound => "index_not_found"

def showOrd : Option Ordering → String
  | none => "none" | some .lt => "lt" | some .eq => "eq" | some .gt => "gt"

def dumpRows (t : Table) : String :=
  let live := scanAll t
  if live.isEmpty then "-"
  else ";".intercalate (live.map fun r => toString r.id ++ "=" ++ ",".intercalate (r.vals.map showVal))


def parseOptNat (s : String) : Option (Option Nat) :=
  if s = "-" then some none else s.toNat?.map some

/-- aggregate column: `c<i>`; `_id` is not a stored column (`Row::get("_id")` is `None`) -/
def parseAggCol (s : String) : Option Nat :=
  if s = "_id" then some 1000000
  else match parseCol s with
    | some (.col i) => some i
    | _ => none

def showVals (vs : List Value) : String :=
  if vs.isEmpty then "-" else ",".intercalate (vs.map showVal)

def chunk (w : Nat) : Nat → List Value → List (List Value)
  | 0, _ => []
  | n + 1, vs => vs.take w :: chunk w n (vs.drop w)

def showE {α : Type} (f : α → String) : Except Unit α → String
  | .ok a => f a
  | .error _ => "err too_deep"

def minOf : List Nat → Nat
  | [] => 0
  | x :: xs => xs.foldl min x

def insertBucket (b : List Nat) : List (List Nat) → List (List Nat)
  | [] => [b]
  | y :: ys => if minOf b ≤ minOf y then b :: y :: ys else y :: insertBucket b ys

def showBuckets (bs : List (List Nat)) : String :=
  if bs.isEmpty then "-"
  else ";".intercalate ((bs.foldr insertBucket []).map fun b => ",".intercalate (b.map toString))

def relStep (t : Table) (line : String) : Table × String :=
  let bad := (t, "bad-op")
  match words line with
  | "new" :: defs => match defs.mapM parseColDef with
      | some schema => (Table.empty schema, "ok") | none => bad
  | "ins" :: vs => match vs.mapM parseVal with
      | some vals => if vals.length ≠ t.schema.length then bad else
          (match insert t vals with
           | .ok (t', id) => (t', s!"ok {id}") | .error e => (t, "err " ++ showErr e))
      | none => bad
  | "upd" :: k :: rest => match k.toNat? with
      | some k => (match parseSets k rest with
          | some (sets, crest) => (match parseWholeCond crest with
              | some c => (match update t c sets with
                  | .ok (t', n) => (t', s!"ok {n}") | .error e => (t, "err " ++ showErr e))
              | none => bad)
          | none => bad)
      | none => bad
  | "del" :: crest => match parseWholeCond crest with
      | some c => let (t', n) := delete t c; (t', s!"ok {n}")
      | none => bad
  | ["cidx", kind, col] => match parseCol col with
      | some c =>
        let r := if kind = "h" then some (createHashIndex t c) else if kind = "o" then some (createOrdIndex t c) else none
        (match r with
         | some (.ok t') => (t', "ok") | some (.error e) => (t, "err " ++ showErr e) | none => bad)
      | none => bad
  | ["didx", kind, col] => match parseCol col with
      | some c =>
        let r := if kind = "h" then some (dropHashIndex t c) else if kind = "o" then some (dropOrdIndex t c) else none
        (match r with
         | some (.ok t') => (t', "ok") | some (.error e) => (t, "err " ++ showErr e) | none => bad)
      | none => bad
  | "q" :: "select" :: crest => match parseWholeCond crest with
      | some c => (t, showNats (select t c) ++ " | " ++ planOf t c) | none => bad
  | "q" :: "scan" :: crest => match parseWholeCond crest with
      | some c => (t, showNats (spec t c)) | none => bad
  | "q" :: "count" :: crest => match parseWholeCond crest with
      | some c => (t, toString (count t c)) | none => bad
  | "q" :: "columnar" :: crest => match parseWholeCond crest with
      | some c => (t, showNats (columnarSelect t c) ++ " | " ++ columnarPlan t c) | none => bad
  | "q" :: "columnarw" :: crest => match parseWholeCond crest with
      | some c => (t, showNats (columnarSelectW t Unspec.zeros c) ++ " ; " ++ showNats (columnarSelectW t Unspec.ones c))
      | none => bad
  | "q" :: "limit" :: n :: off :: crest => match n.toNat?, off.toNat?, parseWholeCond crest with
      | some n, some off, some c => (t, showNats (selectLimit t c n off)) | _, _, _ => bad
  | "q" :: "cursor" :: b :: crest => match b.toNat?, parseWholeCond crest with
      | some b, some c => if b = 0 then bad else (t, showNats (cursorSelect t c b)) | _, _ => bad
  | "bins" :: n :: vs => match n.toNat?, vs.mapM parseVal with
      | some n, some vals =>
        if vals.length ≠ n * t.schema.length then bad else
          (match batchInsert t (chunk t.schema.length n vals) with
           | .ok (t', ids) => (t', "ok " ++ showNats ids) | .error e => (t, "err " ++ showErr e))
      | _, _ => bad
  | "q" :: "iter" :: l :: off :: crest => match parseOptNat l, off.toNat?, parseWholeCond crest with
      | some l, some off, some c => (t, showNats (selectIter t c l off)) | _, _, _ => bad
  | "q" :: "cursorm" :: b :: mx :: crest => match b.toNat?, parseOptNat mx, parseWholeCond crest with
      | some b, some mx, some c => if b = 0 then bad else (t, showNats (cursorSelectMax t c b mx)) | _, _, _ => bad
  | "q" :: "router" :: l :: off :: crest => match parseOptNat l, parseOptNat off, parseWholeCond crest with
      | some l, some off, some c => (t, showNats (routerSelect t c l off)) | _, _, _ => bad
  | "q" :: "routerl" :: l :: crest => match parseOptNat l, parseWholeCond crest with
      | some l, some c => (t, showNats (routerSelectLegacy t c l)) | _, _ => bad
  | "q" :: "aggs" :: col :: crest => match parseAggCol col, parseWholeCond crest with
      | some i, some c =>
        let cc := match countColumn t i c with | .ok n => s!"ok {n}" | .error e => "err " ++ showErr e
        let sv := fun (o : Option Value) => match o with | some v => showVal v | none => "none"
        -- min / max through both branches: from 1000 selected rows on the rayon reduction, halved 5 levels deep
        let sp := halving (selectRows t c).length 5
        (t, s!"countcol={cc} terms={showVals (aggSumTerms t i c)} min={sv (aggMinPar sp t i c)} max={sv (aggMaxPar sp t i c)}")
      | _, _ => bad
  | "q" :: "countcol" :: col :: crest => match parseAggCol col, parseWholeCond crest with
      | some i, some c => (match countColumn t i c with
          | .ok n => (t, s!"ok {n}") | .error e => (t, "err " ++ showErr e))
      | _, _ => bad
  | "q" :: "sum" :: col :: crest => match parseAggCol col, parseWholeCond crest with
      | some i, some c => (t, showVals (aggSumTerms t i c)) | _, _ => bad
  | "q" :: "min" :: col :: crest => match parseAggCol col, parseWholeCond crest with
      | some i, some c => (t, match aggMin t i c with | some v => showVal v | none => "none") | _, _ => bad
  | "q" :: "max" :: col :: crest => match parseAggCol col, parseWholeCond crest with
      | some i, some c => (t, match aggMax t i c with | some v => showVal v | none => "none") | _, _ => bad
  | "evald" :: mx :: d :: id :: n :: rest => match mx.toNat?, d.toNat?, id.toNat?, n.toNat? with
      | some mx, some d, some id, some n =>
        (match (rest.take n).mapM parseVal, parseWholeCond (rest.drop n) with
         | some vals, some c =>
           if vals.length ≠ n then bad
           else (t, showE (fun b => if b then "ok 1" else "ok 0") (evalDepth mx c d id vals))
         | _, _ => bad)
      | _, _, _, _ => bad
  | "qd" :: mx :: "select" :: crest => match mx.toNat?, parseWholeCond crest with
      | some mx, some c => (t, showE showNats (selectE mx t c)) | _, _ => bad
  | "qd" :: mx :: "count" :: crest => match mx.toNat?, parseWholeCond crest with
      | some mx, some c => (t, showE toString (countE mx t c)) | _, _ => bad
  | "qd" :: mx :: "columnar" :: crest => match mx.toNat?, parseWholeCond crest with
      | some mx, some c => (t, showE showNats (columnarE mx t c)) | _, _ => bad
  | "qd" :: mx :: "limit" :: n :: off :: crest => match mx.toNat?, n.toNat?, off.toNat?, parseWholeCond crest with
      | some mx, some n, some off, some c => (t, showE showNats (selectLimitE mx t c n off)) | _, _, _, _ => bad
  | "deld" :: mx :: crest => match mx.toNat?, parseWholeCond crest with
      | some mx, some c => (match deleteE mx t c with
          | .ok (t', n) => (t', s!"ok {n}") | .error _ => (t, "err too_deep"))
      | _, _ => bad
  | "updd" :: mx :: k :: rest => match mx.toNat?, k.toNat? with
      | some mx, some k => (match parseSets k rest with
          | some (sets, crest) => (match parseWholeCond crest with
              | some c => (match updateE mx t c sets with
                  | .ok (.ok (t', n)) => (t', s!"ok {n}")
                  | .ok (.error e) => (t, "err " ++ showErr e)
                  | .error _ => (t, "err too_deep"))
              | none => bad)
          | none => bad)
      | _, _ => bad
  | ["dump"] => (t, dumpRows t)
  | ["buckets", kind, col] => match parseCol col with
      | some c =>
        if kind = "h" then (t, match assocGet c t.hidx with | some ix => showBuckets (bucketsOf ix) | none => "none")
        else if kind = "o" then (t, match assocGet c t.oidx with | some ix => showBuckets (bucketsOf ix) | none => "none")
        else bad
      | none => bad
  | "q" :: "cand" :: crest => match parseWholeCond crest with
      | some c => (t, match tryIndexLookupT t c with | some ids => showNats ids | none => "scan")
      | none => bad
  | "rbdel" :: crest => match parseWholeCond crest with
      | some c => (deleteRolledBack t c, s!"ok {(matching t c).length}")
      | none => bad
  | "rbupd" :: k :: rest => match k.toNat? with
      | some k => (match parseSets k rest with
          | some (sets, crest) => (match parseWholeCond crest with
              | some c => (match updateRolledBack t c sets with
                  | .ok (t', n) => (t', s!"ok {n}") | .error e => (t, "err " ++ showErr e))
              | none => bad)
          | none => bad)
      | none => bad
  | ["vcmp", a, b] => match parseVal a, parseVal b with
      | some x, some y => (t, s!"eq={if Value.eq x y then 1 else 0} cmp={showOrd (partialCmp x y)}")
      | _, _ => bad
  | _ => bad

def main : IO Unit := run relStep (Table.empty [])
