import NeumannModel.Rel.RollbackLemmas
/-
  C04 helper lemmas, part 7: what the binary-search narrowing of `a AND b` (NOT the code) would need --
  `<[u64]>::binary_search` finds exactly the members of an ASCENDING vector, and the id vectors are ascending in
  every history without UPDATE (and without rolled-back statements).
-/
namespace Neumann.Rel

variable {κ : Type} [DecidableEq κ]

/-! ## binary search on an ascending list -/

theorem strictAsc_get (l : List Nat) (hs : StrictAsc l) (i j yi yj : Nat) (hij : i < j)
    (hi : l[i]? = some yi) (hj : l[j]? = some yj) : yi < yj := by
  unfold StrictAsc at hs
  rw [List.pairwise_iff_getElem] at hs
  obtain ⟨hi', rfl⟩ := List.getElem?_eq_some_iff.1 hi
  obtain ⟨hj', rfl⟩ := List.getElem?_eq_some_iff.1 hj
  exact hs i j hi' hj' hij

/-- loop invariant of `binary_search_by`: everything from `base + size` on is greater than the key, and the
    element at `base` (unless `base = 0`) is not greater -/
theorem bsLoop_spec (l : List Nat) (hs : StrictAsc l) (x : Nat) :
    ∀ (fuel size base : Nat), 1 ≤ size → size ≤ fuel + 1 → base + size ≤ l.length →
      (base = 0 ∨ ∃ y, l[base]? = some y ∧ y ≤ x) →
      (∀ j y, base + size ≤ j → l[j]? = some y → x < y) →
      bsLoop l x fuel size base < l.length ∧
      (bsLoop l x fuel size base = 0 ∨ ∃ y, l[bsLoop l x fuel size base]? = some y ∧ y ≤ x) ∧
      (∀ j y, bsLoop l x fuel size base + 1 ≤ j → l[j]? = some y → x < y) := by
  intro fuel
  induction fuel with
  | zero =>
    intro size base h1 h2 h3 hA hB
    have : size = 1 := by omega
    subst this
    simp only [bsLoop]
    exact ⟨by omega, hA, hB⟩
  | succ f ih =>
    intro size base h1 h2 h3 hA hB
    rw [bsLoop]
    by_cases hle : size ≤ 1
    · rw [if_pos hle]
      have : size = 1 := by omega
      subst this
      exact ⟨by omega, hA, hB⟩
    · rw [if_neg hle]
      simp only
      have hmid : base + size / 2 < l.length := by omega
      have hm : l[base + size / 2]? = some l[base + size / 2] := List.getElem?_eq_getElem hmid
      have hgd : l[base + size / 2]?.getD 0 = l[base + size / 2] := by rw [hm]; rfl
      rw [hgd]
      by_cases hx : x < l[base + size / 2]
      · rw [if_pos hx]
        apply ih (size - size / 2) base (by omega) (by omega) (by omega) hA
        intro j y hj hy
        by_cases hjm : j = base + size / 2
        · subst hjm; rw [hm] at hy; cases hy; exact hx
        · have := strictAsc_get l hs (base + size / 2) j _ y (by omega) hm hy
          omega
      · rw [if_neg hx]
        apply ih (size - size / 2) (base + size / 2) (by omega) (by omega) (by omega)
        · exact Or.inr ⟨_, hm, by omega⟩
        · intro j y hj hy
          exact hB j y (by omega) hy

/-- **on an ascending vector `binary_search(&x).is_ok()` is membership** -/
theorem binSearch_eq_contains (l : List Nat) (hs : StrictAsc l) (x : Nat) : binSearch l x = l.contains x := by
  unfold binSearch
  by_cases he : l.isEmpty = true
  · rw [if_pos he]
    have : l = [] := List.isEmpty_iff.1 he
    subst this; rfl
  · rw [if_neg he]
    have hlen : 1 ≤ l.length := by
      cases l with
      | nil => simp at he
      | cons a as => simp
    obtain ⟨hb, hA, hB⟩ := bsLoop_spec l hs x l.length l.length 0 hlen (by omega) (by omega) (Or.inl rfl)
      (by intro j y hj hy
          have : l[j]? = none := List.getElem?_eq_none (by omega)
          rw [this] at hy; cases hy)
    rw [Bool.eq_iff_iff]
    simp only [decide_eq_true_eq, List.contains_iff_mem]
    constructor
    · intro h; exact List.mem_of_getElem? h
    · intro hmem
      obtain ⟨j, hj⟩ := List.mem_iff_getElem?.1 hmem
      have hjb : j = bsLoop l x l.length l.length 0 := by
        by_cases h1 : bsLoop l x l.length l.length 0 + 1 ≤ j
        · have := hB j x h1 hj; omega
        · by_cases h2 : j < bsLoop l x l.length l.length 0
          · rcases hA with h0 | ⟨y, hy, hyx⟩
            · omega
            · have := strictAsc_get l hs j _ x y h2 hj hy
              omega
          · omega
      rw [← hjb]; exact hj

/-! ## without UPDATE the whole entry list of every index is in ascending id order -/

def SortedIdx (ix : Idx κ) : Prop := (ix.map Prod.snd).Pairwise (· < ·)

def SortedInv (t : Table) : Prop :=
  (∀ c ix, (c, ix) ∈ t.hidx → SortedIdx ix) ∧ (∀ c ix, (c, ix) ∈ t.oidx → SortedIdx ix)

omit [DecidableEq κ] in
theorem sortedIdx_bucket [DecidableEq κ] (ix : Idx κ) (h : SortedIdx ix) (k : κ) : StrictAsc (bucketOf ix k) := by
  unfold bucketOf StrictAsc
  exact h.sublist ((List.filter_sublist).map _)

theorem sortedIdx_add (k : κ) (id : Nat) (ix : Idx κ) (h : SortedIdx ix) (hlt : ∀ p ∈ ix, p.2 < id) :
    SortedIdx (idxAdd k id ix) := by
  unfold idxAdd
  split
  · exact h
  · unfold SortedIdx
    rw [List.map_append, List.pairwise_append]
    refine ⟨h, by simp, ?_⟩
    intro a ha b hb
    obtain ⟨p, hp, rfl⟩ := List.mem_map.1 ha
    simp only [List.map_cons, List.map_nil, List.mem_singleton] at hb
    subst hb
    exact hlt p hp

theorem sortedIdx_remove (k : κ) (id : Nat) (ix : Idx κ) (h : SortedIdx ix) : SortedIdx (idxRemove k id ix) := by
  unfold idxRemove SortedIdx
  exact h.sublist ((List.filter_sublist).map _)

theorem sortedIdx_addRow (key : Value → κ) (r : RowE) (c : ColRef) (ix : Idx κ) (h : SortedIdx ix)
    (hlt : ∀ p ∈ ix, p.2 < r.id) : SortedIdx (idxAddRow key r c ix) := by
  unfold idxAddRow
  split
  · exact sortedIdx_add _ _ _ h hlt
  · exact h

theorem sortedIdx_removeRow (key : Value → κ) (r : RowE) (c : ColRef) (ix : Idx κ) (h : SortedIdx ix) :
    SortedIdx (idxRemoveRow key r c ix) := by
  unfold idxRemoveRow
  split
  · exact sortedIdx_remove _ _ _ h
  · exact h

/-- an index built by a scan in slot order -/
theorem sorted_build_go (key : Value → κ) (c : ColRef) :
    ∀ (S P : List RowE) (ix : Idx κ), KInv key P c ix → SortedIdx ix → ((P ++ S).map (·.id)).Pairwise (· < ·) →
      SortedIdx (S.foldl (fun ix r => if r.alive then idxAddRow key r c ix else ix) ix) := by
  intro S
  induction S with
  | nil => intro P ix _ hs _; exact hs
  | cons r S ih =>
    intro P ix hk hs hp
    have hfresh : ∀ r' ∈ P, r'.id < r.id := by
      intro r' hr'
      rw [List.map_append, List.pairwise_append] at hp
      exact hp.2.2 r'.id (List.mem_map.2 ⟨r', hr', rfl⟩) r.id (by simp)
    have h1 := kinv_append key P c ix r hk (fun r' hr' => by have := hfresh r' hr'; omega)
    rw [List.foldl_cons]
    apply ih (P ++ [r]) _ h1 ?_ (by simpa using hp)
    split
    · apply sortedIdx_addRow key r c ix hs
      intro p hpm
      obtain ⟨r', hr', hid, _⟩ := hk.sound p.1 p.2 hpm
      rw [← hid]; exact hfresh r' hr'
    · exact hs

theorem sorted_build (key : Value → κ) (c : ColRef) (rows : List RowE) (h : RowsWF rows) :
    SortedIdx (buildIdx key c rows) := by
  have := sorted_build_go key c rows [] [] (kinv_nil key c) (by simp [SortedIdx]) (by simpa using h.1)
  simpa [buildIdx] using this

/-- everything but UPDATE -/
def Op.isUpdate : Op → Bool
  | .update _ _ => true
  | _ => false

theorem insert_sorted (t : Table) (vals : List Value) (hi : IdxInv t) (hs : SortedInv t) :
    SortedInv (applyOp t (.insert vals)) := by
  simp only [applyOp]
  cases h : insert t vals with
  | error e => exact hs
  | ok p =>
    obtain ⟨t', id⟩ := p
    simp only
    unfold insert at h
    split at h
    · cases h
    · split at h
      · cases h
      · simp only [Except.ok.injEq, Prod.mk.injEq] at h
        obtain ⟨rfl, _⟩ := h
        refine ⟨?_, ?_⟩
        · intro c ix' hm
          obtain ⟨ix, hm0, rfl⟩ := (mem_mapIdx _ _ _ _).1 hm
          apply sortedIdx_addRow hashKey _ c ix (hs.1 c ix hm0)
          intro p hp
          obtain ⟨r', hr', hid, _⟩ := (hi.2.1 c ix hm0).sound p.1 p.2 hp
          have := hi.1.2 r' hr'
          simp only; omega
        · intro c ix' hm
          obtain ⟨ix, hm0, rfl⟩ := (mem_mapIdx _ _ _ _).1 hm
          apply sortedIdx_addRow ordKey _ c ix (hs.2 c ix hm0)
          intro p hp
          obtain ⟨r', hr', hid, _⟩ := (hi.2.2.1 c ix hm0).sound p.1 p.2 hp
          have := hi.1.2 r' hr'
          simp only; omega

theorem insertsFold_sorted : ∀ (rows : List (List Value)) (t : Table), IdxInv t → SortedInv t →
    SortedInv (rows.foldl (fun t v => applyOp t (.insert v)) t) := by
  intro rows
  induction rows with
  | nil => intro t _ hs; exact hs
  | cons v vs ih =>
    intro t hi hs
    rw [List.foldl_cons]
    exact ih _ (applyOp_preserves t (.insert v) hi) (insert_sorted t v hi hs)

theorem deleteFold_sorted : ∀ (targets : List RowE) (t : Table), SortedInv t →
    SortedInv (targets.foldl deleteOne t) := by
  intro targets
  induction targets with
  | nil => intro t hs; exact hs
  | cons r rs ih =>
    intro t hs
    rw [List.foldl_cons]
    apply ih
    unfold deleteOne
    refine ⟨?_, ?_⟩
    · intro c ix' hm
      obtain ⟨ix, hm0, rfl⟩ := (mem_mapIdx _ _ _ _).1 hm
      exact sortedIdx_removeRow hashKey r c ix (hs.1 c ix hm0)
    · intro c ix' hm
      obtain ⟨ix, hm0, rfl⟩ := (mem_mapIdx _ _ _ _).1 hm
      exact sortedIdx_removeRow ordKey r c ix (hs.2 c ix hm0)

theorem applyOp_sorted (t : Table) (op : Op) (hi : IdxInv t) (hs : SortedInv t) (hno : op.isUpdate = false) :
    SortedInv (applyOp t op) := by
  cases op with
  | insert vals => exact insert_sorted t vals hi hs
  | update c sets => simp [Op.isUpdate] at hno
  | delete c => exact deleteFold_sorted _ t hs
  | batchInsert rows =>
    simp only [applyOp]
    cases h : batchInsert t rows with
    | error e => exact hs
    | ok p =>
      obtain ⟨t', ids⟩ := p
      simp only
      rw [batchInsert_eq_inserts t rows t' ids h]
      exact insertsFold_sorted rows t hi hs
  | createHash c =>
    simp only [applyOp]
    cases h : createHashIndex t c with
    | error e => exact hs
    | ok t' =>
      simp only
      unfold createHashIndex at h
      split at h
      · cases h
      · split at h
        · cases h
        · simp only [Except.ok.injEq] at h; subst h
          refine ⟨?_, hs.2⟩
          intro c' ix hm
          rcases List.mem_append.1 hm with hm | hm
          · exact hs.1 c' ix hm
          · simp only [List.mem_singleton, Prod.mk.injEq] at hm
            obtain ⟨rfl, rfl⟩ := hm
            exact sorted_build hashKey c' t.rows hi.1
  | createOrd c =>
    simp only [applyOp]
    cases h : createOrdIndex t c with
    | error e => exact hs
    | ok t' =>
      simp only
      unfold createOrdIndex at h
      split at h
      · cases h
      · split at h
        · cases h
        · simp only [Except.ok.injEq] at h; subst h
          refine ⟨hs.1, ?_⟩
          intro c' ix hm
          rcases List.mem_append.1 hm with hm | hm
          · exact hs.2 c' ix hm
          · simp only [List.mem_singleton, Prod.mk.injEq] at hm
            obtain ⟨rfl, rfl⟩ := hm
            exact sorted_build ordKey c' t.rows hi.1
  | dropHash c =>
    simp only [applyOp]
    cases h : dropHashIndex t c with
    | error e => exact hs
    | ok t' =>
      simp only
      unfold dropHashIndex at h
      split at h
      · cases h
      · simp only [Except.ok.injEq] at h; subst h
        exact ⟨fun c' ix hm => hs.1 c' ix (List.mem_filter.1 hm).1, hs.2⟩
  | dropOrd c =>
    simp only [applyOp]
    cases h : dropOrdIndex t c with
    | error e => exact hs
    | ok t' =>
      simp only
      unfold dropOrdIndex at h
      split at h
      · cases h
      · simp only [Except.ok.injEq] at h; subst h
        exact ⟨hs.1, fun c' ix hm => hs.2 c' ix (List.mem_filter.1 hm).1⟩

theorem run_sorted (schema : List (ColType × Bool)) (ops : List Op) (hno : ∀ op ∈ ops, op.isUpdate = false) :
    SortedInv (run schema ops) := by
  unfold run
  suffices ∀ t, IdxInv t → SortedInv t → SortedInv (ops.foldl applyOp t) from
    this _ (idxInv_empty schema) ⟨by simp [Table.empty], by simp [Table.empty]⟩
  induction ops with
  | nil => intro t _ hs; exact hs
  | cons op ops ih =>
    intro t hi hs
    rw [List.foldl_cons]
    exact ih (fun o ho => hno o (List.mem_cons_of_mem _ ho)) _ (applyOp_preserves t op hi)
      (applyOp_sorted t op hi hs (hno op (by simp)))

/-- on ascending vectors the binary-search narrowing is the membership narrowing -/
theorem narrow_bin_eq_contains (t : Table) (hs : SortedInv t) (c : Cond) :
    tryIndexLookupNarrow binSearch t c = tryIndexLookupNarrow (fun l x => l.contains x) t c := by
  induction c with
  | tt => rfl
  | ne c v => rfl
  | or a b _ _ => rfl
  | eq col v => rfl
  | rng op col v => rfl
  | and a b iha ihb =>
    simp only [tryIndexLookupNarrow, iha, ihb]
    cases tryIndexLookupNarrow (fun l x => l.contains x) t a with
    | none => rfl
    | some cands =>
      simp only
      cases b with
      | eq col v =>
        simp only
        cases hix : assocGet col t.hidx with
        | none => rfl
        | some ix =>
          simp only
          congr 1
          apply List.filter_congr
          intro id _
          exact binSearch_eq_contains _ (sortedIdx_bucket ix (hs.1 col ix (assocGet_mem col _ ix hix)) _) id
      | tt => rfl
      | ne c v => rfl
      | rng op c v => rfl
      | and x y => rfl
      | or x y => rfl

end Neumann.Rel
