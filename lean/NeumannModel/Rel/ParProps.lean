import NeumannModel.Rel.ParLemmas
import NeumannModel.Rel.Props
/-
  C04 — property theorems, part 3: the aggregates do not depend on the execution strategy "sequential fold
  below 1000 selected rows / rayon reduction from 1000 rows on", nor on how rayon splits the selected rows.

  `min` / `max`: `rows.par_iter().filter_map(non-NULL column value).reduce_with(pick)`.  For every splitting
  (`Split`: any binary recursion of cuts, pieces folded left to right, results combined left first) the result
  is the sequential fold of the same rows, hence (`aggregates_touch_exactly`) the extreme of exactly the
  matching rows with NULLs ignored -- provided `partial_cmp_value` orders the column's non-NULL values linearly
  and only identical values compare `Equal` (integer, string, bytes columns; float columns without NaN and with
  one sign of zero: the reducer keeps its RIGHT operand on `Equal` / incomparable, the sequential loop its
  first, so -0.0 / 0.0 / NaN make the bit pattern of the answer depend on the splitting).
  `sum` / `avg` on integer terms: every splitting adds up to the (sum, count) of the list.

  ONLY property statements and their non-vacuity examples live here; helpers are in `ParLemmas.lean`.
-/
namespace Neumann.Rel.ParProps
open Neumann.Rel

/-- `partial_cmp_value` orders `vs` linearly through the key `g`; equal keys only for identical values -/
def Linear (g : Value → Int) (vs : List Value) : Prop :=
  (∀ a ∈ vs, ∀ b ∈ vs, partialCmp a b = some (icmp (g a) (g b))) ∧ (∀ a ∈ vs, ∀ b ∈ vs, g a = g b → a = b)

/-- the key of an integer column -/
def intKey : Value → Int
  | .int k => k
  | _ => 0

/-- an integer column: NULL or `Int` in every row (what `stored_values_well_typed` gives for `ColType.int`) -/
def IntColumn (i : Nat) (rows : List RowE) : Prop :=
  ∀ r ∈ rows, ∀ v, colVal r i = some v → v = .null ∨ ∃ k, v = .int k

/-- **the parallel branch of min / max is split-independent and skips NULLs in every piece**: for every
    list of selected rows, every column, every splitting of the rayon reduction (any cuts, any depth, empty
    pieces included), if `partial_cmp_value` orders the column's non-NULL values linearly, the reduction returns
    what the sequential loop returns over the same rows: the extreme of the non-NULL values (`none` when every
    selected row is NULL) -/
theorem parallel_min_max_independent_of_split (g : Value → Int) (i : Nat) (rows : List RowE)
    (h : Linear g (rows.filterMap (parKeep i))) (s : Split) :
    parReduce (parKeep i) .lt s rows = extremeOf .lt i rows ∧
    parReduce (parKeep i) .gt s rows = extremeOf .gt i rows := by
  constructor
  · apply parReduce_eq_extremeOf (g := g)
    exact ⟨fun a ha b hb => by rw [h.1 a ha b hb]; simp [icmp_lt_iff], h.2⟩
  · apply parReduce_eq_extremeOf (g := fun v => - g v)
    refine ⟨fun a ha b hb => ?_, fun a ha b hb hg => h.2 a ha b hb (by have hg' : - g a = - g b := hg; omega)⟩
    rw [h.1 a ha b hb]
    simp only [Option.some.injEq, icmp_gt_iff]
    omega

/-- integer columns satisfy the hypothesis -/
theorem int_column_is_linear (i : Nat) (rows : List RowE) (h : IntColumn i rows) :
    Linear intKey (rows.filterMap (parKeep i)) := by
  have hint : ∀ a ∈ rows.filterMap (parKeep i), ∃ k, a = .int k := by
    intro a ha
    obtain ⟨r, hr, hk⟩ := List.mem_filterMap.mp ha
    unfold parKeep at hk
    cases hc : colVal r i with
    | none => rw [hc] at hk; simp at hk
    | some v =>
      rcases h r hr v hc with rfl | ⟨k, rfl⟩
      · rw [hc] at hk; simp at hk
      · rw [hc] at hk; simp at hk; exact ⟨k, hk.symm⟩
  constructor
  · intro a ha b hb
    obtain ⟨x, rfl⟩ := hint a ha
    obtain ⟨y, rfl⟩ := hint b hb
    rfl
  · intro a ha b hb hg
    obtain ⟨x, rfl⟩ := hint a ha
    obtain ⟨y, rfl⟩ := hint b hb
    simp only [intKey] at hg
    rw [hg]

/-- **min / max are strategy-independent on every reachable table**: in every reachable state, for every
    condition and every splitting, `min` / `max` with both branches (rayon from `PARALLEL_THRESHOLD` selected
    rows on) return the sequential extreme over exactly the rows for which the condition is true, NULLs
    ignored -- however many rows the condition selects -/
theorem min_max_independent_of_strategy (schema : List (ColType × Bool)) (ops : List Op) (i : Nat) (c : Cond)
    (g : Value → Int) (s : Split) :
    let t := run schema ops
    Linear g ((specRows t c).filterMap (parKeep i)) →
    aggMinPar s t i c = extremeOf .lt i (specRows t c) ∧ aggMaxPar s t i c = extremeOf .gt i (specRows t c) := by
  intro t h
  have hsel : selectRows t c = specRows t c := (Neumann.Rel.Props.aggregates_touch_exactly schema ops i c).1
  have hp := parallel_min_max_independent_of_split g i (specRows t c) h s
  simp only [aggMinPar, aggMaxPar, extremeBoth, hsel]
  constructor
  · split
    · exact hp.1
    · rfl
  · split
    · exact hp.2
    · rfl

private def r1 (v : Value) : RowE := ⟨1, true, [v]⟩

-- non-vacuity: a splitting with an empty piece and a NULL in every piece
example : Linear intKey ([r1 (.int 5), r1 .null, r1 (.int (-2)), r1 .null, r1 (.int 7)].filterMap (parKeep 0)) :=
  int_column_is_linear 0 _ (by
    intro r hr v hv
    simp only [List.mem_cons, List.not_mem_nil, or_false] at hr
    rcases hr with rfl | rfl | rfl | rfl | rfl <;> simp [colVal, r1] at hv <;> simp [← hv])
example : parReduce (parKeep 0) .lt (.node 2 (.node 0 .leaf .leaf) (.node 2 .leaf .leaf))
    [r1 (.int 5), r1 .null, r1 (.int (-2)), r1 .null, r1 (.int 7)] = some (.int (-2)) := by decide
example : parReduce (parKeep 0) .gt .leaf [r1 .null, r1 .null] = none := by decide

/-- **without the NULL guard in the parallel branch the property fails**: a NULL that reaches the reducer is
    incomparable, the reducer answers its right operand -- `MIN` over `[10, NULL]` is NULL, and over
    `[5, 7, NULL, 6]` it is 6 or 5 depending on where rayon cuts; the sequential loop says 10 and 5 -/
theorem extremeBothParallelKeepsNulls_witness :
    parReduce (parKeepNulls 0) .lt .leaf [r1 (.int 10), r1 .null] = some .null ∧
    extremeOf .lt 0 [r1 (.int 10), r1 .null] = some (.int 10) ∧
    parReduce (parKeepNulls 0) .lt .leaf [r1 (.int 5), r1 (.int 7), r1 .null, r1 (.int 6)] = some (.int 6) ∧
    parReduce (parKeepNulls 0) .lt (.node 2 .leaf .leaf) [r1 (.int 5), r1 (.int 7), r1 .null, r1 (.int 6)]
      = some (.int 5) ∧
    parReduce (parKeepNulls 0) .gt (.node 1 .leaf .leaf) [r1 (.int 9), r1 .null] = some .null := by decide

/-- **the (sum, count) reduction of sum / avg is split-independent on integer terms**: every splitting adds up
    to the left-to-right (sum, count) of the same rows; NULL rows contribute (0, 0) in every piece -/
theorem parallel_sum_count_independent_of_split (i : Nat) (rows : List RowE) (s : Split) :
    parSumCount i s rows = parSumCount i .leaf rows :=
  by rw [parSumCount_eq, parSumCount_eq]

example : parSumCount 0 (.node 1 .leaf (.node 1 .leaf .leaf)) [r1 (.int 5), r1 .null, r1 (.int (-2))] = (3, 2) := by
  decide

end Neumann.Rel.ParProps
