import NeumannModel.Rel.BucketLemmas
/-
  C04 helper lemmas, part 6: a rolled-back DELETE / UPDATE (`begin_transaction; tx_delete / tx_update;
  rollback`) preserves the index invariant and changes no row -- it only moves ids to the END of their vectors.
-/
namespace Neumann.Rel

variable {κ : Type} [DecidableEq κ]

omit [DecidableEq κ] in
theorem nodup_reverse_of {α : Type} (l : List α) (h : l.Nodup) : l.reverse.Nodup :=
  ((List.reverse_perm l).nodup_iff).2 h

/-! ## undo of a delete: the slot comes alive again, its ids are pushed back -/

theorem mem_reviveRow (id : Nat) (rows : List RowE) (r' : RowE) :
    r' ∈ reviveRow id rows ↔ ∃ r0 ∈ rows, r' = if r0.id = id then { r0 with alive := true } else r0 := by
  unfold reviveRow; rw [List.mem_map]; constructor <;> (rintro ⟨r0, h, e⟩; exact ⟨r0, h, e.symm⟩)

theorem reviveRow_ids (id : Nat) (rows : List RowE) : (reviveRow id rows).map (·.id) = rows.map (·.id) := by
  unfold reviveRow; rw [List.map_map]; apply List.map_congr_left; intro r _; simp only [Function.comp]; split <;> rfl

/-- restoring one deleted row: `x` is the dead slot, `r` the row as recorded before the delete -/
theorem kinv_revive (key : Value → κ) (rows : List RowE) (c : ColRef) (ix : Idx κ) (r x : RowE)
    (h : KInv key rows c ix) (hw : (rows.map (·.id)).Pairwise (· < ·)) (hx : x ∈ rows)
    (hid : x.id = r.id) (hdead : x.alive = false) (hvals : x.vals = r.vals) :
    KInv key (reviveRow r.id rows) c (idxAddRow key r c ix) := by
  let nr : RowE := { x with alive := true }
  have F1 : ∀ r0 ∈ rows, r0.id ≠ r.id → r0 ∈ reviveRow r.id rows := by
    intro r0 h0 hne; rw [mem_reviveRow]; exact ⟨r0, h0, by simp [hne]⟩
  have F2 : nr ∈ reviveRow r.id rows := by
    rw [mem_reviveRow]; exact ⟨x, hx, by simp [nr, hid]⟩
  have F3 : ∀ r' ∈ reviveRow r.id rows, r' = nr ∨ (r' ∈ rows ∧ r'.id ≠ r.id) := by
    intro r' hm
    obtain ⟨r0, h0, e⟩ := (mem_reviveRow _ _ _).1 hm
    by_cases hid0 : r0.id = r.id
    · have := id_inj rows hw r0 h0 x hx (hid0.trans hid.symm); subst this
      rw [if_pos hid0] at e; exact Or.inl e
    · rw [if_neg hid0] at e; subst e; exact Or.inr ⟨h0, hid0⟩
  -- no entry of the index carries the id of the dead slot
  have noid : ∀ k', (k', r.id) ∈ ix → False := by
    intro k' hm
    obtain ⟨r0, h0, hid0, hal, _⟩ := h.sound k' r.id hm
    have := id_inj rows hw r0 h0 x hx (hid0.trans hid.symm); subst this
    rw [hdead] at hal; cases hal
  have old_sound : ∀ k i, (k, i) ∈ ix → ∃ r0 ∈ reviveRow r.id rows, r0.id = i ∧ r0.alive = true ∧
      ∃ v, getWithId r0.id r0.vals c = some v ∧ key v = k := by
    intro k i hm
    obtain ⟨r0, h0, hid0, hal, v, hv, hk⟩ := h.sound k i hm
    have hne : r0.id ≠ r.id := by intro e; exact noid k (by rw [← e, hid0]; exact hm)
    exact ⟨r0, F1 r0 h0 hne, hid0, hal, v, hv, hk⟩
  have hnr : getWithId nr.id nr.vals c = getWithId r.id r.vals c := by simp [nr, hid, hvals]
  unfold idxAddRow
  cases hg : getWithId r.id r.vals c with
  | none =>
    simp only
    refine ⟨h.nodup, old_sound, ?_⟩
    intro r' hm hal v hv
    rcases F3 r' hm with e | ⟨h0, _⟩
    · subst e; rw [hnr, hg] at hv; cases hv
    · exact h.complete r' h0 hal v hv
  | some v =>
    simp only
    refine ⟨?_, ?_, ?_⟩
    · apply nodup_idxAdd _ _ _ h.nodup
      intro k' hm; exact (noid k' hm).elim
    · intro k i hm
      rcases (mem_idxAdd _ _ _ _).1 hm with hm | hm
      · exact old_sound k i hm
      · cases hm
        exact ⟨nr, F2, by simp [nr, hid], rfl, v, by rw [hnr]; exact hg, rfl⟩
    · intro r' hm hal v' hv
      rw [mem_idxAdd]
      rcases F3 r' hm with e | ⟨h0, _⟩
      · subst e
        rw [hnr, hg] at hv; cases hv
        exact Or.inr (by simp [nr, hid])
      · exact Or.inl (h.complete r' h0 hal v' hv)

theorem restoreOne_preserves (t : Table) (r x : RowE) (hi : IdxInv t) (hx : x ∈ t.rows)
    (hid : x.id = r.id) (hdead : x.alive = false) (hvals : x.vals = r.vals) : IdxInv (restoreOne t r) := by
  unfold restoreOne
  refine ⟨⟨?_, ?_⟩, ?_, ?_, ?_⟩
  · simp only; rw [reviveRow_ids]; exact hi.1.1
  · intro r' hm
    simp only at hm ⊢
    obtain ⟨r0, h0, e⟩ := (mem_reviveRow _ _ _).1 hm
    have : r'.id = r0.id := by subst e; split <;> rfl
    have hl : (reviveRow r.id t.rows).length = t.rows.length := by unfold reviveRow; simp
    rw [this, hl]; exact hi.1.2 r0 h0
  · intro c ix' hm
    obtain ⟨ix, hm0, rfl⟩ := (mem_mapIdx _ _ _ _).1 hm
    exact kinv_revive hashKey t.rows c ix r x (hi.2.1 c ix hm0) hi.1.1 hx hid hdead hvals
  · intro c ix' hm
    obtain ⟨ix, hm0, rfl⟩ := (mem_mapIdx _ _ _ _).1 hm
    exact kinv_revive ordKey t.rows c ix r x (hi.2.2.1 c ix hm0) hi.1.1 hx hid hdead hvals
  · intro r' hm
    simp only at hm ⊢
    obtain ⟨r0, h0, e⟩ := (mem_reviveRow _ _ _).1 hm
    have : r'.vals = r0.vals := by subst e; split <;> rfl
    rw [this]; exact hi.2.2.2 r0 h0

theorem restoreFold_preserves : ∀ (targets : List RowE) (t : Table), IdxInv t →
    (∀ r ∈ targets, ∃ x ∈ t.rows, x.id = r.id ∧ x.alive = false ∧ x.vals = r.vals) →
    (targets.map (·.id)).Nodup → IdxInv (targets.foldl restoreOne t) := by
  intro targets
  induction targets with
  | nil => intro t hi _ _; exact hi
  | cons r rs ih =>
    intro t hi hm hn
    rw [List.foldl_cons]
    rw [List.map_cons, List.nodup_cons] at hn
    obtain ⟨x, hx, hid, hdead, hvals⟩ := hm r (by simp)
    apply ih _ (restoreOne_preserves t r x hi hx hid hdead hvals)
    · intro r2 h2
      obtain ⟨x2, hx2, hid2, hd2, hv2⟩ := hm r2 (List.mem_cons_of_mem _ h2)
      have hne : x2.id ≠ r.id := by
        intro e; exact hn.1 (List.mem_map.2 ⟨r2, h2, hid2.symm.trans e⟩)
      refine ⟨x2, ?_, hid2, hd2, hv2⟩
      show x2 ∈ reviveRow r.id t.rows
      rw [mem_reviveRow]; exact ⟨x2, hx2, by simp [hne]⟩
    · exact hn.2

theorem restoreFold_rows : ∀ (targets : List RowE) (t : Table),
    (targets.foldl restoreOne t).rows = targets.foldl (fun rows r => reviveRow r.id rows) t.rows := by
  intro targets; induction targets with
  | nil => intro t; rfl
  | cons r rs ih => intro t; rw [List.foldl_cons, List.foldl_cons, ih]; rfl

theorem restoreFold_schema : ∀ (targets : List RowE) (t : Table), (targets.foldl restoreOne t).schema = t.schema := by
  intro targets; induction targets with
  | nil => intro t; rfl
  | cons r rs ih => intro t; rw [List.foldl_cons, ih]; rfl

theorem reviveFold_eq_map : ∀ (targets : List RowE) (rows : List RowE),
    targets.foldl (fun rows r => reviveRow r.id rows) rows =
      rows.map (fun x => if x.id ∈ targets.map (·.id) then { x with alive := true } else x) := by
  intro targets; induction targets with
  | nil => intro rows; simp
  | cons r rs ih =>
    intro rows
    rw [List.foldl_cons, ih]
    unfold reviveRow
    rw [List.map_map]
    apply List.map_congr_left
    intro x _
    simp only [Function.comp, List.map_cons, List.mem_cons]
    by_cases h1 : x.id = r.id
    · simp [h1]
    · simp [h1]

theorem deleteRolledBack_rows (t : Table) (c : Cond) (hw : RowsWF t.rows) : (deleteRolledBack t c).rows = t.rows := by
  unfold deleteRolledBack
  rw [restoreFold_rows, reviveFold_eq_map]
  have hdel := delete_rows_eq t c hw
  unfold delete at hdel
  simp only at hdel
  rw [hdel, List.map_map]
  conv => rhs; rw [← List.map_id t.rows]
  apply List.map_congr_left
  intro x hx
  simp only [Function.comp, id, List.map_reverse, List.mem_reverse]
  by_cases hm : matchesRow c x = true
  · have hal : x.alive = true := by simp only [matchesRow, Bool.and_eq_true] at hm; exact hm.1
    have hin : x.id ∈ (matching t c).map (·.id) := (mem_matching_ids t c hw x hx).2 hm
    simp only [hm, if_true, hin]
    cases x; simp_all
  · have hnin : ¬ x.id ∈ (matching t c).map (·.id) := fun e => hm ((mem_matching_ids t c hw x hx).1 e)
    have hm' : matchesRow c x = false := by cases h : matchesRow c x <;> simp_all
    simp only [hm', Bool.false_eq_true, if_false, hnin]

theorem deleteRolledBack_preserves (t : Table) (c : Cond) (hi : IdxInv t) : IdxInv (deleteRolledBack t c) := by
  unfold deleteRolledBack
  have h1 : IdxInv ((matching t c).foldl deleteOne t) := delete_preserves t c hi
  apply restoreFold_preserves _ _ h1
  · intro r hr
    rw [List.mem_reverse] at hr
    have hr' := List.mem_filter.1 hr
    have hrows := delete_rows_eq t c hi.1
    unfold delete at hrows
    simp only at hrows
    rw [hrows]
    refine ⟨{ r with alive := false }, ?_, rfl, rfl, rfl⟩
    rw [List.mem_map]
    exact ⟨r, hr'.1, by simp [hr'.2]⟩
  · rw [List.map_reverse]
    exact nodup_reverse_of _ (matching_ids_nodup t c hi.1)

/-! ## undo of an update: the old values come back, the id moves to the end of the old value's vector -/

omit [DecidableEq κ] in
/-- replacing the values of one live row when the value at `c` does not change -/
theorem kinv_replace_same (key : Value → κ) (rows : List RowE) (c : ColRef) (ix : Idx κ) (y : RowE)
    (vals' : List Value) (h : KInv key rows c ix) (hw : (rows.map (·.id)).Pairwise (· < ·)) (hy : y ∈ rows)
    (hs : getWithId y.id vals' c = getWithId y.id y.vals c) :
    KInv key (setRow y.id vals' rows) c ix := by
  let nr : RowE := { y with vals := vals' }
  have F1 : ∀ r0 ∈ rows, r0.id ≠ y.id → r0 ∈ setRow y.id vals' rows := by
    intro r0 h0 hne; rw [mem_setRow]; exact ⟨r0, h0, by simp [hne]⟩
  have F2 : nr ∈ setRow y.id vals' rows := by rw [mem_setRow]; exact ⟨y, hy, by simp [nr]⟩
  have F3 : ∀ r' ∈ setRow y.id vals' rows, r' = nr ∨ (r' ∈ rows ∧ r'.id ≠ y.id) := by
    intro r' hm
    obtain ⟨r0, h0, e⟩ := (mem_setRow _ _ _ _).1 hm
    by_cases hid : r0.id = y.id
    · have := id_inj rows hw r0 h0 y hy hid; subst this
      rw [if_pos rfl] at e; exact Or.inl e
    · rw [if_neg hid] at e; subst e; exact Or.inr ⟨h0, hid⟩
  refine ⟨h.nodup, ?_, ?_⟩
  · intro k i hm
    obtain ⟨r0, h0, hid, hal, v, hv, hk⟩ := h.sound k i hm
    by_cases e : r0.id = y.id
    · have := id_inj rows hw r0 h0 y hy e; subst this
      exact ⟨nr, F2, hid, hal, v, by simpa [nr, hs] using hv, hk⟩
    · exact ⟨r0, F1 r0 h0 e, hid, hal, v, hv, hk⟩
  · intro r' hm hal v hv
    rcases F3 r' hm with e | ⟨h0, _⟩
    · subst e
      have hv' : getWithId y.id y.vals c = some v := by rw [← hs]; simpa [nr] using hv
      exact h.complete y hy (by simpa [nr] using hal) v hv'
    · exact h.complete r' h0 hal v hv

/-- replacing the values of one live row when the value at `c` changes from `ov` to `nv`: the id leaves
    `ov`'s vector and is pushed onto `nv`'s -/
theorem kinv_replace (key : Value → κ) (rows : List RowE) (c : ColRef) (ix : Idx κ) (y : RowE)
    (vals' : List Value) (ov nv : Value) (h : KInv key rows c ix) (hw : (rows.map (·.id)).Pairwise (· < ·))
    (hy : y ∈ rows) (hlive : y.alive = true)
    (ho : getWithId y.id y.vals c = some ov) (hn : getWithId y.id vals' c = some nv) :
    KInv key (setRow y.id vals' rows) c (idxAdd (key nv) y.id (idxRemove (key ov) y.id ix)) := by
  let nr : RowE := { y with vals := vals' }
  have F1 : ∀ r0 ∈ rows, r0.id ≠ y.id → r0 ∈ setRow y.id vals' rows := by
    intro r0 h0 hne; rw [mem_setRow]; exact ⟨r0, h0, by simp [hne]⟩
  have F2 : nr ∈ setRow y.id vals' rows := by rw [mem_setRow]; exact ⟨y, hy, by simp [nr]⟩
  have F3 : ∀ r' ∈ setRow y.id vals' rows, r' = nr ∨ (r' ∈ rows ∧ r'.id ≠ y.id) := by
    intro r' hm
    obtain ⟨r0, h0, e⟩ := (mem_setRow _ _ _ _).1 hm
    by_cases hid : r0.id = y.id
    · have := id_inj rows hw r0 h0 y hy hid; subst this
      rw [if_pos rfl] at e; exact Or.inl e
    · rw [if_neg hid] at e; subst e; exact Or.inr ⟨h0, hid⟩
  have gone : ∀ k', (k', y.id) ∈ idxRemove (key ov) y.id ix → False := by
    intro k' hm
    obtain ⟨hm, hnot⟩ := (mem_idxRemove _ _ _ _).1 hm
    obtain ⟨r0, h0, hid, _, v, hv, hk⟩ := h.sound k' y.id hm
    have := id_inj rows hw r0 h0 y hy hid; subst this
    rw [ho] at hv; cases hv
    exact hnot ⟨hk.symm, rfl⟩
  refine ⟨?_, ?_, ?_⟩
  · apply nodup_idxAdd
    · exact h.nodup.sublist ((List.filter_sublist).map _)
    · intro k' hm; exact (gone k' hm).elim
  · intro k i hm
    rcases (mem_idxAdd _ _ _ _).1 hm with hm | hm
    · have hne : i ≠ y.id := by intro e; subst e; exact gone k hm
      obtain ⟨hm, _⟩ := (mem_idxRemove _ _ _ _).1 hm
      obtain ⟨r0, h0, hid, hal, v, hv, hk⟩ := h.sound k i hm
      exact ⟨r0, F1 r0 h0 (by omega), hid, hal, v, hv, hk⟩
    · cases hm
      exact ⟨nr, F2, rfl, hlive, nv, hn, rfl⟩
  · intro r' hm hal v hv
    rw [mem_idxAdd]
    rcases F3 r' hm with e | ⟨h0, hne⟩
    · subst e
      have : v = nv := by
        have : getWithId y.id vals' c = some v := by simpa [nr] using hv
        rw [hn] at this; cases this; rfl
      subst this; exact Or.inr rfl
    · exact Or.inl ((mem_idxRemove _ _ _ _).2 ⟨h.complete r' h0 hal v hv, fun ⟨_, e⟩ => hne e⟩)

/-- undoing the update of one row: `y` is the updated row in the table, `r` the row before the update -/
theorem kinv_revert (key : Value → κ) (sets : List (Nat × Value)) (rows : List RowE) (c : ColRef) (ix : Idx κ)
    (r y : RowE) (h : KInv key rows c ix) (hw : (rows.map (·.id)).Pairwise (· < ·)) (hy : y ∈ rows)
    (hid : y.id = r.id) (hlive : y.alive = true) (hvals : y.vals = applySetsFrom sets 0 r.vals) :
    KInv key (setRow r.id r.vals rows) c (idxRevertRow key sets r c ix) := by
  rw [← hid]
  cases c with
  | id =>
    simp only [idxRevertRow]
    exact kinv_replace_same key rows .id ix y r.vals h hw hy (by simp [getWithId])
  | col j =>
    simp only [idxRevertRow]
    have hcur : y.vals[j]? = (r.vals[j]?).map (fun v => (setsGet j sets).getD v) := by
      rw [hvals, applySetsFrom_get]; simp
    cases hsg : setsGet j sets with
    | none =>
      simp only
      apply kinv_replace_same key rows (.col j) ix y r.vals h hw hy
      simp only [getWithId, hcur, hsg, Option.getD_none]
      cases r.vals[j]? <;> rfl
    | some nv =>
      simp only
      cases hov : r.vals[j]? with
      | none =>
        have : getWithId r.id r.vals (.col j) = none := by simp [getWithId, hov]
        rw [this]
        apply kinv_replace_same key rows (.col j) ix y r.vals h hw hy
        simp [getWithId, hcur, hov]
      | some ov =>
        have hg : getWithId r.id r.vals (.col j) = some ov := by simp [getWithId, hov]
        rw [hg]
        simp only
        have hyv : getWithId y.id y.vals (.col j) = some nv := by simp [getWithId, hcur, hov, hsg]
        have := kinv_replace key rows (.col j) ix y r.vals nv ov h hw hy hlive hyv (by simp [getWithId, hov])
        rw [hid] at this ⊢
        exact this

theorem revertOne_preserves (sets : List (Nat × Value)) (t : Table) (r y : RowE) (hi : IdxInv t)
    (hy : y ∈ t.rows) (hid : y.id = r.id) (hlive : y.alive = true)
    (hvals : y.vals = applySetsFrom sets 0 r.vals) : IdxInv (revertOne sets t r) := by
  unfold revertOne
  refine ⟨⟨?_, ?_⟩, ?_, ?_, ?_⟩
  · simp only; rw [setRow_ids]; exact hi.1.1
  · intro r' hm
    simp only at hm ⊢
    obtain ⟨r0, h0, e⟩ := (mem_setRow _ _ _ _).1 hm
    have : r'.id = r0.id := by subst e; split <;> rfl
    have hl : (setRow r.id r.vals t.rows).length = t.rows.length := by unfold setRow; simp
    rw [this, hl]; exact hi.1.2 r0 h0
  · intro c ix' hm
    obtain ⟨ix, hm0, rfl⟩ := (mem_mapIdx _ _ _ _).1 hm
    exact kinv_revert hashKey sets t.rows c ix r y (hi.2.1 c ix hm0) hi.1.1 hy hid hlive hvals
  · intro c ix' hm
    obtain ⟨ix, hm0, rfl⟩ := (mem_mapIdx _ _ _ _).1 hm
    exact kinv_revert ordKey sets t.rows c ix r y (hi.2.2.1 c ix hm0) hi.1.1 hy hid hlive hvals
  · intro r' hm
    simp only at hm ⊢
    obtain ⟨r0, h0, e⟩ := (mem_setRow _ _ _ _).1 hm
    by_cases hid0 : r0.id = r.id
    · have := id_inj t.rows hi.1.1 r0 h0 y hy (hid0.trans hid.symm); subst this
      rw [if_pos hid0] at e
      rw [e]
      simp only
      have := hi.2.2.2 r0 h0
      rw [hvals, applySetsFrom_length] at this
      exact this
    · rw [if_neg hid0] at e; rw [e]; exact hi.2.2.2 r0 h0

theorem revertFold_preserves (sets : List (Nat × Value)) : ∀ (targets : List RowE) (t : Table), IdxInv t →
    (∀ r ∈ targets, ∃ y ∈ t.rows, y.id = r.id ∧ y.alive = true ∧ y.vals = applySetsFrom sets 0 r.vals) →
    (targets.map (·.id)).Nodup → IdxInv (targets.foldl (revertOne sets) t) := by
  intro targets
  induction targets with
  | nil => intro t hi _ _; exact hi
  | cons r rs ih =>
    intro t hi hm hn
    rw [List.foldl_cons]
    rw [List.map_cons, List.nodup_cons] at hn
    obtain ⟨y, hy, hid, hlive, hvals⟩ := hm r (by simp)
    apply ih _ (revertOne_preserves sets t r y hi hy hid hlive hvals)
    · intro r2 h2
      obtain ⟨y2, hy2, hid2, hl2, hv2⟩ := hm r2 (List.mem_cons_of_mem _ h2)
      have hne : y2.id ≠ r.id := by
        intro e; exact hn.1 (List.mem_map.2 ⟨r2, h2, hid2.symm.trans e⟩)
      refine ⟨y2, ?_, hid2, hl2, hv2⟩
      show y2 ∈ setRow r.id r.vals t.rows
      rw [mem_setRow]; exact ⟨y2, hy2, by simp [hne]⟩
    · exact hn.2

theorem revertFold_rows (sets : List (Nat × Value)) : ∀ (targets : List RowE) (t : Table),
    (targets.foldl (revertOne sets) t).rows = targets.foldl (fun rows r => setRow r.id r.vals rows) t.rows := by
  intro targets; induction targets with
  | nil => intro t; rfl
  | cons r rs ih => intro t; rw [List.foldl_cons, List.foldl_cons, ih]; rfl

theorem revertFold_schema (sets : List (Nat × Value)) : ∀ (targets : List RowE) (t : Table),
    (targets.foldl (revertOne sets) t).schema = t.schema := by
  intro targets; induction targets with
  | nil => intro t; rfl
  | cons r rs ih => intro t; rw [List.foldl_cons, ih]; rfl

/-- writing recorded values back, row by row: every row whose id is among the targets gets the values recorded
    for that id, every other row is untouched -/
theorem setValsFold_spec : ∀ (targets : List RowE) (rows : List RowE), (targets.map (·.id)).Nodup →
    targets.foldl (fun rows r => setRow r.id r.vals rows) rows =
      rows.map (fun x => match targets.find? (fun r => decide (r.id = x.id)) with
        | some r => { x with vals := r.vals }
        | none => x) := by
  intro targets
  induction targets with
  | nil => intro rows _; simp
  | cons r rs ih =>
    intro rows hn
    rw [List.map_cons, List.nodup_cons] at hn
    rw [List.foldl_cons, ih _ hn.2]
    unfold setRow
    rw [List.map_map]
    apply List.map_congr_left
    intro x _
    simp only [Function.comp, List.find?_cons]
    by_cases h1 : x.id = r.id
    · have hnone : rs.find? (fun r' => decide (r'.id = r.id)) = none := by
        rw [List.find?_eq_none]
        intro r' hr' he
        simp only [decide_eq_true_eq] at he
        exact hn.1 (List.mem_map.2 ⟨r', hr', he⟩)
      simp [h1, hnone]
    · have : ¬ r.id = x.id := fun e => h1 e.symm
      simp [h1, this]

theorem updateRolledBack_rows (t : Table) (c : Cond) (sets : List (Nat × Value)) (t' : Table) (n : Nat)
    (hw : RowsWF t.rows) (h : updateRolledBack t c sets = .ok (t', n)) :
    t'.rows = t.rows ∧ t'.schema = t.schema ∧ n = (matching t c).length := by
  unfold updateRolledBack at h
  cases hv : validateSets t.schema sets with
  | some e => simp [hv] at h
  | none =>
    simp only [hv, Except.ok.injEq, Prod.mk.injEq] at h
    obtain ⟨rfl, rfl⟩ := h
    refine ⟨?_, by rw [revertFold_schema, updateFold_schema], rfl⟩
    have hup : update t c sets = .ok ((matching t c).foldl (updateOne sets) t, (matching t c).length) := by
      unfold update; simp [hv]
    rw [revertFold_rows, update_rows_eq t c sets _ _ hw hup,
      setValsFold_spec _ _ (by rw [List.map_reverse]; exact nodup_reverse_of _ (matching_ids_nodup t c hw)),
      List.map_map]
    conv => rhs; rw [← List.map_id t.rows]
    apply List.map_congr_left
    intro x hx
    simp only [Function.comp, id]
    by_cases hm : matchesRow c x = true
    · simp only [hm, if_true]
      have hin : x ∈ (matching t c).reverse := by
        rw [List.mem_reverse]; exact List.mem_filter.2 ⟨hx, hm⟩
      cases hf : (matching t c).reverse.find? (fun r => decide (r.id = x.id)) with
      | none =>
        rw [List.find?_eq_none] at hf
        have := hf x hin
        simp at this
      | some r =>
        have hr := List.mem_of_find?_eq_some hf
        have hp := List.find?_some hf
        simp only [decide_eq_true_eq] at hp
        rw [List.mem_reverse] at hr
        have := id_inj t.rows hw.1 r (List.mem_filter.1 hr).1 x hx hp
        subst this
        rfl
    · have hm' : matchesRow c x = false := by cases h : matchesRow c x <;> simp_all
      simp only [hm', Bool.false_eq_true, if_false]
      cases hf : (matching t c).reverse.find? (fun r => decide (r.id = x.id)) with
      | none => rfl
      | some r =>
        have hr := List.mem_of_find?_eq_some hf
        have hp := List.find?_some hf
        simp only [decide_eq_true_eq] at hp
        rw [List.mem_reverse] at hr
        have hr' := List.mem_filter.1 hr
        have := id_inj t.rows hw.1 r hr'.1 x hx hp
        subst this
        rw [hr'.2] at hm'

theorem updateRolledBack_preserves (t : Table) (c : Cond) (sets : List (Nat × Value)) (t' : Table) (n : Nat)
    (hi : IdxInv t) (h : updateRolledBack t c sets = .ok (t', n)) : IdxInv t' := by
  unfold updateRolledBack at h
  cases hv : validateSets t.schema sets with
  | some e => simp [hv] at h
  | none =>
    simp only [hv, Except.ok.injEq, Prod.mk.injEq] at h
    obtain ⟨rfl, _⟩ := h
    have hup : update t c sets = .ok ((matching t c).foldl (updateOne sets) t, (matching t c).length) := by
      unfold update; simp [hv]
    have h1 : IdxInv ((matching t c).foldl (updateOne sets) t) := update_preserves t c sets _ _ hi hup
    apply revertFold_preserves sets _ _ h1
    · intro r hr
      rw [List.mem_reverse] at hr
      have hr' := List.mem_filter.1 hr
      rw [update_rows_eq t c sets _ _ hi.1 hup]
      refine ⟨{ r with vals := applySetsFrom sets 0 r.vals }, ?_, rfl, ?_, rfl⟩
      · rw [List.mem_map]; exact ⟨r, hr'.1, by simp [hr'.2]⟩
      · have := hr'.2; simp only [matchesRow, Bool.and_eq_true] at this; exact this.1
    · rw [List.map_reverse]
      exact nodup_reverse_of _ (matching_ids_nodup t c hi.1)

/-! ## histories with rolled-back statements -/

theorem applyX_preserves (t : Table) (op : XOp) (hi : IdxInv t) : IdxInv (applyX t op) := by
  cases op with
  | base op => exact applyOp_preserves t op hi
  | deleteRollback c => exact deleteRolledBack_preserves t c hi
  | updateRollback c sets =>
    simp only [applyX]
    cases h : updateRolledBack t c sets with
    | error e => exact hi
    | ok p => obtain ⟨t', n⟩ := p; exact updateRolledBack_preserves t c sets t' n hi h

theorem runX_inv (schema : List (ColType × Bool)) (ops : List XOp) : IdxInv (runX schema ops) := by
  unfold runX
  suffices ∀ t, IdxInv t → IdxInv (ops.foldl applyX t) from this _ (idxInv_empty schema)
  induction ops with
  | nil => intro t h; exact h
  | cons op ops ih => intro t h; exact ih _ (applyX_preserves t op h)

end Neumann.Rel
