import NeumannModel.Rel.ParModel
/-
  Helpers for `ParProps.lean`: on values that `partial_cmp_value` orders linearly (via a key `g`, equal keys
  only for identical values) every run of the rayon reduction, and the sequential fold, return THE element of
  least key among the non-NULL column values.
-/
namespace Neumann.Rel

/-- `want` is decided by the key `g` on `vs`, and equal keys mean identical values -/
def KeyOrd (want : Ordering) (g : Value → Int) (vs : List Value) : Prop :=
  (∀ a ∈ vs, ∀ b ∈ vs, (partialCmp a b = some want ↔ g a < g b)) ∧
  (∀ a ∈ vs, ∀ b ∈ vs, g a = g b → a = b)

theorem KeyOrd.mono {want g vs ws} (h : KeyOrd want g vs) (hs : ∀ x ∈ ws, x ∈ vs) : KeyOrd want g ws :=
  ⟨fun a ha b hb => h.1 a (hs a ha) b (hs b hb), fun a ha b hb => h.2 a (hs a ha) b (hs b hb)⟩

/-- `o` is the answer for `vs`: nothing for the empty list, else an element of least key -/
def Res (g : Value → Int) (vs : List Value) : Option Value → Prop
  | none => vs = []
  | some r => r ∈ vs ∧ ∀ x ∈ vs, g r ≤ g x

theorem Res.unique {want g vs a b} (h : KeyOrd want g vs) (ha : Res g vs a) (hb : Res g vs b) : a = b := by
  cases a with
  | none => cases b with
    | none => rfl
    | some r => simp only [Res] at ha hb; subst ha; exact absurd hb.1 (List.not_mem_nil)
  | some r => cases b with
    | none => simp only [Res] at ha hb; subst hb; exact absurd ha.1 (List.not_mem_nil)
    | some r' =>
      simp only [Res] at ha hb
      have h1 := ha.2 r' hb.1
      have h2 := hb.2 r ha.1
      have : g r = g r' := by omega
      rw [h.2 r ha.1 r' hb.1 this]

theorem res_optPick {want g xs ys a b} (h : KeyOrd want g (xs ++ ys)) (ha : Res g xs a) (hb : Res g ys b) :
    Res g (xs ++ ys) (optPick want a b) := by
  cases a with
  | none =>
    simp only [Res] at ha; subst ha
    cases b <;> simpa [optPick] using hb
  | some r => cases b with
    | none =>
      simp only [Res] at hb; subst hb
      simpa [optPick] using ha
    | some r' =>
      simp only [Res] at ha hb
      have hr : r ∈ xs ++ ys := List.mem_append.mpr (Or.inl ha.1)
      have hr' : r' ∈ xs ++ ys := List.mem_append.mpr (Or.inr hb.1)
      have hiff := h.1 r hr r' hr'
      simp only [optPick, parPick, Res]
      by_cases hc : partialCmp r r' = some want
      · rw [if_pos hc]
        have hlt := hiff.mp hc
        refine ⟨hr, fun x hx => ?_⟩
        rcases List.mem_append.mp hx with hx | hx
        · exact ha.2 x hx
        · have := hb.2 x hx; omega
      · rw [if_neg hc]
        have hge : ¬ g r < g r' := fun hlt => hc (hiff.mpr hlt)
        refine ⟨hr', fun x hx => ?_⟩
        rcases List.mem_append.mp hx with hx | hx
        · have := ha.2 x hx; omega
        · exact hb.2 x hx

theorem res_singleton (g : Value → Int) (x : Value) : Res g [x] (some x) := by
  simp [Res]

/-- the sequential fold of one piece -/
theorem res_leaf_fold {want g} (vs : List Value) : ∀ (pre : List Value) (acc : Option Value),
    KeyOrd want g (pre ++ vs) → Res g pre acc →
    Res g (pre ++ vs) (vs.foldl (fun acc x => optPick want acc (some x)) acc) := by
  induction vs with
  | nil => intro pre acc _ ha; simpa using ha
  | cons x tl ih =>
    intro pre acc h ha
    have e : pre ++ x :: tl = (pre ++ [x]) ++ tl := by simp
    rw [List.foldl_cons, e]
    apply ih (pre ++ [x]) _ (e ▸ h)
    exact res_optPick (h.mono (fun y hy => by
      rcases List.mem_append.mp hy with hy | hy
      · exact List.mem_append.mpr (Or.inl hy)
      · exact List.mem_append.mpr (Or.inr (by
          rcases List.mem_singleton.mp hy with rfl; exact List.mem_cons_self)))) ha (res_singleton g x)

/-- every splitting of the rayon reduction -/
theorem res_parReduce {want g} (keep : RowE → Option Value) (s : Split) : ∀ (rows : List RowE),
    KeyOrd want g (rows.filterMap keep) → Res g (rows.filterMap keep) (parReduce keep want s rows) := by
  induction s with
  | leaf =>
    intro rows h
    have := res_leaf_fold (want := want) (g := g) (rows.filterMap keep) [] none (by simpa using h) rfl
    simpa [parReduce] using this
  | node k l r ihl ihr =>
    intro rows h
    have e : rows.filterMap keep = (rows.take k).filterMap keep ++ (rows.drop k).filterMap keep := by
      rw [← List.filterMap_append, List.take_append_drop]
    rw [parReduce, e]
    rw [e] at h
    exact res_optPick h
      (ihl _ (h.mono (fun x hx => List.mem_append.mpr (Or.inl hx))))
      (ihr _ (h.mono (fun x hx => List.mem_append.mpr (Or.inr hx))))

theorem extremeStep_some {want i acc r x} (hx : parKeep i r = some x) :
    extremeStep want i acc r = match acc with
      | none => some x
      | some cur => if partialCmp x cur = some want then some x else some cur := by
  unfold parKeep at hx
  unfold extremeStep
  cases hc : colVal r i with
  | none => rw [hc] at hx; simp at hx
  | some v =>
    rw [hc] at hx
    cases v <;> simp at hx <;> subst hx <;> cases acc <;> simp <;>
      (rename_i cur; cases partialCmp _ cur <;> simp)

theorem extremeStep_none {want i acc r} (hx : parKeep i r = none) : extremeStep want i acc r = acc := by
  unfold parKeep at hx
  unfold extremeStep
  cases hc : colVal r i with
  | none => rfl
  | some v => rw [hc] at hx; cases v <;> simp at hx <;> rfl

/-- the sequential loop of `min` / `max` -/
theorem res_extreme_fold {want g} (i : Nat) (rows : List RowE) : ∀ (pre : List Value) (acc : Option Value),
    KeyOrd want g (pre ++ rows.filterMap (parKeep i)) → Res g pre acc →
    Res g (pre ++ rows.filterMap (parKeep i)) (rows.foldl (extremeStep want i) acc) := by
  induction rows with
  | nil => intro pre acc _ ha; simpa using ha
  | cons r tl ih =>
    intro pre acc h ha
    rw [List.foldl_cons]
    cases hk : parKeep i r with
    | none =>
      rw [List.filterMap_cons_none hk] at h ⊢
      rw [extremeStep_none hk]
      exact ih pre acc h ha
    | some x =>
      rw [List.filterMap_cons_some hk] at h ⊢
      have e : pre ++ x :: tl.filterMap (parKeep i) = (pre ++ [x]) ++ tl.filterMap (parKeep i) := by simp
      rw [e] at h ⊢
      apply ih (pre ++ [x]) _ h
      rw [extremeStep_some hk]
      have hsub : KeyOrd want g (pre ++ [x]) := h.mono (fun y hy => List.mem_append.mpr (Or.inl hy))
      cases acc with
      | none =>
        simp only [Res] at ha; subst ha
        simpa using res_singleton g x
      | some cur =>
        simp only [Res] at ha
        have hcur : cur ∈ pre ++ [x] := List.mem_append.mpr (Or.inl ha.1)
        have hxm : x ∈ pre ++ [x] := List.mem_append.mpr (Or.inr List.mem_cons_self)
        have hiff := hsub.1 x hxm cur hcur
        by_cases hc : partialCmp x cur = some want
        · simp only [hc, if_true, Res]
          have hlt := hiff.mp hc
          refine ⟨hxm, fun y hy => ?_⟩
          rcases List.mem_append.mp hy with hy | hy
          · have := ha.2 y hy; omega
          · rcases List.mem_singleton.mp hy with rfl; omega
        · simp only [hc, if_false, Res]
          have hge : ¬ g x < g cur := fun hlt => hc (hiff.mpr hlt)
          refine ⟨hcur, fun y hy => ?_⟩
          rcases List.mem_append.mp hy with hy | hy
          · exact ha.2 y hy
          · rcases List.mem_singleton.mp hy with rfl; omega

theorem parReduce_eq_extremeOf {want g} (i : Nat) (s : Split) (rows : List RowE)
    (h : KeyOrd want g (rows.filterMap (parKeep i))) :
    parReduce (parKeep i) want s rows = extremeOf want i rows := by
  have h1 := res_parReduce (want := want) (g := g) (parKeep i) s rows h
  have h2 := res_extreme_fold (want := want) (g := g) i rows [] none (by simpa using h) rfl
  simp only [List.nil_append] at h2
  exact Res.unique h h1 h2

theorem icmp_lt_iff (a b : Int) : icmp a b = .lt ↔ a < b := by
  unfold icmp; split
  · simp [*]
  · split <;> simp <;> omega

theorem icmp_gt_iff (a b : Int) : icmp a b = .gt ↔ b < a := by
  unfold icmp; split
  · simp; omega
  · split <;> simp <;> omega

/-- (sum, count) of a piece, sequentially from any start -/
theorem sumCount_fold (i : Nat) (rows : List RowE) : ∀ acc : Int × Nat,
    rows.foldl (fun acc r => pairAdd acc (parTerm i r)) acc
      = pairAdd acc (rows.foldl (fun acc r => pairAdd acc (parTerm i r)) (0, 0)) := by
  induction rows with
  | nil => intro acc; simp [pairAdd]
  | cons r tl ih =>
    intro acc
    rw [List.foldl_cons, List.foldl_cons, ih, ih (pairAdd (0, 0) (parTerm i r))]
    simp only [pairAdd]
    ext <;> simp <;> omega

theorem parSumCount_eq (i : Nat) (s : Split) : ∀ rows : List RowE,
    parSumCount i s rows = rows.foldl (fun acc r => pairAdd acc (parTerm i r)) (0, 0) := by
  induction s with
  | leaf => intro rows; rfl
  | node k l r ihl ihr =>
    intro rows
    rw [parSumCount, ihl, ihr]
    conv => rhs; rw [← List.take_append_drop k rows, List.foldl_append, sumCount_fold]

end Neumann.Rel
