import NeumannModel.Rel.Model
/-
  Relational model (C04), word level of the vectorised filter: executable, import-free mirror of
    relational_engine/src/simd.rs                  filter_*_i64 / filter_*_f64 (4-lane chunks + remainder),
                                                   bitmap_and / bitmap_or, selected_indices, bitmap_words
    relational_engine/src/lib.rs                   apply_slab_vectorized_filter, apply_null_mask, apply_alive_mask,
                                                   SelectionVector::{intersect, union}, try_slab_select
    tensor_store/src/relational_slab.rs            get_int_column / get_float_column (value vector + alive words +
                                                   null words), get_rows_by_indices

  A bitmap is a vector of 64-bit words; bit `p` of the bitmap is bit `p % 64` of word `p / 64`.  It is modelled as
  its word count plus the bit function (only positions below `64 * nwords` are storage).  Everything the real
  code leaves unspecified is a parameter: the stored word of a NULL slot (`junk`: 0 after an insert, the old value
  after an update to NULL) and the unused high bits of the last word of `BitVec::as_raw_slice` (`pad`).
-/
namespace Neumann.Rel

structure Bitmap where
  nwords : Nat
  bit : Nat → Bool

/-- `simd::bitmap_words(n) = n.div_ceil(64)` -/
def bitmapWords (n : Nat) : Nat := (n + 63) / 64

/-- `vec![0u64; bitmap_words(n)]` -/
def Bitmap.zeros (n : Nat) : Bitmap := ⟨bitmapWords n, fun _ => false⟩

/-- `result[i / 64] |= 1u64 << (i % 64)` (an index beyond the vector would panic; the filters only visit
    `i < values.len()`) -/
def Bitmap.set (b : Bitmap) (i : Nat) : Bitmap := ⟨b.nwords, fun p => decide (p = i) || b.bit p⟩

/-- the visiting order of every `filter_*`: `values.len() / 4` chunks of four lanes, then the remainder -/
def simdOrder (n : Nat) : List Nat :=
  (List.range (n / 4)).flatMap (fun c => [4 * c, 4 * c + 1, 4 * c + 2, 4 * c + 3]) ++
    List.range' (4 * (n / 4)) (n - 4 * (n / 4))

/-- `filter_*(values, k, &mut bitmap)` on a fresh zero bitmap: set bit `i` for every visited `i` whose value
    satisfies the comparison -/
def simdFilter (n : Nat) (pred : Nat → Bool) : Bitmap :=
  (simdOrder n).foldl (fun b i => if pred i then b.set i else b) (Bitmap.zeros n)

/-- `BitVec::as_raw_slice` as u64 words: ceil(len / 64) words, the bits beyond `len` are unspecified -/
def rawWords (bits : List Bool) (pad : Nat → Bool) : Bitmap :=
  ⟨bitmapWords bits.length, fun p => if p < bits.length then (bits[p]?).getD false else pad p⟩

/-- `apply_null_mask`: `nulls = null_words.get(i).unwrap_or(0)`; `word |= nulls` or `word &= !nulls` -/
def applyNullMask (b nulls : Bitmap) (nullIsMatch : Bool) : Bitmap :=
  ⟨b.nwords, fun p =>
    let nl := if p / 64 < nulls.nwords then nulls.bit p else false
    if nullIsMatch then b.bit p || nl else b.bit p && !nl⟩

/-- `apply_alive_mask`: `word &= alive_words[i]` if `i < alive_words.len()`, else `word = 0` -/
def applyAliveMask (b alive : Bitmap) : Bitmap :=
  ⟨b.nwords, fun p => if p / 64 < alive.nwords then b.bit p && alive.bit p else false⟩

/-- `SelectionVector::intersect`: `vec![0; self.len]`, then `bitmap_and` over the common prefix of words -/
def Bitmap.inter (a b : Bitmap) : Bitmap :=
  ⟨a.nwords, fun p => if p / 64 < min a.nwords b.nwords then a.bit p && b.bit p else false⟩

def Bitmap.union (a b : Bitmap) : Bitmap :=
  ⟨a.nwords, fun p => if p / 64 < min a.nwords b.nwords then a.bit p || b.bit p else false⟩

/-- `simd::selected_indices`: every set bit of every word, ascending (`max_count` only sizes the vector) -/
def Bitmap.selected (b : Bitmap) : List Nat := (List.range (64 * b.nwords)).filter b.bit

/-- `get_rows_by_indices`: the indices that are slots of the table and alive, in the given order -/
def rowsByIndices (rows : List RowE) (idxs : List Nat) : List Nat :=
  idxs.filterMap (fun i => match rows[i]? with
    | some r => if r.alive then some r.id else none
    | none => none)

/-- slot `p` of the i64 vector of column `i` -/
def rawInt (t : Table) (i : Nat) (junk : Nat → Int) (p : Nat) : Int :=
  match t.rows[p]? with
  | some r => (match r.vals[i]? with | some (.int k) => k | _ => junk p)
  | none => junk p

/-- slot `p` of the f64 vector of column `i` (bit pattern) -/
def rawFloat (t : Table) (i : Nat) (junk : Nat → Nat) (p : Nat) : Nat :=
  match t.rows[p]? with
  | some r => (match r.vals[i]? with | some (.float b) => b | _ => junk p)
  | none => junk p

def aliveWords (t : Table) (pad : Nat → Bool) : Bitmap := rawWords (t.rows.map (·.alive)) pad

def nullWords (t : Table) (i : Nat) (pad : Nat → Bool) : Bitmap :=
  rawWords (t.rows.map (fun r => decide (slotVal r i = .null))) pad

/-- the scalar comparison of one lane -/
def intPred (op : Option RangeOp) (neg : Bool) (k x : Int) : Bool :=
  match op with
  | none => if neg then decide (x ≠ k) else decide (x = k)
  | some r => r.holds (icmp x k)

def floatPred (op : Option RangeOp) (k x : Nat) : Bool :=
  match op with
  | none => fEq x k
  | some r => (match fCmp x k with | some o => r.holds o | none => false)

/-- what unspecified storage the vectorised path may read -/
structure Unspec where
  junkInt : Nat → Nat → Int          -- column, slot
  junkFloat : Nat → Nat → Nat
  padAlive : Nat → Bool
  padNull : Nat → Nat → Bool         -- column, bit position

/-- one leaf of `apply_slab_vectorized_filter`: filter, null mask, alive mask (`row_count == 0` answers
    `SelectionVector::none(0)`) -/
def leafW (t : Table) (u : Unspec) (i : Nat) (pred : Nat → Bool) (nullIsMatch : Bool) : Bitmap :=
  if t.rows.length = 0 then Bitmap.zeros 0
  else applyAliveMask (applyNullMask (simdFilter t.rows.length pred) (nullWords t i (u.padNull i)) nullIsMatch)
    (aliveWords t u.padAlive)

/-- `apply_slab_vectorized_filter` on words -/
def vecFilterW (t : Table) (u : Unspec) : Cond → Option Bitmap
  | .tt => none
  | .eq (.col i) (.int k) => if colType? t i = some .int
      then some (leafW t u i (fun p => intPred none false k (rawInt t i (u.junkInt i) p)) false) else none
  | .ne (.col i) (.int k) => if colType? t i = some .int
      then some (leafW t u i (fun p => intPred none true k (rawInt t i (u.junkInt i) p)) true) else none
  | .rng op (.col i) (.int k) => if colType? t i = some .int
      then some (leafW t u i (fun p => intPred (some op) false k (rawInt t i (u.junkInt i) p)) false) else none
  | .eq (.col i) (.float k) => if colType? t i = some .float
      then some (leafW t u i (fun p => floatPred none k (rawFloat t i (u.junkFloat i) p)) false) else none
  | .rng .lt (.col i) (.float k) => if colType? t i = some .float
      then some (leafW t u i (fun p => floatPred (some .lt) k (rawFloat t i (u.junkFloat i) p)) false) else none
  | .rng .gt (.col i) (.float k) => if colType? t i = some .float
      then some (leafW t u i (fun p => floatPred (some .gt) k (rawFloat t i (u.junkFloat i) p)) false) else none
  | .and a b => match vecFilterW t u a, vecFilterW t u b with
      | some x, some y => some (x.inter y)
      | _, _ => none
  | .or a b => match vecFilterW t u a, vecFilterW t u b with
      | some x, some y => some (x.union y)
      | _, _ => none
  | _ => none

/-- `select_columnar` with `prefer_columnar = true`, word level: `try_slab_select` (filter, selected indices,
    `get_rows_by_indices`) or the row path -/
def columnarSelectW (t : Table) (u : Unspec) (c : Cond) : List Nat :=
  if hasFilterCol c && filterColsKnown t c then
    match vecFilterW t u c with
    | some bm => rowsByIndices t.rows bm.selected
    | none => select t c
  else select t c

/-- `get_rows_by_indices` fed with `id.saturating_sub(1)` for every looked-up row id (what the index paths of
    `select` / `select_with_limit` / `count` / `count_column` do) -/
def fetchBySlot (t : Table) (ids : List Nat) : List RowE :=
  ids.filterMap (fun i => match t.rows[i - 1]? with
    | some r => if r.alive then some r else none
    | none => none)

/-- the two extreme choices of the unspecified storage, for the driver -/
def Unspec.zeros : Unspec := ⟨fun _ _ => 0, fun _ _ => 0, fun _ => false, fun _ _ => false⟩
def Unspec.ones : Unspec := ⟨fun _ p => (p : Int) - 3, fun _ p => 4607182418800017408 + p, fun _ => true, fun _ _ => true⟩

end Neumann.Rel
