import NeumannModel.Rel.VecLemmas
import NeumannModel.Rel.Bucket
/-
  C04 helper lemmas, part 5: index buckets as ordered vectors, the key-ordered B-tree range lookup, the
  independence of every strategy from the order of the candidate ids, rolled-back statements, and the
  (non-code) two-index narrowing of `a AND b`.
-/
namespace Neumann.Rel

variable {κ : Type} [DecidableEq κ]

/-! ## the association list is the per-key vector store -/

theorem mem_bucketOf (ix : Idx κ) (k : κ) (i : Nat) : i ∈ bucketOf ix k ↔ (k, i) ∈ ix := by
  unfold bucketOf
  simp only [List.mem_map, List.mem_filter, decide_eq_true_eq]
  constructor
  · rintro ⟨⟨k', i'⟩, ⟨hm, hk⟩, hi⟩
    simp only at hk hi; subst hk; subst hi; exact hm
  · intro h; exact ⟨(k, i), ⟨h, rfl⟩, rfl⟩

theorem bucketOf_append (a b : Idx κ) (k : κ) : bucketOf (a ++ b) k = bucketOf a k ++ bucketOf b k := by
  unfold bucketOf; rw [List.filter_append, List.map_append]

theorem bucketOf_idxAdd_same (k : κ) (id : Nat) (ix : Idx κ) :
    bucketOf (idxAdd k id ix) k = vecPush id (bucketOf ix k) := by
  unfold idxAdd vecPush
  by_cases h : (k, id) ∈ ix
  · rw [if_pos h, if_pos ((mem_bucketOf ix k id).2 h)]
  · rw [if_neg h, if_neg (fun h' => h ((mem_bucketOf ix k id).1 h')), bucketOf_append]
    simp [bucketOf]

theorem bucketOf_idxAdd_other (k k' : κ) (id : Nat) (ix : Idx κ) (hne : k' ≠ k) :
    bucketOf (idxAdd k id ix) k' = bucketOf ix k' := by
  unfold idxAdd
  split
  · rfl
  · rw [bucketOf_append]
    have : bucketOf [(k, id)] k' = [] := by simp [bucketOf, Ne.symm hne]
    rw [this, List.append_nil]

theorem bucketOf_idxRemove_same (k : κ) (id : Nat) (ix : Idx κ) :
    bucketOf (idxRemove k id ix) k = vecRetain id (bucketOf ix k) := by
  unfold idxRemove bucketOf vecRetain
  induction ix with
  | nil => rfl
  | cons p ps ih =>
    obtain ⟨k', i'⟩ := p
    by_cases hk : k' = k
    · subst hk
      by_cases hi : i' = id
      · subst hi; simpa using ih
      · simpa [List.filter_cons, hi] using ih
    · simpa [List.filter_cons, hk] using ih

theorem bucketOf_idxRemove_other (k k' : κ) (id : Nat) (ix : Idx κ) (hne : k' ≠ k) :
    bucketOf (idxRemove k id ix) k' = bucketOf ix k' := by
  unfold idxRemove bucketOf
  rw [List.filter_filter]
  congr 1
  apply List.filter_congr
  intro p _
  by_cases hp : p.1 = k'
  · simp [hp, hne]
  · simp [hp]

/-! ## distinct keys, sorted keys -/

theorem mem_keysOf (ix : Idx κ) : ∀ k, k ∈ keysOf ix ↔ ∃ i, (k, i) ∈ ix := by
  induction ix with
  | nil => intro k; simp [keysOf]
  | cons p ps ih =>
    obtain ⟨k', i'⟩ := p
    intro k
    unfold keysOf
    simp only
    split
    · rename_i hm
      rw [ih k]
      constructor
      · rintro ⟨i, h⟩; exact ⟨i, List.mem_cons_of_mem _ h⟩
      · rintro ⟨i, h⟩
        rcases List.mem_cons.1 h with h | h
        · cases h; exact (ih _).1 hm
        · exact ⟨i, h⟩
    · rw [List.mem_cons, ih]
      constructor
      · rintro (rfl | ⟨i, h⟩)
        · exact ⟨i', by simp⟩
        · exact ⟨i, List.mem_cons_of_mem _ h⟩
      · rintro ⟨i, h⟩
        rcases List.mem_cons.1 h with h | h
        · cases h; exact Or.inl rfl
        · exact Or.inr ⟨i, h⟩

theorem nodup_keysOf (ix : Idx κ) : (keysOf ix).Nodup := by
  induction ix with
  | nil => simp [keysOf]
  | cons p ps ih =>
    unfold keysOf
    split
    · exact ih
    · rename_i hm; exact List.nodup_cons.2 ⟨hm, ih⟩

theorem okeyInsertSorted_perm (k : OKey) (l : List OKey) : (okeyInsertSorted k l).Perm (k :: l) := by
  induction l with
  | nil => exact List.Perm.refl _
  | cons x xs ih =>
    unfold okeyInsertSorted
    split
    · exact ((List.Perm.cons x ih).trans (List.Perm.swap k x xs))
    · exact List.Perm.refl _

theorem sortKeys_perm (l : List OKey) : (sortKeys l).Perm l := by
  induction l with
  | nil => exact List.Perm.refl _
  | cons k ks ih =>
    unfold sortKeys
    exact (okeyInsertSorted_perm k _).trans (List.Perm.cons k ih)

/-! ## `OKey` is `OrderedKey` up to its `Ord`-equality: distinct `OKey`s are distinct `BTreeMap` keys -/

theorem lexCmp_eq_iff : ∀ (a b : List Nat), lexCmp a b = .eq ↔ a = b
  | [], [] => by simp [lexCmp]
  | [], _ :: _ => by simp [lexCmp]
  | _ :: _, [] => by simp [lexCmp]
  | x :: xs, y :: ys => by
    unfold lexCmp
    by_cases h1 : x < y
    · rw [if_pos h1]; simp; intro e; omega
    · rw [if_neg h1]
      by_cases h2 : y < x
      · rw [if_pos h2]; simp; intro e; omega
      · rw [if_neg h2, lexCmp_eq_iff xs ys]
        have : x = y := by omega
        simp [this]

theorem okey_cmp_eq_iff (a b : OKey) : OKey.cmp a b = .eq ↔ a = b := by
  cases a with
  | float x =>
    cases b with
    | float y => cases x <;> cases y <;> simp [OKey.cmp, icmp_eq_iff]
    | _ => simp [OKey.cmp, OKey.rank]
  | bool x =>
    cases b with
    | bool y => cases x <;> cases y <;> simp [OKey.cmp]
    | _ => simp [OKey.cmp, OKey.rank]
  | _ => cases b <;> simp [OKey.cmp, OKey.rank, icmp_eq_iff, lexCmp_eq_iff]

/-! ## the key-ordered range lookup lists the same ids as `rangeLookup` -/

omit [DecidableEq κ] in
theorem filter_or_perm {α : Type} (p q : α → Bool) (l : List α) (hd : ∀ x ∈ l, ¬ (p x = true ∧ q x = true)) :
    (l.filter (fun x => p x || q x)).Perm (l.filter p ++ l.filter q) := by
  induction l with
  | nil => simp
  | cons x xs ih =>
    have ih' := ih (fun y hy => hd y (List.mem_cons_of_mem _ hy))
    have hx := hd x (by simp)
    cases hp : p x <;> cases hq : q x
    · simpa [List.filter_cons, hp, hq] using ih'
    · simp only [List.filter_cons, hp, hq, Bool.or_true, Bool.false_eq_true, if_true, if_false]
      exact (List.Perm.cons x ih').trans List.perm_middle.symm
    · simp only [List.filter_cons, hp, hq, Bool.or_false, Bool.false_eq_true, if_true, if_false, List.cons_append]
      exact List.Perm.cons x ih'
    · exact absurd ⟨hp, hq⟩ hx

theorem flatMap_bucketOf_perm (ix : Idx κ) : ∀ (ks : List κ), ks.Nodup →
    (ks.flatMap (bucketOf ix)).Perm ((ix.filter (fun p => decide (p.1 ∈ ks))).map (·.2)) := by
  intro ks
  induction ks with
  | nil => intro _; simp
  | cons k ks ih =>
    intro hn
    rw [List.nodup_cons] at hn
    rw [List.flatMap_cons]
    have hf : ix.filter (fun p => decide (p.1 ∈ k :: ks)) =
        ix.filter (fun p => decide (p.1 = k) || decide (p.1 ∈ ks)) := by
      apply List.filter_congr; intro p _; simp
    rw [hf]
    have hperm := filter_or_perm (fun p : κ × Nat => decide (p.1 = k)) (fun p => decide (p.1 ∈ ks)) ix
      (by intro x _ ⟨h1, h2⟩
          simp only [decide_eq_true_eq] at h1 h2
          exact hn.1 (h1 ▸ h2))
    have := (hperm.map (·.2))
    rw [List.map_append] at this
    exact ((List.Perm.append_left _ (ih hn.2)).trans this.symm)

theorem rangeLookupTree_perm (ix : Idx OKey) (op : RangeOp) (v : Value) :
    (rangeLookupTree ix op v).Perm (rangeLookup ix op v) := by
  unfold rangeLookupTree rangeLookup treeKeys
  let P : OKey → Bool := fun k => op.holds (OKey.cmp k (ordKey v))
  have h1 : (((sortKeys (keysOf ix)).filter P).flatMap (bucketOf ix)).Perm
      (((keysOf ix).filter P).flatMap (bucketOf ix)) :=
    List.Perm.flatMap_right _ ((sortKeys_perm (keysOf ix)).filter P)
  have hn : ((keysOf ix).filter P).Nodup := (nodup_keysOf ix).sublist List.filter_sublist
  have h2 := flatMap_bucketOf_perm ix _ hn
  have h3 : ix.filter (fun p => decide (p.1 ∈ (keysOf ix).filter P)) = ix.filter (fun p => P p.1) := by
    apply List.filter_congr
    intro p hp
    have : p.1 ∈ keysOf ix := (mem_keysOf ix p.1).2 ⟨p.2, hp⟩
    simp [List.mem_filter, this]
  rw [h3] at h2
  exact h1.trans h2

/-- the code-order lookup and the model lookup take the same plan and list the same ids -/
theorem tryIndexLookupT_perm (t : Table) (c : Cond) :
    (tryIndexLookupT t c = none ∧ tryIndexLookup t c = none) ∨
    ∃ ids' ids, tryIndexLookupT t c = some ids' ∧ tryIndexLookup t c = some ids ∧ ids'.Perm ids := by
  induction c with
  | tt => exact Or.inl ⟨rfl, rfl⟩
  | ne c v => exact Or.inl ⟨rfl, rfl⟩
  | or a b _ _ => exact Or.inl ⟨rfl, rfl⟩
  | eq col v =>
    simp only [tryIndexLookupT, tryIndexLookup]
    cases assocGet col t.hidx with
    | none => exact Or.inl ⟨rfl, rfl⟩
    | some ix => exact Or.inr ⟨_, _, rfl, rfl, List.Perm.refl _⟩
  | rng op col v =>
    simp only [tryIndexLookupT, tryIndexLookup]
    cases assocGet col t.oidx with
    | none => exact Or.inl ⟨rfl, rfl⟩
    | some ix => exact Or.inr ⟨_, _, rfl, rfl, rangeLookupTree_perm ix op v⟩
  | and a b iha ihb =>
    simp only [tryIndexLookupT, tryIndexLookup]
    rcases iha with ⟨h1, h2⟩ | ⟨ia', ia, h1, h2, hp⟩
    · rw [h1, h2]; exact ihb
    · rw [h1, h2]; exact Or.inr ⟨ia', ia, rfl, rfl, hp⟩

/-! ## what a candidate list must satisfy, and what every strategy then returns -/

/-- a usable candidate list: duplicate-free and containing every matching live row -- nothing about its order -/
def Cands (t : Table) (c : Cond) (ids : List Nat) : Prop :=
  ids.Nodup ∧ ∀ r ∈ t.rows, r.alive = true → evaluate c r.id r.vals = true → r.id ∈ ids

theorem cands_perm (t : Table) (c : Cond) (ids ids' : List Nat) (h : Cands t c ids) (hp : ids'.Perm ids) :
    Cands t c ids' :=
  ⟨(hp.nodup_iff).2 h.1, fun r hr ha he => (hp.mem_iff).2 (h.2 r hr ha he)⟩

theorem cands_of_lookup (t : Table) (hi : IdxInv t) (c : Cond) (ids : List Nat) (h : tryIndexLookup t c = some ids) :
    Cands t c ids := lookup_sound t hi c ids h

set_option linter.unusedSimpArgs false in
theorem sortRows_filter_length (q : RowE → Bool) : ∀ l : List RowE, ((sortRows l).filter q).length = (l.filter q).length := by
  intro l
  induction l with
  | nil => rfl
  | cons x xs ih =>
    have ins : ∀ (m : List RowE), ((insertSortedRow x m).filter q).length = ((x :: m).filter q).length := by
      intro m
      induction m with
      | nil => rfl
      | cons y ys ihm =>
        unfold insertSortedRow
        split
        · rfl
        · simp only [List.filter_cons] at ihm ⊢
          cases hx : q x <;> cases hy : q y <;> simp [hx, hy] at ihm ⊢ <;> omega
    simp only [sortRows]
    rw [ins, List.filter_cons, List.filter_cons]
    cases q x <;> simp [ih]

/-- the row records the index path hands on (fetch, re-check, sort) are the matching rows in id order -/
theorem rowsViaIds_eq (t : Table) (hw : RowsWF t.rows) (c : Cond) (ids : List Nat) (h : Cands t c ids) :
    sortRows ((fetch t ids).filter (fun r => evaluate c r.id r.vals)) = specRows t c := by
  apply eq_of_ids_eq t.rows hw.1
  · intro r hr
    simp only [mem_sortRows, List.mem_filter] at hr
    exact ((fetch_mem t ids hw r).1 hr.1).1
  · intro r hr; exact (List.mem_filter.1 hr).1
  · rw [sortRows_ids]
    have := selectViaIds_eq_spec t c ids hw h.1 h.2
    unfold selectViaIds at this
    rw [this]; rfl

theorem countViaIds_eq (t : Table) (hw : RowsWF t.rows) (c : Cond) (ids : List Nat) (h : Cands t c ids)
    (q : RowE → Bool) :
    ((fetch t ids).filter (fun r => evaluate c r.id r.vals && q r)).length = ((specRows t c).filter q).length := by
  rw [filter_and_length, ← rowsViaIds_eq t hw c ids h, sortRows_filter_length]

theorem countViaIds_plain (t : Table) (hw : RowsWF t.rows) (c : Cond) (ids : List Nat) (h : Cands t c ids) :
    ((fetch t ids).filter (fun r => evaluate c r.id r.vals)).length = (spec t c).length := by
  have := selectViaIds_eq_spec t c ids hw h.1 h.2
  unfold selectViaIds at this
  rw [← this, length_sortIds, List.length_map]

theorem specRows_length (t : Table) (c : Cond) : (specRows t c).length = (spec t c).length := by
  unfold specRows spec; rw [List.length_map]

/-! ## reordering the entries of the indexes keeps the invariant -/

omit [DecidableEq κ] in
theorem kinv_perm (key : Value → κ) (rows : List RowE) (c : ColRef) (ix ix' : Idx κ)
    (h : KInv key rows c ix) (hp : ix'.Perm ix) : KInv key rows c ix' :=
  ⟨((hp.map Prod.snd).nodup_iff).2 h.nodup,
   fun k i hm => h.sound k i ((hp.mem_iff).1 hm),
   fun r hr ha v hv => (hp.mem_iff).2 (h.complete r hr ha v hv)⟩

/-- every index of `l'` is a reordering of an index of `l` on the same column -/
def Reordered {κ : Type} (l l' : List (ColRef × Idx κ)) : Prop :=
  ∀ c ix', (c, ix') ∈ l' → ∃ ix, (c, ix) ∈ l ∧ ix'.Perm ix

theorem idxInv_reordered (t t' : Table) (hi : IdxInv t) (hr : t'.rows = t.rows) (hs : t'.schema = t.schema)
    (hh : Reordered t.hidx t'.hidx) (ho : Reordered t.oidx t'.oidx) : IdxInv t' := by
  refine ⟨hr ▸ hi.1, ?_, ?_, ?_⟩
  · intro c ix' hm
    obtain ⟨ix, hm0, hp⟩ := hh c ix' hm
    rw [hr]; exact kinv_perm hashKey t.rows c ix ix' (hi.2.1 c ix hm0) hp
  · intro c ix' hm
    obtain ⟨ix, hm0, hp⟩ := ho c ix' hm
    rw [hr]; exact kinv_perm ordKey t.rows c ix ix' (hi.2.2.1 c ix hm0) hp
  · intro r hm; rw [hs]; exact hi.2.2.2 r (hr ▸ hm)

/-! ## two-index narrowing of `a AND b` (not the code): sound with a membership test -/

theorem narrow_contains_sound (t : Table) (hi : IdxInv t) (c : Cond) :
    ∀ ids, tryIndexLookupNarrow (fun l x => l.contains x) t c = some ids → Cands t c ids := by
  induction c with
  | tt => intro ids h; simp [tryIndexLookupNarrow] at h
  | ne c v => intro ids h; simp [tryIndexLookupNarrow] at h
  | or a b _ _ => intro ids h; simp [tryIndexLookupNarrow] at h
  | eq col v => intro ids h; exact lookup_sound t hi (.eq col v) ids h
  | rng op col v =>
    intro ids h
    simp only [tryIndexLookupNarrow, Option.map_eq_some_iff] at h
    obtain ⟨ix, hix, rfl⟩ := h
    have hl : tryIndexLookup t (.rng op col v) = some (rangeLookup ix op v) := by
      simp [tryIndexLookup, hix]
    exact cands_perm t _ _ _ (lookup_sound t hi _ _ hl) (rangeLookupTree_perm ix op v)
  | and a b iha ihb =>
    intro ids h
    simp only [tryIndexLookupNarrow] at h
    cases ha : tryIndexLookupNarrow (fun l x => l.contains x) t a with
    | none =>
      simp only [ha] at h
      obtain ⟨hn, hs⟩ := ihb ids h
      refine ⟨hn, fun r hr hal he => hs r hr hal ?_⟩
      simp only [evaluate, Bool.and_eq_true] at he
      exact he.2
    | some cands =>
      simp only [ha] at h
      obtain ⟨hn, hs⟩ := iha cands ha
      have plain : Cands t (.and a b) cands := by
        refine ⟨hn, fun r hr hal he => hs r hr hal ?_⟩
        simp only [evaluate, Bool.and_eq_true] at he
        exact he.1
      cases b with
      | tt => simp only [Option.some.injEq] at h; exact h ▸ plain
      | ne c v => simp only [Option.some.injEq] at h; exact h ▸ plain
      | rng op c v => simp only [Option.some.injEq] at h; exact h ▸ plain
      | and x y => simp only [Option.some.injEq] at h; exact h ▸ plain
      | or x y => simp only [Option.some.injEq] at h; exact h ▸ plain
      | eq col v =>
        simp only at h
        cases hix : assocGet col t.hidx with
        | none => simp only [hix, Option.some.injEq] at h; exact h ▸ plain
        | some ix =>
          simp only [hix, Option.some.injEq] at h
          subst h
          refine ⟨hn.sublist List.filter_sublist, ?_⟩
          intro r hr hal he
          have he' := he
          simp only [evaluate, Bool.and_eq_true] at he'
          have h1 : r.id ∈ cands := hs r hr hal he'.1
          have hl : tryIndexLookup t (.eq col v) = some (hashLookup ix v) := by
            simp [tryIndexLookup, hix]
          have h2 : r.id ∈ bucketOf ix (hashKey v) :=
            (lookup_sound t hi _ _ hl).2 r hr hal (by simpa [evaluate] using he'.2)
          rw [List.mem_filter]
          exact ⟨h1, by simpa using h2⟩

end Neumann.Rel
