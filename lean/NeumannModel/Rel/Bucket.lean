import NeumannModel.Rel.Model
/-
  Relational model (C04), part 3: the ORDER of the row ids inside the index buckets, and the histories
  that disturb it.  Import-free mirror of
    relational_engine/src/lib.rs   index_add / index_remove / index_lookup        (hash index: one `Vec<u64>` per
                                                                                    `hash_key`, stored under `_idx:<t>:<c>:<hash>`)
                                   btree_index_add / btree_index_remove            (`BTreeMap<OrderedKey, Vec<u64>>`)
                                   btree_range_lookup                              (`btree.range(..)` in key order, `extend`)
                                   rollback / apply_undo_entry                     (`DeletedRow`, `UpdatedRow`)

  The association list `Idx κ` of `Model.lean` IS the per-key `Vec<u64>` store: the ids of one key, in the
  order they stand in the list, are that key's vector in the order the code keeps it (`bucketOf`; `idxAdd` =
  `if !ids.contains(&id) { ids.push(id) }`, `idxRemove` = `ids.retain(|&x| x != id)`: theorems
  `bucket_is_the_codes_vector` in `BucketProps.lean`).  A bucket is in ascending id order only as long as no
  UPDATE and no rollback ran: `tx_update` removes the id from the old key's vector and pushes it onto the END
  of the new key's vector, the undo of a delete / update pushes the restored ids onto the end as well.

  The result of a B-tree range lookup is the concatenation of the vectors of the keys in range in ASCENDING KEY
  order (`rangeLookupTree`), hence practically never in id order.  `Model.rangeLookup` lists the same ids in
  another order; every strategy sorts (or counts) after the re-check, so no answer depends on it
  (`tree_range_lookup_is_permutation`, `candidate_order_never_matters`).
-/
namespace Neumann.Rel

/-! ## the vector stored under one index key -/

/-- the `Vec<u64>` of key `k`: the ids filed under `k`, in the order they were pushed -/
def bucketOf {κ : Type} [DecidableEq κ] (ix : Idx κ) (k : κ) : List Nat :=
  (ix.filter (fun p => decide (p.1 = k))).map (·.2)

/-- `if !ids.contains(&row_id) { ids.push(row_id) }` -/
def vecPush (id : Nat) (ids : List Nat) : List Nat := if id ∈ ids then ids else ids ++ [id]

/-- `ids.retain(|&x| x != row_id)` -/
def vecRetain (id : Nat) (ids : List Nat) : List Nat := ids.filter (fun x => !decide (x = id))

/-- the distinct keys that hold at least one id (an emptied vector is deleted from the store / the map) -/
def keysOf {κ : Type} [DecidableEq κ] : Idx κ → List κ
  | [] => []
  | p :: rest => if p.1 ∈ keysOf rest then keysOf rest else p.1 :: keysOf rest

/-- all vectors of an index, each in its own order (for the driver; the harness reads the real ones from the
    store and compares) -/
def bucketsOf {κ : Type} [DecidableEq κ] (ix : Idx κ) : List (List Nat) := (keysOf ix).map (bucketOf ix)

/-! ## the B-tree: keys in ascending order -/

def okeyInsertSorted (k : OKey) : List OKey → List OKey
  | [] => [k]
  | x :: xs => if OKey.cmp k x = .gt then x :: okeyInsertSorted k xs else k :: x :: xs

def sortKeys : List OKey → List OKey
  | [] => []
  | k :: ks => okeyInsertSorted k (sortKeys ks)

/-- the keys of the in-memory `BTreeMap<OrderedKey, Vec<u64>>`, ascending (`OKey` is `OrderedKey` up to its
    `Ord`-equality, so distinct `OKey`s are distinct map keys: `okey_cmp_eq_iff`) -/
def treeKeys (ix : Idx OKey) : List OKey := sortKeys (keysOf ix)

/-- `btree_range_lookup` as the code runs it: `btree.range(..)` visits the keys in ascending order and the
    result is `extend`ed by each key's id vector -/
def rangeLookupTree (ix : Idx OKey) (op : RangeOp) (v : Value) : List Nat :=
  ((treeKeys ix).filter (fun k => op.holds (OKey.cmp k (ordKey v)))).flatMap (bucketOf ix)

/-- `try_index_lookup` with the candidate ids in the order the code produces them -/
def tryIndexLookupT (t : Table) : Cond → Option (List Nat)
  | .eq c v => (assocGet c t.hidx).map (fun ix => bucketOf ix (hashKey v))
  | .rng op c v => (assocGet c t.oidx).map (fun ix => rangeLookupTree ix op v)
  | .and a b => match tryIndexLookupT t a with
      | some ids => some ids
      | none => tryIndexLookupT t b
  | _ => none

/-- `select` over the candidates in the code's order -/
def selectT (t : Table) (c : Cond) : List Nat :=
  match tryIndexLookupT t c with
  | some ids => selectViaIds t c ids
  | none => scanSelect t c

/-! ## rolled-back statements (`begin_transaction; tx_delete / tx_update; rollback`) -/

def reviveRow (id : Nat) (rows : List RowE) : List RowE :=
  rows.map (fun r => if r.id = id then { r with alive := true } else r)

/-- undo of `DeletedRow` (`restore_deleted_row` puts the old values back into the same slot; every recorded
    (column, value) is `index_add`ed / `btree_index_add`ed again, i.e. pushed onto the END of its vector).
    `r` is the row as it was before the delete. -/
def restoreOne (t : Table) (r : RowE) : Table :=
  { t with rows := reviveRow r.id t.rows,
           hidx := mapIdx (idxAddRow hashKey r) t.hidx,
           oidx := mapIdx (idxAddRow ordKey r) t.oidx }

/-- a DELETE that is rolled back: the matching rows are deleted one by one in slot order, then the undo log is
    applied in reverse order -/
def deleteRolledBack (t : Table) (c : Cond) : Table :=
  (matching t c).reverse.foldl restoreOne ((matching t c).foldl deleteOne t)

/-- undo of `UpdatedRow` for one index: for every updated column that had an old value, the id leaves the NEW
    value's vector and is pushed onto the end of the OLD value's vector -/
def idxRevertRow {κ : Type} [DecidableEq κ] (key : Value → κ) (sets : List (Nat × Value)) (r : RowE)
    (c : ColRef) (ix : Idx κ) : Idx κ :=
  match c with
  | .id => ix
  | .col j => match setsGet j sets with
    | none => ix
    | some nv => match getWithId r.id r.vals c with
      | some ov => idxAdd (key ov) r.id (idxRemove (key nv) r.id ix)
      | none => ix

/-- undo of `UpdatedRow` (`restore_row` writes the old values back); `r` is the row before the update -/
def revertOne (sets : List (Nat × Value)) (t : Table) (r : RowE) : Table :=
  { t with rows := setRow r.id r.vals t.rows,
           hidx := mapIdx (idxRevertRow hashKey sets r) t.hidx,
           oidx := mapIdx (idxRevertRow ordKey sets r) t.oidx }

/-- an UPDATE that is rolled back (a rejected update never starts) -/
def updateRolledBack (t : Table) (c : Cond) (sets : List (Nat × Value)) : Except Err (Table × Nat) :=
  match validateSets t.schema sets with
  | some e => .error e
  | none => .ok ((matching t c).reverse.foldl (revertOne sets) ((matching t c).foldl (updateOne sets) t),
                 (matching t c).length)

/-- histories with rolled-back statements -/
inductive XOp where
  | base (op : Op)
  | deleteRollback (c : Cond)
  | updateRollback (c : Cond) (sets : List (Nat × Value))

def applyX (t : Table) : XOp → Table
  | .base op => applyOp t op
  | .deleteRollback c => deleteRolledBack t c
  | .updateRollback c sets => match updateRolledBack t c sets with | .ok (t', _) => t' | .error _ => t

def runX (schema : List (ColType × Bool)) (ops : List XOp) : Table :=
  ops.foldl applyX (Table.empty schema)

/-! ## a model variant that is NOT the code: narrowing the candidates of `a AND b` with `b`'s bucket -/

/-- the loop of `<[u64]>::binary_search` (`core::slice::binary_search_by`, Rust 1.95): `size` halves until it
    is 1, `base` moves to `mid` unless the element there is greater than the key -/
def bsLoop (l : List Nat) (x : Nat) : Nat → Nat → Nat → Nat
  | 0, _, base => base
  | fuel + 1, size, base =>
    if size ≤ 1 then base
    else
      let half := size / 2
      let mid := base + half
      bsLoop l x fuel (size - half) (if x < l[mid]?.getD 0 then base else mid)

/-- `bucket.binary_search(&id).is_ok()` -/
def binSearch (l : List Nat) (x : Nat) : Bool :=
  if l.isEmpty then false else decide (l[bsLoop l x l.length l.length 0]? = some x)

/-- `try_index_lookup` with a two-index path for `a AND b`: when `a` yields candidates and `b` is an equality on
    a hash-indexed column, `a`'s candidates are narrowed to those that `mem` finds in `b`'s bucket.
    `mem := binSearch` assumes ascending buckets; `mem := fun l x => l.contains x` does not. -/
def tryIndexLookupNarrow (mem : List Nat → Nat → Bool) (t : Table) : Cond → Option (List Nat)
  | .eq c v => (assocGet c t.hidx).map (fun ix => bucketOf ix (hashKey v))
  | .rng op c v => (assocGet c t.oidx).map (fun ix => rangeLookupTree ix op v)
  | .and a b => match tryIndexLookupNarrow mem t a with
      | none => tryIndexLookupNarrow mem t b
      | some cands => match b with
        | .eq c v => (match assocGet c t.hidx with
            | some ix => some (cands.filter (fun id => mem (bucketOf ix (hashKey v)) id))
            | none => some cands)
        | _ => some cands
  | _ => none

def selectNarrow (mem : List Nat → Nat → Bool) (t : Table) (c : Cond) : List Nat :=
  match tryIndexLookupNarrow mem t c with
  | some ids => selectViaIds t c ids
  | none => scanSelect t c

def countNarrow (mem : List Nat → Nat → Bool) (t : Table) (c : Cond) : Nat :=
  match c with
  | .tt => (scanAll t).length
  | _ => match tryIndexLookupNarrow mem t c with
    | some ids => ((fetch t ids).filter (fun r => evaluate c r.id r.vals)).length
    | none => ((scanAll t).filter (fun r => evaluate c r.id r.vals)).length

end Neumann.Rel
