import NeumannModel.Rel.Preserve
/-
  C04 — property theorems: every execution strategy returns exactly the rows that satisfy the condition,
  in every reachable table state.  ONLY property statements and their non-vacuity examples live here;
  helpers are in `Lemmas.lean` (strategies on a state with the index invariant) and `Preserve.lean`
  (every operation preserves the invariant).
-/
namespace Neumann.Rel.Props
open Neumann.Rel

/-- values that compare equal land in the same hash bucket (so an index lookup is a superset of the matches) -/
theorem eq_implies_same_hashKey (v w : Value) (h : Value.eq v w = true) : hashKey v = hashKey w :=
  Neumann.Rel.eq_implies_same_hashKey v w h

example : Value.eq (.float 9223372036854775808) (.float 0) = true := by decide

/-- with the pre-fix bucket function (raw bit pattern) the lemma is false: -0.0 == 0.0 but the buckets differ -/
theorem old_hashKey_witness :
    ∃ v w, Value.eq v w = true ∧ hashKeyOld v ≠ hashKeyOld w :=
  ⟨.float 9223372036854775808, .float 0, by decide, by decide⟩

/-- the B-tree key order agrees with the value order wherever the latter is defined (so a key range is a
    superset of the matches); NaN, nulls, booleans and cross-type pairs have no value order and never match -/
theorem cmp_agrees_with_orderedKey (v w : Value) (o : Ordering) (h : partialCmp v w = some o) :
    OKey.cmp (ordKey v) (ordKey w) = o :=
  Neumann.Rel.cmp_agrees_with_orderedKey v w o h

example : partialCmp (.float 9223372036854775808) (.float 4607182418800017408) = some .lt := by decide

/-- insert / update / delete / create index / drop index (successful or failing) preserve the index invariant:
    every index holds exactly one (key, id) pair per live row, keyed by the row's current value -/
theorem index_invariant_preserved (t : Table) (op : Op) (h : IdxInv t) : IdxInv (applyOp t op) :=
  applyOp_preserves t op h

/-- the invariant holds in every reachable state (induction over the operation sequence) -/
theorem reachable_index_invariant (schema : List (ColType × Bool)) (ops : List Op) : IdxInv (run schema ops) :=
  run_inv schema ops

/-- a reachable state with live rows, a dead slot, a hash and a B-tree index (hypothesis of the above is inhabited
    non-trivially, and the strategies below run on it) -/
def demoOps : List Op :=
  [.insert [.float 9223372036854775808, .null], .createHash (.col 0), .createOrd (.col 1),
   .insert [.float 0, .int 5], .insert [.float 4607182418800017408, .int 7],
   .update (.eq (.col 1) (.int 7)) [(1, .null)], .delete (.eq (.col 0) (.float 4607182418800017408)),
   .insert [.float 9221120237041090560, .int (-3)]]
def demoSchema : List (ColType × Bool) := [(.float, false), (.int, true)]

example : spec (run demoSchema demoOps) (.eq (.col 0) (.float 0)) = [1, 2] := by decide
example : select (run demoSchema demoOps) (.eq (.col 0) (.float 0)) = [1, 2] := by decide
example : (tryIndexLookup (run demoSchema demoOps) (.rng .lt (.col 1) (.int 6))).isSome = true := by decide
example : select (run demoSchema demoOps) (.rng .lt (.col 1) (.int 6)) = [2, 4] := by decide
example : columnarSelect (run demoSchema demoOps) (.rng .lt (.col 1) (.int 6)) = [2, 4] := by decide

/-- **strategies agree**: in every reachable table state (every schema, every sequence of
    inserts / updates / deletes / index creations / index drops) and for every condition tree, the full scan,
    the index path of `select` (hash lookup or B-tree range, then re-check), `select_with_limit`, `count`,
    the streaming cursor and the vectorised columnar filter all return exactly `rows.filter (evaluate c)`
    (as ascending row ids; limit/offset = that list's window; count = its length) -/
theorem strategies_agree (schema : List (ColType × Bool)) (ops : List Op) (c : Cond) :
    let t := run schema ops
    scanSelect t c = spec t c ∧
    select t c = spec t c ∧
    (∀ ids, tryIndexLookup t c = some ids → selectViaIds t c ids = spec t c) ∧
    (∀ limit offset, selectLimit t c limit offset = ((spec t c).drop offset).take limit) ∧
    count t c = (spec t c).length ∧
    (∀ batch, 0 < batch → cursorSelect t c batch = spec t c) ∧
    columnarSelect t c = spec t c := by
  intro t
  have hi : IdxInv t := run_inv schema ops
  refine ⟨scanSelect_eq_spec t c hi.1, select_eq_spec t hi c, ?_, selectLimit_eq t hi c, count_eq t hi c,
    fun b hb => cursorSelect_eq t hi c b hb, columnarSelect_eq t hi c⟩
  intro ids h
  obtain ⟨hn, hs⟩ := lookup_sound t hi c ids h
  exact selectViaIds_eq_spec t c ids hi.1 hn hs

/-- creating or dropping an index (hash or B-tree, on any column or `_id`) changes no row and no query answer -/
theorem create_drop_index_transparent (schema : List (ColType × Bool)) (ops : List Op) (col : ColRef) (q : Cond)
    (op : Op) (hop : op = .createHash col ∨ op = .createOrd col ∨ op = .dropHash col ∨ op = .dropOrd col) :
    let t := run schema ops
    let t' := applyOp t op
    t'.rows = t.rows ∧ select t' q = select t q ∧ count t' q = count t q ∧
      columnarSelect t' q = columnarSelect t q ∧
      (∀ l o, selectLimit t' q l o = selectLimit t q l o) := by
  intro t t'
  have hi : IdxInv t := run_inv schema ops
  have hi' : IdxInv t' := applyOp_preserves t op hi
  have hrows : t'.rows = t.rows := indexOp_rows t col op hop
  have hspec : spec t' q = spec t q := by unfold spec; rw [hrows]
  refine ⟨hrows, ?_, ?_, ?_, ?_⟩
  · rw [select_eq_spec t' hi' q, select_eq_spec t hi q, hspec]
  · rw [count_eq t' hi' q, count_eq t hi q, hspec]
  · rw [columnarSelect_eq t' hi' q, columnarSelect_eq t hi q, hspec]
  · intro l o; rw [selectLimit_eq t' hi' q, selectLimit_eq t hi q, hspec]

/-- DELETE with a condition removes exactly the rows for which the condition is true (every other slot is
    untouched), reports their number, and leaves a state in which all strategies agree again -/
theorem update_delete_touch_exactly (schema : List (ColType × Bool)) (ops : List Op) (c : Cond) :
    let t := run schema ops
    (delete t c).1.rows = t.rows.map (fun x => if matchesRow c x then { x with alive := false } else x) ∧
    (delete t c).2 = (spec t c).length ∧
    IdxInv (delete t c).1 := by
  intro t
  have hi : IdxInv t := run_inv schema ops
  refine ⟨delete_rows_eq t c hi.1, ?_, delete_preserves t c hi⟩
  simp [delete, matching, spec]

/-- UPDATE with a condition reports exactly the number of rows for which the condition is true and keeps the
    index invariant (so all strategies agree afterwards).  Partial: the statement that the new table image is
    `rows.map (if matches then set-columns else id)` is not proved here (the per-row fold is; the closed form is
    checked against the real engine and the model on every generated UPDATE by the `image` stream). -/
theorem update_touch_exactly_partial (schema : List (ColType × Bool)) (ops : List Op) (c : Cond)
    (sets : List (Nat × Value)) (t' : Table) (n : Nat)
    (h : update (run schema ops) c sets = .ok (t', n)) :
    n = (spec (run schema ops) c).length ∧ IdxInv t' := by
  refine ⟨?_, update_preserves _ c sets t' n (run_inv schema ops) h⟩
  unfold update at h
  split at h
  · cases h
  · simp only [Except.ok.injEq, Prod.mk.injEq] at h
    rw [← h.2]; simp [matching, spec]

example : (update (run demoSchema demoOps) (.rng .ge (.col 1) (.int 0)) [(1, .int 9)]).toOption.map (·.2) = some 1 := by
  decide

/-- the defect found on the real engine (`select_with_limit` truncated the raw index ids before the re-check):
    with that variant an index changes the answer -/
theorem limit_truncate_first_witness :
    ∃ (ops : List Op) (c : Cond),
      selectLimitTruncFirst (run [(.int, false), (.int, false)] ops) c 1 0 ≠
        ((spec (run [(.int, false), (.int, false)] ops) c).drop 0).take 1 :=
  ⟨[.insert [.int 1, .int 0], .insert [.int 1, .int 4], .createHash (.col 0)],
   .and (.eq (.col 0) (.int 1)) (.eq (.col 1) (.int 4)), by decide⟩

/-- the defect found on the real engine (SIMD leaf ignored the null bitmap): a NULL slot satisfies `x < 5` -/
theorem columnar_null_mask_witness :
    intLeafNoNullMask (some .lt) false 5 .null = true ∧
      evaluate (.rng .lt (.col 0) (.int 5)) 1 [.null] = false := by decide

end Neumann.Rel.Props
