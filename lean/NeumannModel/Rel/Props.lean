import NeumannModel.Rel.VecLemmas
/-
  C04 — property theorems: every execution strategy returns exactly the rows that satisfy the condition,
  in every reachable table state.  ONLY property statements and their non-vacuity examples live here;
  helpers are in `Lemmas.lean` (strategies on a state with the index invariant), `Preserve.lean`
  (every operation preserves the invariant), `Extend.lean` (UPDATE image, aggregates, derived strategies,
  depth limit) and `VecLemmas.lean` (typing invariant, word level of the vectorised filter).
-/
namespace Neumann.Rel.Props
open Neumann.Rel

/-- values that compare equal land in the same hash bucket (so an index lookup is a superset of the matches) -/
theorem eq_implies_same_hashKey (v w : Value) (h : Value.eq v w = true) : hashKey v = hashKey w :=
  Neumann.Rel.eq_implies_same_hashKey v w h

example : Value.eq (.float 9223372036854775808) (.float 0) = true := by decide

/-- with the pre-fix bucket function (raw bit pattern) the lemma is false: -0.0 == 0.0 but the buckets differ -/
theorem old_hashKey_witness :
    ∃ v w, Value.eq v w = true ∧ hashKeyOld v ≠ hashKeyOld w :=
  ⟨.float 9223372036854775808, .float 0, by decide, by decide⟩

/-! ### JSON columns (repaired in /repo f72f348f) -/

/-- the JSON numbers `-0.0`, `0.0`, the object `{"a": -0.0}` / `{"a": 0.0}` and the array `[0.0]` / `[-0.0]`
    with their renderings (UTF-8 bytes) -/
def jNegZero : Value := .json (.num (.flt 9223372036854775808)) [45, 48, 46, 48]
def jPosZero : Value := .json (.num (.flt 0)) [48, 46, 48]
def jObjNegZero : Value := .json (.ocons [97] (.num (.flt 9223372036854775808)) .onil) [123, 34, 97, 34, 58, 45, 48, 46, 48, 125]
def jObjPosZero : Value := .json (.ocons [97] (.num (.flt 0)) .onil) [123, 34, 97, 34, 58, 48, 46, 48, 125]
def jArrPosZero : Value := .json (.acons (.num (.flt 0)) .anil) [91, 48, 46, 48, 93]
def jArrNegZero : Value := .json (.acons (.num (.flt 9223372036854775808)) .anil) [91, 45, 48, 46, 48, 93]
def jIntZero : Value := .json (.num (.pos 0)) [48]

/-- **what the repair rests on**: for every pair of JSON trees, equality under `serde_json::Value`'s
    `PartialEq` (numbers of one kind compared by payload, floats with `f64 ==`, arrays / objects pairwise)
    implies that `json_with_positive_zeros` maps both to the same tree -- so both render to the same text and
    the hash index puts them into the same bucket (`eq_implies_same_hashKey` above is stated for every `Value`,
    JSON included) -/
theorem json_eq_implies_same_normalised_tree (a b : Json) (h : Json.eq a b = true) :
    a.posZeros = b.posZeros :=
  json_eq_same_posZeros a b h

example : Value.eq jNegZero jPosZero = true ∧ hashKey jNegZero = hashKey jPosZero := by decide
example : Value.eq jObjNegZero jObjPosZero = true ∧ hashKey jObjNegZero = hashKey jObjPosZero := by decide
example : Value.eq jArrNegZero jArrPosZero = true ∧ hashKey jArrNegZero = hashKey jArrPosZero := by decide
/-- the integer `0` and the float `0.0` are different JSON numbers (different `N` kinds) and stay in
    different buckets -/
example : Value.eq jIntZero jPosZero = false ∧ hashKey jIntZero ≠ hashKey jPosZero := by decide

/-- the defect repaired by f72f348f: `hash_key` hashed the rendered text of the JSON value as it is, so two
    equal JSON values (`-0.0 == 0.0`, also nested in an object or an array) got different buckets -/
theorem json_text_hashKey_witness :
    (Value.eq jNegZero jPosZero = true ∧ hashKeyJsonTextOld jNegZero ≠ hashKeyJsonTextOld jPosZero) ∧
    (Value.eq jObjNegZero jObjPosZero = true ∧ hashKeyJsonTextOld jObjNegZero ≠ hashKeyJsonTextOld jObjPosZero) ∧
    (Value.eq jArrNegZero jArrPosZero = true ∧ hashKeyJsonTextOld jArrNegZero ≠ hashKeyJsonTextOld jArrPosZero) := by
  decide

/-- the rows of the finding: `-0.0`, `0.0`, `{"a":-0.0}`, `[0.0]` -/
def jsonFindingRows : List RowE :=
  [⟨1, true, [jNegZero]⟩, ⟨2, true, [jPosZero]⟩, ⟨3, true, [jObjNegZero]⟩, ⟨4, true, [jArrPosZero]⟩]

/-- ... and what it did to queries: on those rows `WHERE j = 0.0` is true of rows 1 and 2; through a hash index
    keyed by the text-as-it-is bucket function the index path returns row 2 only (and `{"a":0.0}` / `[-0.0]`
    find nothing), with the repaired bucket function it returns exactly the matching rows -/
theorem json_text_hash_index_misses_rows_witness :
    (jsonFindingRows.filter (matchesRow (.eq (.col 0) jPosZero))).map (·.id) = [1, 2] ∧
    selectHashWith hashKeyJsonTextOld jsonFindingRows (.col 0) jPosZero = [2] ∧
    selectHashWith hashKeyJsonTextOld jsonFindingRows (.col 0) jObjPosZero = [] ∧
    selectHashWith hashKeyJsonTextOld jsonFindingRows (.col 0) jArrNegZero = [] ∧
    selectHashWith hashKey jsonFindingRows (.col 0) jPosZero = [1, 2] ∧
    selectHashWith hashKey jsonFindingRows (.col 0) jObjPosZero = [3] ∧
    selectHashWith hashKey jsonFindingRows (.col 0) jArrNegZero = [4] := by
  decide

/-- the B-tree key order agrees with the value order wherever the latter is defined (so a key range is a
    superset of the matches); NaN, nulls, booleans and cross-type pairs have no value order and never match -/
theorem cmp_agrees_with_orderedKey (v w : Value) (o : Ordering) (h : partialCmp v w = some o) :
    OKey.cmp (ordKey v) (ordKey w) = o :=
  Neumann.Rel.cmp_agrees_with_orderedKey v w o h

example : partialCmp (.float 9223372036854775808) (.float 4607182418800017408) = some .lt := by decide
/-- JSON values are ordered by their rendered text, in the condition and in the B-tree key alike -/
example : partialCmp jNegZero jPosZero = some .lt ∧ OKey.cmp (ordKey jNegZero) (ordKey jPosZero) = .lt := by decide

/-- insert / update / delete / create index / drop index (successful or failing) preserve the index invariant:
    every index holds exactly one (key, id) pair per live row, keyed by the row's current value -/
theorem index_invariant_preserved (t : Table) (op : Op) (h : IdxInv t) : IdxInv (applyOp t op) :=
  applyOp_preserves t op h

/-- the invariant holds in every reachable state (induction over the operation sequence) -/
theorem reachable_index_invariant (schema : List (ColType × Bool)) (ops : List Op) : IdxInv (run schema ops) :=
  run_inv schema ops

/-- a reachable state with live rows, a dead slot, a hash and a B-tree index (hypothesis of the above is inhabited
    non-trivially, and the strategies below run on it) -/
def demoOps : List Op :=
  [.insert [.float 9223372036854775808, .null], .createHash (.col 0), .createOrd (.col 1),
   .insert [.float 0, .int 5], .insert [.float 4607182418800017408, .int 7],
   .update (.eq (.col 1) (.int 7)) [(1, .null)], .delete (.eq (.col 0) (.float 4607182418800017408)),
   .insert [.float 9221120237041090560, .int (-3)]]
def demoSchema : List (ColType × Bool) := [(.float, false), (.int, true)]

example : spec (run demoSchema demoOps) (.eq (.col 0) (.float 0)) = [1, 2] := by decide
example : select (run demoSchema demoOps) (.eq (.col 0) (.float 0)) = [1, 2] := by decide
example : (tryIndexLookup (run demoSchema demoOps) (.rng .lt (.col 1) (.int 6))).isSome = true := by decide
example : select (run demoSchema demoOps) (.rng .lt (.col 1) (.int 6)) = [2, 4] := by decide
example : columnarSelect (run demoSchema demoOps) (.rng .lt (.col 1) (.int 6)) = [2, 4] := by decide

/-- a reachable state with a JSON column that holds the rows of the f72f348f finding, a hash index created
    over existing rows and maintained through an insert, an update and a delete, and a B-tree index -/
def jsonDemoSchema : List (ColType × Bool) := [(.json, true), (.int, false)]
def jsonDemoOps : List Op :=
  [.insert [jNegZero, .int 1], .insert [jPosZero, .int 2], .createHash (.col 0),
   .insert [jObjNegZero, .int 3], .insert [jArrPosZero, .int 4], .insert [jIntZero, .int 5], .insert [.null, .int 6],
   .update (.eq (.col 1) (.int 5)) [(0, jNegZero)], .delete (.eq (.col 1) (.int 2)), .createOrd (.col 0)]

example : (tryIndexLookup (run jsonDemoSchema jsonDemoOps) (.eq (.col 0) jPosZero)).isSome = true := by decide
example : spec (run jsonDemoSchema jsonDemoOps) (.eq (.col 0) jPosZero) = [1, 5] := by decide
example : select (run jsonDemoSchema jsonDemoOps) (.eq (.col 0) jPosZero) = [1, 5] := by decide
example : select (run jsonDemoSchema jsonDemoOps) (.eq (.col 0) jObjPosZero) = [3] := by decide
example : count (run jsonDemoSchema jsonDemoOps) (.eq (.col 0) jArrNegZero) = 1 := by decide
example : (tryIndexLookup (run jsonDemoSchema jsonDemoOps) (.rng .le (.col 0) jPosZero)).isSome = true := by decide
example : select (run jsonDemoSchema jsonDemoOps) (.rng .le (.col 0) jPosZero) = [1, 5] := by decide

/-- **strategies agree**: in every reachable table state (every schema -- JSON columns included since the
    repair f72f348f --, every sequence of
    inserts / updates / deletes / index creations / index drops) and for every condition tree, the full scan,
    the index path of `select` (hash lookup or B-tree range, then re-check), `select_with_limit`, `count`,
    the streaming cursor and the vectorised columnar filter all return exactly `rows.filter (evaluate c)`
    (as ascending row ids; limit/offset = that list's window; count = its length) -/
theorem strategies_agree (schema : List (ColType × Bool)) (ops : List Op) (c : Cond) :
    let t := run schema ops
    scanSelect t c = spec t c ∧
    select t c = spec t c ∧
    (∀ ids, tryIndexLookup t c = some ids → selectViaIds t c ids = spec t c) ∧
    (∀ limit offset, selectLimit t c limit offset = ((spec t c).drop offset).take limit) ∧
    count t c = (spec t c).length ∧
    (∀ batch, 0 < batch → cursorSelect t c batch = spec t c) ∧
    columnarSelect t c = spec t c := by
  intro t
  have hi : IdxInv t := run_inv schema ops
  refine ⟨scanSelect_eq_spec t c hi.1, select_eq_spec t hi c, ?_, selectLimit_eq t hi c, count_eq t hi c,
    fun b hb => cursorSelect_eq t hi c b hb, columnarSelect_eq t hi c⟩
  intro ids h
  obtain ⟨hn, hs⟩ := lookup_sound t hi c ids h
  exact selectViaIds_eq_spec t c ids hi.1 hn hs

/-- creating or dropping an index (hash or B-tree, on any column or `_id`) changes no row and no query answer -/
theorem create_drop_index_transparent (schema : List (ColType × Bool)) (ops : List Op) (col : ColRef) (q : Cond)
    (op : Op) (hop : op = .createHash col ∨ op = .createOrd col ∨ op = .dropHash col ∨ op = .dropOrd col) :
    let t := run schema ops
    let t' := applyOp t op
    t'.rows = t.rows ∧ select t' q = select t q ∧ count t' q = count t q ∧
      columnarSelect t' q = columnarSelect t q ∧
      (∀ l o, selectLimit t' q l o = selectLimit t q l o) := by
  intro t t'
  have hi : IdxInv t := run_inv schema ops
  have hi' : IdxInv t' := applyOp_preserves t op hi
  have hrows : t'.rows = t.rows := indexOp_rows t col op hop
  have hspec : spec t' q = spec t q := by unfold spec; rw [hrows]
  refine ⟨hrows, ?_, ?_, ?_, ?_⟩
  · rw [select_eq_spec t' hi' q, select_eq_spec t hi q, hspec]
  · rw [count_eq t' hi' q, count_eq t hi q, hspec]
  · rw [columnarSelect_eq t' hi' q, columnarSelect_eq t hi q, hspec]
  · intro l o; rw [selectLimit_eq t' hi' q, selectLimit_eq t hi q, hspec]

/-- **indexes never change results, over whole histories**: take any operation sequence and the same
    sequence with every index creation / drop removed (an engine that never had an index).  Both end with the
    same slab and schema, hence every strategy on the indexed state -- hash lookup, B-tree range, limit/offset,
    count, cursor, columnar -- returns exactly what the full scan of the never-indexed state returns -/
theorem indexes_never_change_results (schema : List (ColType × Bool)) (ops : List Op) (c : Cond) :
    let t := run schema ops
    let u := run schema (ops.filter (fun o => !o.isIndexOp))
    t.rows = u.rows ∧ t.schema = u.schema ∧
    select t c = scanSelect u c ∧ count t c = (scanSelect u c).length ∧ columnarSelect t c = scanSelect u c ∧
    (∀ l o, selectLimit t c l o = ((scanSelect u c).drop o).take l) ∧
    (∀ b, 0 < b → cursorSelect t c b = scanSelect u c) ∧
    selectRows t c = specRows u c := by
  intro t u
  have hi : IdxInv t := run_inv schema ops
  have hu : IdxInv u := run_inv schema _
  obtain ⟨hr, hs⟩ := run_rows_strip ops (Table.empty schema) (Table.empty schema) rfl rfl
  have hspec : spec t c = spec u c := by unfold spec; rw [show t.rows = u.rows from hr]
  have hscan : scanSelect u c = spec t c := by rw [scanSelect_eq_spec u c hu.1, hspec]
  refine ⟨hr, hs, ?_, ?_, ?_, ?_, ?_, ?_⟩
  · rw [hscan, select_eq_spec t hi c]
  · rw [hscan, count_eq t hi c]
  · rw [hscan, columnarSelect_eq t hi c]
  · intro l o; rw [hscan, selectLimit_eq t hi c]
  · intro b hb; rw [hscan, cursorSelect_eq t hi c b hb]
  · rw [selectRows_eq_specRows t hi c]; unfold specRows; rw [show t.rows = u.rows from hr]

example : (demoOps.filter (fun o => !o.isIndexOp)).length = 6 := by decide
example : select (run demoSchema demoOps) (.rng .lt (.col 1) (.int 6)) =
    scanSelect (run demoSchema (demoOps.filter (fun o => !o.isIndexOp))) (.rng .lt (.col 1) (.int 6)) := by decide

/-- DELETE with a condition removes exactly the rows for which the condition is true (every other slot is
    untouched), reports their number, and leaves a state in which all strategies agree again -/
theorem update_delete_touch_exactly (schema : List (ColType × Bool)) (ops : List Op) (c : Cond) :
    let t := run schema ops
    (delete t c).1.rows = t.rows.map (fun x => if matchesRow c x then { x with alive := false } else x) ∧
    (delete t c).2 = (spec t c).length ∧
    IdxInv (delete t c).1 := by
  intro t
  have hi : IdxInv t := run_inv schema ops
  refine ⟨delete_rows_eq t c hi.1, ?_, delete_preserves t c hi⟩
  simp [delete, matching, spec]

/-- UPDATE with a condition rewrites exactly the rows for which the condition is true -- each of them gets the
    SET columns overwritten and keeps every other column, every other slot (live or dead) is untouched --,
    reports their number, keeps the schema and the index invariant (so all strategies agree afterwards) -/
theorem update_touch_exactly (schema : List (ColType × Bool)) (ops : List Op) (c : Cond)
    (sets : List (Nat × Value)) (t' : Table) (n : Nat)
    (h : update (run schema ops) c sets = .ok (t', n)) :
    t'.rows = (run schema ops).rows.map
        (fun x => if matchesRow c x then { x with vals := applySetsFrom sets 0 x.vals } else x) ∧
    n = (spec (run schema ops) c).length ∧ IdxInv t' := by
  have hi := run_inv schema ops
  refine ⟨update_rows_eq _ c sets t' n hi.1 h, ?_, update_preserves _ c sets t' n hi h⟩
  unfold update at h
  split at h
  · cases h
  · simp only [Except.ok.injEq, Prod.mk.injEq] at h
    rw [← h.2]; simp [matching, spec]

example : (update (run demoSchema demoOps) (.rng .ge (.col 1) (.int 0)) [(1, .int 9)]).toOption.map (·.2) = some 1 := by
  decide

/-- a rejected UPDATE (unknown column, wrong type, NULL into a NOT NULL column) changes nothing -/
theorem update_rejected_changes_nothing (t : Table) (c : Cond) (sets : List (Nat × Value)) (e : Err)
    (_h : update t c sets = .error e) : applyOp t (.update c sets) = t := by
  simp only [applyOp, _h]

example : update (run demoSchema demoOps) .tt [(0, .null)] = .error .nullNotAllowed := by decide

/-- **aggregates touch exactly the matching rows**: in every reachable state the row records `select` hands to
    `sum` / `avg` / `min` / `max` are exactly the live rows for which the condition is true, in id order --
    whichever plan `select` took -- so the list of addends of `sum` / `avg` and the sequential `min` / `max`
    folds are those of the specification; `count_column` (own fast path, index path and scan path) counts
    exactly the matching rows whose column is not NULL.  (The f64 additions of `sum` / `avg` and the rayon
    reduction used from 1000 selected rows on are outside the model.) -/
theorem aggregates_touch_exactly (schema : List (ColType × Bool)) (ops : List Op) (i : Nat) (c : Cond) :
    let t := run schema ops
    selectRows t c = specRows t c ∧
    aggSumTerms t i c = sumTerms i (specRows t c) ∧
    aggMin t i c = extremeOf .lt i (specRows t c) ∧
    aggMax t i c = extremeOf .gt i (specRows t c) ∧
    (i < t.schema.length → countColumn t i c = .ok ((specRows t c).filter (nonNull i)).length) := by
  intro t
  have hi : IdxInv t := run_inv schema ops
  obtain ⟨h1, h2, h3⟩ := aggregates_eq t hi i c
  exact ⟨selectRows_eq_specRows t hi c, h1, h2, h3, countColumn_eq t hi i c⟩

example : aggMin (run demoSchema demoOps) 1 (.rng .lt (.col 1) (.int 6)) = some (.int (-3)) := by decide
example : aggMax (run demoSchema demoOps) 0 .tt = some (.float 9223372036854775808) := by decide
example : aggSumTerms (run demoSchema demoOps) 1 .tt = [.int 5, .int (-3)] := by decide
example : countColumn (run demoSchema demoOps) 1 (.eq (.col 0) (.float 0)) = .ok 1 := by decide

/-- **derived strategies agree**: `select_iter` (limit / offset-only / plain), the streaming cursor with
    `max_rows`, and the query router's text paths (parsed: columnar select, then OFFSET, then LIMIT; legacy:
    select, then LIMIT) return the corresponding window of exactly the matching rows in every reachable state -/
theorem derived_strategies_agree (schema : List (ColType × Bool)) (ops : List Op) (c : Cond) :
    let t := run schema ops
    (∀ limit offset, selectIter t c limit offset =
        (match limit with
         | some l => ((spec t c).drop offset).take l
         | none => (spec t c).drop offset)) ∧
    (∀ batch max, 0 < batch → cursorSelectMax t c batch max =
        (match max with | some m => (spec t c).take m | none => spec t c)) ∧
    (∀ limit offset, routerSelect t c limit offset =
        (let rows := match offset with | some o => (spec t c).drop o | none => spec t c
         match limit with | some l => rows.take l | none => rows)) ∧
    (∀ limit, routerSelectLegacy t c limit =
        (match limit with | some l => (spec t c).take l | none => spec t c)) := by
  intro t
  have hi : IdxInv t := run_inv schema ops
  exact ⟨selectIter_eq t hi c, fun b m hb => cursorSelectMax_eq t hi c b hb m, routerSelect_eq t hi c,
    routerSelectLegacy_eq t hi c⟩

example : cursorSelectMax (run demoSchema demoOps) .tt 1 (some 2) = [1, 2] := by decide
example : selectIter (run demoSchema demoOps) .tt none 1 = [2, 4] := by decide
example : routerSelect (run demoSchema demoOps) .tt (some 1) (some 1) = [2] := by decide

/-- `batch_insert` validates every row first: if one row is rejected nothing is inserted; otherwise the
    resulting table is exactly that of inserting the rows one by one (so it is a reachable state and the index
    invariant holds) -/
theorem batch_insert_is_sequence_of_inserts (schema : List (ColType × Bool)) (ops : List Op)
    (rows : List (List Value)) :
    let t := run schema ops
    (∀ t' ids, batchInsert t rows = .ok (t', ids) →
        t' = rows.foldl (fun t v => applyOp t (.insert v)) t ∧ IdxInv t') ∧
    (∀ e, batchInsert t rows = .error e → applyOp t (.batchInsert rows) = t) := by
  intro t
  have hi : IdxInv t := run_inv schema ops
  refine ⟨?_, ?_⟩
  · intro t' ids h
    have e := batchInsert_eq_inserts t rows t' ids h
    exact ⟨e, e ▸ insertsFold_preserves rows t hi⟩
  · intro e h
    simp only [applyOp, h]

example : (batchInsert (run demoSchema demoOps) [[.float 0, .null], [.float 1, .int 2]]).toOption.map (·.2)
    = some [5, 6] := by decide
example : batchInsert (run demoSchema demoOps) [[.float 0, .null], [.null, .int 2]] = .error .nullNotAllowed := by
  decide

/-- `Condition::evaluate_with_depth` (what every row path of the engine really calls): it never returns a
    wrong truth value -- it returns `evaluate`'s answer or `ConditionTooDeep` -- and for a condition tree no
    deeper than `max_condition_depth` it always returns `evaluate`'s answer -/
theorem evaluate_with_depth_agrees (mx : Nat) (c : Cond) (d id : Nat) (row : List Value) :
    (∀ b, evalDepth mx c d id row = .ok b → b = evaluate c id row) ∧
    (d + condDepth c ≤ mx → evalDepth mx c d id row = .ok (evaluate c id row)) :=
  ⟨evalDepth_sound mx c d id row, evalDepth_within mx c d id row⟩

example : evalDepth 1 (.and (.and .tt .tt) .tt) 0 1 [] = .error () := by decide
example : evalDepth 1 (.and (.eq (.col 0) (.int 1)) (.and (.and .tt .tt) .tt)) 0 1 [.int 2] = .ok false := by decide

/-- **the depth limit never changes which rows are touched**: in every reachable state, for every
    `max_condition_depth` and every condition tree, each strategy run with the depth check either fails with
    `ConditionTooDeep` or returns exactly the rows for which the condition is true (UPDATE / DELETE: either
    fail before touching anything, or do exactly what they do without the limit); when the tree is no deeper
    than the limit every strategy succeeds -/
theorem depth_limited_strategies_agree (schema : List (ColType × Bool)) (ops : List Op) (mx : Nat) (c : Cond) :
    let t := run schema ops
    (∀ ids, selectE mx t c = .ok ids → ids = spec t c) ∧
    (∀ n, countE mx t c = .ok n → n = (spec t c).length) ∧
    (∀ l o ids, selectLimitE mx t c l o = .ok ids → ids = ((spec t c).drop o).take l) ∧
    (∀ ids, columnarE mx t c = .ok ids → ids = spec t c) ∧
    (∀ p, deleteE mx t c = .ok p → p = delete t c) ∧
    (∀ sets p, updateE mx t c sets = .ok p → p = update t c sets) ∧
    (condDepth c ≤ mx →
      selectE mx t c = .ok (spec t c) ∧ countE mx t c = .ok (spec t c).length ∧
      (∀ l o, selectLimitE mx t c l o = .ok (((spec t c).drop o).take l)) ∧
      columnarE mx t c = .ok (spec t c) ∧ deleteE mx t c = .ok (delete t c) ∧
      (∀ sets, updateE mx t c sets = .ok (update t c sets))) := by
  intro t
  have hi : IdxInv t := run_inv schema ops
  refine ⟨?_, ?_, ?_, ?_, deleteE_sound mx t c, updateE_sound mx t c, ?_⟩
  · intro ids h; rw [selectE_sound mx t c ids h, select_eq_spec t hi c]
  · intro n h; rw [countE_sound mx t c n h, count_eq t hi c]
  · intro l o ids h; rw [selectLimitE_sound mx t c l o ids h, selectLimit_eq t hi c]
  · intro ids h; rw [columnarE_sound mx t c ids h, columnarSelect_eq t hi c]
  · intro hd
    refine ⟨?_, ?_, ?_, ?_, deleteE_within mx t c hd, fun sets => updateE_within mx t c sets hd⟩
    · rw [selectE_within mx t c hd, select_eq_spec t hi c]
    · rw [countE_within mx t c hd, count_eq t hi c]
    · intro l o; rw [selectLimitE_within mx t c l o hd, selectLimit_eq t hi c]
    · rw [columnarE_within mx t c hd, columnarSelect_eq t hi c]

/-- beyond the limit the *outcome* does depend on the strategy (the vectorised path never checks the depth):
    the row path fails with `ConditionTooDeep` where the columnar path returns the matching rows -/
theorem depth_limit_outcome_strategy_dependent_witness :
    ∃ (ops : List Op) (c : Cond),
      selectE 0 (run [(.int, false)] ops) c = .error () ∧
      columnarE 0 (run [(.int, false)] ops) c = .ok (spec (run [(.int, false)] ops) c) ∧
      spec (run [(.int, false)] ops) c = [1] :=
  ⟨[.insert [.int 1]], .and (.eq (.col 0) (.int 1)) (.rng .ge (.col 0) (.int 0)), by decide, by decide, by decide⟩

/-- every stored value is NULL or of its column's type, in every reachable state (insert / batch_insert /
    update validate; delete and index DDL do not touch values) -/
theorem stored_values_well_typed (schema : List (ColType × Bool)) (ops : List Op) :
    ∀ r ∈ (run schema ops).rows, ∀ (j : Nat) (ty : ColType) (nl : Bool) (v : Value),
      (run schema ops).schema[j]? = some (ty, nl) → r.vals[j]? = some v → typeOk ty v = true :=
  run_typed schema ops

example : typeOk .float (.float 0) = true ∧ typeOk .float (.int 0) = false := by decide

/-- the SIMD filter loop (`len / 4` chunks of four lanes, then the remainder, each hit doing
    `result[i / 64] |= 1 << (i % 64)` on a zeroed `bitmap_words(len)` vector) sets exactly the bits of the
    positions below `len` whose value satisfies the comparison -/
theorem simd_filter_sets_exactly_matching_bits (n : Nat) (pred : Nat → Bool) (p : Nat) :
    (simdFilter n pred).bit p = (decide (p < n) && pred p) ∧ (simdFilter n pred).nwords = (n + 63) / 64 :=
  simdFilter_bit n pred p

example : (simdFilter 7 (fun i => i % 2 = 1)).selected = [1, 3, 5] := by decide

/-- **the vectorised path at word level**: in every reachable state and for every condition tree, the
    word-level execution -- value vector, 64-bit words of the result / null / alive bitmaps, `apply_null_mask`,
    `apply_alive_mask`, word-wise `bitmap_and` / `bitmap_or` over the common prefix, `selected_indices`, then
    `get_rows_by_indices` with its bounds and alive checks -- returns exactly the rows for which the condition
    is true, whatever the unspecified storage holds: the stored word of a NULL slot (0, or the value before an
    update to NULL) and the padding bits of the last word of the raw alive / null bit vectors -/
theorem vectorised_words_agree (schema : List (ColType × Bool)) (ops : List Op) (u : Unspec) (c : Cond) :
    columnarSelectW (run schema ops) u c = spec (run schema ops) c := by
  rw [columnarSelectW_eq _ (run_typed schema ops) u c, columnarSelect_eq _ (run_inv schema ops) c]

example : columnarSelectW (run demoSchema demoOps) Unspec.ones (.rng .lt (.col 1) (.int 6)) = [2, 4] := by decide
example : (vecFilterW (run demoSchema demoOps) Unspec.ones (.ne (.col 1) (.int 5))).isSome = true := by decide
example : columnarSelectW (run demoSchema demoOps) Unspec.ones (.ne (.col 1) (.int 5)) = [1, 4] := by decide

/-- **row id = slot + 1**: in every reachable state the row in slot `p` has id `p + 1`; hence the index paths,
    which turn every looked-up id into the slot `id.saturating_sub(1)` and read it with `get_rows_by_indices`,
    fetch exactly the rows the model finds by id, and the vectorised path numbers its selected slots `slot + 1` -/
theorem row_ids_are_slot_plus_one (schema : List (ColType × Bool)) (ops : List Op) (c : Cond) :
    let t := run schema ops
    (∀ (p : Nat) (r : RowE), t.rows[p]? = some r → r.id = p + 1) ∧
    (∀ ids, tryIndexLookup t c = some ids → fetch t ids = fetchBySlot t ids) ∧
    (∀ idxs, rowsByIndices t.rows idxs =
        (idxs.filter (fun i => match t.rows[i]? with | some r => r.alive | none => false)).map (· + 1)) := by
  intro t
  have hi : IdxInv t := run_inv schema ops
  have hp : IdPos t := run_idPos schema ops
  exact ⟨hp, fun ids h => fetch_eq_fetchBySlot t hi.1 hp ids (lookup_ids_pos t hi hp c ids h),
    rowsByIndices_slot_plus_one t hp⟩

example : fetchBySlot (run demoSchema demoOps) [2, 3, 4, 9] = fetch (run demoSchema demoOps) [2, 3, 4, 9] := by decide
example : (fetchBySlot (run demoSchema demoOps) [2, 3, 4, 9]).map (·.id) = [2, 4] := by decide

/-- the defect found on the real engine (`select_with_limit` truncated the raw index ids before the re-check):
    with that variant an index changes the answer -/
theorem limit_truncate_first_witness :
    ∃ (ops : List Op) (c : Cond),
      selectLimitTruncFirst (run [(.int, false), (.int, false)] ops) c 1 0 ≠
        ((spec (run [(.int, false), (.int, false)] ops) c).drop 0).take 1 :=
  ⟨[.insert [.int 1, .int 0], .insert [.int 1, .int 4], .createHash (.col 0)],
   .and (.eq (.col 0) (.int 1)) (.eq (.col 1) (.int 4)), by decide⟩

/-- the defect found on the real engine (SIMD leaf ignored the null bitmap): a NULL slot satisfies `x < 5` -/
theorem columnar_null_mask_witness :
    intLeafNoNullMask (some .lt) false 5 .null = true ∧
      evaluate (.rng .lt (.col 0) (.int 5)) 1 [.null] = false := by decide

end Neumann.Rel.Props
