import NeumannModel.Rel.Lemmas
/-
  C04 — property theorems: every execution strategy returns exactly the rows that satisfy the condition.
  ONLY property statements and their non-vacuity examples live here; helpers are in `Lemmas.lean`.
-/
namespace Neumann.Rel.Props
open Neumann.Rel

/-- values that compare equal land in the same hash bucket (so an index lookup is a superset of the matches) -/
theorem eq_implies_same_hashKey (v w : Value) (h : Value.eq v w = true) : hashKey v = hashKey w :=
  Neumann.Rel.eq_implies_same_hashKey v w h

example : Value.eq (.float 9223372036854775808) (.float 0) = true := by decide

/-- with the pre-fix bucket function (raw bit pattern) the lemma is false: -0.0 == 0.0 but the buckets differ -/
theorem old_hashKey_witness :
    ∃ v w, Value.eq v w = true ∧ hashKeyOld v ≠ hashKeyOld w :=
  ⟨.float 9223372036854775808, .float 0, by decide, by decide⟩

/-- the B-tree key order agrees with the value order wherever the latter is defined (so a key range is a
    superset of the matches) -/
theorem cmp_agrees_with_orderedKey (v w : Value) (o : Ordering) (h : partialCmp v w = some o) :
    OKey.cmp (ordKey v) (ordKey w) = o :=
  Neumann.Rel.cmp_agrees_with_orderedKey v w o h

example : partialCmp (.float 9223372036854775808) (.float 4607182418800017408) = some .lt := by decide

end Neumann.Rel.Props
