import NeumannModel.Rel.Model
/-
  C04 helper lemmas: FloatBits facts, hash / ordered key lemmas, sorting, the index invariant and the
  agreement of every read strategy with `spec` on a state that satisfies the invariant.
-/
namespace Neumann.Rel


theorem fKey_inj_of_nonzero (a b : Nat) (h : fKey a = fKey b) (hz : fMag a ≠ 0) : a = b := by
  unfold fKey at h; unfold fMag at hz
  split at h <;> split at h <;> split at hz <;> omega

theorem fKey_zero_iff (a : Nat) : fKey a = 0 ↔ fMag a = 0 := by
  unfold fKey fMag; split <;> omega

/-- floats that are `==` get the same zero-normalised bit pattern -/
theorem fEq_same_normalised (a b : Nat) (h : fEq a b = true) :
    (if fIsZero a then (0 : Nat) else a) = (if fIsZero b then 0 else b) := by
  simp only [fEq, Bool.and_eq_true, Bool.not_eq_true', decide_eq_true_eq] at h
  obtain ⟨⟨_, _⟩, hk⟩ := h
  by_cases ha : fMag a = 0
  · have hb : fMag b = 0 := (fKey_zero_iff b).1 (hk ▸ (fKey_zero_iff a).2 ha)
    simp [fIsZero, ha, hb]
  · have := fKey_inj_of_nonzero a b hk ha
    subst this; rfl

/-- JSON numbers that are equal (`impl PartialEq for N`) are the same number once float zeros are `0.0` -/
theorem jnum_eq_same_posZero (a b : JNum) (h : JNum.eq a b = true) : a.posZero = b.posZero := by
  cases a <;> cases b <;> simp_all [JNum.eq, JNum.posZero]
  case flt.flt x y =>
    have := fEq_same_normalised x y h
    by_cases hx : fIsZero x <;> by_cases hy : fIsZero y <;> simp_all

/-- **what the repair of f72f348f rests on**: JSON values that are equal under `serde_json::Value`'s
    `PartialEq` are the same tree after `json_with_positive_zeros` (hence render to the same text and land in
    the same hash bucket) -/
theorem json_eq_same_posZeros : ∀ (a b : Json), Json.eq a b = true → a.posZeros = b.posZeros := by
  intro a
  induction a with
  | null => intro b h; cases b <;> simp_all [Json.eq]
  | bool x => intro b h; cases b <;> simp_all [Json.eq]
  | num n => intro b h; cases b <;> simp_all [Json.eq, Json.posZeros]; exact jnum_eq_same_posZero _ _ h
  | str x => intro b h; cases b <;> simp_all [Json.eq]
  | anil => intro b h; cases b <;> simp_all [Json.eq]
  | acons hd tl ih1 ih2 =>
    intro b h
    cases b <;> simp_all [Json.eq, Json.posZeros]
    exact ⟨ih1 _ h.1, ih2 _ h.2⟩
  | onil => intro b h; cases b <;> simp_all [Json.eq]
  | ocons k v r ih1 ih2 =>
    intro b h
    cases b <;> simp_all [Json.eq, Json.posZeros]
    exact ⟨ih1 _ h.1.2, ih2 _ h.2⟩

theorem eq_implies_same_hashKey (v w : Value) (h : Value.eq v w = true) : hashKey v = hashKey w := by
  cases v <;> cases w <;> simp_all [Value.eq, hashKey]
  case float.float a b =>
    have := fEq_same_normalised a b h
    by_cases ha : fIsZero a <;> by_cases hb : fIsZero b <;> simp_all
  case json.json a _ b _ => exact json_eq_same_posZeros a b h

theorem icmp_lt (a b : Int) : icmp a b = .lt ↔ a < b := by unfold icmp; split <;> simp_all <;> split <;> simp_all


theorem cmp_agrees_with_orderedKey (v w : Value) (o : Ordering) (h : partialCmp v w = some o) :
    OKey.cmp (ordKey v) (ordKey w) = o := by
  cases v <;> cases w <;> simp_all [partialCmp, ordKey, OKey.cmp]
  case float.float a b =>
    unfold fCmp at h
    split at h
    · simp at h
    · rename_i hn
      simp only [Bool.or_eq_true, not_or, Bool.not_eq_true] at hn
      simp [hn.1, hn.2] at h ⊢
      exact h

/-! sorting -/
theorem mem_insertSorted (x y : Nat) (l : List Nat) : y ∈ insertSorted x l ↔ y = x ∨ y ∈ l := by
  induction l with
  | nil => simp [insertSorted]
  | cons z zs ih =>
    unfold insertSorted; split
    · simp
    · simp [ih]; constructor <;> (intro h; rcases h with h | h | h <;> simp_all)

theorem mem_sortIds (y : Nat) (l : List Nat) : y ∈ sortIds l ↔ y ∈ l := by
  induction l with
  | nil => simp [sortIds]
  | cons x xs ih => simp [sortIds, mem_insertSorted, ih]

def StrictAsc (l : List Nat) : Prop := l.Pairwise (· < ·)

theorem strictAsc_insertSorted (x : Nat) (l : List Nat) (h : StrictAsc l) (hx : x ∉ l) :
    StrictAsc (insertSorted x l) := by
  induction l with
  | nil => simp [insertSorted, StrictAsc]
  | cons z zs ih =>
    unfold StrictAsc at h ih ⊢
    rw [List.pairwise_cons] at h
    simp only [List.mem_cons, not_or] at hx
    unfold insertSorted; split
    · rw [List.pairwise_cons, List.pairwise_cons]
      refine ⟨?_, h⟩
      intro a ha
      rcases List.mem_cons.1 ha with rfl | ha
      · omega
      · have := h.1 a ha; omega
    · rw [List.pairwise_cons]
      refine ⟨?_, ih h.2 hx.2⟩
      intro a ha
      rcases (mem_insertSorted x a zs).1 ha with rfl | ha
      · omega
      · exact h.1 a ha

theorem strictAsc_sortIds (l : List Nat) (h : l.Nodup) : StrictAsc (sortIds l) := by
  induction l with
  | nil => simp [sortIds, StrictAsc]
  | cons x xs ih =>
    rw [List.nodup_cons] at h
    exact strictAsc_insertSorted x _ (ih h.2) (by rw [mem_sortIds]; exact h.1)

theorem strictAsc_ext (a b : List Nat) (ha : StrictAsc a) (hb : StrictAsc b) (h : ∀ x, x ∈ a ↔ x ∈ b) : a = b := by
  induction a generalizing b with
  | nil => cases b with
    | nil => rfl
    | cons y ys => exact absurd ((h y).2 (by simp)) (by simp)
  | cons x xs ih => cases b with
    | nil => exact absurd ((h x).1 (by simp)) (by simp)
    | cons y ys =>
      unfold StrictAsc at ha hb
      rw [List.pairwise_cons] at ha hb
      have hxy : x = y := by
        have h1 := (h x).1 (by simp)
        have h2 := (h y).2 (by simp)
        rcases List.mem_cons.1 h1 with h1 | h1
        · exact h1
        · rcases List.mem_cons.1 h2 with h2 | h2
          · exact h2.symm
          · have := hb.1 x h1; have := ha.1 y h2; omega
      subst hxy
      congr 1
      apply ih _ ha.2 hb.2
      intro z
      constructor
      · intro hz
        have := (h z).1 (List.mem_cons_of_mem _ hz)
        rcases List.mem_cons.1 this with rfl | h'
        · have := ha.1 z hz; omega
        · exact h'
      · intro hz
        have := (h z).2 (List.mem_cons_of_mem _ hz)
        rcases List.mem_cons.1 this with rfl | h'
        · have := hb.1 z hz; omega
        · exact h'

theorem sortIds_of_strictAsc (l : List Nat) (h : StrictAsc l) : sortIds l = l := by
  apply strictAsc_ext
  · exact strictAsc_sortIds l (by
      unfold StrictAsc at h
      exact h.imp (fun hab => by omega))
  · exact h
  · intro x; exact mem_sortIds x l

/-! ## invariants -/
def RowsWF (rows : List RowE) : Prop :=
  (rows.map (·.id)).Pairwise (· < ·) ∧ ∀ r ∈ rows, r.id ≤ rows.length

structure KInv {κ : Type} (key : Value → κ) (rows : List RowE) (c : ColRef) (ix : Idx κ) : Prop where
  nodup : (ix.map Prod.snd).Nodup
  sound : ∀ k i, (k, i) ∈ ix → ∃ r ∈ rows, r.id = i ∧ r.alive = true ∧ ∃ v, getWithId r.id r.vals c = some v ∧ key v = k
  complete : ∀ r ∈ rows, r.alive = true → ∀ v, getWithId r.id r.vals c = some v → (key v, r.id) ∈ ix

def IdxInv (t : Table) : Prop :=
  RowsWF t.rows ∧ (∀ c ix, (c, ix) ∈ t.hidx → KInv hashKey t.rows c ix) ∧
    (∀ c ix, (c, ix) ∈ t.oidx → KInv ordKey t.rows c ix) ∧
    (∀ r ∈ t.rows, r.vals.length = t.schema.length)

theorem id_inj (rows : List RowE) (h : (rows.map (·.id)).Pairwise (· < ·)) :
    ∀ r ∈ rows, ∀ r' ∈ rows, r.id = r'.id → r = r' := by
  induction rows with
  | nil => simp
  | cons x xs ih =>
    rw [List.map_cons, List.pairwise_cons] at h
    intro r hr r' hr' he
    rcases List.mem_cons.1 hr with h1 | h1 <;> rcases List.mem_cons.1 hr' with h2 | h2
    · rw [h1, h2]
    · have := h.1 r'.id (List.mem_map.2 ⟨r', h2, rfl⟩); rw [h1] at he; omega
    · have := h.1 r.id (List.mem_map.2 ⟨r, h1, rfl⟩); rw [h2] at he; omega
    · exact ih h.2 r h1 r' h2 he

theorem assocGet_mem {β : Type} (c : ColRef) (l : List (ColRef × β)) (b : β) (h : assocGet c l = some b) : (c, b) ∈ l := by
  induction l with
  | nil => simp [assocGet] at h
  | cons p ps ih =>
    obtain ⟨c', b'⟩ := p
    unfold assocGet at h
    split at h
    · rename_i hc; simp at h; subst hc; subst h; simp
    · exact List.mem_cons_of_mem _ (ih h)

theorem spec_strictAsc (t : Table) (c : Cond) (h : RowsWF t.rows) : StrictAsc (spec t c) := by
  unfold spec StrictAsc
  exact h.1.sublist ((List.filter_sublist).map _)

theorem scanSelect_eq_spec (t : Table) (c : Cond) (h : RowsWF t.rows) : scanSelect t c = spec t c := by
  have : ((scanAll t).filter (fun r => evaluate c r.id r.vals)) = t.rows.filter (matchesRow c) := by
    unfold scanAll
    rw [List.filter_filter]
    apply List.filter_congr
    intro r _
    simp [matchesRow, Bool.and_comm]
  unfold scanSelect
  rw [this]
  exact sortIds_of_strictAsc _ (spec_strictAsc t c h)

theorem fetch_mem (t : Table) (ids : List Nat) (h : RowsWF t.rows) (r : RowE) :
    r ∈ fetch t ids ↔ r ∈ t.rows ∧ r.alive = true ∧ r.id ∈ ids := by
  unfold fetch
  rw [List.mem_filterMap]
  constructor
  · rintro ⟨i, hi, hf⟩
    have hm := List.mem_of_find?_eq_some hf
    have hp := List.find?_some hf
    simp only [Bool.and_eq_true, decide_eq_true_eq] at hp
    exact ⟨hm, hp.2, hp.1 ▸ hi⟩
  · rintro ⟨hm, ha, hi⟩
    refine ⟨r.id, hi, ?_⟩
    cases hf : t.rows.find? (fun r' => decide (r'.id = r.id) && r'.alive) with
    | none =>
      rw [List.find?_eq_none] at hf
      have := hf r hm
      simp [ha] at this
    | some r' =>
      have hm' := List.mem_of_find?_eq_some hf
      have hp := List.find?_some hf
      simp only [Bool.and_eq_true, decide_eq_true_eq] at hp
      rw [id_inj t.rows h.1 r' hm' r hm hp.1]

theorem fetch_ids_sublist (t : Table) (ids : List Nat) : ((fetch t ids).map (·.id)).Sublist ids := by
  induction ids with
  | nil => simp [fetch]
  | cons i is ih =>
    unfold fetch at ih ⊢
    rw [List.filterMap_cons]
    split
    · exact ih.cons _
    · rename_i r hf
      have hp := List.find?_some hf
      simp only [Bool.and_eq_true, decide_eq_true_eq] at hp
      rw [List.map_cons, hp.1]
      exact ih.cons_cons _

theorem length_insertSorted (x : Nat) (l : List Nat) : (insertSorted x l).length = l.length + 1 := by
  induction l with
  | nil => rfl
  | cons y ys ih => unfold insertSorted; split <;> simp [ih]

theorem length_sortIds (l : List Nat) : (sortIds l).length = l.length := by
  induction l with
  | nil => rfl
  | cons x xs ih => simp [sortIds, length_insertSorted, ih]

/-- the index path returns exactly the matching rows whenever the looked-up ids are duplicate-free and
    contain every matching live row -/
theorem selectViaIds_eq_spec (t : Table) (c : Cond) (ids : List Nat) (h : RowsWF t.rows) (hn : ids.Nodup)
    (hsup : ∀ r ∈ t.rows, r.alive = true → evaluate c r.id r.vals = true → r.id ∈ ids) :
    selectViaIds t c ids = spec t c := by
  unfold selectViaIds
  apply strictAsc_ext
  · apply strictAsc_sortIds
    exact (hn.sublist (fetch_ids_sublist t ids)).sublist ((List.filter_sublist).map _)
  · exact spec_strictAsc t c h
  · intro x
    rw [mem_sortIds]
    unfold spec
    simp only [List.mem_map, List.mem_filter, fetch_mem t ids h]
    constructor
    · rintro ⟨r, ⟨⟨hm, ha, _⟩, he⟩, rfl⟩
      exact ⟨r, ⟨hm, by simp [matchesRow, ha, he]⟩, rfl⟩
    · rintro ⟨r, ⟨hm, hp⟩, rfl⟩
      simp only [matchesRow, Bool.and_eq_true] at hp
      exact ⟨r, ⟨⟨hm, hp.1, hsup r hm hp.1 hp.2⟩, hp.2⟩, rfl⟩

theorem lookup_sound (t : Table) (hi : IdxInv t) (c : Cond) :
    ∀ ids, tryIndexLookup t c = some ids →
      ids.Nodup ∧ ∀ r ∈ t.rows, r.alive = true → evaluate c r.id r.vals = true → r.id ∈ ids := by
  induction c with
  | tt => intro ids h; simp [tryIndexLookup] at h
  | ne c v => intro ids h; simp [tryIndexLookup] at h
  | or a b _ _ => intro ids h; simp [tryIndexLookup] at h
  | eq col v =>
    intro ids h
    simp only [tryIndexLookup, Option.map_eq_some_iff] at h
    obtain ⟨ix, hix, rfl⟩ := h
    have k := hi.2.1 col ix (assocGet_mem col _ ix hix)
    refine ⟨?_, ?_⟩
    · unfold hashLookup
      exact k.nodup.sublist ((List.filter_sublist).map _)
    · intro r hr ha he
      simp only [evaluate] at he
      cases hg : getWithId r.id r.vals col with
      | none => simp [hg] at he
      | some x =>
        simp only [hg] at he
        have hk := eq_implies_same_hashKey x v he
        have := k.complete r hr ha x hg
        unfold hashLookup
        rw [List.mem_map]
        exact ⟨(hashKey x, r.id), List.mem_filter.2 ⟨this, by simp [hk]⟩, rfl⟩
  | rng op col v =>
    intro ids h
    simp only [tryIndexLookup, Option.map_eq_some_iff] at h
    obtain ⟨ix, hix, rfl⟩ := h
    have k := hi.2.2.1 col ix (assocGet_mem col _ ix hix)
    refine ⟨?_, ?_⟩
    · unfold rangeLookup
      exact k.nodup.sublist ((List.filter_sublist).map _)
    · intro r hr ha he
      simp only [evaluate] at he
      cases hg : getWithId r.id r.vals col with
      | none => simp [hg] at he
      | some x =>
        simp only [hg] at he
        cases hc : partialCmp x v with
        | none => simp [hc] at he
        | some o =>
          simp only [hc] at he
          have hk := cmp_agrees_with_orderedKey x v o hc
          have := k.complete r hr ha x hg
          unfold rangeLookup
          rw [List.mem_map]
          exact ⟨(ordKey x, r.id), List.mem_filter.2 ⟨this, by simp [hk, he]⟩, rfl⟩
  | and a b iha ihb =>
    intro ids h
    simp only [tryIndexLookup] at h
    cases ha : tryIndexLookup t a with
    | some ia =>
      simp only [ha, Option.some.injEq] at h
      subst h
      obtain ⟨hn, hs⟩ := iha ia ha
      refine ⟨hn, fun r hr hal he => hs r hr hal ?_⟩
      simp only [evaluate, Bool.and_eq_true] at he
      exact he.1
    | none =>
      simp only [ha] at h
      obtain ⟨hn, hs⟩ := ihb ids h
      refine ⟨hn, fun r hr hal he => hs r hr hal ?_⟩
      simp only [evaluate, Bool.and_eq_true] at he
      exact he.2

theorem select_eq_spec (t : Table) (hi : IdxInv t) (c : Cond) : select t c = spec t c := by
  unfold select
  cases h : tryIndexLookup t c with
  | none => exact scanSelect_eq_spec t c hi.1
  | some ids =>
    obtain ⟨hn, hs⟩ := lookup_sound t hi c ids h
    exact selectViaIds_eq_spec t c ids hi.1 hn hs

/-! ## limit / count / cursor -/


theorem scanFilter_map_id (t : Table) (c : Cond) :
    ((scanAll t).filter (fun r => evaluate c r.id r.vals)).map (·.id) = spec t c := by
  unfold scanAll spec
  rw [List.filter_filter]
  congr 1
  apply List.filter_congr
  intro r _
  simp [matchesRow, Bool.and_comm]

theorem take_drop_window (l : List Nat) (o n : Nat) : ((l.take (o + n)).drop o).take n = (l.drop o).take n := by
  rw [List.drop_take]
  have : o + n - o = n := by omega
  rw [this, List.take_take]
  simp

theorem selectLimit_eq (t : Table) (hi : IdxInv t) (c : Cond) (limit offset : Nat) :
    selectLimit t c limit offset = ((spec t c).drop offset).take limit := by
  unfold selectLimit
  split
  · rename_i h; subst h; simp
  · cases h : tryIndexLookup t c with
    | some ids =>
      obtain ⟨hn, hs⟩ := lookup_sound t hi c ids h
      simp only [selectViaIds_eq_spec t c ids hi.1 hn hs]
    | none =>
      simp only
      rw [List.map_take, scanFilter_map_id]
      have hs : StrictAsc ((spec t c).take (offset + limit)) :=
        (spec_strictAsc t c hi.1).sublist (List.take_sublist _ _)
      rw [sortIds_of_strictAsc _ hs]
      exact take_drop_window _ _ _

theorem count_eq (t : Table) (hi : IdxInv t) (c : Cond) : count t c = (spec t c).length := by
  have hscan : ((scanAll t).filter (fun r => evaluate c r.id r.vals)).length = (spec t c).length := by
    rw [← scanFilter_map_id, List.length_map]
  have hidx : ∀ ids, tryIndexLookup t c = some ids →
      ((fetch t ids).filter (fun r => evaluate c r.id r.vals)).length = (spec t c).length := by
    intro ids h
    obtain ⟨hn, hs⟩ := lookup_sound t hi c ids h
    have := selectViaIds_eq_spec t c ids hi.1 hn hs
    unfold selectViaIds at this
    rw [← this, length_sortIds, List.length_map]
  unfold count
  cases c with
  | tt =>
    simp only
    rw [← scanFilter_map_id, List.length_map]
    congr 1
    simp only [evaluate]
    exact (List.filter_eq_self.2 (fun _ _ => rfl)).symm
  | eq col v => cases h : tryIndexLookup t (.eq col v) with
    | some ids => exact hidx ids h
    | none => exact hscan
  | ne col v => cases h : tryIndexLookup t (.ne col v) with
    | some ids => exact hidx ids h
    | none => exact hscan
  | rng op col v => cases h : tryIndexLookup t (.rng op col v) with
    | some ids => exact hidx ids h
    | none => exact hscan
  | and a b => cases h : tryIndexLookup t (.and a b) with
    | some ids => exact hidx ids h
    | none => exact hscan
  | or a b => cases h : tryIndexLookup t (.or a b) with
    | some ids => exact hidx ids h
    | none => exact hscan

/-- pages of `(l.drop off).take batch` concatenate to `l.drop off` -/
theorem pagesFrom_window (l : List Nat) (batch : Nat) (hb : 0 < batch) :
    ∀ fuel off, l.length - off < fuel →
      pagesFrom (fun n o => (l.drop o).take n) batch fuel off = l.drop off := by
  intro fuel
  induction fuel with
  | zero => intro off h; omega
  | succ f ih =>
    intro off h
    unfold pagesFrom
    simp only
    by_cases hoff : l.length ≤ off
    · have : l.drop off = [] := List.drop_eq_nil_of_le hoff
      simp [this]
    · have hlen : ((l.drop off).take batch).length = min batch (l.length - off) := by
        simp [List.length_take, List.length_drop]
      have hne : ((l.drop off).take batch).isEmpty = false := by
        rw [List.isEmpty_eq_false_iff, ← List.length_pos_iff, hlen]; omega
      rw [hne]
      simp only [Bool.false_eq_true, if_false]
      split
      · rename_i hlt
        rw [hlen] at hlt
        apply List.take_of_length_le
        rw [List.length_drop]; omega
      · rename_i hge
        rw [hlen] at hge ⊢
        have hmin : min batch (l.length - off) = batch := by omega
        rw [hmin, ih (off + batch) (by omega)]
        rw [← List.drop_drop]
        exact List.take_append_drop batch (l.drop off)

theorem cursorSelect_eq (t : Table) (hi : IdxInv t) (c : Cond) (batch : Nat) (hb : 0 < batch) :
    cursorSelect t c batch = spec t c := by
  unfold cursorSelect
  have hf : (fun l o => selectLimit t c l o) = (fun n o => ((spec t c).drop o).take n) := by
    funext l o; exact selectLimit_eq t hi c l o
  rw [hf, pagesFrom_window (spec t c) batch hb]
  · simp
  · have : (spec t c).length ≤ t.rows.length := by
      unfold spec; rw [List.length_map]; exact List.length_filter_le _ _
    omega

/-! ## vectorised filtering -/


theorem icmp_eq_iff (a b : Int) : icmp a b = .eq ↔ a = b := by
  unfold icmp; split
  · simp; omega
  · split <;> simp_all

theorem intLeaf_eq (k : Int) (r : RowE) (i : Nat) :
    intLeaf none false k (slotVal r i) = evaluate (.eq (.col i) (.int k)) r.id r.vals := by
  simp only [evaluate, getWithId, slotVal]
  cases h : r.vals[i]? with
  | none => simp [intLeaf]
  | some x => cases x <;> simp [intLeaf, Value.eq]

theorem intLeaf_ne (k : Int) (r : RowE) (i : Nat) :
    intLeaf none true k (slotVal r i) = evaluate (.ne (.col i) (.int k)) r.id r.vals := by
  simp only [evaluate, getWithId, slotVal]
  cases h : r.vals[i]? with
  | none => simp [intLeaf]
  | some x => cases x <;> simp [intLeaf, Value.eq]

theorem intLeaf_rng (op : RangeOp) (k : Int) (r : RowE) (i : Nat) :
    intLeaf (some op) false k (slotVal r i) = evaluate (.rng op (.col i) (.int k)) r.id r.vals := by
  simp only [evaluate, getWithId, slotVal]
  cases h : r.vals[i]? with
  | none => simp [intLeaf]
  | some x => cases x <;> simp [intLeaf, partialCmp]

theorem floatLeaf_eq (k : Nat) (r : RowE) (i : Nat) :
    floatLeaf none k (slotVal r i) = evaluate (.eq (.col i) (.float k)) r.id r.vals := by
  simp only [evaluate, getWithId, slotVal]
  cases h : r.vals[i]? with
  | none => simp [floatLeaf]
  | some x => cases x <;> simp [floatLeaf, Value.eq]

theorem floatLeaf_rng (op : RangeOp) (k : Nat) (r : RowE) (i : Nat) :
    floatLeaf (some op) k (slotVal r i) = evaluate (.rng op (.col i) (.float k)) r.id r.vals := by
  simp only [evaluate, getWithId, slotVal]
  cases h : r.vals[i]? with
  | none => simp [floatLeaf]
  | some x => cases x <;> simp [floatLeaf, partialCmp]

theorem zipWith_map_and (rows : List RowE) (p q : RowE → Bool) :
    List.zipWith (· && ·) (rows.map p) (rows.map q) = rows.map (fun r => p r && q r) := by
  induction rows with
  | nil => rfl
  | cons r rs ih => simp [ih]

theorem zipWith_map_or (rows : List RowE) (p q : RowE → Bool) :
    List.zipWith (· || ·) (rows.map p) (rows.map q) = rows.map (fun r => p r || q r) := by
  induction rows with
  | nil => rfl
  | cons r rs ih => simp [ih]

theorem ite_some_eq {α : Type} (p : Prop) [Decidable p] (x y : α)
    (h : (if p then some x else none) = some y) : x = y := by
  split at h <;> simp_all

theorem vecFilter_eq (t : Table) (c : Cond) :
    ∀ bits, vecFilter t c = some bits → bits = t.rows.map (matchesRow c) := by
  induction c with
  | tt => intro bits h; simp [vecFilter] at h
  | eq col v =>
    intro bits h
    cases col with
    | id => simp [vecFilter] at h
    | col i =>
      cases v with
      | int k =>
        have := ite_some_eq _ _ _ h; subst this
        apply List.map_congr_left; intro r _
        simp only [matchesRow, intLeaf_eq]
      | float k =>
        have := ite_some_eq _ _ _ h; subst this
        apply List.map_congr_left; intro r _
        simp only [matchesRow, floatLeaf_eq]
      | null => simp [vecFilter] at h
      | str s => simp [vecFilter] at h
      | bool b => simp [vecFilter] at h
      | bytes b => simp [vecFilter] at h
      | json j tx => simp [vecFilter] at h
  | ne col v =>
    intro bits h
    cases col with
    | id => simp [vecFilter] at h
    | col i =>
      cases v with
      | int k =>
        have := ite_some_eq _ _ _ h; subst this
        apply List.map_congr_left; intro r _
        simp only [matchesRow, intLeaf_ne]
      | float k => simp [vecFilter] at h
      | null => simp [vecFilter] at h
      | str s => simp [vecFilter] at h
      | bool b => simp [vecFilter] at h
      | bytes b => simp [vecFilter] at h
      | json j tx => simp [vecFilter] at h
  | rng op col v =>
    intro bits h
    cases col with
    | id => simp [vecFilter] at h
    | col i =>
      cases v with
      | int k =>
        have := ite_some_eq _ _ _ h; subst this
        apply List.map_congr_left; intro r _
        simp only [matchesRow, intLeaf_rng]
      | float k =>
        cases op with
        | lt =>
          have := ite_some_eq _ _ _ h; subst this
          apply List.map_congr_left; intro r _
          simp only [matchesRow, floatLeaf_rng]
        | gt =>
          have := ite_some_eq _ _ _ h; subst this
          apply List.map_congr_left; intro r _
          simp only [matchesRow, floatLeaf_rng]
        | le => simp [vecFilter] at h
        | ge => simp [vecFilter] at h
      | null => cases op <;> simp [vecFilter] at h
      | str s => cases op <;> simp [vecFilter] at h
      | bool b => cases op <;> simp [vecFilter] at h
      | bytes b => cases op <;> simp [vecFilter] at h
      | json j tx => cases op <;> simp [vecFilter] at h
  | and a b iha ihb =>
    intro bits h
    simp only [vecFilter] at h
    cases ha : vecFilter t a with
    | none => simp [ha] at h
    | some x => cases hb : vecFilter t b with
      | none => simp [ha, hb] at h
      | some y =>
        simp only [ha, hb, Option.some.injEq] at h
        subst h
        rw [iha x ha, ihb y hb, zipWith_map_and]
        apply List.map_congr_left; intro r _
        simp only [matchesRow, evaluate]
        cases r.alive <;> simp
  | or a b iha ihb =>
    intro bits h
    simp only [vecFilter] at h
    cases ha : vecFilter t a with
    | none => simp [ha] at h
    | some x => cases hb : vecFilter t b with
      | none => simp [ha, hb] at h
      | some y =>
        simp only [ha, hb, Option.some.injEq] at h
        subst h
        rw [iha x ha, ihb y hb, zipWith_map_or]
        apply List.map_congr_left; intro r _
        simp only [matchesRow, evaluate]
        cases r.alive <;> simp

theorem selectedIds_map (rows : List RowE) (p : RowE → Bool) :
    selectedIds rows (rows.map p) = (rows.filter p).map (·.id) := by
  induction rows with
  | nil => rfl
  | cons r rs ih =>
    simp only [List.map_cons, selectedIds, List.filter_cons]
    split <;> simp [ih]

theorem columnarSelect_eq (t : Table) (hi : IdxInv t) (c : Cond) : columnarSelect t c = spec t c := by
  unfold columnarSelect
  split
  · cases h : vecFilter t c with
    | none => exact select_eq_spec t hi c
    | some bits =>
      simp only
      rw [vecFilter_eq t c bits h, selectedIds_map]
      rfl
  · exact select_eq_spec t hi c
end Neumann.Rel
