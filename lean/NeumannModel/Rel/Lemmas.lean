import NeumannModel.Rel.Model
/-
  C04 helper lemmas: FloatBits facts, hash / ordered key lemmas, sorting, the index invariant and the
  agreement of every read strategy with `spec` on a state that satisfies the invariant.
-/
namespace Neumann.Rel


theorem fKey_inj_of_nonzero (a b : Nat) (h : fKey a = fKey b) (hz : fMag a ≠ 0) : a = b := by
  unfold fKey at h; unfold fMag at hz
  split at h <;> split at h <;> split at hz <;> omega

theorem fKey_zero_iff (a : Nat) : fKey a = 0 ↔ fMag a = 0 := by
  unfold fKey fMag; split <;> omega

theorem eq_implies_same_hashKey (v w : Value) (h : Value.eq v w = true) : hashKey v = hashKey w := by
  cases v <;> cases w <;> simp_all [Value.eq, hashKey]
  case float.float a b =>
    simp only [fEq, Bool.and_eq_true, Bool.not_eq_true', decide_eq_true_eq] at h
    obtain ⟨⟨_, _⟩, hk⟩ := h
    by_cases ha : fMag a = 0
    · have hb : fMag b = 0 := (fKey_zero_iff b).1 (hk ▸ (fKey_zero_iff a).2 ha)
      simp [fIsZero, ha, hb]
    · have := fKey_inj_of_nonzero a b hk ha
      subst this; rfl

theorem icmp_lt (a b : Int) : icmp a b = .lt ↔ a < b := by unfold icmp; split <;> simp_all <;> split <;> simp_all


theorem cmp_agrees_with_orderedKey (v w : Value) (o : Ordering) (h : partialCmp v w = some o) :
    OKey.cmp (ordKey v) (ordKey w) = o := by
  cases v <;> cases w <;> simp_all [partialCmp, ordKey, OKey.cmp]
  case float.float a b =>
    unfold fCmp at h
    split at h
    · simp at h
    · rename_i hn
      simp only [Bool.or_eq_true, not_or, Bool.not_eq_true] at hn
      simp [hn.1, hn.2] at h ⊢
      exact h

/-! sorting -/
theorem mem_insertSorted (x y : Nat) (l : List Nat) : y ∈ insertSorted x l ↔ y = x ∨ y ∈ l := by
  induction l with
  | nil => simp [insertSorted]
  | cons z zs ih =>
    unfold insertSorted; split
    · simp
    · simp [ih]; constructor <;> (intro h; rcases h with h | h | h <;> simp_all)

theorem mem_sortIds (y : Nat) (l : List Nat) : y ∈ sortIds l ↔ y ∈ l := by
  induction l with
  | nil => simp [sortIds]
  | cons x xs ih => simp [sortIds, mem_insertSorted, ih]

def StrictAsc (l : List Nat) : Prop := l.Pairwise (· < ·)

theorem strictAsc_insertSorted (x : Nat) (l : List Nat) (h : StrictAsc l) (hx : x ∉ l) :
    StrictAsc (insertSorted x l) := by
  induction l with
  | nil => simp [insertSorted, StrictAsc]
  | cons z zs ih =>
    unfold StrictAsc at h ih ⊢
    rw [List.pairwise_cons] at h
    simp only [List.mem_cons, not_or] at hx
    unfold insertSorted; split
    · rw [List.pairwise_cons, List.pairwise_cons]
      refine ⟨?_, h⟩
      intro a ha
      rcases List.mem_cons.1 ha with rfl | ha
      · omega
      · have := h.1 a ha; omega
    · rw [List.pairwise_cons]
      refine ⟨?_, ih h.2 hx.2⟩
      intro a ha
      rcases (mem_insertSorted x a zs).1 ha with rfl | ha
      · omega
      · exact h.1 a ha

theorem strictAsc_sortIds (l : List Nat) (h : l.Nodup) : StrictAsc (sortIds l) := by
  induction l with
  | nil => simp [sortIds, StrictAsc]
  | cons x xs ih =>
    rw [List.nodup_cons] at h
    exact strictAsc_insertSorted x _ (ih h.2) (by rw [mem_sortIds]; exact h.1)

theorem strictAsc_ext (a b : List Nat) (ha : StrictAsc a) (hb : StrictAsc b) (h : ∀ x, x ∈ a ↔ x ∈ b) : a = b := by
  induction a generalizing b with
  | nil => cases b with
    | nil => rfl
    | cons y ys => exact absurd ((h y).2 (by simp)) (by simp)
  | cons x xs ih => cases b with
    | nil => exact absurd ((h x).1 (by simp)) (by simp)
    | cons y ys =>
      unfold StrictAsc at ha hb
      rw [List.pairwise_cons] at ha hb
      have hxy : x = y := by
        have h1 := (h x).1 (by simp)
        have h2 := (h y).2 (by simp)
        rcases List.mem_cons.1 h1 with h1 | h1
        · exact h1
        · rcases List.mem_cons.1 h2 with h2 | h2
          · exact h2.symm
          · have := hb.1 x h1; have := ha.1 y h2; omega
      subst hxy
      congr 1
      apply ih _ ha.2 hb.2
      intro z
      constructor
      · intro hz
        have := (h z).1 (List.mem_cons_of_mem _ hz)
        rcases List.mem_cons.1 this with rfl | h'
        · have := ha.1 z hz; omega
        · exact h'
      · intro hz
        have := (h z).2 (List.mem_cons_of_mem _ hz)
        rcases List.mem_cons.1 this with rfl | h'
        · have := hb.1 z hz; omega
        · exact h'

theorem sortIds_of_strictAsc (l : List Nat) (h : StrictAsc l) : sortIds l = l := by
  apply strictAsc_ext
  · exact strictAsc_sortIds l (by
      unfold StrictAsc at h
      exact h.imp (fun hab => by omega))
  · exact h
  · intro x; exact mem_sortIds x l

/-! ## invariants -/
def RowsWF (rows : List RowE) : Prop :=
  (rows.map (·.id)).Pairwise (· < ·) ∧ ∀ r ∈ rows, r.id ≤ rows.length

structure KInv {κ : Type} (key : Value → κ) (rows : List RowE) (c : ColRef) (ix : Idx κ) : Prop where
  nodup : (ix.map Prod.snd).Nodup
  sound : ∀ k i, (k, i) ∈ ix → ∃ r ∈ rows, r.id = i ∧ r.alive = true ∧ ∃ v, getWithId r.id r.vals c = some v ∧ key v = k
  complete : ∀ r ∈ rows, r.alive = true → ∀ v, getWithId r.id r.vals c = some v → (key v, r.id) ∈ ix

def IdxInv (t : Table) : Prop :=
  RowsWF t.rows ∧ (∀ c ix, (c, ix) ∈ t.hidx → KInv hashKey t.rows c ix) ∧
    (∀ c ix, (c, ix) ∈ t.oidx → KInv ordKey t.rows c ix)

theorem id_inj (rows : List RowE) (h : (rows.map (·.id)).Pairwise (· < ·)) :
    ∀ r ∈ rows, ∀ r' ∈ rows, r.id = r'.id → r = r' := by
  induction rows with
  | nil => simp
  | cons x xs ih =>
    rw [List.map_cons, List.pairwise_cons] at h
    intro r hr r' hr' he
    rcases List.mem_cons.1 hr with h1 | h1 <;> rcases List.mem_cons.1 hr' with h2 | h2
    · rw [h1, h2]
    · have := h.1 r'.id (List.mem_map.2 ⟨r', h2, rfl⟩); rw [h1] at he; omega
    · have := h.1 r.id (List.mem_map.2 ⟨r, h1, rfl⟩); rw [h2] at he; omega
    · exact ih h.2 r h1 r' h2 he

theorem assocGet_mem {β : Type} (c : ColRef) (l : List (ColRef × β)) (b : β) (h : assocGet c l = some b) : (c, b) ∈ l := by
  induction l with
  | nil => simp [assocGet] at h
  | cons p ps ih =>
    obtain ⟨c', b'⟩ := p
    unfold assocGet at h
    split at h
    · rename_i hc; simp at h; subst hc; subst h; simp
    · exact List.mem_cons_of_mem _ (ih h)

theorem spec_strictAsc (t : Table) (c : Cond) (h : RowsWF t.rows) : StrictAsc (spec t c) := by
  unfold spec StrictAsc
  exact h.1.sublist ((List.filter_sublist).map _)

theorem scanSelect_eq_spec (t : Table) (c : Cond) (h : RowsWF t.rows) : scanSelect t c = spec t c := by
  have : ((scanAll t).filter (fun r => evaluate c r.id r.vals)) = t.rows.filter (matchesRow c) := by
    unfold scanAll
    rw [List.filter_filter]
    apply List.filter_congr
    intro r _
    simp [matchesRow, Bool.and_comm]
  unfold scanSelect
  rw [this]
  exact sortIds_of_strictAsc _ (spec_strictAsc t c h)

theorem fetch_mem (t : Table) (ids : List Nat) (h : RowsWF t.rows) (r : RowE) :
    r ∈ fetch t ids ↔ r ∈ t.rows ∧ r.alive = true ∧ r.id ∈ ids := by
  unfold fetch
  rw [List.mem_filterMap]
  constructor
  · rintro ⟨i, hi, hf⟩
    have hm := List.mem_of_find?_eq_some hf
    have hp := List.find?_some hf
    simp only [Bool.and_eq_true, decide_eq_true_eq] at hp
    exact ⟨hm, hp.2, hp.1 ▸ hi⟩
  · rintro ⟨hm, ha, hi⟩
    refine ⟨r.id, hi, ?_⟩
    cases hf : t.rows.find? (fun r' => decide (r'.id = r.id) && r'.alive) with
    | none =>
      rw [List.find?_eq_none] at hf
      have := hf r hm
      simp [ha] at this
    | some r' =>
      have hm' := List.mem_of_find?_eq_some hf
      have hp := List.find?_some hf
      simp only [Bool.and_eq_true, decide_eq_true_eq] at hp
      rw [id_inj t.rows h.1 r' hm' r hm hp.1]

theorem fetch_ids_sublist (t : Table) (ids : List Nat) : ((fetch t ids).map (·.id)).Sublist ids := by
  induction ids with
  | nil => simp [fetch]
  | cons i is ih =>
    unfold fetch at ih ⊢
    rw [List.filterMap_cons]
    split
    · exact ih.cons _
    · rename_i r hf
      have hp := List.find?_some hf
      simp only [Bool.and_eq_true, decide_eq_true_eq] at hp
      rw [List.map_cons, hp.1]
      exact ih.cons_cons _

theorem length_insertSorted (x : Nat) (l : List Nat) : (insertSorted x l).length = l.length + 1 := by
  induction l with
  | nil => rfl
  | cons y ys ih => unfold insertSorted; split <;> simp [ih]

theorem length_sortIds (l : List Nat) : (sortIds l).length = l.length := by
  induction l with
  | nil => rfl
  | cons x xs ih => simp [sortIds, length_insertSorted, ih]

/-- the index path returns exactly the matching rows whenever the looked-up ids are duplicate-free and
    contain every matching live row -/
theorem selectViaIds_eq_spec (t : Table) (c : Cond) (ids : List Nat) (h : RowsWF t.rows) (hn : ids.Nodup)
    (hsup : ∀ r ∈ t.rows, r.alive = true → evaluate c r.id r.vals = true → r.id ∈ ids) :
    selectViaIds t c ids = spec t c := by
  unfold selectViaIds
  apply strictAsc_ext
  · apply strictAsc_sortIds
    exact (hn.sublist (fetch_ids_sublist t ids)).sublist ((List.filter_sublist).map _)
  · exact spec_strictAsc t c h
  · intro x
    rw [mem_sortIds]
    unfold spec
    simp only [List.mem_map, List.mem_filter, fetch_mem t ids h]
    constructor
    · rintro ⟨r, ⟨⟨hm, ha, _⟩, he⟩, rfl⟩
      exact ⟨r, ⟨hm, by simp [matchesRow, ha, he]⟩, rfl⟩
    · rintro ⟨r, ⟨hm, hp⟩, rfl⟩
      simp only [matchesRow, Bool.and_eq_true] at hp
      exact ⟨r, ⟨⟨hm, hp.1, hsup r hm hp.1 hp.2⟩, hp.2⟩, rfl⟩

theorem lookup_sound (t : Table) (hi : IdxInv t) (c : Cond) :
    ∀ ids, tryIndexLookup t c = some ids →
      ids.Nodup ∧ ∀ r ∈ t.rows, r.alive = true → evaluate c r.id r.vals = true → r.id ∈ ids := by
  induction c with
  | tt => intro ids h; simp [tryIndexLookup] at h
  | ne c v => intro ids h; simp [tryIndexLookup] at h
  | or a b _ _ => intro ids h; simp [tryIndexLookup] at h
  | eq col v =>
    intro ids h
    simp only [tryIndexLookup, Option.map_eq_some_iff] at h
    obtain ⟨ix, hix, rfl⟩ := h
    have k := hi.2.1 col ix (assocGet_mem col _ ix hix)
    refine ⟨?_, ?_⟩
    · unfold hashLookup
      exact k.nodup.sublist ((List.filter_sublist).map _)
    · intro r hr ha he
      simp only [evaluate] at he
      cases hg : getWithId r.id r.vals col with
      | none => simp [hg] at he
      | some x =>
        simp only [hg] at he
        have hk := eq_implies_same_hashKey x v he
        have := k.complete r hr ha x hg
        unfold hashLookup
        rw [List.mem_map]
        exact ⟨(hashKey x, r.id), List.mem_filter.2 ⟨this, by simp [hk]⟩, rfl⟩
  | rng op col v =>
    intro ids h
    simp only [tryIndexLookup, Option.map_eq_some_iff] at h
    obtain ⟨ix, hix, rfl⟩ := h
    have k := hi.2.2 col ix (assocGet_mem col _ ix hix)
    refine ⟨?_, ?_⟩
    · unfold rangeLookup
      exact k.nodup.sublist ((List.filter_sublist).map _)
    · intro r hr ha he
      simp only [evaluate] at he
      cases hg : getWithId r.id r.vals col with
      | none => simp [hg] at he
      | some x =>
        simp only [hg] at he
        cases hc : partialCmp x v with
        | none => simp [hc] at he
        | some o =>
          simp only [hc] at he
          have hk := cmp_agrees_with_orderedKey x v o hc
          have := k.complete r hr ha x hg
          unfold rangeLookup
          rw [List.mem_map]
          exact ⟨(ordKey x, r.id), List.mem_filter.2 ⟨this, by simp [hk, he]⟩, rfl⟩
  | and a b iha ihb =>
    intro ids h
    simp only [tryIndexLookup] at h
    cases ha : tryIndexLookup t a with
    | some ia =>
      simp only [ha, Option.some.injEq] at h
      subst h
      obtain ⟨hn, hs⟩ := iha ia ha
      refine ⟨hn, fun r hr hal he => hs r hr hal ?_⟩
      simp only [evaluate, Bool.and_eq_true] at he
      exact he.1
    | none =>
      simp only [ha] at h
      obtain ⟨hn, hs⟩ := ihb ids h
      refine ⟨hn, fun r hr hal he => hs r hr hal ?_⟩
      simp only [evaluate, Bool.and_eq_true] at he
      exact he.2

theorem select_eq_spec (t : Table) (hi : IdxInv t) (c : Cond) : select t c = spec t c := by
  unfold select
  cases h : tryIndexLookup t c with
  | none => exact scanSelect_eq_spec t c hi.1
  | some ids =>
    obtain ⟨hn, hs⟩ := lookup_sound t hi c ids h
    exact selectViaIds_eq_spec t c ids hi.1 hn hs
end Neumann.Rel
