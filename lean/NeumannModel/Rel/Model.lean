/-
  Relational model (C04): executable, import-free mirror of
    relational_engine/src/lib.rs   Value / Condition::evaluate / hash_key / OrderedKey /
                                   insert / tx_update / tx_delete / create_index / create_btree_index /
                                   try_index_lookup / select / select_with_limit / count / select_columnar
    relational_engine/src/cursor.rs  StreamingCursor (pages of select_with_limit)
    relational_engine/src/simd.rs + tensor_store/src/relational_slab.rs  (vectorised leaf filters + alive / null masks)

  Representation choices (all observable behaviour is kept):
    * floats are IEEE-754 binary64 bit patterns (`Nat`), strings are their UTF-8 bytes (Rust `String::cmp` is
      byte-wise), bytes are byte lists, ints are `Int`;
    * a table is the slab: a list of slots (id, alive, values) in insertion order, id = slot + 1;
    * a hash index / B-tree index is an association list of (key, row id) pairs; the hash bucket of a value
      is `hashKey v` (strings / bytes by content: `DefaultHasher` collisions only enlarge a bucket and every
      index hit is re-checked), the B-tree key is `ordKey v` = the `OrderedKey` equivalence class
      (`OrderedFloat`: all NaNs one lowest key, -0.0 and 0.0 one key);
    * results are row-id lists sorted ascending, as the engine sorts every result by id;
    * a JSON value (`serde_json::Value`, default features: numbers are u64 / negative i64 / finite f64, objects
      are `BTreeMap`s) is its tree together with its rendered text `to_string()`.  The rendering itself
      (number formatting, string escaping) is serde_json's and is not modelled: the harness supplies it.  The
      tree decides equality and the hash bucket, the text decides the order and the B-tree key -- exactly
      the split the engine makes.
-/
namespace Neumann.Rel

/-! ## FloatBits — IEEE-754 binary64 comparisons on the bit pattern -/

/-- magnitude bits (sign bit cleared); 2^63 = 9223372036854775808 -/
def fMag (b : Nat) : Nat := if 9223372036854775808 ≤ b then b - 9223372036854775808 else b
/-- NaN: exponent all ones and a non-zero mantissa, i.e. magnitude above +inf = 0x7FF0_0000_0000_0000 -/
def fIsNan (b : Nat) : Bool := decide (9218868437227405312 < fMag b)
def fIsZero (b : Nat) : Bool := decide (fMag b = 0)
/-- sign-magnitude key: the order of non-NaN floats is the order of these integers; both zeros ↦ 0 -/
def fKey (b : Nat) : Int :=
  if 9223372036854775808 ≤ b then - (((b - 9223372036854775808 : Nat)) : Int) else (b : Int)

def icmp (a b : Int) : Ordering := if a < b then .lt else if a = b then .eq else .gt

/-- `f64 == f64` -/
def fEq (a b : Nat) : Bool := !fIsNan a && !fIsNan b && decide (fKey a = fKey b)
/-- `f64::partial_cmp` -/
def fCmp (a b : Nat) : Option Ordering :=
  if fIsNan a || fIsNan b then none else some (icmp (fKey a) (fKey b))

/-- lexicographic order of byte strings (`String::cmp`, `Vec<u8>::cmp`) -/
def lexCmp : List Nat → List Nat → Ordering
  | [], [] => .eq
  | [], _ :: _ => .lt
  | _ :: _, [] => .gt
  | a :: as, b :: bs => if a < b then .lt else if b < a then .gt else lexCmp as bs

/-! ## JSON trees (`serde_json::Value`) -/

/-- `serde_json::Number` (`N::PosInt(u64)`, `N::NegInt(i64)` -- negative only --, `N::Float(f64)` -- finite only) -/
inductive JNum where
  | pos (n : Nat)
  | neg (i : Int)
  | flt (bits : Nat)
  deriving DecidableEq, Repr

/-- `serde_json::Value`.  Arrays and objects are spelled as cons cells so that the type is a plain inductive:
    `[x, y]` = `acons x (acons y anil)`, `{"a": x, "b": y}` = `ocons a x (ocons b y onil)` (a `BTreeMap`:
    ascending keys). -/
inductive Json where
  | null
  | bool (b : Bool)
  | num (n : JNum)
  | str (utf8 : List Nat)
  | anil
  | acons (head tail : Json)
  | onil
  | ocons (key : List Nat) (val rest : Json)
  deriving DecidableEq, Repr

/-- `impl PartialEq for N`: same kind and equal payload; floats with `f64 ==` -/
def JNum.eq : JNum → JNum → Bool
  | .pos a, .pos b => decide (a = b)
  | .neg a, .neg b => decide (a = b)
  | .flt a, .flt b => fEq a b
  | _, _ => false

/-- derived `PartialEq for serde_json::Value` (`Vec` / `BTreeMap` equality: same length, pairwise equal) -/
def Json.eq : Json → Json → Bool
  | .null, .null => true
  | .bool a, .bool b => decide (a = b)
  | .num a, .num b => JNum.eq a b
  | .str a, .str b => decide (a = b)
  | .anil, .anil => true
  | .acons a as, .acons b bs => Json.eq a b && Json.eq as bs
  | .onil, .onil => true
  | .ocons k v r, .ocons k' v' r' => decide (k = k') && Json.eq v v' && Json.eq r r'
  | _, _ => false

/-- the number arm of `json_with_positive_zeros`: `n.is_f64() && n.as_f64() == Some(0.0)` ↦ `0.0` -/
def JNum.posZero : JNum → JNum
  | .flt b => if fIsZero b then .flt 0 else .flt b
  | n => n

/-- `Value::json_with_positive_zeros`: every floating-point zero becomes `0.0`, recursively -/
def Json.posZeros : Json → Json
  | .num n => .num n.posZero
  | .acons h t => .acons h.posZeros t.posZeros
  | .ocons k v r => .ocons k v.posZeros r.posZeros
  | j => j

/-! ## Values -/

inductive Value where
  | null
  | int (i : Int)
  | float (bits : Nat)
  | str (utf8 : List Nat)
  | bool (b : Bool)
  | bytes (bs : List Nat)
  | json (j : Json) (text : List Nat)      -- the tree and `j.to_string()` as UTF-8 bytes
  deriving DecidableEq, Repr, Inhabited

/-- derived `PartialEq for Value` -/
def Value.eq : Value → Value → Bool
  | .null, .null => true
  | .int a, .int b => decide (a = b)
  | .float a, .float b => fEq a b
  | .str a, .str b => decide (a = b)
  | .bool a, .bool b => decide (a = b)
  | .bytes a, .bytes b => decide (a = b)
  | .json a _, .json b _ => Json.eq a b
  | _, _ => false

/-- `Value::partial_cmp_value` (no arm for Bool or Null; JSON: `a.to_string().cmp(&b.to_string())`) -/
def partialCmp : Value → Value → Option Ordering
  | .int a, .int b => some (icmp a b)
  | .float a, .float b => fCmp a b
  | .str a, .str b => some (lexCmp a b)
  | .bytes a, .bytes b => some (lexCmp a b)
  | .json _ a, .json _ b => some (lexCmp a b)
  | _, _ => none

/-- bucket of `Value::hash_key` (both float zeros share the bucket of +0.0).  JSON: the engine hashes the
    rendered text of `json_with_positive_zeros(v)`; the rendering is a function of the tree, so the bucket
    is modelled by the normalised tree (like strings: `DefaultHasher` collisions only enlarge a bucket) -/
inductive HKey where
  | null | i (n : Int) | f (bits : Nat) | s (utf8 : List Nat) | b (v : Bool) | y (bs : List Nat)
  | j (v : Json)
  deriving DecidableEq, Repr

def hashKey : Value → HKey
  | .null => .null
  | .int n => .i n
  | .float b => if fIsZero b then .f 0 else .f b
  | .str s => .s s
  | .bool v => .b v
  | .bytes b => .y b
  | .json v _ => .j v.posZeros

/-- the `hash_key` before 35b6d13b: a float's raw bit pattern -/
def hashKeyOld : Value → HKey
  | .null => .null
  | .int n => .i n
  | .float b => .f b
  | .str s => .s s
  | .bool v => .b v
  | .bytes b => .y b
  | .json v _ => .j v.posZeros

/-- the `hash_key` before f72f348f: a JSON value's rendered text as it is (`-0.0` and `0.0` render
    differently, so the un-normalised tree is the bucket) -/
def hashKeyJsonTextOld : Value → HKey
  | .json v _ => .j v
  | x => hashKey x

/-- `OrderedKey` up to its `Ord`-equality (what a `BTreeMap` distinguishes):
    `float none` = NaN (one lowest key), `float (some k)` = sign-magnitude key -/
inductive OKey where
  | null | bool (b : Bool) | int (i : Int) | float (k : Option Int) | str (s : List Nat) | bytes (s : List Nat)
  | json (text : List Nat)          -- `OrderedKey::Json(j.to_string())`
  deriving DecidableEq, Repr

def ordKey : Value → OKey
  | .null => .null
  | .bool b => .bool b
  | .int i => .int i
  | .float b => if fIsNan b then .float none else .float (some (fKey b))
  | .str s => .str s
  | .bytes s => .bytes s
  | .json _ t => .json t

def OKey.rank : OKey → Nat
  | .null => 0 | .bool _ => 1 | .int _ => 2 | .float _ => 3 | .str _ => 4 | .bytes _ => 5 | .json _ => 6

/-- derived `Ord for OrderedKey` with `OrderedFloat::cmp` -/
def OKey.cmp : OKey → OKey → Ordering
  | .null, .null => .eq
  | .bool a, .bool b => if a = b then .eq else if a = false then .lt else .gt
  | .int a, .int b => icmp a b
  | .float none, .float none => .eq
  | .float none, .float (some _) => .lt
  | .float (some _), .float none => .gt
  | .float (some a), .float (some b) => icmp a b
  | .str a, .str b => lexCmp a b
  | .bytes a, .bytes b => lexCmp a b
  | .json a, .json b => lexCmp a b
  | a, b => if a.rank < b.rank then .lt else .gt

/-! ## Rows and conditions -/

inductive ColRef where
  | id                 -- the `_id` pseudo-column
  | col (i : Nat)      -- i-th schema column; an index ≥ width is an unknown column name
  deriving DecidableEq, Repr

/-- `Row::get_with_id` -/
def getWithId (id : Nat) (vals : List Value) : ColRef → Option Value
  | .id => some (.int (id : Int))
  | .col i => vals[i]?

inductive RangeOp where | lt | le | gt | ge
  deriving DecidableEq, Repr

def RangeOp.holds : RangeOp → Ordering → Bool
  | .lt, .lt => true
  | .le, .lt => true | .le, .eq => true
  | .gt, .gt => true
  | .ge, .gt => true | .ge, .eq => true
  | _, _ => false

inductive Cond where
  | tt
  | eq (c : ColRef) (v : Value)
  | ne (c : ColRef) (v : Value)
  | rng (op : RangeOp) (c : ColRef) (v : Value)
  | and (a b : Cond)
  | or (a b : Cond)
  deriving Repr

/-- `Condition::evaluate` -/
def evaluate : Cond → Nat → List Value → Bool
  | .tt, _, _ => true
  | .eq c v, id, row => match getWithId id row c with
      | some x => Value.eq x v | none => false
  | .ne c v, id, row => match getWithId id row c with
      | some x => !Value.eq x v | none => true
  | .rng op c v, id, row => match getWithId id row c with
      | some x => (match partialCmp x v with | some o => op.holds o | none => false)
      | none => false
  | .and a b, id, row => evaluate a id row && evaluate b id row
  | .or a b, id, row => evaluate a id row || evaluate b id row

/-! ## Table state -/

inductive ColType where | int | float | str | bool | bytes | json
  deriving DecidableEq, Repr

structure RowE where
  id : Nat
  alive : Bool
  vals : List Value
  deriving Repr, DecidableEq

abbrev Idx (κ : Type) := List (κ × Nat)

structure Table where
  schema : List (ColType × Bool)            -- (type, nullable)
  rows : List RowE                          -- slab slots, id = position + 1
  hidx : List (ColRef × Idx HKey)           -- hash indexes
  oidx : List (ColRef × Idx OKey)           -- B-tree indexes
  deriving Repr, DecidableEq

instance {ε α : Type} [DecidableEq ε] [DecidableEq α] : DecidableEq (Except ε α) := fun a b =>
  match a, b with
  | .ok x, .ok y => if h : x = y then isTrue (by rw [h]) else isFalse (fun e => h (by cases e; rfl))
  | .error x, .error y => if h : x = y then isTrue (by rw [h]) else isFalse (fun e => h (by cases e; rfl))
  | .ok _, .error _ => isFalse (fun e => by cases e)
  | .error _, .ok _ => isFalse (fun e => by cases e)

def Table.empty (schema : List (ColType × Bool)) : Table := ⟨schema, [], [], []⟩

def assocGet {β : Type} (c : ColRef) : List (ColRef × β) → Option β
  | [] => none
  | (c', b) :: rest => if c' = c then some b else assocGet c rest

/-- `index_add` / `btree_index_add`: push the id into the key's list unless present -/
def idxAdd {κ : Type} [DecidableEq κ] (k : κ) (id : Nat) (ix : Idx κ) : Idx κ :=
  if (k, id) ∈ ix then ix else ix ++ [(k, id)]

/-- `index_remove` / `btree_index_remove`: retain the other ids of that key's list -/
def idxRemove {κ : Type} [DecidableEq κ] (k : κ) (id : Nat) (ix : Idx κ) : Idx κ :=
  ix.filter (fun p => !(decide (p.1 = k) && decide (p.2 = id)))

/-- index maintenance for one inserted / restored row -/
def idxAddRow {κ : Type} [DecidableEq κ] (key : Value → κ) (r : RowE) (c : ColRef) (ix : Idx κ) : Idx κ :=
  match getWithId r.id r.vals c with
  | some v => idxAdd (key v) r.id ix
  | none => ix

def idxRemoveRow {κ : Type} [DecidableEq κ] (key : Value → κ) (r : RowE) (c : ColRef) (ix : Idx κ) : Idx κ :=
  match getWithId r.id r.vals c with
  | some v => idxRemove (key v) r.id ix
  | none => ix

def mapIdx {κ : Type} (f : ColRef → Idx κ → Idx κ) (l : List (ColRef × Idx κ)) : List (ColRef × Idx κ) :=
  l.map (fun p => (p.1, f p.1 p.2))

inductive Err where
  | nullNotAllowed | typeMismatch | colNotFound | indexExists | indexNotFound
  deriving DecidableEq, Repr

/-- `Value::matches_type` -/
def typeOk : ColType → Value → Bool
  | _, .null => true
  | .int, .int _ => true
  | .float, .float _ => true
  | .str, .str _ => true
  | .bool, .bool _ => true
  | .bytes, .bytes _ => true
  | .json, .json _ _ => true
  | _, _ => false

/-- column-order validation of `insert` -/
def validateRow : List (ColType × Bool) → List Value → Option Err
  | [], _ => none
  | (_, nullable) :: cs, [] => if nullable then validateRow cs [] else some .nullNotAllowed
  | (ty, nullable) :: cs, v :: vs =>
      if v = .null then (if nullable then validateRow cs vs else some .nullNotAllowed)
      else if typeOk ty v then validateRow cs vs else some .typeMismatch

/-- `insert` → `tx_insert`: append a slot, add the row to every hash and B-tree index -/
def insert (t : Table) (vals : List Value) : Except Err (Table × Nat) :=
  -- the engine builds the slab row from the schema's column list (omitted column = NULL), so a stored row
  -- always has the schema's width; a value list of another width is not an insert
  if vals.length ≠ t.schema.length then .error .typeMismatch else
  match validateRow t.schema vals with
  | some e => .error e
  | none =>
    let r : RowE := ⟨t.rows.length + 1, true, vals⟩
    .ok ({ t with rows := t.rows ++ [r],
                  hidx := mapIdx (idxAddRow hashKey r) t.hidx,
                  oidx := mapIdx (idxAddRow ordKey r) t.oidx }, r.id)

def colExists (t : Table) : ColRef → Bool
  | .id => true
  | .col i => decide (i < t.schema.length)

/-- build an index from the live rows (`create_index`, `create_btree_index`) -/
def buildIdx {κ : Type} [DecidableEq κ] (key : Value → κ) (c : ColRef) (rows : List RowE) : Idx κ :=
  rows.foldl (fun ix r => if r.alive then idxAddRow key r c ix else ix) []

def createHashIndex (t : Table) (c : ColRef) : Except Err Table :=
  if !colExists t c then .error .colNotFound
  else match assocGet c t.hidx with
    | some _ => .error .indexExists
    | none => .ok { t with hidx := t.hidx ++ [(c, buildIdx hashKey c t.rows)] }

def createOrdIndex (t : Table) (c : ColRef) : Except Err Table :=
  if !colExists t c then .error .colNotFound
  else match assocGet c t.oidx with
    | some _ => .error .indexExists
    | none => .ok { t with oidx := t.oidx ++ [(c, buildIdx ordKey c t.rows)] }

def dropHashIndex (t : Table) (c : ColRef) : Except Err Table :=
  match assocGet c t.hidx with
  | none => .error .indexNotFound
  | some _ => .ok { t with hidx := t.hidx.filter (fun p => !decide (p.1 = c)) }

def dropOrdIndex (t : Table) (c : ColRef) : Except Err Table :=
  match assocGet c t.oidx with
  | none => .error .indexNotFound
  | some _ => .ok { t with oidx := t.oidx.filter (fun p => !decide (p.1 = c)) }

/-! ## The specification and the execution strategies -/

def matchesRow (c : Cond) (r : RowE) : Bool := r.alive && evaluate c r.id r.vals

/-- the rows of the table for which the condition is true, as ascending ids -/
def spec (t : Table) (c : Cond) : List Nat := (t.rows.filter (matchesRow c)).map (·.id)

def insertSorted (x : Nat) : List Nat → List Nat
  | [] => [x]
  | y :: ys => if x ≤ y then x :: y :: ys else y :: insertSorted x ys

/-- `rows.sort_by_key(|r| r.id)` -/
def sortIds : List Nat → List Nat
  | [] => []
  | x :: xs => insertSorted x (sortIds xs)

/-- `scan_all`: live slots in slot order -/
def scanAll (t : Table) : List RowE := t.rows.filter (·.alive)

/-- full scan path of `select` -/
def scanSelect (t : Table) (c : Cond) : List Nat :=
  sortIds (((scanAll t).filter (fun r => evaluate c r.id r.vals)).map (·.id))

/-- `index_lookup`: ids of the value's bucket -/
def hashLookup (ix : Idx HKey) (v : Value) : List Nat :=
  (ix.filter (fun p => decide (p.1 = hashKey v))).map (·.2)

/-- `btree_range_lookup`: ids of all keys in the half-open range -/
def rangeLookup (ix : Idx OKey) (op : RangeOp) (v : Value) : List Nat :=
  (ix.filter (fun p => op.holds (OKey.cmp p.1 (ordKey v)))).map (·.2)

/-- `try_index_lookup` -/
def tryIndexLookup (t : Table) : Cond → Option (List Nat)
  | .eq c v => (assocGet c t.hidx).map (fun ix => hashLookup ix v)
  | .rng op c v => (assocGet c t.oidx).map (fun ix => rangeLookup ix op v)
  | .and a b => match tryIndexLookup t a with
      | some ids => some ids
      | none => tryIndexLookup t b
  | _ => none

/-- `get_rows_by_indices`: the live slots among the given ids, in the given order -/
def fetch (t : Table) (ids : List Nat) : List RowE :=
  ids.filterMap (fun i => t.rows.find? (fun r => decide (r.id = i) && r.alive))

/-- index path of `select`: lookup → fetch → re-check → sort -/
def selectViaIds (t : Table) (c : Cond) (ids : List Nat) : List Nat :=
  sortIds (((fetch t ids).filter (fun r => evaluate c r.id r.vals)).map (·.id))

/-- `select` -/
def select (t : Table) (c : Cond) : List Nat :=
  match tryIndexLookup t c with
  | some ids => selectViaIds t c ids
  | none => scanSelect t c

/-- which path `select` takes (reported by the driver for coverage only) -/
def planOf (t : Table) : Cond → String
  | .eq c _ => if (assocGet c t.hidx).isSome then "hash" else "scan"
  | .rng _ c _ => if (assocGet c t.oidx).isSome then "btree" else "scan"
  | .and a b => if planOf t a = "scan" then planOf t b else planOf t a
  | _ => "scan"

/-- `select_with_limit`, scan path: collect the first offset+limit matches, sort, skip, take;
    index path: fetch, re-check, sort, skip, take -/
def selectLimit (t : Table) (c : Cond) (limit offset : Nat) : List Nat :=
  if limit = 0 then []
  else match tryIndexLookup t c with
    | some ids => ((selectViaIds t c ids).drop offset).take limit
    | none =>
      ((sortIds ((((scanAll t).filter (fun r => evaluate c r.id r.vals)).take (offset + limit)).map (·.id))).drop offset).take limit

/-- `count` -/
def count (t : Table) (c : Cond) : Nat :=
  match c with
  | .tt => (scanAll t).length
  | _ => match tryIndexLookup t c with
    | some ids => ((fetch t ids).filter (fun r => evaluate c r.id r.vals)).length
    | none => ((scanAll t).filter (fun r => evaluate c r.id r.vals)).length

/-- `StreamingCursor`: pages of `select_with_limit(batch, offset)` until an empty or short page -/
def pagesFrom (sel : Nat → Nat → List Nat) (batch : Nat) : Nat → Nat → List Nat
  | 0, _ => []
  | fuel + 1, off =>
    let p := sel batch off
    if p.isEmpty then []
    else if p.length < batch then p
    else p ++ pagesFrom sel batch fuel (off + p.length)

def cursorSelect (t : Table) (c : Cond) (batch : Nat) : List Nat :=
  pagesFrom (fun l o => selectLimit t c l o) batch ((t.rows.length) + 1) 0

/-! ### vectorised (columnar) filtering: one bit per slot -/

def intLeaf (op : Option RangeOp) (neg : Bool) (k : Int) : Value → Bool
  -- op = none: equality (negated when `neg`); op = some r: range comparison
  | .int x => match op with
      | none => if neg then decide (x ≠ k) else decide (x = k)
      | some r => r.holds (icmp x k)
  | _ => match op with
      | none => neg          -- a null slot is `!= k`, never `= k`
      | some _ => false

def floatLeaf (op : Option RangeOp) (k : Nat) : Value → Bool
  | .float x => match op with
      | none => fEq x k
      | some r => (match fCmp x k with | some o => r.holds o | none => false)
  | _ => false

def colType? (t : Table) (i : Nat) : Option ColType := (t.schema[i]?).map (·.1)

def slotVal (r : RowE) (i : Nat) : Value := (r.vals[i]?).getD .null

/-- `apply_slab_vectorized_filter`: `none` = unsupported shape (the engine falls back to `select`).
    Every leaf is masked by the alive bitmap and by the column's null bitmap. -/
def vecFilter (t : Table) : Cond → Option (List Bool)
  | .tt => none       -- `Condition::True => None`: no column to take the slot count / alive bitmap from
  | .eq (.col i) (.int k) => if colType? t i = some .int
      then some (t.rows.map (fun r => r.alive && intLeaf none false k (slotVal r i))) else none
  | .ne (.col i) (.int k) => if colType? t i = some .int
      then some (t.rows.map (fun r => r.alive && intLeaf none true k (slotVal r i))) else none
  | .rng op (.col i) (.int k) => if colType? t i = some .int
      then some (t.rows.map (fun r => r.alive && intLeaf (some op) false k (slotVal r i))) else none
  | .eq (.col i) (.float k) => if colType? t i = some .float
      then some (t.rows.map (fun r => r.alive && floatLeaf none k (slotVal r i))) else none
  | .rng .lt (.col i) (.float k) => if colType? t i = some .float
      then some (t.rows.map (fun r => r.alive && floatLeaf (some .lt) k (slotVal r i))) else none
  | .rng .gt (.col i) (.float k) => if colType? t i = some .float
      then some (t.rows.map (fun r => r.alive && floatLeaf (some .gt) k (slotVal r i))) else none
  | .and a b => match vecFilter t a, vecFilter t b with
      | some x, some y => some (List.zipWith (· && ·) x y)
      | _, _ => none
  | .or a b => match vecFilter t a, vecFilter t b with
      | some x, some y => some (List.zipWith (· || ·) x y)
      | _, _ => none
  | _ => none

def selectedIds : List RowE → List Bool → List Nat
  | r :: rs, b :: bs => if b then r.id :: selectedIds rs bs else selectedIds rs bs
  | _, _ => []

def hasFilterCol : Cond → Bool
  | .tt => false
  | .and a b => hasFilterCol a || hasFilterCol b
  | .or a b => hasFilterCol a || hasFilterCol b
  | _ => true

def filterColsKnown (t : Table) : Cond → Bool
  | .tt => true
  | .eq c _ => (match c with | .id => false | .col i => decide (i < t.schema.length))
  | .ne c _ => (match c with | .id => false | .col i => decide (i < t.schema.length))
  | .rng _ c _ => (match c with | .id => false | .col i => decide (i < t.schema.length))
  | .and a b => filterColsKnown t a && filterColsKnown t b
  | .or a b => filterColsKnown t a && filterColsKnown t b

/-- `select_columnar` with `prefer_columnar = true` -/
def columnarSelect (t : Table) (c : Cond) : List Nat :=
  if hasFilterCol c && filterColsKnown t c then
    match vecFilter t c with
    | some bits => selectedIds t.rows bits
    | none => select t c
  else select t c

def columnarPlan (t : Table) (c : Cond) : String :=
  if hasFilterCol c && filterColsKnown t c then
    (match vecFilter t c with | some _ => "vec" | none => planOf t c)
  else planOf t c

/-! ## update / delete over the selected set (`tx_update`, `tx_delete`: scan, then per matching row) -/

def setsGet (j : Nat) : List (Nat × Value) → Option Value
  | [] => none
  | (i, v) :: rest => if i = j then some v else setsGet j rest

def applySetsFrom (sets : List (Nat × Value)) : Nat → List Value → List Value
  | _, [] => []
  | j, v :: vs => (match setsGet j sets with | some nv => nv | none => v) :: applySetsFrom sets (j + 1) vs

def validateSets (schema : List (ColType × Bool)) : List (Nat × Value) → Option Err
  | [] => none
  | (i, v) :: rest => match schema[i]? with
      | none => some .colNotFound
      | some (ty, nullable) =>
        if !typeOk ty v then some .typeMismatch
        else if v = .null && !nullable then some .nullNotAllowed
        else validateSets schema rest

/-- index maintenance of one updated row: only columns named in the update are touched -/
def idxUpdateRow {κ : Type} [DecidableEq κ] (key : Value → κ) (sets : List (Nat × Value)) (r : RowE)
    (c : ColRef) (ix : Idx κ) : Idx κ :=
  match c with
  | .id => ix
  | .col j => match setsGet j sets with
    | none => ix
    | some nv => idxAdd (key nv) r.id (idxRemoveRow key r c ix)

def setRow (id : Nat) (vals : List Value) (rows : List RowE) : List RowE :=
  rows.map (fun r => if r.id = id then { r with vals := vals } else r)

def killRow (id : Nat) (rows : List RowE) : List RowE :=
  rows.map (fun r => if r.id = id then { r with alive := false } else r)

def updateOne (sets : List (Nat × Value)) (t : Table) (r : RowE) : Table :=
  { t with rows := setRow r.id (applySetsFrom sets 0 r.vals) t.rows,
           hidx := mapIdx (idxUpdateRow hashKey sets r) t.hidx,
           oidx := mapIdx (idxUpdateRow ordKey sets r) t.oidx }

def deleteOne (t : Table) (r : RowE) : Table :=
  { t with rows := killRow r.id t.rows,
           hidx := mapIdx (idxRemoveRow hashKey r) t.hidx,
           oidx := mapIdx (idxRemoveRow ordKey r) t.oidx }

/-- the rows captured by the scan of `tx_update` / `tx_delete` -/
def matching (t : Table) (c : Cond) : List RowE := t.rows.filter (matchesRow c)

def update (t : Table) (c : Cond) (sets : List (Nat × Value)) : Except Err (Table × Nat) :=
  match validateSets t.schema sets with
  | some e => .error e
  | none => .ok ((matching t c).foldl (updateOne sets) t, (matching t c).length)

def delete (t : Table) (c : Cond) : Table × Nat :=
  ((matching t c).foldl deleteOne t, (matching t c).length)

/-! ## `batch_insert`: validate every row first, then append them all -/

/-- the part of `insert` after validation: append a slot, add the row to every index -/
def insertRaw (t : Table) (vals : List Value) : Table × Nat :=
  let r : RowE := ⟨t.rows.length + 1, true, vals⟩
  ({ t with rows := t.rows ++ [r],
            hidx := mapIdx (idxAddRow hashKey r) t.hidx,
            oidx := mapIdx (idxAddRow ordKey r) t.oidx }, r.id)

/-- the validation pass of `batch_insert`: the first offending row (in order) decides the error -/
def validateBatch (schema : List (ColType × Bool)) : List (List Value) → Option Err
  | [] => none
  | vals :: rest =>
    if vals.length ≠ schema.length then some .typeMismatch
    else match validateRow schema vals with
      | some e => some e
      | none => validateBatch schema rest

def batchStep (acc : Table × List Nat) (vals : List Value) : Table × List Nat :=
  ((insertRaw acc.1 vals).1, acc.2 ++ [(insertRaw acc.1 vals).2])

def batchInsert (t : Table) (rows : List (List Value)) : Except Err (Table × List Nat) :=
  match validateBatch t.schema rows with
  | some e => .error e
  | none => .ok (rows.foldl batchStep (t, []))

/-! ## operation sequences (the reachable states) -/

inductive Op where
  | insert (vals : List Value)
  | update (c : Cond) (sets : List (Nat × Value))
  | delete (c : Cond)
  | createHash (c : ColRef)
  | createOrd (c : ColRef)
  | dropHash (c : ColRef)
  | dropOrd (c : ColRef)
  | batchInsert (rows : List (List Value))

/-- a failing operation leaves the table unchanged -/
def applyOp (t : Table) : Op → Table
  | .insert vals => match insert t vals with | .ok (t', _) => t' | .error _ => t
  | .update c sets => match update t c sets with | .ok (t', _) => t' | .error _ => t
  | .delete c => (delete t c).1
  | .createHash c => match createHashIndex t c with | .ok t' => t' | .error _ => t
  | .createOrd c => match createOrdIndex t c with | .ok t' => t' | .error _ => t
  | .dropHash c => match dropHashIndex t c with | .ok t' => t' | .error _ => t
  | .dropOrd c => match dropOrdIndex t c with | .ok t' => t' | .error _ => t
  | .batchInsert rows => match batchInsert t rows with | .ok (t', _) => t' | .error _ => t

def run (schema : List (ColType × Bool)) (ops : List Op) : Table :=
  ops.foldl applyOp (Table.empty schema)

/-! ## rows-level `select` (what the aggregates fold over) -/

def insertSortedRow (x : RowE) : List RowE → List RowE
  | [] => [x]
  | y :: ys => if x.id ≤ y.id then x :: y :: ys else y :: insertSortedRow x ys

/-- `rows.sort_by_key(|r| r.id)` on row records (stable) -/
def sortRows : List RowE → List RowE
  | [] => []
  | x :: xs => insertSortedRow x (sortRows xs)

/-- `select` / `select_with_options` returning the row records: index path (lookup, fetch, re-check, sort)
    or full scan (filter, sort) -/
def selectRows (t : Table) (c : Cond) : List RowE :=
  match tryIndexLookup t c with
  | some ids => sortRows ((fetch t ids).filter (fun r => evaluate c r.id r.vals))
  | none => sortRows ((scanAll t).filter (fun r => evaluate c r.id r.vals))

/-- the specification on row records: the live slots for which the condition is true, in slot order -/
def specRows (t : Table) (c : Cond) : List RowE := t.rows.filter (matchesRow c)

/-! ## aggregates: `count_column`, `sum` / `avg` (the addends), `min`, `max` -/

/-- `Row::get(column)` for the i-th schema column (`None` for an unknown column name and for `_id`) -/
def colVal (r : RowE) (i : Nat) : Option Value := r.vals[i]?

/-- `row.get(column).is_some_and(|v| !matches!(v, Value::Null))` -/
def nonNull (i : Nat) (r : RowE) : Bool :=
  match colVal r i with
  | some .null => false
  | some _ => true
  | none => false

/-- `count_column`: column check, unfiltered fast path, index path, scan path (none of them goes through
    `select`) -/
def countColumn (t : Table) (i : Nat) (c : Cond) : Except Err Nat :=
  if t.schema.length ≤ i then .error .colNotFound else
  match c with
  | .tt => .ok ((scanAll t).filter (nonNull i)).length
  | _ => match tryIndexLookup t c with
    | some ids => .ok ((fetch t ids).filter (fun r => evaluate c r.id r.vals && nonNull i r)).length
    | none => .ok ((scanAll t).filter (fun r => evaluate c r.id r.vals && nonNull i r)).length

/-- the numeric values `sum` / `avg` add up, in the order they are added (rows of `select` in id order);
    the f64 additions themselves are outside the model -/
def sumTerms (i : Nat) (rows : List RowE) : List Value :=
  rows.filterMap (fun r => match colVal r i with
    | some (.int k) => some (.int k)
    | some (.float b) => some (.float b)
    | _ => none)

/-- one step of the sequential `min` / `max` loop (`want` = `.lt` for min, `.gt` for max): NULL and a missing
    column are skipped, the first value is taken, a later value replaces the current one only when
    `partial_cmp_value` says so (incomparable values -- NaN, booleans -- never replace) -/
def extremeStep (want : Ordering) (i : Nat) (acc : Option Value) (r : RowE) : Option Value :=
  match colVal r i with
  | none => acc
  | some .null => acc
  | some x => match acc with
    | none => some x
    | some cur => (match partialCmp x cur with
        | some o => if o = want then some x else some cur
        | none => some cur)

def extremeOf (want : Ordering) (i : Nat) (rows : List RowE) : Option Value :=
  rows.foldl (extremeStep want i) none

/-- `sum` / `avg` / `min` / `max` (sequential path, fewer than `PARALLEL_THRESHOLD` = 1000 selected rows) all
    start from `self.select(table, condition)` -/
def aggSumTerms (t : Table) (i : Nat) (c : Cond) : List Value := sumTerms i (selectRows t c)
def aggMin (t : Table) (i : Nat) (c : Cond) : Option Value := extremeOf .lt i (selectRows t c)
def aggMax (t : Table) (i : Nat) (c : Cond) : Option Value := extremeOf .gt i (selectRows t c)

/-! ## `select_iter`, `StreamingCursor::with_max_rows`, the router's OFFSET / LIMIT -/

/-- `select_iter(CursorOptions { limit, offset })` -/
def selectIter (t : Table) (c : Cond) (limit : Option Nat) (offset : Nat) : List Nat :=
  match limit with
  | some l => selectLimit t c l offset
  | none =>
    if 0 < offset then
      (if (select t c).length ≤ offset then [] else (select t c).drop offset)
    else select t c

/-- `StreamingCursor` with an optional `max_rows`: every page asks for
    `min(max_rows - rows_yielded, batch_size)` rows at `current_offset` -/
def pagesMax (sel : Nat → Nat → List Nat) (batch : Nat) (max : Option Nat) : Nat → Nat → Nat → List Nat
  | 0, _, _ => []
  | fuel + 1, off, yielded =>
    let fetch : Option Nat := match max with
      | some m => if m - yielded = 0 then none else some (min (m - yielded) batch)
      | none => some batch
    match fetch with
    | none => []
    | some n =>
      let p := sel n off
      if p.isEmpty then []
      else if p.length < n then p
      else p ++ pagesMax sel batch max fuel (off + p.length) (yielded + p.length)

def cursorSelectMax (t : Table) (c : Cond) (batch : Nat) (max : Option Nat) : List Nat :=
  pagesMax (fun l o => selectLimit t c l o) batch max (t.rows.length + 1) 0 0

/-- `QueryRouter::exec_select` (parsed text): `select_columnar(prefer_columnar)` then OFFSET then LIMIT -/
def routerSelect (t : Table) (c : Cond) (limit offset : Option Nat) : List Nat :=
  let rows := columnarSelect t c
  let rows := match offset with
    | some o => if o < rows.length then rows.drop o else []
    | none => rows
  match limit with
  | some l => rows.take l
  | none => rows

/-- `QueryRouter::execute_select` (legacy text): `select` then `truncate(limit)` -/
def routerSelectLegacy (t : Table) (c : Cond) (limit : Option Nat) : List Nat :=
  match limit with
  | some l => (select t c).take l
  | none => select t c

/-! ## `max_condition_depth`: the engine evaluates conditions with `evaluate_with_depth` -/

def condDepth : Cond → Nat
  | .and a b => 1 + max (condDepth a) (condDepth b)
  | .or a b => 1 + max (condDepth a) (condDepth b)
  | _ => 0

/-- `Condition::evaluate_with_depth(row, depth, max_depth)`: `ConditionTooDeep` (`.error ()`) as soon as a
    node deeper than `max_depth` is reached; `&&` / `||` short-circuit, so an unreached deep node is no error -/
def evalDepth (mx : Nat) : Cond → Nat → Nat → List Value → Except Unit Bool
  | .and a b, d, id, row =>
    if mx < d then .error () else
    match evalDepth mx a (d + 1) id row with
    | .error e => .error e
    | .ok false => .ok false
    | .ok true => evalDepth mx b (d + 1) id row
  | .or a b, d, id, row =>
    if mx < d then .error () else
    match evalDepth mx a (d + 1) id row with
    | .error e => .error e
    | .ok true => .ok true
    | .ok false => evalDepth mx b (d + 1) id row
  | .tt, d, _, _ => if mx < d then .error () else .ok true
  | .eq c v, d, id, row => if mx < d then .error () else .ok (evaluate (.eq c v) id row)
  | .ne c v, d, id, row => if mx < d then .error () else .ok (evaluate (.ne c v) id row)
  | .rng op c v, d, id, row => if mx < d then .error () else .ok (evaluate (.rng op c v) id row)

/-- `iter.filter_map(evaluate_with_depth ...).collect::<Result<Vec<_>>>()`: the first error aborts -/
def filterE (mx : Nat) (c : Cond) : List RowE → Except Unit (List RowE)
  | [] => .ok []
  | r :: rs => match evalDepth mx c 0 r.id r.vals with
    | .error e => .error e
    | .ok b => (match filterE mx c rs with
        | .error e => .error e
        | .ok l => .ok (if b then r :: l else l))

/-- the early-terminating scan loop of `select_with_limit`: rows after the `need`-th match are never
    evaluated (so they cannot raise `ConditionTooDeep`) -/
def scanLimitE (mx : Nat) (c : Cond) : List RowE → Nat → Except Unit (List RowE)
  | [], _ => .ok []
  | r :: rs, need => match evalDepth mx c 0 r.id r.vals with
    | .error e => .error e
    | .ok true =>
      if need ≤ 1 then .ok [r]
      else (match scanLimitE mx c rs (need - 1) with
        | .error e => .error e
        | .ok l => .ok (r :: l))
    | .ok false => scanLimitE mx c rs need

def mapE {α β : Type} (f : α → β) : Except Unit α → Except Unit β
  | .ok a => .ok (f a)
  | .error e => .error e

def selectE (mx : Nat) (t : Table) (c : Cond) : Except Unit (List Nat) :=
  match tryIndexLookup t c with
  | some ids => mapE (fun l => sortIds (l.map (·.id))) (filterE mx c (fetch t ids))
  | none => mapE (fun l => sortIds (l.map (·.id))) (filterE mx c (scanAll t))

def countE (mx : Nat) (t : Table) (c : Cond) : Except Unit Nat :=
  match c with
  | .tt => .ok (scanAll t).length
  | _ => match tryIndexLookup t c with
    | some ids => mapE List.length (filterE mx c (fetch t ids))
    | none => mapE List.length (filterE mx c (scanAll t))

def selectLimitE (mx : Nat) (t : Table) (c : Cond) (limit offset : Nat) : Except Unit (List Nat) :=
  if limit = 0 then .ok []
  else match tryIndexLookup t c with
    | some ids => mapE (fun l => ((sortIds (l.map (·.id))).drop offset).take limit) (filterE mx c (fetch t ids))
    | none => mapE (fun l => ((sortIds (l.map (·.id))).drop offset).take limit)
        (scanLimitE mx c (scanAll t) (offset + limit))

/-- the vectorised path never looks at the depth -/
def columnarE (mx : Nat) (t : Table) (c : Cond) : Except Unit (List Nat) :=
  if hasFilterCol c && filterColsKnown t c then
    match vecFilter t c with
    | some bits => .ok (selectedIds t.rows bits)
    | none => selectE mx t c
  else selectE mx t c

/-- `tx_update` / `tx_delete` collect the matching rows with `evaluate_with_depth` before touching anything -/
def deleteE (mx : Nat) (t : Table) (c : Cond) : Except Unit (Table × Nat) :=
  match filterE mx c (scanAll t) with
  | .error e => .error e
  | .ok l => .ok (l.foldl deleteOne t, l.length)

def updateE (mx : Nat) (t : Table) (c : Cond) (sets : List (Nat × Value)) :
    Except Unit (Except Err (Table × Nat)) :=
  match validateSets t.schema sets with
  | some e => .ok (.error e)
  | none => match filterE mx c (scanAll t) with
    | .error e => .error e
    | .ok l => .ok (.ok (l.foldl (updateOne sets) t, l.length))

/-- index DDL (the operations that must only change speed) -/
def Op.isIndexOp : Op → Bool
  | .createHash _ => true
  | .createOrd _ => true
  | .dropHash _ => true
  | .dropOrd _ => true
  | _ => false

/-! ## the defective variants found on the real engine, kept for the `_witness` theorems only -/

/-- `select_with_limit` index path as written: truncates the raw index ids to offset+limit
    *before* fetching, re-checking and sorting -/
def selectLimitTruncFirst (t : Table) (c : Cond) (limit offset : Nat) : List Nat :=
  if limit = 0 then []
  else match tryIndexLookup t c with
    | some ids => ((selectViaIds t c (ids.take (offset + limit))).drop offset).take limit
    | none => selectLimit t c limit offset

/-- the SIMD int leaf as written: compares the stored slot word (0 for a NULL inserted) and ignores
    the null bitmap -/
def intLeafNoNullMask (op : Option RangeOp) (neg : Bool) (k : Int) (v : Value) : Bool :=
  intLeaf op neg k (match v with | .null => .int 0 | x => x)

/-- `select` on `c = v` through a hash index built over `rows` and probed with the bucket function `key`
    (lookup, fetch, re-check, sort) -- the index path of `select` with the bucket function as a parameter -/
def selectHashWith (key : Value → HKey) (rows : List RowE) (c : ColRef) (v : Value) : List Nat :=
  let ids := ((buildIdx key c rows).filter (fun p => decide (p.1 = key v))).map (·.2)
  selectViaIds ⟨[], rows, [], []⟩ (.eq c v) ids

end Neumann.Rel
