import NeumannModel.Rel.Extend
import NeumannModel.Rel.VecModel
/-
  C04 helper lemmas, third part: stored values are well typed in every reachable state, and the word-level
  vectorised filter (4-lane visiting order, 64-bit words, null / alive masks, word-wise and / or, selected
  indices, bounds- and alive-checked fetch) computes exactly the per-slot filter of `Model.lean` -- whatever the
  unspecified storage (words of NULL slots, padding bits of the raw bit vectors) holds.
-/
namespace Neumann.Rel

/-! ## well-typed rows -/

def TypedRows (t : Table) : Prop :=
  ∀ r ∈ t.rows, ∀ (j : Nat) (ty : ColType) (nl : Bool) (v : Value),
    t.schema[j]? = some (ty, nl) → r.vals[j]? = some v → typeOk ty v = true

theorem typeOk_null (ty : ColType) : typeOk ty .null = true := by cases ty <;> rfl

theorem validateRow_typed : ∀ (schema : List (ColType × Bool)) (vals : List Value),
    validateRow schema vals = none →
    ∀ (j : Nat) (ty : ColType) (nl : Bool) (v : Value),
      schema[j]? = some (ty, nl) → vals[j]? = some v → typeOk ty v = true := by
  intro schema
  induction schema with
  | nil => intro vals _ j ty nl v h; simp at h
  | cons cd cs ih =>
    obtain ⟨cty, cnl⟩ := cd
    intro vals hv j ty nl v hs hg
    cases vals with
    | nil => simp at hg
    | cons x xs =>
      unfold validateRow at hv
      cases j with
      | zero =>
        simp only [List.getElem?_cons_zero, Option.some.injEq, Prod.mk.injEq] at hs hg
        obtain ⟨rfl, rfl⟩ := hs
        subst hg
        split at hv
        · rename_i hn; rw [hn]; exact typeOk_null _
        · split at hv
          · rename_i ht; exact ht
          · cases hv
      | succ j =>
        simp only [List.getElem?_cons_succ] at hs hg
        split at hv
        · split at hv
          · exact ih xs hv j ty nl v hs hg
          · cases hv
        · split at hv
          · exact ih xs hv j ty nl v hs hg
          · cases hv

theorem validateSets_typed (schema : List (ColType × Bool)) : ∀ (sets : List (Nat × Value)),
    validateSets schema sets = none → ∀ j nv, setsGet j sets = some nv →
      ∃ ty nl, schema[j]? = some (ty, nl) ∧ typeOk ty nv = true := by
  intro sets
  induction sets with
  | nil => intro _ j nv h; simp [setsGet] at h
  | cons p ps ih =>
    obtain ⟨i, v⟩ := p
    intro hv j nv hg
    unfold validateSets at hv
    cases hs : schema[i]? with
    | none => simp [hs] at hv
    | some tn =>
      obtain ⟨ty, nullable⟩ := tn
      simp only [hs] at hv
      split at hv
      · cases hv
      · rename_i hto
        split at hv
        · cases hv
        · unfold setsGet at hg
          split at hg
          · rename_i e; subst e
            simp only [Option.some.injEq] at hg; subst hg
            exact ⟨ty, nullable, hs, by simpa using hto⟩
          · exact ih hv j nv hg

theorem insertOp_typed (t : Table) (vals : List Value) (h : TypedRows t) : TypedRows (applyOp t (.insert vals)) := by
  simp only [applyOp]
  unfold insert
  by_cases hl : vals.length ≠ t.schema.length
  · rw [if_pos hl]; exact h
  · rw [if_neg hl]
    cases hv : validateRow t.schema vals with
    | some e => exact h
    | none =>
      simp only
      unfold TypedRows
      intro r hr j ty nl v hs hg
      simp only [List.mem_append, List.mem_singleton] at hr
      rcases hr with hr | hr
      · exact h r hr j ty nl v hs hg
      · subst hr
        exact validateRow_typed t.schema vals hv j ty nl v hs hg

theorem insertsFold_typed : ∀ (rows : List (List Value)) (t : Table), TypedRows t →
    TypedRows (rows.foldl (fun t v => applyOp t (.insert v)) t) := by
  intro rows
  induction rows with
  | nil => intro t h; exact h
  | cons v vs ih => intro t h; rw [List.foldl_cons]; exact ih _ (insertOp_typed t v h)

theorem update_schema (t : Table) (c : Cond) (sets : List (Nat × Value)) (t' : Table) (n : Nat)
    (h : update t c sets = .ok (t', n)) : t'.schema = t.schema := by
  unfold update at h
  split at h
  · cases h
  · simp only [Except.ok.injEq, Prod.mk.injEq] at h
    rw [← h.1, updateFold_schema]

theorem applyOp_typed (t : Table) (op : Op) (hi : IdxInv t) (h : TypedRows t) : TypedRows (applyOp t op) := by
  cases op with
  | insert vals => exact insertOp_typed t vals h
  | batchInsert rows =>
    simp only [applyOp]
    cases hb : batchInsert t rows with
    | error e => exact h
    | ok p =>
      obtain ⟨t', ids⟩ := p
      simp only
      rw [batchInsert_eq_inserts t rows t' ids hb]
      exact insertsFold_typed rows t h
  | update c sets =>
    simp only [applyOp]
    cases hu : update t c sets with
    | error e => exact h
    | ok p =>
      obtain ⟨t', n⟩ := p
      simp only
      have hrows := update_rows_eq t c sets t' n hi.1 hu
      have hsch := update_schema t c sets t' n hu
      have hvs : validateSets t.schema sets = none := by
        unfold update at hu
        cases hv : validateSets t.schema sets with
        | some e => simp [hv] at hu
        | none => rfl
      unfold TypedRows
      intro r hr j ty nl v hs hg
      rw [hsch] at hs
      rw [hrows] at hr
      obtain ⟨x, hx, rfl⟩ := List.mem_map.1 hr
      split at hg
      · simp only [applySetsFrom_get, Nat.zero_add] at hg
        cases hxv : x.vals[j]? with
        | none => simp [hxv] at hg
        | some old =>
          simp only [hxv, Option.map_some, Option.some.injEq] at hg
          cases hsg : setsGet j sets with
          | none =>
            simp only [hsg, Option.getD_none] at hg
            subst hg
            exact h x hx j ty nl old hs hxv
          | some nv =>
            simp only [hsg, Option.getD_some] at hg
            subst hg
            obtain ⟨ty', nl', hs', hok⟩ := validateSets_typed t.schema sets hvs j nv hsg
            rw [hs] at hs'
            simp only [Option.some.injEq, Prod.mk.injEq] at hs'
            rw [hs'.1]; exact hok
      · exact h x hx j ty nl v hs hg
  | delete c =>
    simp only [applyOp]
    have hrows := delete_rows_eq t c hi.1
    have hsch : (delete t c).1.schema = t.schema := by unfold delete; exact deleteFold_schema _ t
    unfold TypedRows
    intro r hr j ty nl v hs hg
    rw [hsch] at hs
    rw [hrows] at hr
    obtain ⟨x, hx, rfl⟩ := List.mem_map.1 hr
    have hvals : (if matchesRow c x then { x with alive := false } else x).vals = x.vals := by split <;> rfl
    rw [hvals] at hg
    exact h x hx j ty nl v hs hg
  | createHash col =>
    unfold TypedRows
    intro r hr j ty nl v hs hg
    rw [indexOp_rows t col _ (Or.inl rfl)] at hr
    rw [indexOp_schema t col _ (Or.inl rfl)] at hs
    exact h r hr j ty nl v hs hg
  | createOrd col =>
    unfold TypedRows
    intro r hr j ty nl v hs hg
    rw [indexOp_rows t col _ (Or.inr (Or.inl rfl))] at hr
    rw [indexOp_schema t col _ (Or.inr (Or.inl rfl))] at hs
    exact h r hr j ty nl v hs hg
  | dropHash col =>
    unfold TypedRows
    intro r hr j ty nl v hs hg
    rw [indexOp_rows t col _ (Or.inr (Or.inr (Or.inl rfl)))] at hr
    rw [indexOp_schema t col _ (Or.inr (Or.inr (Or.inl rfl)))] at hs
    exact h r hr j ty nl v hs hg
  | dropOrd col =>
    unfold TypedRows
    intro r hr j ty nl v hs hg
    rw [indexOp_rows t col _ (Or.inr (Or.inr (Or.inr rfl)))] at hr
    rw [indexOp_schema t col _ (Or.inr (Or.inr (Or.inr rfl)))] at hs
    exact h r hr j ty nl v hs hg

theorem typed_empty (schema : List (ColType × Bool)) : TypedRows (Table.empty schema) := by
  unfold TypedRows
  intro r hr
  simp [Table.empty] at hr

theorem run_typed (schema : List (ColType × Bool)) (ops : List Op) : TypedRows (run schema ops) := by
  unfold run
  suffices ∀ t, IdxInv t → TypedRows t → TypedRows (ops.foldl applyOp t) from
    this _ (idxInv_empty schema) (typed_empty schema)
  induction ops with
  | nil => intro t _ h; exact h
  | cons op ops ih =>
    intro t hi h
    exact ih _ (applyOp_preserves t op hi) (applyOp_typed t op hi h)

/-- a slot of a typed column holds NULL or a value of the column's type -/
theorem typed_int_slot (t : Table) (ht : TypedRows t) (i : Nat) (hc : colType? t i = some .int)
    (r : RowE) (hr : r ∈ t.rows) : slotVal r i = .null ∨ ∃ k, slotVal r i = .int k := by
  unfold colType? at hc
  cases hs : t.schema[i]? with
  | none => simp [hs] at hc
  | some tn =>
    obtain ⟨ty, nl⟩ := tn
    simp only [hs, Option.map_some, Option.some.injEq] at hc
    subst hc
    unfold slotVal
    cases hv : r.vals[i]? with
    | none => exact Or.inl rfl
    | some v =>
      have := ht r hr i .int nl v hs hv
      cases v <;> simp_all [typeOk]

theorem typed_float_slot (t : Table) (ht : TypedRows t) (i : Nat) (hc : colType? t i = some .float)
    (r : RowE) (hr : r ∈ t.rows) : slotVal r i = .null ∨ ∃ k, slotVal r i = .float k := by
  unfold colType? at hc
  cases hs : t.schema[i]? with
  | none => simp [hs] at hc
  | some tn =>
    obtain ⟨ty, nl⟩ := tn
    simp only [hs, Option.map_some, Option.some.injEq] at hc
    subst hc
    unfold slotVal
    cases hv : r.vals[i]? with
    | none => exact Or.inl rfl
    | some v =>
      have := ht r hr i .float nl v hs hv
      cases v <;> simp_all [typeOk]

/-! ## the SIMD visiting order and the filter bitmap -/

theorem mem_simdOrder (n p : Nat) : p ∈ simdOrder n ↔ p < n := by
  unfold simdOrder
  simp only [List.mem_append, List.mem_flatMap, List.mem_range, List.mem_range'_1, List.mem_cons,
    List.not_mem_nil, or_false]
  constructor
  · rintro (⟨c, hc, h⟩ | ⟨h1, h2⟩)
    · omega
    · omega
  · intro h
    by_cases hp : p < 4 * (n / 4)
    · left
      refine ⟨p / 4, by omega, by omega⟩
    · right
      omega

theorem simdFold_bit (pred : Nat → Bool) : ∀ (L : List Nat) (b : Bitmap) (p : Nat),
    (L.foldl (fun b i => if pred i then b.set i else b) b).bit p = (b.bit p || (decide (p ∈ L) && pred p)) ∧
    (L.foldl (fun b i => if pred i then b.set i else b) b).nwords = b.nwords := by
  intro L
  induction L with
  | nil => intro b p; simp
  | cons i L ih =>
    intro b p
    rw [List.foldl_cons]
    obtain ⟨h1, h2⟩ := ih (if pred i then b.set i else b) p
    refine ⟨?_, ?_⟩
    · rw [h1]
      by_cases hpi : pred i = true
      · by_cases hpe : p = i
        · subst hpe; simp [hpi, Bitmap.set]
        · simp [hpi, Bitmap.set, hpe]
      · by_cases hpe : p = i
        · subst hpe; simp [hpi]
        · simp [hpi, hpe]
    · rw [h2]; split <;> rfl

theorem simdFilter_bit (n : Nat) (pred : Nat → Bool) (p : Nat) :
    (simdFilter n pred).bit p = (decide (p < n) && pred p) ∧ (simdFilter n pred).nwords = bitmapWords n := by
  unfold simdFilter
  obtain ⟨h1, h2⟩ := simdFold_bit pred (simdOrder n) (Bitmap.zeros n) p
  refine ⟨?_, by rw [h2]; rfl⟩
  rw [h1]
  simp only [Bitmap.zeros, Bool.false_or]
  congr 1
  exact decide_eq_decide.2 (mem_simdOrder n p)

/-! ## word-level bitmaps agree with per-slot bit lists -/

def Agrees (bm : Bitmap) (bits : List Bool) : Prop :=
  bm.nwords = bitmapWords bits.length ∧ ∀ p, p < bits.length → bm.bit p = (bits[p]?).getD false

theorem word_in_range (n p : Nat) (h : p < n) : p / 64 < bitmapWords n := by
  unfold bitmapWords; omega

theorem leafW_agrees (t : Table) (u : Unspec) (i : Nat) (pred : Nat → Bool) (nim : Bool) (slotf : RowE → Bool)
    (hslot : ∀ p r, t.rows[p]? = some r →
      (if nim then pred p || decide (slotVal r i = .null) else pred p && !decide (slotVal r i = .null)) = slotf r) :
    Agrees (leafW t u i pred nim) (t.rows.map (fun r => r.alive && slotf r)) := by
  unfold leafW
  by_cases h0 : t.rows.length = 0
  · rw [if_pos h0]
    have : t.rows = [] := List.eq_nil_of_length_eq_zero h0
    rw [this]
    exact ⟨rfl, fun p hp => by simp at hp⟩
  · rw [if_neg h0]
    refine ⟨?_, ?_⟩
    · simp only [applyAliveMask, applyNullMask, (simdFilter_bit _ _ 0).2, List.length_map]
    · intro p hp
      rw [List.length_map] at hp
      have hw := word_in_range _ _ hp
      obtain ⟨r, hr⟩ : ∃ r, t.rows[p]? = some r := ⟨t.rows[p], List.getElem?_eq_getElem hp⟩
      simp only [applyAliveMask, applyNullMask, aliveWords, nullWords, rawWords, List.length_map, hw, if_true, hp,
        (simdFilter_bit _ _ p).1, decide_true, Bool.true_and, List.getElem?_map, hr, Option.map_some,
        Option.getD_some]
      rw [← hslot p r hr]
      cases nim <;> simp [Bool.and_comm]

theorem agrees_inter (a b : Bitmap) (x y : List Bool) (ha : Agrees a x) (hb : Agrees b y) (hl : x.length = y.length) :
    Agrees (a.inter b) (List.zipWith (· && ·) x y) := by
  have hlen : (List.zipWith (· && ·) x y).length = x.length := by simp [hl]
  refine ⟨by rw [hlen]; exact ha.1, ?_⟩
  intro p hp
  rw [hlen] at hp
  have hw := word_in_range _ _ hp
  have hmin : p / 64 < min a.nwords b.nwords := by rw [ha.1, hb.1, ← hl]; simpa using hw
  simp only [Bitmap.inter, hmin, if_true, ha.2 p hp, hb.2 p (hl ▸ hp), List.getElem?_zipWith]
  have hx : x[p]? = some x[p] := List.getElem?_eq_getElem hp
  have hy : y[p]? = some (y[p]'(hl ▸ hp)) := List.getElem?_eq_getElem (hl ▸ hp)
  simp [hx, hy]

theorem agrees_union (a b : Bitmap) (x y : List Bool) (ha : Agrees a x) (hb : Agrees b y) (hl : x.length = y.length) :
    Agrees (a.union b) (List.zipWith (· || ·) x y) := by
  have hlen : (List.zipWith (· || ·) x y).length = x.length := by simp [hl]
  refine ⟨by rw [hlen]; exact ha.1, ?_⟩
  intro p hp
  rw [hlen] at hp
  have hw := word_in_range _ _ hp
  have hmin : p / 64 < min a.nwords b.nwords := by rw [ha.1, hb.1, ← hl]; simpa using hw
  simp only [Bitmap.union, hmin, if_true, ha.2 p hp, hb.2 p (hl ▸ hp), List.getElem?_zipWith]
  have hx : x[p]? = some x[p] := List.getElem?_eq_getElem hp
  have hy : y[p]? = some (y[p]'(hl ▸ hp)) := List.getElem?_eq_getElem (hl ▸ hp)
  simp [hx, hy]

theorem int_hslot (t : Table) (ht : TypedRows t) (i : Nat) (hc : colType? t i = some .int) (junk : Nat → Int)
    (op : Option RangeOp) (neg : Bool) (k : Int) (nim : Bool)
    (hn : nim = (match op with | none => neg | some _ => false)) :
    ∀ p r, t.rows[p]? = some r →
      (if nim then intPred op neg k (rawInt t i junk p) || decide (slotVal r i = .null)
       else intPred op neg k (rawInt t i junk p) && !decide (slotVal r i = .null)) = intLeaf op neg k (slotVal r i) := by
  intro p r hr
  have hmem : r ∈ t.rows := List.mem_of_getElem? hr
  rcases typed_int_slot t ht i hc r hmem with h | ⟨k', h⟩
  · rw [h]
    subst hn
    cases op <;> cases neg <;> simp [intLeaf]
  · have hv : r.vals[i]? = some (.int k') := by
      unfold slotVal at h
      cases hv : r.vals[i]? with
      | none => simp [hv] at h
      | some v => simp [hv] at h; rw [h]
    have hraw : rawInt t i junk p = k' := by simp [rawInt, hr, hv]
    rw [h, hraw]
    subst hn
    cases op <;> cases neg <;> simp [intLeaf, intPred]

theorem float_hslot (t : Table) (ht : TypedRows t) (i : Nat) (hc : colType? t i = some .float) (junk : Nat → Nat)
    (op : Option RangeOp) (k : Nat) :
    ∀ p r, t.rows[p]? = some r →
      (if false then floatPred op k (rawFloat t i junk p) || decide (slotVal r i = .null)
       else floatPred op k (rawFloat t i junk p) && !decide (slotVal r i = .null)) = floatLeaf op k (slotVal r i) := by
  intro p r hr
  have hmem : r ∈ t.rows := List.mem_of_getElem? hr
  rcases typed_float_slot t ht i hc r hmem with h | ⟨k', h⟩
  · rw [h]; simp [floatLeaf]
  · have hv : r.vals[i]? = some (.float k') := by
      unfold slotVal at h
      cases hv : r.vals[i]? with
      | none => simp [hv] at h
      | some v => simp [hv] at h; rw [h]
    have hraw : rawFloat t i junk p = k' := by simp [rawFloat, hr, hv]
    rw [h, hraw]
    cases op with
    | none => simp [floatLeaf, floatPred]
    | some o => simp [floatLeaf, floatPred]; rfl

/-- the word-level filter is defined exactly when the per-slot filter is, and then agrees with it bit by bit -/
theorem vecFilterW_agrees (t : Table) (ht : TypedRows t) (u : Unspec) (c : Cond) :
    (∀ bits, vecFilter t c = some bits →
        ∃ bm, vecFilterW t u c = some bm ∧ Agrees bm bits ∧ bits.length = t.rows.length) ∧
    (vecFilter t c = none → vecFilterW t u c = none) := by
  induction c with
  | tt => simp [vecFilter, vecFilterW]
  | eq col v =>
    cases col with
    | id => simp [vecFilter, vecFilterW]
    | col i =>
      cases v with
      | int k =>
        simp only [vecFilter, vecFilterW]
        by_cases hc : colType? t i = some .int
        · simp only [hc, if_true, Option.some.injEq, reduceCtorEq, false_implies, and_true]
          intro bits hb; subst hb
          exact ⟨_, rfl, leafW_agrees t u i _ false _ (int_hslot t ht i hc _ none false k false rfl), by simp⟩
        · simp [hc]
      | float k =>
        simp only [vecFilter, vecFilterW]
        by_cases hc : colType? t i = some .float
        · simp only [hc, if_true, Option.some.injEq, reduceCtorEq, false_implies, and_true]
          intro bits hb; subst hb
          exact ⟨_, rfl, leafW_agrees t u i _ false _ (float_hslot t ht i hc _ none k), by simp⟩
        · simp [hc]
      | null => simp [vecFilter, vecFilterW]
      | str s => simp [vecFilter, vecFilterW]
      | bool b => simp [vecFilter, vecFilterW]
      | bytes b => simp [vecFilter, vecFilterW]
      | json j tx => simp [vecFilter, vecFilterW]
  | ne col v =>
    cases col with
    | id => simp [vecFilter, vecFilterW]
    | col i =>
      cases v with
      | int k =>
        simp only [vecFilter, vecFilterW]
        by_cases hc : colType? t i = some .int
        · simp only [hc, if_true, Option.some.injEq, reduceCtorEq, false_implies, and_true]
          intro bits hb; subst hb
          exact ⟨_, rfl, leafW_agrees t u i _ true _ (int_hslot t ht i hc _ none true k true rfl), by simp⟩
        · simp [hc]
      | float k => simp [vecFilter, vecFilterW]
      | null => simp [vecFilter, vecFilterW]
      | str s => simp [vecFilter, vecFilterW]
      | bool b => simp [vecFilter, vecFilterW]
      | bytes b => simp [vecFilter, vecFilterW]
      | json j tx => simp [vecFilter, vecFilterW]
  | rng op col v =>
    cases col with
    | id => cases op <;> cases v <;> simp [vecFilter, vecFilterW]
    | col i =>
      cases v with
      | int k =>
        simp only [vecFilter, vecFilterW]
        by_cases hc : colType? t i = some .int
        · simp only [hc, if_true, Option.some.injEq, reduceCtorEq, false_implies, and_true]
          intro bits hb; subst hb
          exact ⟨_, rfl, leafW_agrees t u i _ false _ (int_hslot t ht i hc _ (some op) false k false rfl), by simp⟩
        · simp [hc]
      | float k =>
        cases op with
        | lt =>
          simp only [vecFilter, vecFilterW]
          by_cases hc : colType? t i = some .float
          · simp only [hc, if_true, Option.some.injEq, reduceCtorEq, false_implies, and_true]
            intro bits hb; subst hb
            exact ⟨_, rfl, leafW_agrees t u i _ false _ (float_hslot t ht i hc _ (some .lt) k), by simp⟩
          · simp [hc]
        | gt =>
          simp only [vecFilter, vecFilterW]
          by_cases hc : colType? t i = some .float
          · simp only [hc, if_true, Option.some.injEq, reduceCtorEq, false_implies, and_true]
            intro bits hb; subst hb
            exact ⟨_, rfl, leafW_agrees t u i _ false _ (float_hslot t ht i hc _ (some .gt) k), by simp⟩
          · simp [hc]
        | le => simp [vecFilter, vecFilterW]
        | ge => simp [vecFilter, vecFilterW]
      | null => cases op <;> simp [vecFilter, vecFilterW]
      | str s => cases op <;> simp [vecFilter, vecFilterW]
      | bool b => cases op <;> simp [vecFilter, vecFilterW]
      | bytes b => cases op <;> simp [vecFilter, vecFilterW]
      | json j tx => cases op <;> simp [vecFilter, vecFilterW]
  | and a b iha ihb =>
    simp only [vecFilter, vecFilterW]
    cases ha : vecFilter t a with
    | none => simp [iha.2 ha]
    | some x =>
      obtain ⟨ba, hba, hax, hlx⟩ := iha.1 x ha
      cases hb : vecFilter t b with
      | none => simp [hba, ihb.2 hb]
      | some y =>
        obtain ⟨bb, hbb, hby, hly⟩ := ihb.1 y hb
        simp only [hba, hbb, Option.some.injEq, reduceCtorEq, false_implies, and_true]
        intro bits hbits; subst hbits
        exact ⟨_, rfl, agrees_inter ba bb x y hax hby (hlx.trans hly.symm), by simp [hlx, hly]⟩
  | or a b iha ihb =>
    simp only [vecFilter, vecFilterW]
    cases ha : vecFilter t a with
    | none => simp [iha.2 ha]
    | some x =>
      obtain ⟨ba, hba, hax, hlx⟩ := iha.1 x ha
      cases hb : vecFilter t b with
      | none => simp [hba, ihb.2 hb]
      | some y =>
        obtain ⟨bb, hbb, hby, hly⟩ := ihb.1 y hb
        simp only [hba, hbb, Option.some.injEq, reduceCtorEq, false_implies, and_true]
        intro bits hbits; subst hbits
        exact ⟨_, rfl, agrees_union ba bb x y hax hby (hlx.trans hly.symm), by simp [hlx, hly]⟩

/-! ## selected indices, fetched with the bounds and alive checks -/

theorem rowsByIndices_append (rows : List RowE) (a b : List Nat) :
    rowsByIndices rows (a ++ b) = rowsByIndices rows a ++ rowsByIndices rows b := by
  unfold rowsByIndices; rw [List.filterMap_append]

theorem rowsByIndices_out_of_range (rows : List RowE) (idxs : List Nat) (h : ∀ i ∈ idxs, rows.length ≤ i) :
    rowsByIndices rows idxs = [] := by
  unfold rowsByIndices
  rw [List.filterMap_eq_nil_iff]
  intro i hi
  have : rows[i]? = none := List.getElem?_eq_none (h i hi)
  simp [this]

/-- positions `0 .. rows.length` filtered by the per-slot bits, then fetched = the ids the per-slot model selects -/
theorem rowsByIndices_bits : ∀ (rows : List RowE) (bits : List Bool), bits.length = rows.length →
    (∀ (p : Nat) (r : RowE), rows[p]? = some r → (bits[p]?).getD false = true → r.alive = true) →
    rowsByIndices rows ((List.range rows.length).filter (fun p => (bits[p]?).getD false)) = selectedIds rows bits := by
  intro rows
  induction rows with
  | nil => intro bits hl _; cases bits <;> simp [rowsByIndices, selectedIds]
  | cons r rs ih =>
    intro bits hl hal
    cases bits with
    | nil => simp at hl
    | cons b bs =>
      simp only [List.length_cons, Nat.add_right_cancel_iff] at hl
      have hrest : rowsByIndices (r :: rs)
          (((List.range rs.length).map Nat.succ).filter (fun p => ((b :: bs)[p]?).getD false)) =
          selectedIds rs bs := by
        rw [List.filter_map]
        unfold rowsByIndices
        rw [List.filterMap_map]
        have := ih bs hl (fun p r' hr' hb => hal (p + 1) r'
          (by simp only [List.getElem?_cons_succ]; exact hr') (by simp only [List.getElem?_cons_succ]; exact hb))
        unfold rowsByIndices at this
        rw [← this]
        congr 1
      simp only [List.length_cons, List.range_succ_eq_map, List.filter_cons, List.getElem?_cons_zero,
        Option.getD_some, selectedIds]
      cases b with
      | true =>
        have hra : r.alive = true := hal 0 r rfl rfl
        simp only [if_true]
        rw [show (0 :: List.filter (fun p => ((true :: bs)[p]?).getD false) (List.map Nat.succ (List.range rs.length))) =
          [0] ++ List.filter (fun p => ((true :: bs)[p]?).getD false) (List.map Nat.succ (List.range rs.length)) from rfl,
          rowsByIndices_append, hrest]
        simp [rowsByIndices, hra]
      | false =>
        simp only [Bool.false_eq_true, if_false]
        exact hrest

theorem bitmapWords_covers (n : Nat) : n ≤ 64 * bitmapWords n := by unfold bitmapWords; omega

theorem selected_fetch (rows : List RowE) (bm : Bitmap) (bits : List Bool) (ha : Agrees bm bits)
    (hl : bits.length = rows.length)
    (hal : ∀ (p : Nat) (r : RowE), rows[p]? = some r → (bits[p]?).getD false = true → r.alive = true) :
    rowsByIndices rows bm.selected = selectedIds rows bits := by
  unfold Bitmap.selected
  have hcov : 64 * bm.nwords = rows.length + (64 * bm.nwords - rows.length) := by
    have := bitmapWords_covers rows.length
    rw [ha.1, hl]; omega
  rw [hcov, List.range_add, List.filter_append, rowsByIndices_append]
  have h2 : rowsByIndices rows
      (List.filter bm.bit (List.map (fun x => rows.length + x) (List.range (64 * bm.nwords - rows.length)))) = [] := by
    apply rowsByIndices_out_of_range
    intro i hi
    obtain ⟨hm, _⟩ := List.mem_filter.1 hi
    obtain ⟨x, _, rfl⟩ := List.mem_map.1 hm
    omega
  rw [h2, List.append_nil]
  have h1 : List.filter bm.bit (List.range rows.length) =
      List.filter (fun p => (bits[p]?).getD false) (List.range rows.length) := by
    apply List.filter_congr
    intro p hp
    exact ha.2 p (by rw [hl]; exact List.mem_range.1 hp)
  rw [h1]
  exact rowsByIndices_bits rows bits hl hal

/-- the word-level columnar select equals the per-slot one (hence the specification) whatever the unspecified
    storage holds -/
theorem columnarSelectW_eq (t : Table) (ht : TypedRows t) (u : Unspec) (c : Cond) :
    columnarSelectW t u c = columnarSelect t c := by
  unfold columnarSelectW columnarSelect
  split
  · cases hv : vecFilter t c with
    | none => rw [(vecFilterW_agrees t ht u c).2 hv]
    | some bits =>
      obtain ⟨bm, hbm, hag, hlen⟩ := (vecFilterW_agrees t ht u c).1 bits hv
      rw [hbm]
      simp only
      apply selected_fetch t.rows bm bits hag hlen
      intro p r hr hb
      have hbits := vecFilter_eq t c bits hv
      rw [hbits, List.getElem?_map, hr] at hb
      simp only [Option.map_some, Option.getD_some, matchesRow, Bool.and_eq_true] at hb
      exact hb.1
  · rfl

/-! ## row id = slot + 1 -/

def IdPos (t : Table) : Prop := ∀ (p : Nat) (r : RowE), t.rows[p]? = some r → r.id = p + 1

theorem idPos_of_map (rows : List RowE) (f : RowE → RowE) (hf : ∀ x, (f x).id = x.id)
    (h : ∀ (p : Nat) (r : RowE), rows[p]? = some r → r.id = p + 1) :
    ∀ (p : Nat) (r : RowE), (rows.map f)[p]? = some r → r.id = p + 1 := by
  intro p r hr
  rw [List.getElem?_map] at hr
  cases hx : rows[p]? with
  | none => simp [hx] at hr
  | some x =>
    simp only [hx, Option.map_some, Option.some.injEq] at hr
    rw [← hr, hf]; exact h p x hx

theorem insertOp_idPos (t : Table) (vals : List Value) (h : IdPos t) : IdPos (applyOp t (.insert vals)) := by
  simp only [applyOp]
  unfold insert
  by_cases hl : vals.length ≠ t.schema.length
  · rw [if_pos hl]; exact h
  · rw [if_neg hl]
    cases validateRow t.schema vals with
    | some e => exact h
    | none =>
      simp only
      unfold IdPos
      intro p r hr
      simp only at hr
      by_cases hp : p < t.rows.length
      · rw [List.getElem?_append_left hp] at hr; exact h p r hr
      · rw [List.getElem?_append_right (by omega)] at hr
        cases hq : p - t.rows.length with
        | zero =>
          simp only [hq, List.getElem?_cons_zero, Option.some.injEq] at hr
          subst hr; simp only; omega
        | succ q => simp [hq] at hr

theorem insertsFold_idPos : ∀ (rows : List (List Value)) (t : Table), IdPos t →
    IdPos (rows.foldl (fun t v => applyOp t (.insert v)) t) := by
  intro rows
  induction rows with
  | nil => intro t h; exact h
  | cons v vs ih => intro t h; rw [List.foldl_cons]; exact ih _ (insertOp_idPos t v h)

theorem applyOp_idPos (t : Table) (op : Op) (hi : IdxInv t) (h : IdPos t) : IdPos (applyOp t op) := by
  cases op with
  | insert vals => exact insertOp_idPos t vals h
  | batchInsert rows =>
    simp only [applyOp]
    cases hb : batchInsert t rows with
    | error e => exact h
    | ok p =>
      obtain ⟨t', ids⟩ := p
      simp only
      rw [batchInsert_eq_inserts t rows t' ids hb]
      exact insertsFold_idPos rows t h
  | update c sets =>
    simp only [applyOp]
    cases hu : update t c sets with
    | error e => exact h
    | ok p =>
      obtain ⟨t', n⟩ := p
      simp only
      unfold IdPos
      rw [update_rows_eq t c sets t' n hi.1 hu]
      exact idPos_of_map t.rows _ (fun x => by split <;> rfl) h
  | delete c =>
    simp only [applyOp]
    unfold IdPos
    rw [delete_rows_eq t c hi.1]
    exact idPos_of_map t.rows _ (fun x => by split <;> rfl) h
  | createHash col => unfold IdPos; rw [indexOp_rows t col _ (Or.inl rfl)]; exact h
  | createOrd col => unfold IdPos; rw [indexOp_rows t col _ (Or.inr (Or.inl rfl))]; exact h
  | dropHash col => unfold IdPos; rw [indexOp_rows t col _ (Or.inr (Or.inr (Or.inl rfl)))]; exact h
  | dropOrd col => unfold IdPos; rw [indexOp_rows t col _ (Or.inr (Or.inr (Or.inr rfl)))]; exact h

theorem run_idPos (schema : List (ColType × Bool)) (ops : List Op) : IdPos (run schema ops) := by
  unfold run
  suffices ∀ t, IdxInv t → IdPos t → IdPos (ops.foldl applyOp t) from
    this _ (idxInv_empty schema) (by unfold IdPos; intro p r hr; simp [Table.empty] at hr)
  induction ops with
  | nil => intro t _ h; exact h
  | cons op ops ih =>
    intro t hi h
    exact ih _ (applyOp_preserves t op hi) (applyOp_idPos t op hi h)

/-- looking a row up by id is reading slot `id - 1` -/
theorem find_by_id_eq_slot (t : Table) (hw : RowsWF t.rows) (hp : IdPos t) (i : Nat) (h1 : 1 ≤ i) :
    t.rows.find? (fun r => decide (r.id = i) && r.alive) =
      (match t.rows[i - 1]? with
       | some r => if r.alive then some r else none
       | none => none) := by
  cases hs : t.rows[i - 1]? with
  | none =>
    simp only
    rw [List.find?_eq_none]
    intro r hr
    obtain ⟨p, hpl, hpr⟩ := List.getElem_of_mem hr
    have hid := hp p r (by rw [List.getElem?_eq_getElem hpl, hpr])
    have : t.rows.length ≤ i - 1 := by
      rcases Nat.lt_or_ge (i - 1) t.rows.length with hlt | hge
      · rw [List.getElem?_eq_getElem hlt] at hs; cases hs
      · exact hge
    simp only [Bool.and_eq_true, decide_eq_true_eq, not_and]
    intro he; omega
  | some r =>
    simp only
    have hmem : r ∈ t.rows := List.mem_of_getElem? hs
    have hid : r.id = i := by have := hp (i - 1) r hs; omega
    by_cases ha : r.alive = true
    · rw [if_pos ha]
      cases hf : t.rows.find? (fun r => decide (r.id = i) && r.alive) with
      | none =>
        rw [List.find?_eq_none] at hf
        have := hf r hmem
        simp [hid, ha] at this
      | some r' =>
        have hm' := List.mem_of_find?_eq_some hf
        have hp' := List.find?_some hf
        simp only [Bool.and_eq_true, decide_eq_true_eq] at hp'
        rw [id_inj t.rows hw.1 r' hm' r hmem (hp'.1.trans hid.symm)]
    · rw [if_neg ha]
      rw [List.find?_eq_none]
      intro r' hr'
      simp only [Bool.and_eq_true, decide_eq_true_eq, not_and]
      intro he
      have := id_inj t.rows hw.1 r' hr' r hmem (he.trans hid.symm)
      subst this
      exact ha

theorem filterMap_congr_mem {α β : Type} (f g : α → Option β) : ∀ (l : List α), (∀ x ∈ l, f x = g x) →
    l.filterMap f = l.filterMap g := by
  intro l
  induction l with
  | nil => intro _; rfl
  | cons x xs ih =>
    intro h
    rw [List.filterMap_cons, List.filterMap_cons, h x (by simp), ih (fun y hy => h y (List.mem_cons_of_mem _ hy))]

theorem fetch_eq_fetchBySlot (t : Table) (hw : RowsWF t.rows) (hp : IdPos t) (ids : List Nat)
    (h1 : ∀ i ∈ ids, 1 ≤ i) : fetch t ids = fetchBySlot t ids := by
  unfold fetch fetchBySlot
  exact filterMap_congr_mem _ _ ids (fun i hi => find_by_id_eq_slot t hw hp i (h1 i hi))

/-- ids handed out by an index lookup belong to rows, so they are at least 1 -/
theorem lookup_ids_pos (t : Table) (hi : IdxInv t) (hp : IdPos t) (c : Cond) :
    ∀ ids, tryIndexLookup t c = some ids → ∀ i ∈ ids, 1 ≤ i := by
  induction c with
  | tt => intro ids h; simp [tryIndexLookup] at h
  | ne c v => intro ids h; simp [tryIndexLookup] at h
  | or a b _ _ => intro ids h; simp [tryIndexLookup] at h
  | eq col v =>
    intro ids h i hin
    simp only [tryIndexLookup, Option.map_eq_some_iff] at h
    obtain ⟨ix, hix, rfl⟩ := h
    have k := hi.2.1 col ix (assocGet_mem col _ ix hix)
    unfold hashLookup at hin
    obtain ⟨pr, hpr, rfl⟩ := List.mem_map.1 hin
    obtain ⟨r, hr, hid, _⟩ := k.sound pr.1 pr.2 (List.mem_filter.1 hpr).1
    obtain ⟨p, hpl, hpe⟩ := List.getElem_of_mem hr
    have := hp p r (by rw [List.getElem?_eq_getElem hpl, hpe])
    omega
  | rng op col v =>
    intro ids h i hin
    simp only [tryIndexLookup, Option.map_eq_some_iff] at h
    obtain ⟨ix, hix, rfl⟩ := h
    have k := hi.2.2.1 col ix (assocGet_mem col _ ix hix)
    unfold rangeLookup at hin
    obtain ⟨pr, hpr, rfl⟩ := List.mem_map.1 hin
    obtain ⟨r, hr, hid, _⟩ := k.sound pr.1 pr.2 (List.mem_filter.1 hpr).1
    obtain ⟨p, hpl, hpe⟩ := List.getElem_of_mem hr
    have := hp p r (by rw [List.getElem?_eq_getElem hpl, hpe])
    omega
  | and a b iha ihb =>
    intro ids h
    simp only [tryIndexLookup] at h
    cases ha : tryIndexLookup t a with
    | some ia => simp only [ha, Option.some.injEq] at h; subst h; exact iha ia ha
    | none => simp only [ha] at h; exact ihb ids h

/-- the word-level fetch numbers the selected slots `slot + 1` -/
theorem rowsByIndices_slot_plus_one (t : Table) (hp : IdPos t) (idxs : List Nat) :
    rowsByIndices t.rows idxs =
      (idxs.filter (fun i => match t.rows[i]? with | some r => r.alive | none => false)).map (· + 1) := by
  unfold rowsByIndices
  induction idxs with
  | nil => rfl
  | cons i is ih =>
    rw [List.filterMap_cons, List.filter_cons]
    cases hs : t.rows[i]? with
    | none => simp only [Bool.false_eq_true, if_false]; exact ih
    | some r =>
      simp only
      by_cases ha : r.alive = true
      · simp only [ha, if_true, List.map_cons, ih, hp i r hs]
      · simp only [ha, Bool.false_eq_true, if_false]; exact ih

end Neumann.Rel
