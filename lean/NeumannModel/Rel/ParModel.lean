import NeumannModel.Rel.Model
/-
  C04 — the rayon branch of `min` / `max` / `sum` / `avg` (taken when `select` returned at least
  `PARALLEL_THRESHOLD` = 1000 rows).

  `rows.par_iter().filter_map(keep).reduce_with(op)`: rayon halves the row vector recursively (where it stops
  depends on the thread pool and on work stealing), folds every piece left to right with `op` and combines the
  results of the two halves of every cut with `op` again, left result first.  The shape of that recursion is the
  parameter `Split`; the theorems quantify over every shape.
-/
namespace Neumann.Rel

/-- one run of rayon's splitting: `leaf` = this piece is folded sequentially, `node k l r` = the piece is cut
    after its first `k` rows, the halves are reduced as `l` and `r` say -/
inductive Split where
  | leaf
  | node (k : Nat) (l r : Split)
  deriving Repr, DecidableEq

def PARALLEL_THRESHOLD : Nat := 1000

/-- the `filter_map` closure of `min` / `max`:
    `row.get(&col).and_then(|val| if matches!(val, Value::Null) { None } else { Some(val.clone()) })` -/
def parKeep (i : Nat) (r : RowE) : Option Value :=
  match colVal r i with
  | none => none
  | some .null => none
  | some x => some x

/-- NOT the code: the closure without its NULL guard (`row.get(&col).cloned()`) -/
def parKeepNulls (i : Nat) (r : RowE) : Option Value := colVal r i

/-- the reducer `|a, b| if a.partial_cmp_value(&b) == Some(want) { a } else { b }`
    (`want` = `Less` for min, `Greater` for max) -/
def parPick (want : Ordering) (a b : Value) : Value :=
  if partialCmp a b = some want then a else b

/-- `reduce_with` lifts the reducer to `Option` (`None` = no item so far) -/
def optPick (want : Ordering) : Option Value → Option Value → Option Value
  | some a, some b => some (parPick want a b)
  | some a, none => some a
  | none, b => b

/-- `par_iter().filter_map(keep).reduce_with(pick)` run with the splitting `s` -/
def parReduce (keep : RowE → Option Value) (want : Ordering) : Split → List RowE → Option Value
  | .leaf, rows => (rows.filterMap keep).foldl (fun acc x => optPick want acc (some x)) none
  | .node k l r, rows =>
      optPick want (parReduce keep want l (rows.take k)) (parReduce keep want r (rows.drop k))

/-- `min` / `max` with both branches: the rayon reduction from `PARALLEL_THRESHOLD` selected rows on, the
    sequential fold below -/
def extremeBoth (s : Split) (want : Ordering) (i : Nat) (rows : List RowE) : Option Value :=
  if PARALLEL_THRESHOLD ≤ rows.length then parReduce (parKeep i) want s rows else extremeOf want i rows

def aggMinPar (s : Split) (t : Table) (i : Nat) (c : Cond) : Option Value := extremeBoth s .lt i (selectRows t c)
def aggMaxPar (s : Split) (t : Table) (i : Nat) (c : Cond) : Option Value := extremeBoth s .gt i (selectRows t c)

/-- the splitting rayon starts from: halve `n` items, `depth` levels deep (what the thread pool does beyond that
    is not determined; the theorems hold for every `Split`, the driver answers with this one) -/
def halving : Nat → Nat → Split
  | _, 0 => .leaf
  | n, d + 1 => .node (n / 2) (halving (n / 2) d) (halving (n - n / 2) d)

/-- NOT the code: the parallel branch without the NULL guard -/
def extremeBothParallelKeepsNulls (s : Split) (want : Ordering) (i : Nat) (rows : List RowE) : Option Value :=
  if PARALLEL_THRESHOLD ≤ rows.length then parReduce (parKeepNulls i) want s rows else extremeOf want i rows

/-! ## `sum` / `avg`: `par_iter().map(term).sum()` / `.reduce(|| (0.0, 0), |(s1, c1), (s2, c2)| (s1 + s2, c1 + c2))`
    on exact integers (the f64 additions are exact and order-free as long as every partial sum is an integer
    below 2^53; beyond that the result depends on the splitting and is outside the model) -/

/-- the `map` closure of `avg` on an integer column: `(value, 1)`, `(0, 0)` for NULL / a missing column -/
def parTerm (i : Nat) (r : RowE) : Int × Nat :=
  match colVal r i with
  | some (.int k) => (k, 1)
  | _ => (0, 0)

def pairAdd (a b : Int × Nat) : Int × Nat := (a.1 + b.1, a.2 + b.2)

/-- the (sum, count) reduction run with the splitting `s` (`sum` is its first component) -/
def parSumCount (i : Nat) : Split → List RowE → Int × Nat
  | .leaf, rows => rows.foldl (fun acc r => pairAdd acc (parTerm i r)) (0, 0)
  | .node k l r, rows => pairAdd (parSumCount i l (rows.take k)) (parSumCount i r (rows.drop k))

end Neumann.Rel
