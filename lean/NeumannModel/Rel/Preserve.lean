import NeumannModel.Rel.Lemmas
/-
  C04 helper lemmas, part 2: every operation preserves the index invariant `IdxInv`.
-/
namespace Neumann.Rel

variable {κ : Type} [DecidableEq κ]

theorem mem_idxAdd (k : κ) (i : Nat) (ix : Idx κ) (p : κ × Nat) :
    p ∈ idxAdd k i ix ↔ p ∈ ix ∨ p = (k, i) := by
  unfold idxAdd; split
  · rename_i h; constructor
    · exact Or.inl
    · rintro (h' | rfl); exact h'; exact h
  · simp

theorem nodup_idxAdd (k : κ) (i : Nat) (ix : Idx κ) (h : (ix.map Prod.snd).Nodup)
    (hf : ∀ k', (k', i) ∈ ix → k' = k) : ((idxAdd k i ix).map Prod.snd).Nodup := by
  unfold idxAdd; split
  · exact h
  · rename_i hm
    rw [List.map_append, List.nodup_append]
    refine ⟨h, by simp, ?_⟩
    intro a ha b hb
    simp only [List.map_cons, List.map_nil, List.mem_singleton] at hb
    subst hb
    intro hab; subst hab
    obtain ⟨p, hp, hpa⟩ := List.mem_map.1 ha
    obtain ⟨k', i'⟩ := p
    simp only at hpa; subst hpa
    exact hm (hf k' hp ▸ hp)

theorem mem_idxRemove (k : κ) (i : Nat) (ix : Idx κ) (p : κ × Nat) :
    p ∈ idxRemove k i ix ↔ p ∈ ix ∧ ¬ (p.1 = k ∧ p.2 = i) := by
  unfold idxRemove
  simp only [List.mem_filter, Bool.not_eq_true', Bool.and_eq_false_iff, decide_eq_false_iff_not, not_and]
  constructor
  · rintro ⟨h, h'⟩; refine ⟨h, fun a => ?_⟩; rcases h' with h' | h'; exact absurd a h'; exact h'
  · rintro ⟨h, h'⟩; refine ⟨h, ?_⟩; by_cases a : p.1 = k; exact Or.inr (h' a); exact Or.inl a

/-- appending a row (insert, or one step of an index build) -/
theorem kinv_append (key : Value → κ) (rows : List RowE) (c : ColRef) (ix : Idx κ) (r : RowE)
    (h : KInv key rows c ix) (hfresh : ∀ r' ∈ rows, r'.id ≠ r.id) :
    KInv key (rows ++ [r]) c (if r.alive then idxAddRow key r c ix else ix) := by
  by_cases ha : r.alive = true
  · simp only [ha, if_true]
    unfold idxAddRow
    cases hg : getWithId r.id r.vals c with
    | none =>
      refine ⟨h.nodup, ?_, ?_⟩
      · intro k i hm
        obtain ⟨r', hr', rest⟩ := h.sound k i hm
        exact ⟨r', List.mem_append_left _ hr', rest⟩
      · intro r' hr' hal v hv
        rcases List.mem_append.1 hr' with hr' | hr'
        · exact h.complete r' hr' hal v hv
        · simp only [List.mem_singleton] at hr'; subst hr'; rw [hg] at hv; cases hv
    | some v =>
      simp only
      refine ⟨?_, ?_, ?_⟩
      · apply nodup_idxAdd _ _ _ h.nodup
        intro k' hm
        obtain ⟨r', hr', hid, _⟩ := h.sound k' r.id hm
        exact absurd hid (hfresh r' hr')
      · intro k i hm
        rcases (mem_idxAdd _ _ _ _).1 hm with hm | hm
        · obtain ⟨r', hr', rest⟩ := h.sound k i hm
          exact ⟨r', List.mem_append_left _ hr', rest⟩
        · cases hm
          exact ⟨r, by simp, rfl, ha, v, hg, rfl⟩
      · intro r' hr' hal v' hv
        rw [mem_idxAdd]
        rcases List.mem_append.1 hr' with hr' | hr'
        · exact Or.inl (h.complete r' hr' hal v' hv)
        · simp only [List.mem_singleton] at hr'; subst hr'
          rw [hg] at hv; cases hv; exact Or.inr rfl
  · simp only [ha]
    have ha' : r.alive = false := by cases h' : r.alive <;> simp_all
    refine ⟨h.nodup, ?_, ?_⟩
    · intro k i hm
      obtain ⟨r', hr', rest⟩ := h.sound k i hm
      exact ⟨r', List.mem_append_left _ hr', rest⟩
    · intro r' hr' hal v hv
      rcases List.mem_append.1 hr' with hr' | hr'
      · exact h.complete r' hr' hal v hv
      · simp only [List.mem_singleton] at hr'; subst hr'; rw [ha'] at hal; cases hal

omit [DecidableEq κ] in
theorem kinv_nil (key : Value → κ) (c : ColRef) : KInv key [] c ([] : Idx κ) :=
  ⟨by simp, by simp, by simp⟩

theorem kinv_build_go (key : Value → κ) (c : ColRef) :
    ∀ (S P : List RowE) (ix : Idx κ), KInv key P c ix → ((P ++ S).map (·.id)).Pairwise (· < ·) →
      KInv key (P ++ S) c (S.foldl (fun ix r => if r.alive then idxAddRow key r c ix else ix) ix) := by
  intro S
  induction S with
  | nil => intro P ix h _; simpa using h
  | cons r S ih =>
    intro P ix h hp
    have hfresh : ∀ r' ∈ P, r'.id ≠ r.id := by
      intro r' hr'
      rw [List.map_append, List.pairwise_append] at hp
      have := hp.2.2 r'.id (List.mem_map.2 ⟨r', hr', rfl⟩) r.id (by simp)
      omega
    have h1 := kinv_append key P c ix r h hfresh
    have := ih (P ++ [r]) _ h1 (by simpa using hp)
    simpa using this

theorem kinv_build (key : Value → κ) (c : ColRef) (rows : List RowE) (h : RowsWF rows) :
    KInv key rows c (buildIdx key c rows) := by
  have := kinv_build_go key c rows [] [] (kinv_nil key c) (by simpa using h.1)
  simpa [buildIdx] using this


theorem mem_killRow (id : Nat) (rows : List RowE) (r' : RowE) :
    r' ∈ killRow id rows ↔ ∃ r0 ∈ rows, r' = if r0.id = id then { r0 with alive := false } else r0 := by
  unfold killRow; rw [List.mem_map]; constructor <;> (rintro ⟨r0, h, e⟩; exact ⟨r0, h, e.symm⟩)

theorem killRow_ids (id : Nat) (rows : List RowE) : (killRow id rows).map (·.id) = rows.map (·.id) := by
  unfold killRow; rw [List.map_map]; apply List.map_congr_left; intro r _; simp only [Function.comp]; split <;> rfl

/-- removing one live row (one step of `tx_delete`) -/
theorem kinv_kill (key : Value → κ) (rows : List RowE) (c : ColRef) (ix : Idx κ) (r : RowE)
    (h : KInv key rows c ix) (hw : (rows.map (·.id)).Pairwise (· < ·)) (hr : r ∈ rows) :
    KInv key (killRow r.id rows) c (idxRemoveRow key r c ix) := by
  have keep : ∀ r0 ∈ rows, r0.id ≠ r.id → r0 ∈ killRow r.id rows := by
    intro r0 h0 hne; rw [mem_killRow]; exact ⟨r0, h0, by simp [hne]⟩
  have live_from : ∀ r' ∈ killRow r.id rows, r'.alive = true → r' ∈ rows ∧ r'.id ≠ r.id := by
    intro r' hm hal
    obtain ⟨r0, h0, e⟩ := (mem_killRow _ _ _).1 hm
    by_cases hid : r0.id = r.id
    · rw [if_pos hid] at e; subst e; simp at hal
    · rw [if_neg hid] at e; subst e; exact ⟨h0, hid⟩
  unfold idxRemoveRow
  cases hg : getWithId r.id r.vals c with
  | none =>
    simp only
    refine ⟨h.nodup, ?_, ?_⟩
    · intro k i hm
      obtain ⟨r0, h0, hid, hal, v, hv, hk⟩ := h.sound k i hm
      have hne : r0.id ≠ r.id := by
        intro e; have := id_inj rows hw r0 h0 r hr e; subst this; rw [hg] at hv; cases hv
      exact ⟨r0, keep r0 h0 hne, hid, hal, v, hv, hk⟩
    · intro r' hm hal v hv
      exact h.complete r' (live_from r' hm hal).1 hal v hv
  | some vr =>
    simp only
    refine ⟨h.nodup.sublist ((List.filter_sublist).map _), ?_, ?_⟩
    · intro k i hm
      obtain ⟨hm, hnot⟩ := (mem_idxRemove _ _ _ _).1 hm
      obtain ⟨r0, h0, hid, hal, v, hv, hk⟩ := h.sound k i hm
      have hne : r0.id ≠ r.id := by
        intro e
        have := id_inj rows hw r0 h0 r hr e; subst this
        rw [hg] at hv; cases hv
        exact hnot ⟨hk.symm, hid.symm⟩
      exact ⟨r0, keep r0 h0 hne, hid, hal, v, hv, hk⟩
    · intro r' hm hal v hv
      obtain ⟨h0, hne⟩ := live_from r' hm hal
      rw [mem_idxRemove]
      exact ⟨h.complete r' h0 hal v hv, fun ⟨_, e⟩ => hne e⟩

/-! table level -/
omit [DecidableEq κ] in
theorem mem_mapIdx (f : ColRef → Idx κ → Idx κ) (l : List (ColRef × Idx κ)) (c : ColRef) (ix' : Idx κ) :
    (c, ix') ∈ mapIdx f l ↔ ∃ ix, (c, ix) ∈ l ∧ ix' = f c ix := by
  unfold mapIdx; rw [List.mem_map]
  constructor
  · rintro ⟨⟨c0, ix⟩, hm, e⟩; cases e; exact ⟨ix, hm, rfl⟩
  · rintro ⟨ix, hm, rfl⟩; exact ⟨(c, ix), hm, rfl⟩

theorem rowsWF_append (rows : List RowE) (h : RowsWF rows) (alive : Bool) (vals : List Value) :
    RowsWF (rows ++ [⟨rows.length + 1, alive, vals⟩]) := by
  refine ⟨?_, ?_⟩
  · rw [List.map_append, List.pairwise_append]
    refine ⟨h.1, by simp, ?_⟩
    intro a ha b hb
    obtain ⟨r, hr, rfl⟩ := List.mem_map.1 ha
    simp only [List.map_cons, List.map_nil, List.mem_singleton] at hb; subst hb
    have := h.2 r hr; omega
  · intro r hr
    rw [List.length_append]
    rcases List.mem_append.1 hr with hr | hr
    · have := h.2 r hr; simp; omega
    · simp only [List.mem_singleton] at hr; subst hr; simp

theorem insert_preserves (t : Table) (vals : List Value) (t' : Table) (id : Nat)
    (hi : IdxInv t) (h : insert t vals = .ok (t', id)) : IdxInv t' := by
  unfold insert at h
  split at h
  · cases h
  · rename_i hlen
    split at h
    · cases h
    · simp only [Except.ok.injEq, Prod.mk.injEq] at h
      obtain ⟨rfl, _⟩ := h
      have hfresh : ∀ r' ∈ t.rows, r'.id ≠ t.rows.length + 1 := by
        intro r' hr'; have := hi.1.2 r' hr'; omega
      refine ⟨rowsWF_append t.rows hi.1 true vals, ?_, ?_, ?_⟩
      · intro c ix' hm
        obtain ⟨ix, hm0, rfl⟩ := (mem_mapIdx _ _ _ _).1 hm
        have := kinv_append hashKey t.rows c ix ⟨t.rows.length + 1, true, vals⟩ (hi.2.1 c ix hm0) hfresh
        simpa using this
      · intro c ix' hm
        obtain ⟨ix, hm0, rfl⟩ := (mem_mapIdx _ _ _ _).1 hm
        have := kinv_append ordKey t.rows c ix ⟨t.rows.length + 1, true, vals⟩ (hi.2.2.1 c ix hm0) hfresh
        simpa using this
      · intro r hr
        rcases List.mem_append.1 hr with hr | hr
        · exact hi.2.2.2 r hr
        · simp only [List.mem_singleton] at hr; subst hr
          simp only [ne_eq, Decidable.not_not] at hlen; exact hlen

theorem createHash_preserves (t : Table) (c : ColRef) (t' : Table) (hi : IdxInv t)
    (h : createHashIndex t c = .ok t') : IdxInv t' := by
  unfold createHashIndex at h
  split at h
  · cases h
  · split at h
    · cases h
    · simp only [Except.ok.injEq] at h; subst h
      refine ⟨hi.1, ?_, hi.2.2.1, hi.2.2.2⟩
      intro c' ix hm
      rcases List.mem_append.1 hm with hm | hm
      · exact hi.2.1 c' ix hm
      · simp only [List.mem_singleton, Prod.mk.injEq] at hm
        obtain ⟨rfl, rfl⟩ := hm
        exact kinv_build hashKey c' t.rows hi.1

theorem createOrd_preserves (t : Table) (c : ColRef) (t' : Table) (hi : IdxInv t)
    (h : createOrdIndex t c = .ok t') : IdxInv t' := by
  unfold createOrdIndex at h
  split at h
  · cases h
  · split at h
    · cases h
    · simp only [Except.ok.injEq] at h; subst h
      refine ⟨hi.1, hi.2.1, ?_, hi.2.2.2⟩
      intro c' ix hm
      rcases List.mem_append.1 hm with hm | hm
      · exact hi.2.2.1 c' ix hm
      · simp only [List.mem_singleton, Prod.mk.injEq] at hm
        obtain ⟨rfl, rfl⟩ := hm
        exact kinv_build ordKey c' t.rows hi.1

theorem dropHash_preserves (t : Table) (c : ColRef) (t' : Table) (hi : IdxInv t)
    (h : dropHashIndex t c = .ok t') : IdxInv t' := by
  unfold dropHashIndex at h
  split at h
  · cases h
  · simp only [Except.ok.injEq] at h; subst h
    exact ⟨hi.1, fun c' ix hm => hi.2.1 c' ix (List.mem_filter.1 hm).1, hi.2.2.1, hi.2.2.2⟩

theorem dropOrd_preserves (t : Table) (c : ColRef) (t' : Table) (hi : IdxInv t)
    (h : dropOrdIndex t c = .ok t') : IdxInv t' := by
  unfold dropOrdIndex at h
  split at h
  · cases h
  · simp only [Except.ok.injEq] at h; subst h
    exact ⟨hi.1, hi.2.1, fun c' ix hm => hi.2.2.1 c' ix (List.mem_filter.1 hm).1, hi.2.2.2⟩

theorem deleteOne_preserves (t : Table) (r : RowE) (hi : IdxInv t) (hr : r ∈ t.rows) : IdxInv (deleteOne t r) := by
  unfold deleteOne
  refine ⟨⟨?_, ?_⟩, ?_, ?_, ?_⟩
  · simp only; rw [killRow_ids]; exact hi.1.1
  · intro r' hm
    simp only at hm ⊢
    obtain ⟨r0, h0, e⟩ := (mem_killRow _ _ _).1 hm
    have : r'.id = r0.id := by subst e; split <;> rfl
    have hl : (killRow r.id t.rows).length = t.rows.length := by unfold killRow; simp
    rw [this, hl]; exact hi.1.2 r0 h0
  · intro c ix' hm
    obtain ⟨ix, hm0, rfl⟩ := (mem_mapIdx _ _ _ _).1 hm
    exact kinv_kill hashKey t.rows c ix r (hi.2.1 c ix hm0) hi.1.1 hr
  · intro c ix' hm
    obtain ⟨ix, hm0, rfl⟩ := (mem_mapIdx _ _ _ _).1 hm
    exact kinv_kill ordKey t.rows c ix r (hi.2.2.1 c ix hm0) hi.1.1 hr
  · intro r' hm
    simp only at hm ⊢
    obtain ⟨r0, h0, e⟩ := (mem_killRow _ _ _).1 hm
    have : r'.vals = r0.vals := by subst e; split <;> rfl
    rw [this]; exact hi.2.2.2 r0 h0

theorem deleteFold_preserves : ∀ (targets : List RowE) (t : Table), IdxInv t →
    (∀ r ∈ targets, r ∈ t.rows) → (targets.map (·.id)).Nodup → IdxInv (targets.foldl deleteOne t) := by
  intro targets
  induction targets with
  | nil => intro t hi _ _; exact hi
  | cons r rs ih =>
    intro t hi hm hn
    rw [List.foldl_cons]
    rw [List.map_cons, List.nodup_cons] at hn
    apply ih _ (deleteOne_preserves t r hi (hm r (by simp)))
    · intro r2 h2
      show r2 ∈ killRow r.id t.rows
      rw [mem_killRow]
      refine ⟨r2, hm r2 (List.mem_cons_of_mem _ h2), ?_⟩
      have : r2.id ≠ r.id := fun e => hn.1 (List.mem_map.2 ⟨r2, h2, e⟩)
      simp [this]
    · exact hn.2

theorem matching_ids_nodup (t : Table) (c : Cond) (h : RowsWF t.rows) : ((matching t c).map (·.id)).Nodup := by
  have : ((matching t c).map (·.id)).Pairwise (· < ·) := h.1.sublist ((List.filter_sublist).map _)
  exact this.imp (fun hab => by omega)

theorem delete_preserves (t : Table) (c : Cond) (hi : IdxInv t) : IdxInv (delete t c).1 := by
  unfold delete
  exact deleteFold_preserves _ t hi (fun r hr => (List.mem_filter.1 hr).1) (matching_ids_nodup t c hi.1)


theorem applySetsFrom_get (sets : List (Nat × Value)) :
    ∀ (vs : List Value) (j i : Nat),
      (applySetsFrom sets j vs)[i]? = (vs[i]?).map (fun v => (setsGet (j + i) sets).getD v) := by
  intro vs
  induction vs with
  | nil => intro j i; simp [applySetsFrom]
  | cons v vs ih =>
    intro j i
    cases i with
    | zero => simp only [applySetsFrom, List.getElem?_cons_zero, Option.map_some, Nat.add_zero]
              cases setsGet j sets <;> rfl
    | succ i =>
      simp only [applySetsFrom, List.getElem?_cons_succ]
      rw [ih (j + 1) i]
      have : j + 1 + i = j + (i + 1) := by omega
      rw [this]

theorem applySetsFrom_length (sets : List (Nat × Value)) : ∀ (vs : List Value) (j : Nat),
    (applySetsFrom sets j vs).length = vs.length := by
  intro vs; induction vs with
  | nil => intro j; rfl
  | cons v vs ih => intro j; simp [applySetsFrom, ih]

theorem mem_setRow (id : Nat) (vals : List Value) (rows : List RowE) (r' : RowE) :
    r' ∈ setRow id vals rows ↔ ∃ r0 ∈ rows, r' = if r0.id = id then { r0 with vals := vals } else r0 := by
  unfold setRow; rw [List.mem_map]; constructor <;> (rintro ⟨r0, h, e⟩; exact ⟨r0, h, e.symm⟩)

theorem setRow_ids (id : Nat) (vals : List Value) (rows : List RowE) :
    (setRow id vals rows).map (·.id) = rows.map (·.id) := by
  unfold setRow; rw [List.map_map]; apply List.map_congr_left; intro r _; simp only [Function.comp]; split <;> rfl

/-- rewriting one live row (one step of `tx_update`) -/
theorem kinv_set (key : Value → κ) (sets : List (Nat × Value)) (rows : List RowE) (c : ColRef) (ix : Idx κ)
    (r : RowE) (h : KInv key rows c ix) (hw : (rows.map (·.id)).Pairwise (· < ·)) (hr : r ∈ rows)
    (hlive : r.alive = true) (hcol : ∀ j nv, setsGet j sets = some nv → j < r.vals.length) :
    KInv key (setRow r.id (applySetsFrom sets 0 r.vals) rows) c (idxUpdateRow key sets r c ix) := by
  let nr : RowE := { r with vals := applySetsFrom sets 0 r.vals }
  have F1 : ∀ r0 ∈ rows, r0.id ≠ r.id → r0 ∈ setRow r.id (applySetsFrom sets 0 r.vals) rows := by
    intro r0 h0 hne; rw [mem_setRow]; exact ⟨r0, h0, by simp [hne]⟩
  have F2 : nr ∈ setRow r.id (applySetsFrom sets 0 r.vals) rows := by
    rw [mem_setRow]; exact ⟨r, hr, by simp [nr]⟩
  have F3 : ∀ r' ∈ setRow r.id (applySetsFrom sets 0 r.vals) rows, r' = nr ∨ (r' ∈ rows ∧ r'.id ≠ r.id) := by
    intro r' hm
    obtain ⟨r0, h0, e⟩ := (mem_setRow _ _ _ _).1 hm
    by_cases hid : r0.id = r.id
    · have := id_inj rows hw r0 h0 r hr hid; subst this
      rw [if_pos rfl] at e; exact Or.inl e
    · rw [if_neg hid] at e; subst e; exact Or.inr ⟨h0, hid⟩
  -- the generic transfer when neither the index nor the row's value at `c` changes
  have same : getWithId r.id (applySetsFrom sets 0 r.vals) c = getWithId r.id r.vals c →
      KInv key (setRow r.id (applySetsFrom sets 0 r.vals) rows) c ix := by
    intro hs
    refine ⟨h.nodup, ?_, ?_⟩
    · intro k i hm
      obtain ⟨r0, h0, hid, hal, v, hv, hk⟩ := h.sound k i hm
      by_cases e : r0.id = r.id
      · have := id_inj rows hw r0 h0 r hr e; subst this
        exact ⟨nr, F2, hid, hal, v, by simpa [nr, hs] using hv, hk⟩
      · exact ⟨r0, F1 r0 h0 e, hid, hal, v, hv, hk⟩
    · intro r' hm hal v hv
      rcases F3 r' hm with e | ⟨h0, _⟩
      · subst e
        have hv' : getWithId r.id r.vals c = some v := by rw [← hs]; simpa [nr] using hv
        exact h.complete r hr (by simpa [nr] using hal) v hv'
      · exact h.complete r' h0 hal v hv
  cases c with
  | id => exact same (by simp [getWithId])
  | col j =>
    simp only [idxUpdateRow]
    cases hsg : setsGet j sets with
    | none =>
      simp only
      apply same
      simp only [getWithId, applySetsFrom_get, Nat.zero_add, hsg, Option.getD_none]
      cases r.vals[j]? <;> rfl
    | some nv =>
      simp only
      have hj := hcol j nv hsg
      have hov : r.vals[j]? = some r.vals[j] := List.getElem?_eq_getElem hj
      have hgo : getWithId r.id r.vals (.col j) = some r.vals[j] := by simp [getWithId, hov]
      have hgn : getWithId r.id (applySetsFrom sets 0 r.vals) (.col j) = some nv := by
        simp [getWithId, applySetsFrom_get, hov, hsg]
      have hrem : idxRemoveRow key r (.col j) ix = idxRemove (key r.vals[j]) r.id ix := by
        simp [idxRemoveRow, hgo]
      rw [hrem]
      have gone : ∀ k', (k', r.id) ∈ idxRemove (key r.vals[j]) r.id ix → False := by
        intro k' hm
        obtain ⟨hm, hnot⟩ := (mem_idxRemove _ _ _ _).1 hm
        obtain ⟨r0, h0, hid, _, v, hv, hk⟩ := h.sound k' r.id hm
        have := id_inj rows hw r0 h0 r hr hid; subst this
        rw [hgo] at hv; cases hv
        exact hnot ⟨hk.symm, rfl⟩
      refine ⟨?_, ?_, ?_⟩
      · apply nodup_idxAdd
        · exact h.nodup.sublist ((List.filter_sublist).map _)
        · intro k' hm; exact (gone k' hm).elim
      · intro k i hm
        rcases (mem_idxAdd _ _ _ _).1 hm with hm | hm
        · have hne : i ≠ r.id := by intro e; subst e; exact gone k hm
          obtain ⟨hm, _⟩ := (mem_idxRemove _ _ _ _).1 hm
          obtain ⟨r0, h0, hid, hal, v, hv, hk⟩ := h.sound k i hm
          exact ⟨r0, F1 r0 h0 (by omega), hid, hal, v, hv, hk⟩
        · cases hm
          exact ⟨nr, F2, rfl, hlive, nv, hgn, rfl⟩
      · intro r' hm hal v hv
        rw [mem_idxAdd]
        rcases F3 r' hm with e | ⟨h0, hne⟩
        · subst e
          have : v = nv := by
            have : getWithId r.id (applySetsFrom sets 0 r.vals) (.col j) = some v := by simpa [nr] using hv
            rw [hgn] at this; cases this; rfl
          subst this; exact Or.inr rfl
        · refine Or.inl ((mem_idxRemove _ _ _ _).2 ⟨h.complete r' h0 hal v hv, fun ⟨_, e⟩ => hne e⟩)

theorem validateSets_ok (schema : List (ColType × Bool)) : ∀ (sets : List (Nat × Value)),
    validateSets schema sets = none → ∀ j nv, setsGet j sets = some nv → j < schema.length := by
  intro sets
  induction sets with
  | nil => intro _ j nv h; simp [setsGet] at h
  | cons p ps ih =>
    obtain ⟨i, v⟩ := p
    intro hv j nv hg
    unfold validateSets at hv
    cases hs : schema[i]? with
    | none => simp [hs] at hv
    | some tn =>
      obtain ⟨ty, nullable⟩ := tn
      simp only [hs] at hv
      split at hv
      · cases hv
      · split at hv
        · cases hv
        · unfold setsGet at hg
          split at hg
          · rename_i e; subst e
            exact (List.getElem?_eq_some_iff.1 hs).1
          · exact ih hv j nv hg

theorem updateOne_preserves (sets : List (Nat × Value)) (t : Table) (r : RowE) (hi : IdxInv t) (hr : r ∈ t.rows)
    (hlive : r.alive = true) (hv : validateSets t.schema sets = none) : IdxInv (updateOne sets t r) := by
  have hcol : ∀ j nv, setsGet j sets = some nv → j < r.vals.length := by
    intro j nv h; rw [hi.2.2.2 r hr]; exact validateSets_ok t.schema sets hv j nv h
  unfold updateOne
  refine ⟨⟨?_, ?_⟩, ?_, ?_, ?_⟩
  · simp only; rw [setRow_ids]; exact hi.1.1
  · intro r' hm
    simp only at hm ⊢
    obtain ⟨r0, h0, e⟩ := (mem_setRow _ _ _ _).1 hm
    have : r'.id = r0.id := by subst e; split <;> rfl
    have hl : (setRow r.id (applySetsFrom sets 0 r.vals) t.rows).length = t.rows.length := by unfold setRow; simp
    rw [this, hl]; exact hi.1.2 r0 h0
  · intro c ix' hm
    obtain ⟨ix, hm0, rfl⟩ := (mem_mapIdx _ _ _ _).1 hm
    exact kinv_set hashKey sets t.rows c ix r (hi.2.1 c ix hm0) hi.1.1 hr hlive hcol
  · intro c ix' hm
    obtain ⟨ix, hm0, rfl⟩ := (mem_mapIdx _ _ _ _).1 hm
    exact kinv_set ordKey sets t.rows c ix r (hi.2.2.1 c ix hm0) hi.1.1 hr hlive hcol
  · intro r' hm
    simp only at hm ⊢
    obtain ⟨r0, h0, e⟩ := (mem_setRow _ _ _ _).1 hm
    by_cases hid : r0.id = r.id
    · have hrr := id_inj t.rows hi.1.1 r0 h0 r hr hid
      rw [if_pos hid] at e
      rw [e]
      simp only [applySetsFrom_length]
      exact hi.2.2.2 r hr
    · rw [if_neg hid] at e; rw [e]; exact hi.2.2.2 r0 h0

theorem updateFold_preserves (sets : List (Nat × Value)) : ∀ (targets : List RowE) (t : Table), IdxInv t →
    validateSets t.schema sets = none →
    (∀ r ∈ targets, r ∈ t.rows ∧ r.alive = true) → (targets.map (·.id)).Nodup →
    IdxInv (targets.foldl (updateOne sets) t) := by
  intro targets
  induction targets with
  | nil => intro t hi _ _ _; exact hi
  | cons r rs ih =>
    intro t hi hv hm hn
    rw [List.foldl_cons]
    rw [List.map_cons, List.nodup_cons] at hn
    have h1 := hm r (by simp)
    apply ih _ (updateOne_preserves sets t r hi h1.1 h1.2 hv) hv
    · intro r2 h2
      have h2' := hm r2 (List.mem_cons_of_mem _ h2)
      refine ⟨?_, h2'.2⟩
      show r2 ∈ setRow r.id _ t.rows
      rw [mem_setRow]
      refine ⟨r2, h2'.1, ?_⟩
      have : r2.id ≠ r.id := fun e => hn.1 (List.mem_map.2 ⟨r2, h2, e⟩)
      simp [this]
    · exact hn.2

theorem update_preserves (t : Table) (c : Cond) (sets : List (Nat × Value)) (t' : Table) (n : Nat)
    (hi : IdxInv t) (h : update t c sets = .ok (t', n)) : IdxInv t' := by
  unfold update at h
  cases hv : validateSets t.schema sets with
  | some e => simp [hv] at h
  | none =>
    simp only [hv, Except.ok.injEq, Prod.mk.injEq] at h
    obtain ⟨rfl, _⟩ := h
    apply updateFold_preserves sets _ t hi hv
    · intro r hr
      have := List.mem_filter.1 hr
      refine ⟨this.1, ?_⟩
      have hp := this.2
      simp only [matchesRow, Bool.and_eq_true] at hp
      exact hp.1
    · exact matching_ids_nodup t c hi.1

/-! ## batch_insert = the same inserts one by one (when every row is valid) -/

theorem insert_eq_raw (t : Table) (vals : List Value) (hl : vals.length = t.schema.length)
    (hv : validateRow t.schema vals = none) : insert t vals = .ok (insertRaw t vals) := by
  unfold insert insertRaw
  simp [hl, hv]

theorem insertRaw_schema (t : Table) (vals : List Value) : (insertRaw t vals).1.schema = t.schema := rfl

theorem validateBatch_cons (schema : List (ColType × Bool)) (vals : List Value) (rest : List (List Value))
    (h : validateBatch schema (vals :: rest) = none) :
    vals.length = schema.length ∧ validateRow schema vals = none ∧ validateBatch schema rest = none := by
  unfold validateBatch at h
  split at h
  · cases h
  · rename_i hl
    split at h
    · cases h
    · rename_i hv
      exact ⟨by simpa using hl, hv, h⟩

/-- the fold of `batch_insert` is the fold of single inserts -/
theorem batchFold_eq_inserts : ∀ (rows : List (List Value)) (t : Table) (acc : List Nat),
    validateBatch t.schema rows = none →
    (rows.foldl batchStep (t, acc)).1 = rows.foldl (fun t v => applyOp t (.insert v)) t := by
  intro rows
  induction rows with
  | nil => intro t acc _; rfl
  | cons vals rest ih =>
    intro t acc h
    obtain ⟨hl, hv, hr⟩ := validateBatch_cons t.schema vals rest h
    rw [List.foldl_cons, List.foldl_cons]
    have e : applyOp t (.insert vals) = (insertRaw t vals).1 := by
      simp only [applyOp, insert_eq_raw t vals hl hv]
    rw [e]
    exact ih (insertRaw t vals).1 _ (by rw [insertRaw_schema]; exact hr)

theorem batchInsert_eq_inserts (t : Table) (rows : List (List Value)) (t' : Table) (ids : List Nat)
    (h : batchInsert t rows = .ok (t', ids)) :
    t' = rows.foldl (fun t v => applyOp t (.insert v)) t := by
  unfold batchInsert at h
  cases hv : validateBatch t.schema rows with
  | some e => simp [hv] at h
  | none =>
    simp only [hv, Except.ok.injEq] at h
    rw [← batchFold_eq_inserts rows t [] hv, h]

theorem insertsFold_preserves : ∀ (rows : List (List Value)) (t : Table), IdxInv t →
    IdxInv (rows.foldl (fun t v => applyOp t (.insert v)) t) := by
  intro rows
  induction rows with
  | nil => intro t hi; exact hi
  | cons vals rest ih =>
    intro t hi
    rw [List.foldl_cons]
    apply ih
    simp only [applyOp]
    cases h : insert t vals with
    | error e => exact hi
    | ok p => obtain ⟨t', id⟩ := p; exact insert_preserves t vals t' id hi h

/-- every operation preserves the invariant; a failing operation leaves the table unchanged -/
theorem applyOp_preserves (t : Table) (op : Op) (hi : IdxInv t) : IdxInv (applyOp t op) := by
  cases op with
  | insert vals =>
    simp only [applyOp]
    cases h : insert t vals with
    | error e => exact hi
    | ok p => obtain ⟨t', id⟩ := p; exact insert_preserves t vals t' id hi h
  | update c sets =>
    simp only [applyOp]
    cases h : update t c sets with
    | error e => exact hi
    | ok p => obtain ⟨t', n⟩ := p; exact update_preserves t c sets t' n hi h
  | delete c => exact delete_preserves t c hi
  | createHash c =>
    simp only [applyOp]
    cases h : createHashIndex t c with
    | error e => exact hi
    | ok t' => exact createHash_preserves t c t' hi h
  | createOrd c =>
    simp only [applyOp]
    cases h : createOrdIndex t c with
    | error e => exact hi
    | ok t' => exact createOrd_preserves t c t' hi h
  | dropHash c =>
    simp only [applyOp]
    cases h : dropHashIndex t c with
    | error e => exact hi
    | ok t' => exact dropHash_preserves t c t' hi h
  | dropOrd c =>
    simp only [applyOp]
    cases h : dropOrdIndex t c with
    | error e => exact hi
    | ok t' => exact dropOrd_preserves t c t' hi h
  | batchInsert rows =>
    simp only [applyOp]
    cases h : batchInsert t rows with
    | error e => exact hi
    | ok p =>
      obtain ⟨t', ids⟩ := p
      simp only
      rw [batchInsert_eq_inserts t rows t' ids h]
      exact insertsFold_preserves rows t hi

theorem idxInv_empty (schema : List (ColType × Bool)) : IdxInv (Table.empty schema) :=
  ⟨⟨by simp [Table.empty], by simp [Table.empty]⟩, by simp [Table.empty], by simp [Table.empty], by simp [Table.empty]⟩

theorem run_inv (schema : List (ColType × Bool)) (ops : List Op) : IdxInv (run schema ops) := by
  unfold run
  suffices ∀ t, IdxInv t → IdxInv (ops.foldl applyOp t) from this _ (idxInv_empty schema)
  induction ops with
  | nil => intro t h; exact h
  | cons op ops ih => intro t h; exact ih _ (applyOp_preserves t op h)

/-! ## delete touches exactly the matching rows -/


theorem deleteFold_rows : ∀ (targets : List RowE) (t : Table),
    (targets.foldl deleteOne t).rows = targets.foldl (fun rows r => killRow r.id rows) t.rows := by
  intro targets; induction targets with
  | nil => intro t; rfl
  | cons r rs ih => intro t; rw [List.foldl_cons, List.foldl_cons, ih]; rfl

theorem killFold_eq_map : ∀ (targets : List RowE) (rows : List RowE),
    targets.foldl (fun rows r => killRow r.id rows) rows =
      rows.map (fun x => if x.id ∈ targets.map (·.id) then { x with alive := false } else x) := by
  intro targets; induction targets with
  | nil => intro rows; simp
  | cons r rs ih =>
    intro rows
    rw [List.foldl_cons, ih]
    unfold killRow
    rw [List.map_map]
    apply List.map_congr_left
    intro x _
    simp only [Function.comp, List.map_cons, List.mem_cons]
    by_cases h1 : x.id = r.id
    · simp [h1]
    · simp [h1]

theorem mem_matching_ids (t : Table) (c : Cond) (h : RowsWF t.rows) (x : RowE) (hx : x ∈ t.rows) :
    x.id ∈ (matching t c).map (·.id) ↔ matchesRow c x = true := by
  unfold matching
  rw [List.mem_map]
  constructor
  · rintro ⟨y, hy, e⟩
    have hy' := List.mem_filter.1 hy
    rw [← id_inj t.rows h.1 y hy'.1 x hx e]; exact hy'.2
  · intro hm; exact ⟨x, List.mem_filter.2 ⟨hx, hm⟩, rfl⟩

theorem delete_rows_eq (t : Table) (c : Cond) (h : RowsWF t.rows) :
    (delete t c).1.rows = t.rows.map (fun x => if matchesRow c x then { x with alive := false } else x) := by
  unfold delete
  simp only
  rw [deleteFold_rows, killFold_eq_map]
  apply List.map_congr_left
  intro x hx
  by_cases hm : matchesRow c x = true
  · simp [(mem_matching_ids t c h x hx).2 hm, hm]
  · have : ¬ x.id ∈ (matching t c).map (·.id) := fun e => hm ((mem_matching_ids t c h x hx).1 e)
    simp only [this, if_false]; simp [hm]

/-! ## index DDL does not touch the rows -/
theorem indexOp_rows (t : Table) (col : ColRef) (op : Op)
    (hop : op = .createHash col ∨ op = .createOrd col ∨ op = .dropHash col ∨ op = .dropOrd col) :
    (applyOp t op).rows = t.rows := by
  rcases hop with h | h | h | h <;> subst h <;> simp only [applyOp]
  · cases h : createHashIndex t col with
    | error e => rfl
    | ok t' =>
      simp only
      unfold createHashIndex at h
      split at h
      · cases h
      · split at h
        · cases h
        · simp only [Except.ok.injEq] at h; subst h; rfl
  · cases h : createOrdIndex t col with
    | error e => rfl
    | ok t' =>
      simp only
      unfold createOrdIndex at h
      split at h
      · cases h
      · split at h
        · cases h
        · simp only [Except.ok.injEq] at h; subst h; rfl
  · cases h : dropHashIndex t col with
    | error e => rfl
    | ok t' =>
      simp only
      unfold dropHashIndex at h
      split at h
      · cases h
      · simp only [Except.ok.injEq] at h; subst h; rfl
  · cases h : dropOrdIndex t col with
    | error e => rfl
    | ok t' =>
      simp only
      unfold dropOrdIndex at h
      split at h
      · cases h
      · simp only [Except.ok.injEq] at h; subst h; rfl
end Neumann.Rel
