import NeumannModel.Rel.BinSearchLemmas
/-
  C04 — property theorems, part 2: index lookups return exactly the matching rows WHATEVER THE ORDER of the row
  ids inside a bucket and whatever history produced it.

  The engine keeps one `Vec<u64>` of row ids per index key (`index_add` pushes unless present, `index_remove`
  retains the others); a B-tree range lookup concatenates the vectors of the keys in range in ascending key
  order.  A vector is in ascending id order only as long as nothing but INSERT / DELETE / CREATE INDEX ran: an
  UPDATE moves a row's id to the END of another key's vector.  Nothing in the code may therefore depend on the
  order of the candidate ids -- and nothing does: every strategy re-checks, then sorts or counts.

  ONLY property statements and their non-vacuity examples live here; helpers are in `BucketLemmas.lean`.
-/
namespace Neumann.Rel.BucketProps
open Neumann.Rel

/-- **the model's index is the code's store of id vectors, order included**: the ids filed under a key, in list
    order, change exactly as the `Vec<u64>` under that key does -- `index_add` / `btree_index_add`
    (`if !ids.contains(&id) { ids.push(id) }`) pushes onto the END of that key's vector and leaves every other
    vector alone, `index_remove` / `btree_index_remove` (`ids.retain(|&x| x != id)`) keeps the order of the
    rest; the hash lookup returns that vector as it stands -/
theorem bucket_is_the_codes_vector {κ : Type} [DecidableEq κ] (ix : Idx κ) (k k' : κ) (id : Nat) :
    bucketOf (idxAdd k id ix) k = vecPush id (bucketOf ix k) ∧
    bucketOf (idxRemove k id ix) k = vecRetain id (bucketOf ix k) ∧
    (k' ≠ k → bucketOf (idxAdd k id ix) k' = bucketOf ix k' ∧ bucketOf (idxRemove k id ix) k' = bucketOf ix k') ∧
    (∀ v : Value, ∀ hx : Idx HKey, hashLookup hx v = bucketOf hx (hashKey v)) :=
  ⟨bucketOf_idxAdd_same k id ix, bucketOf_idxRemove_same k id ix,
   fun h => ⟨bucketOf_idxAdd_other k k' id ix h, bucketOf_idxRemove_other k k' id ix h⟩, fun _ _ => rfl⟩

example : vecPush 1 [5, 6] = [5, 6, 1] ∧ vecPush 5 [5, 6] = [5, 6] ∧ vecRetain 5 [5, 6, 1] = [6, 1] := by decide

/-- two rows in `ops` (c0 = 0), two in `eng` (c0 = 1), everybody on level 3 (c1); hash indexes on both columns
    (level first, then dept); then the first two rows move to `eng`.  The minimal history of its kind has one
    row on each side (`moveOps1`). -/
def moveSchema : List (ColType × Bool) := [(.int, false), (.int, false)]
def moveOps : List Op :=
  [.insert [.int 0, .int 3], .insert [.int 0, .int 3], .insert [.int 1, .int 3], .insert [.int 1, .int 3],
   .createHash (.col 1), .createHash (.col 0),
   .update (.rng .le .id (.int 2)) [(0, .int 1)]]
def moveOps1 : List Op :=
  [.insert [.int 0, .int 3], .insert [.int 1, .int 3], .createHash (.col 1), .createHash (.col 0),
   .update (.eq .id (.int 1)) [(0, .int 1)]]
/-- the same rows with the indexes created AFTER the move -/
def moveOpsLate : List Op :=
  [.insert [.int 0, .int 3], .insert [.int 0, .int 3], .insert [.int 1, .int 3], .insert [.int 1, .int 3],
   .update (.rng .le .id (.int 2)) [(0, .int 1)],
   .createHash (.col 1), .createHash (.col 0)]
def moveQuery : Cond := .and (.eq (.col 1) (.int 3)) (.eq (.col 0) (.int 1))

/-- **buckets do get out of id order, and their order is a matter of history**: after the move the vector of
    `c0 = 1` is `[3, 4, 1, 2]`; the same table with the index created after the move has `[1, 2, 3, 4]`; a
    delete followed by re-inserts, an update in the other direction (high ids into a bucket of low ids) and a
    same-value update (the id goes to the end of its own vector) reorder as well; a B-tree range lookup
    returns its candidates by key, not by id -/
theorem bucket_order_depends_on_history_witness :
    tryIndexLookupT (run moveSchema moveOps) (.eq (.col 0) (.int 1)) = some [3, 4, 1, 2] ∧
    tryIndexLookupT (run moveSchema moveOpsLate) (.eq (.col 0) (.int 1)) = some [1, 2, 3, 4] ∧
    (run moveSchema moveOps).rows = (run moveSchema moveOpsLate).rows ∧
    tryIndexLookupT (run moveSchema (moveOps ++ [.update (.eq .id (.int 3)) [(0, .int 1)]]))
      (.eq (.col 0) (.int 1)) = some [4, 1, 2, 3] ∧
    tryIndexLookupT (run moveSchema (moveOps ++ [.update (.rng .ge .id (.int 4)) [(0, .int 0)],
        .update (.eq .id (.int 1)) [(0, .int 0)]])) (.eq (.col 0) (.int 0)) = some [4, 1] ∧
    tryIndexLookupT (run moveSchema ([.createOrd (.col 0)] ++ moveOps ++ [.insert [.int 0, .int 3]]))
      (.rng .ge (.col 0) (.int 0)) = some [5, 3, 4, 1, 2] := by
  decide

/-- **the key-ordered B-tree range lookup** (what `btree.range(..)` + `extend` produces) lists exactly the ids
    the model's `rangeLookup` lists, in another order; with it `try_index_lookup` takes the same plan -/
theorem tree_range_lookup_is_permutation (ix : Idx OKey) (op : RangeOp) (v : Value) (t : Table) (c : Cond) :
    (rangeLookupTree ix op v).Perm (rangeLookup ix op v) ∧
    ((tryIndexLookupT t c = none ∧ tryIndexLookup t c = none) ∨
     ∃ ids' ids, tryIndexLookupT t c = some ids' ∧ tryIndexLookup t c = some ids ∧ ids'.Perm ids) :=
  ⟨rangeLookupTree_perm ix op v, tryIndexLookupT_perm t c⟩

/-- the model's B-tree keys are the map's keys: `OrderedKey`'s `Ord` calls two keys equal exactly when their
    `OKey`s are equal (both float zeros one key, all NaNs one key -- by construction of `ordKey`), so grouping the
    entries by `OKey` is grouping them by `BTreeMap` key -/
theorem btree_keys_are_ord_classes (a b : OKey) : OKey.cmp a b = .eq ↔ a = b :=
  okey_cmp_eq_iff a b

example : ordKey (.float 0) = ordKey (.float 9223372036854775808) ∧ ordKey (.float 0) ≠ ordKey (.float 1) := by decide

example : rangeLookupTree [(.int 5, 1), (.int 2, 2), (.int 5, 3), (.int 2, 4)] .ge (.int 0) = [2, 4, 1, 3] ∧
    rangeLookup [(.int 5, 1), (.int 2, 2), (.int 5, 3), (.int 2, 4)] .ge (.int 0) = [1, 2, 3, 4] := by decide

/-- **no answer depends on the order of the candidate ids**: in every reachable state, for every condition
    tree and EVERY reordering `ids'` of the ids the index lookup yields, the index path of `select` (fetch,
    re-check, sort), of `select_with_limit` (the window of that), of `count` (the length), of `count_column`
    (the re-checked rows with a non-NULL column) and the row records handed to `sum` / `avg` / `min` / `max`
    are those of the specification -/
theorem candidate_order_never_matters (schema : List (ColType × Bool)) (ops : List Op) (c : Cond)
    (ids ids' : List Nat) (h : tryIndexLookup (run schema ops) c = some ids) (hp : ids'.Perm ids) :
    let t := run schema ops
    selectViaIds t c ids' = spec t c ∧
    (∀ l o, ((selectViaIds t c ids').drop o).take l = ((spec t c).drop o).take l) ∧
    ((fetch t ids').filter (fun r => evaluate c r.id r.vals)).length = (spec t c).length ∧
    (∀ i, ((fetch t ids').filter (fun r => evaluate c r.id r.vals && nonNull i r)).length =
        ((specRows t c).filter (nonNull i)).length) ∧
    sortRows ((fetch t ids').filter (fun r => evaluate c r.id r.vals)) = specRows t c := by
  intro t
  have hi : IdxInv t := run_inv schema ops
  have hc : Cands t c ids' := cands_perm t c ids ids' (cands_of_lookup t hi c ids h) hp
  have hsel := selectViaIds_eq_spec t c ids' hi.1 hc.1 hc.2
  exact ⟨hsel, fun l o => by rw [hsel], countViaIds_plain t hi.1 c ids' hc,
    fun i => countViaIds_eq t hi.1 c ids' hc (nonNull i), rowsViaIds_eq t hi.1 c ids' hc⟩

example : tryIndexLookup (run moveSchema moveOps) moveQuery = some [1, 2, 3, 4] := by decide
example : selectViaIds (run moveSchema moveOps) moveQuery [4, 2, 3, 1] = [1, 2, 3, 4] := by decide

/-- ... in particular with the candidates in the order the code produces them (hash vector as it stands, B-tree
    vectors in key order): `select` over them is the specification, and the plan (index or scan) is the model's -/
theorem code_order_candidates_agree (schema : List (ColType × Bool)) (ops : List Op) (c : Cond) :
    let t := run schema ops
    selectT t c = spec t c ∧ selectT t c = select t c ∧
    ((tryIndexLookupT t c).isSome = (tryIndexLookup t c).isSome) := by
  intro t
  have hi : IdxInv t := run_inv schema ops
  have hsel : selectT t c = spec t c := by
    unfold selectT
    rcases tryIndexLookupT_perm t c with ⟨h1, _⟩ | ⟨ids', ids, h1, h2, hp⟩
    · rw [h1]; exact scanSelect_eq_spec t c hi.1
    · rw [h1]
      have hc := cands_perm t c ids ids' (cands_of_lookup t hi c ids h2) hp
      exact selectViaIds_eq_spec t c ids' hi.1 hc.1 hc.2
  refine ⟨hsel, by rw [hsel, select_eq_spec t hi c], ?_⟩
  rcases tryIndexLookupT_perm t c with ⟨h1, h2⟩ | ⟨ids', ids, h1, h2, _⟩ <;> simp [h1, h2]

example : selectT (run moveSchema ([.createOrd (.col 0)] ++ moveOps)) (.rng .ge (.col 0) (.int 0)) = [1, 2, 3, 4] := by
  decide

/-- **bucket order never matters, table-wide**: take any reachable state and reorder the entries of every
    index arbitrarily (any order inside every bucket, any interleaving of the buckets) -- every strategy
    (select by hash lookup or B-tree range, limit / offset, count, streaming cursor, columnar, `select_iter`,
    cursor with `max_rows`, the router's text paths, `count_column`, the row records of the aggregates) returns
    on the reordered state exactly what it returns on the original one: the rows for which the condition is
    true -/
theorem bucket_order_never_matters (schema : List (ColType × Bool)) (ops : List Op) (t' : Table) (c : Cond)
    (hr : t'.rows = (run schema ops).rows) (hs : t'.schema = (run schema ops).schema)
    (hh : Reordered (run schema ops).hidx t'.hidx) (ho : Reordered (run schema ops).oidx t'.oidx) :
    let t := run schema ops
    select t' c = spec t c ∧
    (∀ l o, selectLimit t' c l o = ((spec t c).drop o).take l) ∧
    count t' c = (spec t c).length ∧
    (∀ b, 0 < b → cursorSelect t' c b = spec t c) ∧
    columnarSelect t' c = spec t c ∧
    (∀ l o, selectIter t' c l o = selectIter t c l o) ∧
    (∀ b m, 0 < b → cursorSelectMax t' c b m = cursorSelectMax t c b m) ∧
    (∀ l o, routerSelect t' c l o = routerSelect t c l o) ∧
    (∀ l, routerSelectLegacy t' c l = routerSelectLegacy t c l) ∧
    selectRows t' c = specRows t c ∧
    (∀ i, countColumn t' i c = countColumn t i c) := by
  intro t
  have hi : IdxInv t := run_inv schema ops
  have hi' : IdxInv t' := idxInv_reordered t t' hi hr hs hh ho
  have hspec : spec t' c = spec t c := by unfold spec; rw [hr]
  have hspecR : specRows t' c = specRows t c := by unfold specRows; rw [hr]
  refine ⟨?_, ?_, ?_, ?_, ?_, ?_, ?_, ?_, ?_, ?_, ?_⟩
  · rw [select_eq_spec t' hi' c, hspec]
  · intro l o; rw [selectLimit_eq t' hi' c, hspec]
  · rw [count_eq t' hi' c, hspec]
  · intro b hb; rw [cursorSelect_eq t' hi' c b hb, hspec]
  · rw [columnarSelect_eq t' hi' c, hspec]
  · intro l o; rw [selectIter_eq t' hi' c, selectIter_eq t hi c, hspec]
  · intro b m hb; rw [cursorSelectMax_eq t' hi' c b hb, cursorSelectMax_eq t hi c b hb, hspec]
  · intro l o; rw [routerSelect_eq t' hi' c, routerSelect_eq t hi c, hspec]
  · intro l; rw [routerSelectLegacy_eq t' hi' c, routerSelectLegacy_eq t hi c, hspec]
  · rw [selectRows_eq_specRows t' hi' c, hspecR]
  · intro i
    by_cases hcol : i < t.schema.length
    · rw [countColumn_eq t' hi' i c (hs ▸ hcol), countColumn_eq t hi i c hcol, hspecR]
    · have hl : t'.schema.length = t.schema.length := by rw [hs]
      unfold countColumn
      rw [if_pos (by omega), if_pos (by omega)]

/-- the hypothesis is inhabited non-trivially: the moved table with the `c0` index listed backwards -/
example : Reordered (run moveSchema moveOps).hidx
    [(.col 1, [(.i 3, 1), (.i 3, 2), (.i 3, 3), (.i 3, 4)]), (.col 0, [(.i 1, 2), (.i 1, 1), (.i 1, 4), (.i 1, 3)])] := by
  intro c ix' hm
  simp only [List.mem_cons, Prod.mk.injEq, List.not_mem_nil, or_false] at hm
  rcases hm with ⟨rfl, rfl⟩ | ⟨rfl, rfl⟩
  · exact ⟨_, by decide, List.Perm.refl _⟩
  · refine ⟨[(.i 1, 3), (.i 1, 4), (.i 1, 1), (.i 1, 2)], by decide, ?_⟩
    decide

/-- **a two-index path for `a AND b` that narrows `a`'s candidates by MEMBERSHIP in `b`'s bucket is sound** in
    every reachable state (the narrowed list is still duplicate-free and contains every matching row, so
    every strategy over it returns the specification) -/
theorem narrowing_by_membership_is_sound (schema : List (ColType × Bool)) (ops : List Op) (c : Cond) :
    let t := run schema ops
    selectNarrow (fun l x => l.contains x) t c = spec t c ∧
    countNarrow (fun l x => l.contains x) t c = (spec t c).length := by
  intro t
  have hi : IdxInv t := run_inv schema ops
  have hscan : ((scanAll t).filter (fun r => evaluate c r.id r.vals)).length = (spec t c).length := by
    rw [← scanFilter_map_id, List.length_map]
  have hidx : ∀ ids, tryIndexLookupNarrow (fun l x => l.contains x) t c = some ids →
      ((fetch t ids).filter (fun r => evaluate c r.id r.vals)).length = (spec t c).length := by
    intro ids h
    exact countViaIds_plain t hi.1 c ids (narrow_contains_sound t hi c ids h)
  constructor
  · unfold selectNarrow
    cases h : tryIndexLookupNarrow (fun l x => l.contains x) t c with
    | none => exact scanSelect_eq_spec t c hi.1
    | some ids =>
      obtain ⟨hn, hsup⟩ := narrow_contains_sound t hi c ids h
      exact selectViaIds_eq_spec t c ids hi.1 hn hsup
  · unfold countNarrow
    cases c with
    | tt => simpa [evaluate, scanAll] using hscan
    | eq col v => cases h : tryIndexLookupNarrow (fun l x => l.contains x) t (.eq col v) with
      | some ids => exact hidx ids h
      | none => exact hscan
    | ne col v => cases h : tryIndexLookupNarrow (fun l x => l.contains x) t (.ne col v) with
      | some ids => exact hidx ids h
      | none => exact hscan
    | rng op col v => cases h : tryIndexLookupNarrow (fun l x => l.contains x) t (.rng op col v) with
      | some ids => exact hidx ids h
      | none => exact hscan
    | and a b => cases h : tryIndexLookupNarrow (fun l x => l.contains x) t (.and a b) with
      | some ids => exact hidx ids h
      | none => exact hscan
    | or a b => cases h : tryIndexLookupNarrow (fun l x => l.contains x) t (.or a b) with
      | some ids => exact hidx ids h
      | none => exact hscan

example : tryIndexLookupNarrow (fun l x => l.contains x) (run moveSchema moveOps) moveQuery = some [1, 2, 3, 4] := by
  decide

/-- **the same path with a BINARY SEARCH in `b`'s bucket** (`bucket.binary_search(&id).is_ok()`, which assumes
    ascending vectors) **loses rows**: on the moved table `level = 3 AND dept = eng` is true of all four rows,
    the narrowed index path returns rows 1 and 2 only (3 and 4 stand before 1 and 2 in the vector and the search
    never looks there) -- select and count alike; one row on each side is enough; the same rows with the
    indexes created after the move are answered correctly (so insert-only tests, tests with one index, and
    tests that build the index last do not see it) -/
theorem narrowing_by_binary_search_loses_rows_witness :
    spec (run moveSchema moveOps) moveQuery = [1, 2, 3, 4] ∧
    select (run moveSchema moveOps) moveQuery = [1, 2, 3, 4] ∧
    selectNarrow binSearch (run moveSchema moveOps) moveQuery = [1, 2] ∧
    countNarrow binSearch (run moveSchema moveOps) moveQuery = 2 ∧
    spec (run moveSchema moveOps1) moveQuery = [1, 2] ∧
    selectNarrow binSearch (run moveSchema moveOps1) moveQuery = [1] ∧
    selectNarrow binSearch (run moveSchema moveOpsLate) moveQuery = [1, 2, 3, 4] := by
  decide

/-- **`binary_search` is membership exactly when the vector is ascending**: the loop of
    `core::slice::binary_search_by` finds `x` in a strictly ascending list iff `x` is a member -/
theorem binary_search_is_membership_on_ascending (l : List Nat) (hs : StrictAsc l) (x : Nat) :
    binSearch l x = l.contains x :=
  binSearch_eq_contains l hs x

example : StrictAsc [1, 2, 5, 9] ∧ binSearch [1, 2, 5, 9] 5 = true ∧ binSearch [1, 2, 5, 9] 4 = false := by
  refine ⟨by unfold StrictAsc; decide, by decide, by decide⟩
/-- ... and not otherwise -/
example : binSearch [3, 4, 1, 2] 3 = false ∧ [3, 4, 1, 2].contains 3 = true := by decide

/-- **what the binary-search narrowing needs to go wrong is an UPDATE (or a rollback)**: in every history of
    inserts, batch inserts, deletes and index creations / drops -- no UPDATE -- every id vector of every index is
    in ascending id order (new ids are the largest, `create_index` scans in id order, removing keeps the order),
    and the binary-search narrowing then returns exactly the matching rows.  So insert-only tests, tests that
    delete, and tests that build their indexes last all pass with it; `narrowing_by_binary_search_loses_rows_witness`
    has one UPDATE, `rollback_reorders_bucket_witness` one rolled-back DELETE -/
theorem binary_search_narrowing_sound_without_updates (schema : List (ColType × Bool)) (ops : List Op)
    (hno : ∀ op ∈ ops, op.isUpdate = false) (c : Cond) :
    let t := run schema ops
    (∀ col ix k, (col, ix) ∈ t.hidx → StrictAsc (bucketOf ix k)) ∧
    (∀ col ix k, (col, ix) ∈ t.oidx → StrictAsc (bucketOf ix k)) ∧
    selectNarrow binSearch t c = spec t c ∧ countNarrow binSearch t c = (spec t c).length := by
  intro t
  have hs : SortedInv t := run_sorted schema ops hno
  have he := narrow_bin_eq_contains t hs
  obtain ⟨h1, h2⟩ := narrowing_by_membership_is_sound schema ops c
  refine ⟨fun col ix k hm => sortedIdx_bucket ix (hs.1 col ix hm) k,
    fun col ix k hm => sortedIdx_bucket ix (hs.2 col ix hm) k, ?_, ?_⟩
  · rw [← h1]; unfold selectNarrow; rw [he c]
  · rw [← h2]; unfold countNarrow; rw [he c]

/-- a history without UPDATE: inserts, a delete in the middle, a batch, indexes before and after -/
def noUpdateOps : List Op :=
  [.createHash (.col 0), .insert [.int 1, .int 3], .insert [.int 0, .int 3], .insert [.int 1, .int 3],
   .createHash (.col 1), .delete (.eq .id (.int 2)), .batchInsert [[.int 1, .int 3], [.int 1, .int 4]],
   .dropHash (.col 0), .createHash (.col 0)]
example : ∀ op ∈ noUpdateOps, op.isUpdate = false := by decide
example : tryIndexLookupNarrow binSearch (run moveSchema noUpdateOps) moveQuery = some [1, 3, 4] := by decide

/-! ### histories with rolled-back statements (`begin_transaction; tx_delete / tx_update; rollback`) -/

/-- **a rolled-back DELETE / UPDATE changes no row** -- in every state reachable by inserts, updates, deletes,
    index DDL AND rolled-back statements, the table after `begin; DELETE / UPDATE ... WHERE c; rollback` has the
    same slab and schema, the statement reported exactly the matching rows while it ran, the index invariant
    holds again (only the ORDER inside the id vectors differs: the restored ids are pushed onto the end) -/
theorem rolled_back_statement_changes_no_row (schema : List (ColType × Bool)) (xops : List XOp) (c : Cond)
    (sets : List (Nat × Value)) :
    let t := runX schema xops
    (deleteRolledBack t c).rows = t.rows ∧ (deleteRolledBack t c).schema = t.schema ∧
    IdxInv (deleteRolledBack t c) ∧
    (∀ t' n, updateRolledBack t c sets = .ok (t', n) →
      t'.rows = t.rows ∧ t'.schema = t.schema ∧ n = (spec t c).length ∧ IdxInv t') ∧
    (∀ e, updateRolledBack t c sets = .error e → update t c sets = .error e ∧ applyX t (.updateRollback c sets) = t) := by
  intro t
  have hi : IdxInv t := runX_inv schema xops
  refine ⟨deleteRolledBack_rows t c hi.1, ?_, deleteRolledBack_preserves t c hi, ?_, ?_⟩
  · unfold deleteRolledBack; rw [restoreFold_schema, deleteFold_schema]
  · intro t' n h
    obtain ⟨h1, h2, h3⟩ := updateRolledBack_rows t c sets t' n hi.1 h
    refine ⟨h1, h2, ?_, updateRolledBack_preserves t c sets t' n hi h⟩
    rw [h3]; simp [matching, spec]
  · intro e h
    refine ⟨?_, by simp only [applyX, h]⟩
    unfold updateRolledBack at h
    unfold update
    cases hv : validateSets t.schema sets with
    | some e' => simp only [hv, Except.error.injEq] at h ⊢; exact h
    | none => simp [hv] at h

/-- a history with both kinds of rolled-back statement -/
def rbSchema : List (ColType × Bool) := [(.int, false), (.int, false)]
def rbOps : List XOp :=
  [.base (.createHash (.col 0)), .base (.createHash (.col 1)),
   .base (.insert [.int 1, .int 3]), .base (.insert [.int 1, .int 3]), .base (.insert [.int 1, .int 3]),
   .base (.insert [.int 1, .int 4]),
   .deleteRollback (.rng .le .id (.int 2))]

example : (runX rbSchema rbOps).rows = (runX rbSchema (rbOps.take 6)).rows := by decide
example : updateRolledBack (runX rbSchema rbOps) .tt [(5, .int 1)] = .error .colNotFound := by decide

/-- **rolled-back statements reorder buckets too**: the undo log is applied backwards and every restored id is
    pushed onto the end of its vector -- after `begin; DELETE WHERE _id <= 2; rollback` the vector of `c0 = 1` is
    `[3, 4, 2, 1]` (no UPDATE ever ran); a rolled-back UPDATE of row 3 then gives `[4, 2, 1, 3]`; the binary-search
    narrowing loses every row on this history, the code's lookup and the membership narrowing lose none -/
theorem rollback_reorders_bucket_witness :
    tryIndexLookupT (runX rbSchema rbOps) (.eq (.col 0) (.int 1)) = some [3, 4, 2, 1] ∧
    tryIndexLookupT (runX rbSchema (rbOps ++ [.updateRollback (.eq .id (.int 3)) [(0, .int 2)]]))
      (.eq (.col 0) (.int 1)) = some [4, 2, 1, 3] ∧
    spec (runX rbSchema rbOps) moveQuery = [1, 2, 3] ∧
    select (runX rbSchema rbOps) moveQuery = [1, 2, 3] ∧
    selectNarrow (fun l x => l.contains x) (runX rbSchema rbOps) moveQuery = [1, 2, 3] ∧
    selectNarrow binSearch (runX rbSchema rbOps) moveQuery = [] := by
  decide

/-- **strategies agree in every history with rolled-back statements**: every strategy returns exactly the rows
    for which the condition is true, also with the candidates in the code's order -/
theorem strategies_agree_with_rollbacks (schema : List (ColType × Bool)) (xops : List XOp) (c : Cond) :
    let t := runX schema xops
    select t c = spec t c ∧ selectT t c = spec t c ∧
    (∀ limit offset, selectLimit t c limit offset = ((spec t c).drop offset).take limit) ∧
    count t c = (spec t c).length ∧
    (∀ batch, 0 < batch → cursorSelect t c batch = spec t c) ∧
    columnarSelect t c = spec t c ∧
    selectRows t c = specRows t c ∧
    (∀ i, i < t.schema.length → countColumn t i c = .ok ((specRows t c).filter (nonNull i)).length) ∧
    (∀ limit offset, routerSelect t c limit offset =
        (let rows := match offset with | some o => (spec t c).drop o | none => spec t c
         match limit with | some l => rows.take l | none => rows)) := by
  intro t
  have hi : IdxInv t := runX_inv schema xops
  have hT : selectT t c = spec t c := by
    unfold selectT
    rcases tryIndexLookupT_perm t c with ⟨h1, _⟩ | ⟨ids', ids, h1, h2, hp⟩
    · rw [h1]; exact scanSelect_eq_spec t c hi.1
    · rw [h1]
      have hc := cands_perm t c ids ids' (cands_of_lookup t hi c ids h2) hp
      exact selectViaIds_eq_spec t c ids' hi.1 hc.1 hc.2
  exact ⟨select_eq_spec t hi c, hT, selectLimit_eq t hi c, count_eq t hi c,
    fun b hb => cursorSelect_eq t hi c b hb, columnarSelect_eq t hi c, selectRows_eq_specRows t hi c,
    fun i hcol => countColumn_eq t hi i c hcol, routerSelect_eq t hi c⟩

example : select (runX rbSchema rbOps) moveQuery = [1, 2, 3] ∧ count (runX rbSchema rbOps) moveQuery = 3 := by decide

end Neumann.Rel.BucketProps
