import NeumannModel.Rel.Preserve
/-
  C04 helper lemmas, second part: the closed form of UPDATE, `select` on row records and the aggregates that
  fold over it, `count_column`, `select_iter`, the streaming cursor with `max_rows`, the router's OFFSET / LIMIT
  and `evaluate_with_depth` (`max_condition_depth`).
-/
namespace Neumann.Rel

/-! ## UPDATE rewrites exactly the matching rows -/

theorem updateFold_rows (sets : List (Nat × Value)) : ∀ (targets : List RowE) (t : Table),
    (targets.foldl (updateOne sets) t).rows =
      targets.foldl (fun rows r => setRow r.id (applySetsFrom sets 0 r.vals) rows) t.rows := by
  intro targets; induction targets with
  | nil => intro t; rfl
  | cons r rs ih => intro t; rw [List.foldl_cons, List.foldl_cons, ih]; rfl

theorem setFold_eq_map (sets : List (Nat × Value)) : ∀ (targets : List RowE) (rows : List RowE),
    (targets.map (·.id)).Nodup →
    (∀ r ∈ targets, ∀ x ∈ rows, x.id = r.id → x.vals = r.vals) →
    targets.foldl (fun rows r => setRow r.id (applySetsFrom sets 0 r.vals) rows) rows =
      rows.map (fun x => if x.id ∈ targets.map (·.id) then { x with vals := applySetsFrom sets 0 x.vals } else x) := by
  intro targets
  induction targets with
  | nil => intro rows _ _; simp
  | cons r rs ih =>
    intro rows hn hv
    rw [List.map_cons, List.nodup_cons] at hn
    rw [List.foldl_cons, ih _ hn.2]
    · unfold setRow
      rw [List.map_map]
      apply List.map_congr_left
      intro x hx
      simp only [Function.comp, List.map_cons, List.mem_cons]
      by_cases h1 : x.id = r.id
      · have hvals : x.vals = r.vals := hv r (by simp) x hx h1
        have hnot : ¬ r.id ∈ rs.map (·.id) := hn.1
        simp [h1, hnot, hvals]
      · simp [h1]
    · intro r2 h2 x' hx' hid
      unfold setRow at hx'
      obtain ⟨x0, hx0, e⟩ := List.mem_map.1 hx'
      have hne : r2.id ≠ r.id := fun e' => hn.1 (List.mem_map.2 ⟨r2, h2, e'⟩)
      by_cases h0 : x0.id = r.id
      · rw [if_pos h0] at e
        subst e
        simp only at hid
        exact absurd (hid.symm.trans h0) hne
      · rw [if_neg h0] at e
        subst e
        exact hv r2 (List.mem_cons_of_mem _ h2) x0 hx0 hid

theorem update_rows_eq (t : Table) (c : Cond) (sets : List (Nat × Value)) (t' : Table) (n : Nat)
    (hw : RowsWF t.rows) (h : update t c sets = .ok (t', n)) :
    t'.rows = t.rows.map (fun x => if matchesRow c x then { x with vals := applySetsFrom sets 0 x.vals } else x) := by
  unfold update at h
  cases hv : validateSets t.schema sets with
  | some e => simp [hv] at h
  | none =>
    simp only [hv, Except.ok.injEq, Prod.mk.injEq] at h
    obtain ⟨rfl, _⟩ := h
    rw [updateFold_rows, setFold_eq_map sets _ _ (matching_ids_nodup t c hw)]
    · apply List.map_congr_left
      intro x hx
      by_cases hm : matchesRow c x = true
      · simp [(mem_matching_ids t c hw x hx).2 hm, hm]
      · have : ¬ x.id ∈ (matching t c).map (·.id) := fun e => hm ((mem_matching_ids t c hw x hx).1 e)
        simp only [this, if_false]; simp [hm]
    · intro r hr x hx hid
      have hr' := (List.mem_filter.1 hr).1
      rw [id_inj t.rows hw.1 x hx r hr' hid]

/-! ## `select` on row records -/

theorem mem_insertSortedRow (x y : RowE) (l : List RowE) : y ∈ insertSortedRow x l ↔ y = x ∨ y ∈ l := by
  induction l with
  | nil => simp [insertSortedRow]
  | cons z zs ih =>
    unfold insertSortedRow; split
    · simp
    · simp [ih]; constructor <;> (intro h; rcases h with h | h | h <;> simp_all)

theorem mem_sortRows (y : RowE) (l : List RowE) : y ∈ sortRows l ↔ y ∈ l := by
  induction l with
  | nil => simp [sortRows]
  | cons x xs ih => simp [sortRows, mem_insertSortedRow, ih]

theorem insertSortedRow_ids (x : RowE) (l : List RowE) :
    (insertSortedRow x l).map (·.id) = insertSorted x.id (l.map (·.id)) := by
  induction l with
  | nil => rfl
  | cons y ys ih =>
    unfold insertSortedRow
    simp only [List.map_cons]
    unfold insertSorted
    split
    · rfl
    · simp [ih]

theorem sortRows_ids (l : List RowE) : (sortRows l).map (·.id) = sortIds (l.map (·.id)) := by
  induction l with
  | nil => rfl
  | cons x xs ih => simp only [sortRows, List.map_cons, sortIds, insertSortedRow_ids, ih]

/-- two lists of rows of the same table with the same id sequence are equal -/
theorem eq_of_ids_eq (rows : List RowE) (hw : (rows.map (·.id)).Pairwise (· < ·)) :
    ∀ (l1 l2 : List RowE), (∀ r ∈ l1, r ∈ rows) → (∀ r ∈ l2, r ∈ rows) →
      l1.map (·.id) = l2.map (·.id) → l1 = l2 := by
  intro l1
  induction l1 with
  | nil => intro l2 _ _ h; cases l2 with
    | nil => rfl
    | cons y ys => simp at h
  | cons x xs ih =>
    intro l2 h1 h2 h
    cases l2 with
    | nil => simp at h
    | cons y ys =>
      simp only [List.map_cons, List.cons.injEq] at h
      have hxy : x = y := id_inj rows hw x (h1 x (by simp)) y (h2 y (by simp)) h.1
      subst hxy
      congr 1
      exact ih ys (fun r hr => h1 r (List.mem_cons_of_mem _ hr)) (fun r hr => h2 r (List.mem_cons_of_mem _ hr)) h.2

theorem selectRows_ids (t : Table) (c : Cond) : (selectRows t c).map (·.id) = select t c := by
  unfold selectRows select selectViaIds scanSelect
  cases tryIndexLookup t c <;> simp only [sortRows_ids]

theorem selectRows_eq_specRows (t : Table) (hi : IdxInv t) (c : Cond) : selectRows t c = specRows t c := by
  apply eq_of_ids_eq t.rows hi.1.1
  · intro r hr
    unfold selectRows at hr
    cases h : tryIndexLookup t c with
    | some ids =>
      simp only [h, mem_sortRows, List.mem_filter] at hr
      exact ((fetch_mem t ids hi.1 r).1 hr.1).1
    | none =>
      simp only [h, mem_sortRows, List.mem_filter, scanAll] at hr
      exact hr.1.1
  · intro r hr; exact (List.mem_filter.1 hr).1
  · rw [selectRows_ids, select_eq_spec t hi c]; rfl

/-! ## aggregates -/

theorem aggregates_eq (t : Table) (hi : IdxInv t) (i : Nat) (c : Cond) :
    aggSumTerms t i c = sumTerms i (specRows t c) ∧
    aggMin t i c = extremeOf .lt i (specRows t c) ∧
    aggMax t i c = extremeOf .gt i (specRows t c) := by
  unfold aggSumTerms aggMin aggMax
  rw [selectRows_eq_specRows t hi c]
  exact ⟨rfl, rfl, rfl⟩

theorem filter_and_length (rows : List RowE) (p q : RowE → Bool) :
    (rows.filter (fun r => p r && q r)).length = ((rows.filter p).filter q).length := by
  rw [List.filter_filter]
  congr 1
  apply List.filter_congr
  intro r _
  exact Bool.and_comm _ _

set_option linter.unusedSimpArgs false in
/-- the re-checked fetch of an index lookup is, up to order, the matching rows: same length after any
    further filter -/
theorem fetch_filter_perm_length (t : Table) (hi : IdxInv t) (c : Cond) (ids : List Nat)
    (h : tryIndexLookup t c = some ids) (q : RowE → Bool) :
    (((fetch t ids).filter (fun r => evaluate c r.id r.vals)).filter q).length =
      ((specRows t c).filter q).length := by
  obtain ⟨hn, hs⟩ := lookup_sound t hi c ids h
  have hsel : sortRows ((fetch t ids).filter (fun r => evaluate c r.id r.vals)) = specRows t c := by
    have := selectRows_eq_specRows t hi c
    unfold selectRows at this
    simpa [h] using this
  rw [← hsel]
  -- sorting is a permutation, so the filtered lengths agree
  have key : ∀ l : List RowE, ((sortRows l).filter q).length = (l.filter q).length := by
    intro l
    induction l with
    | nil => rfl
    | cons x xs ih =>
      have ins : ∀ (m : List RowE), ((insertSortedRow x m).filter q).length = ((x :: m).filter q).length := by
        intro m
        induction m with
        | nil => rfl
        | cons y ys ihm =>
          unfold insertSortedRow
          split
          · rfl
          · simp only [List.filter_cons] at ihm ⊢
            cases hx : q x <;> cases hy : q y <;> simp [hx, hy] at ihm ⊢ <;> omega
      simp only [sortRows]
      rw [ins, List.filter_cons, List.filter_cons]
      cases q x <;> simp [ih]
  exact (key _).symm

theorem countColumn_eq (t : Table) (hi : IdxInv t) (i : Nat) (c : Cond) (hcol : i < t.schema.length) :
    countColumn t i c = .ok ((specRows t c).filter (nonNull i)).length := by
  have hscan : ∀ c : Cond, ((scanAll t).filter (fun r => evaluate c r.id r.vals && nonNull i r)).length =
      ((specRows t c).filter (nonNull i)).length := by
    intro c
    rw [filter_and_length]
    congr 2
    unfold scanAll specRows
    rw [List.filter_filter]
    apply List.filter_congr
    intro r _
    simp [matchesRow, Bool.and_comm]
  have hidx : ∀ ids, tryIndexLookup t c = some ids →
      ((fetch t ids).filter (fun r => evaluate c r.id r.vals && nonNull i r)).length =
        ((specRows t c).filter (nonNull i)).length := by
    intro ids h
    rw [filter_and_length]
    exact fetch_filter_perm_length t hi c ids h (nonNull i)
  unfold countColumn
  rw [if_neg (by omega)]
  cases c with
  | tt =>
    simp only
    congr 3
    unfold scanAll specRows
    apply List.filter_congr
    intro r _
    simp [matchesRow, evaluate]
  | eq col v => cases h : tryIndexLookup t (.eq col v) with
    | some ids => simp only [hidx ids h]
    | none => simp only [hscan]
  | ne col v => cases h : tryIndexLookup t (.ne col v) with
    | some ids => simp only [hidx ids h]
    | none => simp only [hscan]
  | rng op col v => cases h : tryIndexLookup t (.rng op col v) with
    | some ids => simp only [hidx ids h]
    | none => simp only [hscan]
  | and a b => cases h : tryIndexLookup t (.and a b) with
    | some ids => simp only [hidx ids h]
    | none => simp only [hscan]
  | or a b => cases h : tryIndexLookup t (.or a b) with
    | some ids => simp only [hidx ids h]
    | none => simp only [hscan]

/-! ## select_iter, cursor with max_rows, router OFFSET / LIMIT -/

theorem selectIter_eq (t : Table) (hi : IdxInv t) (c : Cond) (limit : Option Nat) (offset : Nat) :
    selectIter t c limit offset =
      (match limit with
       | some l => ((spec t c).drop offset).take l
       | none => (spec t c).drop offset) := by
  unfold selectIter
  cases limit with
  | some l => exact selectLimit_eq t hi c l offset
  | none =>
    simp only [select_eq_spec t hi c]
    split
    · split
      · rename_i h; exact (List.drop_eq_nil_of_le h).symm
      · rfl
    · rename_i h
      have : offset = 0 := by omega
      subst this; rfl

theorem pagesMax_window (l : List Nat) (batch : Nat) (hb : 0 < batch) (m : Nat) :
    ∀ fuel off y, l.length - off < fuel →
      pagesMax (fun n o => (l.drop o).take n) batch (some m) fuel off y = (l.drop off).take (m - y) := by
  intro fuel
  induction fuel with
  | zero => intro off y h; omega
  | succ f ih =>
    intro off y h
    unfold pagesMax
    simp only
    by_cases hz : m - y = 0
    · simp [hz]
    · rw [if_neg hz]
      simp only
      by_cases hoff : l.length ≤ off
      · have : l.drop off = [] := List.drop_eq_nil_of_le hoff
        simp [this]
      · have hlen : ((l.drop off).take (min (m - y) batch)).length = min (min (m - y) batch) (l.length - off) := by
          simp [List.length_take, List.length_drop]
        have hne : ((l.drop off).take (min (m - y) batch)).isEmpty = false := by
          rw [List.isEmpty_eq_false_iff, ← List.length_pos_iff, hlen]; omega
        rw [hne]
        simp only [Bool.false_eq_true, if_false]
        split
        · rename_i hlt
          rw [hlen] at hlt
          have h1 : (l.drop off).length ≤ min (m - y) batch := by rw [List.length_drop]; omega
          have h2 : (l.drop off).length ≤ m - y := by omega
          rw [List.take_of_length_le h1, List.take_of_length_le h2]
        · rename_i hge
          rw [hlen] at hge ⊢
          have hmin : min (min (m - y) batch) (l.length - off) = min (m - y) batch := by omega
          rw [hmin, ih (off + min (m - y) batch) (y + min (m - y) batch) (by omega)]
          rw [← List.drop_drop]
          have hsplit : m - y = min (m - y) batch + (m - (y + min (m - y) batch)) := by omega
          conv => rhs; rw [hsplit, List.take_add]

theorem pagesMax_none (sel : Nat → Nat → List Nat) (batch : Nat) :
    ∀ fuel off y, pagesMax sel batch none fuel off y = pagesFrom sel batch fuel off := by
  intro fuel
  induction fuel with
  | zero => intro off y; rfl
  | succ f ih =>
    intro off y
    unfold pagesMax pagesFrom
    simp only [ih]

theorem cursorSelectMax_eq (t : Table) (hi : IdxInv t) (c : Cond) (batch : Nat) (hb : 0 < batch)
    (max : Option Nat) :
    cursorSelectMax t c batch max =
      (match max with | some m => (spec t c).take m | none => spec t c) := by
  cases max with
  | none =>
    have := cursorSelect_eq t hi c batch hb
    unfold cursorSelect at this
    unfold cursorSelectMax
    rw [pagesMax_none]
    exact this
  | some m =>
    unfold cursorSelectMax
    have hf : (fun l o => selectLimit t c l o) = (fun n o => ((spec t c).drop o).take n) := by
      funext l o; exact selectLimit_eq t hi c l o
    rw [hf, pagesMax_window (spec t c) batch hb m]
    · simp
    · have : (spec t c).length ≤ t.rows.length := by
        unfold spec; rw [List.length_map]; exact List.length_filter_le _ _
      omega

theorem routerSelect_eq (t : Table) (hi : IdxInv t) (c : Cond) (limit offset : Option Nat) :
    routerSelect t c limit offset =
      (let rows := match offset with | some o => (spec t c).drop o | none => spec t c
       match limit with | some l => rows.take l | none => rows) := by
  unfold routerSelect
  simp only [columnarSelect_eq t hi c]
  cases offset with
  | none => cases limit <;> rfl
  | some o =>
    by_cases h : o < (spec t c).length
    · cases limit <;> simp [h]
    · have : (spec t c).drop o = [] := List.drop_eq_nil_of_le (by omega)
      cases limit <;> simp [h, this]

theorem routerSelectLegacy_eq (t : Table) (hi : IdxInv t) (c : Cond) (limit : Option Nat) :
    routerSelectLegacy t c limit =
      (match limit with | some l => (spec t c).take l | none => spec t c) := by
  unfold routerSelectLegacy
  cases limit <;> simp [select_eq_spec t hi c]

/-! ## evaluate_with_depth -/

theorem evalDepth_sound (mx : Nat) (c : Cond) : ∀ (d id : Nat) (row : List Value) (b : Bool),
    evalDepth mx c d id row = .ok b → b = evaluate c id row := by
  induction c with
  | tt => intro d id row b h; unfold evalDepth at h; split at h <;> simp_all [evaluate]
  | eq col v => intro d id row b h; unfold evalDepth at h; split at h <;> simp_all
  | ne col v => intro d id row b h; unfold evalDepth at h; split at h <;> simp_all
  | rng op col v => intro d id row b h; unfold evalDepth at h; split at h <;> simp_all
  | and x y ihx ihy =>
    intro d id row b h
    unfold evalDepth at h
    split at h
    · cases h
    · cases hx : evalDepth mx x (d + 1) id row with
      | error e => simp [hx] at h
      | ok bx =>
        have ex := ihx (d + 1) id row bx hx
        cases bx with
        | false =>
          simp only [hx, Except.ok.injEq] at h
          subst h
          simp [evaluate, ← ex]
        | true =>
          simp only [hx] at h
          have ey := ihy (d + 1) id row b h
          simp [evaluate, ← ex, ← ey]
  | or x y ihx ihy =>
    intro d id row b h
    unfold evalDepth at h
    split at h
    · cases h
    · cases hx : evalDepth mx x (d + 1) id row with
      | error e => simp [hx] at h
      | ok bx =>
        have ex := ihx (d + 1) id row bx hx
        cases bx with
        | true =>
          simp only [hx, Except.ok.injEq] at h
          subst h
          simp [evaluate, ← ex]
        | false =>
          simp only [hx] at h
          have ey := ihy (d + 1) id row b h
          simp [evaluate, ← ex, ← ey]

theorem evalDepth_within (mx : Nat) (c : Cond) : ∀ (d id : Nat) (row : List Value),
    d + condDepth c ≤ mx → evalDepth mx c d id row = .ok (evaluate c id row) := by
  induction c with
  | tt => intro d id row h; unfold evalDepth; rw [if_neg (by simp [condDepth] at h; omega)]; rfl
  | eq col v => intro d id row h; unfold evalDepth; rw [if_neg (by simp [condDepth] at h; omega)]
  | ne col v => intro d id row h; unfold evalDepth; rw [if_neg (by simp [condDepth] at h; omega)]
  | rng op col v => intro d id row h; unfold evalDepth; rw [if_neg (by simp [condDepth] at h; omega)]
  | and x y ihx ihy =>
    intro d id row h
    simp only [condDepth] at h
    unfold evalDepth
    rw [if_neg (by omega), ihx (d + 1) id row (by omega)]
    cases hx : evaluate x id row with
    | false => simp [evaluate, hx]
    | true => simp only; rw [ihy (d + 1) id row (by omega)]; simp [evaluate, hx]
  | or x y ihx ihy =>
    intro d id row h
    simp only [condDepth] at h
    unfold evalDepth
    rw [if_neg (by omega), ihx (d + 1) id row (by omega)]
    cases hx : evaluate x id row with
    | true => simp [evaluate, hx]
    | false => simp only; rw [ihy (d + 1) id row (by omega)]; simp [evaluate, hx]

theorem filterE_sound (mx : Nat) (c : Cond) : ∀ (rows l : List RowE),
    filterE mx c rows = .ok l → l = rows.filter (fun r => evaluate c r.id r.vals) := by
  intro rows
  induction rows with
  | nil => intro l h; simp [filterE] at h; subst h; rfl
  | cons r rs ih =>
    intro l h
    unfold filterE at h
    cases hb : evalDepth mx c 0 r.id r.vals with
    | error e => simp [hb] at h
    | ok b =>
      simp only [hb] at h
      cases hr : filterE mx c rs with
      | error e => simp [hr] at h
      | ok l' =>
        simp only [hr, Except.ok.injEq] at h
        have e1 := evalDepth_sound mx c 0 r.id r.vals b hb
        have e2 := ih l' hr
        subst h
        rw [List.filter_cons, ← e1, ← e2]

theorem filterE_within (mx : Nat) (c : Cond) (hd : condDepth c ≤ mx) : ∀ (rows : List RowE),
    filterE mx c rows = .ok (rows.filter (fun r => evaluate c r.id r.vals)) := by
  intro rows
  induction rows with
  | nil => rfl
  | cons r rs ih =>
    unfold filterE
    rw [evalDepth_within mx c 0 r.id r.vals (by omega), ih, List.filter_cons]

theorem scanLimitE_sound (mx : Nat) (c : Cond) : ∀ (rows l : List RowE) (need : Nat), 0 < need →
    scanLimitE mx c rows need = .ok l → l = (rows.filter (fun r => evaluate c r.id r.vals)).take need := by
  intro rows
  induction rows with
  | nil => intro l need _ h; simp [scanLimitE] at h; subst h; simp
  | cons r rs ih =>
    intro l need hn h
    unfold scanLimitE at h
    cases hb : evalDepth mx c 0 r.id r.vals with
    | error e => simp [hb] at h
    | ok b =>
      have e1 := evalDepth_sound mx c 0 r.id r.vals b hb
      cases b with
      | false =>
        simp only [hb] at h
        rw [List.filter_cons, ← e1]
        exact ih l need hn h
      | true =>
        simp only [hb] at h
        rw [List.filter_cons, ← e1]
        simp only [if_true]
        split at h
        · rename_i h1
          have : need = 1 := by omega
          subst this
          simp only [Except.ok.injEq] at h
          subst h
          simp
        · rename_i h1
          cases hr : scanLimitE mx c rs (need - 1) with
          | error e => simp [hr] at h
          | ok l' =>
            simp only [hr, Except.ok.injEq] at h
            subst h
            have := ih l' (need - 1) (by omega) hr
            rw [this]
            have hn' : need = (need - 1) + 1 := by omega
            conv => rhs; rw [hn', List.take_succ_cons]

theorem scanLimitE_within (mx : Nat) (c : Cond) (hd : condDepth c ≤ mx) : ∀ (rows : List RowE) (need : Nat),
    0 < need →
    scanLimitE mx c rows need = .ok ((rows.filter (fun r => evaluate c r.id r.vals)).take need) := by
  intro rows
  induction rows with
  | nil => intro need _; simp [scanLimitE]
  | cons r rs ih =>
    intro need hn
    unfold scanLimitE
    rw [evalDepth_within mx c 0 r.id r.vals (by omega), List.filter_cons]
    cases hb : evaluate c r.id r.vals with
    | false => simp only; exact ih need hn
    | true =>
      simp only [if_true]
      split
      · rename_i h1
        have : need = 1 := by omega
        subst this
        simp
      · rename_i h1
        rw [ih (need - 1) (by omega)]
        simp only
        have hn' : need = (need - 1) + 1 := by omega
        conv => rhs; rw [hn', List.take_succ_cons]

theorem mapE_ok {α β : Type} (f : α → β) (x : Except Unit α) (b : β) (h : mapE f x = .ok b) :
    ∃ a, x = .ok a ∧ b = f a := by
  cases x with
  | error e => simp [mapE] at h
  | ok a => simp only [mapE, Except.ok.injEq] at h; exact ⟨a, rfl, h.symm⟩

/-- with the depth limit, `select` either fails with `ConditionTooDeep` or answers as without the limit -/
theorem selectE_sound (mx : Nat) (t : Table) (c : Cond) (ids : List Nat) (h : selectE mx t c = .ok ids) :
    ids = select t c := by
  unfold selectE at h
  unfold select selectViaIds scanSelect
  cases hl : tryIndexLookup t c with
  | some is =>
    simp only [hl] at h ⊢
    obtain ⟨a, ha, rfl⟩ := mapE_ok _ _ _ h
    rw [filterE_sound mx c _ a ha]
  | none =>
    simp only [hl] at h ⊢
    obtain ⟨a, ha, rfl⟩ := mapE_ok _ _ _ h
    rw [filterE_sound mx c _ a ha]

theorem selectE_within (mx : Nat) (t : Table) (c : Cond) (hd : condDepth c ≤ mx) :
    selectE mx t c = .ok (select t c) := by
  unfold selectE select selectViaIds scanSelect
  cases tryIndexLookup t c <;> simp only [filterE_within mx c hd, mapE]

theorem countE_sound (mx : Nat) (t : Table) (c : Cond) (n : Nat) (h : countE mx t c = .ok n) :
    n = count t c := by
  unfold countE at h
  unfold count
  cases c with
  | tt => simp only [Except.ok.injEq] at h; exact h.symm
  | eq col v =>
    simp only at h ⊢
    cases hl : tryIndexLookup t (.eq col v) <;> simp only [hl] at h ⊢ <;>
      (obtain ⟨a, ha, rfl⟩ := mapE_ok _ _ _ h; rw [filterE_sound mx _ _ a ha])
  | ne col v =>
    simp only at h ⊢
    cases hl : tryIndexLookup t (.ne col v) <;> simp only [hl] at h ⊢ <;>
      (obtain ⟨a, ha, rfl⟩ := mapE_ok _ _ _ h; rw [filterE_sound mx _ _ a ha])
  | rng op col v =>
    simp only at h ⊢
    cases hl : tryIndexLookup t (.rng op col v) <;> simp only [hl] at h ⊢ <;>
      (obtain ⟨a, ha, rfl⟩ := mapE_ok _ _ _ h; rw [filterE_sound mx _ _ a ha])
  | and x y =>
    simp only at h ⊢
    cases hl : tryIndexLookup t (.and x y) <;> simp only [hl] at h ⊢ <;>
      (obtain ⟨a, ha, rfl⟩ := mapE_ok _ _ _ h; rw [filterE_sound mx _ _ a ha])
  | or x y =>
    simp only at h ⊢
    cases hl : tryIndexLookup t (.or x y) <;> simp only [hl] at h ⊢ <;>
      (obtain ⟨a, ha, rfl⟩ := mapE_ok _ _ _ h; rw [filterE_sound mx _ _ a ha])

theorem countE_within (mx : Nat) (t : Table) (c : Cond) (hd : condDepth c ≤ mx) :
    countE mx t c = .ok (count t c) := by
  unfold countE count
  cases c with
  | tt => rfl
  | eq col v => simp only; cases tryIndexLookup t (.eq col v) <;> simp only [filterE_within mx _ hd, mapE]
  | ne col v => simp only; cases tryIndexLookup t (.ne col v) <;> simp only [filterE_within mx _ hd, mapE]
  | rng op col v => simp only; cases tryIndexLookup t (.rng op col v) <;> simp only [filterE_within mx _ hd, mapE]
  | and x y => simp only; cases tryIndexLookup t (.and x y) <;> simp only [filterE_within mx _ hd, mapE]
  | or x y => simp only; cases tryIndexLookup t (.or x y) <;> simp only [filterE_within mx _ hd, mapE]

theorem selectLimitE_sound (mx : Nat) (t : Table) (c : Cond) (limit offset : Nat) (ids : List Nat)
    (h : selectLimitE mx t c limit offset = .ok ids) : ids = selectLimit t c limit offset := by
  unfold selectLimitE at h
  unfold selectLimit
  split at h
  · rename_i h0; simp only [Except.ok.injEq] at h; simp [h0, ← h]
  · rename_i h0
    rw [if_neg h0]
    cases hl : tryIndexLookup t c with
    | some is =>
      simp only [hl] at h ⊢
      obtain ⟨a, ha, rfl⟩ := mapE_ok _ _ _ h
      rw [filterE_sound mx c _ a ha]; rfl
    | none =>
      simp only [hl] at h ⊢
      obtain ⟨a, ha, rfl⟩ := mapE_ok _ _ _ h
      rw [scanLimitE_sound mx c _ a (offset + limit) (by omega) ha]

theorem selectLimitE_within (mx : Nat) (t : Table) (c : Cond) (limit offset : Nat) (hd : condDepth c ≤ mx) :
    selectLimitE mx t c limit offset = .ok (selectLimit t c limit offset) := by
  unfold selectLimitE selectLimit
  split
  · rfl
  · rename_i h0
    cases tryIndexLookup t c with
    | some is => simp only [filterE_within mx c hd, mapE, selectViaIds]
    | none => simp only [scanLimitE_within mx c hd _ _ (show 0 < offset + limit by omega), mapE]

theorem columnarE_sound (mx : Nat) (t : Table) (c : Cond) (ids : List Nat) (h : columnarE mx t c = .ok ids) :
    ids = columnarSelect t c := by
  unfold columnarE at h
  unfold columnarSelect
  split at h
  · rename_i hc
    rw [if_pos hc]
    cases hv : vecFilter t c with
    | some bits => simp only [hv, Except.ok.injEq] at h ⊢; exact h.symm
    | none => simp only [hv] at h ⊢; exact selectE_sound mx t c ids h
  · rename_i hc
    rw [if_neg hc]
    exact selectE_sound mx t c ids h

theorem columnarE_within (mx : Nat) (t : Table) (c : Cond) (hd : condDepth c ≤ mx) :
    columnarE mx t c = .ok (columnarSelect t c) := by
  unfold columnarE columnarSelect
  split
  · cases vecFilter t c with
    | some bits => rfl
    | none => exact selectE_within mx t c hd
  · exact selectE_within mx t c hd

theorem scan_filter_eq_matching (t : Table) (c : Cond) :
    (scanAll t).filter (fun r => evaluate c r.id r.vals) = matching t c := by
  unfold scanAll matching
  rw [List.filter_filter]
  apply List.filter_congr
  intro r _
  simp [matchesRow, Bool.and_comm]

theorem deleteE_sound (mx : Nat) (t : Table) (c : Cond) (p : Table × Nat) (h : deleteE mx t c = .ok p) :
    p = delete t c := by
  unfold deleteE at h
  cases hf : filterE mx c (scanAll t) with
  | error e => simp [hf] at h
  | ok l =>
    simp only [hf, Except.ok.injEq] at h
    rw [filterE_sound mx c _ l hf, scan_filter_eq_matching] at h
    exact h.symm

theorem deleteE_within (mx : Nat) (t : Table) (c : Cond) (hd : condDepth c ≤ mx) :
    deleteE mx t c = .ok (delete t c) := by
  unfold deleteE
  rw [filterE_within mx c hd, scan_filter_eq_matching]
  rfl

theorem updateE_sound (mx : Nat) (t : Table) (c : Cond) (sets : List (Nat × Value))
    (p : Except Err (Table × Nat)) (h : updateE mx t c sets = .ok p) : p = update t c sets := by
  unfold updateE at h
  unfold update
  cases hv : validateSets t.schema sets with
  | some e => simp only [hv, Except.ok.injEq] at h ⊢; exact h.symm
  | none =>
    simp only [hv] at h ⊢
    cases hf : filterE mx c (scanAll t) with
    | error e => simp [hf] at h
    | ok l =>
      simp only [hf, Except.ok.injEq] at h
      rw [filterE_sound mx c _ l hf, scan_filter_eq_matching] at h
      exact h.symm

theorem updateE_within (mx : Nat) (t : Table) (c : Cond) (sets : List (Nat × Value)) (hd : condDepth c ≤ mx) :
    updateE mx t c sets = .ok (update t c sets) := by
  unfold updateE update
  cases validateSets t.schema sets with
  | some e => rfl
  | none => simp only [filterE_within mx c hd, scan_filter_eq_matching]

/-! ## the row slab evolves independently of the indexes -/

theorem batchFold_rows : ∀ (rows : List (List Value)) (t1 t2 : Table) (a1 a2 : List Nat),
    t1.rows = t2.rows → t1.schema = t2.schema →
    (rows.foldl batchStep (t1, a1)).1.rows = (rows.foldl batchStep (t2, a2)).1.rows ∧
    (rows.foldl batchStep (t1, a1)).1.schema = (rows.foldl batchStep (t2, a2)).1.schema := by
  intro rows
  induction rows with
  | nil => intro t1 t2 a1 a2 hr hs; exact ⟨hr, hs⟩
  | cons v vs ih =>
    intro t1 t2 a1 a2 hr hs
    rw [List.foldl_cons, List.foldl_cons]
    apply ih
    · simp only [insertRaw, hr]
    · simp only [insertRaw, hs]

theorem updateFold_schema (sets : List (Nat × Value)) : ∀ (targets : List RowE) (t : Table),
    (targets.foldl (updateOne sets) t).schema = t.schema := by
  intro targets; induction targets with
  | nil => intro t; rfl
  | cons r rs ih => intro t; rw [List.foldl_cons, ih]; rfl

theorem deleteFold_schema : ∀ (targets : List RowE) (t : Table),
    (targets.foldl deleteOne t).schema = t.schema := by
  intro targets; induction targets with
  | nil => intro t; rfl
  | cons r rs ih => intro t; rw [List.foldl_cons, ih]; rfl

theorem indexOp_schema (t : Table) (col : ColRef) (op : Op)
    (hop : op = .createHash col ∨ op = .createOrd col ∨ op = .dropHash col ∨ op = .dropOrd col) :
    (applyOp t op).schema = t.schema := by
  rcases hop with h | h | h | h <;> subst h <;> simp only [applyOp]
  · cases h : createHashIndex t col with
    | error e => rfl
    | ok t' =>
      simp only
      unfold createHashIndex at h
      split at h
      · cases h
      · split at h
        · cases h
        · simp only [Except.ok.injEq] at h; subst h; rfl
  · cases h : createOrdIndex t col with
    | error e => rfl
    | ok t' =>
      simp only
      unfold createOrdIndex at h
      split at h
      · cases h
      · split at h
        · cases h
        · simp only [Except.ok.injEq] at h; subst h; rfl
  · cases h : dropHashIndex t col with
    | error e => rfl
    | ok t' =>
      simp only
      unfold dropHashIndex at h
      split at h
      · cases h
      · simp only [Except.ok.injEq] at h; subst h; rfl
  · cases h : dropOrdIndex t col with
    | error e => rfl
    | ok t' =>
      simp only
      unfold dropOrdIndex at h
      split at h
      · cases h
      · simp only [Except.ok.injEq] at h; subst h; rfl

/-- a data operation acts on (schema, rows) alone: two states with the same slab and schema (whatever
    their indexes) have the same slab and schema afterwards; an index operation leaves both untouched -/
theorem applyOp_rows_congr (t1 t2 : Table) (op : Op) (hr : t1.rows = t2.rows) (hs : t1.schema = t2.schema) :
    (applyOp t1 op).rows = (if op.isIndexOp then t2.rows else (applyOp t2 op).rows) ∧
    (applyOp t1 op).schema = (if op.isIndexOp then t2.schema else (applyOp t2 op).schema) := by
  cases op with
  | insert vals =>
    simp only [Op.isIndexOp, applyOp, Bool.false_eq_true, if_false]
    unfold insert
    rw [hs]
    by_cases hl : vals.length ≠ t2.schema.length
    · rw [if_pos hl, if_pos hl]; exact ⟨hr, hs⟩
    · rw [if_neg hl, if_neg hl]
      cases validateRow t2.schema vals with
      | some e => exact ⟨hr, hs⟩
      | none => simp only [hr, and_self]
  | update c sets =>
    simp only [Op.isIndexOp, applyOp, update, hs]
    cases validateSets t2.schema sets with
    | some e => exact ⟨hr, hs⟩
    | none =>
      simp only [Bool.false_eq_true, if_false]
      have hm : matching t1 c = matching t2 c := by unfold matching; rw [hr]
      rw [updateFold_rows, updateFold_rows, updateFold_schema, updateFold_schema, hm, hr]
      exact ⟨rfl, hs⟩
  | delete c =>
    simp only [Op.isIndexOp, applyOp, delete, Bool.false_eq_true, if_false]
    have hm : matching t1 c = matching t2 c := by unfold matching; rw [hr]
    rw [deleteFold_rows, deleteFold_rows, deleteFold_schema, deleteFold_schema, hm, hr]
    exact ⟨rfl, hs⟩
  | batchInsert rows =>
    simp only [Op.isIndexOp, applyOp, batchInsert, hs, Bool.false_eq_true, if_false]
    cases validateBatch t2.schema rows with
    | some e => exact ⟨hr, hs⟩
    | none => exact batchFold_rows rows t1 t2 [] [] hr hs
  | createHash col =>
    simp only [Op.isIndexOp, if_true]
    exact ⟨(indexOp_rows t1 col _ (Or.inl rfl)).trans hr, (indexOp_schema t1 col _ (Or.inl rfl)).trans hs⟩
  | createOrd col =>
    simp only [Op.isIndexOp, if_true]
    exact ⟨(indexOp_rows t1 col _ (Or.inr (Or.inl rfl))).trans hr, (indexOp_schema t1 col _ (Or.inr (Or.inl rfl))).trans hs⟩
  | dropHash col =>
    simp only [Op.isIndexOp, if_true]
    exact ⟨(indexOp_rows t1 col _ (Or.inr (Or.inr (Or.inl rfl)))).trans hr, (indexOp_schema t1 col _ (Or.inr (Or.inr (Or.inl rfl)))).trans hs⟩
  | dropOrd col =>
    simp only [Op.isIndexOp, if_true]
    exact ⟨(indexOp_rows t1 col _ (Or.inr (Or.inr (Or.inr rfl)))).trans hr, (indexOp_schema t1 col _ (Or.inr (Or.inr (Or.inr rfl)))).trans hs⟩

theorem run_rows_strip : ∀ (ops : List Op) (t1 t2 : Table), t1.rows = t2.rows → t1.schema = t2.schema →
    (ops.foldl applyOp t1).rows = ((ops.filter (fun o => !o.isIndexOp)).foldl applyOp t2).rows ∧
    (ops.foldl applyOp t1).schema = ((ops.filter (fun o => !o.isIndexOp)).foldl applyOp t2).schema := by
  intro ops
  induction ops with
  | nil => intro t1 t2 hr hs; exact ⟨hr, hs⟩
  | cons op ops ih =>
    intro t1 t2 hr hs
    rw [List.foldl_cons, List.filter_cons]
    obtain ⟨h1, h2⟩ := applyOp_rows_congr t1 t2 op hr hs
    cases hi : op.isIndexOp with
    | true =>
      simp only [hi, if_true] at h1 h2
      simp only [Bool.not_true, Bool.false_eq_true, if_false]
      exact ih _ _ h1 h2
    | false =>
      simp only [hi, Bool.false_eq_true, if_false] at h1 h2
      simp only [Bool.not_false, if_true, List.foldl_cons]
      exact ih _ _ h1 h2

end Neumann.Rel
