import NeumannModel.Vault.Inv
/-
  C14 — at-rest shape, for every history.  One invariant, two instances:
    * secret VALUES: no record of the model's store holds one in a readable (`Field.clear`) field;
    * secret NAMES: the same for every record EXCEPT the two persistence records that still carry the
      name in the clear (`_vault_ttl_grants`, `_vdel:…` — known findings, witnessed in Props).
-/
namespace Neumann.Vault

/-- a class of sensitive plaintexts (`bad`) together with the record kinds excluded from the claim (`exempt`) -/
structure Cls where
  bad : Plain → Prop
  exempt : RKey → Prop

/-- the class is never an identity, and it either contains no secret name or exempts the two record kinds
    whose clear JSON lists secret names -/
structure Cls.Adm (c : Cls) : Prop where
  ident : ∀ e, ¬ c.bad (.ident e)
  names : (∀ n, ¬ c.bad (.name n)) ∨ (c.exempt .ttlGrants ∧ ∀ p ch, c.exempt (.deleg p ch))

/-- secret values, no record kind exempt -/
def valueCls : Cls := { bad := fun p => ∃ v, p = .value v, exempt := fun _ => False }

/-- secret names, the TTL-tracker record and the delegation records exempt -/
def nameCls : Cls :=
  { bad := fun p => ∃ n, p = .name n,
    exempt := fun k => k = .ttlGrants ∨ ∃ p ch, k = .deleg p ch }

theorem valueCls_adm : valueCls.Adm :=
  ⟨fun _ ⟨_, h⟩ => Plain.noConfusion h, Or.inl fun _ ⟨_, h⟩ => Plain.noConfusion h⟩

theorem nameCls_adm : nameCls.Adm :=
  ⟨fun _ ⟨_, h⟩ => Plain.noConfusion h, Or.inr ⟨Or.inl rfl, fun p ch => Or.inr ⟨p, ch, rfl⟩⟩⟩

/-- a record exposes no plaintext of the class (or is of an exempt kind) -/
def RecOk (c : Cls) (r : Rec) : Prop := c.exempt r.key ∨ ∀ f ∈ r.fields, ∀ p, c.bad p → f.2.reveals p = false

/-- no record of the store exposes a plaintext of the class -/
def SV (c : Cls) (st : Store) : Prop := ∀ r ∈ st, RecOk c r

variable {c : Cls}

theorem SV.put {st : Store} (h : SV c st) {r : Rec} (hr : RecOk c r) : SV c (st.put r) := by
  intro x hx
  unfold Store.put at hx
  rcases List.mem_append.mp hx with h1 | h1
  · exact h x (List.mem_filter.mp h1).1
  · rw [List.mem_singleton] at h1; subst h1; exact hr

theorem SV.filter {st : Store} (h : SV c st) (p : Rec → Bool) : SV c (st.filter p) :=
  fun x hx => h x (List.mem_filter.mp hx).1

theorem SV.del {st : Store} (h : SV c st) (k : RKey) : SV c (st.del k) := h.filter _

theorem SV.foldl_del {α : Type} (f : α → RKey) :
    ∀ (l : List α) (st : Store), SV c st → SV c (l.foldl (fun st n => st.del (f n)) st)
  | [], _, hs => hs
  | n :: l, st', hs => by rw [List.foldl_cons]; exact SV.foldl_del f l _ (hs.del _)

theorem clear_ok {ps : List Plain} (h : ∀ p ∈ ps, ¬ c.bad p) (q : Plain) (hq : c.bad q) :
    (Field.clear ps).reveals q = false := by
  unfold Field.reveals
  simp only [List.contains_eq_mem, decide_eq_false_iff_not]
  intro hm
  exact h _ hm hq

theorem blobRec_ok (name nonce val : Nat) : RecOk c (blobRec name nonce val) := by
  refine Or.inr fun f hf p _ => ?_
  simp only [blobRec, List.mem_cons, List.mem_nil_iff, or_false] at hf
  rcases hf with rfl | rfl | rfl <;> rfl

theorem nodeRec_ok (name : Nat) : RecOk c (nodeRec name) := by
  refine Or.inr fun f hf p _ => ?_
  simp only [nodeRec, List.mem_cons, List.mem_nil_iff, or_false] at hf
  subst hf
  rfl

theorem metaRec_ok (name nonce : Nat) (vs : List Ver) (r : Option Nat) : RecOk c (metaRec name nonce vs r) := by
  refine Or.inr fun f hf p _ => ?_
  unfold metaRec at hf
  simp only [List.mem_append, List.mem_cons, List.mem_nil_iff, or_false] at hf
  rcases hf with (rfl | rfl | rfl | rfl | rfl | rfl | rfl) | hf
  all_goals first
    | rfl
    | (cases r with
       | none => cases hf
       | some x =>
         simp only [List.mem_cons, List.mem_nil_iff, or_false] at hf
         rcases hf with rfl | rfl <;> rfl)

theorem ttlRec_ok (hc : c.Adm) (l : List TtlEntry) : RecOk c (ttlRec l) := by
  rcases hc.names with hn | ⟨hex, _⟩
  · refine Or.inr fun f hf q hq => ?_
    simp only [ttlRec, List.mem_singleton] at hf
    subst hf
    apply clear_ok _ q hq
    intro p hp
    simp only [List.mem_flatMap, List.mem_cons, List.mem_nil_iff, or_false] at hp
    obtain ⟨t, _, rfl | rfl⟩ := hp
    · exact hc.ident _
    · exact hn _
  · exact Or.inl hex

theorem delegRec_ok (hc : c.Adm) (d : DelegRec) : RecOk c (delegRec d) := by
  rcases hc.names with hn | ⟨_, hex⟩
  · refine Or.inr fun f hf q hq => ?_
    simp only [delegRec, List.mem_singleton] at hf
    subst hf
    apply clear_ok _ q hq
    intro p hp
    simp only [List.mem_append, List.mem_cons, List.mem_nil_iff, or_false, List.mem_map] at hp
    rcases hp with (rfl | rfl) | ⟨n, _, rfl⟩
    · exact hc.ident _
    · exact hc.ident _
    · exact hn _
  · exact Or.inl (hex _ _)

theorem auditRec_ok (n req sec : Nat) (op : String) (extra : List Plain) (h : ∀ p ∈ extra, ¬ c.bad p) :
    RecOk c (auditRec n req sec op extra) := by
  refine Or.inr fun f hf q hq => ?_
  simp only [auditRec, List.mem_cons, List.mem_nil_iff, or_false] at hf
  rcases hf with rfl | rfl | rfl | rfl
  · rfl
  · rfl
  · rfl
  · exact clear_ok h q hq

theorem ident_ok (hc : c.Adm) (e : Nat) : ∀ p ∈ [Plain.ident e], ¬ c.bad p := by
  intro p hp; simp only [List.mem_singleton] at hp; subst hp; exact hc.ident e

theorem nil_ok : ∀ p ∈ ([] : List Plain), ¬ c.bad p := fun _ hp => nomatch hp

theorem audit_sv {s : State} (h : SV c s.store) (req sec : Nat) (op : String) (extra : List Plain)
    (he : ∀ p ∈ extra, ¬ c.bad p) : SV c (s.audit req sec op extra).store :=
  h.put (auditRec_ok _ _ _ _ _ he)

theorem persistTtl_sv (hc : c.Adm) {s : State} (h : SV c s.store) : SV c s.persistTtl.store := by
  unfold State.persistTtl
  split
  · exact h.del _
  · exact h.put (ttlRec_ok hc _)

theorem persistDelegs_sv (hc : c.Adm) {s : State} (h : SV c s.store) : SV c s.persistDelegs.store := by
  unfold State.persistDelegs
  simp only
  exact foldl_inv (fun (st : Store) d => st.put (delegRec d)) (SV c) s.delegs
    (fun st d _ hst => hst.put (delegRec_ok hc d)) _ (h.filter _)

theorem cleanup_sv (hc : c.Adm) {s : State} (h : SV c s.store) (now : Nat) : SV c (s.cleanup now).store := by
  unfold State.cleanup
  simp only
  split
  · exact persistTtl_sv hc h
  · exact h

theorem guarded_sv (hc : c.Adm) {s : State} (h : SV c s.store) {now req sec : Nat} {need : Level}
    {k : State → State × Resp} (hk : ∀ s' : State, SV c s'.store → SV c (k s').1.store) :
    SV c (s.guarded now req sec need k).1.store :=
  guarded_inv (fun s => SV c s.store) h (cleanup_sv hc h now) hk

@[simp] theorem putSecret_store (s : State) (m : SecretMeta) : (s.putSecret m).store = s.store := rfl
@[simp] theorem addAccess_store (s : State) (ent sec : Nat) (l : Level) (x : Option Nat) :
    (s.addAccess ent sec l x).store = s.store := rfl

theorem pruneVersions_sv (maxV name : Nat) (vs : List Ver) {st : Store} (h : SV c st) :
    SV c (pruneVersions maxV name vs st).2 := by
  unfold pruneVersions
  simp only
  exact SV.foldl_del (fun v : Ver => RKey.blob name v.nonce) _ _ h

theorem set_sv (hc : c.Adm) {s : State} (h : SV c s.store) (now req sec val size : Nat) :
    SV c (s.set now req sec val size).1.store := by
  unfold State.set
  split
  · exact h
  · split
    · refine guarded_sv hc h (fun s' hs' => ?_)
      simp only
      apply audit_sv _ _ _ _ _ nil_ok
      simp only [putSecret_store]
      exact (pruneVersions_sv _ _ _ (hs'.put (blobRec_ok _ _ _))).put (metaRec_ok _ _ _ _)
    · split
      · exact h
      · simp only
        apply audit_sv _ _ _ _ _ nil_ok
        simp only [addAccess_store, putSecret_store]
        exact ((h.put (blobRec_ok _ _ _)).put (metaRec_ok _ _ _ _)).put (nodeRec_ok _)

theorem get_sv (hc : c.Adm) {s : State} (h : SV c s.store) (now req sec : Nat) : SV c (s.get now req sec).1.store := by
  unfold State.get
  refine guarded_sv hc (cleanup_sv hc h now) (fun s' hs' => ?_)
  split
  · exact hs'
  · exact audit_sv hs' _ _ _ _ nil_ok

theorem list_sv (hc : c.Adm) {s : State} (h : SV c s.store) (now req : Nat) (p : Pattern) :
    SV c (s.list now req p).1.store := by
  unfold State.list
  simp only
  exact audit_sv (cleanup_sv hc h now) _ _ _ _ nil_ok

theorem rotate_sv (hc : c.Adm) {s : State} (h : SV c s.store) (now req sec val size : Nat) :
    SV c (s.rotate now req sec val size).1.store := by
  unfold State.rotate
  refine guarded_sv hc h (fun s' hs' => ?_)
  split
  · exact hs'
  · split
    · exact hs'
    · simp only
      apply audit_sv _ _ _ _ _ nil_ok
      simp only [putSecret_store]
      exact (pruneVersions_sv _ _ _ (hs'.put (blobRec_ok _ _ _))).put (metaRec_ok _ _ _ _)

theorem delete_sv (hc : c.Adm) {s : State} (h : SV c s.store) (now req sec : Nat) :
    SV c (s.delete now req sec).1.store := by
  unfold State.delete
  refine guarded_sv hc h (fun s' hs' => ?_)
  split
  · exact hs'
  · rename_i m _
    simp only
    apply audit_sv _ _ _ _ _ nil_ok
    apply persistTtl_sv hc
    simp only
    exact ((SV.foldl_del (fun v : Ver => RKey.blob sec v.nonce) m.versions _ hs').del _).del _

theorem grantCore_sv (hc : c.Adm) {s : State} (h : SV c s.store) (now req ent sec : Nat) (l : Level) (x : Option Nat) :
    SV c (s.grantCore now req ent sec l x).1.store := by
  unfold State.grantCore
  refine guarded_sv hc h (fun s' hs' => ?_)
  split
  · exact hs'
  · exact audit_sv (by simpa using hs') _ _ _ _ (ident_ok hc ent)

theorem grant_sv (hc : c.Adm) {s : State} (h : SV c s.store) (now req ent sec : Nat) (l : Level) :
    SV c (s.grant now req ent sec l).1.store := grantCore_sv hc h now req ent sec l none

theorem grantTtl_sv (hc : c.Adm) {s : State} (h : SV c s.store) (now req ent sec : Nat) (l : Level) (ttl : Nat) :
    SV c (s.grantTtl now req ent sec l ttl).1.store := by
  have hg := grantCore_sv hc h now req ent sec l (some (now + ttl))
  unfold State.grantTtl
  split
  · rename_i s' e heq; rw [heq] at hg; exact hg
  · rename_i s' r _ heq
    rw [heq] at hg
    apply persistTtl_sv hc
    exact hg

theorem revoke_sv (hc : c.Adm) {s : State} (h : SV c s.store) (now req ent sec : Nat) :
    SV c (s.revoke now req ent sec).1.store := by
  unfold State.revoke
  refine guarded_sv hc h (fun s' hs' => ?_)
  simp only
  apply audit_sv _ _ _ _ _ (ident_ok hc ent)
  split
  · exact persistTtl_sv hc hs'
  · exact hs'

theorem foldl_addAccess_store {child : Nat} {eff : Level} {exp : Option Nat} :
    ∀ (secs : List Nat) (s0 : State), (secs.foldl (fun st sec => st.addAccess child sec eff exp) s0).store = s0.store
  | [], _ => rfl
  | sec :: rest, s0 => by rw [List.foldl_cons, foldl_addAccess_store rest]; rfl

theorem foldl_audit_sv (hc : c.Adm) (parent child : Nat) (op : String) :
    ∀ (l : List Nat) (s0 : State), SV c s0.store →
      SV c (l.foldl (fun st sec => st.audit parent sec op [.ident child]) s0).store
  | [], _, h => h
  | x :: l, s0, h => by
    rw [List.foldl_cons]
    exact foldl_audit_sv hc parent child op l _ (audit_sv h _ _ _ _ (ident_ok hc child))

theorem delegateApply_sv (hc : c.Adm) {s : State} (h : SV c s.store) (now parent child : Nat) (secs : List Nat)
    (eff : Level) (ttl : Option Nat) : SV c (s.delegateApply now parent child secs eff ttl).1.store := by
  cases ttl with
  | none =>
    unfold State.delegateApply
    split
    · exact h
    · split
      · exact h
      · simp only
        split
        · exact h
        · apply foldl_audit_sv hc
          apply persistDelegs_sv hc
          rw [foldl_addAccess_store]
          exact h
  | some tt =>
    unfold State.delegateApply
    split
    · exact h
    · split
      · exact h
      · simp only
        split
        · exact h
        · apply foldl_audit_sv hc
          apply persistDelegs_sv hc
          apply persistTtl_sv hc
          simp only
          rw [foldl_addAccess_store]
          exact h

theorem delegate_sv (hc : c.Adm) {s : State} (h : SV c s.store) (now parent child : Nat) (secs : List Nat) (l : Level)
    (ttl : Option Nat) : SV c (s.delegate now parent child secs l ttl).1.store := by
  have h0 : SV c (if parent = root || isNodeKey parent || secs.isEmpty then s else s.cleanup now).store := by
    split
    · exact h
    · exact cleanup_sv hc h now
  unfold State.delegate
  simp only
  split
  · exact h0
  · exact delegateApply_sv hc h0 _ _ _ _ _ _

theorem foldl_drop_store (child : Nat) :
    ∀ (secs : List Nat) (s0 : State),
      (secs.foldl (fun (st : State) sec =>
        { st with graph := dropAccess st.graph child sec, ttl := ttlRemove st.ttl child sec }) s0).store = s0.store
  | [], _ => rfl
  | sec :: rest, s0 => by rw [List.foldl_cons, foldl_drop_store child rest]

theorem undelegate_sv (hc : c.Adm) {s : State} (h : SV c s.store) (parent child : Nat) :
    SV c (s.undelegate parent child).1.store := by
  unfold State.undelegate
  split
  · exact h
  · rename_i d _
    simp only
    apply foldl_audit_sv hc
    apply persistTtl_sv hc
    apply persistDelegs_sv hc
    rw [foldl_drop_store]
    exact h

theorem wrapRec_ok (id val : Nat) : RecOk c (wrapRec id val) := by
  refine Or.inr fun f hf p _ => ?_
  simp only [wrapRec, List.mem_cons, List.mem_nil_iff, or_false] at hf
  rcases hf with rfl | rfl | rfl | rfl | rfl <;> rfl

theorem getVersion_sv (hc : c.Adm) {s : State} (h : SV c s.store) (now req sec ver : Nat) :
    SV c (s.getVersion now req sec ver).1.store := by
  unfold State.getVersion
  refine guarded_sv hc h (fun s' hs' => ?_)
  split
  · exact hs'
  · split <;> exact hs'

theorem versionCount_sv (hc : c.Adm) {s : State} (h : SV c s.store) (now req sec : Nat) :
    SV c (s.versionCount now req sec).1.store := by
  unfold State.versionCount
  refine guarded_sv hc h (fun s' hs' => ?_)
  split <;> exact hs'

theorem rollback_sv (hc : c.Adm) {s : State} (h : SV c s.store) (now req sec ver : Nat) :
    SV c (s.rollback now req sec ver).1.store := by
  unfold State.rollback
  refine guarded_sv hc h (fun s' hs' => ?_)
  split
  · exact hs'
  · split
    · exact hs'
    · exact set_sv hc hs' _ _ _ _ _

theorem batchGet_sv (hc : c.Adm) {s : State} (h : SV c s.store) (now req : Nat) (secs : List Nat) :
    SV c (s.batchGet now req secs).1.store := by
  unfold State.batchGet
  exact audit_sv (cleanup_sv hc h now) _ _ _ _ nil_ok

theorem batchSet_sv (hc : c.Adm) {s : State} (h : SV c s.store) (now req : Nat) (entries : List (Nat × Nat × Nat)) :
    SV c (s.batchSet now req entries).1.store := by
  unfold State.batchSet
  split
  · exact h
  · exact audit_sv (batchSet_fold_inv (fun s => SV c s.store) now req
      (fun s sec val size hs => set_sv hc hs now req sec val size) entries (s, []) h) _ _ _ _ nil_ok

theorem wrap_sv (hc : c.Adm) {s : State} (h : SV c s.store) (now req sec : Nat) :
    SV c (s.wrap now req sec).1.store := by
  unfold State.wrap
  refine guarded_sv hc h (fun s' hs' => ?_)
  have hg := get_sv hc hs' now req sec
  generalize s'.get now req sec = r at hg
  obtain ⟨s'', resp⟩ := r
  cases resp <;> first | exact hg | exact audit_sv (hg.put (wrapRec_ok _ _)) _ _ _ _ nil_ok

theorem unwrap_sv {s : State} (h : SV c s.store) (token : Nat) : SV c (s.unwrap token).1.store := by
  unfold State.unwrap
  split
  · exact h
  · exact audit_sv (h.del _) _ _ _ _ nil_ok

theorem dropRecord_store (d : DelegRec) (s : State) : (s.dropRecord d).store = s.store := by
  unfold State.dropRecord
  exact foldl_drop_store d.child d.secrets s

theorem foldl_dropRecord_store : ∀ (ds : List DelegRec) (s : State), (ds.foldl State.dropRecord s).store = s.store
  | [], _ => rfl
  | d :: rest, s => by rw [List.foldl_cons, foldl_dropRecord_store rest, dropRecord_store]

theorem undelegateCascade_sv (hc : c.Adm) {s : State} (h : SV c s.store) (parent child : Nat) :
    SV c (s.undelegateCascade parent child).1.store := by
  unfold State.undelegateCascade
  simp only
  apply persistTtl_sv hc
  apply persistDelegs_sv hc
  rw [foldl_dropRecord_store]
  exact h

theorem reopen_sv (hc : c.Adm) {s : State} (h : SV c s.store) (now : Nat) : SV c (s.reopen now).1.store := by
  unfold State.reopen
  exact cleanup_sv hc (s := { s with ttl := s.pttl, delegs := s.pdelegs }) h now

theorem step_sv (hc : c.Adm) {s : State} (h : SV c s.store) (t : Nat) (op : Op) : SV c (step s t op).1.store := by
  cases op with
  | set req sec val size => exact set_sv hc h t req sec val size
  | get req sec => exact get_sv hc h t req sec
  | list req p => exact list_sv hc h t req p
  | rotate req sec val size => exact rotate_sv hc h t req sec val size
  | delete req sec => exact delete_sv hc h t req sec
  | grant req ent sec l => exact grant_sv hc h t req ent sec l
  | grantTtl req ent sec l ttl => exact grantTtl_sv hc h t req ent sec l ttl
  | revoke req ent sec => exact revoke_sv hc h t req ent sec
  | delegate p ch secs l ttl => exact delegate_sv hc h t p ch secs l ttl
  | undelegate p ch => exact undelegate_sv hc h p ch
  | addMember a b => exact h
  | delMember a b => exact h
  | addEdge a b k => exact h
  | getVersion req sec ver => exact getVersion_sv hc h t req sec ver
  | versions req sec => exact versionCount_sv hc h t req sec
  | rollback req sec ver => exact rollback_sv hc h t req sec ver
  | batchGet req secs => exact batchGet_sv hc h t req secs
  | batchSet req entries => exact batchSet_sv hc h t req entries
  | wrap req sec => exact wrap_sv hc h t req sec
  | unwrap token => exact unwrap_sv h token
  | undelegateCascade p ch => exact undelegateCascade_sv hc h p ch
  | reopen => exact reopen_sv hc h t
  | probe req sec need me =>
    simp only [step]; unfold State.probe
    exact guarded_sv hc h (fun s' hs' => by split <;> exact hs')

theorem run_sv (hc : c.Adm) : ∀ (h : List (Nat × Op)) (s : State), SV c s.store → SV c (run s h).store
  | [], _, hs => hs
  | (t, op) :: rest, s, hs => by
    rw [run]
    exact run_sv hc rest _ (step_sv hc hs t op)

theorem key_reveals_no_value (k : RKey) (v : Nat) : k.reveals (.value v) = false := by
  cases k <;> simp [RKey.reveals]

theorem key_reveals_no_name (k : RKey) (n : Nat) : k.reveals (.name n) = false := by
  cases k <;> simp [RKey.reveals]

end Neumann.Vault
