import NeumannModel.Vault.Inv
/-
  C14 — at-rest shape: no record of the model's store ever holds a secret VALUE in a readable
  (`Field.clear`) field, for every history.  (Names are a different story: see Props.)
-/
namespace Neumann.Vault

/-- a record exposes no secret value -/
def RecOk (r : Rec) : Prop := ∀ f ∈ r.fields, ∀ v, f.2.reveals (.value v) = false

/-- no record of the store exposes a secret value -/
def SV (st : Store) : Prop := ∀ r ∈ st, RecOk r

theorem SV.put {st : Store} (h : SV st) {r : Rec} (hr : RecOk r) : SV (st.put r) := by
  intro x hx
  unfold Store.put at hx
  rcases List.mem_append.mp hx with h1 | h1
  · exact h x (List.mem_filter.mp h1).1
  · rw [List.mem_singleton] at h1; subst h1; exact hr

theorem SV.filter {st : Store} (h : SV st) (p : Rec → Bool) : SV (st.filter p) :=
  fun x hx => h x (List.mem_filter.mp hx).1

theorem SV.del {st : Store} (h : SV st) (k : RKey) : SV (st.del k) := h.filter _

theorem SV.foldl_del {st : Store} (h : SV st) (f : Nat → RKey) :
    ∀ (l : List Nat) (st : Store), SV st → SV (l.foldl (fun st n => st.del (f n)) st)
  | [], _, hs => hs
  | n :: l, st', hs => by rw [List.foldl_cons]; exact SV.foldl_del h f l _ (hs.del _)

theorem clear_ok {ps : List Plain} (h : ∀ p ∈ ps, ∀ v, p ≠ .value v) (v : Nat) :
    (Field.clear ps).reveals (.value v) = false := by
  unfold Field.reveals
  simp only [List.contains_eq_mem, decide_eq_false_iff_not]
  intro hm
  exact h _ hm v rfl

theorem blobRec_ok (name nonce val : Nat) : RecOk (blobRec name nonce val) := by
  intro f hf v
  simp only [blobRec, List.mem_cons, List.mem_nil_iff, or_false] at hf
  rcases hf with rfl | rfl | rfl <;> rfl

theorem nodeRec_ok (name : Nat) : RecOk (nodeRec name) := by
  intro f hf v
  simp only [nodeRec, List.mem_cons, List.mem_nil_iff, or_false] at hf
  rcases hf with rfl | rfl
  · rfl
  · exact clear_ok (by intro p hp v; simp only [List.mem_singleton] at hp; subst hp; exact Plain.noConfusion) v

theorem metaRec_ok (name nonce : Nat) (vs : List Nat) (r : Option Nat) : RecOk (metaRec name nonce vs r) := by
  intro f hf v
  unfold metaRec at hf
  simp only [List.mem_append, List.mem_cons, List.mem_nil_iff, or_false] at hf
  rcases hf with (rfl | rfl | rfl | rfl | rfl | rfl | rfl) | hf
  all_goals first
    | rfl
    | (cases r with
       | none => cases hf
       | some x =>
         simp only [List.mem_cons, List.mem_nil_iff, or_false] at hf
         rcases hf with rfl | rfl <;> rfl)

theorem ttlRec_ok (l : List TtlEntry) : RecOk (ttlRec l) := by
  intro f hf v
  simp only [ttlRec, List.mem_singleton] at hf
  subst hf
  apply clear_ok
  intro p hp v
  simp only [List.mem_flatMap, List.mem_cons, List.mem_nil_iff, or_false] at hp
  obtain ⟨t, _, rfl | rfl⟩ := hp <;> exact Plain.noConfusion

theorem delegRec_ok (d : DelegRec) : RecOk (delegRec d) := by
  intro f hf v
  simp only [delegRec, List.mem_singleton] at hf
  subst hf
  apply clear_ok
  intro p hp v
  simp only [List.mem_append, List.mem_cons, List.mem_nil_iff, or_false, List.mem_map] at hp
  rcases hp with (rfl | rfl) | ⟨n, _, rfl⟩ <;> exact Plain.noConfusion

theorem auditRec_ok (n req sec : Nat) (op : String) (extra : List Plain) (h : ∀ p ∈ extra, ∀ v, p ≠ .value v) :
    RecOk (auditRec n req sec op extra) := by
  intro f hf v
  simp only [auditRec, List.mem_cons, List.mem_nil_iff, or_false] at hf
  rcases hf with rfl | rfl | rfl | rfl
  · rfl
  · rfl
  · rfl
  · exact clear_ok h v

theorem ident_ok (e : Nat) : ∀ p ∈ [Plain.ident e], ∀ v, p ≠ .value v := by
  intro p hp v; simp only [List.mem_singleton] at hp; subst hp; exact Plain.noConfusion

theorem nil_ok : ∀ p ∈ ([] : List Plain), ∀ v, p ≠ .value v := fun _ hp => nomatch hp

theorem audit_sv {s : State} (h : SV s.store) (req sec : Nat) (op : String) (extra : List Plain)
    (he : ∀ p ∈ extra, ∀ v, p ≠ .value v) : SV (s.audit req sec op extra).store :=
  h.put (auditRec_ok _ _ _ _ _ he)

theorem persistTtl_sv {s : State} (h : SV s.store) : SV s.persistTtl.store := by
  unfold State.persistTtl
  split
  · exact h.del _
  · exact h.put (ttlRec_ok _)

theorem persistDelegs_sv {s : State} (h : SV s.store) : SV s.persistDelegs.store := by
  unfold State.persistDelegs
  simp only
  exact foldl_inv (fun (st : Store) d => st.put (delegRec d)) SV s.delegs
    (fun st d _ hst => hst.put (delegRec_ok d)) _ (h.filter _)

theorem cleanup_sv {s : State} (h : SV s.store) (now : Nat) : SV (s.cleanup now).store := by
  unfold State.cleanup
  simp only
  split
  · exact persistTtl_sv h
  · exact h

@[simp] theorem putSecret_store (s : State) (m : SecretMeta) : (s.putSecret m).store = s.store := rfl
@[simp] theorem addAccess_store (s : State) (ent sec : Nat) (l : Level) (x : Option Nat) :
    (s.addAccess ent sec l x).store = s.store := rfl

theorem pruneVersions_sv (maxV name : Nat) (vs : List Nat) {st : Store} (h : SV st) :
    SV (pruneVersions maxV name vs st).2 := by
  unfold pruneVersions
  simp only
  exact SV.foldl_del h (fun n => RKey.blob name n) _ _ h

theorem set_sv {s : State} (h : SV s.store) (req sec val size : Nat) : SV (s.set req sec val size).1.store := by
  unfold State.set
  split
  · exact h
  · split
    · split
      · exact h
      · simp only
        apply audit_sv _ _ _ _ _ nil_ok
        simp only [putSecret_store]
        exact (pruneVersions_sv _ _ _ (h.put (blobRec_ok _ _ _))).put (metaRec_ok _ _ _ _)
    · split
      · exact h
      · simp only
        apply audit_sv _ _ _ _ _ nil_ok
        simp only [addAccess_store, putSecret_store]
        exact ((h.put (blobRec_ok _ _ _)).put (metaRec_ok _ _ _ _)).put (nodeRec_ok _)

theorem get_sv {s : State} (h : SV s.store) (now req sec : Nat) : SV (s.get now req sec).1.store := by
  unfold State.get
  simp only
  split
  · exact cleanup_sv h now
  · split
    · exact cleanup_sv h now
    · exact audit_sv (cleanup_sv h now) _ _ _ _ nil_ok

theorem list_sv {s : State} (h : SV s.store) (now req : Nat) (p : Pattern) : SV (s.list now req p).1.store := by
  unfold State.list
  simp only
  exact audit_sv (cleanup_sv h now) _ _ _ _ nil_ok

theorem rotate_sv {s : State} (h : SV s.store) (req sec val size : Nat) : SV (s.rotate req sec val size).1.store := by
  unfold State.rotate
  split
  · exact h
  · split
    · exact h
    · split
      · exact h
      · simp only
        apply audit_sv _ _ _ _ _ nil_ok
        simp only [putSecret_store]
        exact (pruneVersions_sv _ _ _ (h.put (blobRec_ok _ _ _))).put (metaRec_ok _ _ _ _)

theorem delete_sv {s : State} (h : SV s.store) (req sec : Nat) : SV (s.delete req sec).1.store := by
  unfold State.delete
  split
  · exact h
  · split
    · exact h
    · rename_i m _
      simp only
      apply audit_sv _ _ _ _ _ nil_ok
      apply persistTtl_sv
      simp only
      exact ((SV.foldl_del h (fun n => RKey.blob sec n) m.versions _ h).del _).del _

theorem grantCore_sv {s s' : State} (h : SV s.store) {req ent sec : Nat} {l : Level} {x : Option Nat}
    (hg : s.grantCore req ent sec l x = .ok s') : SV s'.store := by
  unfold State.grantCore at hg
  split at hg
  · cases hg
  · split at hg
    · cases hg
    · cases hg
      exact audit_sv (by simpa using h) _ _ _ _ (ident_ok ent)

theorem grant_sv {s : State} (h : SV s.store) (req ent sec : Nat) (l : Level) : SV (s.grant req ent sec l).1.store := by
  unfold State.grant
  split
  · exact h
  · rename_i s' hg; exact grantCore_sv h hg

theorem grantTtl_sv {s : State} (h : SV s.store) (now req ent sec : Nat) (l : Level) (ttl : Nat) :
    SV (s.grantTtl now req ent sec l ttl).1.store := by
  unfold State.grantTtl
  split
  · exact h
  · rename_i s' hg
    apply persistTtl_sv
    show SV s'.store
    exact grantCore_sv h hg

theorem revoke_sv {s : State} (h : SV s.store) (req ent sec : Nat) : SV (s.revoke req ent sec).1.store := by
  unfold State.revoke
  split
  · exact h
  · simp only
    apply audit_sv _ _ _ _ _ (ident_ok ent)
    split
    · exact persistTtl_sv h
    · exact h

theorem foldl_addAccess_store {child : Nat} {eff : Level} {exp : Option Nat} :
    ∀ (secs : List Nat) (s0 : State), (secs.foldl (fun st sec => st.addAccess child sec eff exp) s0).store = s0.store
  | [], _ => rfl
  | sec :: rest, s0 => by rw [List.foldl_cons, foldl_addAccess_store rest]; rfl

theorem foldl_audit_sv (parent child : Nat) (op : String) :
    ∀ (l : List Nat) (s0 : State), SV s0.store →
      SV (l.foldl (fun st sec => st.audit parent sec op [.ident child]) s0).store
  | [], _, h => h
  | x :: l, s0, h => by
    rw [List.foldl_cons]
    exact foldl_audit_sv parent child op l _ (audit_sv h _ _ _ _ (ident_ok child))

theorem delegate_sv {s : State} (h : SV s.store) (now parent child : Nat) (secs : List Nat) (l : Level)
    (ttl : Option Nat) : SV (s.delegate now parent child secs l ttl).1.store := by
  cases ttl with
  | none =>
    unfold State.delegate
    split
    · exact h
    · simp only
      split
      · exact h
      · split
        · exact h
        · split
          · exact h
          · apply foldl_audit_sv
            apply persistDelegs_sv
            rw [foldl_addAccess_store]
            exact h
  | some tt =>
    unfold State.delegate
    split
    · exact h
    · simp only
      split
      · exact h
      · split
        · exact h
        · split
          · exact h
          · apply foldl_audit_sv
            apply persistDelegs_sv
            apply persistTtl_sv
            simp only
            rw [foldl_addAccess_store]
            exact h

theorem foldl_drop_store (child : Nat) :
    ∀ (secs : List Nat) (s0 : State),
      (secs.foldl (fun (st : State) sec =>
        { st with graph := dropAccess st.graph child sec, ttl := ttlRemove st.ttl child sec }) s0).store = s0.store
  | [], _ => rfl
  | sec :: rest, s0 => by rw [List.foldl_cons, foldl_drop_store child rest]

theorem undelegate_sv {s : State} (h : SV s.store) (parent child : Nat) : SV (s.undelegate parent child).1.store := by
  unfold State.undelegate
  split
  · exact h
  · rename_i d _
    simp only
    apply foldl_audit_sv
    apply persistTtl_sv
    apply persistDelegs_sv
    rw [foldl_drop_store]
    exact h

theorem step_sv {s : State} (h : SV s.store) (t : Nat) (op : Op) : SV (step s t op).1.store := by
  cases op with
  | set req sec val size => exact set_sv h req sec val size
  | get req sec => exact get_sv h t req sec
  | list req p => exact list_sv h t req p
  | rotate req sec val size => exact rotate_sv h req sec val size
  | delete req sec => exact delete_sv h req sec
  | grant req ent sec l => exact grant_sv h req ent sec l
  | grantTtl req ent sec l ttl => exact grantTtl_sv h t req ent sec l ttl
  | revoke req ent sec => exact revoke_sv h req ent sec
  | delegate p c secs l ttl => exact delegate_sv h t p c secs l ttl
  | undelegate p c => exact undelegate_sv h p c
  | addMember a b => exact h
  | delMember a b => exact h

theorem run_sv : ∀ (h : List (Nat × Op)) (s : State), SV s.store → SV (run s h).store
  | [], _, hs => hs
  | (t, op) :: rest, s, hs => by
    rw [run]
    exact run_sv rest _ (step_sv hs t op)

theorem key_reveals_no_value (k : RKey) (v : Nat) : k.reveals (.value v) = false := by
  cases k <;> simp [RKey.reveals]

end Neumann.Vault
