import NeumannModel.Common.Proto
import NeumannModel.Vault.Model
/-
  Line-protocol driver for the vault model (C14).  All identities / secret names / values are
  alpha-renamed to numbers by the harness (identity 0 = `node:root`; secret name = ns*100 + k).
  Times are microseconds since the start of the history, measured by the harness.
  A requester number >= 2000000 (`nodeKeyBase`) is the string `vault_secret:<obfuscated name of secret n-2000000>`.

    pol <adminLimit> <writeLimit> <horizon> <maxDelegDepth> <maxValueSize> <maxVersions>   (resets the state)
    set <now> <req> <sec> <val> <size>            get <now> <req> <sec>
    list <now> <req> all|ns:<n>|one:<s>            rotate <now> <req> <sec> <val> <size>
    delete <now> <req> <sec>                       grant <now> <req> <ent> <sec> <lvl>
    grantttl <now> <req> <ent> <sec> <lvl> <ttl>   revoke <now> <req> <ent> <sec>
    delegate <now> <parent> <child> <s,s,..> <lvl> <ttl|->     undelegate <now> <parent> <child>
    addmember <a> <b>   delmember <a> <b>   membersec <a> <sec>   delmembersec <a> <sec>
    rawedge <ent> e|s <dst> <edge-type> <cap 0..3|9> <sigOk 0|1> d|u   (raw graph edge of ANY type, classified by the
            model's `kindOfType`; `u` = undirected: listed among the outgoing edges of both ends)
    perm <now> <req> <sec>
    getver <now> <req> <sec> <ver>    vercount <now> <req> <sec>    rollback <now> <req> <sec> <ver>
    batchget <now> <req> <s,s,..>     batchset <now> <req> <sec:val:size,..>
    wrap <now> <req> <sec>            unwrap <token-number>
    undelegatec <now> <parent> <child>                  reopen <now>
    probe <now> <req> <sec> <lvl> <mustExist 0|1>
-/
open Neumann Neumann.Proto Neumann.Vault

def showErr : Err → String
  | .denied => "denied" | .insufficient => "insufficient" | .notFound => "not_found"
  | .tooLarge => "too_large" | .crypto => "crypto" | .graphErr => "graph"

def showResp : Resp → String
  | .ok => "ok"
  | .value v => s!"ok v{v}"
  | .names l => "ok " ++ showNats (l.mergeSort (· ≤ ·))
  | .level l => s!"ok l{l.toNat}"
  | .num n => s!"ok n{n}"
  | .items l =>
    if l.isEmpty then "ok -" else "ok " ++ ",".intercalate (l.map fun
      | .done => "d" | .val v => s!"v{v}" | .err e => "e:" ++ showErr e)
  | .pairs l =>
    -- canonical: sorted by (parent, child)
    let l := l.mergeSort (fun a b => a.1 < b.1 || (a.1 = b.1 && a.2 ≤ b.2))
    if l.isEmpty then "ok -" else "ok " ++ ",".intercalate (l.map fun p => s!"{p.1}>{p.2}")
  | .err e => "err " ++ showErr e

def parsePattern (s : String) : Option Pattern :=
  if s = "all" then some .all
  else match s.splitOn ":" with
    | ["ns", n] => n.toNat?.map .ns
    | ["one", n] => n.toNat?.map .one
    | _ => none

def nats (ws : List String) : Option (List Nat) := ws.mapM (·.toNat?)

def parseEntries (s : String) : Option (List (Nat × Nat × Nat)) :=
  if s = "-" then some [] else
  (s.splitOn ",").mapM fun e =>
    match (e.splitOn ":").mapM (·.toNat?) with
    | some [a, b, c] => some (a, b, c)
    | _ => none

def vaultStep (s : State) (line : String) : State × String :=
  let bad := (s, "bad-op")
  let fin (r : State × Resp) : State × String := (r.1, showResp r.2)
  match words line with
  | "pol" :: rest => match nats rest with
      | some [al, wl, hz, md, ms, mv] => (init { adminLimit := al, writeLimit := wl, horizon := hz } md ms mv, "ok")
      | _ => bad
  | "set" :: rest => match nats rest with
      | some [now, req, sec, val, size] => fin (s.set now req sec val size) | _ => bad
  | "get" :: rest => match nats rest with
      | some [now, req, sec] => fin (s.get now req sec) | _ => bad
  | ["list", now, req, p] => match now.toNat?, req.toNat?, parsePattern p with
      | some now, some req, some p => fin (s.list now req p) | _, _, _ => bad
  | "rotate" :: rest => match nats rest with
      | some [now, req, sec, val, size] => fin (s.rotate now req sec val size) | _ => bad
  | "delete" :: rest => match nats rest with
      | some [now, req, sec] => fin (s.delete now req sec) | _ => bad
  | "grant" :: rest => match nats rest with
      | some [now, req, ent, sec, l] => (match Level.ofNat? l with
          | some l => fin (s.grant now req ent sec l) | none => bad)
      | _ => bad
  | "grantttl" :: rest => match nats rest with
      | some [now, req, ent, sec, l, ttl] => (match Level.ofNat? l with
          | some l => fin (s.grantTtl now req ent sec l ttl) | none => bad)
      | _ => bad
  | "revoke" :: rest => match nats rest with
      | some [now, req, ent, sec] => fin (s.revoke now req ent sec) | _ => bad
  | ["delegate", now, p, c, secs, l, ttl] =>
      match now.toNat?, p.toNat?, c.toNat?, parseNats secs, l.toNat?.bind Level.ofNat? with
      | some now, some p, some c, some secs, some l =>
        if ttl = "-" then fin (s.delegate now p c secs l none)
        else (match ttl.toNat? with | some t => fin (s.delegate now p c secs l (some t)) | none => bad)
      | _, _, _, _, _ => bad
  | "undelegate" :: rest => match nats rest with
      | some [_, p, c] => fin (s.undelegate p c) | _ => bad
  | "addmember" :: rest => match nats rest with
      | some [a, b] => fin (s.addMember (entNode a) (entNode b)) | _ => bad
  | "delmember" :: rest => match nats rest with
      | some [a, b] => fin (s.delMember (entNode a) (entNode b)) | _ => bad
  | "membersec" :: rest => match nats rest with
      | some [a, sec] => fin (s.addMember (entNode a) (secNode sec)) | _ => bad
  | "delmembersec" :: rest => match nats rest with
      | some [a, sec] => fin (s.delMember (entNode a) (secNode sec)) | _ => bad
  | ["rawedge", ent, dk, dst, ty, cap, sig, dir] =>
      match ent.toNat?, dst.toNat?, cap.toNat?, sig.toNat? with
      | some ent, some dst, some cap, some sig =>
        if (dk ≠ "e" ∧ dk ≠ "s") ∨ (dir ≠ "d" ∧ dir ≠ "u") then bad else
        let d := if dk = "s" then secNode dst else entNode dst
        let k := kindOfType ty.toList (Level.ofNat? cap) (sig = 1)
        let s1 := (s.addEdge (entNode ent) d k).1
        (if dir = "u" then (s1.addEdge d (entNode ent) k).1 else s1, "ok")
      | _, _, _, _ => bad
  | "getver" :: rest => match nats rest with
      | some [now, req, sec, ver] => fin (s.getVersion now req sec ver) | _ => bad
  | "vercount" :: rest => match nats rest with
      | some [now, req, sec] => fin (s.versionCount now req sec) | _ => bad
  | "rollback" :: rest => match nats rest with
      | some [now, req, sec, ver] => fin (s.rollback now req sec ver) | _ => bad
  | ["batchget", now, req, secs] => match now.toNat?, req.toNat?, parseNats secs with
      | some now, some req, some secs => fin (s.batchGet now req secs) | _, _, _ => bad
  | ["batchset", now, req, es] => match now.toNat?, req.toNat?, parseEntries es with
      | some now, some req, some es => fin (s.batchSet now req es) | _, _, _ => bad
  | "wrap" :: rest => match nats rest with
      | some [now, req, sec] => fin (s.wrap now req sec) | _ => bad
  | "unwrap" :: rest => match nats rest with
      | some [tok] => fin (s.unwrap tok) | _ => bad
  | "undelegatec" :: rest => match nats rest with
      | some [_, p, c] => fin (s.undelegateCascade p c) | _ => bad
  | "reopen" :: rest => match nats rest with
      | some [now] => fin (s.reopen now) | _ => bad
  | "probe" :: rest => match nats rest with
      | some [now, req, sec, l, me] => (match Level.ofNat? l with
          | some l => fin (s.probe now req sec l (me = 1)) | none => bad)
      | _ => bad
  | "perm" :: rest => match nats rest with
      | some [now, req, sec] =>
        -- `Vault::get_permission`: a caller that is neither root nor a secret-node key expires grants first
        -- (state effect kept)
        (if req = root || isNodeKey req then s else s.cleanup now,
         match s.getPermission now req sec with | some l => toString l.toNat | none => "none")
      | _ => bad
  | _ => bad

def main : IO Unit := run vaultStep (init)
