import NeumannModel.Vault.AtRest
/-
  C14 — "Vault: no access without a live grant, no plaintext at rest".
  ONLY property statements and their non-vacuity examples; helpers are in `Bfs.lean` / `Lemmas.lean`.

  What holds of the code as it is, what does not:
    * the graph search is sound and complete (`bfs_level_is_max_over_paths`);
    * every successful non-root call passed the level check against a grant edge that is still in the
      graph (`access_requires_grant_partial`) — but "still in the graph" is weaker than "unexpired":
      only `get` and `list` run `cleanup_expired_grants` first.  The full property
      `AccessRequiresLiveGrant` is therefore FALSE of the code (`access_requires_live_grant_witness`),
      and is proved for the read paths only (`read_requires_live_grant_partial`);
    * secret VALUES never reach the store / audit log in readable form (`at_rest_no_plain_value`);
      secret NAMES do, at three sites (`at_rest_shape_witness`).
-/
namespace Neumann.Vault.Props
open Neumann.Vault

set_option maxRecDepth 8192

/-! ## the search -/

/-- `get_permission_level_verified` returns exactly the maximum, over every MEMBER path shorter than the
    horizon and every verifying VAULT_ACCESS edge at its end, of the attenuated and capacity-limited level:
    (soundness) whatever it returns is contributed by such an edge, (completeness) no such edge is missed. -/
theorem bfs_level_is_max_over_paths (pol : Policy) (g : Graph) (src tgt : Nat) (hne : src ≠ tgt) :
    (∀ l, permLevel pol g src tgt = some l → ∃ e, Witness pol g src tgt l e) ∧
    (∀ l' e, Witness pol g src tgt l' e → ∃ l, permLevel pol g src tgt = some l ∧ l'.toNat ≤ l.toNat) :=
  ⟨fun l h => permLevel_sound pol g src tgt l hne h,
   fun l' e hw => permLevel_complete pol g src tgt l' e hne hw⟩

/-- non-vacuity: alice –MEMBER→ team –VAULT_ACCESS_ADMIN→ secret gives Write (2 hops) under the default policy,
    and a second, direct Read edge does not lower it -/
example : permLevel {} [⟨0, 2, 4, .member, none⟩, ⟨1, 4, 7, .access (some .admin) (some .admin) true, none⟩,
                        ⟨2, 2, 7, .access (some .read) (some .read) true, none⟩] 2 7 = some .write := by decide

/-- membership alone confers nothing: if no VAULT_ACCESS edge points at the secret, no chain of MEMBER
    edges (even one ending AT the secret node) gives any level -/
theorem membership_alone_confers_nothing (pol : Policy) (g : Graph) (src tgt : Nat) (hne : src ≠ tgt)
    (h : ∀ e ∈ g, e.dst = tgt → e.kind = .member) : permLevel pol g src tgt = none := by
  rw [permLevel_none_iff pol g src tgt hne]
  rintro l e ⟨k, grp, _, _, he, _, hdst, hacc, _⟩
  rw [h e he hdst] at hacc
  cases hacc

example : permLevel {} [⟨0, 2, 4, .member, none⟩, ⟨1, 4, 7, .member, none⟩, ⟨2, 2, 7, .member, none⟩] 2 7 = none := by
  decide

/-! ## every successful call was authorised by a grant edge that is still in the graph -/

/-- the (requester, secret, level) checks an operation must pass -/
def needs : Op → List (Nat × Nat × Level)
  | .set req sec _ _ => [(req, sec, .write)]
  | .get req sec => [(req, sec, .read)]
  | .rotate req sec _ _ => [(req, sec, .write)]
  | .delete req sec => [(req, sec, .admin)]
  | .grant req _ sec _ => [(req, sec, .admin)]
  | .grantTtl req _ sec _ _ => [(req, sec, .admin)]
  | .revoke req _ sec => [(req, sec, .admin)]
  | .delegate parent _ secs l _ => secs.map fun sec => (parent, sec, l)
  | .list .. | .undelegate .. | .addMember .. | .delMember .. => []

/-- the state the check is evaluated in: `get` / `list` first drop expired grants -/
def checkedIn (s : State) (t : Nat) : Op → State
  | .get .. | .list .. => s.cleanup t
  | _ => s

/-- PARTIAL (missing: "unexpired"): in EVERY state, a successful read / overwrite / rotate / delete / grant /
    revoke / delegate by a non-root requester implies a VAULT_ACCESS edge of sufficient attenuated level that is
    still in the graph (unrevoked, secret not deleted) at a node reachable over < horizon MEMBER hops; and every
    name `list` returns to a non-root requester is backed the same way. -/
theorem access_requires_grant_partial (s : State) (t : Nat) (op : Op) (hok : (step s t op).2.isOk = true) :
    (∀ x ∈ needs op, x.1 ≠ root → Justified (checkedIn s t op) x.1 x.2.1 x.2.2 (fun _ => True)) ∧
    (∀ req p names, op = .list req p → (step s t op).2 = .names names → req ≠ root →
        ∀ n ∈ names, Justified (s.cleanup t) req n .read (fun _ => True)) := by
  constructor
  · intro x hx hr
    cases op with
    | set req sec val size =>
      simp only [needs, List.mem_singleton] at hx; subst hx
      exact checkAccess_ok (set_ok hok hr).1 hr
    | get req sec =>
      simp only [needs, List.mem_singleton] at hx; subst hx
      exact checkAccess_ok (get_ok hok) hr
    | rotate req sec val size =>
      simp only [needs, List.mem_singleton] at hx; subst hx
      exact checkAccess_ok (rotate_ok hok) hr
    | delete req sec =>
      simp only [needs, List.mem_singleton] at hx; subst hx
      exact checkAccess_ok (delete_ok hok) hr
    | grant req ent sec l =>
      simp only [needs, List.mem_singleton] at hx; subst hx
      exact checkAccess_ok (grant_ok hok) hr
    | grantTtl req ent sec l ttl =>
      simp only [needs, List.mem_singleton] at hx; subst hx
      exact checkAccess_ok (grantTtl_ok hok) hr
    | revoke req ent sec =>
      simp only [needs, List.mem_singleton] at hx; subst hx
      exact checkAccess_ok (revoke_ok hok) hr
    | delegate parent child secs l ttl =>
      simp only [needs, List.mem_map] at hx
      obtain ⟨sec, hsec, rfl⟩ := hx
      obtain ⟨p, hp, hle⟩ := delegCheck_ok (delegate_ok hok) sec hsec
      have hr' : parent ≠ root := hr
      unfold State.getPermission at hp
      rw [if_neg hr'] at hp
      obtain ⟨l', e, hw, hl', _⟩ := perm_some_justified hp
      exact ⟨l', e, hw, Nat.le_trans hle hl', trivial⟩
    | list _ _ => simp only [needs] at hx; cases hx
    | undelegate _ _ => simp only [needs] at hx; cases hx
    | addMember _ _ => simp only [needs] at hx; cases hx
    | delMember _ _ => simp only [needs] at hx; cases hx
  · intro req p names hop hn hr n hmem
    subst hop
    exact hasAccess_justified (list_names hn n hmem) hr

/-- non-vacuity: a non-root Write holder overwrites a secret -/
example : (step (run (init) [(0, .set 0 1 7 3), (0, .grant 0 1 1 .write)]) 1 (.set 1 1 8 3)).2.isOk = true := by decide

/-- granting and revoking require Admin on the secret (instance of the above, stated on its own) -/
theorem grant_requires_admin (s : State) (t req ent sec : Nat) (l : Level) (ttl : Nat) (hr : req ≠ root) :
    ((step s t (.grant req ent sec l)).2.isOk = true → Justified s req sec .admin (fun _ => True)) ∧
    ((step s t (.grantTtl req ent sec l ttl)).2.isOk = true → Justified s req sec .admin (fun _ => True)) ∧
    ((step s t (.revoke req ent sec)).2.isOk = true → Justified s req sec .admin (fun _ => True)) :=
  ⟨fun h => checkAccess_ok (grant_ok h) hr, fun h => checkAccess_ok (grantTtl_ok h) hr,
   fun h => checkAccess_ok (revoke_ok h) hr⟩

/-- non-vacuity: a Write holder cannot grant, an Admin holder can -/
example : (step (run (init) [(0, .set 0 1 7 3), (0, .grant 0 1 1 .write)]) 1 (.grant 1 2 1 .read)).2 = .err .insufficient ∧
          (step (run (init) [(0, .set 0 1 7 3), (0, .grant 0 1 1 .admin)]) 1 (.grant 1 2 1 .read)).2 = .ok := by decide

/-- `delegate` is the one way a non-Admin can create a grant: the child's edge never exceeds what the parent
    holds at that moment, but a Read holder can hand Read on (by design of delegation.rs; recorded as a witness
    so that the reading "granting requires admin" is not silently claimed for delegation) -/
theorem delegate_without_admin_witness :
    ∃ (s : State) (t : Nat), s.getPermission 1 1 = some .read ∧
      (step s t (.delegate 1 2 [1] .read none)).2 = .level .read ∧
      (step s t (.delegate 1 2 [1] .read none)).1.perm 2 1 = some .read :=
  ⟨run (init) [(0, .set 0 1 7 3), (0, .grant 0 1 1 .read)], 1, by decide, by decide, by decide⟩

/-! ## the full property and where the code breaks it -/

/-- FULL property: every successful non-root access is backed by a grant that is unrevoked AND unexpired -/
def AccessRequiresLiveGrant : Prop :=
  ∀ (h : List (Nat × Op)) (t : Nat) (op : Op), (step (run (init) h) t op).2.isOk = true →
    ∀ x ∈ needs op, x.1 ≠ root → Justified (checkedIn (run (init) h) t op) x.1 x.2.1 x.2.2 (LiveAt t)

/-- the code as it is violates the full property: root grants Write for 5 time units at t=0; at t=10 the
    grantee still overwrites the secret (`set_inner` never looks at the TTL tracker) -/
theorem access_requires_live_grant_witness : ¬ AccessRequiresLiveGrant := by
  intro hfull
  have h := hfull [(0, .set 0 1 7 3), (0, .grantTtl 0 1 1 .write 5)] 10 (.set 1 1 8 3) (by decide)
    (1, 1, .write) (by simp [needs]) (by decide)
  obtain ⟨l, e, ⟨k, grp, hpath, hk, he, hsrc, hdst, hacc, hlvl⟩, hle, hlive⟩ := h
  -- the only access edges in that state: root's creation edge (no path from identity 1) and the expired one
  have hg : (checkedIn (run (init) [(0, .set 0 1 7 3), (0, .grantTtl 0 1 1 .write 5)]) 10 (.set 1 1 8 3)).graph =
      [accessEdge 1 0 1 .admin none, accessEdge 2 1 1 .write (some 5)] := by decide
  rw [hg] at he
  simp only [List.mem_cons, List.mem_nil_iff, or_false] at he
  rcases he with rfl | rfl
  · -- root's edge hangs off node 0; identity 1 (node 2) has no MEMBER edge at all, so it cannot reach node 0
    have : grp = entNode 1 := by
      cases k with
      | zero => exact MPath.zero_eq hpath
      | succ n =>
        obtain ⟨e', he', hk', _⟩ := MPath.first_edge hpath (by omega)
        rw [hg] at he'
        simp only [List.mem_cons, List.mem_nil_iff, or_false] at he'
        rcases he' with rfl | rfl <;> cases hk'
    rw [this] at hsrc
    revert hsrc; decide
  · exact absurd (hlive 5 rfl) (by omega)

/-- PARTIAL (the read paths only — exactly the paths on which the code runs `cleanup_expired_grants`): for EVERY
    configuration, EVERY history and EVERY time `t`, a successful non-root `get`, and every name a non-root `list`
    returns, is backed by a grant edge that is unrevoked AND unexpired at `t` (and reachable / sufficient as above).
    Proof: invariant `TI` (every edge issued with an expiry keeps its (entity, secret, expiry) entry in the TTL
    tracker, through all 12 operations) + "after cleanup at `t` every remaining edge is live at `t`". -/
theorem read_requires_live_grant_partial (pol : Policy) (a b c : Nat) (h : List (Nat × Op)) (t req : Nat)
    (hr : req ≠ root) :
    (∀ sec, (step (run (init pol a b c) h) t (.get req sec)).2.isOk = true →
        Justified ((run (init pol a b c) h).cleanup t) req sec .read (LiveAt t)) ∧
    (∀ p names, (step (run (init pol a b c) h) t (.list req p)).2 = .names names →
        ∀ n ∈ names, Justified ((run (init pol a b c) h).cleanup t) req n .read (LiveAt t)) := by
  have hinv := run_inv h _ (init_inv pol a b c)
  have hlive := (hinv.cleanup t).2
  constructor
  · intro sec hok
    exact (checkAccess_ok (get_ok hok) hr).weaken (fun e he _ => hlive e he)
  · intro p names hn n hmem
    exact (hasAccess_justified (list_names hn n hmem) hr).weaken (fun e he _ => hlive e he)

/-- non-vacuity and the contrast with the write path, same history: at t=10 the grant that expired at t=5 no
    longer lets identity 1 read or list, but still lets it overwrite -/
example :
    let s := run (init) [(0, .set 0 1 7 3), (0, .grantTtl 0 1 1 .write 5)]
    (step s 4 (.get 1 1)).2 = .value 7 ∧ (step s 10 (.get 1 1)).2 = .err .denied ∧
    (step s 10 (.list 1 .all)).2 = .names [] ∧ (step s 10 (.set 1 1 8 3)).2 = .ok := by decide

/-! ## revocation and deletion act at once -/

/-- after a successful `revoke req ent sec` no VAULT_ACCESS edge `ent → sec` is left; after a successful
    `delete req sec` no edge at all points at the secret, so every non-root requester fails every level check
    on it in the very next call (whatever the MEMBER edges) -/
theorem revoke_delete_immediate (s : State) (t req ent sec : Nat) :
    ((step s t (.revoke req ent sec)).2.isOk = true →
        ∀ e ∈ (step s t (.revoke req ent sec)).1.graph,
          ¬ (e.src = entNode ent ∧ e.dst = secNode sec ∧ e.kind.isAccess = true)) ∧
    ((step s t (.delete req sec)).2.isOk = true →
        ∀ r need, r ≠ root → (step s t (.delete req sec)).1.checkAccess r sec need ≠ .ok ()) := by
  constructor
  · intro hok e he
    simp only [step] at he hok
    rw [revoke_graph hok] at he
    exact (mem_dropAccess.mp he).2
  · intro hok r need hr hc
    obtain ⟨l, e, ⟨k, grp, _, _, he, _, hdst, _, _⟩, _, _⟩ := checkAccess_ok hc hr
    simp only [step] at he hok
    rw [delete_graph hok] at he
    simp only [List.mem_filter, decide_eq_true_eq] at he
    exact he.2 hdst

/-- non-vacuity + the direct consequence for a requester with no group: revoked ⇒ denied at once -/
example :
    let s := run (init) [(0, .set 0 1 7 3), (0, .grant 0 1 1 .admin), (0, .grant 0 1 1 .read)]
    (step s 1 (.get 1 1)).2 = .value 7 ∧
    (step (step s 1 (.revoke 0 1 1)).1 1 (.get 1 1)).2 = .err .denied ∧
    (step (step s 1 (.delete 0 1)).1 1 (.get 1 1)).2 = .err .denied := by decide

/-! ## at rest -/

/-- secret VALUES: for every configuration and every history, no record of the store (this includes the audit
    records, the persisted TTL tracker and the delegation records) exposes a secret value, neither in its key nor
    in any field.  "Type-level": values enter the store only through `blobRec`'s `Field.cipher`; the statement is
    relative to the hypothesis, built into `Field.reveals`, that AES-GCM ciphertext reveals nothing. -/
theorem at_rest_no_plain_value (pol : Policy) (a b c : Nat) (h : List (Nat × Op)) (v : Nat) :
    ∀ r ∈ (run (init pol a b c) h).store,
      r.key.reveals (.value v) = false ∧ ∀ f ∈ r.fields, f.2.reveals (.value v) = false := by
  intro r hr
  have hsv := run_sv h (init pol a b c) (fun _ hx => nomatch hx)
  exact ⟨key_reveals_no_value _ _, fun f hf => hsv r hr f hf v⟩

/-- non-vacuity: the value IS in the store — as ciphertext only -/
example : (run (init) [(0, .set 0 1 7 3), (0, .rotate 0 1 9 3)]).store.any
    (fun r => r.fields.any (fun f => f.2 = .cipher (.value 9))) = true := by decide

/-- FULL shape property: no store record (key or field) ever exposes a secret value or a secret name -/
def AtRestShape : Prop :=
  ∀ (h : List (Nat × Op)), ∀ r ∈ (run (init) h).store, ∀ f ∈ r.fields, ∀ (p : Plain),
    (∃ v, p = .value v) ∨ (∃ n, p = .name n) → f.2.reveals p = false

/-- the code writes the secret NAME in the clear: `_secret_key` of the `vault_secret:` node (vault.rs:554) -/
theorem at_rest_shape_witness : ¬ AtRestShape := by
  intro h
  have := h [(0, .set 0 1 7 3)] (nodeRec 1) (by decide) ("_secret_key", .clear [.name 1]) (by decide)
    (.name 1) (Or.inr ⟨1, rfl⟩)
  revert this; decide

/-- … and so do the persisted TTL tracker (`_vault_ttl_grants`) and the delegation records (`_vdel:`) -/
theorem at_rest_name_sites_witness :
    (∃ r ∈ (run (init) [(0, .set 0 1 7 3), (0, .grantTtl 0 1 1 .read 5)]).store, r.key = .ttlGrants ∧
        ∃ f ∈ r.fields, f.2.reveals (.name 1) = true) ∧
    (∃ r ∈ (run (init) [(0, .set 0 1 7 3), (0, .delegate 0 1 [1] .read none)]).store, r.key = .deleg 0 1 ∧
        ∃ f ∈ r.fields, f.2.reveals (.name 1) = true) := by
  refine ⟨⟨ttlRec [⟨1, 1, 5⟩], by decide, rfl, _, List.mem_singleton.mpr rfl, by decide⟩,
          ⟨delegRec ⟨0, 1, [1], 1⟩, by decide, rfl, _, List.mem_singleton.mpr rfl, by decide⟩⟩

end Neumann.Vault.Props
