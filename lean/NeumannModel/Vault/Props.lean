import NeumannModel.Vault.AtRest
/-
  C14 — "Vault: no access without a live grant, no plaintext at rest".
  ONLY property statements and their non-vacuity examples; helpers are in `Bfs.lean` / `Lemmas.lean` /
  `Inv.lean` / `AtRest.lean`.

  The model is the code AFTER 4e577a4d (expired TTL grants are dropped on every authorisation path),
  31ebe3e9 (no `_secret_key` in the secret node record) and ad58047e (a secret's graph-node key presented as
  the requester is refused by every authorisation entry point).  What holds, what does not:
    * the graph search is sound and complete (`bfs_level_is_max_over_paths`);
    * FULL: for every configuration, history, time and guarded operation, success of a non-root requester
      rests on a grant edge that is unrevoked AND unexpired, reachable within the horizon and of sufficient
      attenuated level (`access_requires_live_grant`, `…_prestate`); revoke / expiry / delete act at once;
    * the code before 4e577a4d violated exactly this (`access_requires_live_grant_old_witness`);
    * a requester string that is a secret's graph-node key (`vault_secret:…`) gets nothing from any entry point,
      in every state (`secret_node_key_is_no_identity`); before ad58047e it got Admin on its own secret through
      the `source == target` shortcut of the path search (`secret_node_key_as_identity_old_witness`);
    * cascading revocation walks delegation RECORDS, not agents: for every set of records (diamonds, an agent with
      several delegating parents, …) every record reachable from the revoked one is removed together with the edges
      it created (`cascading_revocation_reaches_every_record_below`), nothing else is removed
      (`cascading_revocation_removes_only_records_below`); the walk with a visited-AGENTS set is not complete
      (`cascade_visited_agents_leaves_delegation_witness`);
    * secret VALUES never reach the store / audit log in readable form (`at_rest_no_plain_value`);
    * secret NAMES: clean in the secret node, `_vk:`, `_vs:` and audit records
      (`at_rest_no_plain_name_partial`), still readable in the persisted TTL tracker and the delegation
      records (`at_rest_no_plain_name_witness`, `at_rest_name_sites_witness` — known findings).
-/
namespace Neumann.Vault.Props
open Neumann.Vault

set_option maxRecDepth 8192

/-! ## the search -/

/-- `get_permission_level_verified` returns exactly the maximum, over every MEMBER path shorter than the
    horizon and every verifying VAULT_ACCESS edge at its end, of the attenuated and capacity-limited level:
    (soundness) whatever it returns is contributed by such an edge, (completeness) no such edge is missed. -/
theorem bfs_level_is_max_over_paths (pol : Policy) (g : Graph) (src tgt : Nat) (hne : src ≠ tgt) :
    (∀ l, permLevel pol g src tgt = some l → ∃ e, Witness pol g src tgt l e) ∧
    (∀ l' e, Witness pol g src tgt l' e → ∃ l, permLevel pol g src tgt = some l ∧ l'.toNat ≤ l.toNat) :=
  ⟨fun l h => permLevel_sound pol g src tgt l hne h,
   fun l' e hw => permLevel_complete pol g src tgt l' e hne hw⟩

/-- non-vacuity: alice –MEMBER→ team –VAULT_ACCESS_ADMIN→ secret gives Write (2 hops) under the default policy,
    and a second, direct Read edge does not lower it -/
example : permLevel {} [⟨0, 2, 4, .member, none⟩, ⟨1, 4, 7, .access (some .admin) (some .admin) true, none⟩,
                        ⟨2, 2, 7, .access (some .read) (some .read) true, none⟩] 2 7 = some .write := by decide

/-- membership alone confers nothing: if no VAULT_ACCESS edge points at the secret, no chain of MEMBER
    edges (even one ending AT the secret node) gives any level -/
theorem membership_alone_confers_nothing (pol : Policy) (g : Graph) (src tgt : Nat) (hne : src ≠ tgt)
    (h : ∀ e ∈ g, e.dst = tgt → e.kind = .member) : permLevel pol g src tgt = none := by
  rw [permLevel_none_iff pol g src tgt hne]
  rintro l e ⟨k, grp, _, _, he, _, hdst, hacc, _⟩
  rw [h e he hdst] at hacc
  cases hacc

example : permLevel {} [⟨0, 2, 4, .member, none⟩, ⟨1, 4, 7, .member, none⟩, ⟨2, 2, 7, .member, none⟩] 2 7 = none := by
  decide

/-- only allow-listed edge types count (access.rs `ALLOWED_TRAVERSAL_EDGES` / `is_allowed_edge_type`):
    (classification) an edge type is skipped by the search exactly when it starts with none of the allow-listed
    strings, it can contribute a level only when it starts with `VAULT_ACCESS`, and it is traversed only when it is
    allow-listed without that prefix (i.e. starts with `MEMBER`);
    (irrelevance) deleting every skipped edge from ANY graph changes neither the level the search returns nor the
    denied / insufficient decision of `check_path` — so no chain through OWNS / ADMIN_OF / … edges confers anything. -/
theorem non_allowlisted_edges_are_ignored :
    (∀ (ty : List Char) (cap : Option Level) (sig : Bool),
        (kindOfType ty cap sig = .other ↔ isAllowedType ty = false) ∧
        ((kindOfType ty cap sig).isAccess = true → hasAccessPrefix ty = true) ∧
        (kindOfType ty cap sig = .member → isAllowedType ty = true ∧ hasAccessPrefix ty = false)) ∧
    (∀ (pol : Policy) (g : Graph) (src tgt : Nat),
        permLevel pol (dropOther g) src tgt = permLevel pol g src tgt ∧
        checkPath (dropOther g) src tgt = checkPath g src tgt) := by
  refine ⟨fun ty cap sig => ?_, fun pol g src tgt =>
    ⟨permLevel_congr (fun _ _ => Witness.dropOther_iff), checkPath_dropOther g src tgt⟩⟩
  unfold kindOfType
  cases ha : isAllowedType ty <;> cases hv : hasAccessPrefix ty <;> simp [EKind.isAccess]

/-- non-vacuity: the classification of concrete type strings, and a graph where alice reaches an Admin grant
    only through an `OWNS` edge (nothing) next to the same graph with a `MEMBER_OF` edge (Write at 2 hops) -/
example : kindOfType "OWNS".toList none true = .other ∧ kindOfType "member".toList none true = .other ∧
    kindOfType "XMEMBER".toList none true = .other ∧ kindOfType "VAULT_ACCES".toList none true = .other ∧
    kindOfType "MEMBER_OF".toList none true = .member ∧ kindOfType "MEMBERSHIP_ADMIN".toList none true = .member ∧
    kindOfType "VAULT_ACCESS_WRITE".toList none true = .access (some .write) none true ∧
    kindOfType "VAULT_ACCESS".toList none true = .access (some .admin) none true ∧
    kindOfType "VAULT_ACCESS_FOO".toList none true = .access none none true ∧
    kindOfType "VAULT_ACCESSX_READ".toList none true = .access (some .read) none true := by decide

example : permLevel {} [⟨0, 2, 4, kindOfType "OWNS".toList none true, none⟩,
                        ⟨1, 4, 7, .access (some .admin) (some .admin) true, none⟩] 2 7 = none ∧
          permLevel {} [⟨0, 2, 4, kindOfType "MEMBER_OF".toList none true, none⟩,
                        ⟨1, 4, 7, .access (some .admin) (some .admin) true, none⟩] 2 7 = some .write := by decide

/-! ## every successful call was authorised by a live grant -/

/-- the (requester, secret, level) checks an operation must pass -/
def needs : Op → List (Nat × Nat × Level)
  | .set req sec _ _ => [(req, sec, .write)]
  | .get req sec => [(req, sec, .read)]
  | .rotate req sec _ _ => [(req, sec, .write)]
  | .delete req sec => [(req, sec, .admin)]
  | .grant req _ sec _ => [(req, sec, .admin)]
  | .grantTtl req _ sec _ _ => [(req, sec, .admin)]
  | .revoke req _ sec => [(req, sec, .admin)]
  | .delegate parent _ secs l _ => secs.map fun sec => (parent, sec, l)
  | .getVersion req sec _ => [(req, sec, .read)]
  | .versions req sec => [(req, sec, .read)]
  | .rollback req sec _ => [(req, sec, .read), (req, sec, .write)]
  | .wrap req sec => [(req, sec, .read)]
  | .probe req sec need _ => [(req, sec, need)]
  | .list .. | .batchGet .. | .batchSet .. => []      -- per returned entry, see `Backed`
  | .undelegate .. | .undelegateCascade .. | .addMember .. | .delMember .. | .addEdge .. | .unwrap .. | .reopen => []

/-- what the answer `r` of a successful call `op` rests on, in state `s0`, with `P` a property of the grant edge:
    every level check the operation needs (read / old version / version count / wrap: Read; overwrite / rotate:
    Write; rollback: Read and Write; delete / grant / grant-with-ttl / revoke: Admin; delegate: the requested level
    on every secret), every name `list` returns, every value `batch_get` returns and every entry `batch_set`
    reports as written — each for a non-root requester — is `Justified` by a grant edge satisfying `P`. -/
def Backed (s0 : State) (op : Op) (r : Resp) (P : Edge → Prop) : Prop :=
  (∀ x ∈ needs op, x.1 ≠ root → Justified s0 x.1 x.2.1 x.2.2 P) ∧
  (∀ req p names, op = .list req p → r = .names names → req ≠ root →
      ∀ n ∈ names, Justified s0 req n .read P) ∧
  (∀ req secs items, op = .batchGet req secs → r = .items items → req ≠ root →
      ∀ p ∈ secs.zip items, ∀ v, p.2 = .val v → Justified s0 req p.1 .read P) ∧
  (∀ req entries items, op = .batchSet req entries → r = .items items → req ≠ root →
      ∀ p ∈ entries.zip items, p.2 = .done → Justified s0 req p.1.1 .write P)

/-- PARTIAL (missing: "unexpired" — an arbitrary state need not come from a history, so its TTL tracker need not
    know the edges' expiries): in EVERY state, a successful read / list entry / overwrite / rotate / delete / grant /
    revoke / delegate / old-version read / rollback / wrap / batch entry by a non-root requester implies a
    VAULT_ACCESS edge of sufficient attenuated level that is still in the graph after `cleanup_expired_grants`
    (unrevoked, secret not deleted) at a node reachable over < horizon MEMBER hops. -/
theorem access_requires_grant_any_state_partial (s : State) (t : Nat) (op : Op)
    (hok : (step s t op).2.isOk = true) :
    Backed (s.cleanup t) op (step s t op).2 (fun _ => True) := by
  refine ⟨?_, ?_, ?_, ?_⟩
  · intro x hx hr
    cases op with
    | set req sec val size =>
      simp only [needs, List.mem_singleton] at hx; subst hx
      exact set_ok hok hr
    | get req sec =>
      simp only [needs, List.mem_singleton] at hx; subst hx
      have := get_ok hok hr
      rwa [cleanup_cleanup] at this
    | rotate req sec val size =>
      simp only [needs, List.mem_singleton] at hx; subst hx
      exact rotate_ok hok hr
    | delete req sec =>
      simp only [needs, List.mem_singleton] at hx; subst hx
      exact delete_ok hok hr
    | grant req ent sec l =>
      simp only [needs, List.mem_singleton] at hx; subst hx
      exact grant_ok hok hr
    | grantTtl req ent sec l ttl =>
      simp only [needs, List.mem_singleton] at hx; subst hx
      exact grantTtl_ok hok hr
    | revoke req ent sec =>
      simp only [needs, List.mem_singleton] at hx; subst hx
      exact revoke_ok hok hr
    | delegate parent child secs l ttl =>
      simp only [needs, List.mem_map] at hx
      obtain ⟨sec, hsec, rfl⟩ := hx
      obtain ⟨p, hp, hle⟩ := delegCheck_ok (delegate_ok hok) sec hsec
      have hr' : parent ≠ root := hr
      obtain ⟨l', e, hw, hl', _⟩ := perm_some_justified (getPermission_some hp hr').2
      exact ⟨l', e, hw, Nat.le_trans hle hl', trivial⟩
    | getVersion req sec ver =>
      simp only [needs, List.mem_singleton] at hx; subst hx
      simp only [step] at hok; unfold State.getVersion at hok
      exact guarded_justified hok hr
    | versions req sec =>
      simp only [needs, List.mem_singleton] at hx; subst hx
      simp only [step] at hok; unfold State.versionCount at hok
      exact guarded_justified hok hr
    | wrap req sec =>
      simp only [needs, List.mem_singleton] at hx; subst hx
      simp only [step] at hok; unfold State.wrap at hok
      exact guarded_justified hok hr
    | probe req sec need me =>
      simp only [needs, List.mem_singleton] at hx; subst hx
      simp only [step] at hok; unfold State.probe at hok
      exact guarded_justified hok hr
    | rollback req sec ver =>
      simp only [step] at hok; unfold State.rollback at hok
      simp only [needs, List.mem_cons, List.mem_nil_iff, or_false] at hx
      rcases hx with rfl | rfl
      · exact guarded_justified hok hr
      · -- the inner `set` ran on the state the outer check left (= `cleanup t`) and succeeded
        have h2 := (guarded_ok hok).2
        have h1 := (guarded_ok hok).1
        rw [h2, checkAccess_fst_ok h1 (show req ≠ root from hr)] at hok
        split at hok
        · cases hok
        · split at hok
          · cases hok
          · have := set_ok hok hr
            rwa [cleanup_cleanup] at this
    | list _ _ => simp only [needs] at hx; cases hx
    | undelegate _ _ => simp only [needs] at hx; cases hx
    | addMember _ _ => simp only [needs] at hx; cases hx
    | delMember _ _ => simp only [needs] at hx; cases hx
    | addEdge _ _ _ => simp only [needs] at hx; cases hx
    | batchGet _ _ => simp only [needs] at hx; cases hx
    | batchSet _ _ => simp only [needs] at hx; cases hx
    | unwrap _ => simp only [needs] at hx; cases hx
    | undelegateCascade _ _ => simp only [needs] at hx; cases hx
    | reopen => simp only [needs] at hx; cases hx
  · intro req p names hop hn hr n hmem
    subst hop
    have := hasAccess_justified (list_names hn n hmem) hr
    rwa [cleanup_cleanup] at this
  · intro req secs items hop hi hr p hp v hv
    subst hop
    simp only [step] at hi; unfold State.batchGet at hi
    simp only [Resp.items.injEq] at hi
    subst hi
    have hp2 := mem_zip_map _ secs p hp
    rw [hv] at hp2
    split at hp2
    · cases hp2
    · rename_i hc
      have := (checkAccess_ok (s' := ((s.cleanup t).checkAccess t req p.1 .read).1) (by rw [← hc]) hr).2
      rwa [cleanup_cleanup] at this
  · intro req entries items hop hi hr p hp hd
    subst hop
    simp only [step] at hi; unfold State.batchSet at hi
    split at hi
    · simp only [Resp.items.injEq] at hi; subst hi; simp at hp
    · simp only [Resp.items.injEq] at hi
      rw [batchSet_fold_items, List.nil_append] at hi
      subst hi
      exact batchItems_justified hr entries s (Same.refl _) p hp hd

/-- non-vacuity: a non-root Write holder overwrites a secret -/
example : (step (run (init) [(0, .set 0 1 7 3), (0, .grant 0 1 1 .write)]) 1 (.set 1 1 8 3)).2.isOk = true := by decide

/-- FULL.  For every configuration, every history of timed API calls (including raw graph edges of any kind,
    batch calls, old-version reads, rollbacks, wrapping, cascading revocation and re-opening the vault over its
    store), every time `t` and every operation: if the call succeeds then everything its answer rests on (`Backed`:
    each level check with a non-root requester — read, old-version read, version count, wrap, transit
    encrypt/decrypt, changelog, get/clear expiration, overwrite, rotate, rollback, delete, grant, grant-with-ttl, revoke, delegate — each name a non-root `list` returns, each value a
    non-root `batch_get` returns, each entry a non-root `batch_set` reports written) has a VAULT_ACCESS edge that
      * is in the graph the decision was taken on (= the graph before the call minus the grants the TTL tracker
        reports expired at `t`): unrevoked, its secret not deleted;
      * is UNEXPIRED at `t` (`LiveAt t`: the grant that created it was issued with no expiry or with one `> t`);
      * hangs off the requester or off a group reachable from it over fewer than `horizon` MEMBER hops;
      * after signature check, attenuation by distance and capacity gives at least the needed level.
    Proof: history invariant `HI` (every edge issued with an expiry keeps its tracker entry through all 23
    operations, and every tracker entry is in the persisted copy a re-opened vault loads) ⇒ after
    `cleanup_expired_grants` at `t` every remaining edge is live at `t`; every authorisation entry point of the
    repaired code runs that cleanup first. -/
theorem access_requires_live_grant (pol : Policy) (a b c : Nat) (h : List (Nat × Op)) (t : Nat) (op : Op)
    (hok : (step (run (init pol a b c) h) t op).2.isOk = true) :
    Backed ((run (init pol a b c) h).cleanup t) op (step (run (init pol a b c) h) t op).2 (LiveAt t) := by
  have hlive := ((run_inv h _ (init_inv pol a b c)).1.cleanup t).2
  obtain ⟨h1, h2, h3, h4⟩ := access_requires_grant_any_state_partial _ t op hok
  exact ⟨fun x hx hr => (h1 x hx hr).weaken (fun e he _ => hlive e he),
         fun req p names hop hn hr n hmem => (h2 req p names hop hn hr n hmem).weaken (fun e he _ => hlive e he),
         fun req secs items hop hi hr p hp v hv => (h3 req secs items hop hi hr p hp v hv).weaken (fun e he _ => hlive e he),
         fun req es items hop hi hr p hp hd => (h4 req es items hop hi hr p hp hd).weaken (fun e he _ => hlive e he)⟩

/-- FULL, same statement about the state right BEFORE the call (no reference to the cleanup): the live grant
    edge is in the pre-call graph. -/
theorem access_requires_live_grant_prestate (pol : Policy) (a b c : Nat) (h : List (Nat × Op)) (t : Nat) (op : Op)
    (hok : (step (run (init pol a b c) h) t op).2.isOk = true) :
    Backed (run (init pol a b c) h) op (step (run (init pol a b c) h) t op).2 (LiveAt t) := by
  obtain ⟨h1, h2, h3, h4⟩ := access_requires_live_grant pol a b c h t op hok
  exact ⟨fun x hx hr => (h1 x hx hr).of_cleanup,
         fun req p names hop hn hr n hmem => (h2 req p names hop hn hr n hmem).of_cleanup,
         fun req secs items hop hi hr p hp v hv => (h3 req secs items hop hi hr p hp v hv).of_cleanup,
         fun req es items hop hi hr p hp hd => (h4 req es items hop hi hr p hp hd).of_cleanup⟩

/-- non-vacuity and the behaviour around expiry, one history: a Write grant issued at t=0 for 5 time units lets
    identity 1 read, list and overwrite at t=4; at t=10 every path is closed — read, list, overwrite, rotate,
    and (for an Admin grant) delete / grant / revoke / delegate -/
example :
    let s := run (init) [(0, .set 0 1 7 3), (0, .grantTtl 0 1 1 .write 5)]
    (step s 4 (.get 1 1)).2 = .value 7 ∧ (step s 4 (.set 1 1 8 3)).2 = .ok ∧ (step s 4 (.list 1 .all)).2 = .names [1] ∧
    (step s 10 (.get 1 1)).2 = .err .denied ∧ (step s 10 (.list 1 .all)).2 = .names [] ∧
    (step s 10 (.set 1 1 8 3)).2 = .err .denied ∧ (step s 10 (.rotate 1 1 8 3)).2 = .err .denied := by decide

example :
    let s := run (init) [(0, .set 0 1 7 3), (0, .grantTtl 0 1 1 .admin 5)]
    (step s 4 (.grant 1 2 1 .read)).2 = .ok ∧ (step s 4 (.delegate 1 2 [1] .write none)).2 = .level .write ∧
    (step s 10 (.delete 1 1)).2 = .err .denied ∧ (step s 10 (.grant 1 2 1 .read)).2 = .err .denied ∧
    (step s 10 (.grantTtl 1 2 1 .read 9)).2 = .err .denied ∧ (step s 10 (.revoke 1 2 1)).2 = .err .denied ∧
    (step s 10 (.delegate 1 2 [1] .read none)).2 = .err .denied := by decide

/-- non-vacuity for the other read / overwrite paths: with a Read grant identity 1 reads old versions, the version
    count, a batch and a wrapped copy but cannot roll back; with a Write grant for 5 time units identity 2 rolls back
    and batch-writes at t=4 and does none of it at t=10; identity 3 (no grant) gets nothing anywhere -/
example :
    let s := run (init) [(0, .set 0 1 7 3), (0, .rotate 0 1 8 3), (0, .grant 0 1 1 .read), (0, .grantTtl 0 2 1 .write 5)]
    (step s 4 (.getVersion 1 1 1)).2 = .value 7 ∧ (step s 4 (.getVersion 1 1 2)).2 = .value 8 ∧
    (step s 4 (.getVersion 1 1 3)).2 = .err .notFound ∧ (step s 4 (.versions 1 1)).2 = .num 2 ∧
    (step s 4 (.batchGet 1 [1, 2])).2 = .items [.val 8, .err .denied] ∧ (step s 4 (.wrap 1 1)).2 = .ok ∧
    (step s 4 (.rollback 1 1 1)).2 = .err .insufficient ∧
    (step s 4 (.rollback 2 1 1)).2 = .ok ∧ (step s 4 (.batchSet 2 [(1, 9, 3), (2, 9, 3)])).2 = .items [.done, .err .denied] ∧
    (step s 10 (.rollback 2 1 1)).2 = .err .denied ∧ (step s 10 (.batchSet 2 [(1, 9, 3)])).2 = .items [.err .denied] ∧
    (step s 10 (.getVersion 2 1 1)).2 = .err .denied ∧ (step s 10 (.batchGet 2 [1])).2 = .items [.err .denied] ∧
    (step s 4 (.getVersion 3 1 1)).2 = .err .denied ∧ (step s 4 (.versions 3 1)).2 = .err .denied ∧
    (step s 4 (.wrap 3 1)).2 = .err .denied ∧ (step s 4 (.batchGet 3 [1])).2 = .items [.err .denied] := by decide

/-- the code BEFORE 4e577a4d violated the property: root grants Write for 5 time units at t=0; at any later time
    (the old `set_inner` never looked at the TTL tracker) the grantee still overwrites the secret although no
    grant live at t=10 justifies it -/
theorem access_requires_live_grant_old_witness :
    ∃ (h : List (Nat × Op)), ((run (init) h).setOld 1 1 8 3).2 = .ok ∧
      ¬ Justified (run (init) h) 1 1 .write (LiveAt 10) := by
  refine ⟨[(0, .set 0 1 7 3), (0, .grantTtl 0 1 1 .write 5)], by decide, ?_⟩
  rintro ⟨l, e, ⟨k, grp, hpath, hk, he, hsrc, hdst, hacc, hlvl⟩, hle, hlive⟩
  -- the only access edges in that state: root's creation edge (no path from identity 1) and the expired one
  have hg : (run (init) [(0, .set 0 1 7 3), (0, .grantTtl 0 1 1 .write 5)]).graph =
      [accessEdge 1 0 1 .admin none, accessEdge 2 1 1 .write (some 5)] := by decide
  rw [hg] at he
  simp only [List.mem_cons, List.mem_nil_iff, or_false] at he
  rcases he with rfl | rfl
  · -- root's edge hangs off node 0; identity 1 (node 2) has no MEMBER edge at all, so it cannot reach node 0
    have : grp = entNode 1 := by
      cases k with
      | zero => exact MPath.zero_eq hpath
      | succ n =>
        obtain ⟨e', he', hk', _⟩ := MPath.first_edge hpath (by omega)
        rw [hg] at he'
        simp only [List.mem_cons, List.mem_nil_iff, or_false] at he'
        rcases he' with rfl | rfl <;> cases hk'
    rw [this] at hsrc
    revert hsrc; decide
  · exact absurd (hlive 5 rfl) (by omega)

/-- … while the repaired `set` refuses in the same state at the same time -/
example : (step (run (init) [(0, .set 0 1 7 3), (0, .grantTtl 0 1 1 .write 5)]) 10 (.set 1 1 8 3)).2 = .err .denied := by
  decide

/-! ## a secret's graph-node key is not an identity (ad58047e) -/

/-- FULL, every state, every time: a requester STRING that is the graph key of a secret's node
    (`vault_secret:…` — of ANY secret, existing or not, in particular of the very secret asked for, where the path
    search answers Admin through `source == target` without looking at a grant) gets nothing from any entry point:
    `check_access_with_permission` answers AccessDenied and leaves the state untouched, `has_access` is false,
    `get_permission` is None; hence every operation that checks a level for it (`needs`: read, old-version read,
    version count, wrap, transit, changelog, get/clear expiration, overwrite, rotate, rollback, delete, grant,
    grant-with-ttl, revoke, delegate of at least one secret) fails, `list` returns no name, every `batch_get` entry
    is AccessDenied and every `batch_set` entry is an error. -/
theorem secret_node_key_is_no_identity (s : State) (t req : Nat) (hk : isNodeKey req = true) :
    (∀ sec need, s.checkAccess t req sec need = (s, .error .denied)) ∧
    (∀ sec, s.hasAccess t req sec = false ∧ s.getPermission t req sec = none) ∧
    (∀ op, ∀ x ∈ needs op, x.1 = req → (step s t op).2.isOk = false) ∧
    (∀ p, (step s t (.list req p)).2 = .names []) ∧
    (∀ secs, ∃ items, (step s t (.batchGet req secs)).2 = .items items ∧ ∀ i ∈ items, i = .err .denied) ∧
    (∀ entries, ∃ items, (step s t (.batchSet req entries)).2 = .items items ∧ ∀ i ∈ items, ∃ e, i = .err e) := by
  refine ⟨fun sec need => checkAccess_key s t req sec need hk,
          fun sec => ⟨hasAccess_key s t req sec hk, getPermission_key s t req sec hk⟩, ?_, ?_, ?_, ?_⟩
  · intro op x hx hreq
    cases op with
    | set r sec val size =>
      simp only [needs, List.mem_singleton] at hx; subst hx; subst hreq
      obtain ⟨e, he⟩ := set_key s t r sec val size hk
      simp only [step, he]; rfl
    | get r sec =>
      simp only [needs, List.mem_singleton] at hx; subst hx; subst hreq
      simp only [step, State.get, guarded_key _ t r sec _ _ hk]; rfl
    | rotate r sec val size =>
      simp only [needs, List.mem_singleton] at hx; subst hx; subst hreq
      simp only [step, State.rotate, guarded_key _ t r sec _ _ hk]; rfl
    | delete r sec =>
      simp only [needs, List.mem_singleton] at hx; subst hx; subst hreq
      simp only [step, State.delete, guarded_key _ t r sec _ _ hk]; rfl
    | grant r ent sec l =>
      simp only [needs, List.mem_singleton] at hx; subst hx; subst hreq
      simp only [step, State.grant, State.grantCore, guarded_key _ t r sec _ _ hk]; rfl
    | grantTtl r ent sec l ttl =>
      simp only [needs, List.mem_singleton] at hx; subst hx; subst hreq
      simp only [step, State.grantTtl, State.grantCore, guarded_key _ t r sec _ _ hk]; rfl
    | revoke r ent sec =>
      simp only [needs, List.mem_singleton] at hx; subst hx; subst hreq
      simp only [step, State.revoke, guarded_key _ t r sec _ _ hk]; rfl
    | delegate parent child secs l ttl =>
      simp only [needs, List.mem_map] at hx
      obtain ⟨sec, hsec, rfl⟩ := hx
      simp only at hreq; subst hreq
      cases secs with
      | nil => cases hsec
      | cons a rest =>
        simp only [step, State.delegate, State.delegCheck, getPermission_key s t parent a hk]; rfl
    | getVersion r sec ver =>
      simp only [needs, List.mem_singleton] at hx; subst hx; subst hreq
      simp only [step, State.getVersion, guarded_key _ t r sec _ _ hk]; rfl
    | versions r sec =>
      simp only [needs, List.mem_singleton] at hx; subst hx; subst hreq
      simp only [step, State.versionCount, guarded_key _ t r sec _ _ hk]; rfl
    | rollback r sec ver =>
      have : r = req := by
        simp only [needs, List.mem_cons, List.mem_nil_iff, or_false] at hx
        rcases hx with rfl | rfl <;> exact hreq
      subst this
      simp only [step, State.rollback, guarded_key _ t r sec _ _ hk]; rfl
    | wrap r sec =>
      simp only [needs, List.mem_singleton] at hx; subst hx; subst hreq
      simp only [step, State.wrap, guarded_key _ t r sec _ _ hk]; rfl
    | probe r sec need me =>
      simp only [needs, List.mem_singleton] at hx; subst hx; subst hreq
      simp only [step, State.probe, guarded_key _ t r sec _ _ hk]; rfl
    | list _ _ => simp only [needs] at hx; cases hx
    | undelegate _ _ => simp only [needs] at hx; cases hx
    | addMember _ _ => simp only [needs] at hx; cases hx
    | delMember _ _ => simp only [needs] at hx; cases hx
    | addEdge _ _ _ => simp only [needs] at hx; cases hx
    | batchGet _ _ => simp only [needs] at hx; cases hx
    | batchSet _ _ => simp only [needs] at hx; cases hx
    | unwrap _ => simp only [needs] at hx; cases hx
    | undelegateCascade _ _ => simp only [needs] at hx; cases hx
    | reopen => simp only [needs] at hx; cases hx
  · intro p
    simp only [step, State.list, hasAccess_key _ t req _ hk, Bool.and_false]
    have : ∀ l : List SecretMeta, l.filter (fun _ => false) = [] := by
      intro l; induction l with
      | nil => rfl
      | cons a l ih => rw [List.filter_cons]; exact ih
    rw [this]; rfl
  · intro secs
    refine ⟨_, rfl, fun i hi => ?_⟩
    obtain ⟨sec, _, rfl⟩ := List.mem_map.mp hi
    rw [checkAccess_key _ t req sec .read hk]
  · intro entries
    simp only [step, State.batchSet]
    split
    · exact ⟨[], rfl, fun i hi => nomatch hi⟩
    · refine ⟨_, rfl, fun i hi => ?_⟩
      rw [batchSet_fold_items, List.nil_append] at hi
      exact batchItems_key hk entries s i hi

/-- non-vacuity: with secret 1 stored (value 7) and no grant to anybody, the requester `vault_secret:<obf 1>` is
    denied on every path — on its own secret, on another one, and as the key of a secret that does not exist —
    while root still reads the secret and an identity holding a grant is served -/
example :
    let s := run (init) [(0, .set 0 1 7 3), (0, .set 0 2 8 3), (0, .grant 0 1 1 .read)]
    isNodeKey (nodeKeyReq 1) = true ∧ reqNode (nodeKeyReq 1) = secNode 1 ∧
    (step s 1 (.get (nodeKeyReq 1) 1)).2 = .err .denied ∧ (step s 1 (.get (nodeKeyReq 1) 2)).2 = .err .denied ∧
    (step s 1 (.get (nodeKeyReq 9) 1)).2 = .err .denied ∧
    (step s 1 (.rotate (nodeKeyReq 1) 1 9 3)).2 = .err .denied ∧ (step s 1 (.delete (nodeKeyReq 1) 1)).2 = .err .denied ∧
    (step s 1 (.grant (nodeKeyReq 1) 2 1 .admin)).2 = .err .denied ∧
    (step s 1 (.delegate (nodeKeyReq 1) 2 [1] .read none)).2 = .err .denied ∧
    (step s 1 (.list (nodeKeyReq 1) .all)).2 = .names [] ∧
    (step s 1 (.batchGet (nodeKeyReq 1) [1, 2])).2 = .items [.err .denied, .err .denied] ∧
    (step s 1 (.batchSet (nodeKeyReq 1) [(1, 9, 3)])).2 = .items [.err .denied] ∧
    s.getPermission 1 (nodeKeyReq 1) 1 = none ∧
    (step s 1 (.get 0 1)).2 = .value 7 ∧ (step s 1 (.get 1 1)).2 = .value 7 := by decide

/-- the code BEFORE ad58047e violated the access property: root stores secret 1 and grants nothing; the requester
    string `vault_secret:<obf 1>` names the secret's own node, the path search answered Admin through
    `source == target`, and the old entry points therefore reported Admin, served the read and let the node key
    grant Admin to identity 2 — although the only VAULT_ACCESS edge in the graph is root's own creation edge -/
theorem secret_node_key_as_identity_old_witness :
    ∃ (h : List (Nat × Op)) (t : Nat),
      (∀ e ∈ (run (init) h).graph, e.src = entNode root) ∧
      (run (init) h).getPermissionKeyOld t (nodeKeyReq 1) 1 = some .admin ∧
      ((run (init) h).getKeyOld t (nodeKeyReq 1) 1).2 = .value 7 ∧
      ((run (init) h).grantKeyOld t (nodeKeyReq 1) 2 1 .admin).2 = .ok ∧
      (step ((run (init) h).grantKeyOld t (nodeKeyReq 1) 2 1 .admin).1 t (.delete 2 1)).2 = .ok :=
  ⟨[(0, .set 0 1 7 3)], 1, by decide, by decide, by decide, by decide, by decide⟩

/-- … while the repaired entry points refuse in the same state at the same time; the old check was NOT wrong for a
    node key of another secret (no shortcut there): the defect was exactly `source == target` -/
example :
    let s := run (init) [(0, .set 0 1 7 3), (0, .set 0 2 8 3)]
    (step s 1 (.get (nodeKeyReq 1) 1)).2 = .err .denied ∧ s.getPermission 1 (nodeKeyReq 1) 1 = none ∧
    (step s 1 (.grant (nodeKeyReq 1) 2 1 .admin)).2 = .err .denied ∧
    (s.getKeyOld 1 (nodeKeyReq 1) 2).2 = .err .denied ∧ s.getPermissionKeyOld 1 (nodeKeyReq 2) 1 = none := by decide

/-! ## granting -/

/-- FULL: granting (with or without TTL) and revoking require a LIVE Admin-level grant on the secret — for every
    configuration, history, time and non-root requester -/
theorem grant_requires_admin (pol : Policy) (a b c : Nat) (h : List (Nat × Op)) (t req ent sec : Nat) (l : Level)
    (ttl : Nat) (hr : req ≠ root) :
    ((step (run (init pol a b c) h) t (.grant req ent sec l)).2.isOk = true →
        Justified (run (init pol a b c) h) req sec .admin (LiveAt t)) ∧
    ((step (run (init pol a b c) h) t (.grantTtl req ent sec l ttl)).2.isOk = true →
        Justified (run (init pol a b c) h) req sec .admin (LiveAt t)) ∧
    ((step (run (init pol a b c) h) t (.revoke req ent sec)).2.isOk = true →
        Justified (run (init pol a b c) h) req sec .admin (LiveAt t)) :=
  ⟨fun hok => (access_requires_live_grant_prestate pol a b c h t _ hok).1 (req, sec, .admin) (List.mem_singleton.mpr rfl) hr,
   fun hok => (access_requires_live_grant_prestate pol a b c h t _ hok).1 (req, sec, .admin) (List.mem_singleton.mpr rfl) hr,
   fun hok => (access_requires_live_grant_prestate pol a b c h t _ hok).1 (req, sec, .admin) (List.mem_singleton.mpr rfl) hr⟩

/-- non-vacuity: a Write holder cannot grant, an Admin holder can -/
example : (step (run (init) [(0, .set 0 1 7 3), (0, .grant 0 1 1 .write)]) 1 (.grant 1 2 1 .read)).2 = .err .insufficient ∧
          (step (run (init) [(0, .set 0 1 7 3), (0, .grant 0 1 1 .admin)]) 1 (.grant 1 2 1 .read)).2 = .ok := by decide

/-- FULL: delegation (the documented ceiling model — "agents delegate subsets of their own access") never hands
    out more than the delegator holds: a successful `delegate` by a non-root parent answers with an effective
    level `eff ≤` the requested one, and on every delegated secret the parent itself holds a LIVE grant of at
    least the requested (hence of at least the effective) level at that moment. -/
theorem delegate_within_own_level (pol : Policy) (a b c : Nat) (h : List (Nat × Op)) (t parent child : Nat)
    (secs : List Nat) (l : Level) (ttl : Option Nat) (hr : parent ≠ root)
    (hok : (step (run (init pol a b c) h) t (.delegate parent child secs l ttl)).2.isOk = true) :
    ∃ eff, (step (run (init pol a b c) h) t (.delegate parent child secs l ttl)).2 = .level eff ∧
      eff.toNat ≤ l.toNat ∧
      ∀ sec ∈ secs, Justified (run (init pol a b c) h) parent sec l (LiveAt t) := by
  refine ⟨_, delegate_resp hok, delegEff_le _ _ _ _ _, fun sec hs => ?_⟩
  exact (access_requires_live_grant_prestate pol a b c h t _ hok).1 (parent, sec, l)
    (List.mem_map.mpr ⟨sec, hs, rfl⟩) hr

/-- `delegate` is the one way a non-Admin can create a grant: the child's edge never exceeds what the parent
    holds at that moment (`delegate_within_own_level`), but a Read holder can hand Read on.  This is the documented
    design (docs/book/src/architecture/tensor-vault.md "Delegation": ceiling model, and its example of a Read-only
    deploy agent delegating Read to a canary agent); recorded as a witness so that the reading "granting requires
    admin" is not silently claimed for delegation. -/
theorem delegate_without_admin_witness :
    ∃ (s : State) (t : Nat), s.getPermission t 1 1 = some .read ∧
      (step s t (.delegate 1 2 [1] .read none)).2 = .level .read ∧
      (step s t (.delegate 1 2 [1] .read none)).1.perm 2 1 = some .read :=
  ⟨run (init) [(0, .set 0 1 7 3), (0, .grant 0 1 1 .read)], 1, by decide, by decide, by decide⟩

/-! ## revocation, expiry and deletion act at once -/

/-- (revoke) after a successful `revoke req ent sec` no VAULT_ACCESS edge `ent → sec` is left;
    (delete) after a successful `delete req sec` no edge at all points at the secret, so every non-root requester
    fails every level check on it in every later call (whatever the MEMBER edges, whatever the time);
    (expire) for every history: in the graph any authorisation decision at time `t` is taken on, every edge is
    unexpired at `t`; and a non-root requester for whom the pre-call state holds no LIVE sufficient grant fails
    `check_access_with_permission`, and `get_permission` reports less than the needed level — at the very first
    call at or after the expiry instant, with no intervening read. -/
theorem revoke_expire_delete_immediate :
    (∀ (s : State) (t req ent sec : Nat), (step s t (.revoke req ent sec)).2.isOk = true →
        ∀ e ∈ (step s t (.revoke req ent sec)).1.graph,
          ¬ (e.src = entNode ent ∧ e.dst = secNode sec ∧ e.kind.isAccess = true)) ∧
    (∀ (s : State) (t req sec : Nat), (step s t (.delete req sec)).2.isOk = true →
        ∀ r need t', r ≠ root → ((step s t (.delete req sec)).1.checkAccess t' r sec need).2 ≠ .ok ()) ∧
    (∀ (pol : Policy) (a b c : Nat) (h : List (Nat × Op)) (t : Nat),
        (∀ e ∈ ((run (init pol a b c) h).cleanup t).graph, LiveAt t e) ∧
        ∀ r sec need, r ≠ root → ¬ Justified (run (init pol a b c) h) r sec need (LiveAt t) →
          ((run (init pol a b c) h).checkAccess t r sec need).2 ≠ .ok () ∧
          ∀ p, (run (init pol a b c) h).getPermission t r sec = some p → p.toNat < need.toNat) := by
  refine ⟨?_, ?_, ?_⟩
  · intro s t req ent sec hok e he
    simp only [step] at he hok
    obtain ⟨s', hg⟩ := revoke_graph hok
    rw [hg] at he
    exact (mem_dropAccess.mp he).2
  · intro s t req sec hok r need t' hr hc
    have hj := (checkAccess_ok (s' := ((step s t (.delete req sec)).1.checkAccess t' r sec need).1)
      (by rw [← hc]) hr).2.of_cleanup
    obtain ⟨l, e, ⟨k, grp, _, _, he, _, hdst, _, _⟩, _, _⟩ := hj
    simp only [step] at he hok
    obtain ⟨s', hg⟩ := delete_graph hok
    rw [hg] at he
    simp only [List.mem_filter, decide_eq_true_eq] at he
    exact he.2 hdst
  · intro pol a b c h t
    have hlive := ((run_inv h _ (init_inv pol a b c)).1.cleanup t).2
    refine ⟨hlive, fun r sec need hr hdead => ⟨?_, ?_⟩⟩
    · intro hc
      have hj := (checkAccess_ok (s' := ((run (init pol a b c) h).checkAccess t r sec need).1)
        (by rw [← hc]) hr).2
      exact hdead (hj.weaken (fun e he _ => hlive e he)).of_cleanup
    · intro p hp
      obtain ⟨l', e, hw, hl', _⟩ := perm_some_justified (getPermission_some hp hr).2
      apply Nat.lt_of_not_le
      intro hle
      have hj : Justified ((run (init pol a b c) h).cleanup t) r sec need (LiveAt t) :=
        ⟨l', e, hw, Nat.le_trans hle hl', hlive e (by obtain ⟨_, _, _, _, he, _⟩ := hw; exact he)⟩
      exact hdead hj.of_cleanup

/-- non-vacuity + the direct consequence for a requester with no group: revoked ⇒ denied at once -/
example :
    let s := run (init) [(0, .set 0 1 7 3), (0, .grant 0 1 1 .admin), (0, .grant 0 1 1 .read)]
    (step s 1 (.get 1 1)).2 = .value 7 ∧
    (step (step s 1 (.revoke 0 1 1)).1 1 (.get 1 1)).2 = .err .denied ∧
    (step (step s 1 (.delete 0 1)).1 1 (.get 1 1)).2 = .err .denied := by decide

/-! ## re-opening the vault, cascading revocation -/

/-- FULL: dropping the `Vault` object and building a new one over the same store and graph (`Vault::new`: the TTL
    tracker and the delegation records are re-read from their persisted copies, then `cleanup_expired_grants` runs)
    neither resurrects nor immortalises a grant — for every configuration and history (which may itself contain
    earlier re-openings) and every time `t`: the re-opened vault's graph is a sub-graph of the old one, every edge in
    it is unexpired at `t`, and every edge issued with an expiry is again tracked (in memory AND in the persisted
    copy) with that same expiry — so `access_requires_live_grant` keeps applying to every later call. -/
theorem reopen_keeps_every_expiry (pol : Policy) (a b c : Nat) (h : List (Nat × Op)) (t : Nat) :
    (∀ e ∈ (step (run (init pol a b c) h) t .reopen).1.graph, e ∈ (run (init pol a b c) h).graph ∧ LiveAt t e) ∧
    (∀ e ∈ (step (run (init pol a b c) h) t .reopen).1.graph, ∀ x, e.expiry = some x →
      ∃ ent sec, e.src = entNode ent ∧ e.dst = secNode sec ∧
        TtlEntry.mk ent sec x ∈ (step (run (init pol a b c) h) t .reopen).1.ttl ∧
        TtlEntry.mk ent sec x ∈ (step (run (init pol a b c) h) t .reopen).1.pttl) := by
  have hi := run_inv h _ (init_inv pol a b c)
  obtain ⟨hti, hsp, hlive⟩ := reopen_inv hi.1 hi.2 t
  refine ⟨hlive, fun e he x hx => ?_⟩
  obtain ⟨ent, sec, h1, h2, _, h4⟩ := hti e he x hx
  exact ⟨ent, sec, h1, h2, h4, hsp _ h4⟩

/-- non-vacuity: a 5-unit Read grant survives a re-opening at t=3 (read at t=4) and is gone at t=10 whether the vault
    was re-opened before or after the expiry; a delegation made before can still be revoked after -/
example :
    let s := run (init) [(0, .set 0 1 7 3), (0, .grantTtl 0 1 1 .read 5), (1, .delegate 0 2 [1] .read (some 5)), (3, .reopen)]
    (step s 4 (.get 1 1)).2 = .value 7 ∧ (step s 4 (.get 2 1)).2 = .value 7 ∧
    (step s 10 (.get 1 1)).2 = .err .denied ∧ (step s 10 (.get 2 1)).2 = .err .denied ∧
    (step (step s 10 .reopen).1 10 (.get 1 1)).2 = .err .denied ∧
    (step s 4 (.undelegate 0 2)).2 = .names [1] ∧ (step (step s 4 (.undelegate 0 2)).1 4 (.get 2 1)).2 = .err .denied := by
  decide

/-- why the persisted copy matters (negative control for the invariant `SubP`): in a state whose tracker entry never
    reached `_vault_ttl_grants`, re-opening forgets the expiry and the grant issued for 5 time units still reads at
    t=10 — the state is NOT reachable by the modelled code, which persists right after every `ttl_tracker.add` -/
theorem reopen_needs_persisted_tracker_witness :
    ∃ s : State, TI s.graph s.ttl ∧ ¬ SubP s ∧ (step (step s 10 .reopen).1 10 (.get 1 1)).2 = .value 7 ∧
      (step s 10 (.get 1 1)).2 = .err .denied := by
  refine ⟨{ (run (init) [(0, .set 0 1 7 3), (0, .grantTtl 0 1 1 .read 5)]) with pttl := [] }, ?_, ?_, by decide, by decide⟩
  · intro e he x hx
    have hg : ({ (run (init) [(0, .set 0 1 7 3), (0, .grantTtl 0 1 1 .read 5)]) with pttl := [] } : State).graph =
        [accessEdge 1 0 1 .admin none, accessEdge 2 1 1 .read (some 5)] := by decide
    rw [hg] at he
    simp only [List.mem_cons, List.mem_nil_iff, or_false] at he
    rcases he with rfl | rfl
    · cases hx
    · cases hx; exact ⟨1, 1, rfl, rfl, rfl, by decide⟩
  · intro hsub
    have h1 : TtlEntry.mk 1 1 5 ∈ ({ (run (init) [(0, .set 0 1 7 3), (0, .grantTtl 0 1 1 .read 5)]) with pttl := [] } : State).pttl :=
      hsub (TtlEntry.mk 1 1 5) (by decide)
    cases h1

/-- FULL, every state: after a successful `revoke_delegation(parent, child)` the child holds no VAULT_ACCESS edge on
    any of the secrets the call reports as revoked (whoever granted it), and the record is gone -/
theorem revoke_delegation_immediate (s : State) (parent child : Nat) (names : List Nat)
    (h : (s.undelegate parent child).2 = .names names) :
    (∀ sec ∈ names, ∀ e ∈ (s.undelegate parent child).1.graph,
        ¬ (e.src = entNode child ∧ e.dst = secNode sec ∧ e.kind.isAccess = true)) ∧
    ∀ d ∈ (s.undelegate parent child).1.delegs, ¬ (d.parent = parent ∧ d.child = child) := by
  unfold State.undelegate at h ⊢
  split at h
  · cases h
  · rename_i d hfind
    simp only [Resp.names.injEq] at h
    subst h
    simp only [foldl_audit_graph, persistTtl_graph, persistDelegs_graph]
    refine ⟨fun sec hsec e he => ((mem_foldl_drop_graph child _ _).mp he).2 sec hsec, ?_⟩
    have hdel : ∀ (l : List Nat) (x : State), (l.foldl (fun st sec => st.audit parent sec "revoke" [.ident child]) x).delegs = x.delegs := by
      intro l; induction l with
      | nil => intro x; rfl
      | cons a l ih => intro x; rw [List.foldl_cons, ih]; rfl
    have hdel2 : ∀ (x : State), x.persistDelegs.persistTtl.delegs = x.delegs := by
      intro x; unfold State.persistTtl; split <;> rfl
    have hdel3 : ∀ (l : List Nat) (x : State), (l.foldl (fun (st : State) sec =>
        { st with graph := dropAccess st.graph child sec, ttl := ttlRemove st.ttl child sec }) x).delegs = x.delegs := by
      intro l; induction l with
      | nil => intro x; rfl
      | cons a l ih => intro x; rw [List.foldl_cons, ih]
    rw [hdel, hdel2, hdel3]
    intro d' hd' hm
    have := (List.mem_filter.mp hd').2
    simp [hm.1, hm.2] at this

example :
    let s := run (init) [(0, .set 0 1 7 3), (0, .grant 0 1 1 .read), (0, .delegate 1 2 [1] .read none)]
    (step s 1 (.get 2 1)).2 = .value 7 ∧ (step s 1 (.undelegate 1 2)).2 = .names [1] ∧
    (step (step s 1 (.undelegate 1 2)).1 1 (.get 2 1)).2 = .err .denied := by decide

/-- FULL, every state: `revoke_delegation_cascading(parent, child)` answers with records that existed, removes every
    VAULT_ACCESS edge those records' children held on the delegated secrets, includes the direct record when there
    is one, and leaves no record hanging below: no surviving record is the direct one, has `child` as its parent, or
    has the child of any revoked record as its parent.  Nothing is assumed about the shape of the record set (the
    surviving set is CLOSED under "delegated onward"); the reachability form of the same fact, for arbitrary record
    graphs, is `cascading_revocation_reaches_every_record_below` below. -/
theorem cascading_revocation_complete (s : State) (parent child : Nat) (pairs : List (Nat × Nat))
    (h : (s.undelegateCascade parent child).2 = .pairs pairs) :
    (∀ pc ∈ pairs, ∃ d ∈ s.delegs, (d.parent, d.child) = pc ∧
        ∀ sec ∈ d.secrets, ∀ e ∈ (s.undelegateCascade parent child).1.graph,
          ¬ (e.src = entNode d.child ∧ e.dst = secNode sec ∧ e.kind.isAccess = true)) ∧
    (∀ d ∈ s.delegs, d.parent = parent → d.child = child → (parent, child) ∈ pairs) ∧
    (∀ d ∈ (s.undelegateCascade parent child).1.delegs,
        d ∈ s.delegs ∧ ¬ (d.parent = parent ∧ d.child = child) ∧ d.parent ≠ child ∧
        ∀ pc ∈ pairs, d.parent ≠ pc.2) := by
  have hlen : [child].length + (s.delegs.filter (fun d => !(d.parent = parent && d.child = child))).length ≤
      s.delegs.length + 1 := by
    have := List.length_filter_le (fun d : DelegRec => !(d.parent = parent && d.child = child)) s.delegs
    simp only [List.length_cons, List.length_nil]; omega
  obtain ⟨new, hacc, hnew, hsurv⟩ := cascadeLoop_spec _ _ _
    (s.delegs.filter (fun d => d.parent = parent && d.child = child)) hlen
  unfold State.undelegateCascade at h ⊢
  simp only [Resp.pairs.injEq] at h
  simp only [persistTtl_graph, persistDelegs_graph]
  have hdel : ∀ (x : State), x.persistDelegs.persistTtl.delegs = x.delegs := by
    intro x; unfold State.persistTtl; split <;> rfl
  rw [hdel, foldl_dropRecord_delegs]
  have hfirst : ∀ d ∈ s.delegs.filter (fun d => d.parent = parent && d.child = child),
      d ∈ s.delegs ∧ d.parent = parent ∧ d.child = child := by
    intro d hd
    have := List.mem_filter.mp hd
    exact ⟨this.1, by simpa using this.2⟩
  have hds0 : ∀ d ∈ s.delegs.filter (fun d => !(d.parent = parent && d.child = child)),
      d ∈ s.delegs ∧ ¬ (d.parent = parent ∧ d.child = child) := by
    intro d hd
    have := List.mem_filter.mp hd
    refine ⟨this.1, fun ⟨h1, h2⟩ => ?_⟩
    have h3 := this.2
    simp [h1, h2] at h3
  subst h
  refine ⟨?_, ?_, ?_⟩
  · intro pc hpc
    obtain ⟨d, hd, rfl⟩ := List.mem_map.mp hpc
    have hdm : d ∈ s.delegs := by
      rw [hacc] at hd
      rcases List.mem_append.mp hd with hd | hd
      · exact (hfirst d hd).1
      · exact (hds0 d (hnew d hd)).1
    refine ⟨d, hdm, rfl, fun sec hsec e he => ?_⟩
    exact ((mem_foldl_dropRecord_graph _ _).mp he).2 d hd sec hsec
  · intro d hd hp hc
    refine List.mem_map.mpr ⟨d, ?_, by rw [hp, hc]⟩
    rw [hacc]
    exact List.mem_append_left _ (List.mem_filter.mpr ⟨hd, by simp [hp, hc]⟩)
  · intro d hd
    obtain ⟨hm, hq, hn⟩ := hsurv d hd
    obtain ⟨hm1, hm2⟩ := hds0 d hm
    refine ⟨hm1, hm2, fun hc => hq (by rw [hc]; exact List.mem_singleton.mpr rfl), fun pc hpc => ?_⟩
    obtain ⟨d', hd', rfl⟩ := List.mem_map.mp hpc
    rw [hacc] at hd'
    rcases List.mem_append.mp hd' with hd' | hd'
    · simp only
      rw [(hfirst d' hd').2.2]
      exact fun hc => hq (by rw [hc]; exact List.mem_singleton.mpr rfl)
    · exact hn d' hd'

/-- non-vacuity: root → 1 → 2 → 3; cutting 1 → 2 takes 2 and 3 down and leaves 1; a cascade from a pair with no direct
    record still clears what hangs below the child -/
example :
    let s := run (init) [(0, .set 0 1 7 3), (0, .delegate 0 1 [1] .admin none), (0, .delegate 1 2 [1] .write none),
                         (0, .delegate 2 3 [1] .read none)]
    (step s 1 (.get 3 1)).2 = .value 7 ∧
    (step s 1 (.undelegateCascade 1 2)).2 = .pairs [(1, 2), (2, 3)] ∧
    (step (step s 1 (.undelegateCascade 1 2)).1 1 (.get 3 1)).2 = .err .denied ∧
    (step (step s 1 (.undelegateCascade 1 2)).1 1 (.get 2 1)).2 = .err .denied ∧
    (step (step s 1 (.undelegateCascade 1 2)).1 1 (.get 1 1)).2 = .value 7 ∧
    (step s 1 (.undelegateCascade 3 1)).2 = .pairs [(1, 2), (2, 3)] := by decide

/-- the records BELOW the record `parent → child` in an arbitrary set of delegation records — no shape is assumed:
    chains, trees, diamonds, an agent that holds delegations from several parents (in one branch or not, at one depth
    or several), even cycles.  It is the record graph that is walked, not the agent graph: a record `x → y` is
    followed by every record `y → z`. -/
inductive Below (ds : List DelegRec) (parent child : Nat) : DelegRec → Prop
  | direct {d : DelegRec} : d ∈ ds → d.parent = parent → d.child = child → Below ds parent child d
  | onward {d d' : DelegRec} : Below ds parent child d → d' ∈ ds → d'.parent = d.child → Below ds parent child d'

/-- FULL, every state, every SET of delegation records (not only trees): after `revoke_delegation_cascading(parent,
    child)` EVERY record below `parent → child` in the record graph is gone — from the manager and from the
    persisted `_vdel:` copy that a re-opened vault loads —, is among the records the call reports, and the agent it
    delegated to holds no VAULT_ACCESS edge any more on any of the secrets it delegated.  In particular a second
    record into an agent that was already reached through another record is revoked like the first. -/
theorem cascading_revocation_reaches_every_record_below (s : State) (parent child : Nat) (d : DelegRec)
    (hb : Below s.delegs parent child d) :
    d ∉ (s.undelegateCascade parent child).1.delegs ∧
    d ∉ (s.undelegateCascade parent child).1.pdelegs ∧
    (∃ pairs, (s.undelegateCascade parent child).2 = .pairs pairs ∧ (d.parent, d.child) ∈ pairs) ∧
    ∀ sec ∈ d.secrets, ∀ e ∈ (s.undelegateCascade parent child).1.graph,
      ¬ (e.src = entNode d.child ∧ e.dst = secNode sec ∧ e.kind.isAccess = true) := by
  have hlen : [child].length + (s.delegs.filter (fun d => !(d.parent = parent && d.child = child))).length ≤
      s.delegs.length + 1 := by
    have := List.length_filter_le (fun d : DelegRec => !(d.parent = parent && d.child = child)) s.delegs
    simp only [List.length_cons, List.length_nil]; omega
  obtain ⟨new, hacc, _, hsurv⟩ := cascadeLoop_spec _ _ _
    (s.delegs.filter (fun d => d.parent = parent && d.child = child)) hlen
  have hpart := cascadeLoop_partition (s.delegs.length + 1) [child]
    (s.delegs.filter (fun d => !(d.parent = parent && d.child = child)))
    (s.delegs.filter (fun d => d.parent = parent && d.child = child))
  have hcases := cascadeLoop_snd_cases (s.delegs.length + 1) [child]
    (s.delegs.filter (fun d => !(d.parent = parent && d.child = child)))
    (s.delegs.filter (fun d => d.parent = parent && d.child = child))
  have hsub := cascadeLoop_fst_sub (s.delegs.length + 1) [child]
    (s.delegs.filter (fun d => !(d.parent = parent && d.child = child)))
    (s.delegs.filter (fun d => d.parent = parent && d.child = child))
  -- every record below the revoked one is among the revoked records
  have hR : d ∈ (cascadeLoop (s.delegs.length + 1) [child]
      (s.delegs.filter (fun d => !(d.parent = parent && d.child = child)))
      (s.delegs.filter (fun d => d.parent = parent && d.child = child))).2 := by
    induction hb with
    | direct hd hp hc => exact hpart.1 _ (List.mem_filter.mpr ⟨hd, by simp [hp, hc]⟩)
    | @onward d0 d' _ hd' hpar ih =>
      by_cases hm : d'.parent = parent ∧ d'.child = child
      · exact hpart.1 _ (List.mem_filter.mpr ⟨hd', by simp [hm.1, hm.2]⟩)
      · have hin : d' ∈ s.delegs.filter (fun d => !(d.parent = parent && d.child = child)) := by
          refine List.mem_filter.mpr ⟨hd', ?_⟩
          simp only [Bool.not_eq_true', Bool.and_eq_false_iff, decide_eq_false_iff_not]
          by_cases h1 : d'.parent = parent
          · exact Or.inr (fun h2 => hm ⟨h1, h2⟩)
          · exact Or.inl h1
        rcases hpart.2 _ hin with hk | hr
        · exfalso
          obtain ⟨_, hq, hn⟩ := hsurv _ hk
          rw [hacc] at ih
          rcases List.mem_append.mp ih with h1 | h1
          · have h2 := (List.mem_filter.mp h1).2
            simp only [Bool.and_eq_true, decide_eq_true_eq] at h2
            exact hq (by rw [hpar, h2.2]; exact List.mem_singleton.mpr rfl)
          · exact hn d0 h1 hpar
        · exact hr
  have hnot : d ∉ (cascadeLoop (s.delegs.length + 1) [child]
      (s.delegs.filter (fun d => !(d.parent = parent && d.child = child)))
      (s.delegs.filter (fun d => d.parent = parent && d.child = child))).1 := by
    rcases hcases d hR with h | h
    · intro hin
      have h1 := (List.mem_filter.mp h).2
      have h2 := (List.mem_filter.mp (hsub d hin)).2
      simp only [Bool.and_eq_true, decide_eq_true_eq] at h1
      simp [h1.1, h1.2] at h2
    · exact h.2
  have hdel : ∀ (x : State), x.persistDelegs.persistTtl.delegs = x.delegs := by
    intro x; unfold State.persistTtl; split <;> rfl
  have hpdel : ∀ (x : State), x.persistDelegs.persistTtl.pdelegs = x.delegs := by
    intro x; unfold State.persistTtl; split <;> rfl
  unfold State.undelegateCascade
  simp only [persistTtl_graph, persistDelegs_graph]
  rw [hdel, hpdel, foldl_dropRecord_delegs]
  refine ⟨hnot, hnot, ⟨_, rfl, List.mem_map.mpr ⟨d, hR, rfl⟩⟩, fun sec hsec e he => ?_⟩
  exact ((mem_foldl_dropRecord_graph _ _).mp he).2 d hR sec hsec

/-- FULL, every state, every set of records — the converse: the cascade removes NOTHING ELSE.  A record that is gone
    afterwards was the record `parent → child` itself or is reachable from the agent `child` in the record graph
    (`FromAgents`; when the record `parent → child` exists this is `Below`); every other delegation record is kept. -/
theorem cascading_revocation_removes_only_records_below (s : State) (parent child : Nat) (d : DelegRec)
    (hd : d ∈ s.delegs) (hgone : d ∉ (s.undelegateCascade parent child).1.delegs) :
    (d.parent = parent ∧ d.child = child) ∨ FromAgents s.delegs [child] d := by
  have hdel : ∀ (x : State), x.persistDelegs.persistTtl.delegs = x.delegs := by
    intro x; unfold State.persistTtl; split <;> rfl
  unfold State.undelegateCascade at hgone
  simp only at hgone
  rw [hdel, foldl_dropRecord_delegs] at hgone
  by_cases hm : d.parent = parent ∧ d.child = child
  · exact Or.inl hm
  · refine Or.inr ?_
    have hin : d ∈ s.delegs.filter (fun d => !(d.parent = parent && d.child = child)) := by
      refine List.mem_filter.mpr ⟨hd, ?_⟩
      simp only [Bool.not_eq_true', Bool.and_eq_false_iff, decide_eq_false_iff_not]
      by_cases h1 : d.parent = parent
      · exact Or.inr (fun h2 => hm ⟨h1, h2⟩)
      · exact Or.inl h1
    rcases (cascadeLoop_partition (s.delegs.length + 1) [child] _
        (s.delegs.filter (fun d => d.parent = parent && d.child = child))).2 d hin with hk | hr
    · exact absurd hk hgone
    · rcases cascadeLoop_only_below _ _ _ _ d hr with h | h
      · have h1 := (List.mem_filter.mp h).2
        simp only [Bool.and_eq_true, decide_eq_true_eq] at h1
        exact absurd h1 hm
      · exact h.mono (fun x hx => (List.mem_filter.mp hx).1)

/-- non-vacuity: D=4 holds a delegation from B=2 (s1, below A → B) and one from C=3 (s2, NOT below it): the cascade of
    A → B takes the first and keeps the second, D loses s1 and still reads s2 -/
example :
    let s := run (init) [(0, .set 0 1 7 3), (0, .set 0 2 8 3), (0, .grant 0 1 1 .admin), (0, .grant 0 3 2 .admin),
                         (0, .delegate 1 2 [1] .write none), (0, .delegate 2 4 [1] .read none),
                         (0, .delegate 3 4 [2] .read none)]
    (step s 1 (.undelegateCascade 1 2)).2 = .pairs [(1, 2), (2, 4)] ∧
    (step s 1 (.undelegateCascade 1 2)).1.delegs = [⟨3, 4, [2], 1⟩] ∧
    (step (step s 1 (.undelegateCascade 1 2)).1 1 (.get 4 2)).2 = .value 8 ∧
    (step (step s 1 (.undelegateCascade 1 2)).1 1 (.get 4 1)).2 = .err .denied := by decide

/-- non-vacuity on a DIAMOND that is not a tree — root grants A=1 Admin on s1, s2; A → B=2 (s1, s2), B → C=3 (s1, s2),
    B → D=4 (s1), C → D (s2): D is reached through two records below A → B.  Both are below it, the cascade reports all
    four records, nobody below reads anything afterwards, A is untouched; cutting the inner record B → C instead
    takes C → D with it and leaves B → D. -/
example :
    let s := run (init) [(0, .set 0 1 7 3), (0, .set 0 2 8 3), (0, .grant 0 1 1 .admin), (0, .grant 0 1 2 .admin),
                         (0, .delegate 1 2 [1, 2] .write none), (0, .delegate 2 3 [1, 2] .read none),
                         (0, .delegate 2 4 [1] .read none), (0, .delegate 3 4 [2] .read none)]
    Below s.delegs 1 2 ⟨2, 4, [1], 2⟩ ∧ Below s.delegs 1 2 ⟨3, 4, [2], 3⟩ ∧
    (step s 1 (.get 4 1)).2 = .value 7 ∧ (step s 1 (.get 4 2)).2 = .value 8 ∧
    (step s 1 (.undelegateCascade 1 2)).2 = .pairs [(1, 2), (2, 3), (2, 4), (3, 4)] ∧
    (step s 1 (.undelegateCascade 1 2)).1.delegs = [] ∧
    (step (step s 1 (.undelegateCascade 1 2)).1 1 (.get 4 2)).2 = .err .denied ∧
    (step (step s 1 (.undelegateCascade 1 2)).1 1 (.get 4 1)).2 = .err .denied ∧
    (step (step s 1 (.undelegateCascade 1 2)).1 1 (.get 3 2)).2 = .err .denied ∧
    (step (step s 1 (.undelegateCascade 1 2)).1 1 (.get 2 1)).2 = .err .denied ∧
    (step (step s 1 (.undelegateCascade 1 2)).1 1 (.get 1 2)).2 = .value 8 ∧
    (step s 1 (.undelegateCascade 2 3)).2 = .pairs [(2, 3), (3, 4)] ∧
    (step (step s 1 (.undelegateCascade 2 3)).1 1 (.get 4 2)).2 = .err .denied ∧
    (step (step s 1 (.undelegateCascade 2 3)).1 1 (.get 4 1)).2 = .value 7 := by
  have hds : (run (init) [(0, .set 0 1 7 3), (0, .set 0 2 8 3), (0, .grant 0 1 1 .admin), (0, .grant 0 1 2 .admin),
                         (0, .delegate 1 2 [1, 2] .write none), (0, .delegate 2 3 [1, 2] .read none),
                         (0, .delegate 2 4 [1] .read none), (0, .delegate 3 4 [2] .read none)]).delegs =
      [⟨1, 2, [1, 2], 1⟩, ⟨2, 3, [1, 2], 2⟩, ⟨2, 4, [1], 2⟩, ⟨3, 4, [2], 3⟩] := by decide
  have hAB : Below [⟨1, 2, [1, 2], 1⟩, ⟨2, 3, [1, 2], 2⟩, ⟨2, 4, [1], 2⟩, ⟨3, 4, [2], 3⟩] 1 2 (⟨1, 2, [1, 2], 1⟩ : DelegRec) :=
    .direct (by decide) rfl rfl
  have hBC : Below [⟨1, 2, [1, 2], 1⟩, ⟨2, 3, [1, 2], 2⟩, ⟨2, 4, [1], 2⟩, ⟨3, 4, [2], 3⟩] 1 2 (⟨2, 3, [1, 2], 2⟩ : DelegRec) :=
    .onward hAB (by decide) rfl
  refine ⟨?_, ?_, by decide, by decide, by decide, by decide, by decide, by decide, by decide, by decide, by decide,
    by decide, by decide, by decide⟩
  · show Below (run _ _).delegs 1 2 _
    rw [hds]; exact .onward hAB (by decide) rfl
  · show Below (run _ _).delegs 1 2 _
    rw [hds]; exact .onward hBC (by decide) rfl

/-- NEGATIVE CONTROL: the variant of the walk that keeps a set of visited AGENTS and skips a record into an agent it
    has already reached (`cascadeVisitedAgents`, not the code) is NOT complete on the same diamond: after the
    "cascading revocation" of A → B the record C → D, which lies below A → B, is still in the manager and in the
    persisted copy, it is not reported, D keeps its VAULT_ACCESS edge on s2 and still reads s2 — whereas the walk over
    RECORDS that the code performs (`cascadeLoop`) leaves nothing.  On chains and trees the two walks agree. -/
theorem cascade_visited_agents_leaves_delegation_witness :
    ∃ (s : State) (d : DelegRec), Below s.delegs 1 2 d ∧
      d ∈ (s.undelegateCascadeVisitedAgents 1 2).1.delegs ∧
      d ∈ (s.undelegateCascadeVisitedAgents 1 2).1.pdelegs ∧
      (s.undelegateCascadeVisitedAgents 1 2).2 = .pairs [(1, 2), (2, 3), (2, 4)] ∧
      ((s.undelegateCascadeVisitedAgents 1 2).1.get 1 4 2).2 = .value 8 ∧
      d ∉ (s.undelegateCascade 1 2).1.delegs ∧
      ((s.undelegateCascade 1 2).1.get 1 4 2).2 = .err .denied ∧
      -- a chain and a tree: the same answer from both walks
      (∀ t ∈ [run (init) [(0, .set 0 1 7 3), (0, .delegate 0 1 [1] .admin none), (0, .delegate 1 2 [1] .write none),
                          (0, .delegate 2 3 [1] .read none)],
              run (init) [(0, .set 0 1 7 3), (0, .delegate 0 1 [1] .admin none), (0, .delegate 1 2 [1] .write none),
                          (0, .delegate 1 3 [1] .write none), (0, .delegate 2 4 [1] .read none)]],
        (t.undelegateCascadeVisitedAgents 0 1).2 = (t.undelegateCascade 0 1).2 ∧
        (t.undelegateCascadeVisitedAgents 0 1).1.delegs = (t.undelegateCascade 0 1).1.delegs) := by
  have hds : (run (init) [(0, .set 0 1 7 3), (0, .set 0 2 8 3), (0, .grant 0 1 1 .admin), (0, .grant 0 1 2 .admin),
                         (0, .delegate 1 2 [1, 2] .write none), (0, .delegate 2 3 [1, 2] .read none),
                         (0, .delegate 2 4 [1] .read none), (0, .delegate 3 4 [2] .read none)]).delegs =
      [⟨1, 2, [1, 2], 1⟩, ⟨2, 3, [1, 2], 2⟩, ⟨2, 4, [1], 2⟩, ⟨3, 4, [2], 3⟩] := by decide
  refine ⟨run (init) [(0, .set 0 1 7 3), (0, .set 0 2 8 3), (0, .grant 0 1 1 .admin), (0, .grant 0 1 2 .admin),
                         (0, .delegate 1 2 [1, 2] .write none), (0, .delegate 2 3 [1, 2] .read none),
                         (0, .delegate 2 4 [1] .read none), (0, .delegate 3 4 [2] .read none)],
    ⟨3, 4, [2], 3⟩, ?_, by decide, by decide, by decide, by decide, by decide, by decide, by decide⟩
  rw [hds]
  exact .onward (.onward (.direct (d := ⟨1, 2, [1, 2], 1⟩) (by decide) rfl rfl) (d' := ⟨2, 3, [1, 2], 2⟩) (by decide) rfl)
    (by decide) rfl

/-! ## at rest -/

/-- secret VALUES: for every configuration and every history, no record of the store (this includes the audit
    records, the persisted TTL tracker and the delegation records) exposes a secret value, neither in its key nor
    in any field.  "Type-level": values enter the store only through `blobRec`'s `Field.cipher`; the statement is
    relative to the hypothesis, built into `Field.reveals`, that AES-GCM ciphertext reveals nothing. -/
theorem at_rest_no_plain_value (pol : Policy) (a b c : Nat) (h : List (Nat × Op)) (v : Nat) :
    ∀ r ∈ (run (init pol a b c) h).store,
      r.key.reveals (.value v) = false ∧ ∀ f ∈ r.fields, f.2.reveals (.value v) = false := by
  intro r hr
  have hsv := run_sv valueCls_adm h (init pol a b c) (fun _ hx => nomatch hx)
  refine ⟨key_reveals_no_value _ _, fun f hf => ?_⟩
  rcases hsv r hr with hex | hok
  · exact hex.elim
  · exact hok f hf _ ⟨v, rfl⟩

/-- non-vacuity: the value IS in the store — as ciphertext only -/
example : (run (init) [(0, .set 0 1 7 3), (0, .rotate 0 1 9 3)]).store.any
    (fun r => r.fields.any (fun f => f.2 = .cipher (.value 9))) = true := by decide

/-- … and so is a wrapped copy (`_vwrap:` record), until it is unwrapped -/
example :
    let s := run (init) [(0, .set 0 1 7 3), (0, .wrap 0 1)]
    s.store.any (fun r => r.key = .wrap 0 ∧ r.fields.any (fun f => f.2 = .cipher (.value 7))) = true ∧
    (step s 1 (.unwrap 0)).2 = .value 7 ∧ (step s 1 (.unwrap 0)).1.store.any (fun r => r.key = .wrap 0) = false ∧
    (step (step s 1 (.unwrap 0)).1 1 (.unwrap 0)).2 = .err .notFound := by decide

/-- FULL shape property for secret NAMES: no store record (key or field) ever exposes one -/
def AtRestNoPlainName : Prop :=
  ∀ (pol : Policy) (a b c : Nat) (h : List (Nat × Op)) (n : Nat), ∀ r ∈ (run (init pol a b c) h).store,
    r.key.reveals (.name n) = false ∧ ∀ f ∈ r.fields, f.2.reveals (.name n) = false

/-- PARTIAL (missing: the two persistence records `_vault_ttl_grants` and `_vdel:…`, see the witnesses below): for
    every configuration and history, no store KEY exposes a secret name, and no field of any OTHER record does —
    the `vault_secret:` node record (clean since 31ebe3e9), the `_vk:` metadata record (name AES-encrypted), the
    `_vs:` blobs and every audit record (name obfuscated by keyed hash). -/
theorem at_rest_no_plain_name_partial (pol : Policy) (a b c : Nat) (h : List (Nat × Op)) (n : Nat) :
    ∀ r ∈ (run (init pol a b c) h).store,
      r.key.reveals (.name n) = false ∧
      (r.key ≠ .ttlGrants → (∀ p ch, r.key ≠ .deleg p ch) → ∀ f ∈ r.fields, f.2.reveals (.name n) = false) := by
  intro r hr
  have hsv := run_sv nameCls_adm h (init pol a b c) (fun _ hx => nomatch hx)
  refine ⟨key_reveals_no_name _ _, fun h1 h2 f hf => ?_⟩
  rcases hsv r hr with hex | hok
  · rcases hex with hex | ⟨p, ch, hex⟩
    · exact absurd hex h1
    · exact absurd hex (h2 p ch)
  · exact hok f hf _ ⟨n, rfl⟩

/-- non-vacuity: the node, metadata and audit records are there (and the name is — as ciphertext only) -/
example :
    let st := (run (init) [(0, .set 0 1 7 3), (0, .grant 0 1 1 .read), (1, .get 1 1)]).store
    st.any (fun r => r.key = .node 1) = true ∧ st.any (fun r => r.key = .vk 1) = true ∧
    st.any (fun r => r.key = .audit 2) = true ∧
    st.any (fun r => r.fields.any (fun f => f.2 = .cipher (.name 1))) = true := by decide

/-- the full name property is FALSE of the code: the persisted TTL tracker lists (entity, secret NAME) in clear -/
theorem at_rest_no_plain_name_witness : ¬ AtRestNoPlainName := by
  intro h
  have := (h {} 3 65531 5 [(0, .set 0 1 7 3), (0, .grantTtl 0 1 1 .read 5)] 1 (ttlRec [⟨1, 1, 5⟩]) (by decide)).2
    ("_data", .clear [.ident 1, .name 1]) (by decide)
  revert this; decide

/-- both remaining sites: the persisted TTL tracker (`_vault_ttl_grants`) and the delegation records (`_vdel:`) -/
theorem at_rest_name_sites_witness :
    (∃ r ∈ (run (init) [(0, .set 0 1 7 3), (0, .grantTtl 0 1 1 .read 5)]).store, r.key = .ttlGrants ∧
        ∃ f ∈ r.fields, f.2.reveals (.name 1) = true) ∧
    (∃ r ∈ (run (init) [(0, .set 0 1 7 3), (0, .delegate 0 1 [1] .read none)]).store, r.key = .deleg 0 1 ∧
        ∃ f ∈ r.fields, f.2.reveals (.name 1) = true) := by
  refine ⟨⟨ttlRec [⟨1, 1, 5⟩], by decide, rfl, _, List.mem_singleton.mpr rfl, by decide⟩,
          ⟨delegRec ⟨0, 1, [1], 1⟩, by decide, rfl, _, List.mem_singleton.mpr rfl, by decide⟩⟩

/-- the code BEFORE 31ebe3e9 also wrote the name in clear into the `_secret_key` field of the secret node -/
theorem at_rest_name_node_old_witness :
    ∃ r ∈ ((init).setOld 0 1 7 3).1.store, r.key = .node 1 ∧ ∃ f ∈ r.fields, f.2.reveals (.name 1) = true :=
  ⟨nodeRecOld 1, by decide, rfl, ("_secret_key", .clear [.name 1]), by decide, by decide⟩

/-- … the repaired `set` does not -/
example : ∀ r ∈ (step (init) 0 (.set 0 1 7 3)).1.store, ∀ f ∈ r.fields, f.2.reveals (.name 1) = false := by decide

end Neumann.Vault.Props
