import NeumannModel.Vault.Bfs
/-
  C14 — helper definitions and lemmas for the property theorems in `Props.lean`.
-/
namespace Neumann.Vault

theorem entNode_ne_secNode (a b : Nat) : entNode a ≠ secNode b := by
  unfold entNode secNode; omega

theorem entNode_inj {a b : Nat} (h : entNode a = entNode b) : a = b := by
  unfold entNode at h; omega

theorem secNode_inj {a b : Nat} (h : secNode a = secNode b) : a = b := by
  unfold secNode at h; omega

/-- the grant that created edge `e` has not reached its requested expiry at time `t` -/
def LiveAt (t : Nat) (e : Edge) : Prop := ∀ x, e.expiry = some x → t < x

/-- `req` is entitled to level `need` on `sec` in state `s`: some VAULT_ACCESS edge satisfying `P`, still in
    the graph (= unrevoked), hangs off `req` or off a group reachable from `req` over fewer than `horizon`
    MEMBER hops, and its level after signature check, attenuation and capacity is at least `need`. -/
def Justified (s : State) (req sec : Nat) (need : Level) (P : Edge → Prop) : Prop :=
  ∃ l e, Witness s.pol s.graph (entNode req) (secNode sec) l e ∧ need.toNat ≤ l.toNat ∧ P e

theorem Justified.weaken {s : State} {req sec : Nat} {need : Level} {P Q : Edge → Prop}
    (h : Justified s req sec need P) (hpq : ∀ e, e ∈ s.graph → P e → Q e) : Justified s req sec need Q := by
  obtain ⟨l, e, hw, hl, hp⟩ := h
  obtain ⟨k, grp, hpath, hk, he, rest⟩ := hw
  exact ⟨l, e, ⟨k, grp, hpath, hk, he, rest⟩, hl, hpq e he hp⟩

theorem perm_some_justified {s : State} {req sec : Nat} {p : Level} (hp : s.perm req sec = some p) :
    Justified s req sec p (fun _ => True) := by
  obtain ⟨e, hw⟩ := permLevel_sound _ _ _ _ _ (entNode_ne_secNode req sec) hp
  exact ⟨p, e, hw, Nat.le_refl _, trivial⟩

theorem checkGraph_ok {s : State} {req sec : Nat} {need : Level}
    (h : s.checkGraph req sec need = .ok ()) : Justified s req sec need (fun _ => True) := by
  unfold State.checkGraph at h
  cases hp : s.perm req sec with
  | none => rw [hp] at h; simp only at h; split at h <;> cases h
  | some p =>
    rw [hp] at h; simp only at h
    by_cases ha : p.allows need = true
    · have : need.toNat ≤ p.toNat := by simpa [Level.allows] using ha
      obtain ⟨e', hw'⟩ := permLevel_sound _ _ _ _ _ (entNode_ne_secNode req sec) hp
      exact ⟨p, e', hw', this, trivial⟩
    · rw [if_neg ha] at h; split at h <;> cases h

/-- a non-root caller that passes `check_access_with_permission` passed it in the state `cleanup now` -/
theorem checkAccess_ok {s s' : State} {now req sec : Nat} {need : Level}
    (h : s.checkAccess now req sec need = (s', .ok ())) (hr : req ≠ root) :
    s' = s.cleanup now ∧ Justified (s.cleanup now) req sec need (fun _ => True) := by
  unfold State.checkAccess at h
  rw [if_neg hr] at h
  split at h
  · simp only [Prod.mk.injEq] at h; exact nomatch h.2
  · simp only [Prod.mk.injEq] at h
    exact ⟨h.1.symm, checkGraph_ok h.2⟩

/-- a requester that passes the check and is not root is not a secret-node key -/
theorem checkAccess_ok_not_key {s : State} {now req sec : Nat} {need : Level}
    (h : (s.checkAccess now req sec need).2 = .ok ()) (hr : req ≠ root) : isNodeKey req = false := by
  unfold State.checkAccess at h
  rw [if_neg hr] at h
  cases hk : isNodeKey req with
  | false => rfl
  | true => rw [hk] at h; exact nomatch h

/-- the state a check leaves behind: untouched for root and for a secret-node key, `cleanup now` for anybody else -/
theorem checkAccess_fst (s : State) (now req sec : Nat) (need : Level) :
    (s.checkAccess now req sec need).1 = if req = root then s else if isNodeKey req then s else s.cleanup now := by
  unfold State.checkAccess
  split
  · rfl
  · split <;> rfl

/-- … after a successful check by a non-root requester: `cleanup now` -/
theorem checkAccess_fst_ok {s : State} {now req sec : Nat} {need : Level}
    (h : (s.checkAccess now req sec need).2 = .ok ()) (hr : req ≠ root) :
    (s.checkAccess now req sec need).1 = s.cleanup now := by
  rw [checkAccess_fst, if_neg hr, checkAccess_ok_not_key h hr]; rfl

/-- what a secret-node key gets from the three authorisation entry points: nothing, and the state is untouched -/
theorem checkAccess_key (s : State) (now req sec : Nat) (need : Level) (hk : isNodeKey req = true) :
    s.checkAccess now req sec need = (s, .error .denied) := by
  have hr : req ≠ root := by
    intro h; rw [h] at hk; revert hk; decide
  unfold State.checkAccess
  rw [if_neg hr, if_pos hk]

theorem isNodeKey_ne_root {req : Nat} (hk : isNodeKey req = true) : req ≠ root := by
  intro h; rw [h] at hk; revert hk; decide

theorem getPermission_some {s : State} {now req sec : Nat} {p : Level}
    (h : s.getPermission now req sec = some p) (hr : req ≠ root) :
    isNodeKey req = false ∧ (s.cleanup now).perm req sec = some p := by
  unfold State.getPermission at h
  rw [if_neg hr] at h
  cases hk : isNodeKey req with
  | false => rw [hk] at h; exact ⟨rfl, h⟩
  | true => rw [hk] at h; exact nomatch h

theorem level_one_le (l : Level) : Level.read.toNat ≤ l.toNat := by
  cases l <;> simp [Level.toNat]

theorem hasAccess_justified {s : State} {now req sec : Nat} (h : s.hasAccess now req sec = true) (hr : req ≠ root) :
    Justified (s.cleanup now) req sec .read (fun _ => True) := by
  unfold State.hasAccess at h
  have h2 : ((s.cleanup now).perm req sec).isSome = true := by
    have : req = root ∨ (isNodeKey req = false ∧ ((s.cleanup now).perm req sec).isSome = true) := by
      simpa using h
    rcases this with h0 | h0
    · exact absurd h0 hr
    · exact h0.2
  cases hp : (s.cleanup now).perm req sec with
  | none => rw [hp] at h2; cases h2
  | some p =>
    obtain ⟨l, e, hw, _, _⟩ := perm_some_justified hp
    exact ⟨l, e, hw, level_one_le l, trivial⟩

/-- a MEMBER path of positive length starts with a MEMBER edge out of its source -/
theorem MPath.first_edge {g : Graph} {a b k : Nat} (h : MPath g a b k) (hk : 0 < k) :
    ∃ e ∈ g, e.kind = .member ∧ e.src = a := by
  induction h with
  | refl => omega
  | step e p he hkind hsrc ih =>
    rename_i b' k'
    cases k' with
    | zero =>
      cases p
      exact ⟨e, he, hkind, hsrc⟩
    | succ n => exact ih (by omega)

theorem MPath.zero_eq {g : Graph} {a b : Nat} (h : MPath g a b 0) : b = a := by
  cases h; rfl

/-! ### graph / store projections of the state helpers -/

@[simp] theorem audit_graph (s : State) (req sec : Nat) (op : String) (extra : List Plain) :
    (s.audit req sec op extra).graph = s.graph := rfl
@[simp] theorem audit_pol (s : State) (req sec : Nat) (op : String) (extra : List Plain) :
    (s.audit req sec op extra).pol = s.pol := rfl
@[simp] theorem audit_ttl (s : State) (req sec : Nat) (op : String) (extra : List Plain) :
    (s.audit req sec op extra).ttl = s.ttl := rfl

@[simp] theorem persistTtl_graph (s : State) : s.persistTtl.graph = s.graph := by
  unfold State.persistTtl; split <;> rfl
@[simp] theorem persistTtl_pol (s : State) : s.persistTtl.pol = s.pol := by
  unfold State.persistTtl; split <;> rfl
@[simp] theorem persistTtl_ttl (s : State) : s.persistTtl.ttl = s.ttl := by
  unfold State.persistTtl; split <;> rfl

@[simp] theorem persistDelegs_graph (s : State) : s.persistDelegs.graph = s.graph := rfl
@[simp] theorem persistDelegs_pol (s : State) : s.persistDelegs.pol = s.pol := rfl
@[simp] theorem persistDelegs_ttl (s : State) : s.persistDelegs.ttl = s.ttl := rfl

@[simp] theorem putSecret_graph (s : State) (m : SecretMeta) : (s.putSecret m).graph = s.graph := rfl
@[simp] theorem putSecret_pol (s : State) (m : SecretMeta) : (s.putSecret m).pol = s.pol := rfl
@[simp] theorem putSecret_ttl (s : State) (m : SecretMeta) : (s.putSecret m).ttl = s.ttl := rfl

theorem mem_dropAccess {g : Graph} {ent sec : Nat} {e : Edge} :
    e ∈ dropAccess g ent sec ↔ e ∈ g ∧ ¬ (e.src = entNode ent ∧ e.dst = secNode sec ∧ e.kind.isAccess = true) := by
  unfold dropAccess
  simp only [List.mem_filter, Bool.and_eq_true, decide_eq_true_eq, Bool.not_eq_eq_eq_not,
    Bool.not_true, Bool.and_eq_false_imp, and_imp]
  constructor
  · rintro ⟨h1, h2⟩
    refine ⟨h1, ?_⟩
    rintro ⟨a, b, c⟩
    have := h2 a b
    rw [c] at this; cases this
  · rintro ⟨h1, h2⟩
    refine ⟨h1, ?_⟩
    intro a b
    cases hc : e.kind.isAccess with
    | false => rfl
    | true => exact absurd ⟨a, b, hc⟩ h2

/-! ### `guarded`: the `check_access_with_permission(..)?` prefix shared by every guarded operation -/

theorem guarded_cases (s : State) (now req sec : Nat) (need : Level) (k : State → State × Resp) :
    (∃ e, s.guarded now req sec need k = ((s.checkAccess now req sec need).1, .err e)) ∨
    ((s.checkAccess now req sec need).2 = .ok () ∧
      s.guarded now req sec need k = k (s.checkAccess now req sec need).1) := by
  unfold State.guarded
  split
  · rename_i s' e heq; rw [heq]; exact Or.inl ⟨e, rfl⟩
  · rename_i s' u heq; rw [heq]; exact Or.inr ⟨rfl, rfl⟩

/-- an invariant kept by `cleanup` and by the guarded body is kept by the guarded operation -/
theorem guarded_inv (P : State → Prop) {s : State} {now req sec : Nat} {need : Level} {k : State → State × Resp}
    (hs : P s) (hc : P (s.cleanup now)) (hk : ∀ s', P s' → P (k s').1) : P (s.guarded now req sec need k).1 := by
  have hfst : P (s.checkAccess now req sec need).1 := by
    rw [checkAccess_fst]; split
    · exact hs
    · split
      · exact hs
      · exact hc
  rcases guarded_cases s now req sec need k with ⟨e, h⟩ | ⟨_, h⟩
  · rw [h]; exact hfst
  · rw [h]; exact hk _ hfst

/-- a successful guarded operation passed the check, and its body succeeded on the checked state -/
theorem guarded_ok {s : State} {now req sec : Nat} {need : Level} {k : State → State × Resp}
    (h : (s.guarded now req sec need k).2.isOk = true) :
    (s.checkAccess now req sec need).2 = .ok () ∧ s.guarded now req sec need k = k (s.checkAccess now req sec need).1 := by
  rcases guarded_cases s now req sec need k with ⟨e, h'⟩ | h'
  · rw [h'] at h; cases h
  · exact h'

theorem guarded_justified {s : State} {now req sec : Nat} {need : Level} {k : State → State × Resp}
    (h : (s.guarded now req sec need k).2.isOk = true) (hr : req ≠ root) :
    Justified (s.cleanup now) req sec need (fun _ => True) :=
  (checkAccess_ok (s' := (s.checkAccess now req sec need).1) (by rw [← (guarded_ok h).1]) hr).2

/-! ### a secret-node key as requester (refused by every entry point since ad58047e) -/

theorem guarded_key (s : State) (now req sec : Nat) (need : Level) (k : State → State × Resp)
    (hk : isNodeKey req = true) : s.guarded now req sec need k = (s, .err .denied) := by
  unfold State.guarded; rw [checkAccess_key s now req sec need hk]

theorem hasAccess_key (s : State) (now req sec : Nat) (hk : isNodeKey req = true) : s.hasAccess now req sec = false := by
  unfold State.hasAccess
  simp [hk, isNodeKey_ne_root hk]

theorem getPermission_key (s : State) (now req sec : Nat) (hk : isNodeKey req = true) :
    s.getPermission now req sec = none := by
  unfold State.getPermission; rw [if_neg (isNodeKey_ne_root hk), if_pos hk]

/-- `set` by a secret-node key: an error (size first, as for everybody), state untouched -/
theorem set_key (s : State) (now req sec val size : Nat) (hk : isNodeKey req = true) :
    ∃ e, s.set now req sec val size = (s, .err e) := by
  unfold State.set
  split
  · exact ⟨_, rfl⟩
  · split
    · exact ⟨_, guarded_key s now req sec .write _ hk⟩
    · rw [if_pos (isNodeKey_ne_root hk)]; exact ⟨_, rfl⟩

/-! ### outcome lemmas: a successful call passed exactly the level check the code performs -/

theorem set_ok {s : State} {now req sec val size : Nat} (h : (s.set now req sec val size).2.isOk = true)
    (hr : req ≠ root) : Justified (s.cleanup now) req sec .write (fun _ => True) := by
  unfold State.set at h
  split at h
  · cases h
  · split at h
    · exact guarded_justified h hr
    · first | cases h | (split at h <;> first | cases h | contradiction)

theorem get_ok {s : State} {now req sec : Nat} (h : (s.get now req sec).2.isOk = true) (hr : req ≠ root) :
    Justified ((s.cleanup now).cleanup now) req sec .read (fun _ => True) := by
  unfold State.get at h
  exact guarded_justified h hr

theorem rotate_ok {s : State} {now req sec val size : Nat} (h : (s.rotate now req sec val size).2.isOk = true)
    (hr : req ≠ root) : Justified (s.cleanup now) req sec .write (fun _ => True) := by
  unfold State.rotate at h
  exact guarded_justified h hr

theorem delete_ok {s : State} {now req sec : Nat} (h : (s.delete now req sec).2.isOk = true)
    (hr : req ≠ root) : Justified (s.cleanup now) req sec .admin (fun _ => True) := by
  unfold State.delete at h
  exact guarded_justified h hr

theorem grantCore_ok {s : State} {now req ent sec : Nat} {l : Level} {x : Option Nat}
    (h : (s.grantCore now req ent sec l x).2.isOk = true) (hr : req ≠ root) :
    Justified (s.cleanup now) req sec .admin (fun _ => True) := by
  unfold State.grantCore at h
  exact guarded_justified h hr

theorem grant_ok {s : State} {now req ent sec : Nat} {l : Level} (h : (s.grant now req ent sec l).2.isOk = true)
    (hr : req ≠ root) : Justified (s.cleanup now) req sec .admin (fun _ => True) :=
  grantCore_ok (by unfold State.grant at h; exact h) hr

theorem grantTtl_ok {s : State} {now req ent sec ttl : Nat} {l : Level}
    (h : (s.grantTtl now req ent sec l ttl).2.isOk = true) (hr : req ≠ root) :
    Justified (s.cleanup now) req sec .admin (fun _ => True) := by
  apply grantCore_ok (x := some (now + ttl)) (l := l) (ent := ent) _ hr
  unfold State.grantTtl at h
  split at h
  · cases h
  · rename_i s' r hne heq
    rw [heq]
    cases r with
    | err e => exact absurd rfl (hne e)
    | _ => rfl

theorem revoke_ok {s : State} {now req ent sec : Nat} (h : (s.revoke now req ent sec).2.isOk = true)
    (hr : req ≠ root) : Justified (s.cleanup now) req sec .admin (fun _ => True) := by
  unfold State.revoke at h
  exact guarded_justified h hr

/-- after a successful `revoke` no VAULT_ACCESS edge entity → secret is left -/
theorem revoke_graph {s : State} {now req ent sec : Nat} (h : (s.revoke now req ent sec).2.isOk = true) :
    ∃ s' : State, (s.revoke now req ent sec).1.graph = dropAccess s'.graph ent sec := by
  unfold State.revoke at h ⊢
  rw [(guarded_ok h).2]
  refine ⟨(s.checkAccess now req sec .admin).1, ?_⟩
  simp only [audit_graph]
  split <;> simp

/-- after a successful `delete` no edge at all points at the secret node -/
theorem delete_graph {s : State} {now req sec : Nat} (h : (s.delete now req sec).2.isOk = true) :
    ∃ s' : State, (s.delete now req sec).1.graph = s'.graph.filter (fun e => e.dst ≠ secNode sec) := by
  unfold State.delete at h ⊢
  have h2 := (guarded_ok h).2
  rw [h2] at h ⊢
  refine ⟨(s.checkAccess now req sec .admin).1, ?_⟩
  cases hf : (s.checkAccess now req sec .admin).1.findSecret sec with
  | none => rw [hf] at h; cases h
  | some m => simp

theorem delegCheck_ok {s : State} {now parent : Nat} {l : Level} :
    ∀ {secs : List Nat}, s.delegCheck now parent l secs = .ok () →
      ∀ sec ∈ secs, ∃ p, s.getPermission now parent sec = some p ∧ l.toNat ≤ p.toNat
  | [], _, _, hm => nomatch hm
  | sec :: rest, h, x, hm => by
    unfold State.delegCheck at h
    split at h
    · cases h
    · rename_i p hp
      by_cases ha : p.allows l = true
      · rw [if_pos ha] at h
        rcases List.mem_cons.mp hm with rfl | hm
        · exact ⟨p, hp, by simpa [Level.allows] using ha⟩
        · exact delegCheck_ok h x hm
      · rw [if_neg ha] at h; cases h

theorem delegate_ok {s : State} {now parent child : Nat} {secs : List Nat} {l : Level} {ttl : Option Nat}
    (h : (s.delegate now parent child secs l ttl).2.isOk = true) : s.delegCheck now parent l secs = .ok () := by
  unfold State.delegate at h
  simp only at h
  split at h
  · cases h
  · rename_i hc; exact hc

theorem delegate_eq_apply {s : State} {now parent child : Nat} {secs : List Nat} {l : Level} {ttl : Option Nat}
    (h : s.delegCheck now parent l secs = .ok ()) :
    s.delegate now parent child secs l ttl =
      (if parent = root || isNodeKey parent || secs.isEmpty then s else s.cleanup now).delegateApply now parent child secs
        (s.delegEff now parent l secs) ttl := by
  unfold State.delegate
  simp only [h]

theorem foldl_min_le (f : Nat → Level) : ∀ (secs : List Nat) (l : Level),
    (secs.foldl (fun acc sec => if (f sec).toNat < acc.toNat then f sec else acc) l).toNat ≤ l.toNat
  | [], _ => Nat.le_refl _
  | x :: xs, l => by
    rw [List.foldl_cons]
    refine Nat.le_trans (foldl_min_le f xs _) ?_
    split <;> omega

/-- the effective delegation level never exceeds the requested one -/
theorem delegEff_le (s : State) (now parent : Nat) (l : Level) (secs : List Nat) :
    (s.delegEff now parent l secs).toNat ≤ l.toNat :=
  foldl_min_le (fun sec => (s.getPermission now parent sec).getD .read) secs l

theorem delegateApply_resp {s : State} {now parent child : Nat} {secs : List Nat} {eff : Level} {ttl : Option Nat}
    (h : (s.delegateApply now parent child secs eff ttl).2.isOk = true) :
    (s.delegateApply now parent child secs eff ttl).2 = .level eff := by
  unfold State.delegateApply at h ⊢
  by_cases h1 : parent = child
  · rw [if_pos h1] at h; cases h
  · rw [if_neg h1] at h ⊢
    by_cases h2 : isAncestor s.delegs child (s.delegs.length + 1) parent [parent] = true
    · rw [if_pos h2] at h; cases h
    · rw [if_neg h2] at h ⊢
      simp only at h ⊢
      by_cases h3 : delegDepth s.delegs parent + 1 > s.maxDeleg
      · rw [if_pos h3] at h; cases h
      · rw [if_neg h3]

/-- a successful `delegate` answers with the effective level -/
theorem delegate_resp {s : State} {now parent child : Nat} {secs : List Nat} {l : Level} {ttl : Option Nat}
    (h : (s.delegate now parent child secs l ttl).2.isOk = true) :
    (s.delegate now parent child secs l ttl).2 = .level (s.delegEff now parent l secs) := by
  have hc := delegate_ok h
  rw [delegate_eq_apply hc] at h ⊢
  exact delegateApply_resp h

theorem list_names {s : State} {now req : Nat} {p : Pattern} {names : List Nat}
    (h : (s.list now req p).2 = .names names) :
    ∀ n ∈ names, (s.cleanup now).hasAccess now req n = true := by
  unfold State.list at h
  simp only at h
  cases h
  intro n hn
  simp only [List.mem_map, List.mem_filter, Bool.and_eq_true] at hn
  obtain ⟨m, ⟨_, _, hacc⟩, rfl⟩ := hn
  exact hacc

/-! ### only allow-listed edge types count -/

/-- the graph without the edges whose type is outside `ALLOWED_TRAVERSAL_EDGES` -/
def dropOther (g : Graph) : Graph := g.filter (fun e => e.kind ≠ .other)

theorem mem_dropOther {g : Graph} {e : Edge} : e ∈ dropOther g ↔ e ∈ g ∧ e.kind ≠ .other := by
  simp only [dropOther, List.mem_filter, decide_eq_true_eq]

theorem MPath.dropOther_iff {g : Graph} {a b k : Nat} : MPath (dropOther g) a b k ↔ MPath g a b k := by
  constructor
  · intro h
    induction h with
    | refl => exact .refl
    | step e _ he hk hs ih => exact .step e ih (mem_dropOther.mp he).1 hk hs
  · intro h
    induction h with
    | refl => exact .refl
    | step e _ he hk hs ih =>
      exact .step e ih (mem_dropOther.mpr ⟨he, by rw [hk]; exact fun h => EKind.noConfusion h⟩) hk hs

theorem Witness.dropOther_iff {pol : Policy} {g : Graph} {src tgt : Nat} {l : Level} {e : Edge} :
    Witness pol (dropOther g) src tgt l e ↔ Witness pol g src tgt l e := by
  constructor
  · rintro ⟨k, grp, hp, hk, he, h1, h2, h3, h4⟩
    exact ⟨k, grp, MPath.dropOther_iff.mp hp, hk, (mem_dropOther.mp he).1, h1, h2, h3, h4⟩
  · rintro ⟨k, grp, hp, hk, he, h1, h2, h3, h4⟩
    refine ⟨k, grp, MPath.dropOther_iff.mpr hp, hk, mem_dropOther.mpr ⟨he, fun ho => ?_⟩, h1, h2, h3, h4⟩
    rw [ho] at h3; cases h3

theorem Level.toNat_inj {a b : Level} (h : a.toNat = b.toNat) : a = b := by
  cases a <;> cases b <;> simp [Level.toNat] at h <;> rfl

/-- two graphs with the same witnesses give the same search result -/
theorem permLevel_congr {pol : Policy} {g g' : Graph} {src tgt : Nat}
    (h : ∀ l e, Witness pol g' src tgt l e ↔ Witness pol g src tgt l e) :
    permLevel pol g' src tgt = permLevel pol g src tgt := by
  by_cases hne : src = tgt
  · unfold permLevel; rw [if_pos hne, if_pos hne]
  · have key : ∀ {g1 g2 : Graph}, (∀ l e, Witness pol g1 src tgt l e → Witness pol g2 src tgt l e) →
        ∀ l1, permLevel pol g1 src tgt = some l1 → ∃ l2, permLevel pol g2 src tgt = some l2 ∧ l1.toNat ≤ l2.toNat := by
      intro g1 g2 h12 l1 h1
      obtain ⟨e, hw⟩ := permLevel_sound pol g1 src tgt l1 hne h1
      exact permLevel_complete pol g2 src tgt l1 e hne (h12 l1 e hw)
    cases h1 : permLevel pol g' src tgt with
    | none =>
      cases h2 : permLevel pol g src tgt with
      | none => rfl
      | some l2 =>
        obtain ⟨l, hl, _⟩ := key (fun l e hw => (h l e).mpr hw) l2 h2
        rw [h1] at hl; cases hl
    | some l1 =>
      obtain ⟨l2, h2, h12⟩ := key (fun l e hw => (h l e).mp hw) l1 h1
      obtain ⟨l1', h1', h21⟩ := key (fun l e hw => (h l e).mpr hw) l2 h2
      rw [h1] at h1'; cases h1'
      rw [h2, Level.toNat_inj (Nat.le_antisymm h12 h21)]

theorem reachStep_dropOther (g : Graph) (seen : List Nat) : reachStep (dropOther g) seen = reachStep g seen := by
  unfold reachStep dropOther
  suffices ∀ (acc : List Nat),
      (g.filter (fun e => e.kind ≠ .other)).foldl
        (fun acc e => if e.kind ≠ .other ∧ e.src ∈ seen ∧ e.dst ∉ acc then e.dst :: acc else acc) acc =
      g.foldl (fun acc e => if e.kind ≠ .other ∧ e.src ∈ seen ∧ e.dst ∉ acc then e.dst :: acc else acc) acc from
    this seen
  induction g with
  | nil => intro acc; rfl
  | cons e t ih =>
    intro acc
    by_cases hk : e.kind = .other
    · have : (List.filter (fun e => decide (e.kind ≠ EKind.other)) (e :: t)) =
          List.filter (fun e => decide (e.kind ≠ EKind.other)) t := by
        simp [hk]
      rw [this, List.foldl_cons, ih]
      simp [hk]
    · have : (List.filter (fun e => decide (e.kind ≠ EKind.other)) (e :: t)) =
          e :: List.filter (fun e => decide (e.kind ≠ EKind.other)) t := by
        simp [hk]
      rw [this, List.foldl_cons, List.foldl_cons, ih]

theorem checkPath_dropOther (g : Graph) (src tgt : Nat) : checkPath (dropOther g) src tgt = checkPath g src tgt := by
  unfold checkPath
  have : ∀ n seen, reachN (dropOther g) n seen = reachN g n seen := by
    intro n
    induction n with
    | zero => intro seen; rfl
    | succ n ih => intro seen; rw [reachN, reachN, reachStep_dropOther, ih]
  rw [this]

end Neumann.Vault
