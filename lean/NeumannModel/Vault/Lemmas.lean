import NeumannModel.Vault.Bfs
/-
  C14 — helper definitions and lemmas for the property theorems in `Props.lean`.
-/
namespace Neumann.Vault

theorem entNode_ne_secNode (a b : Nat) : entNode a ≠ secNode b := by
  unfold entNode secNode; omega

theorem entNode_inj {a b : Nat} (h : entNode a = entNode b) : a = b := by
  unfold entNode at h; omega

theorem secNode_inj {a b : Nat} (h : secNode a = secNode b) : a = b := by
  unfold secNode at h; omega

/-- the grant that created edge `e` has not reached its requested expiry at time `t` -/
def LiveAt (t : Nat) (e : Edge) : Prop := ∀ x, e.expiry = some x → t < x

/-- `req` is entitled to level `need` on `sec` in state `s`: some VAULT_ACCESS edge satisfying `P`, still in
    the graph (= unrevoked), hangs off `req` or off a group reachable from `req` over fewer than `horizon`
    MEMBER hops, and its level after signature check, attenuation and capacity is at least `need`. -/
def Justified (s : State) (req sec : Nat) (need : Level) (P : Edge → Prop) : Prop :=
  ∃ l e, Witness s.pol s.graph (entNode req) (secNode sec) l e ∧ need.toNat ≤ l.toNat ∧ P e

theorem Justified.weaken {s : State} {req sec : Nat} {need : Level} {P Q : Edge → Prop}
    (h : Justified s req sec need P) (hpq : ∀ e, e ∈ s.graph → P e → Q e) : Justified s req sec need Q := by
  obtain ⟨l, e, hw, hl, hp⟩ := h
  obtain ⟨k, grp, hpath, hk, he, rest⟩ := hw
  exact ⟨l, e, ⟨k, grp, hpath, hk, he, rest⟩, hl, hpq e he hp⟩

theorem perm_some_justified {s : State} {req sec : Nat} {p : Level} (hp : s.perm req sec = some p) :
    Justified s req sec p (fun _ => True) := by
  obtain ⟨e, hw⟩ := permLevel_sound _ _ _ _ _ (entNode_ne_secNode req sec) hp
  exact ⟨p, e, hw, Nat.le_refl _, trivial⟩

theorem checkAccess_ok {s : State} {req sec : Nat} {need : Level}
    (h : s.checkAccess req sec need = .ok ()) (hr : req ≠ root) :
    Justified s req sec need (fun _ => True) := by
  unfold State.checkAccess at h
  rw [if_neg hr] at h
  cases hp : s.perm req sec with
  | none => rw [hp] at h; simp only at h; split at h <;> cases h
  | some p =>
    rw [hp] at h; simp only at h
    by_cases ha : p.allows need = true
    · obtain ⟨l, e, hw, _, _⟩ := perm_some_justified hp
      have : need.toNat ≤ p.toNat := by simpa [Level.allows] using ha
      obtain ⟨e', hw'⟩ := permLevel_sound _ _ _ _ _ (entNode_ne_secNode req sec) hp
      exact ⟨p, e', hw', this, trivial⟩
    · rw [if_neg ha] at h; split at h <;> cases h

theorem level_one_le (l : Level) : Level.read.toNat ≤ l.toNat := by
  cases l <;> simp [Level.toNat]

theorem hasAccess_justified {s : State} {req sec : Nat} (h : s.hasAccess req sec = true) (hr : req ≠ root) :
    Justified s req sec .read (fun _ => True) := by
  unfold State.hasAccess at h
  have h2 : (s.perm req sec).isSome = true := by
    simpa [hr] using h
  cases hp : s.perm req sec with
  | none => rw [hp] at h2; cases h2
  | some p =>
    obtain ⟨l, e, hw, _, _⟩ := perm_some_justified hp
    exact ⟨l, e, hw, level_one_le l, trivial⟩

/-- a MEMBER path of positive length starts with a MEMBER edge out of its source -/
theorem MPath.first_edge {g : Graph} {a b k : Nat} (h : MPath g a b k) (hk : 0 < k) :
    ∃ e ∈ g, e.kind = .member ∧ e.src = a := by
  induction h with
  | refl => omega
  | step e p he hkind hsrc ih =>
    rename_i b' k'
    cases k' with
    | zero =>
      cases p
      exact ⟨e, he, hkind, hsrc⟩
    | succ n => exact ih (by omega)

theorem MPath.zero_eq {g : Graph} {a b : Nat} (h : MPath g a b 0) : b = a := by
  cases h; rfl

/-! ### graph / store projections of the state helpers -/

@[simp] theorem audit_graph (s : State) (req sec : Nat) (op : String) (extra : List Plain) :
    (s.audit req sec op extra).graph = s.graph := rfl
@[simp] theorem audit_pol (s : State) (req sec : Nat) (op : String) (extra : List Plain) :
    (s.audit req sec op extra).pol = s.pol := rfl
@[simp] theorem audit_ttl (s : State) (req sec : Nat) (op : String) (extra : List Plain) :
    (s.audit req sec op extra).ttl = s.ttl := rfl

@[simp] theorem persistTtl_graph (s : State) : s.persistTtl.graph = s.graph := by
  unfold State.persistTtl; split <;> rfl
@[simp] theorem persistTtl_pol (s : State) : s.persistTtl.pol = s.pol := by
  unfold State.persistTtl; split <;> rfl
@[simp] theorem persistTtl_ttl (s : State) : s.persistTtl.ttl = s.ttl := by
  unfold State.persistTtl; split <;> rfl

@[simp] theorem persistDelegs_graph (s : State) : s.persistDelegs.graph = s.graph := rfl
@[simp] theorem persistDelegs_pol (s : State) : s.persistDelegs.pol = s.pol := rfl
@[simp] theorem persistDelegs_ttl (s : State) : s.persistDelegs.ttl = s.ttl := rfl

@[simp] theorem putSecret_graph (s : State) (m : SecretMeta) : (s.putSecret m).graph = s.graph := rfl
@[simp] theorem putSecret_pol (s : State) (m : SecretMeta) : (s.putSecret m).pol = s.pol := rfl
@[simp] theorem putSecret_ttl (s : State) (m : SecretMeta) : (s.putSecret m).ttl = s.ttl := rfl

theorem mem_dropAccess {g : Graph} {ent sec : Nat} {e : Edge} :
    e ∈ dropAccess g ent sec ↔ e ∈ g ∧ ¬ (e.src = entNode ent ∧ e.dst = secNode sec ∧ e.kind.isAccess = true) := by
  unfold dropAccess
  simp only [List.mem_filter, Bool.and_eq_true, decide_eq_true_eq, Bool.not_eq_eq_eq_not,
    Bool.not_true, Bool.and_eq_false_imp, and_imp]
  constructor
  · rintro ⟨h1, h2⟩
    refine ⟨h1, ?_⟩
    rintro ⟨a, b, c⟩
    have := h2 a b
    rw [c] at this; cases this
  · rintro ⟨h1, h2⟩
    refine ⟨h1, ?_⟩
    intro a b
    cases hc : e.kind.isAccess with
    | false => rfl
    | true => exact absurd ⟨a, b, hc⟩ h2

/-! ### outcome lemmas: a successful call passed exactly the level check the code performs -/

theorem set_ok {s : State} {req sec val size : Nat} (h : (s.set req sec val size).2.isOk = true)
    (hr : req ≠ root) : s.checkAccess req sec .write = .ok () ∧ s.exists sec = true := by
  unfold State.set at h
  split at h
  · cases h
  · split at h
    · rename_i m hm
      split at h
      · cases h
      · rename_i hc
        refine ⟨hc, ?_⟩
        unfold State.exists; rw [hm]; rfl
    · first | cases h | (split at h <;> first | cases h | contradiction)

theorem get_ok {s : State} {now req sec : Nat} (h : (s.get now req sec).2.isOk = true) :
    (s.cleanup now).checkAccess req sec .read = .ok () := by
  unfold State.get at h
  simp only at h
  split at h
  · cases h
  · rename_i hc; exact hc

theorem get_graph (s : State) (now req sec : Nat) : (s.get now req sec).1.graph = (s.cleanup now).graph := by
  unfold State.get
  simp only
  split
  · rfl
  · split <;> rfl

theorem rotate_ok {s : State} {req sec val size : Nat} (h : (s.rotate req sec val size).2.isOk = true) :
    s.checkAccess req sec .write = .ok () := by
  unfold State.rotate at h
  split at h
  · cases h
  · rename_i hc; exact hc

theorem delete_ok {s : State} {req sec : Nat} (h : (s.delete req sec).2.isOk = true) :
    s.checkAccess req sec .admin = .ok () := by
  unfold State.delete at h
  split at h
  · cases h
  · rename_i hc; exact hc

theorem grantCore_ok {s s' : State} {req ent sec : Nat} {l : Level} {x : Option Nat}
    (h : s.grantCore req ent sec l x = .ok s') : s.checkAccess req sec .admin = .ok () := by
  unfold State.grantCore at h
  split at h
  · cases h
  · rename_i hc; exact hc

theorem grant_ok {s : State} {req ent sec : Nat} {l : Level} (h : (s.grant req ent sec l).2.isOk = true) :
    s.checkAccess req sec .admin = .ok () := by
  unfold State.grant at h
  split at h
  · cases h
  · rename_i hc; exact grantCore_ok hc

theorem grantTtl_ok {s : State} {now req ent sec ttl : Nat} {l : Level}
    (h : (s.grantTtl now req ent sec l ttl).2.isOk = true) : s.checkAccess req sec .admin = .ok () := by
  unfold State.grantTtl at h
  split at h
  · cases h
  · rename_i hc; exact grantCore_ok hc

theorem revoke_ok {s : State} {req ent sec : Nat} (h : (s.revoke req ent sec).2.isOk = true) :
    s.checkAccess req sec .admin = .ok () := by
  unfold State.revoke at h
  split at h
  · cases h
  · rename_i hc; exact hc

theorem revoke_graph {s : State} {req ent sec : Nat} (h : (s.revoke req ent sec).2.isOk = true) :
    (s.revoke req ent sec).1.graph = dropAccess s.graph ent sec := by
  have hc := revoke_ok h
  unfold State.revoke
  rw [hc]
  simp only [audit_graph]
  split <;> simp

theorem delete_graph {s : State} {req sec : Nat} (h : (s.delete req sec).2.isOk = true) :
    (s.delete req sec).1.graph = s.graph.filter (fun e => e.dst ≠ secNode sec) := by
  have hc := delete_ok h
  unfold State.delete at h ⊢
  rw [hc] at h ⊢
  simp only at h ⊢
  cases hf : s.findSecret sec with
  | none => rw [hf] at h; cases h
  | some m => simp

theorem delegCheck_ok {s : State} {parent : Nat} {l : Level} :
    ∀ {secs : List Nat}, s.delegCheck parent l secs = .ok () →
      ∀ sec ∈ secs, ∃ p, s.getPermission parent sec = some p ∧ l.toNat ≤ p.toNat
  | [], _, _, hm => nomatch hm
  | sec :: rest, h, x, hm => by
    unfold State.delegCheck at h
    split at h
    · cases h
    · rename_i p hp
      by_cases ha : p.allows l = true
      · rw [if_pos ha] at h
        rcases List.mem_cons.mp hm with rfl | hm
        · exact ⟨p, hp, by simpa [Level.allows] using ha⟩
        · exact delegCheck_ok h x hm
      · rw [if_neg ha] at h; cases h

theorem delegate_ok {s : State} {now parent child : Nat} {secs : List Nat} {l : Level} {ttl : Option Nat}
    (h : (s.delegate now parent child secs l ttl).2.isOk = true) : s.delegCheck parent l secs = .ok () := by
  unfold State.delegate at h
  split at h
  · cases h
  · rename_i hc; exact hc

theorem list_names {s : State} {now req : Nat} {p : Pattern} {names : List Nat}
    (h : (s.list now req p).2 = .names names) :
    ∀ n ∈ names, (s.cleanup now).hasAccess req n = true := by
  unfold State.list at h
  simp only at h
  cases h
  intro n hn
  simp only [List.mem_map, List.mem_filter, Bool.and_eq_true] at hn
  obtain ⟨m, ⟨_, _, hacc⟩, rfl⟩ := hn
  exact hacc

end Neumann.Vault
