import NeumannModel.Vault.Model
/-
  C14 — correctness of the permission search (`permLevel` = `get_permission_level_verified`):
  soundness (every reported level is witnessed by a reachable, verifying access edge) and
  completeness (no witnessed level is missed: the result is the maximum over all MEMBER paths
  shorter than the horizon).
-/
namespace Neumann.Vault

/-- `MPath g a b k`: there is a chain of `k` MEMBER edges of `g` from node `a` to node `b` -/
inductive MPath (g : Graph) (a : Nat) : Nat → Nat → Prop
  | refl : MPath g a a 0
  | step {b k : Nat} (e : Edge) : MPath g a b k → e ∈ g → e.kind = .member → e.src = b → MPath g a e.dst (k + 1)

/-- access edge `e` into `tgt` hangs off a node reachable from `src` over `k < horizon` MEMBER hops and,
    after signature check / attenuation at `k+1` hops / capacity, contributes exactly level `l` -/
def Witness (pol : Policy) (g : Graph) (src tgt : Nat) (l : Level) (e : Edge) : Prop :=
  ∃ k grp, MPath g src grp k ∧ k < pol.horizon ∧ e ∈ g ∧ e.src = grp ∧ e.dst = tgt ∧
    e.kind.isAccess = true ∧ edgeLevel pol e (k + 1) = some l

/-! ### level arithmetic -/

theorem Level.max_cases (a b : Level) : Level.max a b = a ∨ Level.max a b = b := by
  unfold Level.max; split
  · exact Or.inr rfl
  · exact Or.inl rfl

theorem Level.le_max_left (a b : Level) : a.toNat ≤ (Level.max a b).toNat := by
  unfold Level.max; split <;> omega

theorem Level.le_max_right (a b : Level) : b.toNat ≤ (Level.max a b).toNat := by
  unfold Level.max; split <;> omega

theorem Level.min_mono (a a' c : Level) (h : a.toNat ≤ a'.toNat) :
    (Level.min a c).toNat ≤ (Level.min a' c).toNat := by
  unfold Level.min; split <;> split <;> omega

theorem attenuate_mono (p : Policy) (l : Level) {h1 h2 : Nat} (hle : h1 ≤ h2) {a2 : Level}
    (h : attenuate p l h2 = some a2) :
    ∃ a1, attenuate p l h1 = some a1 ∧ a2.toNat ≤ a1.toNat := by
  unfold attenuate at h ⊢
  split at h
  · cases h
  · rename_i hh
    have hn : ¬ h1 > p.horizon := by omega
    rw [if_neg hn]
    refine ⟨_, rfl, ?_⟩
    cases h
    cases l
    · simp only [Level.toNat]; omega
    · simp only []
      split <;> split <;> simp only [Level.toNat] <;> omega
    · simp only []
      by_cases c1 : h2 ≤ p.adminLimit <;> by_cases c2 : h2 ≤ p.writeLimit <;>
      by_cases c3 : h1 ≤ p.adminLimit <;> by_cases c4 : h1 ≤ p.writeLimit <;>
      simp only [c1, c2, c3, c4, if_true, if_false, Level.toNat] <;> omega

theorem edgeLevel_mono (pol : Policy) (e : Edge) {h1 h2 : Nat} (hle : h1 ≤ h2) {x : Level}
    (h : edgeLevel pol e h2 = some x) :
    ∃ y, edgeLevel pol e h1 = some y ∧ x.toNat ≤ y.toNat := by
  unfold edgeLevel at h ⊢
  cases hk : e.kind with
  | member => rw [hk] at h; cases h
  | other => rw [hk] at h; cases h
  | access lvl cap sigOk =>
    rw [hk] at h
    simp only at h ⊢
    cases sigOk with
    | false => simp at h
    | true =>
      cases lvl with
      | none => simp at h
      | some l =>
        simp only [Bool.true_eq_false, if_false] at h ⊢
        cases ha : attenuate pol l h2 with
        | none => rw [ha] at h; cases h
        | some a2 =>
          rw [ha] at h
          obtain ⟨a1, ha1, hle1⟩ := attenuate_mono pol l hle ha
          rw [ha1]
          simp only at h ⊢
          cases h
          refine ⟨_, rfl, ?_⟩
          cases cap with
          | none => exact hle1
          | some c => exact Level.min_mono _ _ _ hle1

/-- `o` holds a level at least `x` -/
def BestGe (o : Option Level) (x : Level) : Prop := ∃ b, o = some b ∧ x.toNat ≤ b.toNat

theorem BestGe.bestMax {o : Option Level} {x : Level} (h : BestGe o x) (l : Level) :
    BestGe (bestMax o l) x := by
  obtain ⟨b, rfl, hb⟩ := h
  exact ⟨_, rfl, Nat.le_trans hb (Level.le_max_left b l)⟩

theorem bestGe_bestMax_self (o : Option Level) (l : Level) : BestGe (bestMax o l) l := by
  cases o with
  | none => exact ⟨l, rfl, Nat.le_refl _⟩
  | some b => exact ⟨_, rfl, Level.le_max_right b l⟩

/-! ### the loop body, case by case -/

theorem scanEdge_cases (pol : Policy) (tgt d : Nat) (st : Bfs) (e : Edge) :
    (e.kind = .member ∧ e.dst ∈ st.vis ∧ scanEdge pol tgt d st e = st) ∨
    (e.kind = .member ∧ e.dst ∉ st.vis ∧ scanEdge pol tgt d st e =
        { st with vis := e.dst :: st.vis, queue := st.queue ++ [(e.dst, d + 1)] }) ∨
    (e.kind.isAccess = true ∧ e.dst ≠ tgt ∧ scanEdge pol tgt d st e = st) ∨
    (e.kind.isAccess = true ∧ e.dst = tgt ∧ edgeLevel pol e (d + 1) = none ∧
        scanEdge pol tgt d st e = st) ∨
    (∃ l, e.kind.isAccess = true ∧ e.dst = tgt ∧ edgeLevel pol e (d + 1) = some l ∧
        scanEdge pol tgt d st e = { st with best := bestMax st.best l }) ∨
    (e.kind = .other ∧ scanEdge pol tgt d st e = st) := by
  cases hk : e.kind with
  | other =>
    right; right; right; right; right
    exact ⟨rfl, by simp only [scanEdge, hk]⟩
  | member =>
    by_cases hv : e.dst ∈ st.vis
    · left; refine ⟨rfl, hv, ?_⟩
      simp only [scanEdge, hk, hv, if_true]
    · right; left; refine ⟨rfl, hv, ?_⟩
      simp only [scanEdge, hk, hv, if_false]
  | access lvl cap sig =>
    right; right
    by_cases ht : e.dst = tgt
    · right
      cases hl : edgeLevel pol e (d + 1) with
      | none =>
        left; refine ⟨rfl, ht, rfl, ?_⟩
        simp only [scanEdge, hk, ht, if_true, hl]
      | some l =>
        right; left; refine ⟨l, rfl, ht, rfl, ?_⟩
        simp only [scanEdge, hk, ht, if_true, hl]
    · left; refine ⟨rfl, ht, ?_⟩
      simp only [scanEdge, hk, ht, if_false]

theorem foldl_inv {α β : Type _} (f : β → α → β) (P : β → Prop) :
    ∀ (es : List α), (∀ s a, a ∈ es → P s → P (f s a)) → ∀ s, P s → P (es.foldl f s)
  | [], _, _, hs => hs
  | a :: t, hstep, s, hs =>
    foldl_inv f P t (fun s b hb => hstep s b (List.mem_cons_of_mem _ hb)) (f s a)
      (hstep s a (List.mem_cons_self ..) hs)

theorem foldl_inv_all {α β : Type _} (f : β → α → β) (P : β → Prop) (Q : α → β → Prop)
    (hstab : ∀ s a a', Q a s → Q a (f s a')) :
    ∀ (es : List α), (∀ s a, a ∈ es → P s → P (f s a) ∧ Q a (f s a)) →
      ∀ s, P s → P (es.foldl f s) ∧ (∀ a, Q a s → Q a (es.foldl f s)) ∧
        ∀ a ∈ es, Q a (es.foldl f s)
  | [], _, s, hs => ⟨hs, fun _ h => h, fun _ h => nomatch h⟩
  | a :: t, hstep, s, hs => by
    have h1 := hstep s a (List.mem_cons_self ..) hs
    have ih := foldl_inv_all f P Q hstab t
      (fun s b hb => hstep s b (List.mem_cons_of_mem _ hb)) (f s a) h1.1
    refine ⟨ih.1, fun b hb => ih.2.1 b (hstab s b a hb), ?_⟩
    intro b hb
    rcases List.mem_cons.mp hb with rfl | hb
    · exact ih.2.1 _ h1.2
    · exact ih.2.2 b hb

/-! ### soundness -/

structure SInv (pol : Policy) (g : Graph) (src tgt : Nat) (st : Bfs) : Prop where
  qpath : ∀ p ∈ st.queue, MPath g src p.1 p.2
  wit : ∀ l, st.best = some l → ∃ e, Witness pol g src tgt l e

theorem SInv.scan {pol : Policy} {g : Graph} {src tgt : Nat} {st : Bfs} {cur d : Nat} {e : Edge}
    (hs : SInv pol g src tgt st) (hcur : MPath g src cur d) (hd : d < pol.horizon)
    (he : e ∈ g) (hsrc : e.src = cur) : SInv pol g src tgt (scanEdge pol tgt d st e) := by
  rcases scanEdge_cases pol tgt d st e with ⟨_, _, h⟩ | ⟨hk, _, h⟩ | ⟨_, _, h⟩ | ⟨_, _, _, h⟩ |
    ⟨l, ha, ht, hl, h⟩ | ⟨_, h⟩ <;> rw [h]
  · exact hs
  · refine ⟨?_, hs.wit⟩
    intro p hp
    rcases List.mem_append.mp hp with hp | hp
    · exact hs.qpath p hp
    · rw [List.mem_singleton] at hp
      subst hp
      exact MPath.step e hcur he hk hsrc
  · exact hs
  · exact hs
  · refine ⟨hs.qpath, ?_⟩
    intro l0 h0
    have hw : Witness pol g src tgt l e := ⟨d, cur, hcur, hd, he, hsrc, ht, ha, hl⟩
    cases hb : st.best with
    | none =>
      simp only [hb, bestMax] at h0
      cases h0
      exact ⟨e, hw⟩
    | some x =>
      simp only [hb, bestMax] at h0
      cases h0
      rcases Level.max_cases x l with hm | hm <;> rw [hm]
      · exact hs.wit x hb
      · exact ⟨e, hw⟩
  · exact hs

theorem mem_outEdges {g : Graph} {n : Nat} {e : Edge} : e ∈ outEdges g n ↔ e ∈ g ∧ e.src = n := by
  simp only [outEdges, List.mem_filter, decide_eq_true_eq]

theorem bfs_sound (pol : Policy) (g : Graph) (src tgt : Nat) :
    ∀ (fuel : Nat) (st : Bfs), SInv pol g src tgt st →
      ∀ l, bfs pol g tgt fuel st = some l → ∃ e, Witness pol g src tgt l e := by
  intro fuel
  induction fuel with
  | zero => intro st hs l h; rw [bfs] at h; exact hs.wit l h
  | succ n ih =>
    intro st hs l h
    rw [bfs] at h
    split at h
    · exact hs.wit l h
    · rename_i cur d rest hq
      have hcur : MPath g src cur d := hs.qpath (cur, d) (by rw [hq]; exact List.mem_cons_self ..)
      have hpop : SInv pol g src tgt { st with queue := rest } :=
        ⟨fun p hp => hs.qpath p (by rw [hq]; exact List.mem_cons_of_mem _ hp), hs.wit⟩
      split at h
      · exact ih _ hpop l h
      · rename_i hd
        refine ih _ ?_ l h
        apply foldl_inv (scanEdge pol tgt d) (SInv pol g src tgt) _ _ _ hpop
        intro s a ha hsa
        have ha' := mem_outEdges.mp ha
        exact hsa.scan hcur (by omega) ha'.1 ha'.2

theorem permLevel_sound (pol : Policy) (g : Graph) (src tgt : Nat) (l : Level)
    (hne : src ≠ tgt) (h : permLevel pol g src tgt = some l) : ∃ e, Witness pol g src tgt l e := by
  unfold permLevel at h
  rw [if_neg hne] at h
  refine bfs_sound pol g src tgt _ _ ?_ l h
  refine ⟨?_, ?_⟩
  · intro p hp
    rw [List.mem_singleton] at hp
    subst hp
    exact MPath.refl
  · intro l hl; cases hl

/-! ### fuel sufficiency -/

theorem length_le_of_nodup_subset : ∀ (l₁ l₂ : List Nat), l₁.Nodup → (∀ x ∈ l₁, x ∈ l₂) →
    l₁.length ≤ l₂.length
  | [], _, _, _ => Nat.zero_le _
  | a :: t, l₂, hn, hs => by
    have ha : a ∈ l₂ := hs a (List.mem_cons_self ..)
    have hn' := List.nodup_cons.mp hn
    have ih := length_le_of_nodup_subset t (l₂.erase a) hn'.2 (fun x hx => by
      have hxa : x ≠ a := fun h => hn'.1 (h ▸ hx)
      exact (List.mem_erase_of_ne hxa).mpr (hs x (List.mem_cons_of_mem _ hx)))
    have hl := List.length_erase_of_mem ha
    have hpos : 0 < l₂.length := List.length_pos_of_mem ha
    simp only [List.length_cons]
    omega

structure FuelInv (g : Graph) (src fuel : Nat) (st : Bfs) : Prop where
  nodup : st.vis.Nodup
  origin : ∀ n ∈ st.vis, n = src ∨ ∃ e ∈ g, e.dst = n
  count : st.queue.length + (g.length + 1) ≤ fuel + st.vis.length

theorem FuelInv.vis_le {g : Graph} {src fuel : Nat} {st : Bfs} (h : FuelInv g src fuel st) :
    st.vis.length ≤ g.length + 1 := by
  have := length_le_of_nodup_subset st.vis (src :: g.map (·.dst)) h.nodup (by
    intro x hx
    rcases h.origin x hx with rfl | ⟨e, he, rfl⟩
    · exact List.mem_cons_self ..
    · exact List.mem_cons_of_mem _ (List.mem_map.mpr ⟨e, he, rfl⟩))
  simpa only [List.length_cons, List.length_map] using this

theorem FuelInv.queue_nil {g : Graph} {src : Nat} {st : Bfs} (h : FuelInv g src 0 st) :
    st.queue = [] := by
  have h1 := h.vis_le
  have h2 := h.count
  exact List.eq_nil_of_length_eq_zero (by omega)

theorem FuelInv.pop {g : Graph} {src fuel : Nat} {st : Bfs} {x : Nat × Nat} {rest : List (Nat × Nat)}
    (h : FuelInv g src (fuel + 1) st) (hq : st.queue = x :: rest) :
    FuelInv g src fuel { st with queue := rest } := by
  refine ⟨h.nodup, h.origin, ?_⟩
  have := h.count
  rw [hq] at this
  simp only [List.length_cons] at this ⊢
  omega

theorem FuelInv.scan {g : Graph} {src fuel : Nat} {st : Bfs} (pol : Policy) (tgt d : Nat) {e : Edge}
    (h : FuelInv g src fuel st) (he : e ∈ g) : FuelInv g src fuel (scanEdge pol tgt d st e) := by
  rcases scanEdge_cases pol tgt d st e with ⟨_, _, hh⟩ | ⟨_, hv, hh⟩ | ⟨_, _, hh⟩ | ⟨_, _, _, hh⟩ |
    ⟨l, _, _, _, hh⟩ | ⟨_, hh⟩ <;> rw [hh]
  · exact h
  · refine ⟨List.nodup_cons.mpr ⟨hv, h.nodup⟩, ?_, ?_⟩
    · intro n hn
      rcases List.mem_cons.mp hn with rfl | hn
      · exact Or.inr ⟨e, he, rfl⟩
      · exact h.origin n hn
    · have := h.count
      simp only [List.length_append, List.length_cons, List.length_nil]
      omega
  · exact h
  · exact h
  · exact ⟨h.nodup, h.origin, h.count⟩
  · exact h

/-! ### completeness -/

/-- node `n` has been given depth `d`: either already popped (`done`) or still queued -/
def Known (done : List (Nat × Nat)) (st : Bfs) (n d : Nat) : Prop := (n, d) ∈ done ∨ (n, d) ∈ st.queue

/-- edge `e`, leaving a node popped at depth `dn`, has had its effect -/
def Handled (pol : Policy) (tgt : Nat) (done : List (Nat × Nat)) (st : Bfs) (e : Edge) (dn : Nat) : Prop :=
  (e.kind = .member → ∃ d', d' ≤ dn + 1 ∧ Known done st e.dst d') ∧
  (e.kind.isAccess = true → e.dst = tgt → ∀ x, edgeLevel pol e (dn + 1) = some x → BestGe st.best x)

theorem Handled.mono {pol : Policy} {tgt : Nat} {done done' : List (Nat × Nat)} {st st' : Bfs} {e : Edge}
    {dn : Nat} (h : Handled pol tgt done st e dn)
    (hk : ∀ n d, Known done st n d → Known done' st' n d)
    (hb : ∀ x, BestGe st.best x → BestGe st'.best x) : Handled pol tgt done' st' e dn := by
  refine ⟨fun hm => ?_, fun ha ht x hx => hb x (h.2 ha ht x hx)⟩
  obtain ⟨d', hd', hkn⟩ := h.1 hm
  exact ⟨d', hd', hk _ _ hkn⟩

/-- BFS invariant.  `done` = popped (node, depth) pairs; `fin` = those whose out-edges are all handled;
    `D` = depth of the node being (or last) expanded. -/
structure Inv (pol : Policy) (g : Graph) (src tgt : Nat) (done fin : List (Nat × Nat)) (D : Nat)
    (st : Bfs) : Prop where
  sorted : st.queue.Pairwise (fun a b => a.2 ≤ b.2)
  doneLe : ∀ p ∈ done, p.2 ≤ D
  qrange : ∀ a ∈ st.queue, D ≤ a.2 ∧ a.2 ≤ D + 1
  visKnown : ∀ n ∈ st.vis, ∃ d, Known done st n d
  srcZero : Known done st src 0
  handled : ∀ p ∈ fin, p.2 < pol.horizon → ∀ e ∈ g, e.src = p.1 → Handled pol tgt done st e p.2

theorem scanEdge_known {pol : Policy} {tgt d : Nat} {st : Bfs} {e : Edge} {done : List (Nat × Nat)}
    {n k : Nat} (h : Known done st n k) : Known done (scanEdge pol tgt d st e) n k := by
  rcases scanEdge_cases pol tgt d st e with ⟨_, _, hh⟩ | ⟨_, hv, hh⟩ | ⟨_, _, hh⟩ | ⟨_, _, _, hh⟩ |
    ⟨l, _, _, _, hh⟩ | ⟨_, hh⟩ <;> rw [hh]
  · exact h
  · rcases h with h | h
    · exact Or.inl h
    · exact Or.inr (List.mem_append_left _ h)
  · exact h
  · exact h
  · exact h
  · exact h

theorem scanEdge_bestGe {pol : Policy} {tgt d : Nat} {st : Bfs} {e : Edge} {x : Level}
    (h : BestGe st.best x) : BestGe (scanEdge pol tgt d st e).best x := by
  rcases scanEdge_cases pol tgt d st e with ⟨_, _, hh⟩ | ⟨_, hv, hh⟩ | ⟨_, _, hh⟩ | ⟨_, _, _, hh⟩ |
    ⟨l, _, _, _, hh⟩ | ⟨_, hh⟩ <;> rw [hh]
  · exact h
  · exact h
  · exact h
  · exact h
  · exact h.bestMax l
  · exact h

theorem Handled.scan {pol : Policy} {tgt d : Nat} {done : List (Nat × Nat)} {st : Bfs} {e e' : Edge}
    {dn : Nat} (h : Handled pol tgt done st e dn) :
    Handled pol tgt done (scanEdge pol tgt d st e') e dn :=
  h.mono (fun _ _ hk => scanEdge_known hk) (fun _ hb => scanEdge_bestGe hb)

theorem Inv.scan {pol : Policy} {g : Graph} {src tgt : Nat} {done fin : List (Nat × Nat)} {D : Nat}
    {st : Bfs} (hi : Inv pol g src tgt done fin D st) (e : Edge) :
    Inv pol g src tgt done fin D (scanEdge pol tgt D st e) ∧
      Handled pol tgt done (scanEdge pol tgt D st e) e D := by
  have hmono : ∀ p ∈ fin, p.2 < pol.horizon → ∀ e' ∈ g, e'.src = p.1 →
      Handled pol tgt done (scanEdge pol tgt D st e) e' p.2 :=
    fun p hp hlt e' he' hs' => (hi.handled p hp hlt e' he' hs').scan
  have hacc : ∀ {k : EKind}, k = .member → k.isAccess = true → False := by
    intro k hk ha; subst hk; cases ha
  rcases scanEdge_cases pol tgt D st e with ⟨hk, hv, hh⟩ | ⟨hk, hv, hh⟩ | ⟨ha, ht, hh⟩ |
    ⟨ha, ht, hl, hh⟩ | ⟨l, ha, ht, hl, hh⟩ | ⟨ho, hh⟩
  · rw [hh]
    refine ⟨hi, fun _ => ?_, fun ha => (hacc hk ha).elim⟩
    obtain ⟨d0, hd0⟩ := hi.visKnown _ hv
    refine ⟨d0, ?_, hd0⟩
    rcases hd0 with h | h
    · have := hi.doneLe _ h
      simp only at this; omega
    · have := (hi.qrange _ h).2
      simp only at this; omega
  · rw [hh] at hmono ⊢
    refine ⟨⟨?_, hi.doneLe, ?_, ?_, ?_, hmono⟩, fun _ => ?_, fun ha => (hacc hk ha).elim⟩
    · refine List.pairwise_append.mpr ⟨hi.sorted, List.pairwise_singleton _ _, ?_⟩
      intro a ha b hb
      rw [List.mem_singleton] at hb
      subst hb
      exact (hi.qrange a ha).2
    · intro a ha
      rcases List.mem_append.mp ha with ha | ha
      · exact hi.qrange a ha
      · rw [List.mem_singleton] at ha
        subst ha
        exact ⟨Nat.le_succ _, Nat.le_refl _⟩
    · intro n hn
      rcases List.mem_cons.mp hn with rfl | hn
      · exact ⟨D + 1, Or.inr (List.mem_append_right _ (List.mem_singleton.mpr rfl))⟩
      · obtain ⟨d0, h | h⟩ := hi.visKnown n hn
        · exact ⟨d0, Or.inl h⟩
        · exact ⟨d0, Or.inr (List.mem_append_left _ h)⟩
    · rcases hi.srcZero with h | h
      · exact Or.inl h
      · exact Or.inr (List.mem_append_left _ h)
    · exact ⟨D + 1, Nat.le_refl _, Or.inr (List.mem_append_right _ (List.mem_singleton.mpr rfl))⟩
  · rw [hh]
    refine ⟨hi, fun hk => ?_, fun _ ht' => (ht ht').elim⟩
    rw [hk] at ha; cases ha
  · rw [hh]
    refine ⟨hi, fun hk => ?_, fun _ _ x hx => ?_⟩
    · rw [hk] at ha; cases ha
    · rw [hl] at hx; cases hx
  · rw [hh] at hmono ⊢
    refine ⟨⟨hi.sorted, hi.doneLe, hi.qrange, hi.visKnown, hi.srcZero, hmono⟩,
      fun hk => ?_, fun _ _ x hx => ?_⟩
    · rw [hk] at ha; cases ha
    · rw [hl] at hx; cases hx
      exact bestGe_bestMax_self _ _
  · rw [hh]
    refine ⟨hi, fun hk => ?_, fun ha => ?_⟩
    · rw [ho] at hk; cases hk
    · rw [ho] at ha; cases ha

theorem Inv.pop {pol : Policy} {g : Graph} {src tgt : Nat} {done : List (Nat × Nat)} {D : Nat}
    {st : Bfs} {cur d : Nat} {rest : List (Nat × Nat)}
    (hi : Inv pol g src tgt done done D st) (hq : st.queue = (cur, d) :: rest) :
    Inv pol g src tgt ((cur, d) :: done) done d { st with queue := rest } := by
  have hsorted := hi.sorted
  rw [hq] at hsorted
  have hs' := List.pairwise_cons.mp hsorted
  have hhead := hi.qrange (cur, d) (by rw [hq]; exact List.mem_cons_self ..)
  simp only at hhead
  have hkn : ∀ n k, Known done st n k → Known ((cur, d) :: done) { st with queue := rest } n k := by
    intro n k h
    rcases h with h | h
    · exact Or.inl (List.mem_cons_of_mem _ h)
    · rw [hq] at h
      rcases List.mem_cons.mp h with h | h
      · exact Or.inl (h ▸ List.mem_cons_self ..)
      · exact Or.inr h
  refine ⟨hs'.2, ?_, ?_, ?_, hkn _ _ hi.srcZero, ?_⟩
  · intro p hp
    rcases List.mem_cons.mp hp with rfl | hp
    · exact Nat.le_refl _
    · have := hi.doneLe p hp; omega
  · intro a ha
    have h1 := hs'.1 a ha
    have h2 := (hi.qrange a (by rw [hq]; exact List.mem_cons_of_mem _ ha)).2
    simp only at h1
    exact ⟨h1, by omega⟩
  · intro n hn
    obtain ⟨d0, h⟩ := hi.visKnown n hn
    exact ⟨d0, hkn _ _ h⟩
  · intro p hp hlt e he hs
    exact (hi.handled p hp hlt e he hs).mono hkn (fun _ h => h)

theorem Inv.extend {pol : Policy} {g : Graph} {src tgt : Nat} {done fin : List (Nat × Nat)} {D : Nat}
    {st : Bfs} {p : Nat × Nat} (hi : Inv pol g src tgt done fin D st)
    (hp : p.2 < pol.horizon → ∀ e ∈ g, e.src = p.1 → Handled pol tgt done st e p.2) :
    Inv pol g src tgt done (p :: fin) D st := by
  refine ⟨hi.sorted, hi.doneLe, hi.qrange, hi.visKnown, hi.srcZero, ?_⟩
  intro q hq
  rcases List.mem_cons.mp hq with rfl | hq
  · exact hp
  · exact hi.handled q hq

theorem Inv.reach {pol : Policy} {g : Graph} {src tgt : Nat} {done : List (Nat × Nat)} {D : Nat}
    {st : Bfs} (hi : Inv pol g src tgt done done D st) (hq : st.queue = []) :
    ∀ n k, MPath g src n k → k < pol.horizon → ∃ d, d ≤ k ∧ (n, d) ∈ done := by
  intro n k hp
  induction hp with
  | refl =>
    intro _
    rcases hi.srcZero with h | h
    · exact ⟨0, Nat.le_refl _, h⟩
    · rw [hq] at h; cases h
  | step e hp he hk hs ih =>
    rename_i b k
    intro hlt
    obtain ⟨d, hdk, hmem⟩ := ih (by omega)
    have hh := hi.handled (b, d) hmem (by simp only; omega) e he hs
    obtain ⟨d', hd', hkn⟩ := hh.1 hk
    rcases hkn with h | h
    · exact ⟨d', by omega, h⟩
    · rw [hq] at h; cases h

theorem Inv.final {pol : Policy} {g : Graph} {src tgt : Nat} {done : List (Nat × Nat)} {D : Nat}
    {st : Bfs} (hi : Inv pol g src tgt done done D st) (hq : st.queue = [])
    {l' : Level} {e : Edge} (hw : Witness pol g src tgt l' e) : BestGe st.best l' := by
  obtain ⟨k, grp, hp, hk, he, hs, hd, ha, hl⟩ := hw
  obtain ⟨d, hdk, hmem⟩ := hi.reach hq grp k hp hk
  obtain ⟨y, hy, hxy⟩ := edgeLevel_mono pol e (h1 := d + 1) (h2 := k + 1) (by omega) hl
  have hh := hi.handled (grp, d) hmem (by simp only; omega) e he hs
  obtain ⟨b, hb, hyb⟩ := hh.2 ha hd y hy
  exact ⟨b, hb, by omega⟩

theorem bfs_complete (pol : Policy) (g : Graph) (src tgt : Nat) {l' : Level} {e : Edge}
    (hw : Witness pol g src tgt l' e) :
    ∀ (fuel : Nat) (st : Bfs) (done : List (Nat × Nat)) (D : Nat),
      Inv pol g src tgt done done D st → FuelInv g src fuel st →
      BestGe (bfs pol g tgt fuel st) l' := by
  intro fuel
  induction fuel with
  | zero =>
    intro st done D hi hf
    rw [bfs]
    exact hi.final hf.queue_nil hw
  | succ n ih =>
    intro st done D hi hf
    rw [bfs]
    split
    · rename_i hq
      exact hi.final hq hw
    · rename_i cur d rest hq
      have hpop := hi.pop hq
      have hfp := hf.pop hq
      split
      · rename_i hge
        refine ih _ ((cur, d) :: done) d (hpop.extend ?_) hfp
        intro hlt
        simp only at hlt
        omega
      · have hfold := foldl_inv_all (scanEdge pol tgt d)
          (fun s => Inv pol g src tgt ((cur, d) :: done) done d s ∧ FuelInv g src n s)
          (fun a s => Handled pol tgt ((cur, d) :: done) s a d)
          (fun s a a' h => h.scan) (outEdges g cur)
          (fun s a ha hs =>
            ⟨⟨(hs.1.scan a).1, hs.2.scan pol tgt d (mem_outEdges.mp ha).1⟩, (hs.1.scan a).2⟩)
          _ ⟨hpop, hfp⟩
        refine ih _ ((cur, d) :: done) d (hfold.1.1.extend ?_) hfold.1.2
        intro _ a ha hs
        exact hfold.2.2 a (mem_outEdges.mpr ⟨ha, hs⟩)

theorem permLevel_complete (pol : Policy) (g : Graph) (src tgt : Nat) (l' : Level) (e : Edge)
    (hne : src ≠ tgt) (hw : Witness pol g src tgt l' e) :
    ∃ l, permLevel pol g src tgt = some l ∧ l'.toNat ≤ l.toNat := by
  unfold permLevel
  rw [if_neg hne]
  refine bfs_complete pol g src tgt hw _ _ [] 0 ?_ ?_
  · refine ⟨List.pairwise_singleton _ _, (fun p hp => by cases hp), ?_, ?_, ?_, (fun p hp => by cases hp)⟩
    · intro a ha
      rw [List.mem_singleton] at ha
      subst ha
      exact ⟨Nat.le_refl _, Nat.zero_le _⟩
    · intro n hn
      rw [List.mem_singleton] at hn
      subst hn
      exact ⟨0, Or.inr (List.mem_singleton.mpr rfl)⟩
    · exact Or.inr (List.mem_singleton.mpr rfl)
  · refine ⟨List.nodup_cons.mpr ⟨List.not_mem_nil, List.nodup_nil⟩, ?_, ?_⟩
    · intro n hn
      rw [List.mem_singleton] at hn
      exact Or.inl hn
    · simp only [List.length_cons, List.length_nil]
      omega

theorem permLevel_none_iff (pol : Policy) (g : Graph) (src tgt : Nat) (hne : src ≠ tgt) :
    permLevel pol g src tgt = none ↔ ∀ l e, ¬ Witness pol g src tgt l e := by
  constructor
  · intro h l e hw
    obtain ⟨l0, h0, _⟩ := permLevel_complete pol g src tgt l e hne hw
    rw [h] at h0
    cases h0
  · intro h
    cases hp : permLevel pol g src tgt with
    | none => rfl
    | some l =>
      obtain ⟨e, hw⟩ := permLevel_sound pol g src tgt l hne hp
      exact (h l e hw).elim

end Neumann.Vault
