import NeumannModel.Vault.Lemmas
/-
  C14 — history invariant tying the GHOST expiry of every grant edge to the TTL tracker
  (the code stores expiry only in the tracker, keyed by (entity, secret name)), and its
  consequence: right after `cleanup_expired_grants` every edge left in the graph is unexpired.
-/
namespace Neumann.Vault

/-- every edge issued with an expiry `x` is a VAULT_ACCESS edge entity→secret whose (entity, secret, x)
    entry is still in the TTL tracker -/
def TI (g : Graph) (ttl : List TtlEntry) : Prop :=
  ∀ e ∈ g, ∀ x, e.expiry = some x →
    ∃ ent sec, e.src = entNode ent ∧ e.dst = secNode sec ∧ e.kind.isAccess = true ∧ (TtlEntry.mk ent sec x) ∈ ttl

theorem TI.mono {g g' : Graph} {ttl ttl' : List TtlEntry} (h : TI g ttl)
    (hg : ∀ e ∈ g', e ∈ g)
    (ht : ∀ e ∈ g', ∀ t ∈ ttl, e.src = entNode t.ent → e.dst = secNode t.sec → e.kind.isAccess = true → t ∈ ttl') :
    TI g' ttl' := by
  intro e he x hx
  obtain ⟨ent, sec, h1, h2, h3, h4⟩ := h e (hg e he) x hx
  exact ⟨ent, sec, h1, h2, h3, ht e he _ h4 h1 h2 h3⟩

theorem TI.append {g : Graph} {ttl : List TtlEntry} (h : TI g ttl) (e : Edge) (he : e.expiry = none) :
    TI (g ++ [e]) ttl := by
  intro e' he' x hx
  rcases List.mem_append.mp he' with h1 | h1
  · exact h e' h1 x hx
  · rw [List.mem_singleton] at h1; subst h1; rw [he] at hx; cases hx

theorem TI.ttl_append {g : Graph} {ttl : List TtlEntry} (h : TI g ttl) (more : List TtlEntry) :
    TI g (ttl ++ more) :=
  h.mono (fun _ h => h) (fun _ _ _ ht _ _ _ => List.mem_append_left _ ht)

theorem mem_ttlRemove {l : List TtlEntry} {ent sec : Nat} {t : TtlEntry} :
    t ∈ ttlRemove l ent sec ↔ t ∈ l ∧ ¬ (t.ent = ent ∧ t.sec = sec) := by
  unfold ttlRemove
  simp only [List.mem_filter, Bool.not_eq_eq_eq_not, Bool.not_true, Bool.and_eq_false_imp, decide_eq_true_eq,
    decide_eq_false_iff_not, not_and]

/-- dropping the edges entity→secret together with (or without) the tracker entries of that pair -/
theorem TI.drop {g : Graph} {ttl : List TtlEntry} (h : TI g ttl) (ent sec : Nat) :
    TI (dropAccess g ent sec) (ttlRemove ttl ent sec) ∧ TI (dropAccess g ent sec) ttl := by
  constructor
  · refine h.mono (fun e he => (mem_dropAccess.mp he).1) ?_
    intro e he t ht h1 h2 h3
    refine mem_ttlRemove.mpr ⟨ht, ?_⟩
    rintro ⟨rfl, rfl⟩
    exact (mem_dropAccess.mp he).2 ⟨h1, h2, h3⟩
  · exact h.mono (fun e he => (mem_dropAccess.mp he).1) (fun _ _ t ht _ _ _ => ht)

theorem mem_foldl_dropAccess {e : Edge} :
    ∀ (L : List TtlEntry) (g : Graph),
      e ∈ L.foldl (fun g t => dropAccess g t.ent t.sec) g ↔
        e ∈ g ∧ ∀ t ∈ L, ¬ (e.src = entNode t.ent ∧ e.dst = secNode t.sec ∧ e.kind.isAccess = true)
  | [], g => by simp
  | t :: L, g => by
    rw [List.foldl_cons, mem_foldl_dropAccess L, mem_dropAccess]
    constructor
    · rintro ⟨⟨h1, h2⟩, h3⟩
      refine ⟨h1, ?_⟩
      intro t' ht'
      rcases List.mem_cons.mp ht' with rfl | ht'
      · exact h2
      · exact h3 t' ht'
    · rintro ⟨h1, h2⟩
      exact ⟨⟨h1, h2 t (List.mem_cons_self ..)⟩, fun t' ht' => h2 t' (List.mem_cons_of_mem _ ht')⟩

theorem cleanup_graph (s : State) (now : Nat) :
    (s.cleanup now).graph =
      (s.ttl.filter (fun t => t.expires ≤ now)).foldl (fun g t => dropAccess g t.ent t.sec) s.graph := by
  unfold State.cleanup
  simp only
  split <;> simp

theorem cleanup_ttl (s : State) (now : Nat) :
    (s.cleanup now).ttl = s.ttl.filter (fun t => !(decide (t.expires ≤ now))) := by
  unfold State.cleanup
  simp only
  split <;> simp

@[simp] theorem cleanup_pol (s : State) (now : Nat) : (s.cleanup now).pol = s.pol := by
  unfold State.cleanup
  simp only
  split <;> simp

/-- `cleanup` only removes edges -/
theorem cleanup_graph_sub (s : State) (now : Nat) : ∀ e ∈ (s.cleanup now).graph, e ∈ s.graph := by
  intro e he
  rw [cleanup_graph] at he
  exact ((mem_foldl_dropAccess _ _).mp he).1

/-- `cleanup_expired_grants` twice at the same instant = once (why the repeated calls inside one API call —
    `get`: top + `check_access`; `list`: top + every `has_access`; `delegate`: every `get_permission` — are
    modelled by a single `cleanup now`) -/
theorem cleanup_cleanup (s : State) (now : Nat) : (s.cleanup now).cleanup now = s.cleanup now := by
  have hexp : (s.cleanup now).ttl.filter (fun t => decide (t.expires ≤ now)) = [] := by
    rw [cleanup_ttl, List.filter_filter]
    simp
  have hkeep : (s.cleanup now).ttl.filter (fun t => !(decide (t.expires ≤ now))) = (s.cleanup now).ttl := by
    rw [cleanup_ttl, List.filter_filter]
    simp
  generalize s.cleanup now = c at hexp hkeep ⊢
  unfold State.cleanup
  simp only [hexp, hkeep, List.foldl_nil, Nat.lt_irrefl, if_false]

theorem MPath.mono {g g' : Graph} (hsub : ∀ e ∈ g, e ∈ g') {a b k : Nat} (h : MPath g a b k) : MPath g' a b k := by
  induction h with
  | refl => exact .refl
  | step e _ he hk hs ih => exact .step e ih (hsub e he) hk hs

/-- a justification found in a sub-graph (same policy) is a justification in the larger graph -/
theorem Justified.mono {s s' : State} {req sec : Nat} {need : Level} {P : Edge → Prop}
    (h : Justified s req sec need P) (hpol : s.pol = s'.pol) (hsub : ∀ e ∈ s.graph, e ∈ s'.graph) :
    Justified s' req sec need P := by
  obtain ⟨l, e, ⟨k, grp, hpath, hk, he, hsrc, hdst, hacc, hlvl⟩, hl, hp⟩ := h
  exact ⟨l, e, ⟨k, grp, hpath.mono hsub, hpol ▸ hk, hsub e he, hsrc, hdst, hacc, hpol ▸ hlvl⟩, hl, hp⟩

theorem Justified.of_cleanup {s : State} {now req sec : Nat} {need : Level} {P : Edge → Prop}
    (h : Justified (s.cleanup now) req sec need P) : Justified s req sec need P :=
  h.mono (cleanup_pol s now) (cleanup_graph_sub s now)

/-- after `cleanup_expired_grants` at `now`: the invariant still holds and every remaining edge is unexpired -/
theorem TI.cleanup {s : State} (h : TI s.graph s.ttl) (now : Nat) :
    TI (s.cleanup now).graph (s.cleanup now).ttl ∧ ∀ e ∈ (s.cleanup now).graph, LiveAt now e := by
  rw [cleanup_graph, cleanup_ttl]
  have key : ∀ e ∈ (s.ttl.filter (fun t => t.expires ≤ now)).foldl (fun g t => dropAccess g t.ent t.sec) s.graph,
      ∀ x, e.expiry = some x → now < x ∧
        ∃ ent sec, e.src = entNode ent ∧ e.dst = secNode sec ∧ e.kind.isAccess = true ∧ (TtlEntry.mk ent sec x) ∈ s.ttl := by
    intro e he x hx
    obtain ⟨heg, hno⟩ := (mem_foldl_dropAccess _ _).mp he
    obtain ⟨ent, sec, h1, h2, h3, h4⟩ := h e heg x hx
    refine ⟨?_, ent, sec, h1, h2, h3, h4⟩
    by_cases hle : x ≤ now
    · exact absurd ⟨h1, h2, h3⟩ (hno ⟨ent, sec, x⟩ (by simp [h4, hle]))
    · omega
  constructor
  · intro e he x hx
    obtain ⟨hlt, ent, sec, h1, h2, h3, h4⟩ := key e he x hx
    refine ⟨ent, sec, h1, h2, h3, ?_⟩
    simp only [List.mem_filter, Bool.not_eq_eq_eq_not, Bool.not_true, decide_eq_false_iff_not]
    exact ⟨h4, show ¬ x ≤ now by omega⟩
  · intro e he x hx
    exact (key e he x hx).1

/-! ### every operation preserves the invariant -/

theorem addAccess_graph (s : State) (ent sec : Nat) (l : Level) (x : Option Nat) :
    (s.addAccess ent sec l x).graph = s.graph ++ [accessEdge s.nextId ent sec l x] := rfl
@[simp] theorem addAccess_ttl (s : State) (ent sec : Nat) (l : Level) (x : Option Nat) :
    (s.addAccess ent sec l x).ttl = s.ttl := rfl

theorem guarded_ti {s : State} (h : TI s.graph s.ttl) {now req sec : Nat} {need : Level} {k : State → State × Resp}
    (hk : ∀ s' : State, TI s'.graph s'.ttl → TI (k s').1.graph (k s').1.ttl) :
    TI (s.guarded now req sec need k).1.graph (s.guarded now req sec need k).1.ttl :=
  guarded_inv (fun s => TI s.graph s.ttl) h (h.cleanup now).1 hk

theorem set_inv {s : State} (h : TI s.graph s.ttl) (now req sec val size : Nat) :
    TI (s.set now req sec val size).1.graph (s.set now req sec val size).1.ttl := by
  unfold State.set
  split
  · exact h
  · split
    · exact guarded_ti h (fun s' hs' => by simpa using hs')
    · split
      · exact h
      · simp only [audit_graph, audit_ttl, addAccess_graph, addAccess_ttl, putSecret_graph, putSecret_ttl]
        exact h.append _ rfl

theorem get_inv {s : State} (h : TI s.graph s.ttl) (now req sec : Nat) :
    TI (s.get now req sec).1.graph (s.get now req sec).1.ttl := by
  unfold State.get
  refine guarded_ti (h.cleanup now).1 (fun s' hs' => ?_)
  split
  · exact hs'
  · exact hs'

theorem rotate_inv {s : State} (h : TI s.graph s.ttl) (now req sec val size : Nat) :
    TI (s.rotate now req sec val size).1.graph (s.rotate now req sec val size).1.ttl := by
  unfold State.rotate
  refine guarded_ti h (fun s' hs' => ?_)
  split
  · exact hs'
  · split
    · exact hs'
    · simpa using hs'

theorem mem_foldl_ttlRemove_of_ne {sec : Nat} {t : TtlEntry} (hne : t.sec ≠ sec) :
    ∀ (es : List Edge) (l : List TtlEntry), t ∈ l →
      t ∈ es.foldl (fun l e => if (e.kind.isAccess && decide (e.src % 2 = 0)) = true then ttlRemove l (e.src / 2) sec else l) l
  | [], _, h => h
  | e :: es, l, h => by
    rw [List.foldl_cons]
    apply mem_foldl_ttlRemove_of_ne hne es
    split
    · exact mem_ttlRemove.mpr ⟨h, fun hh => hne hh.2⟩
    · exact h

theorem delete_inv {s : State} (h : TI s.graph s.ttl) (now req sec : Nat) :
    TI (s.delete now req sec).1.graph (s.delete now req sec).1.ttl := by
  unfold State.delete
  refine guarded_ti h (fun s' hs' => ?_)
  split
  · exact hs'
  · simp only [audit_graph, audit_ttl, persistTtl_graph, persistTtl_ttl]
    refine hs'.mono (fun e he => (List.mem_filter.mp he).1) ?_
    intro e he t ht _ h2 _
    apply mem_foldl_ttlRemove_of_ne _ _ _ ht
    intro hsec
    have hd := (List.mem_filter.mp he).2
    simp only [decide_eq_true_eq] at hd
    exact hd (by rw [h2, hsec])

/-- `grant_with_permission`: either nothing but (possibly) a cleanup happened and the answer is an error, or one
    edge with the requested expiry was appended to a state satisfying the invariant -/
theorem grantCore_cases {s : State} (h : TI s.graph s.ttl) (now req ent sec : Nat) (l : Level) (x : Option Nat) :
    let r := s.grantCore now req ent sec l x
    ((∃ e, r.2 = .err e) ∧ TI r.1.graph r.1.ttl) ∨
    (r.2 = .ok ∧ ∃ s0 : State, TI s0.graph s0.ttl ∧ r.1.graph = s0.graph ++ [accessEdge s0.nextId ent sec l x] ∧
      r.1.ttl = s0.ttl) := by
  intro r
  have hfst : TI (s.checkAccess now req sec .admin).1.graph (s.checkAccess now req sec .admin).1.ttl := by
    rw [checkAccess_fst]; split
    · exact h
    · split
      · exact h
      · exact (h.cleanup now).1
  show (_ ∧ _) ∨ _
  rcases guarded_cases s now req sec .admin (fun s : State =>
      if !s.exists sec then (s, .err .notFound)
      else ((s.addAccess ent sec l x).audit req sec "grant" [.ident ent], .ok)) with ⟨e, he⟩ | ⟨_, he⟩
  · left
    have : r = ((s.checkAccess now req sec .admin).1, .err e) := he
    rw [this]; exact ⟨⟨e, rfl⟩, hfst⟩
  · have hr : r = (fun s : State =>
        if !s.exists sec then (s, Resp.err .notFound)
        else ((s.addAccess ent sec l x).audit req sec "grant" [.ident ent], Resp.ok))
        (s.checkAccess now req sec .admin).1 := he
    simp only at hr
    by_cases hex : (!(s.checkAccess now req sec .admin).1.exists sec) = true
    · left
      rw [if_pos hex] at hr
      rw [hr]; exact ⟨⟨_, rfl⟩, hfst⟩
    · right
      rw [if_neg hex] at hr
      rw [hr]
      exact ⟨rfl, _, hfst, rfl, rfl⟩

theorem grant_inv {s : State} (h : TI s.graph s.ttl) (now req ent sec : Nat) (l : Level) :
    TI (s.grant now req ent sec l).1.graph (s.grant now req ent sec l).1.ttl := by
  unfold State.grant
  rcases grantCore_cases h now req ent sec l none with ⟨_, h1⟩ | ⟨_, s0, h0, hg, ht⟩
  · exact h1
  · rw [hg, ht]; exact h0.append _ rfl

theorem grantTtl_inv {s : State} (h : TI s.graph s.ttl) (now req ent sec : Nat) (l : Level) (ttl : Nat) :
    TI (s.grantTtl now req ent sec l ttl).1.graph (s.grantTtl now req ent sec l ttl).1.ttl := by
  unfold State.grantTtl
  rcases grantCore_cases h now req ent sec l (some (now + ttl)) with ⟨⟨e, he⟩, h1⟩ | ⟨hok, s0, h0, hg, ht⟩
  · split
    · rename_i s' e' heq
      rw [heq] at h1; exact h1
    · rename_i s' r hne heq
      rw [heq] at he
      exact absurd he (hne e)
  · split
    · rename_i s' e' heq
      rw [heq] at hok; cases hok
    · rename_i s' r hne heq
      rw [heq] at hg ht
      simp only at hg ht
      simp only [persistTtl_graph, persistTtl_ttl, hg, ht]
      intro e he x hx
      rcases List.mem_append.mp he with he | he
      · obtain ⟨a, b, q1, q2, q3, q4⟩ := h0 e he x hx
        exact ⟨a, b, q1, q2, q3, List.mem_append_left _ q4⟩
      · rw [List.mem_singleton] at he; subst he
        simp only [accessEdge, Option.some.injEq] at hx; subst hx
        exact ⟨ent, sec, rfl, rfl, rfl, List.mem_append_right _ (List.mem_singleton.mpr rfl)⟩

theorem revoke_inv {s : State} (h : TI s.graph s.ttl) (now req ent sec : Nat) :
    TI (s.revoke now req ent sec).1.graph (s.revoke now req ent sec).1.ttl := by
  unfold State.revoke
  refine guarded_ti h (fun s' hs' => ?_)
  simp only [audit_graph, audit_ttl]
  split
  · simp only [persistTtl_graph, persistTtl_ttl]
    exact (hs'.drop ent sec).1
  · exact (hs'.drop ent sec).2

theorem foldl_addAccess {child : Nat} {eff : Level} {exp : Option Nat} :
    ∀ (secs : List Nat) (s0 : State),
      (secs.foldl (fun st sec => st.addAccess child sec eff exp) s0).ttl = s0.ttl ∧
      ∀ e ∈ (secs.foldl (fun st sec => st.addAccess child sec eff exp) s0).graph,
        e ∈ s0.graph ∨ ∃ sec ∈ secs, ∃ id, e = accessEdge id child sec eff exp
  | [], s0 => ⟨rfl, fun e he => Or.inl he⟩
  | sec :: rest, s0 => by
    rw [List.foldl_cons]
    obtain ⟨h1, h2⟩ := foldl_addAccess rest (s0.addAccess child sec eff exp)
    refine ⟨by rw [h1]; rfl, ?_⟩
    intro e he
    rcases h2 e he with h3 | ⟨sec', hs, id, rfl⟩
    · rw [addAccess_graph] at h3
      rcases List.mem_append.mp h3 with h4 | h4
      · exact Or.inl h4
      · rw [List.mem_singleton] at h4
        exact Or.inr ⟨sec, List.mem_cons_self .., _, h4⟩
    · exact Or.inr ⟨sec', List.mem_cons_of_mem _ hs, id, rfl⟩

theorem foldl_audit_proj (f : State → Nat → State) (hg : ∀ st x, (f st x).graph = st.graph)
    (ht : ∀ st x, (f st x).ttl = st.ttl) :
    ∀ (l : List Nat) (s0 : State), (l.foldl f s0).graph = s0.graph ∧ (l.foldl f s0).ttl = s0.ttl
  | [], _ => ⟨rfl, rfl⟩
  | x :: l, s0 => by
    rw [List.foldl_cons]
    obtain ⟨h1, h2⟩ := foldl_audit_proj f hg ht l (f s0 x)
    exact ⟨by rw [h1, hg], by rw [h2, ht]⟩

theorem foldl_audit_graph (parent child : Nat) (op : String) :
    ∀ (l : List Nat) (s0 : State), (l.foldl (fun st sec => st.audit parent sec op [.ident child]) s0).graph = s0.graph
  | [], _ => rfl
  | x :: l, s0 => by rw [List.foldl_cons, foldl_audit_graph parent child op l]; rfl

theorem foldl_audit_ttl (parent child : Nat) (op : String) :
    ∀ (l : List Nat) (s0 : State), (l.foldl (fun st sec => st.audit parent sec op [.ident child]) s0).ttl = s0.ttl
  | [], _ => rfl
  | x :: l, s0 => by rw [List.foldl_cons, foldl_audit_ttl parent child op l]; rfl

/-- adding grant edges child→secs (all with the same requested expiry) and, when there is an expiry,
    the matching tracker entries -/
theorem TI.add_grants {g g' : Graph} {ttl ttl' : List TtlEntry} (h : TI g ttl) {child : Nat} {eff : Level}
    {exp : Option Nat} {secs : List Nat}
    (hg : ∀ e ∈ g', e ∈ g ∨ ∃ sec ∈ secs, ∃ id, e = accessEdge id child sec eff exp)
    (ht : ∀ t ∈ ttl, t ∈ ttl')
    (hn : ∀ x, exp = some x → ∀ sec ∈ secs, TtlEntry.mk child sec x ∈ ttl') : TI g' ttl' := by
  intro e he x hx
  rcases hg e he with h1 | ⟨sec, hs, id, rfl⟩
  · obtain ⟨a, b, q1, q2, q3, q4⟩ := h e h1 x hx
    exact ⟨a, b, q1, q2, q3, ht _ q4⟩
  · exact ⟨child, sec, rfl, rfl, rfl, hn x hx sec hs⟩

theorem delegateApply_inv {s : State} (h : TI s.graph s.ttl) (now parent child : Nat) (secs : List Nat) (eff : Level)
    (ttl : Option Nat) :
    TI (s.delegateApply now parent child secs eff ttl).1.graph (s.delegateApply now parent child secs eff ttl).1.ttl := by
  cases ttl with
  | none =>
    unfold State.delegateApply
    split
    · exact h
    · split
      · exact h
      · simp only
        split
        · exact h
        · simp only [foldl_audit_graph, foldl_audit_ttl, persistDelegs_graph, persistDelegs_ttl, Option.map_none]
          refine h.add_grants (secs := secs) (foldl_addAccess secs _).2 ?_ (fun x hx => nomatch hx)
          intro t ht
          rw [(foldl_addAccess secs _).1]
          exact ht
  | some tt =>
    unfold State.delegateApply
    split
    · exact h
    · split
      · exact h
      · simp only
        split
        · exact h
        · simp only [foldl_audit_graph, foldl_audit_ttl, persistDelegs_graph, persistDelegs_ttl, persistTtl_graph,
            persistTtl_ttl, Option.map_some]
          refine h.add_grants (secs := secs) (foldl_addAccess secs _).2 ?_ ?_
          · intro t ht
            rw [(foldl_addAccess secs _).1]
            exact List.mem_append_left _ ht
          · intro x hx sec hs
            cases hx
            exact List.mem_append_right _ (List.mem_map.mpr ⟨sec, hs, rfl⟩)

theorem delegate_inv {s : State} (h : TI s.graph s.ttl) (now parent child : Nat) (secs : List Nat) (l : Level)
    (ttl : Option Nat) :
    TI (s.delegate now parent child secs l ttl).1.graph (s.delegate now parent child secs l ttl).1.ttl := by
  have h0 : TI (if parent = root || isNodeKey parent || secs.isEmpty then s else s.cleanup now).graph
      (if parent = root || isNodeKey parent || secs.isEmpty then s else s.cleanup now).ttl := by
    split
    · exact h
    · exact (h.cleanup now).1
  unfold State.delegate
  simp only
  split
  · exact h0
  · exact delegateApply_inv h0 _ _ _ _ _ _

theorem undelegate_inv {s : State} (h : TI s.graph s.ttl) (parent child : Nat) :
    TI (s.undelegate parent child).1.graph (s.undelegate parent child).1.ttl := by
  unfold State.undelegate
  split
  · exact h
  · rename_i d _
    simp only [foldl_audit_graph, foldl_audit_ttl, persistTtl_graph, persistTtl_ttl, persistDelegs_graph,
      persistDelegs_ttl]
    exact foldl_inv _ (fun st : State => TI st.graph st.ttl) d.secrets
      (fun st sec _ hst => (TI.drop hst child sec).1) _ h

theorem addMember_inv {s : State} (h : TI s.graph s.ttl) (a b : Nat) :
    TI (s.addMember a b).1.graph (s.addMember a b).1.ttl := by
  unfold State.addMember
  exact h.append _ rfl

theorem delMember_inv {s : State} (h : TI s.graph s.ttl) (a b : Nat) :
    TI (s.delMember a b).1.graph (s.delMember a b).1.ttl := by
  unfold State.delMember
  exact h.mono (fun e he => (List.mem_filter.mp he).1) (fun _ _ t ht _ _ _ => ht)

theorem list_graph_ttl (s : State) (now req : Nat) (p : Pattern) :
    (s.list now req p).1.graph = (s.cleanup now).graph ∧ (s.list now req p).1.ttl = (s.cleanup now).ttl :=
  ⟨rfl, rfl⟩

/-! ### the added operations -/

theorem addEdge_inv {s : State} (h : TI s.graph s.ttl) (a b : Nat) (k : EKind) :
    TI (s.addEdge a b k).1.graph (s.addEdge a b k).1.ttl := by
  unfold State.addEdge
  exact h.append _ rfl

theorem getVersion_inv {s : State} (h : TI s.graph s.ttl) (now req sec ver : Nat) :
    TI (s.getVersion now req sec ver).1.graph (s.getVersion now req sec ver).1.ttl := by
  unfold State.getVersion
  refine guarded_ti h (fun s' hs' => ?_)
  split
  · exact hs'
  · split <;> exact hs'

theorem versionCount_inv {s : State} (h : TI s.graph s.ttl) (now req sec : Nat) :
    TI (s.versionCount now req sec).1.graph (s.versionCount now req sec).1.ttl := by
  unfold State.versionCount
  refine guarded_ti h (fun s' hs' => ?_)
  split <;> exact hs'

theorem rollback_inv {s : State} (h : TI s.graph s.ttl) (now req sec ver : Nat) :
    TI (s.rollback now req sec ver).1.graph (s.rollback now req sec ver).1.ttl := by
  unfold State.rollback
  refine guarded_ti h (fun s' hs' => ?_)
  split
  · exact hs'
  · split
    · exact hs'
    · exact set_inv hs' _ _ _ _ _

theorem batchGet_inv {s : State} (h : TI s.graph s.ttl) (now req : Nat) (secs : List Nat) :
    TI (s.batchGet now req secs).1.graph (s.batchGet now req secs).1.ttl := by
  unfold State.batchGet
  simp only [audit_graph, audit_ttl]
  exact (h.cleanup now).1

/-- an invariant kept by `set` is kept by the fold of `batch_set_detailed` -/
theorem batchSet_fold_inv (P : State → Prop) (now req : Nat)
    (hset : ∀ (s : State) sec val size, P s → P (s.set now req sec val size).1) :
    ∀ (entries : List (Nat × Nat × Nat)) (acc : State × List Item), P acc.1 →
      P (entries.foldl (fun (acc : State × List Item) en =>
        ((acc.1.set now req en.1 en.2.1 en.2.2).1, acc.2 ++ [respItem (acc.1.set now req en.1 en.2.1 en.2.2).2])) acc).1
  | [], _, h => h
  | en :: rest, acc, h => by
    rw [List.foldl_cons]
    exact batchSet_fold_inv P now req hset rest _ (hset _ _ _ _ h)

theorem batchSet_inv {s : State} (h : TI s.graph s.ttl) (now req : Nat) (entries : List (Nat × Nat × Nat)) :
    TI (s.batchSet now req entries).1.graph (s.batchSet now req entries).1.ttl := by
  unfold State.batchSet
  split
  · exact h
  · simp only [audit_graph, audit_ttl]
    exact batchSet_fold_inv (fun s => TI s.graph s.ttl) now req (fun s sec val size hs => set_inv hs now req sec val size)
      entries (s, []) h

theorem wrap_inv {s : State} (h : TI s.graph s.ttl) (now req sec : Nat) :
    TI (s.wrap now req sec).1.graph (s.wrap now req sec).1.ttl := by
  unfold State.wrap
  refine guarded_ti h (fun s' hs' => ?_)
  have hg := get_inv hs' now req sec
  generalize s'.get now req sec = r at hg
  obtain ⟨s'', resp⟩ := r
  cases resp <;> exact hg

theorem unwrap_inv {s : State} (h : TI s.graph s.ttl) (token : Nat) :
    TI (s.unwrap token).1.graph (s.unwrap token).1.ttl := by
  unfold State.unwrap
  split <;> exact h

theorem dropRecord_inv {s : State} (h : TI s.graph s.ttl) (d : DelegRec) :
    TI (s.dropRecord d).graph (s.dropRecord d).ttl := by
  unfold State.dropRecord
  exact foldl_inv _ (fun st : State => TI st.graph st.ttl) d.secrets
    (fun st sec _ hst => (TI.drop hst d.child sec).1) _ h

theorem undelegateCascade_inv {s : State} (h : TI s.graph s.ttl) (parent child : Nat) :
    TI (s.undelegateCascade parent child).1.graph (s.undelegateCascade parent child).1.ttl := by
  unfold State.undelegateCascade
  simp only [persistTtl_graph, persistTtl_ttl, persistDelegs_graph, persistDelegs_ttl]
  exact foldl_inv State.dropRecord (fun st : State => TI st.graph st.ttl) _
    (fun st d _ hst => dropRecord_inv hst d) _ h

/-! ### cascading revocation -/

theorem length_filter_partition {α : Type} (p : α → Bool) :
    ∀ (l : List α), (l.filter p).length + (l.filter (fun x => !p x)).length = l.length
  | [] => rfl
  | a :: l => by
    have ih := length_filter_partition p l
    cases h : p a <;> simp [h] <;> omega

/-- with enough fuel the breadth-first walk of `revoke_cascading` removes every record below the queued nodes:
    what it revoked were records, and no surviving record hangs off a queued node or off the child of a revoked one -/
theorem cascadeLoop_spec :
    ∀ (fuel : Nat) (q : List Nat) (ds acc : List DelegRec), q.length + ds.length ≤ fuel →
      ∃ new, (cascadeLoop fuel q ds acc).2 = acc ++ new ∧ (∀ d ∈ new, d ∈ ds) ∧
        ∀ d ∈ (cascadeLoop fuel q ds acc).1, d ∈ ds ∧ d.parent ∉ q ∧ ∀ d' ∈ new, d.parent ≠ d'.child := by
  intro fuel
  induction fuel with
  | zero =>
    intro q ds acc hle
    have hq : q = [] := List.eq_nil_of_length_eq_zero (by omega)
    subst hq
    exact ⟨[], by simp [cascadeLoop], fun _ h => (nomatch h),
      fun d hd => ⟨by simpa [cascadeLoop] using hd, by simp, fun _ h => (nomatch h)⟩⟩
  | succ n ih =>
    intro q ds acc hle
    cases q with
    | nil =>
      exact ⟨[], by simp [cascadeLoop], fun _ h => (nomatch h),
        fun d hd => ⟨by simpa [cascadeLoop] using hd, by simp, fun _ h => (nomatch h)⟩⟩
    | cons cur q0 =>
      rw [cascadeLoop]
      have hpart := length_filter_partition (fun d : DelegRec => decide (d.parent = cur)) ds
      have hlen : (q0 ++ (ds.filter (fun d => decide (d.parent = cur))).map (·.child)).length +
          (ds.filter (fun d => decide (d.parent ≠ cur))).length ≤ n := by
        have : (ds.filter (fun d => decide (d.parent ≠ cur))) = ds.filter (fun x => !decide (x.parent = cur)) := by
          congr 1; funext x; simp
        rw [this]
        simp only [List.length_append, List.length_map, List.length_cons] at hle ⊢
        omega
      obtain ⟨new', h1, h2, h3⟩ := ih _ _ (acc ++ ds.filter (fun d => decide (d.parent = cur))) hlen
      refine ⟨ds.filter (fun d => decide (d.parent = cur)) ++ new', by rw [h1, List.append_assoc], ?_, ?_⟩
      · intro d hd
        rcases List.mem_append.mp hd with hd | hd
        · exact (List.mem_filter.mp hd).1
        · exact (List.mem_filter.mp (h2 d hd)).1
      · intro d hd
        obtain ⟨hm, hnq, hnew⟩ := h3 d hd
        have hm' := List.mem_filter.mp hm
        have hne : d.parent ≠ cur := by simpa using hm'.2
        refine ⟨hm'.1, ?_, ?_⟩
        · intro hin
          rcases List.mem_cons.mp hin with h | h
          · exact hne h
          · exact hnq (List.mem_append_left _ h)
        · intro d' hd'
          rcases List.mem_append.mp hd' with hd' | hd'
          · intro heq
            exact hnq (List.mem_append_right _ (List.mem_map.mpr ⟨d', hd', heq.symm⟩))
          · exact hnew d' hd'

/-- what the walk keeps was there -/
theorem cascadeLoop_fst_sub :
    ∀ (fuel : Nat) (q : List Nat) (ds acc : List DelegRec), ∀ d ∈ (cascadeLoop fuel q ds acc).1, d ∈ ds := by
  intro fuel
  induction fuel with
  | zero => intro q ds acc d hd; simpa [cascadeLoop] using hd
  | succ n ih =>
    intro q ds acc d hd
    cases q with
    | nil => simpa [cascadeLoop] using hd
    | cons cur q0 =>
      rw [cascadeLoop] at hd
      exact (List.mem_filter.mp (ih _ _ _ d hd)).1

/-- the walk loses nothing: every record is either kept or reported (and what was already reported stays so) -/
theorem cascadeLoop_partition :
    ∀ (fuel : Nat) (q : List Nat) (ds acc : List DelegRec),
      (∀ d ∈ acc, d ∈ (cascadeLoop fuel q ds acc).2) ∧
      ∀ d ∈ ds, d ∈ (cascadeLoop fuel q ds acc).1 ∨ d ∈ (cascadeLoop fuel q ds acc).2 := by
  intro fuel
  induction fuel with
  | zero => intro q ds acc; exact ⟨fun d hd => by simpa [cascadeLoop] using hd, fun d hd => Or.inl (by simpa [cascadeLoop] using hd)⟩
  | succ n ih =>
    intro q ds acc
    cases q with
    | nil => exact ⟨fun d hd => by simpa [cascadeLoop] using hd, fun d hd => Or.inl (by simpa [cascadeLoop] using hd)⟩
    | cons cur q0 =>
      rw [cascadeLoop]
      obtain ⟨h1, h2⟩ := ih (q0 ++ (ds.filter (fun d => decide (d.parent = cur))).map (·.child))
        (ds.filter (fun d => decide (d.parent ≠ cur))) (acc ++ ds.filter (fun d => decide (d.parent = cur)))
      refine ⟨fun d hd => h1 d (List.mem_append_left _ hd), fun d hd => ?_⟩
      by_cases hp : d.parent = cur
      · exact Or.inr (h1 d (List.mem_append_right _ (List.mem_filter.mpr ⟨hd, by simpa using hp⟩)))
      · exact h2 d (List.mem_filter.mpr ⟨hd, by simpa using hp⟩)

/-- a reported record was reported before or was a record that the walk did not keep -/
theorem cascadeLoop_snd_cases :
    ∀ (fuel : Nat) (q : List Nat) (ds acc : List DelegRec), ∀ d ∈ (cascadeLoop fuel q ds acc).2,
      d ∈ acc ∨ (d ∈ ds ∧ d ∉ (cascadeLoop fuel q ds acc).1) := by
  intro fuel
  induction fuel with
  | zero => intro q ds acc d hd; exact Or.inl (by simpa [cascadeLoop] using hd)
  | succ n ih =>
    intro q ds acc d hd
    cases q with
    | nil => exact Or.inl (by simpa [cascadeLoop] using hd)
    | cons cur q0 =>
      rw [cascadeLoop] at hd ⊢
      rcases ih _ _ _ d hd with h | ⟨h1, h2⟩
      · rcases List.mem_append.mp h with h | h
        · exact Or.inl h
        · have hk := List.mem_filter.mp h
          refine Or.inr ⟨hk.1, fun hin => ?_⟩
          have := (List.mem_filter.mp (cascadeLoop_fst_sub _ _ _ _ d hin)).2
          have hp : d.parent = cur := by simpa using hk.2
          simp [hp] at this
      · exact Or.inr ⟨(List.mem_filter.mp h1).1, h2⟩

/-- the records reachable from the agents `q` in the record graph of `ds`: a record whose delegating parent is one of
    `q`, and every record delegated onward by the child of such a record -/
inductive FromAgents (ds : List DelegRec) (q : List Nat) : DelegRec → Prop
  | first {d : DelegRec} : d ∈ ds → d.parent ∈ q → FromAgents ds q d
  | onward {d d' : DelegRec} : FromAgents ds q d → d' ∈ ds → d'.parent = d.child → FromAgents ds q d'

theorem FromAgents.mono {ds ds' : List DelegRec} {q : List Nat} {d : DelegRec} (hsub : ∀ x ∈ ds, x ∈ ds')
    (h : FromAgents ds q d) : FromAgents ds' q d := by
  induction h with
  | first hd hq => exact .first (hsub _ hd) hq
  | onward _ hd hp ih => exact .onward ih (hsub _ hd) hp

/-- one step of the walk backwards: reachable from the new queue in the remaining records ⇒ reachable from the old
    queue in all records -/
theorem FromAgents.unstep {ds : List DelegRec} {cur : Nat} {q0 : List Nat} {d : DelegRec}
    (h : FromAgents (ds.filter (fun x => decide (x.parent ≠ cur)))
      (q0 ++ (ds.filter (fun x => decide (x.parent = cur))).map (·.child)) d) :
    FromAgents ds (cur :: q0) d := by
  induction h with
  | @first x hx hq =>
    have hx' := (List.mem_filter.mp hx).1
    rcases List.mem_append.mp hq with hq | hq
    · exact .first hx' (List.mem_cons_of_mem _ hq)
    · obtain ⟨k, hk, hkc⟩ := List.mem_map.mp hq
      have hk' := List.mem_filter.mp hk
      exact .onward (.first hk'.1 (by rw [show k.parent = cur by simpa using hk'.2]; exact List.mem_cons_self ..))
        hx' hkc.symm
  | onward _ hx hp ih => exact .onward ih (List.mem_filter.mp hx).1 hp

/-- the walk reports nothing else: a reported record was reported before or is reachable from the queued agents -/
theorem cascadeLoop_only_below :
    ∀ (fuel : Nat) (q : List Nat) (ds acc : List DelegRec), ∀ d ∈ (cascadeLoop fuel q ds acc).2,
      d ∈ acc ∨ FromAgents ds q d := by
  intro fuel
  induction fuel with
  | zero => intro q ds acc d hd; exact Or.inl (by simpa [cascadeLoop] using hd)
  | succ n ih =>
    intro q ds acc d hd
    cases q with
    | nil => exact Or.inl (by simpa [cascadeLoop] using hd)
    | cons cur q0 =>
      rw [cascadeLoop] at hd
      rcases ih _ _ _ d hd with h | h
      · rcases List.mem_append.mp h with h | h
        · exact Or.inl h
        · have hk := List.mem_filter.mp h
          exact Or.inr (.first hk.1 (by rw [show d.parent = cur by simpa using hk.2]; exact List.mem_cons_self ..))
      · exact Or.inr h.unstep

theorem mem_foldl_drop_graph (child : Nat) {e : Edge} :
    ∀ (secs : List Nat) (s : State),
      e ∈ (secs.foldl (fun (st : State) sec =>
        { st with graph := dropAccess st.graph child sec, ttl := ttlRemove st.ttl child sec }) s).graph ↔
      e ∈ s.graph ∧ ∀ sec ∈ secs, ¬ (e.src = entNode child ∧ e.dst = secNode sec ∧ e.kind.isAccess = true)
  | [], s => by simp
  | sec :: rest, s => by
    rw [List.foldl_cons, mem_foldl_drop_graph child rest]
    simp only [mem_dropAccess, List.mem_cons, forall_eq_or_imp]
    constructor
    · rintro ⟨⟨h1, h2⟩, h3⟩; exact ⟨h1, h2, h3⟩
    · rintro ⟨h1, h2, h3⟩; exact ⟨⟨h1, h2⟩, h3⟩

theorem mem_dropRecord_graph {s : State} {d : DelegRec} {e : Edge} :
    e ∈ (s.dropRecord d).graph ↔
      e ∈ s.graph ∧ ∀ sec ∈ d.secrets, ¬ (e.src = entNode d.child ∧ e.dst = secNode sec ∧ e.kind.isAccess = true) := by
  unfold State.dropRecord
  generalize d.secrets = secs
  induction secs generalizing s with
  | nil => simp
  | cons sec rest ih =>
    rw [List.foldl_cons, ih]
    simp only [mem_dropAccess, List.mem_cons, forall_eq_or_imp]
    constructor
    · rintro ⟨⟨h1, h2⟩, h3⟩; exact ⟨h1, h2, h3⟩
    · rintro ⟨h1, h2, h3⟩; exact ⟨⟨h1, h2⟩, h3⟩

theorem mem_foldl_dropRecord_graph {e : Edge} :
    ∀ (ds : List DelegRec) (s : State), e ∈ (ds.foldl State.dropRecord s).graph ↔
      e ∈ s.graph ∧ ∀ d ∈ ds, ∀ sec ∈ d.secrets,
        ¬ (e.src = entNode d.child ∧ e.dst = secNode sec ∧ e.kind.isAccess = true)
  | [], s => by simp
  | d :: rest, s => by
    rw [List.foldl_cons, mem_foldl_dropRecord_graph rest, mem_dropRecord_graph]
    simp only [List.mem_cons, forall_eq_or_imp]
    constructor
    · rintro ⟨⟨h1, h2⟩, h3⟩; exact ⟨h1, h2, h3⟩
    · rintro ⟨h1, h2, h3⟩; exact ⟨⟨h1, h2⟩, h3⟩

theorem dropRecord_delegs (d : DelegRec) (s : State) : (s.dropRecord d).delegs = s.delegs := by
  unfold State.dropRecord
  generalize d.secrets = secs
  induction secs generalizing s with
  | nil => rfl
  | cons sec rest ih => rw [List.foldl_cons, ih]

theorem foldl_dropRecord_delegs : ∀ (ds : List DelegRec) (s : State), (ds.foldl State.dropRecord s).delegs = s.delegs
  | [], _ => rfl
  | d :: rest, s => by rw [List.foldl_cons, foldl_dropRecord_delegs rest, dropRecord_delegs]

/-! ### batch calls: every entry is decided on the same graph (the one left by `cleanup_expired_grants` at the call's instant) -/

/-- same access-relevant part: graph, tracker, policy -/
def Same (a b : State) : Prop := a.graph = b.graph ∧ a.ttl = b.ttl ∧ a.pol = b.pol

theorem Same.refl (a : State) : Same a a := ⟨rfl, rfl, rfl⟩
theorem Same.trans {a b c : State} (h1 : Same a b) (h2 : Same b c) : Same a c :=
  ⟨h1.1.trans h2.1, h1.2.1.trans h2.2.1, h1.2.2.trans h2.2.2⟩

theorem Same.cleanup {a b : State} (h : Same a b) (now : Nat) : Same (a.cleanup now) (b.cleanup now) := by
  refine ⟨?_, ?_, ?_⟩
  · rw [cleanup_graph, cleanup_graph, h.1, h.2.1]
  · rw [cleanup_ttl, cleanup_ttl, h.2.1]
  · rw [cleanup_pol, cleanup_pol, h.2.2]

theorem Justified.same {a b : State} {req sec : Nat} {need : Level} {P : Edge → Prop}
    (h : Justified a req sec need P) (hs : Same a b) : Justified b req sec need P :=
  h.mono hs.2.2 (fun _ he => hs.1 ▸ he)

/-- `set` by a non-root requester leaves the access-relevant part as it was or as `cleanup` at that instant left it -/
theorem set_same {s : State} {now req sec val size : Nat} (hr : req ≠ root) :
    Same (s.set now req sec val size).1 s ∨ Same (s.set now req sec val size).1 (s.cleanup now) := by
  unfold State.set
  split
  · exact Or.inl (Same.refl _)
  · split
    · have hfst : (s.checkAccess now req sec .write).1 = s ∨ (s.checkAccess now req sec .write).1 = s.cleanup now := by
        rw [checkAccess_fst, if_neg hr]; split
        · exact Or.inl rfl
        · exact Or.inr rfl
      rcases guarded_cases s now req sec .write _ with ⟨e, h⟩ | ⟨_, h⟩
      · rw [h]
        rcases hfst with h1 | h1
        · left; show Same (s.checkAccess now req sec .write).1 s; rw [h1]; exact Same.refl _
        · right; show Same (s.checkAccess now req sec .write).1 (s.cleanup now); rw [h1]; exact Same.refl _
      · rw [h]
        rcases hfst with h1 | h1
        · left; rw [h1]; exact ⟨rfl, rfl, rfl⟩
        · right; rw [h1]; exact ⟨rfl, rfl, rfl⟩
    · exact Or.inl (Same.refl _)

theorem set_cleanup_same {s : State} {now req sec val size : Nat} (hr : req ≠ root) :
    Same ((s.set now req sec val size).1.cleanup now) (s.cleanup now) := by
  rcases set_same (s := s) (now := now) (sec := sec) (val := val) (size := size) hr with h | h
  · exact h.cleanup now
  · have := h.cleanup now
    rwa [cleanup_cleanup] at this

/-- the per-entry outcomes of `batch_set_detailed`, entry by entry -/
def batchItems (now req : Nat) : State → List (Nat × Nat × Nat) → List Item
  | _, [] => []
  | s, en :: rest =>
    respItem (s.set now req en.1 en.2.1 en.2.2).2 :: batchItems now req (s.set now req en.1 en.2.1 en.2.2).1 rest

theorem batchSet_fold_items (now req : Nat) :
    ∀ (entries : List (Nat × Nat × Nat)) (s : State) (pre : List Item),
      (entries.foldl (fun (acc : State × List Item) en =>
        ((acc.1.set now req en.1 en.2.1 en.2.2).1, acc.2 ++ [respItem (acc.1.set now req en.1 en.2.1 en.2.2).2])) (s, pre)).2 =
        pre ++ batchItems now req s entries
  | [], _, pre => by simp [batchItems]
  | en :: rest, s, pre => by
    rw [List.foldl_cons, batchSet_fold_items now req rest, batchItems]
    simp

theorem respItem_done {r : Resp} (h : respItem r = .done) : r.isOk = true := by
  cases r <;> first | rfl | cases h

theorem batchItems_justified {s0 : State} {now req : Nat} (hr : req ≠ root) :
    ∀ (entries : List (Nat × Nat × Nat)) (s : State), Same (s.cleanup now) (s0.cleanup now) →
      ∀ p ∈ entries.zip (batchItems now req s entries), p.2 = .done →
        Justified (s0.cleanup now) req p.1.1 .write (fun _ => True)
  | [], _, _, p, hp, _ => by simp [batchItems] at hp
  | en :: rest, s, hs, p, hp, hd => by
    rw [batchItems, List.zip_cons_cons] at hp
    rcases List.mem_cons.mp hp with rfl | hp
    · exact (set_ok (respItem_done hd) hr).same hs
    · exact batchItems_justified hr rest _ ((set_cleanup_same hr).trans hs) p hp hd

/-- every entry of a `batch_set` by a secret-node key is an error -/
theorem batchItems_key {now req : Nat} (hk : isNodeKey req = true) :
    ∀ (entries : List (Nat × Nat × Nat)) (s : State), ∀ i ∈ batchItems now req s entries, ∃ e, i = .err e
  | [], _, i, hi => by simp [batchItems] at hi
  | en :: rest, s, i, hi => by
    rw [batchItems] at hi
    obtain ⟨e, he⟩ := set_key s now req en.1 en.2.1 en.2.2 hk
    rw [he] at hi
    rcases List.mem_cons.mp hi with rfl | hi
    · exact ⟨e, rfl⟩
    · exact batchItems_key hk rest s i hi

theorem mem_zip_map {α β : Type} (f : α → β) : ∀ (l : List α) (p : α × β), p ∈ l.zip (l.map f) → p.2 = f p.1
  | [], _, h => by simp at h
  | a :: l, p, h => by
    rw [List.map_cons, List.zip_cons_cons] at h
    rcases List.mem_cons.mp h with rfl | h
    · rfl
    · exact mem_zip_map f l p h

/-! ### the persisted copy of the tracker covers the tracker (so a re-opened vault still knows every expiry) -/

/-- every tracker entry is also in the persisted copy (`_vault_ttl_grants`) -/
def SubP (s : State) : Prop := ∀ t ∈ s.ttl, t ∈ s.pttl

@[simp] theorem audit_pttl (s : State) (req sec : Nat) (op : String) (extra : List Plain) :
    (s.audit req sec op extra).pttl = s.pttl := rfl
@[simp] theorem putSecret_pttl (s : State) (m : SecretMeta) : (s.putSecret m).pttl = s.pttl := rfl
@[simp] theorem addAccess_pttl (s : State) (ent sec : Nat) (l : Level) (x : Option Nat) :
    (s.addAccess ent sec l x).pttl = s.pttl := rfl
@[simp] theorem persistDelegs_pttl (s : State) : s.persistDelegs.pttl = s.pttl := rfl
@[simp] theorem persistTtl_pttl (s : State) : s.persistTtl.pttl = s.ttl := by
  unfold State.persistTtl; split <;> rfl

theorem SubP.persist (s : State) : SubP s.persistTtl := by
  intro t ht
  rw [persistTtl_pttl]
  rwa [persistTtl_ttl] at ht

/-- same persisted copy, smaller (or equal) tracker -/
theorem SubP.shrink {s s' : State} (h : SubP s) (ht : ∀ t ∈ s'.ttl, t ∈ s.ttl) (hp : s'.pttl = s.pttl) : SubP s' :=
  fun t h' => hp ▸ h t (ht t h')

theorem cleanup_subp {s : State} (h : SubP s) (now : Nat) : SubP (s.cleanup now) := by
  unfold State.cleanup
  simp only
  split
  · exact SubP.persist _
  · exact h.shrink (fun t ht => (List.mem_filter.mp ht).1) rfl

theorem guarded_subp {s : State} (h : SubP s) {now req sec : Nat} {need : Level} {k : State → State × Resp}
    (hk : ∀ s' : State, SubP s' → SubP (k s').1) : SubP (s.guarded now req sec need k).1 :=
  guarded_inv SubP h (cleanup_subp h now) hk

theorem set_subp {s : State} (h : SubP s) (now req sec val size : Nat) : SubP (s.set now req sec val size).1 := by
  unfold State.set
  split
  · exact h
  · split
    · exact guarded_subp h (fun s' hs' => hs'.shrink (fun _ ht => ht) rfl)
    · split
      · exact h
      · exact h.shrink (fun _ ht => ht) rfl

theorem get_subp {s : State} (h : SubP s) (now req sec : Nat) : SubP (s.get now req sec).1 := by
  unfold State.get
  refine guarded_subp (cleanup_subp h now) (fun s' hs' => ?_)
  split
  · exact hs'
  · exact hs'.shrink (fun _ ht => ht) rfl

theorem list_subp {s : State} (h : SubP s) (now req : Nat) (p : Pattern) : SubP (s.list now req p).1 := by
  unfold State.list
  exact (cleanup_subp h now).shrink (fun _ ht => ht) rfl

theorem rotate_subp {s : State} (h : SubP s) (now req sec val size : Nat) :
    SubP (s.rotate now req sec val size).1 := by
  unfold State.rotate
  refine guarded_subp h (fun s' hs' => ?_)
  split
  · exact hs'
  · split
    · exact hs'
    · exact hs'.shrink (fun _ ht => ht) rfl

theorem delete_subp {s : State} (h : SubP s) (now req sec : Nat) : SubP (s.delete now req sec).1 := by
  unfold State.delete
  refine guarded_subp h (fun s' hs' => ?_)
  split
  · exact hs'
  · intro t ht
    simp only [audit_ttl, audit_pttl, persistTtl_ttl, persistTtl_pttl] at ht ⊢
    exact ht

theorem grantCore_subp {s : State} (h : SubP s) (now req ent sec : Nat) (l : Level) (x : Option Nat) :
    SubP (s.grantCore now req ent sec l x).1 := by
  unfold State.grantCore
  refine guarded_subp h (fun s' hs' => ?_)
  split
  · exact hs'
  · exact hs'.shrink (fun _ ht => ht) rfl

theorem grantTtl_subp {s : State} (h : SubP s) (now req ent sec : Nat) (l : Level) (ttl : Nat) :
    SubP (s.grantTtl now req ent sec l ttl).1 := by
  have hg := grantCore_subp h now req ent sec l (some (now + ttl))
  unfold State.grantTtl
  split
  · rename_i s' e heq; rw [heq] at hg; exact hg
  · exact SubP.persist _

theorem revoke_subp {s : State} (h : SubP s) (now req ent sec : Nat) : SubP (s.revoke now req ent sec).1 := by
  unfold State.revoke
  refine guarded_subp h (fun s' hs' => ?_)
  simp only
  split
  · exact (SubP.persist _).shrink (fun _ ht => ht) rfl
  · exact hs'.shrink (fun _ ht => ht) rfl

theorem foldl_addAccess_pttl {child : Nat} {eff : Level} {exp : Option Nat} :
    ∀ (secs : List Nat) (s0 : State), (secs.foldl (fun st sec => st.addAccess child sec eff exp) s0).pttl = s0.pttl
  | [], _ => rfl
  | sec :: rest, s0 => by rw [List.foldl_cons, foldl_addAccess_pttl rest]; rfl

theorem foldl_audit_pttl (parent child : Nat) (op : String) :
    ∀ (l : List Nat) (s0 : State), (l.foldl (fun st sec => st.audit parent sec op [.ident child]) s0).pttl = s0.pttl
  | [], _ => rfl
  | x :: l, s0 => by rw [List.foldl_cons, foldl_audit_pttl parent child op l]; rfl

theorem delegateApply_subp {s : State} (h : SubP s) (now parent child : Nat) (secs : List Nat) (eff : Level)
    (ttl : Option Nat) : SubP (s.delegateApply now parent child secs eff ttl).1 := by
  cases ttl with
  | none =>
    unfold State.delegateApply
    split
    · exact h
    · split
      · exact h
      · simp only
        split
        · exact h
        · intro t ht
          simp only [foldl_audit_ttl, foldl_audit_pttl, persistDelegs_ttl, persistDelegs_pttl,
            (foldl_addAccess secs _).1, foldl_addAccess_pttl] at ht ⊢
          exact h t ht
  | some tt =>
    unfold State.delegateApply
    split
    · exact h
    · split
      · exact h
      · simp only
        split
        · exact h
        · intro t ht
          simp only [foldl_audit_ttl, foldl_audit_pttl, persistDelegs_ttl, persistDelegs_pttl, persistTtl_ttl,
            persistTtl_pttl] at ht ⊢
          exact ht

theorem delegate_subp {s : State} (h : SubP s) (now parent child : Nat) (secs : List Nat) (l : Level)
    (ttl : Option Nat) : SubP (s.delegate now parent child secs l ttl).1 := by
  have h0 : SubP (if parent = root || isNodeKey parent || secs.isEmpty then s else s.cleanup now) := by
    split
    · exact h
    · exact cleanup_subp h now
  unfold State.delegate
  simp only
  split
  · exact h0
  · exact delegateApply_subp h0 _ _ _ _ _ _

theorem undelegate_subp {s : State} (h : SubP s) (parent child : Nat) : SubP (s.undelegate parent child).1 := by
  unfold State.undelegate
  split
  · exact h
  · intro t ht
    simp only [foldl_audit_ttl, foldl_audit_pttl, persistTtl_ttl, persistTtl_pttl] at ht ⊢
    exact ht

theorem undelegateCascade_subp (s : State) (parent child : Nat) : SubP (s.undelegateCascade parent child).1 := by
  unfold State.undelegateCascade
  exact SubP.persist _

theorem wrap_subp {s : State} (h : SubP s) (now req sec : Nat) : SubP (s.wrap now req sec).1 := by
  unfold State.wrap
  refine guarded_subp h (fun s' hs' => ?_)
  have hg := get_subp hs' now req sec
  generalize s'.get now req sec = r at hg
  obtain ⟨s'', resp⟩ := r
  cases resp <;> first | exact hg | exact hg.shrink (fun _ ht => ht) rfl

/-- re-opening: the tracker is replaced by its persisted copy (a superset), then expired grants are dropped -/
theorem reopen_inv {s : State} (h : TI s.graph s.ttl) (hp : SubP s) (now : Nat) :
    TI (s.reopen now).1.graph (s.reopen now).1.ttl ∧ SubP (s.reopen now).1 ∧
      ∀ e ∈ (s.reopen now).1.graph, e ∈ s.graph ∧ LiveAt now e := by
  unfold State.reopen
  have h1 : TI ({ s with ttl := s.pttl, delegs := s.pdelegs } : State).graph
      ({ s with ttl := s.pttl, delegs := s.pdelegs } : State).ttl :=
    h.mono (fun _ he => he) (fun _ _ t ht _ _ _ => hp t ht)
  have h2 : SubP ({ s with ttl := s.pttl, delegs := s.pdelegs } : State) := fun _ ht => ht
  exact ⟨(h1.cleanup now).1, cleanup_subp h2 now,
    fun e he => ⟨cleanup_graph_sub ({ s with ttl := s.pttl, delegs := s.pdelegs } : State) now e he,
                 (h1.cleanup now).2 e he⟩⟩

/-- the history invariant: every edge issued with an expiry keeps its tracker entry, and every tracker entry is
    also in the persisted copy -/
def HI (s : State) : Prop := TI s.graph s.ttl ∧ SubP s

theorem step_inv {s : State} (h : HI s) (t : Nat) (op : Op) : HI (step s t op).1 := by
  obtain ⟨h, hp⟩ := h
  cases op with
  | set req sec val size => exact ⟨set_inv h t req sec val size, set_subp hp t req sec val size⟩
  | get req sec => exact ⟨get_inv h t req sec, get_subp hp t req sec⟩
  | list req p =>
    refine ⟨?_, list_subp hp t req p⟩
    simp only [step]; rw [(list_graph_ttl s t req p).1, (list_graph_ttl s t req p).2]; exact (h.cleanup t).1
  | rotate req sec val size => exact ⟨rotate_inv h t req sec val size, rotate_subp hp t req sec val size⟩
  | delete req sec => exact ⟨delete_inv h t req sec, delete_subp hp t req sec⟩
  | grant req ent sec l => exact ⟨grant_inv h t req ent sec l, grantCore_subp hp t req ent sec l none⟩
  | grantTtl req ent sec l ttl => exact ⟨grantTtl_inv h t req ent sec l ttl, grantTtl_subp hp t req ent sec l ttl⟩
  | revoke req ent sec => exact ⟨revoke_inv h t req ent sec, revoke_subp hp t req ent sec⟩
  | delegate p c secs l ttl => exact ⟨delegate_inv h t p c secs l ttl, delegate_subp hp t p c secs l ttl⟩
  | undelegate p c => exact ⟨undelegate_inv h p c, undelegate_subp hp p c⟩
  | addMember a b => exact ⟨addMember_inv h a b, hp.shrink (fun _ ht => ht) rfl⟩
  | delMember a b => exact ⟨delMember_inv h a b, hp.shrink (fun _ ht => ht) rfl⟩
  | addEdge a b k => exact ⟨addEdge_inv h a b k, hp.shrink (fun _ ht => ht) rfl⟩
  | getVersion req sec ver =>
    refine ⟨getVersion_inv h t req sec ver, ?_⟩
    simp only [step]; unfold State.getVersion
    refine guarded_subp hp (fun s' hs' => ?_)
    split
    · exact hs'
    · split <;> exact hs'
  | versions req sec =>
    refine ⟨versionCount_inv h t req sec, ?_⟩
    simp only [step]; unfold State.versionCount
    refine guarded_subp hp (fun s' hs' => ?_)
    split <;> exact hs'
  | rollback req sec ver =>
    refine ⟨rollback_inv h t req sec ver, ?_⟩
    simp only [step]; unfold State.rollback
    refine guarded_subp hp (fun s' hs' => ?_)
    split
    · exact hs'
    · split
      · exact hs'
      · exact set_subp hs' _ _ _ _ _
  | batchGet req secs =>
    refine ⟨batchGet_inv h t req secs, ?_⟩
    simp only [step]; unfold State.batchGet
    exact (cleanup_subp hp t).shrink (fun _ ht => ht) rfl
  | batchSet req entries =>
    refine ⟨batchSet_inv h t req entries, ?_⟩
    simp only [step]; unfold State.batchSet
    split
    · exact hp
    · exact (batchSet_fold_inv SubP t req (fun s sec val size hs => set_subp hs t req sec val size)
        entries (s, []) hp).shrink (fun _ ht => ht) rfl
  | wrap req sec => exact ⟨wrap_inv h t req sec, wrap_subp hp t req sec⟩
  | unwrap token =>
    refine ⟨unwrap_inv h token, ?_⟩
    simp only [step]; unfold State.unwrap
    split
    · exact hp
    · exact hp.shrink (fun _ ht => ht) rfl
  | undelegateCascade p c => exact ⟨undelegateCascade_inv h p c, undelegateCascade_subp s p c⟩
  | reopen => exact ⟨(reopen_inv h hp t).1, (reopen_inv h hp t).2.1⟩
  | probe req sec need me =>
    simp only [step]; unfold State.probe
    exact ⟨guarded_ti h (fun s' hs' => by split <;> exact hs'), guarded_subp hp (fun s' hs' => by split <;> exact hs')⟩

theorem run_inv : ∀ (h : List (Nat × Op)) (s : State), HI s → HI (run s h)
  | [], _, hs => hs
  | (t, op) :: rest, s, hs => by
    rw [run]
    exact run_inv rest _ (step_inv hs t op)

theorem init_inv (pol : Policy) (a b c : Nat) : HI (init pol a b c) :=
  ⟨fun _ he => (nomatch he), fun _ ht => (nomatch ht)⟩

end Neumann.Vault
