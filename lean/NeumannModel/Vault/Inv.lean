import NeumannModel.Vault.Lemmas
/-
  C14 — history invariant tying the GHOST expiry of every grant edge to the TTL tracker
  (the code stores expiry only in the tracker, keyed by (entity, secret name)), and its
  consequence: right after `cleanup_expired_grants` every edge left in the graph is unexpired.
-/
namespace Neumann.Vault

/-- every edge issued with an expiry `x` is a VAULT_ACCESS edge entity→secret whose (entity, secret, x)
    entry is still in the TTL tracker -/
def TI (g : Graph) (ttl : List TtlEntry) : Prop :=
  ∀ e ∈ g, ∀ x, e.expiry = some x →
    ∃ ent sec, e.src = entNode ent ∧ e.dst = secNode sec ∧ e.kind.isAccess = true ∧ (TtlEntry.mk ent sec x) ∈ ttl

theorem TI.mono {g g' : Graph} {ttl ttl' : List TtlEntry} (h : TI g ttl)
    (hg : ∀ e ∈ g', e ∈ g)
    (ht : ∀ e ∈ g', ∀ t ∈ ttl, e.src = entNode t.ent → e.dst = secNode t.sec → e.kind.isAccess = true → t ∈ ttl') :
    TI g' ttl' := by
  intro e he x hx
  obtain ⟨ent, sec, h1, h2, h3, h4⟩ := h e (hg e he) x hx
  exact ⟨ent, sec, h1, h2, h3, ht e he _ h4 h1 h2 h3⟩

theorem TI.append {g : Graph} {ttl : List TtlEntry} (h : TI g ttl) (e : Edge) (he : e.expiry = none) :
    TI (g ++ [e]) ttl := by
  intro e' he' x hx
  rcases List.mem_append.mp he' with h1 | h1
  · exact h e' h1 x hx
  · rw [List.mem_singleton] at h1; subst h1; rw [he] at hx; cases hx

theorem TI.ttl_append {g : Graph} {ttl : List TtlEntry} (h : TI g ttl) (more : List TtlEntry) :
    TI g (ttl ++ more) :=
  h.mono (fun _ h => h) (fun _ _ _ ht _ _ _ => List.mem_append_left _ ht)

theorem mem_ttlRemove {l : List TtlEntry} {ent sec : Nat} {t : TtlEntry} :
    t ∈ ttlRemove l ent sec ↔ t ∈ l ∧ ¬ (t.ent = ent ∧ t.sec = sec) := by
  unfold ttlRemove
  simp only [List.mem_filter, Bool.not_eq_eq_eq_not, Bool.not_true, Bool.and_eq_false_imp, decide_eq_true_eq,
    decide_eq_false_iff_not, not_and]

/-- dropping the edges entity→secret together with (or without) the tracker entries of that pair -/
theorem TI.drop {g : Graph} {ttl : List TtlEntry} (h : TI g ttl) (ent sec : Nat) :
    TI (dropAccess g ent sec) (ttlRemove ttl ent sec) ∧ TI (dropAccess g ent sec) ttl := by
  constructor
  · refine h.mono (fun e he => (mem_dropAccess.mp he).1) ?_
    intro e he t ht h1 h2 h3
    refine mem_ttlRemove.mpr ⟨ht, ?_⟩
    rintro ⟨rfl, rfl⟩
    exact (mem_dropAccess.mp he).2 ⟨h1, h2, h3⟩
  · exact h.mono (fun e he => (mem_dropAccess.mp he).1) (fun _ _ t ht _ _ _ => ht)

theorem mem_foldl_dropAccess {e : Edge} :
    ∀ (L : List TtlEntry) (g : Graph),
      e ∈ L.foldl (fun g t => dropAccess g t.ent t.sec) g ↔
        e ∈ g ∧ ∀ t ∈ L, ¬ (e.src = entNode t.ent ∧ e.dst = secNode t.sec ∧ e.kind.isAccess = true)
  | [], g => by simp
  | t :: L, g => by
    rw [List.foldl_cons, mem_foldl_dropAccess L, mem_dropAccess]
    constructor
    · rintro ⟨⟨h1, h2⟩, h3⟩
      refine ⟨h1, ?_⟩
      intro t' ht'
      rcases List.mem_cons.mp ht' with rfl | ht'
      · exact h2
      · exact h3 t' ht'
    · rintro ⟨h1, h2⟩
      exact ⟨⟨h1, h2 t (List.mem_cons_self ..)⟩, fun t' ht' => h2 t' (List.mem_cons_of_mem _ ht')⟩

theorem cleanup_graph (s : State) (now : Nat) :
    (s.cleanup now).graph =
      (s.ttl.filter (fun t => t.expires ≤ now)).foldl (fun g t => dropAccess g t.ent t.sec) s.graph := by
  unfold State.cleanup
  simp only
  split <;> simp

theorem cleanup_ttl (s : State) (now : Nat) :
    (s.cleanup now).ttl = s.ttl.filter (fun t => !(decide (t.expires ≤ now))) := by
  unfold State.cleanup
  simp only
  split <;> simp

@[simp] theorem cleanup_pol (s : State) (now : Nat) : (s.cleanup now).pol = s.pol := by
  unfold State.cleanup
  simp only
  split <;> simp

/-- `cleanup` only removes edges -/
theorem cleanup_graph_sub (s : State) (now : Nat) : ∀ e ∈ (s.cleanup now).graph, e ∈ s.graph := by
  intro e he
  rw [cleanup_graph] at he
  exact ((mem_foldl_dropAccess _ _).mp he).1

/-- `cleanup_expired_grants` twice at the same instant = once (why the repeated calls inside one API call —
    `get`: top + `check_access`; `list`: top + every `has_access`; `delegate`: every `get_permission` — are
    modelled by a single `cleanup now`) -/
theorem cleanup_cleanup (s : State) (now : Nat) : (s.cleanup now).cleanup now = s.cleanup now := by
  have hexp : (s.cleanup now).ttl.filter (fun t => decide (t.expires ≤ now)) = [] := by
    rw [cleanup_ttl, List.filter_filter]
    simp
  have hkeep : (s.cleanup now).ttl.filter (fun t => !(decide (t.expires ≤ now))) = (s.cleanup now).ttl := by
    rw [cleanup_ttl, List.filter_filter]
    simp
  generalize s.cleanup now = c at hexp hkeep ⊢
  unfold State.cleanup
  simp only [hexp, hkeep, List.foldl_nil, Nat.lt_irrefl, if_false]

theorem MPath.mono {g g' : Graph} (hsub : ∀ e ∈ g, e ∈ g') {a b k : Nat} (h : MPath g a b k) : MPath g' a b k := by
  induction h with
  | refl => exact .refl
  | step e _ he hk hs ih => exact .step e ih (hsub e he) hk hs

/-- a justification found in a sub-graph (same policy) is a justification in the larger graph -/
theorem Justified.mono {s s' : State} {req sec : Nat} {need : Level} {P : Edge → Prop}
    (h : Justified s req sec need P) (hpol : s.pol = s'.pol) (hsub : ∀ e ∈ s.graph, e ∈ s'.graph) :
    Justified s' req sec need P := by
  obtain ⟨l, e, ⟨k, grp, hpath, hk, he, hsrc, hdst, hacc, hlvl⟩, hl, hp⟩ := h
  exact ⟨l, e, ⟨k, grp, hpath.mono hsub, hpol ▸ hk, hsub e he, hsrc, hdst, hacc, hpol ▸ hlvl⟩, hl, hp⟩

theorem Justified.of_cleanup {s : State} {now req sec : Nat} {need : Level} {P : Edge → Prop}
    (h : Justified (s.cleanup now) req sec need P) : Justified s req sec need P :=
  h.mono (cleanup_pol s now) (cleanup_graph_sub s now)

/-- after `cleanup_expired_grants` at `now`: the invariant still holds and every remaining edge is unexpired -/
theorem TI.cleanup {s : State} (h : TI s.graph s.ttl) (now : Nat) :
    TI (s.cleanup now).graph (s.cleanup now).ttl ∧ ∀ e ∈ (s.cleanup now).graph, LiveAt now e := by
  rw [cleanup_graph, cleanup_ttl]
  have key : ∀ e ∈ (s.ttl.filter (fun t => t.expires ≤ now)).foldl (fun g t => dropAccess g t.ent t.sec) s.graph,
      ∀ x, e.expiry = some x → now < x ∧
        ∃ ent sec, e.src = entNode ent ∧ e.dst = secNode sec ∧ e.kind.isAccess = true ∧ (TtlEntry.mk ent sec x) ∈ s.ttl := by
    intro e he x hx
    obtain ⟨heg, hno⟩ := (mem_foldl_dropAccess _ _).mp he
    obtain ⟨ent, sec, h1, h2, h3, h4⟩ := h e heg x hx
    refine ⟨?_, ent, sec, h1, h2, h3, h4⟩
    by_cases hle : x ≤ now
    · exact absurd ⟨h1, h2, h3⟩ (hno ⟨ent, sec, x⟩ (by simp [h4, hle]))
    · omega
  constructor
  · intro e he x hx
    obtain ⟨hlt, ent, sec, h1, h2, h3, h4⟩ := key e he x hx
    refine ⟨ent, sec, h1, h2, h3, ?_⟩
    simp only [List.mem_filter, Bool.not_eq_eq_eq_not, Bool.not_true, decide_eq_false_iff_not]
    exact ⟨h4, show ¬ x ≤ now by omega⟩
  · intro e he x hx
    exact (key e he x hx).1

/-! ### every operation preserves the invariant -/

theorem addAccess_graph (s : State) (ent sec : Nat) (l : Level) (x : Option Nat) :
    (s.addAccess ent sec l x).graph = s.graph ++ [accessEdge s.nextId ent sec l x] := rfl
@[simp] theorem addAccess_ttl (s : State) (ent sec : Nat) (l : Level) (x : Option Nat) :
    (s.addAccess ent sec l x).ttl = s.ttl := rfl

theorem guarded_ti {s : State} (h : TI s.graph s.ttl) {now req sec : Nat} {need : Level} {k : State → State × Resp}
    (hk : ∀ s' : State, TI s'.graph s'.ttl → TI (k s').1.graph (k s').1.ttl) :
    TI (s.guarded now req sec need k).1.graph (s.guarded now req sec need k).1.ttl :=
  guarded_inv (fun s => TI s.graph s.ttl) h (h.cleanup now).1 hk

theorem set_inv {s : State} (h : TI s.graph s.ttl) (now req sec val size : Nat) :
    TI (s.set now req sec val size).1.graph (s.set now req sec val size).1.ttl := by
  unfold State.set
  split
  · exact h
  · split
    · exact guarded_ti h (fun s' hs' => by simpa using hs')
    · split
      · exact h
      · simp only [audit_graph, audit_ttl, addAccess_graph, addAccess_ttl, putSecret_graph, putSecret_ttl]
        exact h.append _ rfl

theorem get_inv {s : State} (h : TI s.graph s.ttl) (now req sec : Nat) :
    TI (s.get now req sec).1.graph (s.get now req sec).1.ttl := by
  unfold State.get
  refine guarded_ti (h.cleanup now).1 (fun s' hs' => ?_)
  split
  · exact hs'
  · exact hs'

theorem rotate_inv {s : State} (h : TI s.graph s.ttl) (now req sec val size : Nat) :
    TI (s.rotate now req sec val size).1.graph (s.rotate now req sec val size).1.ttl := by
  unfold State.rotate
  refine guarded_ti h (fun s' hs' => ?_)
  split
  · exact hs'
  · split
    · exact hs'
    · simpa using hs'

theorem mem_foldl_ttlRemove_of_ne {sec : Nat} {t : TtlEntry} (hne : t.sec ≠ sec) :
    ∀ (es : List Edge) (l : List TtlEntry), t ∈ l →
      t ∈ es.foldl (fun l e => if (e.kind.isAccess && decide (e.src % 2 = 0)) = true then ttlRemove l (e.src / 2) sec else l) l
  | [], _, h => h
  | e :: es, l, h => by
    rw [List.foldl_cons]
    apply mem_foldl_ttlRemove_of_ne hne es
    split
    · exact mem_ttlRemove.mpr ⟨h, fun hh => hne hh.2⟩
    · exact h

theorem delete_inv {s : State} (h : TI s.graph s.ttl) (now req sec : Nat) :
    TI (s.delete now req sec).1.graph (s.delete now req sec).1.ttl := by
  unfold State.delete
  refine guarded_ti h (fun s' hs' => ?_)
  split
  · exact hs'
  · simp only [audit_graph, audit_ttl, persistTtl_graph, persistTtl_ttl]
    refine hs'.mono (fun e he => (List.mem_filter.mp he).1) ?_
    intro e he t ht _ h2 _
    apply mem_foldl_ttlRemove_of_ne _ _ _ ht
    intro hsec
    have hd := (List.mem_filter.mp he).2
    simp only [decide_eq_true_eq] at hd
    exact hd (by rw [h2, hsec])

/-- `grant_with_permission`: either nothing but (possibly) a cleanup happened and the answer is an error, or one
    edge with the requested expiry was appended to a state satisfying the invariant -/
theorem grantCore_cases {s : State} (h : TI s.graph s.ttl) (now req ent sec : Nat) (l : Level) (x : Option Nat) :
    let r := s.grantCore now req ent sec l x
    ((∃ e, r.2 = .err e) ∧ TI r.1.graph r.1.ttl) ∨
    (r.2 = .ok ∧ ∃ s0 : State, TI s0.graph s0.ttl ∧ r.1.graph = s0.graph ++ [accessEdge s0.nextId ent sec l x] ∧
      r.1.ttl = s0.ttl) := by
  intro r
  have hfst : TI (s.checkAccess now req sec .admin).1.graph (s.checkAccess now req sec .admin).1.ttl := by
    rw [checkAccess_fst]; split
    · exact h
    · exact (h.cleanup now).1
  show (_ ∧ _) ∨ _
  rcases guarded_cases s now req sec .admin (fun s : State =>
      if !s.exists sec then (s, .err .notFound)
      else ((s.addAccess ent sec l x).audit req sec "grant" [.ident ent], .ok)) with ⟨e, he⟩ | ⟨_, he⟩
  · left
    have : r = ((s.checkAccess now req sec .admin).1, .err e) := he
    rw [this]; exact ⟨⟨e, rfl⟩, hfst⟩
  · have hr : r = (fun s : State =>
        if !s.exists sec then (s, Resp.err .notFound)
        else ((s.addAccess ent sec l x).audit req sec "grant" [.ident ent], Resp.ok))
        (s.checkAccess now req sec .admin).1 := he
    simp only at hr
    by_cases hex : (!(s.checkAccess now req sec .admin).1.exists sec) = true
    · left
      rw [if_pos hex] at hr
      rw [hr]; exact ⟨⟨_, rfl⟩, hfst⟩
    · right
      rw [if_neg hex] at hr
      rw [hr]
      exact ⟨rfl, _, hfst, rfl, rfl⟩

theorem grant_inv {s : State} (h : TI s.graph s.ttl) (now req ent sec : Nat) (l : Level) :
    TI (s.grant now req ent sec l).1.graph (s.grant now req ent sec l).1.ttl := by
  unfold State.grant
  rcases grantCore_cases h now req ent sec l none with ⟨_, h1⟩ | ⟨_, s0, h0, hg, ht⟩
  · exact h1
  · rw [hg, ht]; exact h0.append _ rfl

theorem grantTtl_inv {s : State} (h : TI s.graph s.ttl) (now req ent sec : Nat) (l : Level) (ttl : Nat) :
    TI (s.grantTtl now req ent sec l ttl).1.graph (s.grantTtl now req ent sec l ttl).1.ttl := by
  unfold State.grantTtl
  rcases grantCore_cases h now req ent sec l (some (now + ttl)) with ⟨⟨e, he⟩, h1⟩ | ⟨hok, s0, h0, hg, ht⟩
  · split
    · rename_i s' e' heq
      rw [heq] at h1; exact h1
    · rename_i s' r hne heq
      rw [heq] at he
      exact absurd he (hne e)
  · split
    · rename_i s' e' heq
      rw [heq] at hok; cases hok
    · rename_i s' r hne heq
      rw [heq] at hg ht
      simp only at hg ht
      simp only [persistTtl_graph, persistTtl_ttl, hg, ht]
      intro e he x hx
      rcases List.mem_append.mp he with he | he
      · obtain ⟨a, b, q1, q2, q3, q4⟩ := h0 e he x hx
        exact ⟨a, b, q1, q2, q3, List.mem_append_left _ q4⟩
      · rw [List.mem_singleton] at he; subst he
        simp only [accessEdge, Option.some.injEq] at hx; subst hx
        exact ⟨ent, sec, rfl, rfl, rfl, List.mem_append_right _ (List.mem_singleton.mpr rfl)⟩

theorem revoke_inv {s : State} (h : TI s.graph s.ttl) (now req ent sec : Nat) :
    TI (s.revoke now req ent sec).1.graph (s.revoke now req ent sec).1.ttl := by
  unfold State.revoke
  refine guarded_ti h (fun s' hs' => ?_)
  simp only [audit_graph, audit_ttl]
  split
  · simp only [persistTtl_graph, persistTtl_ttl]
    exact (hs'.drop ent sec).1
  · exact (hs'.drop ent sec).2

theorem foldl_addAccess {child : Nat} {eff : Level} {exp : Option Nat} :
    ∀ (secs : List Nat) (s0 : State),
      (secs.foldl (fun st sec => st.addAccess child sec eff exp) s0).ttl = s0.ttl ∧
      ∀ e ∈ (secs.foldl (fun st sec => st.addAccess child sec eff exp) s0).graph,
        e ∈ s0.graph ∨ ∃ sec ∈ secs, ∃ id, e = accessEdge id child sec eff exp
  | [], s0 => ⟨rfl, fun e he => Or.inl he⟩
  | sec :: rest, s0 => by
    rw [List.foldl_cons]
    obtain ⟨h1, h2⟩ := foldl_addAccess rest (s0.addAccess child sec eff exp)
    refine ⟨by rw [h1]; rfl, ?_⟩
    intro e he
    rcases h2 e he with h3 | ⟨sec', hs, id, rfl⟩
    · rw [addAccess_graph] at h3
      rcases List.mem_append.mp h3 with h4 | h4
      · exact Or.inl h4
      · rw [List.mem_singleton] at h4
        exact Or.inr ⟨sec, List.mem_cons_self .., _, h4⟩
    · exact Or.inr ⟨sec', List.mem_cons_of_mem _ hs, id, rfl⟩

theorem foldl_audit_proj (f : State → Nat → State) (hg : ∀ st x, (f st x).graph = st.graph)
    (ht : ∀ st x, (f st x).ttl = st.ttl) :
    ∀ (l : List Nat) (s0 : State), (l.foldl f s0).graph = s0.graph ∧ (l.foldl f s0).ttl = s0.ttl
  | [], _ => ⟨rfl, rfl⟩
  | x :: l, s0 => by
    rw [List.foldl_cons]
    obtain ⟨h1, h2⟩ := foldl_audit_proj f hg ht l (f s0 x)
    exact ⟨by rw [h1, hg], by rw [h2, ht]⟩

theorem foldl_audit_graph (parent child : Nat) (op : String) :
    ∀ (l : List Nat) (s0 : State), (l.foldl (fun st sec => st.audit parent sec op [.ident child]) s0).graph = s0.graph
  | [], _ => rfl
  | x :: l, s0 => by rw [List.foldl_cons, foldl_audit_graph parent child op l]; rfl

theorem foldl_audit_ttl (parent child : Nat) (op : String) :
    ∀ (l : List Nat) (s0 : State), (l.foldl (fun st sec => st.audit parent sec op [.ident child]) s0).ttl = s0.ttl
  | [], _ => rfl
  | x :: l, s0 => by rw [List.foldl_cons, foldl_audit_ttl parent child op l]; rfl

/-- adding grant edges child→secs (all with the same requested expiry) and, when there is an expiry,
    the matching tracker entries -/
theorem TI.add_grants {g g' : Graph} {ttl ttl' : List TtlEntry} (h : TI g ttl) {child : Nat} {eff : Level}
    {exp : Option Nat} {secs : List Nat}
    (hg : ∀ e ∈ g', e ∈ g ∨ ∃ sec ∈ secs, ∃ id, e = accessEdge id child sec eff exp)
    (ht : ∀ t ∈ ttl, t ∈ ttl')
    (hn : ∀ x, exp = some x → ∀ sec ∈ secs, TtlEntry.mk child sec x ∈ ttl') : TI g' ttl' := by
  intro e he x hx
  rcases hg e he with h1 | ⟨sec, hs, id, rfl⟩
  · obtain ⟨a, b, q1, q2, q3, q4⟩ := h e h1 x hx
    exact ⟨a, b, q1, q2, q3, ht _ q4⟩
  · exact ⟨child, sec, rfl, rfl, rfl, hn x hx sec hs⟩

theorem delegateApply_inv {s : State} (h : TI s.graph s.ttl) (now parent child : Nat) (secs : List Nat) (eff : Level)
    (ttl : Option Nat) :
    TI (s.delegateApply now parent child secs eff ttl).1.graph (s.delegateApply now parent child secs eff ttl).1.ttl := by
  cases ttl with
  | none =>
    unfold State.delegateApply
    split
    · exact h
    · split
      · exact h
      · simp only
        split
        · exact h
        · simp only [foldl_audit_graph, foldl_audit_ttl, persistDelegs_graph, persistDelegs_ttl, Option.map_none]
          refine h.add_grants (secs := secs) (foldl_addAccess secs _).2 ?_ (fun x hx => nomatch hx)
          intro t ht
          rw [(foldl_addAccess secs _).1]
          exact ht
  | some tt =>
    unfold State.delegateApply
    split
    · exact h
    · split
      · exact h
      · simp only
        split
        · exact h
        · simp only [foldl_audit_graph, foldl_audit_ttl, persistDelegs_graph, persistDelegs_ttl, persistTtl_graph,
            persistTtl_ttl, Option.map_some]
          refine h.add_grants (secs := secs) (foldl_addAccess secs _).2 ?_ ?_
          · intro t ht
            rw [(foldl_addAccess secs _).1]
            exact List.mem_append_left _ ht
          · intro x hx sec hs
            cases hx
            exact List.mem_append_right _ (List.mem_map.mpr ⟨sec, hs, rfl⟩)

theorem delegate_inv {s : State} (h : TI s.graph s.ttl) (now parent child : Nat) (secs : List Nat) (l : Level)
    (ttl : Option Nat) :
    TI (s.delegate now parent child secs l ttl).1.graph (s.delegate now parent child secs l ttl).1.ttl := by
  have h0 : TI (if parent = root || secs.isEmpty then s else s.cleanup now).graph
      (if parent = root || secs.isEmpty then s else s.cleanup now).ttl := by
    split
    · exact h
    · exact (h.cleanup now).1
  unfold State.delegate
  simp only
  split
  · exact h0
  · exact delegateApply_inv h0 _ _ _ _ _ _

theorem undelegate_inv {s : State} (h : TI s.graph s.ttl) (parent child : Nat) :
    TI (s.undelegate parent child).1.graph (s.undelegate parent child).1.ttl := by
  unfold State.undelegate
  split
  · exact h
  · rename_i d _
    simp only [foldl_audit_graph, foldl_audit_ttl, persistTtl_graph, persistTtl_ttl, persistDelegs_graph,
      persistDelegs_ttl]
    exact foldl_inv _ (fun st : State => TI st.graph st.ttl) d.secrets
      (fun st sec _ hst => (TI.drop hst child sec).1) _ h

theorem addMember_inv {s : State} (h : TI s.graph s.ttl) (a b : Nat) :
    TI (s.addMember a b).1.graph (s.addMember a b).1.ttl := by
  unfold State.addMember
  exact h.append _ rfl

theorem delMember_inv {s : State} (h : TI s.graph s.ttl) (a b : Nat) :
    TI (s.delMember a b).1.graph (s.delMember a b).1.ttl := by
  unfold State.delMember
  exact h.mono (fun e he => (List.mem_filter.mp he).1) (fun _ _ t ht _ _ _ => ht)

theorem list_graph_ttl (s : State) (now req : Nat) (p : Pattern) :
    (s.list now req p).1.graph = (s.cleanup now).graph ∧ (s.list now req p).1.ttl = (s.cleanup now).ttl :=
  ⟨rfl, rfl⟩

theorem step_inv {s : State} (h : TI s.graph s.ttl) (t : Nat) (op : Op) :
    TI (step s t op).1.graph (step s t op).1.ttl := by
  cases op with
  | set req sec val size => exact set_inv h t req sec val size
  | get req sec => exact get_inv h t req sec
  | list req p => simp only [step]; rw [(list_graph_ttl s t req p).1, (list_graph_ttl s t req p).2]; exact (h.cleanup t).1
  | rotate req sec val size => exact rotate_inv h t req sec val size
  | delete req sec => exact delete_inv h t req sec
  | grant req ent sec l => exact grant_inv h t req ent sec l
  | grantTtl req ent sec l ttl => exact grantTtl_inv h t req ent sec l ttl
  | revoke req ent sec => exact revoke_inv h t req ent sec
  | delegate p c secs l ttl => exact delegate_inv h t p c secs l ttl
  | undelegate p c => exact undelegate_inv h p c
  | addMember a b => exact addMember_inv h a b
  | delMember a b => exact delMember_inv h a b

theorem run_inv : ∀ (h : List (Nat × Op)) (s : State), TI s.graph s.ttl → TI (run s h).graph (run s h).ttl
  | [], _, hs => hs
  | (t, op) :: rest, s, hs => by
    rw [run]
    exact run_inv rest _ (step_inv hs t op)

theorem init_inv (pol : Policy) (a b c : Nat) : TI (init pol a b c).graph (init pol a b c).ttl := by
  intro e he; cases he

end Neumann.Vault
