/-
  C14 — model of `tensor_vault` access control and at-rest layout.
  Mirrors, branch by branch:
    access.rs      `get_permission_level_verified` (queue BFS over MEMBER edges, horizon cut-off,
                   signature check, attenuation, capacity bottleneck, max over edges),
                   `check_path` (only used to choose between the two "denied" error kinds);
    attenuation.rs `AttenuationPolicy::attenuate`;
    ttl.rs         `GrantTTLTracker` (add / get_expired / remove), keyed by (entity, secret NAME);
    delegation.rs  `DelegationManager::{register, revoke}` (self / cycle / depth checks);
    vault.rs       `set_inner, get, list, rotate, delete, grant_with_permission, grant_with_ttl,
                   revoke, cleanup_expired_grants, delegate, revoke_delegation, check_access_with_permission`.
  Also mirrored (coverage extension): the edge-type allowlist of access.rs (`kindOfType`), the other read /
  overwrite paths of vault.rs (`get_version`, `current_version` / `list_versions`, `rollback`, `batch_get`,
  `batch_set_detailed`, `wrap_secret` / `unwrap_secret`), `revoke_delegation_cascading`, and dropping the `Vault`
  object and re-opening it over the same store (`Vault::new`: the TTL tracker and the delegation records are
  re-read from their persisted copies, then `cleanup_expired_grants` runs).
  The code as it IS (after 4e577a4d / 31ebe3e9): `cleanup_expired_grants` runs at the top of `get` and
  `list` AND, for every non-root caller, inside `check_access_with_permission`, `has_access` and
  `get_permission` before the graph is consulted — so every guarded operation drops expired grants
  (a state change that survives a failed check) before it decides.  The `vault_secret:` node record
  no longer carries the secret name.  After ad58047e the three authorisation entry points refuse, before
  anything else, a requester STRING that is a secret's graph-node key (`vault_secret:…`): such a string is
  not an identity, and the `source == target ⇒ Admin` shortcut of the path search must not see it.
  The pre-fix behaviours are kept as `…Old` definitions at the end of the file, only for the `_witness`
  theorems.

  Identities, secret names and secret values are alpha-renamed to `Nat`.  Graph nodes are `Nat`:
  entity `e` ↦ `2*e`, secret `s` ↦ `2*s+1` (its `vault_secret:<obf>` node).  Root is entity 0.
  A REQUESTER is a string chosen by the caller; besides the identities `0, 1, 2, …` the requester numbers
  `nodeKeyBase + s` stand for the strings `vault_secret:<obfuscated s>` — the graph key of secret `s`'s own
  node (`nodeKeyReq`, `isNodeKey`, `reqNode`).  Grantees, delegation children and the endpoints of raw edges
  are identities or raw nodes.
  Time is an explicit `now` argument of every step.
-/
namespace Neumann.Vault

/-! ## permission levels and attenuation -/

inductive Level | read | write | admin
deriving DecidableEq, Repr, Inhabited

namespace Level
def toNat : Level → Nat
  | read => 1 | write => 2 | admin => 3
/-- `Permission::from_level` -/
def ofNat? : Nat → Option Level
  | 1 => some read | 2 => some write | 3 => some admin | _ => none
/-- `have.allows(required)` -/
def allows (hav req : Level) : Bool := req.toNat ≤ hav.toNat
def max (a b : Level) : Level := if a.toNat ≤ b.toNat then b else a
def min (a b : Level) : Level := if a.toNat ≤ b.toNat then a else b
end Level

structure Policy where
  adminLimit : Nat := 1
  writeLimit : Nat := 2
  horizon : Nat := 10
deriving Repr, DecidableEq

/-- `AttenuationPolicy::attenuate` -/
def attenuate (p : Policy) (l : Level) (hops : Nat) : Option Level :=
  if hops > p.horizon then none
  else some (match l with
    | .admin => if hops ≤ p.adminLimit then .admin else if hops ≤ p.writeLimit then .write else .read
    | .write => if hops ≤ p.writeLimit then .write else .read
    | .read => .read)

/-! ## graph -/

inductive EKind
  /-- edge type with prefix `MEMBER` -/
  | member
  /-- edge type with prefix `VAULT_ACCESS`: parsed level (`from_edge_type`, `none` = unparsable suffix),
      `vault_capacity` after `from_level`, and whether the HMAC signature (if any) verifies -/
  | access (lvl : Option Level) (cap : Option Level) (sigOk : Bool)
  /-- any edge type outside `ALLOWED_TRAVERSAL_EDGES` (`is_allowed_edge_type` = false): never looked at -/
  | other
deriving DecidableEq, Repr

structure Edge where
  id : Nat
  src : Nat
  dst : Nat
  kind : EKind
  /-- GHOST (not stored on the real edge): the expiry instant the grant was issued with.
      The code keeps it only in the TTL tracker, keyed by (entity, secret name). -/
  expiry : Option Nat := none
deriving DecidableEq, Repr

abbrev Graph := List Edge

def entNode (e : Nat) : Nat := 2 * e
def secNode (s : Nat) : Nat := 2 * s + 1

/-- requester numbers from here on are not identities: `nodeKeyBase + s` is the string `vault_secret:<obf s>` -/
def nodeKeyBase : Nat := 2000000
/-- the requester string equal to the graph key of secret `s`'s node -/
def nodeKeyReq (s : Nat) : Nat := nodeKeyBase + s
/-- `Vault::is_secret_node_key(requester)`: `requester.starts_with("vault_secret:")` -/
def isNodeKey (req : Nat) : Bool := decide (nodeKeyBase ≤ req)
/-- the graph node a requester string names (`get_or_create_entity_node` looks nodes up by that very string):
    an identity's own node, or — for a secret-node key — the secret's node itself -/
def reqNode (req : Nat) : Nat := if isNodeKey req then secNode (req - nodeKeyBase) else entNode req

def EKind.isAccess : EKind → Bool
  | .access .. => true | .member => false | .other => false

/-- `ALLOWED_TRAVERSAL_EDGES` (access.rs:166).  Edge types are character lists (`String.toList` of the
    type string) so that the prefix / suffix tests are structural and evaluate in the kernel. -/
def allowedTypes : List (List Char) :=
  ["VAULT_ACCESS".toList, "VAULT_ACCESS_READ".toList, "VAULT_ACCESS_WRITE".toList, "VAULT_ACCESS_ADMIN".toList,
   "MEMBER".toList]

/-- `VAULT_ACCESS_PREFIX` test -/
def hasAccessPrefix (ty : List Char) : Bool := "VAULT_ACCESS".toList.isPrefixOf ty

/-- `is_allowed_edge_type`: the edge type starts with one of the allow-listed strings -/
def isAllowedType (ty : List Char) : Bool := allowedTypes.any (fun a => a.isPrefixOf ty)

/-- `Permission::from_edge_type` (suffix match; bare `VAULT_ACCESS` = legacy Admin) -/
def levelOfType (ty : List Char) : Option Level :=
  if "_READ".toList.isSuffixOf ty then some .read
  else if "_WRITE".toList.isSuffixOf ty then some .write
  else if "_ADMIN".toList.isSuffixOf ty then some .admin
  else if ty = "VAULT_ACCESS".toList then some .admin
  else none

/-- how the search classifies an edge by its type string, in the order of the loop body of
    `get_permission_level_verified`: not allow-listed → skipped; prefix `VAULT_ACCESS` → access edge
    (level from the suffix); anything else allow-listed (prefix `MEMBER`) → traversed -/
def kindOfType (ty : List Char) (cap : Option Level) (sigOk : Bool) : EKind :=
  if !isAllowedType ty then .other
  else if hasAccessPrefix ty then .access (levelOfType ty) cap sigOk
  else .member

def outEdges (g : Graph) (n : Nat) : List Edge := g.filter (fun e => e.src = n)

/-- what one VAULT_ACCESS edge to the target contributes when reached with `hops` total hops:
    signature check, `from_edge_type`, `attenuate`, `min` with capacity -/
def edgeLevel (pol : Policy) (e : Edge) (hops : Nat) : Option Level :=
  match e.kind with
  | .member => none
  | .other => none
  | .access lvl cap sigOk =>
    if sigOk = false then none else
    match lvl with
    | none => none
    | some l =>
      match attenuate pol l hops with
      | none => none
      | some a => some (match cap with | some c => Level.min a c | none => a)

def bestMax (b : Option Level) (l : Level) : Option Level :=
  match b with
  | none => some l
  | some x => some (Level.max x l)

/-- BFS working state: `visited`, FIFO `queue` of (node, depth), `best_permission` -/
structure Bfs where
  vis : List Nat
  queue : List (Nat × Nat)
  best : Option Level
deriving Repr

/-- body of the `for edge in get_outgoing_edges_full(current)` loop -/
def scanEdge (pol : Policy) (target d : Nat) (st : Bfs) (e : Edge) : Bfs :=
  match e.kind with
  | .access .. =>
    if e.dst = target then
      match edgeLevel pol e (d + 1) with
      | some l => { st with best := bestMax st.best l }
      | none => st
    else st
  | .member =>
    if e.dst ∈ st.vis then st
    else { st with vis := e.dst :: st.vis, queue := st.queue ++ [(e.dst, d + 1)] }
  | .other => st

/-- `while let Some((current, depth)) = queue.pop_front()` with explicit fuel -/
def bfs (pol : Policy) (g : Graph) (target : Nat) : Nat → Bfs → Option Level
  | 0, st => st.best
  | fuel + 1, st =>
    match st.queue with
    | [] => st.best
    | (cur, d) :: rest =>
      if d ≥ pol.horizon then bfs pol g target fuel { st with queue := rest }
      else bfs pol g target fuel ((outEdges g cur).foldl (scanEdge pol target d) { st with queue := rest })

/-- `AccessController::get_permission_level_verified` -/
def permLevel (pol : Policy) (g : Graph) (src target : Nat) : Option Level :=
  if src = target then some .admin
  else bfs pol g target (g.length + 1) { vis := [src], queue := [(src, 0)], best := none }

/-- `AccessController::check_path`: any allow-listed edge (MEMBER or VAULT_ACCESS alike), at most 32 hops.
    Only consulted to pick `InsufficientPermission` vs `AccessDenied`. -/
def reachStep (g : Graph) (seen : List Nat) : List Nat :=
  g.foldl (fun acc e => if e.kind ≠ .other ∧ e.src ∈ seen ∧ e.dst ∉ acc then e.dst :: acc else acc) seen

def reachN (g : Graph) : Nat → List Nat → List Nat
  | 0, seen => seen
  | n + 1, seen => reachN g n (reachStep g seen)

def checkPath (g : Graph) (src target : Nat) : Bool :=
  src = target || (reachN g 32 [src]).contains target

/-! ## at-rest store -/

/-- things that must never be readable at rest -/
inductive Plain
  | value (v : Nat)
  | name (s : Nat)
  | ident (e : Nat)
  | other
deriving DecidableEq, Repr

/-- a stored field.  The only constructor that exposes plaintext is `clear`;
    `cipher` (AES-256-GCM) and `obf`/`ptr` (keyed BLAKE2b) hide their inputs by hypothesis. -/
inductive Field
  | cipher (p : Plain)
  | obf (s : Nat)
  | ptr (s : Nat) (nonce : Nat)
  | ptrs (l : List (Nat × Nat))
  | nonce (n : Nat)
  | int (n : Nat)
  | tag (t : String)
  | clear (ps : List Plain)
deriving DecidableEq, Repr

def Field.reveals : Field → Plain → Bool
  | .clear ps, q => ps.contains q
  | _, _ => false

inductive RKey
  | vk (s : Nat)              -- `_vk:<obf(name)>`
  | blob (s : Nat) (nonce : Nat)  -- `_vs:<hash(name‖nonce)>`
  | node (s : Nat)            -- `vault_secret:<obf(name)>`
  | ttlGrants                 -- `_vault_ttl_grants`
  | deleg (p c : Nat)         -- `_vdel:<parent>:<child>`
  | audit (n : Nat)           -- `_audit:…`
  | wrap (n : Nat)            -- `_vwrap:<random token>`
deriving DecidableEq, Repr

/-- does the store KEY itself expose plaintext? (`_vdel:` keys hold the two identities) -/
def RKey.reveals : RKey → Plain → Bool
  | .deleg p c, q => q = .ident p || q = .ident c
  | _, _ => false

structure Rec where
  key : RKey
  fields : List (String × Field)
deriving DecidableEq, Repr

abbrev Store := List Rec

def Store.put (st : Store) (r : Rec) : Store := st.filter (fun x => x.key ≠ r.key) ++ [r]
def Store.del (st : Store) (k : RKey) : Store := st.filter (fun x => x.key ≠ k)
def Store.has (st : Store) (k : RKey) : Bool := st.any (fun x => x.key = k)

/-! ## vault state -/

structure TtlEntry where
  ent : Nat
  sec : Nat
  expires : Nat
deriving DecidableEq, Repr

structure DelegRec where
  parent : Nat
  child : Nat
  secrets : List Nat
  depth : Nat
deriving DecidableEq, Repr

/-- one kept version: blob nonce, its plaintext and the plaintext's byte length -/
structure Ver where
  nonce : Nat
  val : Nat
  size : Nat
deriving DecidableEq, Repr

structure SecretMeta where
  name : Nat
  value : Nat            -- current plaintext (what `get` decrypts)
  versions : List Ver    -- kept versions, oldest first (`_versions`)
deriving DecidableEq, Repr

structure State where
  pol : Policy := {}
  maxDeleg : Nat := 3
  maxValueSize : Nat := 65531
  maxVersions : Nat := 5
  graph : Graph := []
  nextId : Nat := 0
  secrets : List SecretMeta := []
  ttl : List TtlEntry := []
  delegs : List DelegRec := []
  store : Store := []
  auditN : Nat := 0
  /-- what `_vault_ttl_grants` holds: the tracker as of its last `persist` (read back by `Vault::new`) -/
  pttl : List TtlEntry := []
  /-- what the `_vdel:` records hold: the delegation records as of their last `persist` -/
  pdelegs : List DelegRec := []
  /-- outstanding wrapping tokens (token number, wrapped plaintext) -/
  wraps : List (Nat × Nat) := []
  wrapN : Nat := 0
deriving Repr

inductive Err | denied | insufficient | notFound | tooLarge | crypto | graphErr
deriving DecidableEq, Repr

/-- per-entry outcome of a batch call -/
inductive Item
  | done
  | val (v : Nat)
  | err (e : Err)
deriving DecidableEq, Repr

inductive Resp
  | ok
  | value (v : Nat)
  | names (l : List Nat)
  | level (l : Level)
  | num (n : Nat)
  | items (l : List Item)
  | pairs (l : List (Nat × Nat))
  | err (e : Err)
deriving DecidableEq, Repr

def Resp.isOk : Resp → Bool
  | .err _ => false | _ => true

/-- `MAX_PLAINTEXT_SIZE` of obfuscation.rs (rotate does not look at `max_value_size`) -/
def maxPlain : Nat := 65531

def root : Nat := 0

def State.findSecret (s : State) (name : Nat) : Option SecretMeta := s.secrets.find? (·.name = name)
def State.exists (s : State) (name : Nat) : Bool := (s.findSecret name).isSome

/-- `get_permission_level_verified(requester, secret_node)` on the current graph -/
def State.perm (s : State) (req sec : Nat) : Option Level :=
  permLevel s.pol s.graph (entNode req) (secNode sec)

/-- the three-way outcome of `check_access_with_permission` once the graph is consulted:
    `check_path_with_permission_verified`, else `check_path` picks the error kind -/
def State.checkGraph (s : State) (req sec : Nat) (need : Level) : Except Err Unit :=
  match s.perm req sec with
  | some p =>
    if p.allows need then .ok ()
    else if checkPath s.graph (entNode req) (secNode sec) then .error .insufficient else .error .denied
  | none =>
    if checkPath s.graph (entNode req) (secNode sec) then .error .insufficient else .error .denied

def accessEdge (id ent sec : Nat) (l : Level) (expiry : Option Nat) : Edge :=
  { id := id, src := entNode ent, dst := secNode sec, kind := .access (some l) (some l) true, expiry := expiry }

/-- `add_entity_graph_edge` for a VAULT_ACCESS edge (signed, capacity = level) -/
def State.addAccess (s : State) (ent sec : Nat) (l : Level) (expiry : Option Nat) : State :=
  { s with graph := s.graph ++ [accessEdge s.nextId ent sec l expiry], nextId := s.nextId + 1 }

/-- delete every `VAULT_ACCESS*` edge entity → secret (what revoke / cleanup / revoke_delegation do) -/
def dropAccess (g : Graph) (ent sec : Nat) : Graph :=
  g.filter (fun e => !(e.src = entNode ent && e.dst = secNode sec && e.kind.isAccess))

/-- `log_operation`: entity AES-encrypted, secret name obfuscated, operation tag; no value ever passed -/
def auditRec (n req sec : Nat) (op : String) (extra : List Plain) : Rec :=
  { key := .audit n,
    fields := [("_entity_enc", .cipher (.ident req)), ("_secret", .obf sec), ("_op", .tag op), ("_detail", .clear extra)] }

def State.audit (s : State) (req sec : Nat) (op : String) (extra : List Plain := []) : State :=
  { s with store := s.store.put (auditRec s.auditN req sec op extra), auditN := s.auditN + 1 }

/-- `GrantTTLTracker::persist`: JSON with entity and secret NAME in the clear -/
def ttlRec (l : List TtlEntry) : Rec :=
  { key := .ttlGrants, fields := [("_data", .clear (l.flatMap fun t => [.ident t.ent, .name t.sec]))] }

def State.persistTtl (s : State) : State :=
  if s.ttl.isEmpty then { s with store := s.store.del .ttlGrants, pttl := s.ttl }
  else { s with store := s.store.put (ttlRec s.ttl), pttl := s.ttl }

/-- `DelegationManager::persist` -/
def delegRec (d : DelegRec) : Rec :=
  { key := .deleg d.parent d.child,
    fields := [("_record", .clear ([.ident d.parent, .ident d.child] ++ d.secrets.map .name))] }

def State.persistDelegs (s : State) : State :=
  let cleared := s.store.filter (fun r => match r.key with | .deleg .. => false | _ => true)
  { s with store := s.delegs.foldl (fun st d => st.put (delegRec d)) cleared, pdelegs := s.delegs }

/-- `cleanup_expired_grants` -/
def State.cleanup (s : State) (now : Nat) : State :=
  let expired := s.ttl.filter (fun t => t.expires ≤ now)
  let keep := s.ttl.filter (fun t => !(t.expires ≤ now))
  let g' := expired.foldl (fun g t => dropAccess g t.ent t.sec) s.graph
  let s' := { s with ttl := keep, graph := g' }
  if g'.length < s.graph.length then s'.persistTtl else s'

def ttlRemove (l : List TtlEntry) (ent sec : Nat) : List TtlEntry :=
  l.filter (fun t => !(t.ent = ent && t.sec = sec))

/-! ## the three authorisation entry points (each expires grants first for a non-root caller) -/

/-- `check_access_with_permission`: root passes untouched; a secret-node key is refused untouched (ad58047e);
    for anybody else `cleanup_expired_grants()` runs first.  Returns the state as well: the cleanup survives a
    failed check. -/
def State.checkAccess (s : State) (now req sec : Nat) (need : Level) : State × Except Err Unit :=
  if req = root then (s, .ok ())
  else if isNodeKey req then (s, .error .denied)
  else
    let s' := s.cleanup now
    (s', s'.checkGraph req sec need)

/-- `has_access` (its answer; its only state effect is `cleanup now`, see `State.list`) -/
def State.hasAccess (s : State) (now req sec : Nat) : Bool :=
  req = root || (!isNodeKey req && ((s.cleanup now).perm req sec).isSome)

/-- `get_permission` (its answer: root = Admin, a secret-node key = None; its only state effect for any other
    caller is `cleanup now`) -/
def State.getPermission (s : State) (now req sec : Nat) : Option Level :=
  if req = root then some .admin else if isNodeKey req then none else (s.cleanup now).perm req sec

/-- `self.check_access_with_permission(req, key, need)?; rest` -/
def State.guarded (s : State) (now req sec : Nat) (need : Level) (rest : State → State × Resp) : State × Resp :=
  match s.checkAccess now req sec need with
  | (s', .error e) => (s', .err e)
  | (s', .ok _) => rest s'

def pruneVersions (maxV : Nat) (name : Nat) (vs : List Ver) (st : Store) : List Ver × Store :=
  let dropN := vs.length - maxV
  ((vs.drop dropN), (vs.take dropN).foldl (fun st v => st.del (.blob name v.nonce)) st)

/-- the `_vk:` metadata record -/
def metaRec (name nonce : Nat) (versions : List Ver) (rotated : Option Nat) : Rec :=
  { key := .vk name,
    fields := [("_key_enc", .cipher (.name name)), ("_key_nonce", .nonce nonce),
               ("_creator_obf", .cipher .other), ("_created_obf", .cipher .other),
               ("_blob", .ptr name nonce), ("_nonce", .nonce nonce),
               ("_versions", .ptrs (versions.map fun v => (name, v.nonce)))] ++
              (match rotated with
               | some r => [("_rotator_obf", .cipher (.ident r)), ("_rotated_obf", .cipher .other)]
               | none => []) }

def blobRec (name nonce val : Nat) : Rec :=
  { key := .blob name nonce, fields := [("_data", .cipher (.value val)), ("_nonce", .nonce nonce), ("_ts", .int 0)] }

/-- a wrapped value (`wrapping.rs`): AES-GCM ciphertext of the padded plaintext under the random token's key -/
def wrapRec (id val : Nat) : Rec :=
  { key := .wrap id,
    fields := [("_data", .cipher (.value val)), ("_nonce", .nonce id), ("_created_at", .int 0),
               ("_expires_at", .int 0), ("_consumed", .int 0)] }

/-- the `vault_secret:<obf>` node record: only the `_type` tag (vault.rs:549) -/
def nodeRec (name : Nat) : Rec :=
  { key := .node name, fields := [("_type", .tag "vault_secret")] }

/-! ## operations -/

inductive Pattern
  | all
  | ns (n : Nat)
  | one (s : Nat)
deriving DecidableEq, Repr

/-- namespace of an alpha-renamed secret name (driver convention: `name = ns*100 + k`) -/
def nsOf (name : Nat) : Nat := name / 100

def Pattern.isMatch : Pattern → Nat → Bool
  | .all, _ => true
  | .ns n, s => nsOf s = n
  | .one x, s => s = x

inductive Op
  | set (req sec val size : Nat)
  | get (req sec : Nat)
  | list (req : Nat) (p : Pattern)
  | rotate (req sec val size : Nat)
  | delete (req sec : Nat)
  | grant (req ent sec : Nat) (l : Level)
  | grantTtl (req ent sec : Nat) (l : Level) (ttl : Nat)
  | revoke (req ent sec : Nat)
  | delegate (parent child : Nat) (secs : List Nat) (l : Level) (ttl : Option Nat)
  | undelegate (parent child : Nat)
  | addMember (a b : Nat)           -- raw graph nodes (tests add MEMBER edges directly on `vault.graph`)
  | delMember (a b : Nat)
  | addEdge (a b : Nat) (k : EKind) -- any edge written directly into the graph engine (raw nodes, any kind)
  | getVersion (req sec ver : Nat)
  | versions (req sec : Nat)        -- `current_version` (= length of `list_versions`)
  | rollback (req sec ver : Nat)
  | batchGet (req : Nat) (secs : List Nat)
  | batchSet (req : Nat) (entries : List (Nat × Nat × Nat))   -- (secret, value, size), `batch_set_detailed`
  | wrap (req sec : Nat)
  | unwrap (token : Nat)
  | undelegateCascade (parent child : Nat)
  | reopen                          -- drop the `Vault`, `Vault::new` over the same store and graph
  /-- calls that only pass `check_access_with_permission(need)` and touch no secret data: `encrypt_for` /
      `decrypt_as` / `changelog` (Read), `get_expiration` (Read, secret must exist), `clear_expiration` (Admin,
      secret must exist) -/
  | probe (req sec : Nat) (need : Level) (mustExist : Bool)
deriving Repr

def State.putSecret (s : State) (m : SecretMeta) : State :=
  { s with secrets := s.secrets.filter (·.name ≠ m.name) ++ [m] }

/-- `set_inner` (ttl = None) -/
def State.set (s : State) (now req sec val size : Nat) : State × Resp :=
  if size > s.maxValueSize then (s, .err .tooLarge) else
  match s.findSecret sec with
  | some m =>
    s.guarded now req sec .write fun s =>
      let nonce := s.nextId
      let st1 := s.store.put (blobRec sec nonce val)
      let (vs, st2) := pruneVersions s.maxVersions sec (m.versions ++ [⟨nonce, val, size⟩]) st1
      let st3 := st2.put (metaRec sec nonce vs none)
      let s' := { s with store := st3, nextId := s.nextId + 1 }
      ((s'.putSecret { m with value := val, versions := vs }).audit req sec "set", .ok)
  | none =>
    if req ≠ root then (s, .err .denied) else
    let nonce := s.nextId
    let st1 := s.store.put (blobRec sec nonce val)
    let st2 := st1.put (metaRec sec nonce [⟨nonce, val, size⟩] none)
    let st3 := st2.put (nodeRec sec)
    let s' := { s with store := st3, nextId := s.nextId + 1 }
    let s' := s'.putSecret { name := sec, value := val, versions := [⟨nonce, val, size⟩] }
    ((s'.addAccess root sec .admin none).audit req sec "set", .ok)

/-- `get`: opportunistic cleanup for every caller, then `check_access` -/
def State.get (s : State) (now req sec : Nat) : State × Resp :=
  (s.cleanup now).guarded now req sec .read fun s =>
    match s.findSecret sec with
    | none => (s, .err .notFound)
    | some m => (s.audit req sec "get", .value m.value)

/-- `list`: cleanup for every caller, then `has_access` per stored secret (for a non-root caller each
    `has_access` runs `cleanup` again at the same instant — a no-op, `cleanup_cleanup` in Lemmas) -/
def State.list (s : State) (now req : Nat) (p : Pattern) : State × Resp :=
  let s := s.cleanup now
  let names := (s.secrets.filter (fun m => p.isMatch m.name && s.hasAccess now req m.name)).map (·.name)
  (s.audit req 0 "list", .names names)

/-- `rotate` -/
def State.rotate (s : State) (now req sec val size : Nat) : State × Resp :=
  s.guarded now req sec .write fun s =>
    match s.findSecret sec with
    | none => (s, .err .notFound)
    | some m =>
      if size > maxPlain then (s, .err .crypto) else
      let nonce := s.nextId
      let st1 := s.store.put (blobRec sec nonce val)
      let (vs, st2) := pruneVersions s.maxVersions sec (m.versions ++ [⟨nonce, val, size⟩]) st1
      let st3 := st2.put (metaRec sec nonce vs (some req))
      let s' := { s with store := st3, nextId := s.nextId + 1 }
      ((s'.putSecret { m with value := val, versions := vs }).audit req sec "rotate", .ok)

/-- `delete` -/
def State.delete (s : State) (now req sec : Nat) : State × Resp :=
  s.guarded now req sec .admin fun s =>
    match s.findSecret sec with
    | none => (s, .err .notFound)
    | some m =>
      let st1 := m.versions.foldl (fun st v => st.del (.blob sec v.nonce)) s.store
      let st2 := (st1.del (.vk sec)).del (.node sec)
      -- incoming edges of the secret node: TTL entries of access-edge sources are dropped, every edge deleted
      let incoming := s.graph.filter (fun e => e.dst = secNode sec)
      let ttl' := incoming.foldl (fun l e => if e.kind.isAccess && e.src % 2 = 0 then ttlRemove l (e.src / 2) sec else l) s.ttl
      let s' := { s with store := st2, graph := s.graph.filter (fun e => e.dst ≠ secNode sec), ttl := ttl',
                         secrets := s.secrets.filter (·.name ≠ sec) }
      (s'.persistTtl.audit req sec "delete", .ok)

/-- `grant_with_permission` (answers `.ok` or `.err _`) -/
def State.grantCore (s : State) (now req ent sec : Nat) (l : Level) (expiry : Option Nat) : State × Resp :=
  s.guarded now req sec .admin fun s =>
    if !s.exists sec then (s, .err .notFound)
    else ((s.addAccess ent sec l expiry).audit req sec "grant" [.ident ent], .ok)

def State.grant (s : State) (now req ent sec : Nat) (l : Level) : State × Resp :=
  s.grantCore now req ent sec l none

/-- `grant_with_ttl` -/
def State.grantTtl (s : State) (now req ent sec : Nat) (l : Level) (ttl : Nat) : State × Resp :=
  match s.grantCore now req ent sec l (some (now + ttl)) with
  | (s', .err e) => (s', .err e)
  | (s', _) =>
    (State.persistTtl { s' with ttl := s'.ttl ++ [TtlEntry.mk ent sec (now + ttl)] }, .ok)

/-- `revoke` -/
def State.revoke (s : State) (now req ent sec : Nat) : State × Resp :=
  s.guarded now req sec .admin fun s =>
    let s1 := { s with graph := dropAccess s.graph ent sec }
    let ttl' := ttlRemove s1.ttl ent sec
    let s2 := if ttl'.length < s1.ttl.length then State.persistTtl { s1 with ttl := ttl' } else s1
    (s2.audit req sec "revoke" [.ident ent], .ok)

/-- `DelegationManager::delegation_depth`: depth of a record whose child is `e` (0 if none) -/
def delegDepth (ds : List DelegRec) (e : Nat) : Nat :=
  match ds.find? (·.child = e) with
  | some d => d.depth
  | none => 0

/-- `is_ancestor(ancestor, entity)`: walk parents upward with a loop guard -/
def isAncestor (ds : List DelegRec) (ancestor : Nat) : Nat → Nat → List Nat → Bool
  | 0, _, _ => false
  | fuel + 1, cur, seen =>
    match ds.find? (·.child = cur) with
    | none => false
    | some d =>
      if d.parent = ancestor then true
      else if seen.contains d.parent then false
      else isAncestor ds ancestor fuel d.parent (d.parent :: seen)

/-- first loop of `delegate`: parent needs `l` on every secret (`get_permission` per secret) -/
def State.delegCheck (s : State) (now parent : Nat) (l : Level) : List Nat → Except Err Unit
  | [] => .ok ()
  | sec :: rest =>
    match s.getPermission now parent sec with
    | none => .error .denied
    | some p => if p.allows l then s.delegCheck now parent l rest else .error .insufficient

/-- second half of `delegate`, after the permission loops: `DelegationManager::register` (self / cycle /
    depth checks), one VAULT_ACCESS edge child → secret per secret at the effective level, TTL entries,
    persistence of both trackers, one audit record per secret -/
def State.delegateApply (s : State) (now parent child : Nat) (secs : List Nat) (eff : Level) (ttl : Option Nat) :
    State × Resp :=
  if parent = child then (s, .err .graphErr)
  else if isAncestor s.delegs child (s.delegs.length + 1) parent [parent] then (s, .err .graphErr)
  else
    let depth := delegDepth s.delegs parent + 1
    if depth > s.maxDeleg then (s, .err .graphErr) else
    let ds := s.delegs.filter (fun d => !(d.parent = parent && d.child = child)) ++
                [DelegRec.mk parent child secs depth]
    let exp := ttl.map (now + ·)
    let s1 := secs.foldl (fun st sec => st.addAccess child sec eff exp) { s with delegs := ds }
    let s2 := match ttl with
      | some t => State.persistTtl { s1 with ttl := s1.ttl ++ secs.map (fun sec => TtlEntry.mk child sec (now + t)) }
      | none => s1
    let s3 := s2.persistDelegs
    (secs.foldl (fun st sec => st.audit parent sec "grant" [.ident child]) s3, .level eff)

/-- the effective ceiling of `delegate`: min over the secrets of min(parent's level, requested) -/
def State.delegEff (s : State) (now parent : Nat) (l : Level) (secs : List Nat) : Level :=
  secs.foldl (fun acc sec =>
    let pp := (s.getPermission now parent sec).getD .read
    if pp.toNat < acc.toNat then pp else acc) l

/-- `delegate`.  Every `get_permission(parent, _)` call of the two loops expires grants first when the
    parent is neither root nor a secret-node key; all of them happen at the same instant, so their combined
    state effect is one `cleanup now` (none at all for root, a node key or an empty secret list). -/
def State.delegate (s : State) (now parent child : Nat) (secs : List Nat) (l : Level) (ttl : Option Nat) : State × Resp :=
  let s' := if parent = root || isNodeKey parent || secs.isEmpty then s else s.cleanup now
  match s.delegCheck now parent l secs with
  | .error e => (s', .err e)
  | .ok _ => s'.delegateApply now parent child secs (s.delegEff now parent l secs) ttl

/-- `revoke_delegation` (no permission check in the code) -/
def State.undelegate (s : State) (parent child : Nat) : State × Resp :=
  match s.delegs.find? (fun d => d.parent = parent && d.child = child) with
  | none => (s, .err .notFound)
  | some d =>
    let s1 := { s with delegs := s.delegs.filter (fun d => !(d.parent = parent && d.child = child)) }
    let s2 := d.secrets.foldl (fun st sec =>
      { st with graph := dropAccess st.graph child sec, ttl := ttlRemove st.ttl child sec }) s1
    let s3 := s2.persistDelegs.persistTtl
    (d.secrets.foldl (fun st sec => st.audit parent sec "revoke" [.ident child]) s3, .names d.secrets)

def State.addMember (s : State) (a b : Nat) : State × Resp :=
  ({ s with graph := s.graph ++ [Edge.mk s.nextId a b .member none], nextId := s.nextId + 1 }, .ok)

def State.delMember (s : State) (a b : Nat) : State × Resp :=
  ({ s with graph := s.graph.filter (fun e => !(e.src = a && e.dst = b && e.kind = .member)) }, .ok)


def State.addEdge (s : State) (a b : Nat) (k : EKind) : State × Resp :=
  ({ s with graph := s.graph ++ [Edge.mk s.nextId a b k none], nextId := s.nextId + 1 }, .ok)

/-- `get_version` (`check_access` first; version numbers are 1-based, `saturating_sub(1)`: 0 reads like 1) -/
def State.getVersion (s : State) (now req sec ver : Nat) : State × Resp :=
  s.guarded now req sec .read fun s =>
    match s.findSecret sec with
    | none => (s, .err .notFound)
    | some m =>
      match m.versions[ver - 1]? with
      | none => (s, .err .notFound)
      | some v => (s, .value v.val)

/-- `current_version` / `list_versions().len()` -/
def State.versionCount (s : State) (now req sec : Nat) : State × Resp :=
  s.guarded now req sec .read fun s =>
    match s.findSecret sec with
    | none => (s, .err .notFound)
    | some m => (s, .num m.versions.length)

/-- `rollback` = `get_version` (Read) then `set` of that plaintext (size check, Write) -/
def State.rollback (s : State) (now req sec ver : Nat) : State × Resp :=
  s.guarded now req sec .read fun s =>
    match s.findSecret sec with
    | none => (s, .err .notFound)
    | some m =>
      match m.versions[ver - 1]? with
      | none => (s, .err .notFound)
      | some v => s.set now req sec v.val v.size

/-- `batch_get`: cleanup for every caller, then per key `check_access` + lookup; one audit record -/
def State.batchGet (s : State) (now req : Nat) (secs : List Nat) : State × Resp :=
  let s := s.cleanup now
  let items := secs.map fun sec =>
    match (s.checkAccess now req sec .read).2 with
    | .error e => Item.err e
    | .ok _ =>
      match s.findSecret sec with
      | none => Item.err .notFound
      | some m => Item.val m.value
  (s.audit req 0 "batch_get", .items items)

def respItem : Resp → Item
  | .err e => .err e
  | _ => .done

/-- `batch_set_detailed`: every entry goes through `set_inner` on its own (the code visits them sorted by
    obfuscated key; entries of one batch name distinct secrets, so the order is unobservable) -/
def State.batchSet (s : State) (now req : Nat) (entries : List (Nat × Nat × Nat)) : State × Resp :=
  if entries.isEmpty then (s, .items []) else
  let r := entries.foldl (fun (acc : State × List Item) en =>
    ((acc.1.set now req en.1 en.2.1 en.2.2).1, acc.2 ++ [respItem (acc.1.set now req en.1 en.2.1 en.2.2).2])) (s, [])
  (r.1.audit req 0 "batch_set", .items r.2)

/-- the audit entity of `unwrap_secret` ("anonymous") -/
def anon : Nat := 1000000

/-- `wrap_secret`: `check_access`, then a full `get`, then the value is stored AES-encrypted under a fresh token -/
def State.wrap (s : State) (now req sec : Nat) : State × Resp :=
  s.guarded now req sec .read fun s =>
    match s.get now req sec with
    | (s', .value v) =>
      (({ s' with store := s'.store.put (wrapRec s'.wrapN v), wraps := s'.wraps ++ [(s'.wrapN, v)],
                  wrapN := s'.wrapN + 1 }).audit req sec "wrap", .ok)
    | (s', r) => (s', r)

/-- `unwrap_secret`: whoever presents the token gets the wrapped plaintext once -/
def State.unwrap (s : State) (token : Nat) : State × Resp :=
  match s.wraps.find? (·.1 = token) with
  | none => (s, .err .notFound)
  | some w =>
    (({ s with store := s.store.del (.wrap token), wraps := s.wraps.filter (·.1 ≠ token) }).audit anon 0 "unwrap",
     .value w.2)

/-- `DelegationManager::revoke_cascading` after the direct record: breadth-first over the children, every record
    `current → c` is removed and `c` queued -/
def cascadeLoop : Nat → List Nat → List DelegRec → List DelegRec → List DelegRec × List DelegRec
  | 0, _, ds, acc => (ds, acc)
  | _ + 1, [], ds, acc => (ds, acc)
  | fuel + 1, cur :: q, ds, acc =>
    let kids := ds.filter (·.parent = cur)
    cascadeLoop fuel (q ++ kids.map (·.child)) (ds.filter (·.parent ≠ cur)) (acc ++ kids)

/-- edges and tracker entries of one revoked record -/
def State.dropRecord (s : State) (d : DelegRec) : State :=
  d.secrets.foldl (fun st sec =>
    { st with graph := dropAccess st.graph d.child sec, ttl := ttlRemove st.ttl d.child sec }) s

/-- `revoke_delegation_cascading` (no permission check, no audit record, `Ok` even when nothing matched) -/
def State.undelegateCascade (s : State) (parent child : Nat) : State × Resp :=
  let first := s.delegs.filter (fun d => d.parent = parent && d.child = child)
  let ds0 := s.delegs.filter (fun d => !(d.parent = parent && d.child = child))
  let r := cascadeLoop (s.delegs.length + 1) [child] ds0 first
  let s1 := r.2.foldl State.dropRecord { s with delegs := r.1 }
  (s1.persistDelegs.persistTtl, .pairs (r.2.map fun d => (d.parent, d.child)))

/-- NOT the code — a variant kept for a negative control (`Props.cascade_visited_agents_leaves_delegation_witness`):
    `revoke_cascading` with a set of visited AGENTS, consulted before each record `current → c` is revoked
    ("each agent is expanded at most once").  A record into an agent that was already reached through another
    record is skipped: it is neither removed nor reported, so the edges it created are never deleted.
    `seen` starts as `[child]`; within one `current` the records are visited in list order. -/
def cascadeVisitedAgents : Nat → List Nat → List Nat → List DelegRec → List DelegRec → List DelegRec × List DelegRec
  | 0, _, _, ds, acc => (ds, acc)
  | _ + 1, [], _, ds, acc => (ds, acc)
  | fuel + 1, cur :: q, seen, ds, acc =>
    let r := (ds.filter (·.parent = cur)).foldl
      (fun (st : List Nat × List DelegRec) d => if st.1.contains d.child then st else (st.1 ++ [d.child], st.2 ++ [d]))
      (seen, [])
    cascadeVisitedAgents fuel (q ++ r.2.map (·.child)) r.1 (ds.filter (fun d => !r.2.contains d)) (acc ++ r.2)

/-- NOT the code: `revoke_delegation_cascading` over `cascadeVisitedAgents` -/
def State.undelegateCascadeVisitedAgents (s : State) (parent child : Nat) : State × Resp :=
  let first := s.delegs.filter (fun d => d.parent = parent && d.child = child)
  let ds0 := s.delegs.filter (fun d => !(d.parent = parent && d.child = child))
  let r := cascadeVisitedAgents (s.delegs.length + 1) [child] [child] ds0 first
  let s1 := r.2.foldl State.dropRecord { s with delegs := r.1 }
  (s1.persistDelegs.persistTtl, .pairs (r.2.map fun d => (d.parent, d.child)))

/-- the process ends and `Vault::new` runs over the same store and graph: `GrantTTLTracker::load` and
    `DelegationManager::load` read the persisted copies, then `cleanup_expired_grants()` -/
def State.reopen (s : State) (now : Nat) : State × Resp :=
  (({ s with ttl := s.pttl, delegs := s.pdelegs }).cleanup now, .ok)

/-- `encrypt_for` / `decrypt_as` / `changelog` / `get_expiration` / `clear_expiration`: the level check, then
    (for the last two) `NotFound` when there is no such secret -/
def State.probe (s : State) (now req sec : Nat) (need : Level) (mustExist : Bool) : State × Resp :=
  s.guarded now req sec need fun s =>
    if mustExist && !s.exists sec then (s, .err .notFound) else (s, .ok)

/-- one API call at time `now` -/
def step (s : State) (now : Nat) : Op → State × Resp
  | .set req sec val size => s.set now req sec val size
  | .get req sec => s.get now req sec
  | .list req p => s.list now req p
  | .rotate req sec val size => s.rotate now req sec val size
  | .delete req sec => s.delete now req sec
  | .grant req ent sec l => s.grant now req ent sec l
  | .grantTtl req ent sec l ttl => s.grantTtl now req ent sec l ttl
  | .revoke req ent sec => s.revoke now req ent sec
  | .delegate p c secs l ttl => s.delegate now p c secs l ttl
  | .undelegate p c => s.undelegate p c
  | .addMember a b => s.addMember a b
  | .delMember a b => s.delMember a b
  | .addEdge a b k => s.addEdge a b k
  | .getVersion req sec ver => s.getVersion now req sec ver
  | .versions req sec => s.versionCount now req sec
  | .rollback req sec ver => s.rollback now req sec ver
  | .batchGet req secs => s.batchGet now req secs
  | .batchSet req entries => s.batchSet now req entries
  | .wrap req sec => s.wrap now req sec
  | .unwrap token => s.unwrap token
  | .undelegateCascade p c => s.undelegateCascade p c
  | .reopen => s.reopen now
  | .probe req sec need me => s.probe now req sec need me

/-- run a timed history -/
def run (s : State) : List (Nat × Op) → State
  | [] => s
  | (t, op) :: rest => run (step s t op).1 rest

/-- fresh vault after `Vault::new` (`ensure_root_exists`) with the given configuration -/
def init (pol : Policy := {}) (maxDeleg : Nat := 3) (maxValueSize : Nat := 65531) (maxVersions : Nat := 5) : State :=
  { pol := pol, maxDeleg := maxDeleg, maxValueSize := maxValueSize, maxVersions := maxVersions }

/-! ## pre-fix behaviour — kept ONLY for the `_witness` theorems (what the code did before 4e577a4d / 31ebe3e9 /
    ad58047e) -/

/-- `get_permission_level_verified(requester, secret_node)` as every entry point called it before ad58047e:
    the search starts at whatever node the requester STRING names — for a secret-node key, the secret node -/
def State.permKeyOld (s : State) (req sec : Nat) : Option Level :=
  permLevel s.pol s.graph (reqNode req) (secNode sec)

/-- `check_access_with_permission` before ad58047e (after 4e577a4d): no test for secret-node keys -/
def State.checkAccessKeyOld (s : State) (now req sec : Nat) (need : Level) : State × Except Err Unit :=
  if req = root then (s, .ok ())
  else
    let s' := s.cleanup now
    (s', match s'.permKeyOld req sec with
      | some p =>
        if p.allows need then .ok ()
        else if checkPath s'.graph (reqNode req) (secNode sec) then .error .insufficient else .error .denied
      | none => if checkPath s'.graph (reqNode req) (secNode sec) then .error .insufficient else .error .denied)

/-- `get_permission` before ad58047e -/
def State.getPermissionKeyOld (s : State) (now req sec : Nat) : Option Level :=
  if req = root then some .admin else (s.cleanup now).permKeyOld req sec

/-- `get` before ad58047e -/
def State.getKeyOld (s : State) (now req sec : Nat) : State × Resp :=
  match (s.cleanup now).checkAccessKeyOld now req sec .read with
  | (s', .error e) => (s', .err e)
  | (s', .ok _) =>
    match s'.findSecret sec with
    | none => (s', .err .notFound)
    | some m => (s'.audit req sec "get", .value m.value)

/-- `grant_with_permission` before ad58047e -/
def State.grantKeyOld (s : State) (now req ent sec : Nat) (l : Level) : State × Resp :=
  match s.checkAccessKeyOld now req sec .admin with
  | (s', .error e) => (s', .err e)
  | (s', .ok _) =>
    if !s'.exists sec then (s', .err .notFound)
    else ((s'.addAccess ent sec l none).audit req sec "grant" [.ident ent], .ok)


/-- `check_access_with_permission` before 4e577a4d: the graph is consulted without expiring grants -/
def State.checkAccessOld (s : State) (req sec : Nat) (need : Level) : Except Err Unit :=
  if req = root then .ok () else s.checkGraph req sec need

/-- the `vault_secret:<obf>` node record before 31ebe3e9: `_secret_key` held the NAME in the clear -/
def nodeRecOld (name : Nat) : Rec :=
  { key := .node name, fields := [("_type", .tag "vault_secret"), ("_secret_key", .clear [.name name])] }

/-- `set_inner` before both fixes -/
def State.setOld (s : State) (req sec val size : Nat) : State × Resp :=
  if size > s.maxValueSize then (s, .err .tooLarge) else
  match s.findSecret sec with
  | some m =>
    match s.checkAccessOld req sec .write with
    | .error e => (s, .err e)
    | .ok _ =>
      let nonce := s.nextId
      let st1 := s.store.put (blobRec sec nonce val)
      let (vs, st2) := pruneVersions s.maxVersions sec (m.versions ++ [⟨nonce, val, size⟩]) st1
      let st3 := st2.put (metaRec sec nonce vs none)
      let s' := { s with store := st3, nextId := s.nextId + 1 }
      ((s'.putSecret { m with value := val, versions := vs }).audit req sec "set", .ok)
  | none =>
    if req ≠ root then (s, .err .denied) else
    let nonce := s.nextId
    let st1 := s.store.put (blobRec sec nonce val)
    let st2 := st1.put (metaRec sec nonce [⟨nonce, val, size⟩] none)
    let st3 := st2.put (nodeRecOld sec)
    let s' := { s with store := st3, nextId := s.nextId + 1 }
    let s' := s'.putSecret { name := sec, value := val, versions := [⟨nonce, val, size⟩] }
    ((s'.addAccess root sec .admin none).audit req sec "set", .ok)

end Neumann.Vault
