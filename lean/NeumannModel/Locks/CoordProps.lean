import NeumannModel.Locks.CoordLemmas
import NeumannModel.Locks.GraphLemmas
import NeumannModel.Locks.ReachLemmas
/-
  C12 — property theorems about the coordinator model (`CoordModel.lean`): which locks are left
  when a transaction ends at ANY of the end-of-transaction sites, the orphan sweep, and the
  refinement that carries the lock-table theorems of `Props.lean` over to coordinator runs.
  ONLY property statements and non-vacuity examples; helpers are in `CoordLemmas.lean`.

  `corun ops (Coord.init T mc)` folds `costep` over any list of coordinator operations:
  begin / handle_prepare / record_vote (Yes vote in flight, or No) / commit / abort /
  complete_commit / complete_abort / force_resolve / cleanup_timeouts / recover /
  release_orphaned_locks / clock / save-load / a deadline passing.
-/
namespace Neumann.Locks.CoordProps
open Neumann.Locks

/-- **Every lock is accounted for.**  After any sequence of coordinator operations, each lock in
    the table carries a handle whose Yes vote is still in flight, was refused by `record_vote`
    (transaction unknown / not Preparing / duplicate shard), or is recorded in the votes of its
    owner, which is still pending. -/
theorem every_lock_is_accounted (T mc : Nat) (ops : List CoOp) (k : Nat) (l : KeyLock)
    (h : aGet (corun ops (Coord.init T mc)).t.locks k = some l) :
    Accounted (corun ops (Coord.init T mc)) l :=
  (coInv_run ops _ (coInv_init T mc)).acc k l h

/-- **When a transaction ends, none of its recorded locks remains** — at every end-of-transaction
    site (commit, abort, complete_commit, complete_abort, force_resolve), after every sequence of
    coordinator operations: a lock that still belongs to the ended transaction carries a handle
    the coordinator never recorded (its Yes vote is still in flight or was refused). -/
theorem ended_tx_keeps_only_unrecorded_locks (T mc : Nat) (ops : List CoOp) (op : CoOp) (tx : Nat)
    (he : endOf op = some tx)
    (hok : (costep (corun ops (Coord.init T mc)) op).2 = .ok) (k : Nat) (l : KeyLock)
    (hl : aGet (costep (corun ops (Coord.init T mc)) op).1.t.locks k = some l) (hown : l.tx = tx) :
    (aGet (costep (corun ops (Coord.init T mc)) op).1.inflight l.handle).isSome ∨
      l.handle ∈ (costep (corun ops (Coord.init T mc)) op).1.unrecorded := by
  have hi := coInv_run ops _ (coInv_init T mc)
  generalize corun ops (Coord.init T mc) = c at hi hok hl ⊢
  have hi' := coInv_step c op hi
  obtain ⟨p, hp, hfin⟩ := end_ok_runs_finish c op tx he hok
  rcases hi'.acc k l hl with ha | ha | ⟨q, hq, _⟩
  · exact Or.inl ha
  · exact Or.inr ha
  · rw [hfin, hown] at hq
    simp [Coord.finish, aGet_aRemove] at hq

/-- …in particular, when every Yes vote of the transaction had been recorded (nothing of it in
    flight, nothing refused), it holds no lock at all afterwards. -/
theorem ended_tx_holds_no_lock (T mc : Nat) (ops : List CoOp) (op : CoOp) (tx : Nat)
    (he : endOf op = some tx)
    (hok : (costep (corun ops (Coord.init T mc)) op).2 = .ok)
    (hnone : ∀ h, aGet (costep (corun ops (Coord.init T mc)) op).1.inflight h ≠ some tx)
    (hun : (costep (corun ops (Coord.init T mc)) op).1.unrecorded = []) (k : Nat) (l : KeyLock)
    (hl : aGet (costep (corun ops (Coord.init T mc)) op).1.t.locks k = some l) : l.tx ≠ tx := by
  intro hown
  have hi' := coInv_step _ op (coInv_run ops _ (coInv_init T mc))
  rcases ended_tx_keeps_only_unrecorded_locks T mc ops op tx he hok k l hl hown with h | h
  · cases hx : aGet (costep (corun ops (Coord.init T mc)) op).1.inflight l.handle with
    | none => simp [hx] at h
    | some tx' =>
      have := hi'.iown k l tx' hl hx
      exact hnone l.handle (by rw [hx, ← this, hown])
  · rw [hun] at h; simp at h

/-- **…and it is absent from the wait-for graph** at every end-of-transaction site: no out-edges
    entry, no in-edges entry, in nobody's holder set, in nobody's waiter set, no wait-start, no
    priority (every operation sequence before it). -/
theorem ended_tx_absent_from_graph_every_site (T mc : Nat) (ops : List CoOp) (op : CoOp) (tx : Nat)
    (he : endOf op = some tx)
    (hok : (costep (corun ops (Coord.init T mc)) op).2 = .ok) :
    let g := (costep (corun ops (Coord.init T mc)) op).1.g
    aGet g.edges tx = none ∧ aGet g.reverse tx = none ∧ (∀ w, tx ∉ outs g w) ∧ (∀ h, tx ∉ ins g h) ∧
    aGet g.waitStarted tx = none ∧ aGet g.priorities tx = none := by
  have hi := coInv_run ops _ (coInv_init T mc)
  generalize corun ops (Coord.init T mc) = c at hi hok ⊢
  obtain ⟨p, _, hfin⟩ := end_ok_runs_finish c op tx he hok
  rw [hfin]
  exact removeTransaction_absent _ tx (releaseHandles_inv p.handles c.t c.g hi.nd hi.nd2 hi.tr).2.2

/-- **Timeouts**: every transaction `cleanup_timeouts` reports has left `pending`, and whatever
    lock it still owns carries a handle the coordinator never recorded. -/
theorem timed_out_tx_keeps_only_unrecorded_locks (T mc : Nat) (ops : List CoOp) (tx : Nat)
    (hgone : aGet (costep (corun ops (Coord.init T mc)) .cleanupTimeouts).1.pending tx = none)
    (k : Nat) (l : KeyLock)
    (hl : aGet (costep (corun ops (Coord.init T mc)) .cleanupTimeouts).1.t.locks k = some l) (hown : l.tx = tx) :
    (aGet (costep (corun ops (Coord.init T mc)) .cleanupTimeouts).1.inflight l.handle).isSome ∨
      l.handle ∈ (costep (corun ops (Coord.init T mc)) .cleanupTimeouts).1.unrecorded := by
  have hi' := coInv_step _ .cleanupTimeouts (coInv_run ops _ (coInv_init T mc))
  rcases hi'.acc k l hl with ha | ha | ⟨q, hq, _⟩
  · exact Or.inl ha
  · exact Or.inr ha
  · rw [hown, hgone] at hq; cases hq

/-- **…and a timed-out transaction is absent from the wait-for graph**: every transaction that was
    pending before `cleanup_timeouts` and is not afterwards has no entry in either index, is in
    nobody's holder or waiter set and has no wait-start / priority (every operation sequence). -/
theorem timed_out_tx_absent_from_graph (T mc : Nat) (ops : List CoOp) (tx : Nat) (p : PTx)
    (hbefore : aGet (corun ops (Coord.init T mc)).pending tx = some p)
    (hgone : aGet (costep (corun ops (Coord.init T mc)) .cleanupTimeouts).1.pending tx = none) :
    Absent (costep (corun ops (Coord.init T mc)) .cleanupTimeouts).1.g tx := by
  have hi := coInv_run ops _ (coInv_init T mc)
  generalize corun ops (Coord.init T mc) = c at hi hbefore hgone ⊢
  simp only [costep] at hgone ⊢
  have hloop := timeoutLoop_absent ((c.pending.filter (fun e => e.2.doomed)).map (·.1)) c tx hi
    (fun h => by rw [hbefore] at h; cases h)
  have hi1 := coInv_timeoutLoop ((c.pending.filter (fun e => e.2.doomed)).map (·.1)) c hi
  simp only [timeoutLoop] at hloop hi1
  generalize (List.foldl _ c _) = c1 at hloop hi1 hgone ⊢
  simp only [cleanupExpiredWait]
  exact absent_foldl_removeTransaction _ _ _ hi1.tr (Or.inr (hloop hgone))

/-- **Nothing left behind at quiescence**: when no transaction is pending, no vote is in flight
    and no vote was ever refused, the lock table is empty (every operation sequence). -/
theorem quiescent_lock_table_is_empty (T mc : Nat) (ops : List CoOp)
    (hp : (corun ops (Coord.init T mc)).pending = []) (hf : (corun ops (Coord.init T mc)).inflight = [])
    (hu : (corun ops (Coord.init T mc)).unrecorded = []) :
    (corun ops (Coord.init T mc)).t.locks = [] := by
  have hi := coInv_run ops _ (coInv_init T mc)
  generalize corun ops (Coord.init T mc) = c at hi hp hf hu ⊢
  cases hL : c.t.locks with
  | nil => rfl
  | cons e r =>
    obtain ⟨k, l⟩ := e
    have hl : aGet c.t.locks k = some l := by rw [hL]; simp [aGet]
    rcases hi.acc k l hl with ha | ha | ⟨q, hq, _⟩
    · rw [hf] at ha; simp [aGet] at ha
    · rw [hu] at ha; simp at ha
    · rw [hp] at hq; simp [aGet] at hq

/-! ### the orphan sweep (`release_orphaned_locks`) -/

/-- **The sweep removes exactly the orphaned locks** of any table with unique keys: a lock
    survives iff its owner is active or it was acquired at/after the partition start; survivors
    are unchanged; the returned count is the number of orphaned locks. -/
theorem sweep_removes_exactly_orphans (t : LockTable) (g : WaitGraph) (active : List Nat) (ps : Nat)
    (nd : (t.locks.map (·.1)).Nodup) (k : Nat) :
    aGet (orphanSweep t g active ps).1.locks k =
      (match aGet t.locks k with
       | some l => if l.tx ∉ active ∧ l.acquiredAt < ps then none else some l
       | none => none) ∧
    (orphanSweep t g active ps).2.2 = (orphanKeys t active ps).length := by
  refine ⟨?_, rfl⟩
  simp only [orphanSweep, foldl_sweepKey_locks]
  cases hl : aGet t.locks k with
  | none =>
    simp only
    split <;> rfl
  | some l =>
    simp only
    by_cases ho : l.tx ∉ active ∧ l.acquiredAt < ps
    · have : k ∈ (orphanKeys t active ps).map (·.1) := (mem_orphanKeys_fst t active ps k nd).mpr ⟨l, hl, ho.1, ho.2⟩
      simp [this, ho]
    · have : k ∉ (orphanKeys t active ps).map (·.1) := by
        intro hm
        obtain ⟨l', h1, h2, h3⟩ := (mem_orphanKeys_fst t active ps k nd).mp hm
        rw [hl] at h1; simp only [Option.some.injEq] at h1; subst h1
        exact ho ⟨h2, h3⟩
      simp only [this, ↓reduceIte, ho]

/-- **The sweep never touches a pending transaction**: after any sequence of coordinator
    operations, a lock whose owner is pending survives `release_orphaned_locks` whatever the
    partition start. -/
theorem sweep_keeps_locks_of_pending_tx (T mc : Nat) (ops : List CoOp) (ps k : Nat) (l : KeyLock) (p : PTx)
    (hl : aGet (corun ops (Coord.init T mc)).t.locks k = some l)
    (hp : aGet (corun ops (Coord.init T mc)).pending l.tx = some p) :
    aGet (costep (corun ops (Coord.init T mc)) (.sweep ps)).1.t.locks k = some l := by
  have hi := coInv_run ops _ (coInv_init T mc)
  generalize corun ops (Coord.init T mc) = c at hi hl hp ⊢
  simp only [costep]
  rw [(sweep_removes_exactly_orphans c.t c.g _ ps hi.nd k).1, hl]
  have : l.tx ∈ c.pending.map (·.1) := mem_keys_of_aGet _ _ _ hp
  simp [this]

/-- …and it removes every lock of a transaction that is no longer pending and that was acquired
    before the partition start — including the locks whose votes were never recorded. -/
theorem sweep_removes_old_locks_of_ended_tx (T mc : Nat) (ops : List CoOp) (ps k : Nat) (l : KeyLock)
    (hl : aGet (corun ops (Coord.init T mc)).t.locks k = some l)
    (hp : aGet (corun ops (Coord.init T mc)).pending l.tx = none) (hold : l.acquiredAt < ps) :
    aGet (costep (corun ops (Coord.init T mc)) (.sweep ps)).1.t.locks k = none := by
  have hi := coInv_run ops _ (coInv_init T mc)
  generalize corun ops (Coord.init T mc) = c at hi hl hp ⊢
  simp only [costep]
  rw [(sweep_removes_exactly_orphans c.t c.g _ ps hi.nd k).1, hl]
  have : l.tx ∉ c.pending.map (·.1) := by
    intro hm
    obtain ⟨v, hv⟩ := aGet_some_of_mem_keys _ _ hm
    rw [hp] at hv; cases hv
  simp [this, hold]

/-- **A swept transaction leaves the wait-for graph**: the owner of any lock the sweep removes is
    absent from the graph afterwards (every operation sequence, every partition start). -/
theorem swept_tx_absent_from_graph (T mc : Nat) (ops : List CoOp) (ps k : Nat) (l : KeyLock)
    (hl : aGet (corun ops (Coord.init T mc)).t.locks k = some l)
    (hp : aGet (corun ops (Coord.init T mc)).pending l.tx = none) (hold : l.acquiredAt < ps) :
    Absent (costep (corun ops (Coord.init T mc)) (.sweep ps)).1.g l.tx := by
  have hi := coInv_run ops _ (coInv_init T mc)
  generalize corun ops (Coord.init T mc) = c at hi hl hp ⊢
  simp only [costep, orphanSweep]
  apply absent_foldl_removeTransaction _ _ _ hi.tr
  left
  rw [mem_foldl_setInsert_snd]
  right
  refine ⟨k, (mem_orphanKeys c.t _ ps k l.tx hi.nd).mpr ⟨l, hl, rfl, ?_, hold⟩⟩
  intro hm
  obtain ⟨v, hv⟩ := aGet_some_of_mem_keys _ _ hm
  rw [hp] at hv; cases hv

/-! ### coordinator runs are lock-table runs -/

/-- **Refinement**: the lock table (and clock) reached by any sequence of coordinator operations is
    reached by a sequence of plain lock-table operations (`Props.lean`'s `run`), so every theorem
    about `run` holds of coordinator runs; the pair (table, graph) is reached by a sequence of
    coordinator-side operations (`crun`). -/
theorem coordinator_run_is_a_lock_table_run (T mc : Nat) (ops : List CoOp) :
    ∃ (cops : List COp) (lops : List Op),
      (corun ops (Coord.init T mc)).pair = crun cops (CSys.init T 0) ∧
      (run lops (Sys.init T)).t = (corun ops (Coord.init T mc)).t ∧
      (run lops (Sys.init T)).now = (corun ops (Coord.init T mc)).now := by
  obtain ⟨cops, h⟩ := corun_pair ops (Coord.init T mc)
  refine ⟨cops, cops.flatMap cproj, h, ?_⟩
  have := crun_table cops (CSys.init T 0) (Sys.init T) rfl rfl
  have hp : (Coord.init T mc).pair = CSys.init T 0 := rfl
  rw [hp] at h
  constructor
  · rw [this.1, ← h]; rfl
  · rw [this.2, ← h]; rfl

/-- the index-consistency theorem carried over: after any sequence of coordinator operations every
    held lock is filed under its own key, listed in its owner's index entry, carries an issued
    handle, and both maps have unique keys -/
theorem coordinator_tx_index_consistent (T mc : Nat) (ops : List CoOp) :
    let c := corun ops (Coord.init T mc)
    (∀ k l, aGet c.t.locks k = some l →
        l.key = k ∧ l.handle < c.t.nextHandle ∧ ∃ ks, aGet c.t.txLocks l.tx = some ks ∧ k ∈ ks) ∧
    (c.t.locks.map (·.1)).Nodup ∧ (c.t.txLocks.map (·.1)).Nodup := by
  obtain ⟨_, lops, _, ht, _⟩ := coordinator_run_is_a_lock_table_run T mc ops
  have hi := inv_run lops _ (inv_init T)
  simp only
  rw [← ht]
  refine ⟨?_, hi.nd, hi.nd2⟩
  intro k l h
  obtain ⟨h1, h2, _, _, r⟩ := hi.lk k l h
  exact ⟨h1, h2, r⟩

/-- **Exclusivity along coordinator-side runs** (the `*_with_wait_*` variants, the end-of-transaction
    sequence, the sweep …): two grants of the same key that are both still held (not released, not
    swept) and both unexpired belong to the same transaction.  The ghost is that of the projected
    lock-table run, which reaches the same table at the same time. -/
theorem at_most_one_unexpired_holder_coordinator (T mx : Nat) (cops : List COp) (g1 g2 : Grant) :
    let s := run (cops.flatMap cproj) (Sys.init T)
    s.t = (crun cops (CSys.init T mx)).t ∧ s.now = (crun cops (CSys.init T mx)).now ∧
    (g1 ∈ s.ghost → g2 ∈ s.ghost → g1.key = g2.key →
      g1.expired s.now = false → g2.expired s.now = false → g1.tx = g2.tx) := by
  have hr := crun_table cops (CSys.init T mx) (Sys.init T) rfl rfl
  refine ⟨hr.1, hr.2, ?_⟩
  intro h1 h2 hk e1 e2
  have hi := inv_run (cops.flatMap cproj) _ (inv_init T)
  obtain ⟨_, _, a3⟩ := hi.gh g1 h1
  obtain ⟨_, _, b3⟩ := hi.gh g2 h2
  simp only [Grant.expired, decide_eq_false_iff_not] at e1 e2
  rcases a3 with a3 | ⟨l, l1, l2, _⟩
  · omega
  · rcases b3 with b3 | ⟨l', l1', l2', _⟩
    · omega
    · rw [hk, l1'] at l1; simp at l1; subst l1; rw [← l2, ← l2']

/-- **A prepare on the coordinator path is granted exactly when no requested key has a live
    foreign holder**, it then changes the table exactly as `try_lock` does (all-or-nothing, see
    `Props.grant_all_or_nothing`), and a refused prepare leaves the table untouched. -/
theorem prepare_granted_iff_no_live_foreign_holder (t : LockTable) (g : WaitGraph) (now wnow tx : Nat)
    (keys : List Nat) (prio : Option Nat) :
    ((∃ h, (tryLockWait t g now wnow tx keys prio).2.2 = .ok h) ↔
      ∀ k ∈ keys, ∀ l, aGet t.locks k = some l → l.isExpired now = true ∨ l.tx = tx) ∧
    (tryLockWait t g now wnow tx keys prio).1 = (tryLock t now tx keys).1 ∧
    ((∀ h, (tryLockWait t g now wnow tx keys prio).2.2 ≠ .ok h) → (tryLockWait t g now wnow tx keys prio).1 = t) := by
  refine ⟨?_, tryLockWait_table t g now wnow tx keys prio, ?_⟩
  · rw [tryLockWait_granted_iff, firstConflict_none_iff]
  · intro hno
    rw [tryLockWait_table]
    unfold tryLock
    cases hc : firstConflict t.locks now tx keys with
    | some c => rfl
    | none =>
      exfalso
      obtain ⟨h, hh⟩ := (tryLockWait_granted_iff t g now wnow tx keys prio).mpr hc
      exact hno h hh

/-! ### the remaining wait-for-graph operations -/

/-- **`would_create_cycle(waiter, holder)` is exact**: it answers `true` precisely when the waiter
    is the holder or the holder already reaches the waiter along recorded wait-for edges (every
    adjacency of any size, in any iteration order; the fuel of the model's loop always suffices). -/
theorem would_create_cycle_exact (g : Adj) (waiter holder : Nat) :
    wouldCreateCycle g waiter holder = true ↔ waiter = holder ∨ Reach g holder waiter :=
  wouldCreateCycle_iff g waiter holder

/-- **Deadlock prevention is sound**: recording an edge for which `would_create_cycle` answered
    `false` in an acyclic wait-for relation leaves it acyclic, and one for which it answered `true`
    (other than a self-wait, which `add_wait` ignores) creates a cycle. -/
theorem would_create_cycle_prevention_sound (g : Adj) (waiter holder : Nat) (hac : ¬ HasCycle g) :
    (wouldCreateCycle g waiter holder = false → ¬ HasCycle (addToSet g waiter holder)) ∧
    (wouldCreateCycle g waiter holder = true → waiter ≠ holder → HasCycle (addToSet g waiter holder)) := by
  constructor
  · intro hf
    apply acyclic_addToSet g waiter holder hac
    rw [← wouldCreateCycle_iff, hf]; simp
  · intro ht hne
    rcases (wouldCreateCycle_iff g waiter holder).mp ht with e | r
    · exact absurd e hne
    · exact ⟨waiter, holder, (mem_neighbors_addToSet g waiter holder waiter holder).mpr (Or.inr ⟨rfl, rfl⟩),
        reach_addToSet_mono g waiter holder holder waiter r⟩

/-- **A reported cycle never repeats a transaction** and is therefore no longer than the number of
    waiting transactions (entries of `edges`) — every adjacency, every iteration order. -/
theorem reported_cycle_simple_and_bounded (g : Adj) (c : List Nat) (h : c ∈ detectCycles g) :
    c.Nodup ∧ c.length ≤ g.length ∧ ∀ x ∈ c, x ∈ g.map (·.1) :=
  ⟨detectCycles_nodup g c h, detectCycles_length_le g c h, isCycle_mem_key g c (detectCycles_sound g c h)⟩

/-- **The detector is exact whenever `max_cycle_length` covers the graph** (upgrade of
    `Props.detector_reports_when_cycle_fits`: the bound relating cycle length to the number of
    waiting transactions is now proved): an enabled detector whose `max_cycle_length` is at least
    the number of waiting transactions reports a deadlock exactly when the recorded wait-for
    relation contains a cycle. -/
theorem detector_exact_when_bound_covers_graph (cfg : DetectorCfg) (wg : WaitGraph) (lc : Option (Nat → Nat))
    (g : Adj) (hen : cfg.enabled = true) (hb : g.length ≤ cfg.maxCycleLength) :
    detect cfg wg lc g ≠ [] ↔ HasCycle g := by
  constructor
  · intro h
    cases hd : detect cfg wg lc g with
    | nil => exact absurd hd h
    | cons e r =>
      obtain ⟨c, v⟩ := e
      have hm : (c, v) ∈ detect cfg wg lc g := by rw [hd]; exact List.mem_cons_self
      exact hasCycle_of_isCycle g c (detectCycles_sound g c (detect_subset cfg wg lc g c v hm).1)
  · intro h
    have hne := detectCycles_complete g h
    cases hc : detectCycles g with
    | nil => exact absurd hc hne
    | cons c r =>
      have hm : c ∈ detectCycles g := by rw [hc]; exact List.mem_cons_self
      exact detect_nonempty cfg wg lc g hen c hm (Nat.le_trans (detectCycles_length_le g c hm) hb)

/-- **`cleanup_stale_edges(ttl)`** on a graph whose reverse index is the transpose of its edges:
    every transaction whose recorded wait started more than `ttl` ago is absent from the graph
    afterwards, the edges between the other transactions are exactly the old ones, the reverse
    index is still the transpose, and the returned count is the number of stale wait-starts. -/
theorem cleanup_stale_edges_exact (g : WaitGraph) (now ttl : Nat) (hT : Transpose g) :
    (∀ tx s, (tx, s) ∈ g.waitStarted → now - s > ttl → Absent (cleanupStaleEdges g now ttl).1 tx) ∧
    (∀ a b, b ∈ outs (cleanupStaleEdges g now ttl).1 a ↔
        b ∈ outs g a ∧ a ∉ staleTxs g now ttl ∧ b ∉ staleTxs g now ttl) ∧
    Transpose (cleanupStaleEdges g now ttl).1 ∧
    (cleanupStaleEdges g now ttl).2 = (staleTxs g now ttl).length := by
  refine ⟨?_, ?_, transpose_foldl_removeTransaction _ _ hT, rfl⟩
  · intro tx s hm hs
    exact absent_foldl_removeTransaction _ _ _ hT (Or.inl ((mem_staleTxs g now ttl tx).mpr ⟨s, hm, hs⟩))
  · intro a b
    exact mem_outs_foldl_removeTransaction _ g hT a b

/-- `WaitForGraph::clear` leaves nothing: every transaction is absent -/
theorem clear_leaves_nothing (g : WaitGraph) (tx : Nat) : Absent (clearGraph g) tx := by
  simp [Absent, clearGraph, WaitGraph.empty, aGet, outs, ins]

/-- **A refused prepare waits for exactly its blockers**: on the coordinator's graph (no per-transaction
    edge limit) a prepare that is refused adds a wait-for edge from the transaction to every live
    foreign holder of a requested key, and no other edge — the recorded wait-for relation is the
    lock-conflict relation of that moment. -/
theorem refused_prepare_waits_for_every_blocker (t : LockTable) (g : WaitGraph) (now wnow tx : Nat)
    (keys : List Nat) (prio : Option Nat) (hmx : g.maxEdgesPerTx = 0)
    (href : ∀ h, (tryLockWait t g now wnow tx keys prio).2.2 ≠ .ok h) (a b : Nat) :
    b ∈ outs (tryLockWait t g now wnow tx keys prio).2.1 a ↔
      b ∈ outs g a ∨ (a = tx ∧ ∃ k ∈ keys, ∃ l, aGet t.locks k = some l ∧ l.isExpired now = false ∧
        l.tx ≠ tx ∧ l.tx = b) := by
  have hne : (conflicts t.locks now tx keys).isEmpty = false := by
    cases he : (conflicts t.locks now tx keys).isEmpty with
    | false => rfl
    | true =>
      exfalso
      have hc : firstConflict t.locks now tx keys = none := by
        rw [← conflicts_nil_iff]; exact List.isEmpty_iff.mp he
      obtain ⟨h, hh⟩ := (tryLockWait_granted_iff t g now wnow tx keys prio).mpr hc
      exact href h hh
  unfold tryLockWait
  simp only [hne, Bool.false_eq_true, ↓reduceIte]
  rw [mem_outs_foldl_addWait _ g wnow tx prio hmx, mem_foldl_setInsert_snd]
  simp only [List.not_mem_nil, false_or, mem_conflicts]
  constructor
  · rintro (h | ⟨h1, ⟨k, hk, l, h2, h3, h4, h5⟩, _⟩)
    · exact Or.inl h
    · exact Or.inr ⟨h1, k, hk, l, h2, h3, h4, h5⟩
  · rintro (h | ⟨h1, k, hk, l, h2, h3, h4, h5⟩)
    · exact Or.inl h
    · exact Or.inr ⟨h1, ⟨k, hk, l, h2, h3, h4, h5⟩, fun e => h4 (by rw [h5, e])⟩

/-- …and this is the situation of every reachable coordinator state: its graph has no edge limit,
    so after any operation sequence a refused `handle_prepare` leaves the transaction waiting for
    every live foreign holder of the keys it asked for. -/
theorem coordinator_refused_prepare_waits_for_every_blocker (T mc : Nat) (ops : List CoOp) (tx : Nat)
    (keys : List Nat) (k : Nat) (l : KeyLock)
    (href : ∀ h, (costep (corun ops (Coord.init T mc)) (.prepare tx keys)).2 ≠ .yes h)
    (hk : k ∈ keys) (hl : aGet (corun ops (Coord.init T mc)).t.locks k = some l)
    (hlive : l.isExpired (corun ops (Coord.init T mc)).now = false) (hother : l.tx ≠ tx) :
    l.tx ∈ outs (costep (corun ops (Coord.init T mc)) (.prepare tx keys)).1.g tx := by
  have hmx := corun_mx T mc ops
  generalize corun ops (Coord.init T mc) = c at hmx href hl hlive ⊢
  have href2 : ∀ h, (tryLockWait c.t c.g c.now c.now tx keys none).2.2 ≠ .ok h := by
    intro h hh
    apply href h
    simp only [costep]
    cases hr : tryLockWait c.t c.g c.now c.now tx keys none with
    | mk t' r =>
      obtain ⟨g', res⟩ := r
      rw [hr] at hh
      simp only at hh
      subst hh
      rfl
  have hg : (costep c (.prepare tx keys)).1.g = (tryLockWait c.t c.g c.now c.now tx keys none).2.1 := by
    simp only [costep]
    cases hr : tryLockWait c.t c.g c.now c.now tx keys none with
    | mk t' r =>
      obtain ⟨g', res⟩ := r
      cases res <;> rfl
  rw [hg, refused_prepare_waits_for_every_blocker c.t c.g c.now c.now tx keys none hmx href2]
  exact Or.inr ⟨rfl, k, hk, l, hl, hlive, hother, rfl⟩

/-! non-vacuity -/

def demo : List CoOp :=
  [.begin [0, 1], .begin [0], .prepare 1 [5, 6], .deliver 0 0, .prepare 1 [6, 7], .deliver 1 1,
   .prepare 2 [6], .voteNo 2 0]

-- tx 1 is Prepared with two recorded handles, tx 2 (refused, waits for tx 1) is Aborting
example : ((corun demo (Coord.init 3 10)).pending.map fun e => (e.1, e.2.phase, e.2.handles)) =
    [(2, Phase.aborting, []), (1, Phase.prepared, [1, 0])] := by decide
example : outs (corun demo (Coord.init 3 10)).g 2 = [1] := by decide
-- commit of tx 1 answers ok, releases the three keys held under both handles and clears the graph
example : (costep (corun demo (Coord.init 3 10)) (.commit 1)).2 matches .ok := by decide
example : (costep (corun demo (Coord.init 3 10)) (.commit 1)).1.t.locks = [] ∧
    outs (costep (corun demo (Coord.init 3 10)) (.commit 1)).1.g 2 = [] := by decide
-- a vote still in flight when its transaction is aborted: the lock stays, unrecorded, until the sweep
def leak : List CoOp := [.begin [0], .prepare 1 [4], .abort 1, .deliver 0 0, .advance 2]
example : (corun leak (Coord.init 30 10)).t.locks.map (·.1) = [4] ∧ (corun leak (Coord.init 30 10)).unrecorded = [0] ∧
    (corun leak (Coord.init 30 10)).pending = [] := by decide
example : (costep (corun leak (Coord.init 30 10)) (.sweep 1)).1.t.locks = [] ∧
    (costep (corun leak (Coord.init 30 10)) (.sweep 0)).1.t.locks.map (·.1) = [4] := by decide
example : endOf (.forceResolve 3 true) = some 3 := rfl
example : detect { enabled := true, policy := .youngest, maxCycleLength := 3, cascadeDepth := 3 } (WaitGraph.empty 0) none
    [(1, [2]), (2, [3, 1]), (3, [1])] = [([1, 2, 3], 3), ([1, 2], 2)] := by decide
example : wouldCreateCycle [(2, [3]), (3, [1, 4])] 1 2 = true ∧ wouldCreateCycle [(2, [3]), (3, [4])] 1 2 = false := by decide
example : ¬ HasCycle [(2, [3]), (3, [4])] := fun hc => detectCycles_complete _ hc (by decide)
def staleDemo : WaitGraph :=
  (crun [.advance 5, .gAdd 1 2 none, .advance 4, .gAdd 3 2 none] (CSys.init 3 0)).g
example : Transpose staleDemo := (pairInv_run _ _ (pairInv_init 3 0)).tr
example : staleDemo.waitStarted = [(3, 9), (1, 5)] ∧ (cleanupStaleEdges staleDemo 10 3).1.edges = [(3, [2])] ∧
    (cleanupStaleEdges staleDemo 10 3).2 = 1 := by decide
-- deadlines: tx 1 holds key 1, tx 2 waits for it; tx 1's deadline passes; cleanup_timeouts ends it
def late : List CoOp := [.begin [0], .begin [0], .prepare 1 [1], .deliver 0 0, .prepare 2 [1], .doom 1]
example : ins (corun late (Coord.init 30 10)).g 1 = [2] := by decide
example : (costep (corun late (Coord.init 30 10)) .cleanupTimeouts).1.pending.map (·.1) = [2] ∧
    (costep (corun late (Coord.init 30 10)) .cleanupTimeouts).1.g.edges = [(2, [])] ∧
    (costep (corun late (Coord.init 30 10)) .cleanupTimeouts).1.t.locks = [] := by decide

end Neumann.Locks.CoordProps
