import NeumannModel.Locks.CoordLemmas
import NeumannModel.Locks.GraphLemmas
/-
  C12 — property theorems about the coordinator model (`CoordModel.lean`): which locks are left
  when a transaction ends at ANY of the end-of-transaction sites, the orphan sweep, and the
  refinement that carries the lock-table theorems of `Props.lean` over to coordinator runs.
  ONLY property statements and non-vacuity examples; helpers are in `CoordLemmas.lean`.

  `corun ops (Coord.init T mc)` folds `costep` over any list of coordinator operations:
  begin / handle_prepare / record_vote (Yes vote in flight, or No) / commit / abort /
  complete_commit / complete_abort / force_resolve / cleanup_timeouts / recover /
  release_orphaned_locks / clock / save-load / a deadline passing.
-/
namespace Neumann.Locks.CoordProps
open Neumann.Locks

/-- **Every lock is accounted for.**  After any sequence of coordinator operations, each lock in
    the table carries a handle whose Yes vote is still in flight, was refused by `record_vote`
    (transaction unknown / not Preparing / duplicate shard), or is recorded in the votes of its
    owner, which is still pending. -/
theorem every_lock_is_accounted (T mc : Nat) (ops : List CoOp) (k : Nat) (l : KeyLock)
    (h : aGet (corun ops (Coord.init T mc)).t.locks k = some l) :
    Accounted (corun ops (Coord.init T mc)) l :=
  (coInv_run ops _ (coInv_init T mc)).acc k l h

/-- **When a transaction ends, none of its recorded locks remains** — at every end-of-transaction
    site (commit, abort, complete_commit, complete_abort, force_resolve), after every sequence of
    coordinator operations: a lock that still belongs to the ended transaction carries a handle
    the coordinator never recorded (its Yes vote is still in flight or was refused). -/
theorem ended_tx_keeps_only_unrecorded_locks (T mc : Nat) (ops : List CoOp) (op : CoOp) (tx : Nat)
    (he : endOf op = some tx)
    (hok : (costep (corun ops (Coord.init T mc)) op).2 = .ok) (k : Nat) (l : KeyLock)
    (hl : aGet (costep (corun ops (Coord.init T mc)) op).1.t.locks k = some l) (hown : l.tx = tx) :
    (aGet (costep (corun ops (Coord.init T mc)) op).1.inflight l.handle).isSome ∨
      l.handle ∈ (costep (corun ops (Coord.init T mc)) op).1.unrecorded := by
  have hi := coInv_run ops _ (coInv_init T mc)
  generalize corun ops (Coord.init T mc) = c at hi hok hl ⊢
  have hi' := coInv_step c op hi
  obtain ⟨p, hp, hfin⟩ := end_ok_runs_finish c op tx he hok
  rcases hi'.acc k l hl with ha | ha | ⟨q, hq, _⟩
  · exact Or.inl ha
  · exact Or.inr ha
  · rw [hfin, hown] at hq
    simp [Coord.finish, aGet_aRemove] at hq

/-- …in particular, when every Yes vote of the transaction had been recorded (nothing of it in
    flight, nothing refused), it holds no lock at all afterwards. -/
theorem ended_tx_holds_no_lock (T mc : Nat) (ops : List CoOp) (op : CoOp) (tx : Nat)
    (he : endOf op = some tx)
    (hok : (costep (corun ops (Coord.init T mc)) op).2 = .ok)
    (hnone : ∀ h, aGet (costep (corun ops (Coord.init T mc)) op).1.inflight h ≠ some tx)
    (hun : (costep (corun ops (Coord.init T mc)) op).1.unrecorded = []) (k : Nat) (l : KeyLock)
    (hl : aGet (costep (corun ops (Coord.init T mc)) op).1.t.locks k = some l) : l.tx ≠ tx := by
  intro hown
  have hi' := coInv_step _ op (coInv_run ops _ (coInv_init T mc))
  rcases ended_tx_keeps_only_unrecorded_locks T mc ops op tx he hok k l hl hown with h | h
  · cases hx : aGet (costep (corun ops (Coord.init T mc)) op).1.inflight l.handle with
    | none => simp [hx] at h
    | some tx' =>
      have := hi'.iown k l tx' hl hx
      exact hnone l.handle (by rw [hx, ← this, hown])
  · rw [hun] at h; simp at h

/-- **…and it is absent from the wait-for graph** at every end-of-transaction site: no out-edges
    entry, no in-edges entry, in nobody's holder set, in nobody's waiter set, no wait-start, no
    priority (every operation sequence before it). -/
theorem ended_tx_absent_from_graph_every_site (T mc : Nat) (ops : List CoOp) (op : CoOp) (tx : Nat)
    (he : endOf op = some tx)
    (hok : (costep (corun ops (Coord.init T mc)) op).2 = .ok) :
    let g := (costep (corun ops (Coord.init T mc)) op).1.g
    aGet g.edges tx = none ∧ aGet g.reverse tx = none ∧ (∀ w, tx ∉ outs g w) ∧ (∀ h, tx ∉ ins g h) ∧
    aGet g.waitStarted tx = none ∧ aGet g.priorities tx = none := by
  have hi := coInv_run ops _ (coInv_init T mc)
  generalize corun ops (Coord.init T mc) = c at hi hok ⊢
  obtain ⟨p, _, hfin⟩ := end_ok_runs_finish c op tx he hok
  rw [hfin]
  exact removeTransaction_absent _ tx (releaseHandles_inv p.handles c.t c.g hi.nd hi.nd2 hi.tr).2.2

/-- **Timeouts**: every transaction `cleanup_timeouts` reports has left `pending`, and whatever
    lock it still owns carries a handle the coordinator never recorded. -/
theorem timed_out_tx_keeps_only_unrecorded_locks (T mc : Nat) (ops : List CoOp) (tx : Nat)
    (hgone : aGet (costep (corun ops (Coord.init T mc)) .cleanupTimeouts).1.pending tx = none)
    (k : Nat) (l : KeyLock)
    (hl : aGet (costep (corun ops (Coord.init T mc)) .cleanupTimeouts).1.t.locks k = some l) (hown : l.tx = tx) :
    (aGet (costep (corun ops (Coord.init T mc)) .cleanupTimeouts).1.inflight l.handle).isSome ∨
      l.handle ∈ (costep (corun ops (Coord.init T mc)) .cleanupTimeouts).1.unrecorded := by
  have hi' := coInv_step _ .cleanupTimeouts (coInv_run ops _ (coInv_init T mc))
  rcases hi'.acc k l hl with ha | ha | ⟨q, hq, _⟩
  · exact Or.inl ha
  · exact Or.inr ha
  · rw [hown, hgone] at hq; cases hq

/-- **Nothing left behind at quiescence**: when no transaction is pending, no vote is in flight
    and no vote was ever refused, the lock table is empty (every operation sequence). -/
theorem quiescent_lock_table_is_empty (T mc : Nat) (ops : List CoOp)
    (hp : (corun ops (Coord.init T mc)).pending = []) (hf : (corun ops (Coord.init T mc)).inflight = [])
    (hu : (corun ops (Coord.init T mc)).unrecorded = []) :
    (corun ops (Coord.init T mc)).t.locks = [] := by
  have hi := coInv_run ops _ (coInv_init T mc)
  generalize corun ops (Coord.init T mc) = c at hi hp hf hu ⊢
  cases hL : c.t.locks with
  | nil => rfl
  | cons e r =>
    obtain ⟨k, l⟩ := e
    have hl : aGet c.t.locks k = some l := by rw [hL]; simp [aGet]
    rcases hi.acc k l hl with ha | ha | ⟨q, hq, _⟩
    · rw [hf] at ha; simp [aGet] at ha
    · rw [hu] at ha; simp at ha
    · rw [hp] at hq; simp [aGet] at hq

/-! ### the orphan sweep (`release_orphaned_locks`) -/

/-- **The sweep removes exactly the orphaned locks** of any table with unique keys: a lock
    survives iff its owner is active or it was acquired at/after the partition start; survivors
    are unchanged; the returned count is the number of orphaned locks. -/
theorem sweep_removes_exactly_orphans (t : LockTable) (g : WaitGraph) (active : List Nat) (ps : Nat)
    (nd : (t.locks.map (·.1)).Nodup) (k : Nat) :
    aGet (orphanSweep t g active ps).1.locks k =
      (match aGet t.locks k with
       | some l => if l.tx ∉ active ∧ l.acquiredAt < ps then none else some l
       | none => none) ∧
    (orphanSweep t g active ps).2.2 = (orphanKeys t active ps).length := by
  refine ⟨?_, rfl⟩
  simp only [orphanSweep, foldl_sweepKey_locks]
  cases hl : aGet t.locks k with
  | none =>
    simp only
    split <;> rfl
  | some l =>
    simp only
    by_cases ho : l.tx ∉ active ∧ l.acquiredAt < ps
    · have : k ∈ (orphanKeys t active ps).map (·.1) := (mem_orphanKeys_fst t active ps k nd).mpr ⟨l, hl, ho.1, ho.2⟩
      simp [this, ho]
    · have : k ∉ (orphanKeys t active ps).map (·.1) := by
        intro hm
        obtain ⟨l', h1, h2, h3⟩ := (mem_orphanKeys_fst t active ps k nd).mp hm
        rw [hl] at h1; simp only [Option.some.injEq] at h1; subst h1
        exact ho ⟨h2, h3⟩
      simp only [this, ↓reduceIte, ho]

/-- **The sweep never touches a pending transaction**: after any sequence of coordinator
    operations, a lock whose owner is pending survives `release_orphaned_locks` whatever the
    partition start. -/
theorem sweep_keeps_locks_of_pending_tx (T mc : Nat) (ops : List CoOp) (ps k : Nat) (l : KeyLock) (p : PTx)
    (hl : aGet (corun ops (Coord.init T mc)).t.locks k = some l)
    (hp : aGet (corun ops (Coord.init T mc)).pending l.tx = some p) :
    aGet (costep (corun ops (Coord.init T mc)) (.sweep ps)).1.t.locks k = some l := by
  have hi := coInv_run ops _ (coInv_init T mc)
  generalize corun ops (Coord.init T mc) = c at hi hl hp ⊢
  simp only [costep]
  rw [(sweep_removes_exactly_orphans c.t c.g _ ps hi.nd k).1, hl]
  have : l.tx ∈ c.pending.map (·.1) := mem_keys_of_aGet _ _ _ hp
  simp [this]

/-- …and it removes every lock of a transaction that is no longer pending and that was acquired
    before the partition start — including the locks whose votes were never recorded. -/
theorem sweep_removes_old_locks_of_ended_tx (T mc : Nat) (ops : List CoOp) (ps k : Nat) (l : KeyLock)
    (hl : aGet (corun ops (Coord.init T mc)).t.locks k = some l)
    (hp : aGet (corun ops (Coord.init T mc)).pending l.tx = none) (hold : l.acquiredAt < ps) :
    aGet (costep (corun ops (Coord.init T mc)) (.sweep ps)).1.t.locks k = none := by
  have hi := coInv_run ops _ (coInv_init T mc)
  generalize corun ops (Coord.init T mc) = c at hi hl hp ⊢
  simp only [costep]
  rw [(sweep_removes_exactly_orphans c.t c.g _ ps hi.nd k).1, hl]
  have : l.tx ∉ c.pending.map (·.1) := by
    intro hm
    obtain ⟨v, hv⟩ := aGet_some_of_mem_keys _ _ hm
    rw [hp] at hv; cases hv
  simp [this, hold]

/-! ### coordinator runs are lock-table runs -/

/-- **Refinement**: the lock table (and clock) reached by any sequence of coordinator operations is
    reached by a sequence of plain lock-table operations (`Props.lean`'s `run`), so every theorem
    about `run` holds of coordinator runs; the pair (table, graph) is reached by a sequence of
    coordinator-side operations (`crun`). -/
theorem coordinator_run_is_a_lock_table_run (T mc : Nat) (ops : List CoOp) :
    ∃ (cops : List COp) (lops : List Op),
      (corun ops (Coord.init T mc)).pair = crun cops (CSys.init T 0) ∧
      (run lops (Sys.init T)).t = (corun ops (Coord.init T mc)).t ∧
      (run lops (Sys.init T)).now = (corun ops (Coord.init T mc)).now := by
  obtain ⟨cops, h⟩ := corun_pair ops (Coord.init T mc)
  refine ⟨cops, cops.flatMap cproj, h, ?_⟩
  have := crun_table cops (CSys.init T 0) (Sys.init T) rfl rfl
  have hp : (Coord.init T mc).pair = CSys.init T 0 := rfl
  rw [hp] at h
  constructor
  · rw [this.1, ← h]; rfl
  · rw [this.2, ← h]; rfl

/-- the index-consistency theorem carried over: after any sequence of coordinator operations every
    held lock is filed under its own key, listed in its owner's index entry, carries an issued
    handle, and both maps have unique keys -/
theorem coordinator_tx_index_consistent (T mc : Nat) (ops : List CoOp) :
    let c := corun ops (Coord.init T mc)
    (∀ k l, aGet c.t.locks k = some l →
        l.key = k ∧ l.handle < c.t.nextHandle ∧ ∃ ks, aGet c.t.txLocks l.tx = some ks ∧ k ∈ ks) ∧
    (c.t.locks.map (·.1)).Nodup ∧ (c.t.txLocks.map (·.1)).Nodup := by
  obtain ⟨_, lops, _, ht, _⟩ := coordinator_run_is_a_lock_table_run T mc ops
  have hi := inv_run lops _ (inv_init T)
  simp only
  rw [← ht]
  refine ⟨?_, hi.nd, hi.nd2⟩
  intro k l h
  obtain ⟨h1, h2, _, _, r⟩ := hi.lk k l h
  exact ⟨h1, h2, r⟩

/-- **Exclusivity along coordinator-side runs** (the `*_with_wait_*` variants, the end-of-transaction
    sequence, the sweep …): two grants of the same key that are both still held (not released, not
    swept) and both unexpired belong to the same transaction.  The ghost is that of the projected
    lock-table run, which reaches the same table at the same time. -/
theorem at_most_one_unexpired_holder_coordinator (T mx : Nat) (cops : List COp) (g1 g2 : Grant) :
    let s := run (cops.flatMap cproj) (Sys.init T)
    s.t = (crun cops (CSys.init T mx)).t ∧ s.now = (crun cops (CSys.init T mx)).now ∧
    (g1 ∈ s.ghost → g2 ∈ s.ghost → g1.key = g2.key →
      g1.expired s.now = false → g2.expired s.now = false → g1.tx = g2.tx) := by
  have hr := crun_table cops (CSys.init T mx) (Sys.init T) rfl rfl
  refine ⟨hr.1, hr.2, ?_⟩
  intro h1 h2 hk e1 e2
  have hi := inv_run (cops.flatMap cproj) _ (inv_init T)
  obtain ⟨_, _, a3⟩ := hi.gh g1 h1
  obtain ⟨_, _, b3⟩ := hi.gh g2 h2
  simp only [Grant.expired, decide_eq_false_iff_not] at e1 e2
  rcases a3 with a3 | ⟨l, l1, l2, _⟩
  · omega
  · rcases b3 with b3 | ⟨l', l1', l2', _⟩
    · omega
    · rw [hk, l1'] at l1; simp at l1; subst l1; rw [← l2, ← l2']

/-- **A prepare on the coordinator path is granted exactly when no requested key has a live
    foreign holder**, it then changes the table exactly as `try_lock` does (all-or-nothing, see
    `Props.grant_all_or_nothing`), and a refused prepare leaves the table untouched. -/
theorem prepare_granted_iff_no_live_foreign_holder (t : LockTable) (g : WaitGraph) (now wnow tx : Nat)
    (keys : List Nat) (prio : Option Nat) :
    ((∃ h, (tryLockWait t g now wnow tx keys prio).2.2 = .ok h) ↔
      ∀ k ∈ keys, ∀ l, aGet t.locks k = some l → l.isExpired now = true ∨ l.tx = tx) ∧
    (tryLockWait t g now wnow tx keys prio).1 = (tryLock t now tx keys).1 ∧
    ((∀ h, (tryLockWait t g now wnow tx keys prio).2.2 ≠ .ok h) → (tryLockWait t g now wnow tx keys prio).1 = t) := by
  refine ⟨?_, tryLockWait_table t g now wnow tx keys prio, ?_⟩
  · rw [tryLockWait_granted_iff, firstConflict_none_iff]
  · intro hno
    rw [tryLockWait_table]
    unfold tryLock
    cases hc : firstConflict t.locks now tx keys with
    | some c => rfl
    | none =>
      exfalso
      obtain ⟨h, hh⟩ := (tryLockWait_granted_iff t g now wnow tx keys prio).mpr hc
      exact hno h hh

/-! non-vacuity -/

def demo : List CoOp :=
  [.begin [0, 1], .begin [0], .prepare 1 [5, 6], .deliver 0 0, .prepare 1 [6, 7], .deliver 1 1,
   .prepare 2 [6], .voteNo 2 0]

-- tx 1 is Prepared with two recorded handles, tx 2 (refused, waits for tx 1) is Aborting
example : ((corun demo (Coord.init 3 10)).pending.map fun e => (e.1, e.2.phase, e.2.handles)) =
    [(2, Phase.aborting, []), (1, Phase.prepared, [1, 0])] := by decide
example : outs (corun demo (Coord.init 3 10)).g 2 = [1] := by decide
-- commit of tx 1 answers ok, releases the three keys held under both handles and clears the graph
example : (costep (corun demo (Coord.init 3 10)) (.commit 1)).2 matches .ok := by decide
example : (costep (corun demo (Coord.init 3 10)) (.commit 1)).1.t.locks = [] ∧
    outs (costep (corun demo (Coord.init 3 10)) (.commit 1)).1.g 2 = [] := by decide
-- a vote still in flight when its transaction is aborted: the lock stays, unrecorded, until the sweep
def leak : List CoOp := [.begin [0], .prepare 1 [4], .abort 1, .deliver 0 0, .advance 2]
example : (corun leak (Coord.init 30 10)).t.locks.map (·.1) = [4] ∧ (corun leak (Coord.init 30 10)).unrecorded = [0] ∧
    (corun leak (Coord.init 30 10)).pending = [] := by decide
example : (costep (corun leak (Coord.init 30 10)) (.sweep 1)).1.t.locks = [] ∧
    (costep (corun leak (Coord.init 30 10)) (.sweep 0)).1.t.locks.map (·.1) = [4] := by decide
example : endOf (.forceResolve 3 true) = some 3 := rfl

end Neumann.Locks.CoordProps
