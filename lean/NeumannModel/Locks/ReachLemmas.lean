import NeumannModel.Locks.GraphLemmas
import NeumannModel.Locks.WaitLemmas
/-
  C12 — `WaitForGraph::would_create_cycle` (iterative DFS with an explicit stack) decides
  reachability holder →* waiter; adding an edge for which it answers `false` to an acyclic
  relation keeps it acyclic.  Core Lean only.
-/
namespace Neumann.Locks

/-! ### soundness: `true` only with a path -/

theorem wccLoop_sound (g : Adj) (w h : Nat) (fuel : Nat) (visited stack : List Nat)
    (hS : ∀ x ∈ stack, Reach g h x) (ht : wccLoop g w fuel visited stack = true) : Reach g h w := by
  induction fuel generalizing visited stack with
  | zero => simp [wccLoop] at ht
  | succ n ih =>
    cases stack with
    | nil => simp [wccLoop] at ht
    | cons cur rest =>
      simp only [wccLoop] at ht
      by_cases e1 : cur = w
      · subst e1; exact hS cur List.mem_cons_self
      · simp only [e1, ↓reduceIte] at ht
        by_cases e2 : cur ∈ visited
        · simp only [e2, ↓reduceIte] at ht
          exact ih visited rest (fun x hx => hS x (List.mem_cons_of_mem _ hx)) ht
        · simp only [e2, ↓reduceIte] at ht
          refine ih _ _ ?_ ht
          intro x hx
          simp only [List.mem_append, List.mem_reverse] at hx
          rcases hx with hx | hx
          · exact (hS cur List.mem_cons_self).trans (Reach.step hx (Reach.refl x))
          · exact hS x (List.mem_cons_of_mem _ hx)

/-! ### the fuel is enough -/

/-- edges leaving vertices that have not been expanded yet (an upper bound of what can still be pushed) -/
def remaining : Adj → List Nat → Nat
  | [], _ => 0
  | (k, ns) :: r, visited => (if k ∈ visited then 0 else ns.length) + remaining r visited

theorem remaining_nil (g : Adj) : remaining g [] = edgeCount g := by
  induction g with
  | nil => rfl
  | cons p r ih =>
    obtain ⟨k, ns⟩ := p
    simp only [remaining, List.not_mem_nil, ↓reduceIte, ih, edgeCount, List.map_cons, List.sum_cons]

theorem remaining_mono (g : Adj) (v : Nat) (visited : List Nat) :
    remaining g (v :: visited) ≤ remaining g visited := by
  induction g with
  | nil => simp [remaining]
  | cons p r ih =>
    obtain ⟨k, ns⟩ := p
    simp only [remaining]
    by_cases h2 : k ∈ visited
    · have h1 : k ∈ v :: visited := List.mem_cons_of_mem _ h2
      simp only [h1, h2, ↓reduceIte]; omega
    · by_cases h1 : k ∈ v :: visited
      · simp only [h1, h2, ↓reduceIte]; omega
      · simp only [h1, h2, ↓reduceIte]; omega

theorem remaining_visit (g : Adj) (v : Nat) (visited : List Nat) (hv : v ∉ visited) :
    remaining g (v :: visited) + (neighbors g v).length ≤ remaining g visited := by
  induction g with
  | nil => simp [remaining, neighbors, aGet]
  | cons p r ih =>
    obtain ⟨k, ns⟩ := p
    by_cases e : k = v
    · subst e
      have hm := remaining_mono r k visited
      have hn : neighbors ((k, ns) :: r) k = ns := by simp [neighbors, aGet]
      simp only [remaining, hn, List.mem_cons, true_or, ↓reduceIte, hv]
      omega
    · have hn : neighbors ((k, ns) :: r) v = neighbors r v := by simp [neighbors, aGet, e]
      rw [hn]
      simp only [remaining]
      by_cases h2 : k ∈ visited
      · have h1 : k ∈ v :: visited := List.mem_cons_of_mem _ h2
        simp only [h1, h2, ↓reduceIte]; omega
      · have h1 : k ∉ v :: visited := by
          simp only [List.mem_cons, not_or]; exact ⟨e, h2⟩
        simp only [h1, h2, ↓reduceIte]; omega

/-! ### completeness: `false` only without a path -/

/-- invariant of the search when it has not met the waiter yet -/
structure WccInv (g : Adj) (w h : Nat) (visited stack : List Nat) : Prop where
  nw : w ∉ visited
  closed : ∀ v ∈ visited, ∀ n ∈ neighbors g v, n ∈ visited ∨ n ∈ stack
  start : h ∈ visited ∨ h ∈ stack

theorem closed_reach (g : Adj) (visited : List Nat)
    (hc : ∀ v ∈ visited, ∀ n ∈ neighbors g v, n ∈ visited) (a b : Nat) (ha : a ∈ visited) (hr : Reach g a b) :
    b ∈ visited := by
  induction hr with
  | refl => exact ha
  | step e _ ih => exact ih (hc _ ha _ e)

theorem wccLoop_complete (g : Adj) (w h : Nat) (fuel : Nat) (visited stack : List Nat)
    (hf : stack.length + remaining g visited < fuel) (hI : WccInv g w h visited stack)
    (hfalse : wccLoop g w fuel visited stack = false) : ¬ Reach g h w := by
  induction fuel generalizing visited stack with
  | zero => omega
  | succ n ih =>
    cases stack with
    | nil =>
      intro hr
      have hh : h ∈ visited := by
        rcases hI.start with x | x
        · exact x
        · simp at x
      have hc : ∀ v ∈ visited, ∀ m ∈ neighbors g v, m ∈ visited := by
        intro v hv m hm
        rcases hI.closed v hv m hm with x | x
        · exact x
        · simp at x
      exact hI.nw (closed_reach g visited hc h w hh hr)
    | cons cur rest =>
      simp only [wccLoop] at hfalse
      by_cases e1 : cur = w
      · simp [e1] at hfalse
      · simp only [e1, ↓reduceIte] at hfalse
        by_cases e2 : cur ∈ visited
        · simp only [e2, ↓reduceIte] at hfalse
          refine ih visited rest ?_ ⟨hI.nw, ?_, ?_⟩ hfalse
          · simp only [List.length_cons] at hf; omega
          · intro v hv m hm
            rcases hI.closed v hv m hm with x | x
            · exact Or.inl x
            · simp only [List.mem_cons] at x
              rcases x with x | x
              · exact Or.inl (x ▸ e2)
              · exact Or.inr x
          · rcases hI.start with x | x
            · exact Or.inl x
            · simp only [List.mem_cons] at x
              rcases x with x | x
              · exact Or.inl (x ▸ e2)
              · exact Or.inr x
        · simp only [e2, ↓reduceIte] at hfalse
          refine ih (cur :: visited) ((neighbors g cur).reverse ++ rest) ?_ ⟨?_, ?_, ?_⟩ hfalse
          · have := remaining_visit g cur visited e2
            simp only [List.length_cons, List.length_append, List.length_reverse] at hf ⊢
            omega
          · simp only [List.mem_cons, not_or]
            exact ⟨fun x => e1 x.symm, hI.nw⟩
          · intro v hv m hm
            simp only [List.mem_cons] at hv
            simp only [List.mem_cons, List.mem_append, List.mem_reverse]
            rcases hv with hv | hv
            · subst hv; exact Or.inr (Or.inl hm)
            · rcases hI.closed v hv m hm with x | x
              · exact Or.inl (Or.inr x)
              · simp only [List.mem_cons] at x
                rcases x with x | x
                · exact Or.inl (Or.inl x)
                · exact Or.inr (Or.inr x)
          · simp only [List.mem_cons, List.mem_append, List.mem_reverse]
            rcases hI.start with x | x
            · exact Or.inl (Or.inr x)
            · simp only [List.mem_cons] at x
              rcases x with x | x
              · exact Or.inl (Or.inl x)
              · exact Or.inr (Or.inr x)

theorem wouldCreateCycle_iff (g : Adj) (w h : Nat) :
    wouldCreateCycle g w h = true ↔ w = h ∨ Reach g h w := by
  unfold wouldCreateCycle
  by_cases e : w = h
  · simp [e]
  · simp only [e, ↓reduceIte, false_or]
    constructor
    · intro ht
      exact wccLoop_sound g w h _ [] [h] (by intro x hx; simp at hx; subst hx; exact Reach.refl _) ht
    · intro hr
      cases hres : wccLoop g w (wccFuel g) [] [h] with
      | true => rfl
      | false =>
        exfalso
        refine wccLoop_complete g w h _ [] [h] ?_ ⟨by simp, by simp, Or.inr (by simp)⟩ hres hr
        simp only [List.length_cons, List.length_nil, remaining_nil, wccFuel]
        omega

/-! ### adding an edge that `would_create_cycle` cleared keeps the relation acyclic -/

theorem mem_neighbors_addToSet (g : Adj) (w h a y : Nat) :
    y ∈ neighbors (addToSet g w h) a ↔ y ∈ neighbors g a ∨ (a = w ∧ y = h) := by
  unfold neighbors
  exact mem_get_addToSet g w h a y

theorem reach_addToSet_mono (g : Adj) (w h a b : Nat) (hr : Reach g a b) : Reach (addToSet g w h) a b := by
  induction hr with
  | refl u => exact Reach.refl u
  | step e _ ih => exact Reach.step ((mem_neighbors_addToSet g w h _ _).mpr (Or.inl e)) ih

/-- a path of the extended relation is a path of the old one, or splits at the new edge -/
theorem reach_addToSet (g : Adj) (w h a b : Nat) (hr : Reach (addToSet g w h) a b) :
    Reach g a b ∨ (Reach g a w ∧ Reach g h b) := by
  induction hr with
  | refl u => exact Or.inl (Reach.refl u)
  | @step u v x e _ ih =>
    rcases (mem_neighbors_addToSet g w h u v).mp e with e | ⟨e1, e2⟩
    · rcases ih with ih | ⟨i1, i2⟩
      · exact Or.inl (Reach.step e ih)
      · exact Or.inr ⟨Reach.step e i1, i2⟩
    · subst e1; subst e2
      rcases ih with ih | ⟨_, i2⟩
      · exact Or.inr ⟨Reach.refl _, ih⟩
      · exact Or.inr ⟨Reach.refl _, i2⟩

theorem acyclic_addToSet (g : Adj) (w h : Nat) (hac : ¬ HasCycle g) (hno : ¬ (w = h ∨ Reach g h w)) :
    ¬ HasCycle (addToSet g w h) := by
  rintro ⟨u, x, hx, hr⟩
  have hno2 : ¬ Reach g h w := fun r => hno (Or.inr r)
  rcases (mem_neighbors_addToSet g w h u x).mp hx with e | ⟨e1, e2⟩
  · rcases reach_addToSet g w h x u hr with r | ⟨r1, r2⟩
    · exact hac ⟨u, x, e, r⟩
    · exact hno2 (r2.trans (Reach.step e r1))
  · subst e1; subst e2
    rcases reach_addToSet g u x x u hr with r | ⟨r1, _⟩
    · exact hno2 r
    · exact hno2 r1

/-! ### reported cycles have no repeated member, hence are no longer than the number of waiters -/

theorem dfs_nodup (g : Adj) (fuel node : Nat) (s : DfsState)
    (hnd : (s.path ++ [node]).Nodup) (hsub : ∀ x ∈ s.path, x ∈ s.visited)
    (hc : ∀ c ∈ s.cycles, c.Nodup) : ∀ c ∈ (dfs g fuel node s).cycles, c.Nodup := by
  induction fuel generalizing node s with
  | zero => exact hc
  | succ n ih =>
    simp only [dfs]
    suffices H : ∀ (nbs : List Nat) (acc : DfsState), acc.path = s.path ++ [node] →
        (∀ x ∈ acc.path, x ∈ acc.visited) → (∀ c ∈ acc.cycles, c.Nodup) →
        ∀ c ∈ (nbs.foldl (fun acc nb => dfsStep (dfs g n) acc nb) acc).cycles, c.Nodup by
      refine H (neighbors g node) _ rfl ?_ hc
      intro x hx
      simp only [List.mem_append, List.mem_singleton] at hx
      rcases hx with hx | hx
      · exact List.mem_cons_of_mem _ (hsub x hx)
      · subst hx; exact List.mem_cons_self
    intro nbs
    induction nbs with
    | nil => intro acc _ _ h; exact h
    | cons nb r ihr =>
      intro acc hp hv hcs
      simp only [List.foldl_cons]
      apply ihr
      · rw [dfsStep_path (dfs g n) (fun a b => dfs_path g n a b)]; exact hp
      · rw [dfsStep_path (dfs g n) (fun a b => dfs_path g n a b)]
        intro x hx
        exact dfsStep_visited (dfs g n) (fun a b => dfs_visited g n a b) acc nb x (hv x hx)
      · unfold dfsStep
        split
        · rename_i hnb
          apply ih
          · rw [List.nodup_append]
            refine ⟨by rw [hp]; exact hnd, by simp, ?_⟩
            intro a ha b hb
            simp only [List.mem_singleton] at hb
            subst hb
            intro e; subst e
            exact hnb (hv a ha)
          · exact hv
          · exact hcs
        · split
          · split
            · rename_i c hsf
              intro c' hc'
              simp only [List.mem_append, List.mem_singleton] at hc'
              rcases hc' with hc' | hc'
              · exact hcs c' hc'
              · subst hc'
                obtain ⟨pre, t, h1, _⟩ := suffixFrom_spec nb acc.path c' hsf
                have : acc.path.Nodup := by rw [hp]; exact hnd
                rw [h1] at this
                exact (List.nodup_append.mp this).2.1
            · exact hcs
          · exact hcs

theorem detectLoop_nodup (g : Adj) (starts : List Nat) (s : DfsState)
    (hp : s.path = []) (hc : ∀ c ∈ s.cycles, c.Nodup) :
    ∀ c ∈ (detectLoop g starts s).cycles, c.Nodup := by
  induction starts generalizing s with
  | nil => exact hc
  | cons a r ih =>
    unfold detectLoop
    simp only [List.foldl_cons]
    apply ih
    · split
      · rw [dfs_path]; exact hp
      · exact hp
    · split
      · apply dfs_nodup
        · rw [hp]; simp
        · rw [hp]; simp
        · exact hc
      · exact hc

theorem detectCycles_nodup (g : Adj) (c : List Nat) (h : c ∈ detectCycles g) : c.Nodup := by
  unfold detectCycles at h
  exact detectLoop_nodup g _ dfsInit rfl (by simp [dfsInit]) c h

/-- every member of a cycle waits for somebody, so it is a key of the adjacency -/
theorem isWalk_mem_key (g : Adj) (c : List Nat) (last : Nat) (hw : IsWalk g (c ++ [last])) (x : Nat) (hx : x ∈ c) :
    x ∈ g.map (·.1) := by
  induction c with
  | nil => simp at hx
  | cons a r ih =>
    simp only [List.mem_cons] at hx
    cases r with
    | nil =>
      simp only [List.cons_append, List.nil_append, IsWalk] at hw
      rcases hx with hx | hx
      · subst hx; exact (mem_vertices_of_neighbor g x last hw.1).2
      · simp at hx
    | cons b t =>
      simp only [List.cons_append, IsWalk] at hw
      rcases hx with hx | hx
      · subst hx; exact (mem_vertices_of_neighbor g x b hw.1).2
      · exact ih hw.2 hx

theorem isCycle_mem_key (g : Adj) (c : List Nat) (h : IsCycle g c) (x : Nat) (hx : x ∈ c) : x ∈ g.map (·.1) := by
  obtain ⟨hne, hw, he⟩ := h
  cases c with
  | nil => exact absurd rfl hne
  | cons a r =>
    simp only [List.headD_cons] at he
    -- the closed walk c ++ [a] has every member of c before its last element
    have hw2 : IsWalk g ((a :: r) ++ [a]) := by
      have : (a :: r) = (a :: r).dropLast ++ [(a :: r).getLastD 0] := by
        have hh := List.dropLast_concat_getLast (l := a :: r) (by simp)
        rw [List.getLastD_eq_getLast?, List.getLast?_eq_some_getLast (by simp)]
        simpa using hh.symm
      rw [this] at hw ⊢
      exact isWalk_append_edge g _ _ a hw he
    exact isWalk_mem_key g (a :: r) a hw2 x hx

theorem nodup_length_le_of_subset (l m : List Nat) (hn : l.Nodup) (hs : ∀ x ∈ l, x ∈ m) : l.length ≤ m.length := by
  induction l generalizing m with
  | nil => simp
  | cons a r ih =>
    simp only [List.nodup_cons] at hn
    have ha : a ∈ m := hs a List.mem_cons_self
    have := ih (m.erase a) hn.2 (by
      intro x hx
      have hne : x ≠ a := fun e => hn.1 (e ▸ hx)
      exact (List.mem_erase_of_ne hne).mpr (hs x (List.mem_cons_of_mem _ hx)))
    rw [List.length_erase_of_mem ha] at this
    have hpos : 0 < m.length := List.length_pos_of_mem ha
    simp only [List.length_cons]
    omega

/-- a reported cycle is no longer than the number of waiting transactions (entries of `edges`) -/
theorem detectCycles_length_le (g : Adj) (c : List Nat) (h : c ∈ detectCycles g) : c.length ≤ g.length := by
  have := nodup_length_le_of_subset c (g.map (·.1)) (detectCycles_nodup g c h)
    (isCycle_mem_key g c (detectCycles_sound g c h))
  simpa using this

end Neumann.Locks
