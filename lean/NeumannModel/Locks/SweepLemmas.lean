import NeumannModel.Locks.CoordLemmas
import NeumannModel.Locks.GraphLemmas
import NeumannModel.Locks.SweepModel
/-
  C12 — helper lemmas for `SweepProps.lean`: every member of a cycle has an outgoing edge.
-/
namespace Neumann.Locks

/-- a member of a walk is its last vertex or has a successor on it -/
theorem walk_member_succ_or_last (g : Adj) : ∀ (c : List Nat) (x : Nat), IsWalk g c → x ∈ c →
    (∃ b, b ∈ neighbors g x) ∨ c.getLastD 0 = x
  | [], x, _, hx => by simp at hx
  | [a], x, _, hx => by simp at hx; subst hx; exact Or.inr rfl
  | a :: b :: r, x, hw, hx => by
    simp only [List.mem_cons] at hx
    rcases hx with hx | hx
    · subst hx; exact Or.inl ⟨b, hw.1⟩
    · have ih := walk_member_succ_or_last g (b :: r) x hw.2 (by simpa using hx)
      rcases ih with ih | ih
      · exact Or.inl ih
      · exact Or.inr (by simpa [List.getLastD] using ih)

/-- every member of a cycle has an outgoing edge -/
theorem cycle_member_has_out_edge (g : Adj) (c : List Nat) (x : Nat) (h : IsCycle g c) (hx : x ∈ c) :
    ∃ b, b ∈ neighbors g x := by
  rcases walk_member_succ_or_last g c x h.2.1 hx with h1 | h1
  · exact h1
  · exact ⟨c.headD 0, by rw [← h1]; exact h.2.2⟩

end Neumann.Locks
