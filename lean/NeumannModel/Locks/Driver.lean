import NeumannModel.Common.Proto
import NeumannModel.Locks.Model
import NeumannModel.Locks.CoordModel
import NeumannModel.Locks.SectionModel
/- Line-protocol driver for the lock-table / wait-for-graph model (C12). Stateful. -/
open Neumann Neumann.Proto Neumann.Locks

structure DrvState where
  t : LockTable
  g : WaitGraph
  cfg : DetectorCfg
  lockCount : Option (List (Nat × Nat))
  co : Coord
  /-- the critical-section model (`SectionModel.lean`): `early` = the guards are dropped before the edges are recorded -/
  sec : Section.St
  secEarly : Bool

def drvInit : DrvState :=
  { t := LockTable.empty 3, g := WaitGraph.empty 0,
    cfg := { enabled := true, policy := .youngest, maxCycleLength := 100, cascadeDepth := 3 },
    lockCount := none, co := Coord.init 3 100, sec := Section.init 3 0 [], secEarly := false }

def sortByKey {β : Type} (m : List (Nat × β)) : List (Nat × β) :=
  m.mergeSort (fun a b => a.1 ≤ b.1)

def sortNats (xs : List Nat) : List Nat := xs.mergeSort (fun a b => a ≤ b)

def dotted (xs : List Nat) : String :=
  if xs.isEmpty then "" else ".".intercalate (xs.map toString)

def showLock (p : Nat × KeyLock) : String :=
  s!"{p.1}:{p.2.key}:{p.2.tx}:{p.2.handle}:{p.2.acquiredAt}:{p.2.timeout}"

def tableImg (t : LockTable) : String :=
  "L " ++ ",".intercalate ((sortByKey t.locks).map showLock) ++
  ";T " ++ ",".intercalate ((sortByKey t.txLocks).map fun p => s!"{p.1}:{dotted p.2}") ++
  s!";D {t.defaultTimeout};N {t.locks.length}"

def setMapImg (m : List (Nat × List Nat)) : String :=
  ",".intercalate ((sortByKey m).map fun p => s!"{p.1}:{dotted (sortNats p.2)}")

def natMapImg (m : List (Nat × Nat)) : String :=
  ",".intercalate ((sortByKey m).map fun p => s!"{p.1}={p.2}")

def graphImg (g : WaitGraph) : String :=
  "E " ++ setMapImg g.edges ++ ";R " ++ setMapImg g.reverse ++
  ";W " ++ natMapImg g.waitStarted ++ ";P " ++ natMapImg g.priorities

def parseOptNat (s : String) : Option (Option Nat) :=
  if s = "-" then some none else (s.toNat?).map some

/-- `k:key:tx:h:acq:to,...` -/
def parseLocks (s : String) : Option (List (Nat × KeyLock)) :=
  if s = "-" then some [] else
  (s.splitOn ",").mapM fun e =>
    match (e.splitOn ":").mapM (·.toNat?) with
    | some [k, key, tx, h, a, to] => some (k, { key := key, tx := tx, handle := h, acquiredAt := a, timeout := to })
    | _ => none

def parseDotted (s : String) : Option (List Nat) :=
  if s = "" ∨ s = "-" then some [] else (s.splitOn ".").mapM (·.toNat?)

/-- `k:a.b.c,k:...` -/
def parseSetMap (s : String) : Option (List (Nat × List Nat)) :=
  if s = "-" then some [] else
  (s.splitOn ",").mapM fun e =>
    match e.splitOn ":" with
    | [k, vs] => match k.toNat?, parseDotted vs with
      | some k, some vs => some (k, vs)
      | _, _ => none
    | _ => none

def parseNatMap (s : String) : Option (List (Nat × Nat)) :=
  if s = "-" then some [] else
  (s.splitOn ",").mapM fun e =>
    match (e.splitOn ":").mapM (·.toNat?) with
    | some [k, v] => some (k, v)
    | _ => none

def parsePolicy : String → Option Policy
  | "youngest" => some .youngest | "oldest" => some .oldest
  | "lowest_priority" => some .lowestPriority | "most_locks" => some .mostLocks
  | _ => none

def showCycles (cs : List (List Nat)) : String :=
  if cs.isEmpty then "-" else ";".intercalate (cs.map dotted)

/-- the supplied iteration order must describe exactly the model's current forward edges -/
def orderMatches (g : WaitGraph) (adj : Adj) : Bool :=
  let canon := fun (m : List (Nat × List Nat)) => (sortByKey m).map fun p => (p.1, sortNats p.2)
  canon g.edges == canon adj

def phaseName : Phase → String
  | .preparing => "preparing" | .prepared => "prepared" | .committing => "committing" | .aborting => "aborting"

def showVote (v : Nat × Option Nat) : String :=
  match v.2 with
  | some h => s!"{v.1}y{h}"
  | none => s!"{v.1}n"

def pendingImg (m : List (Nat × PTx)) : String :=
  ",".intercalate ((sortByKey m).map fun e =>
    s!"{e.1}:{phaseName e.2.phase}:{dotted e.2.shards}:{".".intercalate ((sortByKey e.2.votes).map showVote)}:{if e.2.doomed then 1 else 0}")

def coordImg (c : Coord) : String :=
  tableImg c.t ++ " | " ++ graphImg c.g ++ " | P " ++ pendingImg c.pending ++
  " | I " ++ natMapImg c.inflight ++ ";U " ++ dotted (sortNats c.unrecorded)

def showCoRes : CoRes → String
  | .unit => "unit"
  | .began tx => s!"began {tx}"
  | .refused => "refused"
  | .yes h => s!"yes {h}"
  | .conflict ks => s!"conflict {showNats ks}"
  | .notFound => "notfound"
  | .wrongPhase => "wrongphase"
  | .duplicate => "duplicate"
  | .recorded none => "recorded -"
  | .recorded (some ph) => s!"recorded {phaseName ph}"
  | .ok => "ok"
  | .ids txs => s!"ids {showNats (sortNats txs)}"
  | .stats a b c d => s!"stats {a} {b} {c} {d}"
  | .count n => s!"count {n}"

def parseCoOp : List String → Option CoOp
  | ["cbegin", sh] => (parseDotted sh).map .begin
  | ["cprep", tx, keys] => match tx.toNat?, parseNats keys with
      | some tx, some keys => some (.prepare tx keys)
      | _, _ => none
  | ["cdeliver", h, sh] => match h.toNat?, sh.toNat? with
      | some h, some sh => some (.deliver h sh)
      | _, _ => none
  | ["cvoteno", tx, sh] => match tx.toNat?, sh.toNat? with
      | some tx, some sh => some (.voteNo tx sh)
      | _, _ => none
  | ["ccommit", tx] => tx.toNat?.map .commit
  | ["cabort", tx] => tx.toNat?.map .abort
  | ["ccompletecommit", tx] => tx.toNat?.map .completeCommit
  | ["ccompleteabort", tx] => tx.toNat?.map .completeAbort
  | ["cforce", tx, b] => match tx.toNat?, b.toNat? with
      | some tx, some b => some (.forceResolve tx (b != 0))
      | _, _ => none
  | ["ctimeouts"] => some .cleanupTimeouts
  | ["crecover"] => some .recover
  | ["csweep", ps] => ps.toNat?.map .sweep
  | ["cadv", d] => d.toNat?.map .advance
  | ["csaveload"] => some .saveLoad
  | ["cdoom", tx] => tx.toNat?.map .doom
  | _ => none

/-- thread programs of the section model: threads separated by `/`, shards by `;`, keys by `.`; `-` = no shard -/
def parseProgs (s : String) : Option (List (List (List Nat))) :=
  (s.splitOn "/").mapM fun th =>
    if th = "-" then some [] else (th.splitOn ";").mapM parseDotted

def pcImg : Section.Pc → String
  | .prep sh => s!"prep{sh.length}"
  | .granted _ => "granted"
  | .adding bs _ => s!"adding{bs.length}"
  | .ending hs => s!"ending{hs.length}"
  | .cleaning _ hs => s!"cleaning{hs.length}"
  | .done => "done"

def secImg (s : Section.St) : String :=
  tableImg s.t ++ " | " ++ graphImg s.g ++ " | X " ++ dotted (sortNats s.ended) ++
  ";G " ++ (match s.guard with | some i => toString i | none => "-") ++
  ";C " ++ ",".intercalate (s.ths.map fun th => pcImg th.pc)

/-- is thread `i` at a call boundary (between two calls of its transaction life, or finished)? -/
def atBoundary (s : Section.St) (i : Nat) : Bool :=
  match s.ths[i]? with
  | some th => (match th.pc with | .prep _ | .done => true | _ => false)
  | none => true

/-- run thread `i` from a call boundary to the next one (one whole `handle_prepare` / one whole end
    of the transaction, no other thread in between); `none` = a step was refused -/
def secCall (early : Bool) (s : Section.St) (i now : Nat) : Nat → Option Section.St
  | 0 => none
  | fuel + 1 =>
    match Section.step early s i now with
    | none => none
    | some s' => if atBoundary s' i then some s' else secCall early s' i now fuel

def lockCountFn (s : DrvState) : Option (Nat → Nat) :=
  s.lockCount.map fun tbl => fun tx => (aGet tbl tx).getD 0

def locksStep (s : DrvState) (line : String) : DrvState × String :=
  let bad := (s, "bad-op")
  match words line with
  | ["reset", to, mx] => match to.toNat?, mx.toNat? with
      | some to, some mx => ({ drvInit with t := LockTable.empty to, g := WaitGraph.empty mx }, "ok")
      | _, _ => bad
  | ["lock", now, tx, keys] => match now.toNat?, tx.toNat?, parseNats keys with
      | some now, some tx, some keys =>
        let (t', r) := tryLock s.t now tx keys
        ({ s with t := t' }, (match r with | .ok h => s!"ok {h}" | .error c => s!"conflict {c}") ++ " | " ++ tableImg t')
      | _, _, _ => bad
  | ["rel", tx] => match tx.toNat? with
      | some tx => let t' := release s.t tx; ({ s with t := t' }, "ok | " ++ tableImg t')
      | none => bad
  | ["relh", h] => match h.toNat? with
      | some h => let t' := releaseByHandle s.t h; ({ s with t := t' }, "ok | " ++ tableImg t')
      | none => bad
  | ["clean", now] => match now.toNat? with
      | some now => let (t', n) := cleanupExpired s.t now; ({ s with t := t' }, s!"{n} | " ++ tableImg t')
      | none => bad
  | ["sr"] => let t' := restore (serialize s.t) s.t.nextHandle; ({ s with t := t' }, "ok | " ++ tableImg t')
  | ["inject", locks, txl, to] => match parseLocks locks, parseSetMap txl, to.toNat? with
      | some l, some tl, some to =>
        let t' := restore { locks := l, txLocks := tl, defaultTimeoutMs := to } s.t.nextHandle
        ({ s with t := t' }, "ok | " ++ tableImg t')
      | _, _, _ => bad
  | ["q", now, k] => match now.toNat?, k.toNat? with
      | some now, some k =>
        (s, s!"locked={isLocked s.t now k} holder=" ++ (match lockHolder s.t now k with | some x => toString x | none => "-"))
      | _, _ => bad
  | ["lockw", now, wnow, tx, keys, prio] =>
      match now.toNat?, wnow.toNat?, tx.toNat?, parseNats keys, parseOptNat prio with
      | some now, some wnow, some tx, some keys, some prio =>
        let (t', g', r) := tryLockWait s.t s.g now wnow tx keys prio
        ({ s with t := t', g := g' },
          (match r with | .ok h => s!"ok {h}" | .error ks => s!"conflict {showNats ks}") ++ " | " ++ tableImg t' ++ " | " ++ graphImg g')
      | _, _, _, _, _ => bad
  | ["relhw", h] => match h.toNat? with
      | some h => let (t', g') := releaseByHandleWait s.t s.g h
                  ({ s with t := t', g := g' }, "ok | " ++ tableImg t' ++ " | " ++ graphImg g')
      | none => bad
  -- end of a distributed transaction: handle loop + unconditional remove_transaction (current code)
  | ["endtx", tx, hs] => match tx.toNat?, parseNats hs with
      | some tx, some hs => let (t', g') := endTx s.t s.g tx hs
                            ({ s with t := t', g := g' }, "ok | " ++ tableImg t' ++ " | " ++ graphImg g')
      | _, _ => bad
  -- the same with the PRE-FIX sequence (handle loop only)
  | ["endtxold", tx, hs] => match tx.toNat?, parseNats hs with
      | some tx, some hs => let (t', g') := endTxOld s.t s.g tx hs
                            ({ s with t := t', g := g' }, "ok | " ++ tableImg t' ++ " | " ++ graphImg g')
      | _, _ => bad
  | ["cleanw", now] => match now.toNat? with
      | some now => let (t', g', n) := cleanupExpiredWait s.t s.g now
                    ({ s with t := t', g := g' }, s!"{n} | " ++ tableImg t' ++ " | " ++ graphImg g')
      | none => bad
  | ["gadd", wnow, w, h, prio] => match wnow.toNat?, w.toNat?, h.toNat?, parseOptNat prio with
      | some wnow, some w, some h, some prio =>
        let g' := addWait s.g wnow w h prio; ({ s with g := g' }, "ok | " ++ graphImg g')
      | _, _, _, _ => bad
  | ["grm", tx] => match tx.toNat? with
      | some tx => let g' := removeTransaction s.g tx; ({ s with g := g' }, "ok | " ++ graphImg g')
      | none => bad
  | ["grmw", w, h] => match w.toNat?, h.toNat? with
      | some w, some h => let g' := removeWait s.g w h; ({ s with g := g' }, "ok | " ++ graphImg g')
      | _, _ => bad
  | ["gcfg", en, pol, mx, casc, lc] =>
      match en.toNat?, parsePolicy pol, mx.toNat?, casc.toNat?, (if lc = "none" then some none else (parseNatMap lc).map some) with
      | some en, some pol, some mx, some casc, some lc =>
        ({ s with cfg := { enabled := en != 0, policy := pol, maxCycleLength := mx, cascadeDepth := casc }, lockCount := lc }, "ok")
      | _, _, _, _, _ => bad
  | ["gcycles", order] => match parseSetMap order with
      | some adj => if orderMatches s.g adj then (s, showCycles (detectCycles adj)) else (s, "order-mismatch")
      | none => bad
  | ["gdetect", order] => match parseSetMap order with
      | some adj =>
        if orderMatches s.g adj then
          let r := detect s.cfg s.g (lockCountFn s) adj
          (s, if r.isEmpty then "-" else ";".intercalate (r.map fun p => s!"{dotted p.1}>{p.2}"))
        else (s, "order-mismatch")
      | none => bad
  -- stateless: cycles of an explicit adjacency (used by the exhaustive small-graph stream)
  | ["xcycles", order] => match parseSetMap order with
      | some adj => (s, showCycles (detectCycles adj))
      | none => bad
  -- stateless: full `detect` on explicit adjacency + metadata
  | ["xdetect", en, pol, mx, casc, lc, ws, pr, order] =>
      match en.toNat?, parsePolicy pol, mx.toNat?, casc.toNat?,
            (if lc = "none" then some none else (parseNatMap lc).map some), parseNatMap ws, parseNatMap pr, parseSetMap order with
      | some en, some pol, some mx, some casc, some lc, some ws, some pr, some adj =>
        let g : WaitGraph := { WaitGraph.empty 0 with edges := adj, waitStarted := ws, priorities := pr }
        let cfg : DetectorCfg := { enabled := en != 0, policy := pol, maxCycleLength := mx, cascadeDepth := casc }
        let r := detect cfg g (lc.map fun tbl => fun tx => (aGet tbl tx).getD 0) adj
        (s, if r.isEmpty then "-" else ";".intercalate (r.map fun p => s!"{dotted p.1}>{p.2}"))
      | _, _, _, _, _, _, _, _ => bad
  | ["gclear"] => let g' := clearGraph s.g; ({ s with g := g' }, "ok | " ++ graphImg g')
  | ["gstale", now, ttl] => match now.toNat?, ttl.toNat? with
      | some now, some ttl => let (g', n) := cleanupStaleEdges s.g now ttl
                              ({ s with g := g' }, s!"{n} | " ++ graphImg g')
      | _, _ => bad
  | ["gwcc", w, h] => match w.toNat?, h.toNat? with
      | some w, some h => (s, toString (wouldCreateCycle s.g.edges w h))
      | _, _ => bad
  -- stateless: would_create_cycle on an explicit adjacency
  | ["xwcc", w, h, order] => match w.toNat?, h.toNat?, parseSetMap order with
      | some w, some h, some adj => (s, toString (wouldCreateCycle adj w h))
      | _, _, _ => bad
  -- the coordinator model (`CoordModel.lean`): `cinit` resets it, every `c*` verb is one `CoOp`
  | ["cinit", to, mc] => match to.toNat?, mc.toNat? with
      | some to, some mc => ({ s with co := Coord.init to mc }, "ok")
      | _, _ => bad
  | "cbegin" :: _ | "cprep" :: _ | "cdeliver" :: _ | "cvoteno" :: _ | "ccommit" :: _ | "cabort" :: _
  | "ccompletecommit" :: _ | "ccompleteabort" :: _ | "cforce" :: _ | "ctimeouts" :: _ | "crecover" :: _
  | "csweep" :: _ | "cadv" :: _ | "csaveload" :: _ | "cdoom" :: _ =>
      match parseCoOp (words line) with
      | some op => let (c', r) := costep s.co op
                   ({ s with co := c' }, showCoRes r ++ " | " ++ coordImg c')
      | none => bad
  -- the critical-section model (`SectionModel.lean`)
  | ["sinit", early, to, progs] => match early.toNat?, to.toNat?, parseProgs progs with
      | some e, some to, some progs => ({ s with sec := Section.init to 0 progs, secEarly := e != 0 }, "ok")
      | _, _, _ => bad
  | ["sstep", i, now] => match i.toNat?, now.toNat? with
      | some i, some now =>
        (match Section.step s.secEarly s.sec i now with
         | some st => ({ s with sec := st }, "ok | " ++ secImg st)
         | none => (s, "refused"))
      | _, _ => bad
  | ["scall", i, now] => match i.toNat?, now.toNat? with
      | some i, some now =>
        (match secCall s.secEarly s.sec i now 10000 with
         | some st => ({ s with sec := st }, "ok | " ++ secImg st)
         | none => (s, "refused"))
      | _, _ => bad
  | ["gvictim", cyc] => match parseDotted cyc with
      | some c => (s, toString (selectVictim s.cfg.policy s.g (lockCountFn s) c))
      | none => bad
  | _ => bad

def main : IO Unit := run locksStep drvInit
