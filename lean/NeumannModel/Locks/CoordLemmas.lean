import NeumannModel.Locks.WaitLemmas
/-
  C12 — the coordinator model (`CoordModel.lean`): every coordinator operation is a sequence of
  coordinator-side lock/graph operations (`COp`), and the invariant that accounts for every lock
  in the table: its handle is in flight, was refused by `record_vote`, or is recorded in the votes
  of a pending transaction.  Core Lean only.
-/
namespace Neumann.Locks

/-! ### small association-list facts -/

theorem aGet_append {β : Type} (a b : List (Nat × β)) (k : Nat) :
    aGet (a ++ b) k = match aGet a k with | some v => some v | none => aGet b k := by
  induction a with
  | nil => simp [aGet]
  | cons p r ih =>
    obtain ⟨x, y⟩ := p
    simp only [List.cons_append, aGet]
    by_cases h : x = k
    · simp [h]
    · simp only [h, ↓reduceIte]; exact ih

theorem aRemove_of_none {β : Type} (m : List (Nat × β)) (k : Nat) (h : aGet m k = none) : aRemove m k = m := by
  induction m with
  | nil => rfl
  | cons p r ih =>
    obtain ⟨x, y⟩ := p
    simp only [aGet] at h
    by_cases e : x = k
    · simp [e] at h
    · simp only [e, ↓reduceIte] at h
      have hb : (x != k) = true := by simp [e]
      simp only [aRemove, List.filter_cons, hb, ↓reduceIte]
      have := ih h
      simp only [aRemove] at this
      rw [this]

theorem aGet_map_snd {β γ : Type} (m : List (Nat × β)) (f : β → γ) (k : Nat) :
    aGet (m.map (fun e => (e.1, f e.2))) k = (aGet m k).map f := by
  induction m with
  | nil => simp [aGet]
  | cons p r ih =>
    obtain ⟨x, y⟩ := p
    simp only [List.map_cons, aGet]
    by_cases h : x = k
    · simp [h]
    · simp only [h, ↓reduceIte]; exact ih

theorem keys_map_snd {β γ : Type} (m : List (Nat × β)) (f : β → γ) :
    (m.map (fun e => (e.1, f e.2))).map (·.1) = m.map (·.1) := by
  simp [List.map_map]

theorem aGet_none_of_not_mem {β : Type} (m : List (Nat × β)) (k : Nat) (h : k ∉ m.map (·.1)) : aGet m k = none := by
  cases hg : aGet m k with
  | none => rfl
  | some v => exact absurd (List.mem_map.mpr ⟨(k, v), aGet_some_mem _ _ _ hg, rfl⟩) h

theorem aGet_some_of_mem_keys {β : Type} (m : List (Nat × β)) (k : Nat) (h : k ∈ m.map (·.1)) :
    ∃ v, aGet m k = some v := by
  induction m with
  | nil => simp at h
  | cons p r ih =>
    obtain ⟨x, y⟩ := p
    simp only [aGet]
    by_cases e : x = k
    · exact ⟨y, by simp [e]⟩
    · simp only [e, ↓reduceIte]
      simp only [List.map_cons, List.mem_cons] at h
      rcases h with h | h
      · exact absurd h.symm e
      · exact ih h

theorem mem_keys_of_aGet {β : Type} (m : List (Nat × β)) (k : Nat) (v : β) (h : aGet m k = some v) :
    k ∈ m.map (·.1) :=
  List.mem_map.mpr ⟨(k, v), aGet_some_mem _ _ _ h, rfl⟩

/-! ### lock tables that only lose locks -/

/-- `t'` has the same handle counter as `t` and every lock of `t'` is a lock of `t` -/
structure Shrinks (t t' : LockTable) : Prop where
  nh : t'.nextHandle = t.nextHandle
  sub : ∀ k l, aGet t'.locks k = some l → aGet t.locks k = some l

theorem Shrinks.refl (t : LockTable) : Shrinks t t := ⟨rfl, fun _ _ h => h⟩

theorem Shrinks.trans {a b c : LockTable} (h1 : Shrinks a b) (h2 : Shrinks b c) : Shrinks a c :=
  ⟨h2.nh.trans h1.nh, fun k l h => h1.sub k l (h2.sub k l h)⟩

theorem shrinks_foldl_dropKey (ks : List Nat) (t : LockTable) : Shrinks t (ks.foldl dropKey t) := by
  refine ⟨(foldl_dropKey_fields ks t).1, ?_⟩
  intro k l h
  rw [foldl_dropKey_locks] at h
  by_cases hk : k ∈ ks
  · simp [hk] at h
  · simpa [hk] using h

theorem shrinks_releaseByHandle (t : LockTable) (h : Nat) : Shrinks t (releaseByHandle t h) :=
  shrinks_foldl_dropKey _ t

theorem shrinks_foldl_releaseByHandle (hs : List Nat) (t : LockTable) : Shrinks t (hs.foldl releaseByHandle t) := by
  induction hs generalizing t with
  | nil => exact Shrinks.refl t
  | cons a r ih => exact (shrinks_releaseByHandle t a).trans (ih _)

theorem shrinks_cleanupExpired (t : LockTable) (now : Nat) : Shrinks t (cleanupExpired t now).1 :=
  shrinks_foldl_dropKey _ t

theorem shrinks_sweep (t : LockTable) (oks : List (Nat × Nat)) : Shrinks t (oks.foldl sweepKey t) := by
  refine ⟨(foldl_sweepKey_fields oks t).1, ?_⟩
  intro k l h
  rw [foldl_sweepKey_locks] at h
  by_cases hk : k ∈ oks.map (·.1)
  · simp [hk] at h
  · simpa [hk] using h

theorem nodup_foldl_releaseByHandle (hs : List Nat) (t : LockTable)
    (nd : (t.locks.map (·.1)).Nodup) (nd2 : (t.txLocks.map (·.1)).Nodup) :
    ((hs.foldl releaseByHandle t).locks.map (·.1)).Nodup ∧ ((hs.foldl releaseByHandle t).txLocks.map (·.1)).Nodup := by
  induction hs generalizing t with
  | nil => exact ⟨nd, nd2⟩
  | cons a r ih =>
    have := releaseByHandle_nodup t a nd nd2
    exact ih _ this.1 this.2

theorem foldl_releaseByHandle_locks (hs : List Nat) (t : LockTable)
    (nd : (t.locks.map (·.1)).Nodup) (nd2 : (t.txLocks.map (·.1)).Nodup) (k : Nat) (l : KeyLock)
    (hl : aGet (hs.foldl releaseByHandle t).locks k = some l) : l.handle ∉ hs := by
  have := releaseHandles_locks hs t (WaitGraph.empty 0) nd nd2 k l (by rw [releaseHandles_table]; exact hl)
  exact this.2

/-! ### the pair (lock table, wait-for graph) under coordinator operations -/

def Coord.pair (c : Coord) : CSys := { t := c.t, g := c.g, now := c.now }

theorem finish_pair (c : Coord) (tx : Nat) (p : PTx) :
    (c.finish tx p).pair = cstep c.pair (.endTx tx p.handles) := rfl

/-- the timed-out loop of `cleanup_timeouts` -/
def timeoutLoop (c : Coord) (txs : List Nat) : Coord :=
  txs.foldl (fun c tx =>
    match aGet c.pending tx with
    | some p => c.finish tx p
    | none => c) c

theorem timeoutLoop_pair (txs : List Nat) (c : Coord) :
    ∃ cops, (timeoutLoop c txs).pair = crun cops c.pair := by
  induction txs generalizing c with
  | nil => exact ⟨[], rfl⟩
  | cons a r ih =>
    simp only [timeoutLoop, List.foldl_cons]
    cases hp : aGet c.pending a with
    | none => exact ih c
    | some p =>
      obtain ⟨cops, h⟩ := ih (c.finish a p)
      refine ⟨COp.endTx a p.handles :: cops, ?_⟩
      simp only [timeoutLoop] at h
      rw [h, finish_pair]; rfl

/-- the new `pending` entry of a transaction whose vote was accepted -/
def votedPTx (p : PTx) (shard : Nat) (v : Option Nat) : PTx :=
  let p1 : PTx := { p with votes := aInsert p.votes shard v }
  let ph : Option Phase :=
    if p1.allVoted then (if p1.allYes then some .prepared else some .aborting) else none
  { p1 with phase := ph.getD p1.phase }

/-- `record_vote` either refuses and changes nothing, or replaces the `pending` entry of a
    transaction in the Preparing phase that has no vote from `shard` yet -/
theorem recordVote_spec (c : Coord) (tx shard : Nat) (v : Option Nat) :
    (∃ r, recordVote c tx shard v = (c, r) ∧ ∀ ph, r ≠ .recorded ph) ∨
    (∃ p ph, aGet c.pending tx = some p ∧ p.phase = .preparing ∧ aGet p.votes shard = none ∧
      recordVote c tx shard v =
        ({ c with pending := aModify c.pending tx (fun _ => votedPTx p shard v) }, .recorded ph)) := by
  unfold recordVote
  cases hp : aGet c.pending tx with
  | none => exact Or.inl ⟨_, rfl, fun ph h => by cases h⟩
  | some p =>
    simp only
    by_cases e1 : p.phase ≠ .preparing
    · rw [if_pos e1]; exact Or.inl ⟨_, rfl, fun ph h => by cases h⟩
    · rw [if_neg e1]
      by_cases e2 : (aGet p.votes shard).isSome
      · simp only [e2, ↓reduceIte]; exact Or.inl ⟨_, rfl, fun ph h => by cases h⟩
      · simp only [e2, Bool.false_eq_true, ↓reduceIte]
        right
        refine ⟨p, _, rfl, by simpa using e1, ?_, rfl⟩
        cases hv : aGet p.votes shard with
        | none => rfl
        | some x => simp [hv] at e2

theorem recordVote_pair (c : Coord) (tx shard : Nat) (v : Option Nat) :
    (recordVote c tx shard v).1.pair = c.pair := by
  rcases recordVote_spec c tx shard v with ⟨r, h, _⟩ | ⟨p, ph, _, _, _, h⟩ <;> rw [h] <;> rfl

/-- **every coordinator operation is a sequence of coordinator-side lock / graph operations** -/
theorem costep_pair (c : Coord) (op : CoOp) : ∃ cops, (costep c op).1.pair = crun cops c.pair := by
  cases op with
  | begin shards =>
    refine ⟨[], ?_⟩
    simp only [costep]
    split <;> rfl
  | prepare tx keys =>
    refine ⟨[.lockW tx keys none], ?_⟩
    simp only [costep, crun, List.foldl_cons, List.foldl_nil, cstep, Coord.pair]
    cases h : tryLockWait c.t c.g c.now c.now tx keys none with
    | mk t' r => cases r with
      | mk g' res => cases res <;> rfl
  | deliver h shard =>
    refine ⟨[], ?_⟩
    simp only [costep]
    cases aGet c.inflight h with
    | none => rfl
    | some tx =>
      simp only
      have := recordVote_pair { c with inflight := aRemove c.inflight h } tx shard (some h)
      split
      · next c2 ph heq => rw [heq] at this; exact this
      · next c2 r _ heq => rw [heq] at this; exact this
  | voteNo tx shard => exact ⟨[], recordVote_pair c tx shard none⟩
  | commit tx =>
    simp only [costep]
    cases aGet c.pending tx with
    | none => exact ⟨[], rfl⟩
    | some p =>
      simp only
      by_cases e : p.phase ≠ .prepared
      · rw [if_pos e]; exact ⟨[], rfl⟩
      · rw [if_neg e]; exact ⟨[.endTx tx p.handles], rfl⟩
  | abort tx =>
    simp only [costep]
    cases aGet c.pending tx with
    | none => exact ⟨[], rfl⟩
    | some p => exact ⟨[.endTx tx p.handles], rfl⟩
  | completeCommit tx =>
    simp only [costep]
    cases aGet c.pending tx with
    | none => exact ⟨[], rfl⟩
    | some p =>
      simp only
      by_cases e : p.phase ≠ .committing
      · rw [if_pos e]; exact ⟨[], rfl⟩
      · rw [if_neg e]; exact ⟨[.endTx tx p.handles], rfl⟩
  | completeAbort tx =>
    simp only [costep]
    cases aGet c.pending tx with
    | none => exact ⟨[], rfl⟩
    | some p =>
      simp only
      by_cases e : p.phase ≠ .aborting
      · rw [if_pos e]; exact ⟨[], rfl⟩
      · rw [if_neg e]; exact ⟨[.endTx tx p.handles], rfl⟩
  | forceResolve tx commit =>
    simp only [costep]
    cases aGet c.pending tx with
    | none => exact ⟨[], rfl⟩
    | some p =>
      simp only
      cases commit with
      | false => exact ⟨[.endTx tx p.handles], rfl⟩
      | true =>
        simp only [↓reduceIte]
        split
        · exact ⟨[.endTx tx p.handles], rfl⟩
        · exact ⟨[], rfl⟩
  | cleanupTimeouts =>
    simp only [costep]
    obtain ⟨cops, h⟩ := timeoutLoop_pair ((c.pending.filter (fun e => e.2.doomed)).map (·.1)) c
    refine ⟨cops ++ [.cleanW], ?_⟩
    simp only [crun, List.foldl_append, List.foldl_cons, List.foldl_nil]
    simp only [crun, timeoutLoop] at h
    rw [← h]
    rfl
  | recover => exact ⟨[.cleanW], rfl⟩
  | sweep ps => exact ⟨[.sweep (c.pending.map (·.1)) ps], rfl⟩
  | advance d => exact ⟨[.advance d], rfl⟩
  | saveLoad =>
    exact ⟨[.serializeRestore, .gNew], rfl⟩
  | doom tx => exact ⟨[], rfl⟩

/-- the single-transaction end-of-transaction operations and the transaction they end -/
def endOf : CoOp → Option Nat
  | .commit tx => some tx
  | .abort tx => some tx
  | .completeCommit tx => some tx
  | .completeAbort tx => some tx
  | .forceResolve tx _ => some tx
  | _ => none

/-- an end-of-transaction operation that answers `ok` ran the end-of-transaction sequence of a
    pending transaction (all five single-transaction sites) -/
theorem end_ok_runs_finish (c : Coord) (op : CoOp) (tx : Nat) (he : endOf op = some tx)
    (hok : (costep c op).2 = .ok) : ∃ p, aGet c.pending tx = some p ∧ (costep c op).1 = c.finish tx p := by
  cases op with
  | commit t =>
    simp only [endOf, Option.some.injEq] at he; subst he
    simp only [costep] at hok ⊢
    cases hp : aGet c.pending t with
    | none => simp [hp] at hok
    | some p =>
      simp only [hp] at hok ⊢
      by_cases e : p.phase ≠ .prepared
      · rw [if_pos e] at hok; cases hok
      · rw [if_neg e]; exact ⟨p, rfl, rfl⟩
  | abort t =>
    simp only [endOf, Option.some.injEq] at he; subst he
    simp only [costep] at hok ⊢
    cases hp : aGet c.pending t with
    | none => simp [hp] at hok
    | some p => exact ⟨p, rfl, rfl⟩
  | completeCommit t =>
    simp only [endOf, Option.some.injEq] at he; subst he
    simp only [costep] at hok ⊢
    cases hp : aGet c.pending t with
    | none => simp [hp] at hok
    | some p =>
      simp only [hp] at hok ⊢
      by_cases e : p.phase ≠ .committing
      · rw [if_pos e] at hok; cases hok
      · rw [if_neg e]; exact ⟨p, rfl, rfl⟩
  | completeAbort t =>
    simp only [endOf, Option.some.injEq] at he; subst he
    simp only [costep] at hok ⊢
    cases hp : aGet c.pending t with
    | none => simp [hp] at hok
    | some p =>
      simp only [hp] at hok ⊢
      by_cases e : p.phase ≠ .aborting
      · rw [if_pos e] at hok; cases hok
      · rw [if_neg e]; exact ⟨p, rfl, rfl⟩
  | forceResolve t commit =>
    simp only [endOf, Option.some.injEq] at he; subst he
    simp only [costep] at hok ⊢
    cases hp : aGet c.pending t with
    | none => simp [hp] at hok
    | some p =>
      simp only [hp] at hok ⊢
      cases commit with
      | false => exact ⟨p, rfl, rfl⟩
      | true =>
        simp only [↓reduceIte] at hok ⊢
        by_cases e : p.allYes = true ∨ p.phase = .prepared ∨ p.phase = .committing
        · rw [if_pos e]; exact ⟨p, rfl, rfl⟩
        · rw [if_neg e] at hok; cases hok
  | begin _ => cases he
  | prepare _ _ => cases he
  | deliver _ _ => cases he
  | voteNo _ _ => cases he
  | cleanupTimeouts => cases he
  | recover => cases he
  | sweep _ => cases he
  | advance _ => cases he
  | saveLoad => cases he
  | doom _ => cases he

/-! ### every lock is accounted for -/

/-- the coordinator has recorded a Yes vote of `tx` carrying lock handle `h` -/
def Recorded (c : Coord) (tx h : Nat) : Prop := ∃ p, aGet c.pending tx = some p ∧ h ∈ p.handles

/-- where the coordinator stands with respect to a lock handle: the Yes vote carrying it is still
    in flight, `record_vote` refused it, or it is recorded in the votes of the pending owner -/
def Accounted (c : Coord) (l : KeyLock) : Prop :=
  (aGet c.inflight l.handle).isSome ∨ l.handle ∈ c.unrecorded ∨ Recorded c l.tx l.handle

structure CoInv (c : Coord) : Prop where
  nd : (c.t.locks.map (·.1)).Nodup
  nd2 : (c.t.txLocks.map (·.1)).Nodup
  tr : Transpose c.g
  fresh : ∀ tx p, aGet c.pending tx = some p → tx < c.nextTx
  hlt : ∀ k l, aGet c.t.locks k = some l → l.handle < c.t.nextHandle
  ilt : ∀ h tx, aGet c.inflight h = some tx → h < c.t.nextHandle
  iown : ∀ k l tx, aGet c.t.locks k = some l → aGet c.inflight l.handle = some tx → l.tx = tx
  acc : ∀ k l, aGet c.t.locks k = some l → Accounted c l

theorem coInv_init (timeout mc : Nat) : CoInv (Coord.init timeout mc) := by
  refine ⟨by simp [Coord.init, LockTable.empty], by simp [Coord.init, LockTable.empty], transpose_empty 0, ?_, ?_, ?_, ?_, ?_⟩ <;>
    intros <;> simp_all [Coord.init, LockTable.empty, aGet]

/-- operations that only remove locks, only remove in-flight entries and keep the counter -/
theorem coInv_frame (c c' : Coord) (hi : CoInv c) (hs : Shrinks c.t c'.t)
    (nd' : (c'.t.locks.map (·.1)).Nodup) (nd2' : (c'.t.txLocks.map (·.1)).Nodup) (tr' : Transpose c'.g)
    (hfresh : ∀ tx p, aGet c'.pending tx = some p → tx < c'.nextTx)
    (hinf : ∀ h tx, aGet c'.inflight h = some tx → aGet c.inflight h = some tx)
    (hacc : ∀ k l, aGet c.t.locks k = some l → aGet c'.t.locks k = some l → Accounted c l → Accounted c' l) :
    CoInv c' := by
  refine ⟨nd', nd2', tr', hfresh, ?_, ?_, ?_, ?_⟩
  · intro k l h; rw [hs.nh]; exact hi.hlt k l (hs.sub k l h)
  · intro h tx hh; rw [hs.nh]; exact hi.ilt h tx (hinf h tx hh)
  · intro k l tx h hh; exact hi.iown k l tx (hs.sub k l h) (hinf _ tx hh)
  · intro k l h; exact hacc k l (hs.sub k l h) h (hi.acc k l (hs.sub k l h))

theorem handles_aInsert (votes : List (Nat × Option Nat)) (shard : Nat) (v : Option Nat)
    (hn : aGet votes shard = none) (h : Nat) :
    h ∈ (aInsert votes shard v).filterMap (·.2) ↔ v = some h ∨ h ∈ votes.filterMap (·.2) := by
  unfold aInsert
  rw [aRemove_of_none votes shard hn]
  cases v with
  | none => simp
  | some x =>
    simp only [List.filterMap_cons_some, List.mem_cons, Option.some.injEq]
    constructor
    · rintro (e | e)
      · exact Or.inl e.symm
      · exact Or.inr e
    · rintro (e | e)
      · exact Or.inl e.symm
      · exact Or.inr e

theorem votedPTx_handles (p : PTx) (shard : Nat) (v : Option Nat) (hn : aGet p.votes shard = none) (h : Nat) :
    h ∈ (votedPTx p shard v).handles ↔ v = some h ∨ h ∈ p.handles := by
  unfold votedPTx PTx.handles
  exact handles_aInsert p.votes shard v hn h

/-- an accepted vote keeps every recorded handle recorded -/
theorem recorded_voted (c : Coord) (tx shard : Nat) (v : Option Nat) (p : PTx)
    (hp : aGet c.pending tx = some p) (hn : aGet p.votes shard = none) (tx' h : Nat)
    (hr : Recorded c tx' h) :
    Recorded { c with pending := aModify c.pending tx (fun _ => votedPTx p shard v) } tx' h := by
  obtain ⟨q, hq, hh⟩ := hr
  unfold Recorded
  simp only [aGet_aModify]
  by_cases e : tx' = tx
  · subst e
    rw [hp] at hq; simp only [Option.some.injEq] at hq; subst hq
    exact ⟨_, by simp [hp], (votedPTx_handles p shard v hn h).mpr (Or.inr hh)⟩
  · exact ⟨q, by simp [e, hq], hh⟩

theorem coInv_recordVote_no (c : Coord) (tx shard : Nat) (hi : CoInv c) : CoInv (recordVote c tx shard none).1 := by
  rcases recordVote_spec c tx shard none with ⟨r, h, _⟩ | ⟨p, ph, hp, _, hn, h⟩
  · rw [h]; exact hi
  · rw [h]
    refine coInv_frame c _ hi ?_ ?_ ?_ ?_ ?_ ?_ ?_
    · exact Shrinks.refl _
    · exact hi.nd
    · exact hi.nd2
    · exact hi.tr
    · intro tx' p' hp'
      simp only [aGet_aModify] at hp'
      by_cases e : tx' = tx
      · subst e; exact hi.fresh _ p hp
      · simp only [e, ↓reduceIte] at hp'; exact hi.fresh _ p' hp'
    · intro h' tx' hh; exact hh
    · intro k l _ _ ha
      rcases ha with ha | ha | ha
      · exact Or.inl ha
      · exact Or.inr (Or.inl ha)
      · exact Or.inr (Or.inr (recorded_voted c tx shard none p hp hn _ _ ha))

theorem coInv_deliver (c : Coord) (h shard : Nat) (hi : CoInv c) : CoInv (costep c (.deliver h shard)).1 := by
  simp only [costep]
  cases hf : aGet c.inflight h with
  | none => exact hi
  | some tx =>
    simp only
    have hremove : ∀ h' tx', aGet (aRemove c.inflight h) h' = some tx' → aGet c.inflight h' = some tx' := by
      intro h' tx' hh
      rw [aGet_aRemove] at hh
      by_cases e : h' = h
      · simp [e] at hh
      · simpa [e] using hh
    rcases recordVote_spec { c with inflight := aRemove c.inflight h } tx shard (some h) with
      ⟨r, hr, hnr⟩ | ⟨p, ph, hp, _, hn, hr⟩
    · -- refused: the handle moves from in flight to unrecorded
      rw [hr]
      have : CoInv { c with inflight := aRemove c.inflight h, unrecorded := c.unrecorded ++ [h] } := by
        refine coInv_frame c _ hi ?_ ?_ ?_ ?_ ?_ ?_ ?_
        · exact Shrinks.refl _
        · exact hi.nd
        · exact hi.nd2
        · exact hi.tr
        · exact hi.fresh
        · exact hremove
        intro k l _ _ ha
        rcases ha with ha | ha | ha
        · by_cases e : l.handle = h
          · exact Or.inr (Or.inl (by simp [e]))
          · left; simp only [aGet_aRemove, e, ↓reduceIte]; exact ha
        · exact Or.inr (Or.inl (by simp [ha]))
        · exact Or.inr (Or.inr ha)
      cases r with
      | recorded ph => exact absurd rfl (hnr ph)
      | _ => exact this
    · -- recorded
      rw [hr]
      simp only at hp ⊢
      refine coInv_frame c _ hi ?_ ?_ ?_ ?_ ?_ ?_ ?_
      · exact Shrinks.refl _
      · exact hi.nd
      · exact hi.nd2
      · exact hi.tr
      · intro tx' p' hp'
        simp only [aGet_aModify] at hp'
        by_cases e : tx' = tx
        · subst e; exact hi.fresh _ p hp
        · simp only [e, ↓reduceIte] at hp'; exact hi.fresh _ p' hp'
      · exact hremove
      · intro k l hl _ ha
        rcases ha with ha | ha | ha
        · by_cases e : l.handle = h
          · -- the delivered vote: its lock belongs to `tx` and is recorded now
            have hown : l.tx = tx := hi.iown k l tx hl (by rw [e]; exact hf)
            right; right
            refine ⟨votedPTx p shard (some h), ?_, ?_⟩
            · simp only [aGet_aModify, hown, ↓reduceIte]
              have : aGet c.pending tx = some p := hp
              simp [this]
            · exact (votedPTx_handles p shard (some h) hn l.handle).mpr (Or.inl (by rw [e]))
          · left; simp only [aGet_aRemove, e, ↓reduceIte]; exact ha
        · exact Or.inr (Or.inl ha)
        · exact Or.inr (Or.inr (recorded_voted { c with inflight := aRemove c.inflight h } tx shard (some h) p hp hn _ _ ha))

/-- the end-of-transaction sequence -/
theorem coInv_finish (c : Coord) (tx : Nat) (p : PTx) (hp : aGet c.pending tx = some p) (hi : CoInv c) :
    CoInv (c.finish tx p) := by
  have hsh : Shrinks c.t (c.finish tx p).t := by
    simp only [Coord.finish, endTx, releaseHandles_table]
    exact shrinks_foldl_releaseByHandle _ _
  have hn := nodup_foldl_releaseByHandle p.handles c.t hi.nd hi.nd2
  refine coInv_frame c _ hi ?_ ?_ ?_ ?_ ?_ ?_ ?_
  · exact hsh
  · simp only [Coord.finish, endTx, releaseHandles_table]; exact hn.1
  · simp only [Coord.finish, endTx, releaseHandles_table]; exact hn.2
  · simp only [Coord.finish, endTx]
    exact transpose_removeTransaction _ tx (releaseHandles_inv p.handles c.t c.g hi.nd hi.nd2 hi.tr).2.2
  · intro tx' p' hp'
    simp only [Coord.finish, aGet_aRemove] at hp'
    by_cases e : tx' = tx
    · simp [e] at hp'
    · simp only [e, ↓reduceIte] at hp'; exact hi.fresh _ p' hp'
  · intro h' tx' hh; exact hh
  · intro k l _ hl' ha
    rcases ha with ha | ha | ha
    · exact Or.inl ha
    · exact Or.inr (Or.inl ha)
    · right; right
      obtain ⟨q, hq, hh⟩ := ha
      have hne : l.tx ≠ tx := by
        intro e
        rw [e, hp] at hq; simp only [Option.some.injEq] at hq; subst hq
        have hl2 : aGet (p.handles.foldl releaseByHandle c.t).locks k = some l := by
          simpa only [Coord.finish, endTx, releaseHandles_table] using hl'
        exact foldl_releaseByHandle_locks p.handles c.t hi.nd hi.nd2 k l hl2 hh
      exact ⟨q, by simp only [Coord.finish, aGet_aRemove, hne, ↓reduceIte]; exact hq, hh⟩

theorem coInv_timeoutLoop (txs : List Nat) (c : Coord) (hi : CoInv c) : CoInv (timeoutLoop c txs) := by
  induction txs generalizing c with
  | nil => exact hi
  | cons a r ih =>
    simp only [timeoutLoop, List.foldl_cons]
    cases hp : aGet c.pending a with
    | none => exact ih c hi
    | some p => exact ih _ (coInv_finish c a p hp hi)

/-- `cleanup_expired_with_wait_cleanup` / the orphan sweep: the table only loses locks -/
theorem coInv_table_shrink (c : Coord) (t' : LockTable) (g' : WaitGraph) (hi : CoInv c) (hs : Shrinks c.t t')
    (nd' : (t'.locks.map (·.1)).Nodup) (nd2' : (t'.txLocks.map (·.1)).Nodup) (tr' : Transpose g') :
    CoInv { c with t := t', g := g' } := by
  refine coInv_frame c _ hi ?_ ?_ ?_ ?_ ?_ ?_ ?_
  · exact hs
  · exact nd'
  · exact nd2'
  · exact tr'
  · exact hi.fresh
  · exact fun _ _ h => h
  · intro k l _ _ ha
    exact ha

theorem recoverPhase_handles (p : PTx) : (recoverPhase p).handles = p.handles := by
  unfold recoverPhase PTx.handles
  cases p.phase with
  | preparing => by_cases h : p.doomed <;> simp [h]
  | prepared => by_cases h1 : p.doomed <;> by_cases h2 : p.allYes <;> by_cases h3 : p.anyNo <;> simp [h1, h2, h3]
  | committing => rfl
  | aborting => rfl

theorem coInv_prepare (c : Coord) (tx : Nat) (keys : List Nat) (hi : CoInv c) :
    CoInv (costep c (.prepare tx keys)).1 := by
  simp only [costep]
  have htab := tryLockWait_table c.t c.g c.now c.now tx keys none
  have hinv := tryLockWait_inv c.t c.g c.now c.now tx keys none hi.nd hi.nd2 hi.tr
  cases hr : tryLockWait c.t c.g c.now c.now tx keys none with
  | mk t' r =>
    obtain ⟨g', res⟩ := r
    rw [hr] at htab hinv
    simp only at htab hinv
    cases res with
    | error ks =>
      -- refused: the table is unchanged
      simp only
      have hgr : ¬ ∃ h, (tryLockWait c.t c.g c.now c.now tx keys none).2.2 = .ok h := by
        rw [hr]; rintro ⟨h, hh⟩; cases hh
      rw [tryLockWait_granted_iff] at hgr
      have ht : t' = c.t := by
        rw [htab]; unfold tryLock
        cases hc : firstConflict c.t.locks c.now tx keys with
        | none => exact absurd hc hgr
        | some x => rfl
      subst ht
      exact coInv_table_shrink c c.t g' hi (Shrinks.refl _) hi.nd hi.nd2 hinv.2.2
    | ok h =>
      simp only
      have hgr : ∃ h, (tryLockWait c.t c.g c.now c.now tx keys none).2.2 = .ok h := by
        rw [hr]; exact ⟨h, rfl⟩
      rw [tryLockWait_granted_iff] at hgr
      have hh : h = c.t.nextHandle := by
        have : (tryLockWait c.t c.g c.now c.now tx keys none).2.2 = .ok h := by rw [hr]
        unfold tryLockWait at this
        simp only at this
        have he : (conflicts c.t.locks c.now tx keys).isEmpty = true := by
          rw [List.isEmpty_iff, conflicts_nil_iff]; exact hgr
        simp only [he, ↓reduceIte, Except.ok.injEq] at this
        exact this.symm
      subst hh
      have ht : t' = { locks := acquireAll c.t c.now tx keys, txLocks := extendTx c.t.txLocks tx keys
                       defaultTimeout := c.t.defaultTimeout, nextHandle := c.t.nextHandle + 1 } := by
        rw [htab]; unfold tryLock; rw [hgr]
      have hnone : aGet c.inflight c.t.nextHandle = none := by
        cases hx : aGet c.inflight c.t.nextHandle with
        | none => rfl
        | some y => exact absurd (hi.ilt _ y hx) (Nat.lt_irrefl _)
      refine ⟨hinv.1, hinv.2.1, hinv.2.2, hi.fresh, ?_, ?_, ?_, ?_⟩
      · intro k l hl
        subst ht
        simp only [aGet_acquireAll] at hl ⊢
        by_cases hk : k ∈ keys
        · simp only [hk, ↓reduceIte, Option.some.injEq] at hl; subst hl; simp [newLock]
        · simp only [hk, ↓reduceIte] at hl; have := hi.hlt k l hl; omega
      · intro h' tx' hx
        subst ht
        simp only [aGet_append] at hx ⊢
        cases hy : aGet c.inflight h' with
        | some y => have := hi.ilt h' y hy; omega
        | none =>
          simp only [hy, aGet] at hx
          by_cases e : c.t.nextHandle = h'
          · omega
          · simp [e] at hx
      · intro k l tx' hl hx
        subst ht
        simp only [aGet_acquireAll] at hl
        simp only [aGet_append] at hx
        by_cases hk : k ∈ keys
        · simp only [hk, ↓reduceIte, Option.some.injEq] at hl; subst hl
          simp only [newLock, hnone, aGet, ↓reduceIte, Option.some.injEq] at hx ⊢
          exact hx
        · simp only [hk, ↓reduceIte] at hl
          have hlt := hi.hlt k l hl
          cases hy : aGet c.inflight l.handle with
          | some y => simp only [hy, Option.some.injEq] at hx; subst hx; exact hi.iown k l y hl hy
          | none =>
            simp only [hy, aGet] at hx
            by_cases e : c.t.nextHandle = l.handle
            · omega
            · simp [e] at hx
      · intro k l hl
        subst ht
        simp only [aGet_acquireAll] at hl
        by_cases hk : k ∈ keys
        · simp only [hk, ↓reduceIte, Option.some.injEq] at hl; subst hl
          left
          simp [newLock, aGet_append, hnone, aGet]
        · simp only [hk, ↓reduceIte] at hl
          rcases hi.acc k l hl with ha | ha | ha
          · left
            simp only [aGet_append]
            cases hy : aGet c.inflight l.handle with
            | some y => rfl
            | none => simp [hy] at ha
          · exact Or.inr (Or.inl ha)
          · exact Or.inr (Or.inr ha)

theorem coInv_step (c : Coord) (op : CoOp) (hi : CoInv c) : CoInv (costep c op).1 := by
  cases op with
  | begin shards =>
    simp only [costep]
    split
    · exact hi
    · refine coInv_frame c _ hi ?_ ?_ ?_ ?_ ?_ ?_ ?_
      · exact Shrinks.refl _
      · exact hi.nd
      · exact hi.nd2
      · exact hi.tr
      · intro tx p hp
        simp only [aGet_aInsert] at hp
        by_cases e : c.nextTx = tx
        · subst e; exact Nat.lt_succ_self _
        · simp only [e, ↓reduceIte] at hp; exact Nat.lt_succ_of_lt (hi.fresh tx p hp)
      · intro h tx hh; exact hh
      · intro k l _ _ ha
        rcases ha with ha | ha | ha
        · exact Or.inl ha
        · exact Or.inr (Or.inl ha)
        · right; right
          obtain ⟨q, hq, hh⟩ := ha
          have : c.nextTx ≠ l.tx := fun e => absurd (hi.fresh _ q hq) (by rw [← e]; exact Nat.lt_irrefl _)
          exact ⟨q, by simp only [aGet_aInsert, this, ↓reduceIte]; exact hq, hh⟩
  | prepare tx keys => exact coInv_prepare c tx keys hi
  | deliver h shard => exact coInv_deliver c h shard hi
  | voteNo tx shard => exact coInv_recordVote_no c tx shard hi
  | commit tx =>
    simp only [costep]
    cases hp : aGet c.pending tx with
    | none => exact hi
    | some p =>
      simp only
      by_cases e : p.phase ≠ .prepared
      · rw [if_pos e]; exact hi
      · rw [if_neg e]; exact coInv_finish c tx p hp hi
  | abort tx =>
    simp only [costep]
    cases hp : aGet c.pending tx with
    | none => exact hi
    | some p => exact coInv_finish c tx p hp hi
  | completeCommit tx =>
    simp only [costep]
    cases hp : aGet c.pending tx with
    | none => exact hi
    | some p =>
      simp only
      by_cases e : p.phase ≠ .committing
      · rw [if_pos e]; exact hi
      · rw [if_neg e]; exact coInv_finish c tx p hp hi
  | completeAbort tx =>
    simp only [costep]
    cases hp : aGet c.pending tx with
    | none => exact hi
    | some p =>
      simp only
      by_cases e : p.phase ≠ .aborting
      · rw [if_pos e]; exact hi
      · rw [if_neg e]; exact coInv_finish c tx p hp hi
  | forceResolve tx commit =>
    simp only [costep]
    cases hp : aGet c.pending tx with
    | none => exact hi
    | some p =>
      simp only
      cases commit with
      | false => exact coInv_finish c tx p hp hi
      | true =>
        simp only [↓reduceIte]
        split
        · exact coInv_finish c tx p hp hi
        · exact hi
  | cleanupTimeouts =>
    simp only [costep]
    have h1 := coInv_timeoutLoop ((c.pending.filter (fun e => e.2.doomed)).map (·.1)) c hi
    simp only [timeoutLoop] at h1
    generalize (List.foldl _ c _) = c1 at h1 ⊢
    have hn := foldl_dropKey_nodup (expiredKeys c1.t c1.now) c1.t h1.nd h1.nd2
    exact coInv_table_shrink c1 _ _ h1 (shrinks_cleanupExpired c1.t c1.now) hn.1 hn.2
      (transpose_foldl_removeTransaction _ _ h1.tr)
  | recover =>
    simp only [costep]
    have hn := foldl_dropKey_nodup (expiredKeys c.t c.now) c.t hi.nd hi.nd2
    refine coInv_frame c _ hi ?_ ?_ ?_ ?_ ?_ ?_ ?_
    · exact shrinks_cleanupExpired c.t c.now
    · exact hn.1
    · exact hn.2
    · exact transpose_foldl_removeTransaction _ _ hi.tr
    · intro tx p hp
      simp only [aGet_map_snd] at hp
      cases hq : aGet c.pending tx with
      | none => simp [hq] at hp
      | some q => exact hi.fresh tx q hq
    · intro h tx hh; exact hh
    · intro k l _ _ ha
      rcases ha with ha | ha | ha
      · exact Or.inl ha
      · exact Or.inr (Or.inl ha)
      · right; right
        obtain ⟨q, hq, hh⟩ := ha
        exact ⟨recoverPhase q, by simp only [aGet_map_snd, hq, Option.map_some], by rw [recoverPhase_handles]; exact hh⟩
  | sweep ps =>
    simp only [costep, orphanSweep]
    have hn := foldl_sweepKey_nodup (orphanKeys c.t (c.pending.map (·.1)) ps) c.t hi.nd hi.nd2
    exact coInv_table_shrink c _ _ hi (shrinks_sweep c.t _) hn.1 hn.2 (transpose_foldl_removeTransaction _ _ hi.tr)
  | advance d => exact ⟨hi.nd, hi.nd2, hi.tr, hi.fresh, hi.hlt, hi.ilt, hi.iown, hi.acc⟩
  | saveLoad =>
    simp only [costep, restore_serialize]
    exact coInv_table_shrink c c.t _ hi (Shrinks.refl _) hi.nd hi.nd2 (transpose_empty 0)
  | doom tx =>
    simp only [costep]
    refine coInv_frame c _ hi ?_ ?_ ?_ ?_ ?_ ?_ ?_
    · exact Shrinks.refl _
    · exact hi.nd
    · exact hi.nd2
    · exact hi.tr
    · intro tx' p hp
      simp only [aGet_aModify] at hp
      cases hq : aGet c.pending tx' with
      | none =>
        by_cases e : tx' = tx
        · subst e; simp [hq] at hp
        · simp [e, hq] at hp
      | some q => exact hi.fresh tx' q hq
    · intro h tx' hh; exact hh
    · intro k l _ _ ha
      rcases ha with ha | ha | ha
      · exact Or.inl ha
      · exact Or.inr (Or.inl ha)
      · right; right
        obtain ⟨q, hq, hh⟩ := ha
        by_cases e : l.tx = tx
        · subst e
          exact ⟨{ q with doomed := true }, by simp only [aGet_aModify, ↓reduceIte, hq, Option.map_some], hh⟩
        · exact ⟨q, by simp only [aGet_aModify, e, ↓reduceIte]; exact hq, hh⟩

theorem coInv_run (ops : List CoOp) (c : Coord) (hi : CoInv c) : CoInv (corun ops c) := by
  induction ops generalizing c with
  | nil => exact hi
  | cons op r ih => exact ih _ (coInv_step c op hi)

theorem corun_pair (ops : List CoOp) (c : Coord) : ∃ cops, (corun ops c).pair = crun cops c.pair := by
  induction ops generalizing c with
  | nil => exact ⟨[], rfl⟩
  | cons op r ih =>
    obtain ⟨c1, h1⟩ := costep_pair c op
    obtain ⟨c2, h2⟩ := ih (costep c op).1
    refine ⟨c1 ++ c2, ?_⟩
    simp only [corun, List.foldl_cons] at h2 ⊢
    rw [h2, h1]
    simp [crun, List.foldl_append]

/-! ### absence from the wait-for graph is kept by further removals -/

/-- `tx` does not occur in the wait-for graph: no entry in either index, in nobody's holder or
    waiter set, no wait-start, no priority -/
def Absent (g : WaitGraph) (tx : Nat) : Prop :=
  aGet g.edges tx = none ∧ aGet g.reverse tx = none ∧ (∀ w, tx ∉ outs g w) ∧ (∀ h, tx ∉ ins g h) ∧
  aGet g.waitStarted tx = none ∧ aGet g.priorities tx = none

theorem absent_removeTransaction (g : WaitGraph) (tx tx' : Nat) (hT : Transpose g)
    (h : tx = tx' ∨ Absent g tx) : Absent (removeTransaction g tx') tx := by
  rcases h with h | ⟨a1, a2, a3, a4, a5, a6⟩
  · subst h; exact removeTransaction_absent g tx hT
  · refine ⟨?_, ?_, ?_, ?_, ?_, ?_⟩
    · rw [removeTransaction_eq]
      apply eraseFromEach_none
      rw [aGet_aRemove]; by_cases e : tx = tx' <;> simp [e, a1]
    · rw [removeTransaction_eq]
      simp only [aGet_aRemove]
      split
      · rfl
      · exact eraseFromEach_none _ _ _ _ a2
    · intro w hw; exact a3 w ((mem_outs_removeTransaction g tx' w tx hT).mp hw).1
    · intro x hx; exact a4 x ((mem_ins_removeTransaction g tx' tx x hT).mp hx).1
    · rw [removeTransaction_eq]; simp only [aGet_aRemove]; by_cases e : tx = tx' <;> simp [e, a5]
    · rw [removeTransaction_eq]; simp only [aGet_aRemove]; by_cases e : tx = tx' <;> simp [e, a6]

theorem absent_foldl_removeTransaction (txs : List Nat) (g : WaitGraph) (tx : Nat) (hT : Transpose g)
    (h : tx ∈ txs ∨ Absent g tx) : Absent (txs.foldl removeTransaction g) tx := by
  induction txs generalizing g with
  | nil =>
    rcases h with h | h
    · simp at h
    · exact h
  | cons a r ih =>
    simp only [List.foldl_cons]
    apply ih _ (transpose_removeTransaction g a hT)
    rcases h with h | h
    · simp only [List.mem_cons] at h
      rcases h with h | h
      · exact Or.inr (absent_removeTransaction g tx a hT (Or.inl h))
      · exact Or.inl h
    · exact Or.inr (absent_removeTransaction g tx a hT (Or.inr h))

theorem releaseByHandleWait_graph (t : LockTable) (g : WaitGraph) (h : Nat) :
    ∃ L : List Nat, (releaseByHandleWait t g h).2 = L.foldl removeTransaction g := by
  unfold releaseByHandleWait
  simp only
  split
  · next tx _ => exact ⟨[tx], rfl⟩
  · exact ⟨[], rfl⟩

/-- the wait-for graph after the handle loop is the old one with some transactions removed -/
theorem releaseHandles_graph (hs : List Nat) (t : LockTable) (g : WaitGraph) :
    ∃ L : List Nat, (releaseHandles t g hs).2 = L.foldl removeTransaction g := by
  unfold releaseHandles
  induction hs generalizing t g with
  | nil => exact ⟨[], rfl⟩
  | cons a r ih =>
    simp only [List.foldl_cons]
    obtain ⟨L1, h1⟩ := releaseByHandleWait_graph t g a
    obtain ⟨L2, h2⟩ := ih (releaseByHandleWait t g a).1 (releaseByHandleWait t g a).2
    exact ⟨L1 ++ L2, by rw [h2, h1, List.foldl_append]⟩

theorem finish_graph (c : Coord) (tx : Nat) (p : PTx) :
    ∃ L : List Nat, (c.finish tx p).g = (L ++ [tx]).foldl removeTransaction c.g := by
  obtain ⟨L, hL⟩ := releaseHandles_graph p.handles c.t c.g
  exact ⟨L, by simp only [Coord.finish, endTx, hL, List.foldl_append, List.foldl_cons, List.foldl_nil]⟩

theorem timeoutLoop_absent (txs : List Nat) (c : Coord) (tx : Nat) (hi : CoInv c)
    (h0 : aGet c.pending tx = none → Absent c.g tx) :
    aGet (timeoutLoop c txs).pending tx = none → Absent (timeoutLoop c txs).g tx := by
  induction txs generalizing c with
  | nil => exact h0
  | cons a r ih =>
    simp only [timeoutLoop, List.foldl_cons]
    cases hp : aGet c.pending a with
    | none => exact ih c hi h0
    | some p =>
      apply ih (c.finish a p) (coInv_finish c a p hp hi)
      intro hnone
      obtain ⟨L, hL⟩ := finish_graph c a p
      rw [hL]
      apply absent_foldl_removeTransaction _ _ _ hi.tr
      by_cases e : tx = a
      · left; simp [e]
      · right
        apply h0
        simpa only [Coord.finish, aGet_aRemove, e, ↓reduceIte] using hnone

theorem mem_foldl_setInsert_snd (oks : List (Nat × Nat)) (acc : List Nat) (tx : Nat) :
    tx ∈ oks.foldl (fun s p => setInsert s p.2) acc ↔ tx ∈ acc ∨ ∃ k, (k, tx) ∈ oks := by
  induction oks generalizing acc with
  | nil => simp
  | cons a r ih =>
    simp only [List.foldl_cons, ih, mem_setInsert, List.mem_cons]
    constructor
    · rintro ((h | h) | ⟨k, h⟩)
      · exact Or.inl h
      · exact Or.inr ⟨a.1, Or.inl (by rw [h])⟩
      · exact Or.inr ⟨k, Or.inr h⟩
    · rintro (h | ⟨k, h | h⟩)
      · exact Or.inl (Or.inl h)
      · exact Or.inl (Or.inr (by rw [← h]))
      · exact Or.inr ⟨k, h⟩

theorem mem_outs_foldl_removeTransaction (txs : List Nat) (g : WaitGraph) (hT : Transpose g) (a b : Nat) :
    b ∈ outs (txs.foldl removeTransaction g) a ↔ b ∈ outs g a ∧ a ∉ txs ∧ b ∉ txs := by
  induction txs generalizing g with
  | nil => simp
  | cons x r ih =>
    simp only [List.foldl_cons, ih _ (transpose_removeTransaction g x hT), mem_outs_removeTransaction g x a b hT,
      List.mem_cons, not_or]
    constructor
    · rintro ⟨⟨h1, h2, h3⟩, h4, h5⟩; exact ⟨h1, ⟨h2, h4⟩, ⟨h3, h5⟩⟩
    · rintro ⟨h1, ⟨h2, h4⟩, ⟨h3, h5⟩⟩; exact ⟨⟨h1, h2, h3⟩, h4, h5⟩

theorem mem_staleTxs (g : WaitGraph) (now ttl tx : Nat) :
    tx ∈ staleTxs g now ttl ↔ ∃ s, (tx, s) ∈ g.waitStarted ∧ now - s > ttl := by
  unfold staleTxs
  simp only [List.mem_map, List.mem_filter, decide_eq_true_eq]
  constructor
  · rintro ⟨⟨a, s⟩, ⟨h1, h2⟩, e⟩
    simp only at e h2; subst e
    exact ⟨s, h1, h2⟩
  · rintro ⟨s, h1, h2⟩
    exact ⟨(tx, s), ⟨h1, h2⟩, rfl⟩

/-! ### a refused prepare records a wait edge to every blocker -/

theorem addWait_mx (g : WaitGraph) (now w h : Nat) (p : Option Nat) :
    (addWait g now w h p).maxEdgesPerTx = g.maxEdgesPerTx := by
  unfold addWait
  split
  · rfl
  · split
    · split <;> rfl
    · rfl

theorem removeTransaction_mx (g : WaitGraph) (tx : Nat) :
    (removeTransaction g tx).maxEdgesPerTx = g.maxEdgesPerTx := by
  rw [removeTransaction_eq]

theorem foldl_removeTransaction_mx (txs : List Nat) (g : WaitGraph) :
    (txs.foldl removeTransaction g).maxEdgesPerTx = g.maxEdgesPerTx := by
  induction txs generalizing g with
  | nil => rfl
  | cons a r ih => simp only [List.foldl_cons, ih, removeTransaction_mx]

theorem foldl_addWait_mx (bs : List Nat) (g : WaitGraph) (now w : Nat) (p : Option Nat) :
    (bs.foldl (fun g b => addWait g now w b p) g).maxEdgesPerTx = g.maxEdgesPerTx := by
  induction bs generalizing g with
  | nil => rfl
  | cons a r ih => simp only [List.foldl_cons, ih, addWait_mx]

theorem mem_outs_foldl_addWait (bs : List Nat) (g : WaitGraph) (now w : Nat) (p : Option Nat)
    (hmx : g.maxEdgesPerTx = 0) (a b : Nat) :
    b ∈ outs (bs.foldl (fun g b => addWait g now w b p) g) a ↔ b ∈ outs g a ∨ (a = w ∧ b ∈ bs ∧ w ≠ b) := by
  induction bs generalizing g with
  | nil => simp
  | cons x r ih =>
    simp only [List.foldl_cons]
    rw [ih _ (by rw [addWait_mx]; exact hmx), mem_outs_addWait]
    simp only [hmx, Nat.lt_irrefl, false_and, not_false_eq_true, and_true, List.mem_cons, gt_iff_lt]
    constructor
    · rintro ((h | ⟨h1, h2, h3⟩) | ⟨h1, h2, h3⟩)
      · exact Or.inl h
      · exact Or.inr ⟨h1, Or.inl h2, h2 ▸ h3⟩
      · exact Or.inr ⟨h1, Or.inr h2, h3⟩
    · rintro (h | ⟨h1, h2 | h2, h3⟩)
      · exact Or.inl (Or.inl h)
      · exact Or.inl (Or.inr ⟨h1, h2, h2 ▸ h3⟩)
      · exact Or.inr ⟨h1, h2, h3⟩

theorem mem_conflicts (locks : List (Nat × KeyLock)) (now tx : Nat) (keys : List Nat) (k b : Nat) :
    (k, b) ∈ conflicts locks now tx keys ↔
      k ∈ keys ∧ ∃ l, aGet locks k = some l ∧ l.isExpired now = false ∧ l.tx ≠ tx ∧ l.tx = b := by
  induction keys with
  | nil => simp [conflicts]
  | cons x r ih =>
    simp only [conflicts, List.mem_cons]
    cases hg : aGet locks x with
    | none =>
      simp only [ih]
      constructor
      · rintro ⟨h1, h2⟩; exact ⟨Or.inr h1, h2⟩
      · rintro ⟨h1 | h1, l, h2, h3⟩
        · subst h1; rw [hg] at h2; cases h2
        · exact ⟨h1, l, h2, h3⟩
    | some l0 =>
      by_cases hc : (!l0.isExpired now && l0.tx != tx) = true
      · simp only [hc, ↓reduceIte, List.mem_cons, Prod.mk.injEq, ih]
        simp only [Bool.and_eq_true, Bool.not_eq_eq_eq_not, Bool.not_true, bne_iff_ne, ne_eq] at hc
        constructor
        · rintro (⟨h1, h2⟩ | ⟨h1, h2⟩)
          · subst h1; exact ⟨Or.inl rfl, l0, hg, hc.1, hc.2, h2.symm⟩
          · exact ⟨Or.inr h1, h2⟩
        · rintro ⟨h1 | h1, l, h2, h3, h4, h5⟩
          · subst h1; rw [hg] at h2; simp only [Option.some.injEq] at h2; subst h2
            exact Or.inl ⟨rfl, h5.symm⟩
          · exact Or.inr ⟨h1, l, h2, h3, h4, h5⟩
      · simp only [hc, Bool.false_eq_true, ↓reduceIte, ih]
        simp only [Bool.and_eq_true, Bool.not_eq_eq_eq_not, Bool.not_true, bne_iff_ne, ne_eq, not_and, Decidable.not_not] at hc
        constructor
        · rintro ⟨h1, h2⟩; exact ⟨Or.inr h1, h2⟩
        · rintro ⟨h1 | h1, l, h2, h3, h4, h5⟩
          · subst h1; rw [hg] at h2; simp only [Option.some.injEq] at h2; subst h2
            exact absurd (hc h3) h4
          · exact ⟨h1, l, h2, h3, h4, h5⟩

/-! ### the coordinator's graph never has a per-transaction edge limit -/

theorem removeWait_mx (g : WaitGraph) (w h : Nat) : (removeWait g w h).maxEdgesPerTx = g.maxEdgesPerTx := by
  rw [removeWait_eq]
  have h1 : (rwFwd g w h).maxEdgesPerTx = g.maxEdgesPerTx := by
    unfold rwFwd
    cases aGet g.edges w with
    | none => rfl
    | some hs => by_cases e : (hs.filter (· != h)).isEmpty <;> simp [e]
  have h2 : ∀ g1 : WaitGraph, (rwRev g1 w h).maxEdgesPerTx = g1.maxEdgesPerTx := by
    intro g1
    unfold rwRev
    cases aGet g1.reverse h with
    | none => rfl
    | some ws => by_cases e : (ws.filter (· != w)).isEmpty <;> simp [e]
  rw [h2, h1]

theorem tryLockWait_mx (t : LockTable) (g : WaitGraph) (now wnow tx : Nat) (keys : List Nat) (prio : Option Nat) :
    (tryLockWait t g now wnow tx keys prio).2.1.maxEdgesPerTx = g.maxEdgesPerTx := by
  unfold tryLockWait
  simp only
  split
  · exact removeTransaction_mx g tx
  · exact foldl_addWait_mx _ g wnow tx prio

theorem cstep_mx (s : CSys) (op : COp) (h : s.g.maxEdgesPerTx = 0) : (cstep s op).g.maxEdgesPerTx = 0 := by
  cases op with
  | lockW tx keys prio => simp only [cstep, tryLockWait_mx]; exact h
  | relHW x =>
    obtain ⟨L, hL⟩ := releaseByHandleWait_graph s.t s.g x
    simp only [cstep, hL, foldl_removeTransaction_mx]; exact h
  | cleanW => simp only [cstep, cleanupExpiredWait, foldl_removeTransaction_mx]; exact h
  | lock tx keys => exact h
  | rel tx => exact h
  | relH x => exact h
  | clean => exact h
  | gAdd w x prio => simp only [cstep, addWait_mx]; exact h
  | gRm tx => simp only [cstep, removeTransaction_mx]; exact h
  | gRmW w x => simp only [cstep, removeWait_mx]; exact h
  | endTx tx hs =>
    obtain ⟨L, hL⟩ := releaseHandles_graph hs s.t s.g
    simp only [cstep, endTx, hL, removeTransaction_mx, foldl_removeTransaction_mx]; exact h
  | endTxOld tx hs =>
    obtain ⟨L, hL⟩ := releaseHandles_graph hs s.t s.g
    simp only [cstep, endTxOld, hL, foldl_removeTransaction_mx]; exact h
  | advance d => exact h
  | serializeRestore => exact h
  | sweep active ps => simp only [cstep, orphanSweep, foldl_removeTransaction_mx]; exact h
  | gClear => simp only [cstep, clearGraph, WaitGraph.empty]; exact h
  | gNew => rfl
  | gStale ttl => simp only [cstep, cleanupStaleEdges, foldl_removeTransaction_mx]; exact h

theorem crun_mx (cops : List COp) (s : CSys) (h : s.g.maxEdgesPerTx = 0) : (crun cops s).g.maxEdgesPerTx = 0 := by
  induction cops generalizing s with
  | nil => exact h
  | cons op r ih => exact ih _ (cstep_mx s op h)

theorem corun_mx (T mc : Nat) (ops : List CoOp) : (corun ops (Coord.init T mc)).g.maxEdgesPerTx = 0 := by
  obtain ⟨cops, h⟩ := corun_pair ops (Coord.init T mc)
  have : (corun ops (Coord.init T mc)).g = (corun ops (Coord.init T mc)).pair.g := rfl
  rw [this, h]
  exact crun_mx cops _ rfl

end Neumann.Locks
