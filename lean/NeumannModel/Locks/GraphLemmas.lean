import NeumannModel.Locks.Model
/- Helper definitions and lemmas for the wait-for-graph properties (C12): what a cycle is,
   soundness and completeness of the DFS, victim membership. Core Lean only. -/
namespace Neumann.Locks

/-! ### walks and cycles of an adjacency -/

/-- consecutive members are wait-for edges -/
def IsWalk (g : Adj) : List Nat → Prop
  | [] => True
  | [_] => True
  | a :: b :: r => b ∈ neighbors g a ∧ IsWalk g (b :: r)

instance instDecIsWalk (g : Adj) : (c : List Nat) → Decidable (IsWalk g c)
  | [] => isTrue trivial
  | [_] => isTrue trivial
  | a :: b :: r =>
    match instDecIsWalk g (b :: r) with
    | isTrue h => if h2 : b ∈ neighbors g a then isTrue ⟨h2, h⟩ else isFalse (fun x => h2 x.1)
    | isFalse h => isFalse (fun x => h x.2)

/-- `c` is a cycle of `g`: non-empty, consecutive members are edges, last waits for first -/
def IsCycle (g : Adj) (c : List Nat) : Prop :=
  c ≠ [] ∧ IsWalk g c ∧ c.headD 0 ∈ neighbors g (c.getLastD 0)

instance (g : Adj) (c : List Nat) : Decidable (IsCycle g c) := by unfold IsCycle; infer_instance

theorem isWalk_append_edge (g : Adj) (p : List Nat) (a b : Nat)
    (h : IsWalk g (p ++ [a])) (e : b ∈ neighbors g a) : IsWalk g (p ++ [a] ++ [b]) := by
  induction p with
  | nil => exact ⟨e, trivial⟩
  | cons x r ih =>
    cases r with
    | nil =>
      simp only [List.cons_append, List.nil_append, IsWalk] at h ⊢
      exact ⟨h.1, e, trivial⟩
    | cons y r' =>
      simp only [List.cons_append, IsWalk] at h ⊢
      exact ⟨h.1, ih h.2⟩

theorem isWalk_suffix (g : Adj) (pre c : List Nat) (h : IsWalk g (pre ++ c)) : IsWalk g c := by
  induction pre with
  | nil => exact h
  | cons x r ih =>
    apply ih
    cases hr : r ++ c with
    | nil => trivial
    | cons y t =>
      simp only [List.cons_append, hr, IsWalk] at h
      exact h.2

theorem suffixFrom_spec (x : Nat) (p c : List Nat) (h : suffixFrom x p = some c) :
    ∃ pre t, p = pre ++ c ∧ c = x :: t := by
  induction p with
  | nil => simp [suffixFrom] at h
  | cons y ys ih =>
    simp only [suffixFrom] at h
    by_cases e : y = x
    · simp only [e, ↓reduceIte, Option.some.injEq] at h
      exact ⟨[], ys, by simp [← h, e], by simp [← h]⟩
    · simp only [e, ↓reduceIte] at h
      obtain ⟨pre, t, h1, h2⟩ := ih h
      exact ⟨y :: pre, t, by simp [h1], h2⟩

theorem suffixFrom_of_mem (x : Nat) (p : List Nat) (h : x ∈ p) : ∃ c, suffixFrom x p = some c := by
  induction p with
  | nil => simp at h
  | cons y ys ih =>
    simp only [suffixFrom]
    by_cases e : y = x
    · simp [e]
    · simp only [e, ↓reduceIte]
      simp only [List.mem_cons] at h
      rcases h with h | h
      · exact absurd h.symm e
      · exact ih h

theorem getLastD_of_suffix (pre c q : List Nat) (node : Nat) (hne : c ≠ [])
    (h : pre ++ c = q ++ [node]) : c.getLastD 0 = node := by
  obtain ⟨init, z, rfl⟩ : ∃ init z, c = init ++ [z] :=
    ⟨c.dropLast, c.getLast hne, (List.dropLast_concat_getLast hne).symm⟩
  rw [← List.append_assoc] at h
  have := List.append_inj_right' h rfl
  simp only [List.cons.injEq, and_true] at this
  subst this
  simp [List.getLastD_eq_getLast?]

/-! ### structural facts about `dfs` -/

theorem dfsStep_path (recur : Nat → DfsState → DfsState) (hr : ∀ n s, (recur n s).path = s.path)
    (s : DfsState) (nb : Nat) : (dfsStep recur s nb).path = s.path := by
  unfold dfsStep
  split
  · exact hr nb s
  · split
    · split <;> rfl
    · rfl

theorem foldl_dfsStep_path (recur : Nat → DfsState → DfsState) (hr : ∀ n s, (recur n s).path = s.path)
    (nbs : List Nat) (s : DfsState) : (nbs.foldl (fun acc nb => dfsStep recur acc nb) s).path = s.path := by
  induction nbs generalizing s with
  | nil => rfl
  | cons a r ih => simp only [List.foldl_cons, ih, dfsStep_path recur hr]

theorem dfs_path (g : Adj) (fuel node : Nat) (s : DfsState) : (dfs g fuel node s).path = s.path := by
  induction fuel generalizing node s with
  | zero => rfl
  | succ n ih =>
    simp only [dfs, foldl_dfsStep_path (dfs g n) (fun a b => ih a b), List.dropLast_concat]

/-! ### soundness -/

theorem dfs_sound (g : Adj) (fuel node : Nat) (s : DfsState)
    (hw : IsWalk g (s.path ++ [node])) (hc : ∀ c ∈ s.cycles, IsCycle g c) :
    ∀ c ∈ (dfs g fuel node s).cycles, IsCycle g c := by
  induction fuel generalizing node s with
  | zero => exact hc
  | succ n ih =>
    simp only [dfs]
    -- fold invariant: path fixed at `s.path ++ [node]`, reported cycles are cycles
    suffices H : ∀ (nbs : List Nat) (acc : DfsState), (∀ nb ∈ nbs, nb ∈ neighbors g node) →
        acc.path = s.path ++ [node] → (∀ c ∈ acc.cycles, IsCycle g c) →
        ∀ c ∈ (nbs.foldl (fun acc nb => dfsStep (dfs g n) acc nb) acc).cycles, IsCycle g c by
      exact H (neighbors g node) _ (fun _ h => h) rfl hc
    intro nbs
    induction nbs with
    | nil => intro acc _ _ h; exact h
    | cons nb r ihr =>
      intro acc hn hp hcs
      simp only [List.foldl_cons]
      have hnb : nb ∈ neighbors g node := hn nb List.mem_cons_self
      apply ihr _ (fun x hx => hn x (List.mem_cons_of_mem _ hx))
      · rw [dfsStep_path (dfs g n) (fun a b => dfs_path g n a b)]; exact hp
      · unfold dfsStep
        split
        · apply ih
          · rw [hp]; exact isWalk_append_edge g s.path node nb hw hnb
          · exact hcs
        · split
          · split
            · rename_i c hsf
              intro c' hc'
              simp only [List.mem_append, List.mem_singleton] at hc'
              rcases hc' with hc' | hc'
              · exact hcs c' hc'
              · subst hc'
                obtain ⟨pre, t, h1, h2⟩ := suffixFrom_spec nb acc.path c' hsf
                refine ⟨by simp [h2], ?_, ?_⟩
                · apply isWalk_suffix g pre; rw [← h1, hp]; exact hw
                · have hl : c'.getLastD 0 = node :=
                    getLastD_of_suffix pre c' s.path node (by simp [h2]) (by rw [← h1, hp])
                  rw [hl, h2]; exact hnb
            · exact hcs
          · exact hcs

theorem detectLoop_path (g : Adj) (starts : List Nat) (s : DfsState) :
    (detectLoop g starts s).path = s.path := by
  unfold detectLoop
  induction starts generalizing s with
  | nil => rfl
  | cons a r ih =>
    simp only [List.foldl_cons]
    rw [ih]
    split
    · exact dfs_path g _ a s
    · rfl

theorem detectLoop_sound (g : Adj) (starts : List Nat) (s : DfsState)
    (hp : s.path = []) (hc : ∀ c ∈ s.cycles, IsCycle g c) :
    ∀ c ∈ (detectLoop g starts s).cycles, IsCycle g c := by
  induction starts generalizing s with
  | nil => exact hc
  | cons a r ih =>
    unfold detectLoop
    simp only [List.foldl_cons]
    apply ih
    · split
      · rw [dfs_path]; exact hp
      · exact hp
    · split
      · apply dfs_sound
        · rw [hp]; trivial
        · exact hc
      · exact hc

theorem detectCycles_sound (g : Adj) (c : List Nat) (h : c ∈ detectCycles g) : IsCycle g c := by
  unfold detectCycles at h
  exact detectLoop_sound g _ dfsInit rfl (by simp [dfsInit]) c h

/-! ### victim selection -/

theorem foldl_pick_mem (p : Nat → Nat → Bool) (xs : List Nat) (x : Nat) :
    xs.foldl (fun b y => if p y b then y else b) x ∈ x :: xs := by
  induction xs generalizing x with
  | nil => simp
  | cons a r ih =>
    simp only [List.foldl_cons]
    by_cases hp : p a x = true
    · simp only [hp, ↓reduceIte]
      have := ih a
      simp only [List.mem_cons] at this ⊢
      rcases this with h | h
      · exact Or.inr (Or.inl h)
      · exact Or.inr (Or.inr h)
    · simp only [hp, Bool.false_eq_true, ↓reduceIte]
      have := ih x
      simp only [List.mem_cons] at this ⊢
      rcases this with h | h
      · exact Or.inl h
      · exact Or.inr (Or.inr h)

theorem maxByKeyLast_mem (f : Nat → Nat) (c : List Nat) (d : Nat) (h : c ≠ []) :
    (maxByKeyLast f c).getD d ∈ c := by
  cases c with
  | nil => exact absurd rfl h
  | cons x xs =>
    simp only [maxByKeyLast, Option.getD_some]
    have := foldl_pick_mem (fun y b => decide (f y ≥ f b)) xs x
    simpa using this

theorem minByKeyFirst_mem (f : Nat → Nat) (c : List Nat) (d : Nat) (h : c ≠ []) :
    (minByKeyFirst f c).getD d ∈ c := by
  cases c with
  | nil => exact absurd rfl h
  | cons x xs =>
    simp only [minByKeyFirst, Option.getD_some]
    have := foldl_pick_mem (fun y b => decide (f y < f b)) xs x
    simpa using this

theorem selectVictim_mem (p : Policy) (wg : WaitGraph) (lc : Option (Nat → Nat)) (c : List Nat) (h : c ≠ []) :
    selectVictim p wg lc c ∈ c := by
  unfold selectVictim
  match c, h with
  | [x], _ => simp
  | x :: y :: r, _ =>
    simp only
    cases p with
    | youngest => exact maxByKeyLast_mem _ _ _ (by simp)
    | oldest => exact minByKeyFirst_mem _ _ _ (by simp)
    | lowestPriority => exact maxByKeyLast_mem _ _ _ (by simp)
    | mostLocks =>
      cases lc with
      | none => exact maxByKeyLast_mem _ _ _ (by simp)
      | some f => exact maxByKeyLast_mem _ _ _ (by simp)

theorem detect_subset (cfg : DetectorCfg) (wg : WaitGraph) (lc : Option (Nat → Nat)) (g : Adj)
    (c : List Nat) (v : Nat) (h : (c, v) ∈ detect cfg wg lc g) :
    c ∈ detectCycles g ∧ v = selectVictim cfg.policy wg lc c := by
  unfold detect at h
  split at h
  · simp at h
  · have key : ∀ (cs : List (List Nat)) (acc : List (List Nat × Nat) × List Nat × Nat),
        (∀ q ∈ acc.1, q.1 ∈ detectCycles g ∧ q.2 = selectVictim cfg.policy wg lc q.1) →
        (∀ x ∈ cs, x ∈ detectCycles g) →
        ∀ q ∈ (cs.foldl (detectFold cfg wg lc) acc).1,
          q.1 ∈ detectCycles g ∧ q.2 = selectVictim cfg.policy wg lc q.1 := by
      intro cs
      induction cs with
      | nil => intro acc ha _; exact ha
      | cons a r ih =>
        intro acc ha hcs
        simp only [List.foldl_cons]
        apply ih
        · obtain ⟨out, resolved, cascade⟩ := acc
          unfold detectFold
          simp only
          split
          · exact ha
          · intro q hq
            simp only [List.mem_append, List.mem_singleton] at hq
            rcases hq with hq | hq
            · exact ha q hq
            · subst hq; exact ⟨hcs a List.mem_cons_self, rfl⟩
        · intro x hx; exact hcs x (List.mem_cons_of_mem _ hx)
    exact key _ ([], [], 0) (by simp) (fun x hx => (List.mem_filter.mp hx).1) (c, v) h

end Neumann.Locks
