import NeumannModel.Locks.Model
/- Helper definitions and lemmas for the wait-for-graph properties (C12): what a cycle is,
   soundness and completeness of the DFS, victim membership. Core Lean only. -/
namespace Neumann.Locks

/-! ### walks and cycles of an adjacency -/

/-- consecutive members are wait-for edges -/
def IsWalk (g : Adj) : List Nat → Prop
  | [] => True
  | [_] => True
  | a :: b :: r => b ∈ neighbors g a ∧ IsWalk g (b :: r)

instance instDecIsWalk (g : Adj) : (c : List Nat) → Decidable (IsWalk g c)
  | [] => isTrue trivial
  | [_] => isTrue trivial
  | a :: b :: r =>
    match instDecIsWalk g (b :: r) with
    | isTrue h => if h2 : b ∈ neighbors g a then isTrue ⟨h2, h⟩ else isFalse (fun x => h2 x.1)
    | isFalse h => isFalse (fun x => h x.2)

/-- `c` is a cycle of `g`: non-empty, consecutive members are edges, last waits for first -/
def IsCycle (g : Adj) (c : List Nat) : Prop :=
  c ≠ [] ∧ IsWalk g c ∧ c.headD 0 ∈ neighbors g (c.getLastD 0)

instance (g : Adj) (c : List Nat) : Decidable (IsCycle g c) := by unfold IsCycle; infer_instance

theorem isWalk_append_edge (g : Adj) (p : List Nat) (a b : Nat)
    (h : IsWalk g (p ++ [a])) (e : b ∈ neighbors g a) : IsWalk g (p ++ [a] ++ [b]) := by
  induction p with
  | nil => exact ⟨e, trivial⟩
  | cons x r ih =>
    cases r with
    | nil =>
      simp only [List.cons_append, List.nil_append, IsWalk] at h ⊢
      exact ⟨h.1, e, trivial⟩
    | cons y r' =>
      simp only [List.cons_append, IsWalk] at h ⊢
      exact ⟨h.1, ih h.2⟩

theorem isWalk_suffix (g : Adj) (pre c : List Nat) (h : IsWalk g (pre ++ c)) : IsWalk g c := by
  induction pre with
  | nil => exact h
  | cons x r ih =>
    apply ih
    cases hr : r ++ c with
    | nil => trivial
    | cons y t =>
      simp only [List.cons_append, hr, IsWalk] at h
      exact h.2

theorem suffixFrom_spec (x : Nat) (p c : List Nat) (h : suffixFrom x p = some c) :
    ∃ pre t, p = pre ++ c ∧ c = x :: t := by
  induction p with
  | nil => simp [suffixFrom] at h
  | cons y ys ih =>
    simp only [suffixFrom] at h
    by_cases e : y = x
    · simp only [e, ↓reduceIte, Option.some.injEq] at h
      exact ⟨[], ys, by simp [← h, e], by simp [← h]⟩
    · simp only [e, ↓reduceIte] at h
      obtain ⟨pre, t, h1, h2⟩ := ih h
      exact ⟨y :: pre, t, by simp [h1], h2⟩

theorem suffixFrom_of_mem (x : Nat) (p : List Nat) (h : x ∈ p) : ∃ c, suffixFrom x p = some c := by
  induction p with
  | nil => simp at h
  | cons y ys ih =>
    simp only [suffixFrom]
    by_cases e : y = x
    · simp [e]
    · simp only [e, ↓reduceIte]
      simp only [List.mem_cons] at h
      rcases h with h | h
      · exact absurd h.symm e
      · exact ih h

theorem getLastD_of_suffix (pre c q : List Nat) (node : Nat) (hne : c ≠ [])
    (h : pre ++ c = q ++ [node]) : c.getLastD 0 = node := by
  obtain ⟨init, z, rfl⟩ : ∃ init z, c = init ++ [z] :=
    ⟨c.dropLast, c.getLast hne, (List.dropLast_concat_getLast hne).symm⟩
  rw [← List.append_assoc] at h
  have := List.append_inj_right' h rfl
  simp only [List.cons.injEq, and_true] at this
  subst this
  simp [List.getLastD_eq_getLast?]

/-! ### structural facts about `dfs` -/

theorem dfsStep_path (recur : Nat → DfsState → DfsState) (hr : ∀ n s, (recur n s).path = s.path)
    (s : DfsState) (nb : Nat) : (dfsStep recur s nb).path = s.path := by
  unfold dfsStep
  split
  · exact hr nb s
  · split
    · split <;> rfl
    · rfl

theorem foldl_dfsStep_path (recur : Nat → DfsState → DfsState) (hr : ∀ n s, (recur n s).path = s.path)
    (nbs : List Nat) (s : DfsState) : (nbs.foldl (fun acc nb => dfsStep recur acc nb) s).path = s.path := by
  induction nbs generalizing s with
  | nil => rfl
  | cons a r ih => simp only [List.foldl_cons, ih, dfsStep_path recur hr]

theorem dfs_path (g : Adj) (fuel node : Nat) (s : DfsState) : (dfs g fuel node s).path = s.path := by
  induction fuel generalizing node s with
  | zero => rfl
  | succ n ih =>
    simp only [dfs, foldl_dfsStep_path (dfs g n) (fun a b => ih a b), List.dropLast_concat]

/-! ### soundness -/

theorem dfs_sound (g : Adj) (fuel node : Nat) (s : DfsState)
    (hw : IsWalk g (s.path ++ [node])) (hc : ∀ c ∈ s.cycles, IsCycle g c) :
    ∀ c ∈ (dfs g fuel node s).cycles, IsCycle g c := by
  induction fuel generalizing node s with
  | zero => exact hc
  | succ n ih =>
    simp only [dfs]
    -- fold invariant: path fixed at `s.path ++ [node]`, reported cycles are cycles
    suffices H : ∀ (nbs : List Nat) (acc : DfsState), (∀ nb ∈ nbs, nb ∈ neighbors g node) →
        acc.path = s.path ++ [node] → (∀ c ∈ acc.cycles, IsCycle g c) →
        ∀ c ∈ (nbs.foldl (fun acc nb => dfsStep (dfs g n) acc nb) acc).cycles, IsCycle g c by
      exact H (neighbors g node) _ (fun _ h => h) rfl hc
    intro nbs
    induction nbs with
    | nil => intro acc _ _ h; exact h
    | cons nb r ihr =>
      intro acc hn hp hcs
      simp only [List.foldl_cons]
      have hnb : nb ∈ neighbors g node := hn nb List.mem_cons_self
      apply ihr _ (fun x hx => hn x (List.mem_cons_of_mem _ hx))
      · rw [dfsStep_path (dfs g n) (fun a b => dfs_path g n a b)]; exact hp
      · unfold dfsStep
        split
        · apply ih
          · rw [hp]; exact isWalk_append_edge g s.path node nb hw hnb
          · exact hcs
        · split
          · split
            · rename_i c hsf
              intro c' hc'
              simp only [List.mem_append, List.mem_singleton] at hc'
              rcases hc' with hc' | hc'
              · exact hcs c' hc'
              · subst hc'
                obtain ⟨pre, t, h1, h2⟩ := suffixFrom_spec nb acc.path c' hsf
                refine ⟨by simp [h2], ?_, ?_⟩
                · apply isWalk_suffix g pre; rw [← h1, hp]; exact hw
                · have hl : c'.getLastD 0 = node :=
                    getLastD_of_suffix pre c' s.path node (by simp [h2]) (by rw [← h1, hp])
                  rw [hl, h2]; exact hnb
            · exact hcs
          · exact hcs

theorem detectLoop_path (g : Adj) (starts : List Nat) (s : DfsState) :
    (detectLoop g starts s).path = s.path := by
  unfold detectLoop
  induction starts generalizing s with
  | nil => rfl
  | cons a r ih =>
    simp only [List.foldl_cons]
    rw [ih]
    split
    · exact dfs_path g _ a s
    · rfl

theorem detectLoop_sound (g : Adj) (starts : List Nat) (s : DfsState)
    (hp : s.path = []) (hc : ∀ c ∈ s.cycles, IsCycle g c) :
    ∀ c ∈ (detectLoop g starts s).cycles, IsCycle g c := by
  induction starts generalizing s with
  | nil => exact hc
  | cons a r ih =>
    unfold detectLoop
    simp only [List.foldl_cons]
    apply ih
    · split
      · rw [dfs_path]; exact hp
      · exact hp
    · split
      · apply dfs_sound
        · rw [hp]; trivial
        · exact hc
      · exact hc

theorem detectCycles_sound (g : Adj) (c : List Nat) (h : c ∈ detectCycles g) : IsCycle g c := by
  unfold detectCycles at h
  exact detectLoop_sound g _ dfsInit rfl (by simp [dfsInit]) c h

/-! ### victim selection -/

theorem foldl_pick_mem (p : Nat → Nat → Bool) (xs : List Nat) (x : Nat) :
    xs.foldl (fun b y => if p y b then y else b) x ∈ x :: xs := by
  induction xs generalizing x with
  | nil => simp
  | cons a r ih =>
    simp only [List.foldl_cons]
    by_cases hp : p a x = true
    · simp only [hp, ↓reduceIte]
      have := ih a
      simp only [List.mem_cons] at this ⊢
      rcases this with h | h
      · exact Or.inr (Or.inl h)
      · exact Or.inr (Or.inr h)
    · simp only [hp, Bool.false_eq_true, ↓reduceIte]
      have := ih x
      simp only [List.mem_cons] at this ⊢
      rcases this with h | h
      · exact Or.inl h
      · exact Or.inr (Or.inr h)

theorem maxByKeyLast_mem (f : Nat → Nat) (c : List Nat) (d : Nat) (h : c ≠ []) :
    (maxByKeyLast f c).getD d ∈ c := by
  cases c with
  | nil => exact absurd rfl h
  | cons x xs =>
    simp only [maxByKeyLast, Option.getD_some]
    have := foldl_pick_mem (fun y b => decide (f y ≥ f b)) xs x
    simpa using this

theorem minByKeyFirst_mem (f : Nat → Nat) (c : List Nat) (d : Nat) (h : c ≠ []) :
    (minByKeyFirst f c).getD d ∈ c := by
  cases c with
  | nil => exact absurd rfl h
  | cons x xs =>
    simp only [minByKeyFirst, Option.getD_some]
    have := foldl_pick_mem (fun y b => decide (f y < f b)) xs x
    simpa using this

theorem selectVictim_mem (p : Policy) (wg : WaitGraph) (lc : Option (Nat → Nat)) (c : List Nat) (h : c ≠ []) :
    selectVictim p wg lc c ∈ c := by
  unfold selectVictim
  match c, h with
  | [x], _ => simp
  | x :: y :: r, _ =>
    simp only
    cases p with
    | youngest => exact maxByKeyLast_mem _ _ _ (by simp)
    | oldest => exact minByKeyFirst_mem _ _ _ (by simp)
    | lowestPriority => exact maxByKeyLast_mem _ _ _ (by simp)
    | mostLocks =>
      cases lc with
      | none => exact maxByKeyLast_mem _ _ _ (by simp)
      | some f => exact maxByKeyLast_mem _ _ _ (by simp)

theorem detect_subset (cfg : DetectorCfg) (wg : WaitGraph) (lc : Option (Nat → Nat)) (g : Adj)
    (c : List Nat) (v : Nat) (h : (c, v) ∈ detect cfg wg lc g) :
    c ∈ detectCycles g ∧ v = selectVictim cfg.policy wg lc c := by
  unfold detect at h
  split at h
  · simp at h
  · have key : ∀ (cs : List (List Nat)) (acc : List (List Nat × Nat) × List Nat × Nat),
        (∀ q ∈ acc.1, q.1 ∈ detectCycles g ∧ q.2 = selectVictim cfg.policy wg lc q.1) →
        (∀ x ∈ cs, x ∈ detectCycles g) →
        ∀ q ∈ (cs.foldl (detectFold cfg wg lc) acc).1,
          q.1 ∈ detectCycles g ∧ q.2 = selectVictim cfg.policy wg lc q.1 := by
      intro cs
      induction cs with
      | nil => intro acc ha _; exact ha
      | cons a r ih =>
        intro acc ha hcs
        simp only [List.foldl_cons]
        apply ih
        · obtain ⟨out, resolved, cascade⟩ := acc
          unfold detectFold
          simp only
          split
          · exact ha
          · intro q hq
            simp only [List.mem_append, List.mem_singleton] at hq
            rcases hq with hq | hq
            · exact ha q hq
            · subst hq; exact ⟨hcs a List.mem_cons_self, rfl⟩
        · intro x hx; exact hcs x (List.mem_cons_of_mem _ hx)
    exact key _ ([], [], 0) (by simp) (fun x hx => (List.mem_filter.mp hx).1) (c, v) h

end Neumann.Locks

namespace Neumann.Locks

/-! ### completeness of the DFS (classical white/grey/black argument) -/

/-- reachability along wait-for edges (zero or more steps) -/
inductive Reach (g : Adj) : Nat → Nat → Prop
  | refl (u : Nat) : Reach g u u
  | step {u v w : Nat} : v ∈ neighbors g u → Reach g v w → Reach g u w

/-- `u` lies on a cycle: it reaches itself by at least one edge -/
def OnCycle (g : Adj) (u : Nat) : Prop := ∃ w, w ∈ neighbors g u ∧ Reach g w u

/-- the recorded wait-for relation contains a cycle -/
def HasCycle (g : Adj) : Prop := ∃ u, OnCycle g u

theorem Reach.trans {g : Adj} {a b c : Nat} (h1 : Reach g a b) (h2 : Reach g b c) : Reach g a c := by
  induction h1 with
  | refl => exact h2
  | step e _ ih => exact Reach.step e (ih h2)

theorem reach_of_walk (g : Adj) (a : Nat) (r : List Nat) (h : IsWalk g (a :: r)) :
    Reach g a ((a :: r).getLastD 0) := by
  induction r generalizing a with
  | nil => exact Reach.refl a
  | cons b t ih =>
    simp only [IsWalk] at h
    have := ih b h.2
    simp only [List.getLastD_cons] at this ⊢
    exact Reach.step h.1 this

theorem hasCycle_of_isCycle (g : Adj) (c : List Nat) (h : IsCycle g c) : HasCycle g := by
  obtain ⟨hne, hw, he⟩ := h
  cases c with
  | nil => exact absurd rfl hne
  | cons a r =>
    refine ⟨(a :: r).getLastD 0, a, ?_, reach_of_walk g a r hw⟩
    simpa using he

def Black (s : DfsState) (v : Nat) : Prop := v ∈ s.visited ∧ v ∉ s.recStack

structure CInv (g : Adj) (s : DfsState) : Prop where
  c1 : ∀ x ∈ s.recStack, x ∈ s.visited
  c2 : ∀ x ∈ s.recStack, x ∈ s.path
  c3 : ∀ v, Black s v → ∀ w ∈ neighbors g v, Black s w
  c4 : ∀ v, Black s v → ¬ OnCycle g v

theorem reach_black (g : Adj) (s : DfsState) (hc : CInv g s) (a b : Nat) (hb : Black s a) (hr : Reach g a b) :
    Black s b := by
  induction hr with
  | refl => exact hb
  | step e _ ih => exact ih (hc.c3 _ hb _ e)

/-- number of (occurrences of) still unvisited vertices: the recursion-depth budget -/
def unvisited (g : Adj) (s : DfsState) : Nat := ((vertices g).filter (fun v => decide (v ∉ s.visited))).length

theorem filter_length_mono (l : List Nat) (p q : Nat → Bool) (h : ∀ x, p x = true → q x = true) :
    (l.filter p).length ≤ (l.filter q).length := by
  induction l with
  | nil => simp
  | cons a r ih =>
    simp only [List.filter_cons]
    by_cases hp : p a = true
    · simp only [hp, h a hp, ↓reduceIte, List.length_cons]; omega
    · simp only [hp, Bool.false_eq_true, ↓reduceIte]
      by_cases hq : q a = true
      · simp only [hq, ↓reduceIte, List.length_cons]; omega
      · simp only [hq, Bool.false_eq_true, ↓reduceIte]; exact ih

theorem filter_length_lt (l : List Nat) (p q : Nat → Bool) (h : ∀ x, p x = true → q x = true)
    (a : Nat) (ha : a ∈ l) (hq : q a = true) (hp : p a = false) :
    (l.filter p).length < (l.filter q).length := by
  induction l with
  | nil => simp at ha
  | cons b r ih =>
    simp only [List.filter_cons]
    simp only [List.mem_cons] at ha
    by_cases e : a = b
    · subst e
      have := filter_length_mono r p q h
      simp only [hp, hq, Bool.false_eq_true, ↓reduceIte, List.length_cons]; omega
    · have ha' : a ∈ r := by rcases ha with ha | ha; exact absurd ha e; exact ha
      have := ih ha'
      by_cases hpb : p b = true
      · simp only [hpb, h b hpb, ↓reduceIte, List.length_cons]; omega
      · simp only [hpb, Bool.false_eq_true, ↓reduceIte]
        by_cases hqb : q b = true
        · simp only [hqb, ↓reduceIte, List.length_cons]; omega
        · simp only [hqb, Bool.false_eq_true, ↓reduceIte]; exact this

theorem unvisited_mono (g : Adj) (s s' : DfsState) (h : ∀ x ∈ s.visited, x ∈ s'.visited) :
    unvisited g s' ≤ unvisited g s := by
  unfold unvisited
  apply filter_length_mono
  intro x hx
  simp only [decide_eq_true_eq] at hx ⊢
  exact fun hv => hx (h x hv)

theorem unvisited_le (g : Adj) (s : DfsState) : unvisited g s ≤ (vertices g).length := by
  unfold unvisited; exact List.length_filter_le _ _

/-! unconditional structure: rec stack restored, visited grows, cycles only appended -/

theorem dfsStep_recStack (recur : Nat → DfsState → DfsState) (hr : ∀ n s, (recur n s).recStack = s.recStack)
    (s : DfsState) (nb : Nat) : (dfsStep recur s nb).recStack = s.recStack := by
  unfold dfsStep
  split
  · exact hr nb s
  · split
    · split <;> rfl
    · rfl

theorem foldl_dfsStep_recStack (recur : Nat → DfsState → DfsState) (hr : ∀ n s, (recur n s).recStack = s.recStack)
    (nbs : List Nat) (s : DfsState) : (nbs.foldl (fun acc nb => dfsStep recur acc nb) s).recStack = s.recStack := by
  induction nbs generalizing s with
  | nil => rfl
  | cons a r ih => simp only [List.foldl_cons, ih, dfsStep_recStack recur hr]

theorem dfs_recStack (g : Adj) (fuel node : Nat) (s : DfsState) : (dfs g fuel node s).recStack = s.recStack := by
  induction fuel generalizing node s with
  | zero => rfl
  | succ n ih =>
    simp only [dfs, foldl_dfsStep_recStack (dfs g n) (fun a b => ih a b), List.erase_cons_head]

theorem dfsStep_visited (recur : Nat → DfsState → DfsState) (hr : ∀ n s, ∀ x ∈ s.visited, x ∈ (recur n s).visited)
    (s : DfsState) (nb : Nat) : ∀ x ∈ s.visited, x ∈ (dfsStep recur s nb).visited := by
  unfold dfsStep
  split
  · exact hr nb s
  · split
    · split <;> exact fun _ h => h
    · exact fun _ h => h

theorem foldl_dfsStep_visited (recur : Nat → DfsState → DfsState)
    (hr : ∀ n s, ∀ x ∈ s.visited, x ∈ (recur n s).visited) (nbs : List Nat) (s : DfsState) :
    ∀ x ∈ s.visited, x ∈ (nbs.foldl (fun acc nb => dfsStep recur acc nb) s).visited := by
  induction nbs generalizing s with
  | nil => exact fun _ h => h
  | cons a r ih =>
    intro x hx
    simp only [List.foldl_cons]
    exact ih _ x (dfsStep_visited recur hr s a x hx)

theorem dfs_visited (g : Adj) (fuel node : Nat) (s : DfsState) :
    ∀ x ∈ s.visited, x ∈ (dfs g fuel node s).visited := by
  induction fuel generalizing node s with
  | zero => exact fun _ h => h
  | succ n ih =>
    intro x hx
    simp only [dfs]
    exact foldl_dfsStep_visited (dfs g n) (fun a b => ih a b) _ _ x (List.mem_cons_of_mem _ hx)

theorem dfsStep_cycles_nil (recur : Nat → DfsState → DfsState)
    (hr : ∀ n s, (recur n s).cycles = [] → s.cycles = [])
    (s : DfsState) (nb : Nat) (h : (dfsStep recur s nb).cycles = []) : s.cycles = [] := by
  unfold dfsStep at h
  split at h
  · exact hr nb s h
  · split at h
    · split at h
      · simp at h
      · exact h
    · exact h

theorem foldl_dfsStep_cycles_nil (recur : Nat → DfsState → DfsState)
    (hr : ∀ n s, (recur n s).cycles = [] → s.cycles = []) (nbs : List Nat) (s : DfsState)
    (h : (nbs.foldl (fun acc nb => dfsStep recur acc nb) s).cycles = []) : s.cycles = [] := by
  induction nbs generalizing s with
  | nil => exact h
  | cons a r ih =>
    simp only [List.foldl_cons] at h
    exact dfsStep_cycles_nil recur hr s a (ih _ h)

theorem dfs_cycles_nil (g : Adj) (fuel node : Nat) (s : DfsState) (h : (dfs g fuel node s).cycles = []) :
    s.cycles = [] := by
  induction fuel generalizing node s with
  | zero => exact h
  | succ n ih =>
    simp only [dfs] at h
    have := foldl_dfsStep_cycles_nil (dfs g n) (fun a b => ih a b) _ _ h
    exact this

theorem mem_vertices_of_neighbor (g : Adj) (u w : Nat) (h : w ∈ neighbors g u) : w ∈ vertices g ∧ u ∈ g.map (·.1) := by
  unfold neighbors at h
  cases hg : aGet g u with
  | none => simp [hg] at h
  | some vs =>
    simp only [hg, Option.getD_some] at h
    have hm : (u, vs) ∈ g := by
      clear h
      induction g with
      | nil => simp [aGet] at hg
      | cons p r ih =>
        obtain ⟨a, b⟩ := p
        simp only [aGet] at hg
        by_cases e : a = u
        · simp only [e, ↓reduceIte, Option.some.injEq] at hg; subst hg; subst e; simp
        · simp only [e, ↓reduceIte] at hg; exact List.mem_cons_of_mem _ (ih hg)
    refine ⟨?_, List.mem_map.mpr ⟨(u, vs), hm, rfl⟩⟩
    unfold vertices
    exact List.mem_flatMap.mpr ⟨(u, vs), hm, List.mem_cons_of_mem _ h⟩

theorem key_mem_vertices (g : Adj) (u : Nat) (h : u ∈ g.map (·.1)) : u ∈ vertices g := by
  obtain ⟨p, hp, e⟩ := List.mem_map.mp h
  unfold vertices
  exact List.mem_flatMap.mpr ⟨p, hp, by simp [← e]⟩

end Neumann.Locks

namespace Neumann.Locks

theorem dfsStep_unvisited (recur : Nat → DfsState → DfsState) (s : DfsState) (nb : Nat)
    (h : nb ∉ s.visited) : dfsStep recur s nb = recur nb s := by
  unfold dfsStep; simp [h]

theorem dfsStep_back (recur : Nat → DfsState → DfsState) (s : DfsState) (nb : Nat) (c : List Nat)
    (h : nb ∈ s.visited) (h2 : nb ∈ s.recStack) (h3 : suffixFrom nb s.path = some c) :
    dfsStep recur s nb = { s with cycles := s.cycles ++ [c] } := by
  unfold dfsStep; simp [h, h2, h3]

theorem dfsStep_done (recur : Nat → DfsState → DfsState) (s : DfsState) (nb : Nat)
    (h : nb ∈ s.visited) (h2 : nb ∉ s.recStack) : dfsStep recur s nb = s := by
  unfold dfsStep; simp [h, h2]

/-- The DFS from an unvisited vertex, with enough fuel and no cycle reported, blackens the vertex
    and keeps the colour invariant. -/
theorem dfs_complete (g : Adj) (fuel node : Nat) (s : DfsState)
    (hv : node ∈ vertices g) (hn : node ∉ s.visited) (hm : unvisited g s < fuel) (hc : CInv g s)
    (hnil : (dfs g fuel node s).cycles = []) :
    CInv g (dfs g fuel node s) ∧ node ∈ (dfs g fuel node s).visited := by
  induction fuel generalizing node s with
  | zero => omega
  | succ n ih =>
    have key : ∀ (nbs : List Nat) (acc : DfsState),
        (∀ nb ∈ nbs, nb ∈ neighbors g node) →
        acc.recStack = node :: s.recStack → CInv g acc → unvisited g acc < n →
        (nbs.foldl (fun acc nb => dfsStep (dfs g n) acc nb) acc).cycles = [] →
        CInv g (nbs.foldl (fun acc nb => dfsStep (dfs g n) acc nb) acc) ∧
        (∀ x ∈ acc.visited, x ∈ (nbs.foldl (fun acc nb => dfsStep (dfs g n) acc nb) acc).visited) ∧
        (∀ nb ∈ nbs, Black (nbs.foldl (fun acc nb => dfsStep (dfs g n) acc nb) acc) nb) := by
      intro nbs
      induction nbs with
      | nil => intro acc _ _ hci _ _; exact ⟨hci, fun _ h => h, by simp⟩
      | cons nb r ihr =>
        intro acc hnb hrs hci hmu hfin
        simp only [List.foldl_cons] at hfin ⊢
        have hstepnil : (dfsStep (dfs g n) acc nb).cycles = [] :=
          foldl_dfsStep_cycles_nil (dfs g n) (fun a b h => dfs_cycles_nil g n a b h) r _ hfin
        have hnbE : nb ∈ neighbors g node := hnb nb List.mem_cons_self
        have hstep : CInv g (dfsStep (dfs g n) acc nb) ∧
            (∀ x ∈ acc.visited, x ∈ (dfsStep (dfs g n) acc nb).visited) ∧
            Black (dfsStep (dfs g n) acc nb) nb := by
          by_cases hvis : nb ∈ acc.visited
          · by_cases hrs' : nb ∈ acc.recStack
            · obtain ⟨c, hcs⟩ := suffixFrom_of_mem nb acc.path (hci.c2 nb hrs')
              rw [dfsStep_back _ _ _ _ hvis hrs' hcs] at hstepnil
              simp at hstepnil
            · rw [dfsStep_done _ _ _ hvis hrs']; exact ⟨hci, fun _ h => h, hvis, hrs'⟩
          · rw [dfsStep_unvisited _ _ _ hvis] at hstepnil ⊢
            have hnbV := (mem_vertices_of_neighbor g node nb hnbE).1
            obtain ⟨i1, i2⟩ := ih nb acc hnbV hvis hmu hci hstepnil
            refine ⟨i1, dfs_visited g n nb acc, i2, ?_⟩
            rw [dfs_recStack]; intro h; exact hvis (hci.c1 nb h)
        have hrs2 : (dfsStep (dfs g n) acc nb).recStack = node :: s.recStack := by
          rw [dfsStep_recStack (dfs g n) (fun a b => dfs_recStack g n a b)]; exact hrs
        have hmu2 : unvisited g (dfsStep (dfs g n) acc nb) < n :=
          Nat.lt_of_le_of_lt (unvisited_mono g acc _ hstep.2.1) hmu
        obtain ⟨f1, f2, f3⟩ := ihr (dfsStep (dfs g n) acc nb)
          (fun x hx => hnb x (List.mem_cons_of_mem _ hx)) hrs2 hstep.1 hmu2 hfin
        refine ⟨f1, fun x hx => f2 x (hstep.2.1 x hx), ?_⟩
        intro x hx
        simp only [List.mem_cons] at hx
        rcases hx with hx | hx
        · subst hx
          refine ⟨f2 _ hstep.2.2.1, ?_⟩
          rw [foldl_dfsStep_recStack (dfs g n) (fun a b => dfs_recStack g n a b)]
          exact hstep.2.2.2
        · exact f3 x hx
    -- the state after marking `node`
    have hs1 : CInv g { visited := node :: s.visited, recStack := node :: s.recStack,
                        path := s.path ++ [node], cycles := s.cycles } := by
      refine ⟨?_, ?_, ?_, ?_⟩
      · intro x hx
        simp only [List.mem_cons] at hx ⊢
        rcases hx with hx | hx
        · exact Or.inl hx
        · exact Or.inr (hc.c1 x hx)
      · intro x hx
        simp only [List.mem_cons] at hx
        simp only [List.mem_append, List.mem_singleton]
        rcases hx with hx | hx
        · exact Or.inr hx
        · exact Or.inl (hc.c2 x hx)
      · intro v hb w hw
        obtain ⟨b1, b2⟩ := hb
        simp only [List.mem_cons, not_or] at b1 b2
        have hbv : Black s v := ⟨by rcases b1 with b1 | b1; exact absurd b1 b2.1; exact b1, b2.2⟩
        obtain ⟨w1, w2⟩ := hc.c3 v hbv w hw
        refine ⟨List.mem_cons_of_mem _ w1, ?_⟩
        simp only [List.mem_cons, not_or]
        exact ⟨fun e => hn (e ▸ w1), w2⟩
      · intro v hb
        obtain ⟨b1, b2⟩ := hb
        simp only [List.mem_cons, not_or] at b1 b2
        exact hc.c4 v ⟨by rcases b1 with b1 | b1; exact absurd b1 b2.1; exact b1, b2.2⟩
    have hm1 : unvisited g { visited := node :: s.visited, recStack := node :: s.recStack,
                             path := s.path ++ [node], cycles := s.cycles } < n := by
      have : unvisited g { visited := node :: s.visited, recStack := node :: s.recStack,
                           path := s.path ++ [node], cycles := s.cycles } < unvisited g s := by
        unfold unvisited
        apply filter_length_lt _ _ _ _ node hv
        · simpa using hn
        · simp
        · intro x hx
          simp only [List.mem_cons, not_or, decide_eq_true_eq] at hx ⊢
          exact hx.2
      omega
    simp only [dfs] at hnil ⊢
    have hrs2 := foldl_dfsStep_recStack (dfs g n) (fun a b => dfs_recStack g n a b) (neighbors g node)
      { visited := node :: s.visited, recStack := node :: s.recStack, path := s.path ++ [node], cycles := s.cycles }
    have hp2 := foldl_dfsStep_path (dfs g n) (fun a b => dfs_path g n a b) (neighbors g node)
      { visited := node :: s.visited, recStack := node :: s.recStack, path := s.path ++ [node], cycles := s.cycles }
    obtain ⟨k1, k2, k3⟩ := key (neighbors g node) _ (fun _ h => h) rfl hs1 hm1 hnil
    generalize List.foldl (fun acc nb => dfsStep (dfs g n) acc nb)
      { visited := node :: s.visited, recStack := node :: s.recStack, path := s.path ++ [node], cycles := s.cycles }
      (neighbors g node) = s2 at hrs2 hp2 k1 k2 k3 hnil ⊢
    simp only at hrs2 hp2
    have hnode2 : node ∈ s2.visited := k2 node List.mem_cons_self
    refine ⟨⟨?_, ?_, ?_, ?_⟩, hnode2⟩
    · intro x hx
      simp only [hrs2, List.erase_cons_head] at hx
      exact k2 x (List.mem_cons_of_mem _ (hc.c1 x hx))
    · intro x hx
      simp only [hrs2, List.erase_cons_head] at hx
      simp only [hp2, List.dropLast_concat]
      exact hc.c2 x hx
    · intro v hb w hw
      obtain ⟨b1, b2⟩ := hb
      simp only [hrs2, List.erase_cons_head] at b2 ⊢
      simp only at b1
      have hw2 : Black s2 w := by
        by_cases e : v = node
        · subst e; exact k3 w hw
        · exact k1.c3 v ⟨b1, by rw [hrs2]; simp [e, b2]⟩ w hw
      refine ⟨hw2.1, ?_⟩
      have := hw2.2
      rw [hrs2] at this
      simp only [List.mem_cons, not_or] at this
      exact this.2
    · intro v hb
      obtain ⟨b1, b2⟩ := hb
      simp only [hrs2, List.erase_cons_head] at b2
      simp only at b1
      by_cases e : v = node
      · subst e
        rintro ⟨w, hw, hr⟩
        have hbw : Black s2 w := k3 w hw
        have := (reach_black g s2 k1 w v hbw hr).2
        rw [hrs2] at this
        simp at this
      · exact k1.c4 v ⟨b1, by rw [hrs2]; simp [e, b2]⟩

end Neumann.Locks

namespace Neumann.Locks

theorem detectLoop_cons (g : Adj) (a : Nat) (r : List Nat) (s : DfsState) :
    detectLoop g (a :: r) s = detectLoop g r (if a ∉ s.visited then dfs g (dfsFuel g) a s else s) := by
  simp [detectLoop]

theorem detectLoop_cycles_nil (g : Adj) (starts : List Nat) (s : DfsState)
    (h : (detectLoop g starts s).cycles = []) : s.cycles = [] := by
  induction starts generalizing s with
  | nil => exact h
  | cons a r ih =>
    rw [detectLoop_cons] at h
    have := ih _ h
    split at this
    · exact dfs_cycles_nil g _ a s this
    · exact this

theorem detectLoop_complete (g : Adj) (starts : List Nat) (s : DfsState)
    (hs : ∀ x ∈ starts, x ∈ vertices g) (hc : CInv g s) (hr : s.recStack = [])
    (hnil : (detectLoop g starts s).cycles = []) :
    CInv g (detectLoop g starts s) ∧ (detectLoop g starts s).recStack = [] ∧
    (∀ x ∈ s.visited, x ∈ (detectLoop g starts s).visited) ∧
    (∀ x ∈ starts, x ∈ (detectLoop g starts s).visited) := by
  induction starts generalizing s with
  | nil => exact ⟨hc, hr, fun _ h => h, by simp⟩
  | cons a r ih =>
    rw [detectLoop_cons] at hnil ⊢
    have hnil1 := detectLoop_cycles_nil g r _ hnil
    have hstep : CInv g (if a ∉ s.visited then dfs g (dfsFuel g) a s else s) ∧
        (if a ∉ s.visited then dfs g (dfsFuel g) a s else s).recStack = [] ∧
        (∀ x ∈ s.visited, x ∈ (if a ∉ s.visited then dfs g (dfsFuel g) a s else s).visited) ∧
        a ∈ (if a ∉ s.visited then dfs g (dfsFuel g) a s else s).visited := by
      by_cases hv : a ∈ s.visited
      · rw [if_neg (by simpa using hv)]; exact ⟨hc, hr, fun _ h => h, hv⟩
      · rw [if_pos hv] at hnil1 ⊢
        have hm : unvisited g s < dfsFuel g := by
          have := unvisited_le g s; unfold dfsFuel; omega
        obtain ⟨i1, i2⟩ := dfs_complete g (dfsFuel g) a s (hs a List.mem_cons_self) hv hm hc hnil1
        exact ⟨i1, by rw [dfs_recStack]; exact hr, dfs_visited g _ a s, i2⟩
    obtain ⟨f1, f2, f3, f4⟩ := ih _ (fun x hx => hs x (List.mem_cons_of_mem _ hx)) hstep.1 hstep.2.1 hnil
    refine ⟨f1, f2, fun x hx => f3 x (hstep.2.2.1 x hx), ?_⟩
    intro x hx
    simp only [List.mem_cons] at hx
    rcases hx with hx | hx
    · subst hx; exact f3 _ hstep.2.2.2
    · exact f4 x hx

/-- **DFS completeness**: a cyclic wait-for relation always yields at least one reported cycle. -/
theorem detectCycles_complete (g : Adj) (h : HasCycle g) : detectCycles g ≠ [] := by
  intro hnil
  obtain ⟨u, w, hw, hr⟩ := h
  unfold detectCycles at hnil
  have hinit : CInv g dfsInit := by
    refine ⟨by simp [dfsInit], by simp [dfsInit], ?_, ?_⟩ <;> (intro v hb; simp [Black, dfsInit] at hb)
  obtain ⟨f1, f2, _, f4⟩ := detectLoop_complete g (g.map (·.1)) dfsInit
    (fun x hx => key_mem_vertices g x hx) hinit rfl hnil
  have hu := f4 u (mem_vertices_of_neighbor g u w hw).2
  exact f1.c4 u ⟨hu, by rw [f2]; simp⟩ ⟨w, hw, hr⟩

/-- the first cycle that passes the length filter is always reported by `detect` -/
theorem detect_nonempty (cfg : DetectorCfg) (wg : WaitGraph) (lc : Option (Nat → Nat)) (g : Adj)
    (hen : cfg.enabled = true) (c : List Nat) (hc : c ∈ detectCycles g) (hl : c.length ≤ cfg.maxCycleLength) :
    detect cfg wg lc g ≠ [] := by
  unfold detect
  simp only [hen, Bool.not_true, Bool.false_eq_true, ↓reduceIte]
  have hv : c ∈ (detectCycles g).filter (fun c => decide (c.length ≤ cfg.maxCycleLength)) :=
    List.mem_filter.mpr ⟨hc, by simpa using hl⟩
  generalize (detectCycles g).filter (fun c => decide (c.length ≤ cfg.maxCycleLength)) = valid at hv
  cases valid with
  | nil => simp at hv
  | cons a r =>
    simp only [List.foldl_cons]
    have hfirst : (detectFold cfg wg lc ([], [], 0) a).1 ≠ [] := by
      simp [detectFold]
    have mono : ∀ (cs : List (List Nat)) (acc : List (List Nat × Nat) × List Nat × Nat),
        acc.1 ≠ [] → (cs.foldl (detectFold cfg wg lc) acc).1 ≠ [] := by
      intro cs
      induction cs with
      | nil => intro acc h; exact h
      | cons b t ih =>
        intro acc h
        simp only [List.foldl_cons]
        apply ih
        obtain ⟨out, resolved, cascade⟩ := acc
        unfold detectFold
        simp only
        split
        · exact h
        · simp
    exact mono r _ hfirst

end Neumann.Locks
