import NeumannModel.Locks.CoordModel
/- Helper lemmas for the lock-table / wait-for-graph properties (C12). Core Lean only. -/
namespace Neumann.Locks

/-! ### association lists -/

theorem aGet_aRemove {β : Type} (m : List (Nat × β)) (k k' : Nat) :
    aGet (aRemove m k) k' = if k' = k then none else aGet m k' := by
  induction m with
  | nil => simp [aRemove, aGet]
  | cons p r ih =>
    obtain ⟨a, b⟩ := p
    simp only [aRemove, List.filter_cons] at ih ⊢
    by_cases h : a = k
    · subst h
      simp only [bne_self_eq_false, Bool.false_eq_true, ↓reduceIte, ih, aGet]
      by_cases h2 : k' = a
      · simp [h2]
      · have : ¬ a = k' := fun e => h2 e.symm
        simp [h2, this]
    · have hb : (a != k) = true := by simp [h]
      simp only [hb, ↓reduceIte, aGet, ih]
      by_cases h2 : a = k'
      · subst h2; simp [h]
      · simp [h2]

theorem aGet_aInsert {β : Type} (m : List (Nat × β)) (k k' : Nat) (v : β) :
    aGet (aInsert m k v) k' = if k = k' then some v else aGet m k' := by
  simp only [aInsert, aGet, aGet_aRemove]
  by_cases h : k = k'
  · simp [h]
  · have : ¬ k' = k := fun e => h e.symm
    simp [h, this]

theorem aGet_aModify {β : Type} (m : List (Nat × β)) (k k' : Nat) (f : β → β) :
    aGet (aModify m k f) k' = if k' = k then (aGet m k').map f else aGet m k' := by
  induction m with
  | nil => simp [aModify, aGet]
  | cons p r ih =>
    obtain ⟨a, b⟩ := p
    simp only [aModify, List.map_cons] at ih ⊢
    by_cases h : a = k
    · subst h
      simp only [↓reduceIte, aGet, ih]
      by_cases h2 : a = k'
      · subst h2; simp
      · have : ¬ k' = a := fun e => h2 e.symm
        simp [h2, this]
    · simp only [h, ↓reduceIte, aGet, ih]
      by_cases h2 : a = k'
      · subst h2; simp [h]
      · simp [h2]

theorem aGet_some_mem {β : Type} (m : List (Nat × β)) (k : Nat) (v : β) (h : aGet m k = some v) :
    (k, v) ∈ m := by
  induction m with
  | nil => simp [aGet] at h
  | cons p r ih =>
    obtain ⟨a, b⟩ := p
    simp only [aGet] at h
    by_cases h2 : a = k
    · subst h2; simp at h; subst h; simp
    · simp only [h2, ↓reduceIte] at h; exact List.mem_cons_of_mem _ (ih h)

/-- the first entry for a key is what `aGet` sees; with unique keys every entry is seen -/
theorem mem_aGet_of_nodup {β : Type} (m : List (Nat × β)) (k : Nat) (v : β)
    (nd : (m.map (·.1)).Nodup) (h : (k, v) ∈ m) : aGet m k = some v := by
  induction m with
  | nil => simp at h
  | cons p r ih =>
    obtain ⟨a, b⟩ := p
    simp only [List.map_cons, List.nodup_cons] at nd
    simp only [List.mem_cons, Prod.mk.injEq] at h
    rcases h with ⟨h1, h2⟩ | h
    · subst h1; subst h2; simp [aGet]
    · have : a ≠ k := by
        intro e; subst e
        exact nd.1 (List.mem_map.mpr ⟨(a, v), h, rfl⟩)
      simp only [aGet, this, ↓reduceIte]; exact ih nd.2 h

theorem keys_aRemove_nodup {β : Type} (m : List (Nat × β)) (k : Nat)
    (nd : (m.map (·.1)).Nodup) : ((aRemove m k).map (·.1)).Nodup := by
  unfold aRemove
  exact (List.Nodup.sublist (List.Sublist.map _ List.filter_sublist) nd)

theorem not_mem_keys_aRemove {β : Type} (m : List (Nat × β)) (k : Nat) :
    k ∉ (aRemove m k).map (·.1) := by
  unfold aRemove
  intro h
  obtain ⟨p, hp, e⟩ := List.mem_map.mp h
  have := (List.mem_filter.mp hp).2
  simp [e] at this

theorem keys_aInsert_nodup {β : Type} (m : List (Nat × β)) (k : Nat) (v : β)
    (nd : (m.map (·.1)).Nodup) : ((aInsert m k v).map (·.1)).Nodup := by
  unfold aInsert
  simp only [List.map_cons, List.nodup_cons]
  exact ⟨not_mem_keys_aRemove m k, keys_aRemove_nodup m k nd⟩

theorem keys_aModify {β : Type} (m : List (Nat × β)) (k : Nat) (f : β → β) :
    (aModify m k f).map (·.1) = m.map (·.1) := by
  unfold aModify
  rw [List.map_map]
  apply List.map_congr_left
  intro p _
  by_cases h : p.1 = k <;> simp [h]

/-! ### `try_lock` -/

theorem firstConflict_none_iff (locks : List (Nat × KeyLock)) (now tx : Nat) (keys : List Nat) :
    firstConflict locks now tx keys = none ↔
      ∀ k ∈ keys, ∀ l, aGet locks k = some l → l.isExpired now = true ∨ l.tx = tx := by
  induction keys with
  | nil => simp [firstConflict]
  | cons k ks ih =>
    simp only [firstConflict, List.mem_cons, forall_eq_or_imp]
    cases hg : aGet locks k with
    | none => simp [ih]
    | some l =>
      by_cases hc : (!l.isExpired now && l.tx != tx) = true
      · simp only [hc, ↓reduceIte, reduceCtorEq, false_iff]
        intro h
        have := h.1 l rfl
        simp only [Bool.and_eq_true, Bool.not_eq_eq_eq_not, Bool.not_true, bne_iff_ne, ne_eq] at hc
        rcases this with h1 | h1
        · simp [h1] at hc
        · exact hc.2 h1
      · simp only [hc, Bool.false_eq_true, ↓reduceIte, ih]
        simp only [Bool.and_eq_true, Bool.not_eq_eq_eq_not, Bool.not_true, bne_iff_ne, ne_eq, not_and, Decidable.not_not] at hc
        constructor
        · intro h
          refine ⟨?_, h⟩
          intro l' e
          simp at e; subst e
          by_cases he : l.isExpired now = true
          · exact Or.inl he
          · exact Or.inr (hc (by simpa using he))
        · intro h; exact h.2

theorem firstConflict_some (locks : List (Nat × KeyLock)) (now tx : Nat) (keys : List Nat) (c : Nat)
    (h : firstConflict locks now tx keys = some c) :
    ∃ k ∈ keys, ∃ l, aGet locks k = some l ∧ l.isExpired now = false ∧ l.tx ≠ tx ∧ l.tx = c := by
  induction keys with
  | nil => simp [firstConflict] at h
  | cons k ks ih =>
    simp only [firstConflict] at h
    cases hg : aGet locks k with
    | none =>
      simp only [hg] at h
      obtain ⟨k', hk', r⟩ := ih h
      exact ⟨k', List.mem_cons_of_mem _ hk', r⟩
    | some l =>
      simp only [hg] at h
      by_cases hc : (!l.isExpired now && l.tx != tx) = true
      · simp only [hc, ↓reduceIte, Option.some.injEq] at h
        simp only [Bool.and_eq_true, Bool.not_eq_eq_eq_not, Bool.not_true, bne_iff_ne, ne_eq] at hc
        exact ⟨k, List.mem_cons_self, l, hg, hc.1, hc.2, h⟩
      · simp only [hc, Bool.false_eq_true, ↓reduceIte] at h
        obtain ⟨k', hk', r⟩ := ih h
        exact ⟨k', List.mem_cons_of_mem _ hk', r⟩

theorem aGet_foldl_insert {β : Type} (f : Nat → β) (keys : List Nat) (m : List (Nat × β)) (k : Nat) :
    aGet (keys.foldl (fun m k => aInsert m k (f k)) m) k = if k ∈ keys then some (f k) else aGet m k := by
  induction keys generalizing m with
  | nil => simp
  | cons a r ih =>
    simp only [List.foldl_cons, ih, aGet_aInsert, List.mem_cons]
    by_cases h1 : k ∈ r
    · simp [h1]
    · by_cases h2 : a = k
      · subst h2; simp [h1]
      · have : ¬ k = a := fun e => h2 e.symm
        simp [h1, h2, this]

theorem keys_foldl_insert_nodup {β : Type} (f : Nat → β) (keys : List Nat) (m : List (Nat × β))
    (nd : (m.map (·.1)).Nodup) :
    ((keys.foldl (fun m k => aInsert m k (f k)) m).map (·.1)).Nodup := by
  induction keys generalizing m with
  | nil => simpa
  | cons a r ih => exact ih _ (keys_aInsert_nodup m a (f a) nd)

theorem aGet_acquireAll (t : LockTable) (now tx : Nat) (keys : List Nat) (k : Nat) :
    aGet (acquireAll t now tx keys) k = if k ∈ keys then some (newLock t now tx k) else aGet t.locks k :=
  aGet_foldl_insert (newLock t now tx) keys t.locks k

theorem aGet_extendTx (m : List (Nat × List Nat)) (tx : Nat) (keys : List Nat) (tx' : Nat) :
    aGet (extendTx m tx keys) tx' =
      if tx' = tx then some ((aGet m tx).getD [] ++ keys) else aGet m tx' := by
  unfold extendTx
  cases h : aGet m tx with
  | none =>
    simp only [aGet_aInsert, Option.getD_none, List.nil_append]
    by_cases e : tx = tx'
    · simp [e]
    · have : ¬ tx' = tx := fun x => e x.symm
      simp [e, this]
  | some ks =>
    simp only [aGet_aModify, Option.getD_some]
    by_cases e : tx' = tx
    · subst e; simp [h]
    · simp [e]

theorem keys_extendTx_nodup (m : List (Nat × List Nat)) (tx : Nat) (keys : List Nat)
    (nd : (m.map (·.1)).Nodup) : ((extendTx m tx keys).map (·.1)).Nodup := by
  unfold extendTx
  cases aGet m tx with
  | none => exact keys_aInsert_nodup m tx keys nd
  | some _ => rw [keys_aModify]; exact nd

end Neumann.Locks

namespace Neumann.Locks

/-! ### `release` -/

theorem aGet_foldl_releaseKey (tx : Nat) (keys : List Nat) (m : List (Nat × KeyLock)) (k : Nat) :
    aGet (keys.foldl (releaseKey tx) m) k =
      match aGet m k with
      | some l => if l.tx = tx ∧ k ∈ keys then none else some l
      | none => none := by
  induction keys generalizing m with
  | nil => cases h : aGet m k <;> simp [h]
  | cons a r ih =>
    simp only [List.foldl_cons, ih, List.mem_cons]
    unfold releaseKey
    cases ha : aGet m a with
    | none =>
      simp only
      cases hk : aGet m k with
      | none => rfl
      | some l =>
        have : k ≠ a := by intro e; subst e; simp [ha] at hk
        simp [this]
    | some la =>
      simp only
      by_cases hta : la.tx = tx
      · simp only [hta, ↓reduceIte, aGet_aRemove]
        by_cases hka : k = a
        · subst hka; simp [ha, hta]
        · simp only [hka, ↓reduceIte, false_or]
      · simp only [hta, ↓reduceIte]
        cases hk : aGet m k with
        | none => rfl
        | some l =>
          simp only
          by_cases hka : k = a
          · subst hka
            have : l = la := by simpa [hk] using ha
            subst this
            simp [hta]
          · simp [hka]

theorem keys_foldl_releaseKey_nodup (tx : Nat) (keys : List Nat) (m : List (Nat × KeyLock))
    (nd : (m.map (·.1)).Nodup) : ((keys.foldl (releaseKey tx) m).map (·.1)).Nodup := by
  induction keys generalizing m with
  | nil => simpa
  | cons a r ih =>
    apply ih
    unfold releaseKey
    cases aGet m a with
    | none => exact nd
    | some l =>
      simp only
      by_cases h : l.tx = tx
      · simp only [h, ↓reduceIte]; exact keys_aRemove_nodup m a nd
      · simp only [h, ↓reduceIte]; exact nd

/-! ### `dropKey` folds (`release_by_handle`, `cleanup_expired`) -/

theorem dropKey_locks (t : LockTable) (k0 k : Nat) :
    aGet (dropKey t k0).locks k = if k = k0 then none else aGet t.locks k := by
  unfold dropKey
  cases h : aGet t.locks k0 with
  | none =>
    simp only
    by_cases e : k = k0
    · subst e; simp [h]
    · simp [e]
  | some l => simp only [aGet_aRemove]

theorem dropKey_tx (t : LockTable) (k0 tx : Nat) (ks0 : List Nat) (h : aGet t.txLocks tx = some ks0) :
    ∃ ks1, aGet (dropKey t k0).txLocks tx = some ks1 ∧ ∀ k ∈ ks0, k ≠ k0 → k ∈ ks1 := by
  unfold dropKey
  cases aGet t.locks k0 with
  | none => exact ⟨ks0, h, fun k hk _ => hk⟩
  | some l =>
    simp only [aGet_aModify]
    by_cases e : tx = l.tx
    · subst e
      refine ⟨ks0.filter (· != k0), by simp [h], ?_⟩
      intro k hk hne
      simp [List.mem_filter, hk, hne]
    · exact ⟨ks0, by simp [e, h], fun k hk _ => hk⟩

theorem dropKey_fields (t : LockTable) (k0 : Nat) :
    (dropKey t k0).nextHandle = t.nextHandle ∧ (dropKey t k0).defaultTimeout = t.defaultTimeout := by
  unfold dropKey; cases aGet t.locks k0 <;> simp

theorem dropKey_nodup (t : LockTable) (k0 : Nat)
    (nd : (t.locks.map (·.1)).Nodup) (nd2 : (t.txLocks.map (·.1)).Nodup) :
    ((dropKey t k0).locks.map (·.1)).Nodup ∧ ((dropKey t k0).txLocks.map (·.1)).Nodup := by
  unfold dropKey
  cases aGet t.locks k0 with
  | none => exact ⟨nd, nd2⟩
  | some l => exact ⟨keys_aRemove_nodup _ _ nd, by simp only [keys_aModify]; exact nd2⟩

theorem foldl_dropKey_locks (ks : List Nat) (t : LockTable) (k : Nat) :
    aGet (ks.foldl dropKey t).locks k = if k ∈ ks then none else aGet t.locks k := by
  induction ks generalizing t with
  | nil => simp
  | cons a r ih =>
    simp only [List.foldl_cons, ih, dropKey_locks, List.mem_cons]
    by_cases h1 : k ∈ r
    · simp [h1]
    · by_cases h2 : k = a <;> simp [h1, h2]

theorem foldl_dropKey_tx (ks : List Nat) (t : LockTable) (tx : Nat) (ks0 : List Nat)
    (h : aGet t.txLocks tx = some ks0) :
    ∃ ks1, aGet (ks.foldl dropKey t).txLocks tx = some ks1 ∧ ∀ k ∈ ks0, k ∉ ks → k ∈ ks1 := by
  induction ks generalizing t ks0 with
  | nil => exact ⟨ks0, h, fun k hk _ => hk⟩
  | cons a r ih =>
    obtain ⟨ks1, h1, p1⟩ := dropKey_tx t a tx ks0 h
    obtain ⟨ks2, h2, p2⟩ := ih (dropKey t a) ks1 h1
    refine ⟨ks2, h2, ?_⟩
    intro k hk hn
    simp only [List.mem_cons, not_or] at hn
    exact p2 k (p1 k hk hn.1) hn.2

theorem foldl_dropKey_fields (ks : List Nat) (t : LockTable) :
    (ks.foldl dropKey t).nextHandle = t.nextHandle ∧ (ks.foldl dropKey t).defaultTimeout = t.defaultTimeout := by
  induction ks generalizing t with
  | nil => simp
  | cons a r ih =>
    simp only [List.foldl_cons]
    have := dropKey_fields t a
    rw [(ih _).1, (ih _).2]; exact this

theorem foldl_dropKey_nodup (ks : List Nat) (t : LockTable)
    (nd : (t.locks.map (·.1)).Nodup) (nd2 : (t.txLocks.map (·.1)).Nodup) :
    (((ks.foldl dropKey t).locks).map (·.1)).Nodup ∧ (((ks.foldl dropKey t).txLocks).map (·.1)).Nodup := by
  induction ks generalizing t with
  | nil => exact ⟨nd, nd2⟩
  | cons a r ih =>
    have := dropKey_nodup t a nd nd2
    exact ih _ this.1 this.2

theorem mem_keysWithHandle (t : LockTable) (h k : Nat) (nd : (t.locks.map (·.1)).Nodup) :
    k ∈ keysWithHandle t h ↔ ∃ l, aGet t.locks k = some l ∧ l.handle = h := by
  unfold keysWithHandle
  simp only [List.mem_map, List.mem_filter, beq_iff_eq]
  constructor
  · rintro ⟨⟨a, l⟩, ⟨hm, hh⟩, e⟩
    simp only at e hh; subst e
    exact ⟨l, mem_aGet_of_nodup _ _ _ nd hm, hh⟩
  · rintro ⟨l, hg, hh⟩
    exact ⟨(k, l), ⟨aGet_some_mem _ _ _ hg, hh⟩, rfl⟩

theorem mem_expiredKeys (t : LockTable) (now k : Nat) (nd : (t.locks.map (·.1)).Nodup) :
    k ∈ expiredKeys t now ↔ ∃ l, aGet t.locks k = some l ∧ l.isExpired now = true := by
  unfold expiredKeys
  simp only [List.mem_map, List.mem_filter]
  constructor
  · rintro ⟨⟨a, l⟩, ⟨hm, hh⟩, e⟩
    simp only at e hh; subst e
    exact ⟨l, mem_aGet_of_nodup _ _ _ nd hm, hh⟩
  · rintro ⟨l, hg, hh⟩
    exact ⟨(k, l), ⟨aGet_some_mem _ _ _ hg, hh⟩, rfl⟩

end Neumann.Locks

namespace Neumann.Locks

/-! ### `release_orphaned_locks` (the orphan sweep) on the lock table -/

theorem sweepKey_locks (t : LockTable) (kt : Nat × Nat) (k : Nat) :
    aGet (sweepKey t kt).locks k = if k = kt.1 then none else aGet t.locks k := by
  unfold sweepKey
  cases aGet t.txLocks kt.2 <;> simp only [aGet_aRemove]

theorem sweepKey_fields (t : LockTable) (kt : Nat × Nat) :
    (sweepKey t kt).nextHandle = t.nextHandle ∧ (sweepKey t kt).defaultTimeout = t.defaultTimeout := by
  unfold sweepKey; cases aGet t.txLocks kt.2 <;> simp

theorem sweepKey_nodup (t : LockTable) (kt : Nat × Nat)
    (nd : (t.locks.map (·.1)).Nodup) (nd2 : (t.txLocks.map (·.1)).Nodup) :
    ((sweepKey t kt).locks.map (·.1)).Nodup ∧ ((sweepKey t kt).txLocks.map (·.1)).Nodup := by
  unfold sweepKey
  cases aGet t.txLocks kt.2 with
  | none => exact ⟨keys_aRemove_nodup _ _ nd, nd2⟩
  | some ks =>
    refine ⟨keys_aRemove_nodup _ _ nd, ?_⟩
    simp only
    by_cases e : (ks.filter (· != kt.1)).isEmpty
    · simp only [e, ↓reduceIte]; exact keys_aRemove_nodup _ _ nd2
    · simp only [e, Bool.false_eq_true, ↓reduceIte, keys_aModify]; exact nd2

/-- an index entry `k` of `tx` survives one sweep step unless the step removes exactly `(k, tx)` -/
theorem sweepKey_tx (t : LockTable) (kt : Nat × Nat) (tx k : Nat)
    (h : ∃ ks0, aGet t.txLocks tx = some ks0 ∧ k ∈ ks0) (hne : ¬ (k = kt.1 ∧ tx = kt.2)) :
    ∃ ks1, aGet (sweepKey t kt).txLocks tx = some ks1 ∧ k ∈ ks1 := by
  obtain ⟨ks0, h0, hk⟩ := h
  unfold sweepKey
  cases hg : aGet t.txLocks kt.2 with
  | none => exact ⟨ks0, h0, hk⟩
  | some ks =>
    simp only
    by_cases e : tx = kt.2
    · subst e
      rw [h0] at hg; simp only [Option.some.injEq] at hg; subst hg
      have hk1 : k ≠ kt.1 := fun e1 => hne ⟨e1, rfl⟩
      have hmem : k ∈ ks0.filter (· != kt.1) := by
        simp [List.mem_filter, hk, hk1]
      have hne2 : (ks0.filter (· != kt.1)).isEmpty = false := by
        cases hf : ks0.filter (· != kt.1) with
        | nil => rw [hf] at hmem; simp at hmem
        | cons a r => rfl
      simp only [hne2, Bool.false_eq_true, ↓reduceIte, aGet_aModify, h0, Option.map_some]
      exact ⟨_, rfl, hmem⟩
    · by_cases e2 : (ks.filter (· != kt.1)).isEmpty
      · simp only [e2, ↓reduceIte, aGet_aRemove, e]; exact ⟨ks0, h0, hk⟩
      · simp only [e2, Bool.false_eq_true, ↓reduceIte, aGet_aModify, e]; exact ⟨ks0, h0, hk⟩

theorem foldl_sweepKey_locks (oks : List (Nat × Nat)) (t : LockTable) (k : Nat) :
    aGet (oks.foldl sweepKey t).locks k = if k ∈ oks.map (·.1) then none else aGet t.locks k := by
  induction oks generalizing t with
  | nil => simp
  | cons a r ih =>
    simp only [List.foldl_cons, ih, sweepKey_locks, List.map_cons, List.mem_cons]
    by_cases h1 : k ∈ r.map (·.1)
    · simp [h1]
    · by_cases h2 : k = a.1 <;> simp [h1, h2]

theorem foldl_sweepKey_fields (oks : List (Nat × Nat)) (t : LockTable) :
    (oks.foldl sweepKey t).nextHandle = t.nextHandle ∧ (oks.foldl sweepKey t).defaultTimeout = t.defaultTimeout := by
  induction oks generalizing t with
  | nil => simp
  | cons a r ih =>
    simp only [List.foldl_cons]
    have := sweepKey_fields t a
    rw [(ih _).1, (ih _).2]; exact this

theorem foldl_sweepKey_nodup (oks : List (Nat × Nat)) (t : LockTable)
    (nd : (t.locks.map (·.1)).Nodup) (nd2 : (t.txLocks.map (·.1)).Nodup) :
    ((oks.foldl sweepKey t).locks.map (·.1)).Nodup ∧ ((oks.foldl sweepKey t).txLocks.map (·.1)).Nodup := by
  induction oks generalizing t with
  | nil => exact ⟨nd, nd2⟩
  | cons a r ih =>
    have := sweepKey_nodup t a nd nd2
    exact ih _ this.1 this.2

theorem foldl_sweepKey_tx (oks : List (Nat × Nat)) (t : LockTable) (tx k : Nat)
    (h : ∃ ks0, aGet t.txLocks tx = some ks0 ∧ k ∈ ks0) (hn : (k, tx) ∉ oks) :
    ∃ ks1, aGet (oks.foldl sweepKey t).txLocks tx = some ks1 ∧ k ∈ ks1 := by
  induction oks generalizing t with
  | nil => exact h
  | cons a r ih =>
    simp only [List.mem_cons, not_or] at hn
    simp only [List.foldl_cons]
    apply ih _ _ hn.2
    apply sweepKey_tx t a tx k h
    rintro ⟨e1, e2⟩
    exact hn.1 (by cases a; simp_all)

theorem mem_orphanKeys (t : LockTable) (active : List Nat) (ps k tx : Nat) (nd : (t.locks.map (·.1)).Nodup) :
    (k, tx) ∈ orphanKeys t active ps ↔
      ∃ l, aGet t.locks k = some l ∧ l.tx = tx ∧ tx ∉ active ∧ l.acquiredAt < ps := by
  unfold orphanKeys
  simp only [List.mem_map, List.mem_filter, Bool.and_eq_true, Bool.not_eq_eq_eq_not, Bool.not_true,
    List.contains_eq_mem, decide_eq_false_iff_not, decide_eq_true_eq, Prod.mk.injEq]
  constructor
  · rintro ⟨⟨a, l⟩, ⟨hm, h1, h2⟩, e1, e2⟩
    simp only at e1 e2 h1 h2; subst e1; subst e2
    exact ⟨l, mem_aGet_of_nodup _ _ _ nd hm, rfl, h1, h2⟩
  · rintro ⟨l, hg, e, h1, h2⟩
    subst e
    exact ⟨(k, l), ⟨aGet_some_mem _ _ _ hg, h1, h2⟩, rfl, rfl⟩

theorem mem_orphanKeys_fst (t : LockTable) (active : List Nat) (ps k : Nat) (nd : (t.locks.map (·.1)).Nodup) :
    k ∈ (orphanKeys t active ps).map (·.1) ↔
      ∃ l, aGet t.locks k = some l ∧ l.tx ∉ active ∧ l.acquiredAt < ps := by
  constructor
  · intro h
    obtain ⟨⟨k', tx⟩, hm, e⟩ := List.mem_map.mp h
    simp only at e; subst e
    obtain ⟨l, h1, h2, h3, h4⟩ := (mem_orphanKeys t active ps k' tx nd).mp hm
    exact ⟨l, h1, h2 ▸ h3, h4⟩
  · rintro ⟨l, h1, h2, h3⟩
    exact List.mem_map.mpr ⟨(k, l.tx), (mem_orphanKeys t active ps k l.tx nd).mpr ⟨l, h1, rfl, h2, h3⟩, rfl⟩

end Neumann.Locks

namespace Neumann.Locks

/-! ### operation sequences, ghost grants, the inductive invariant -/

/-- ghost record: transaction `tx` was granted `key` at time `at_` with timeout `to` and has not
    released it since (transaction-level view; see `step`) -/
structure Grant where
  key : Nat
  tx : Nat
  at_ : Nat
  to : Nat
deriving DecidableEq, Repr

def Grant.expired (g : Grant) (now : Nat) : Bool := decide (now - g.at_ > g.to)

inductive Op
  | tryLock (tx : Nat) (keys : List Nat)
  | release (tx : Nat)
  | releaseByHandle (h : Nat)
  | cleanupExpired
  | advance (d : Nat)
  | serializeRestore
  /-- `release_orphaned_locks(partition_start)` with `active` = the pending transaction ids -/
  | sweep (active : List Nat) (partitionStart : Nat)
deriving Repr

structure Sys where
  t : LockTable
  now : Nat
  ghost : List Grant
deriving Repr

/-- a grant survives `release_by_handle h` unless the lock currently recorded for its key belongs
    to its transaction and carries handle `h` -/
def ghostRelH (t : LockTable) (h : Nat) (g : Grant) : Bool :=
  match aGet t.locks g.key with
  | some l => !(l.handle == h && l.tx == g.tx)
  | none => true

/-- a grant survives the orphan sweep unless the lock currently recorded for its key belongs to its
    transaction and is swept (owner not active, acquired before the partition start) -/
def ghostSweep (t : LockTable) (active : List Nat) (ps : Nat) (g : Grant) : Bool :=
  match aGet t.locks g.key with
  | some l => !(l.tx == g.tx && !(active.contains l.tx) && decide (l.acquiredAt < ps))
  | none => true

def step (s : Sys) : Op → Sys
  | .tryLock tx keys =>
    match tryLock s.t s.now tx keys with
    | (t', .ok _) =>
      { t := t', now := s.now
        ghost := s.ghost ++ keys.map (fun k => ⟨k, tx, s.now, s.t.defaultTimeout⟩) }
    | (t', .error _) => { s with t := t' }
  | .release tx => { s with t := release s.t tx, ghost := s.ghost.filter (fun g => g.tx != tx) }
  | .releaseByHandle h =>
    { s with t := releaseByHandle s.t h, ghost := s.ghost.filter (ghostRelH s.t h) }
  | .cleanupExpired => { s with t := (cleanupExpired s.t s.now).1 }
  | .advance d => { s with now := s.now + d }
  | .serializeRestore => { s with t := restore (serialize s.t) s.t.nextHandle }
  | .sweep active ps =>
    { s with t := (orphanKeys s.t active ps).foldl sweepKey s.t
             ghost := s.ghost.filter (ghostSweep s.t active ps) }

def run (ops : List Op) (s : Sys) : Sys := ops.foldl step s

def Sys.init (timeout : Nat) : Sys := { t := LockTable.empty timeout, now := 0, ghost := [] }

structure Inv (s : Sys) : Prop where
  nd : (s.t.locks.map (·.1)).Nodup
  nd2 : (s.t.txLocks.map (·.1)).Nodup
  lk : ∀ k l, aGet s.t.locks k = some l →
        l.key = k ∧ l.handle < s.t.nextHandle ∧ l.timeout = s.t.defaultTimeout ∧ l.acquiredAt ≤ s.now ∧
        ∃ ks, aGet s.t.txLocks l.tx = some ks ∧ k ∈ ks
  gh : ∀ g ∈ s.ghost, g.at_ ≤ s.now ∧ g.to = s.t.defaultTimeout ∧
        (g.at_ + g.to < s.now ∨
          ∃ l, aGet s.t.locks g.key = some l ∧ l.tx = g.tx ∧ g.at_ + g.to ≤ l.acquiredAt + l.timeout)

theorem isExpired_iff (l : KeyLock) (now : Nat) :
    l.isExpired now = true ↔ l.acquiredAt + l.timeout < now := by
  simp only [KeyLock.isExpired, decide_eq_true_eq]; omega

theorem inv_init (timeout : Nat) : Inv (Sys.init timeout) := by
  refine ⟨by simp [Sys.init, LockTable.empty], by simp [Sys.init, LockTable.empty], ?_, ?_⟩
  · intro k l h; simp [Sys.init, LockTable.empty, aGet] at h
  · intro g h; simp [Sys.init] at h

theorem inv_tryLock (s : Sys) (tx : Nat) (keys : List Nat) (hi : Inv s) : Inv (step s (.tryLock tx keys)) := by
  simp only [step, tryLock]
  cases hc : firstConflict s.t.locks s.now tx keys with
  | some c => exact hi
  | none =>
    simp only
    have hfree := (firstConflict_none_iff _ _ _ _).mp hc
    refine ⟨keys_foldl_insert_nodup _ _ _ hi.nd, keys_extendTx_nodup _ _ _ hi.nd2, ?_, ?_⟩
    · intro k l h
      simp only [aGet_acquireAll] at h
      by_cases hk : k ∈ keys
      · simp only [hk, ↓reduceIte, Option.some.injEq] at h
        subst h
        refine ⟨rfl, by simp [newLock], rfl, Nat.le_refl _, ?_⟩
        simp only [newLock, aGet_extendTx, ↓reduceIte]
        exact ⟨_, rfl, by simp [hk]⟩
      · simp only [hk, ↓reduceIte] at h
        obtain ⟨h1, h2, h3, h4, ks, h5, h6⟩ := hi.lk k l h
        refine ⟨h1, by simp only; omega, h3, h4, ?_⟩
        simp only [aGet_extendTx]
        by_cases e : l.tx = tx
        · subst e; simp only [↓reduceIte, h5, Option.getD_some]
          exact ⟨_, rfl, by simp [h6]⟩
        · simp only [e, ↓reduceIte]; exact ⟨ks, h5, h6⟩
    · intro g hg
      simp only [List.mem_append, List.mem_map] at hg
      rcases hg with hg | ⟨k, hk, rfl⟩
      · obtain ⟨g1, g2, g3⟩ := hi.gh g hg
        refine ⟨g1, g2, ?_⟩
        rcases g3 with g3 | ⟨l, l1, l2, l3⟩
        · exact Or.inl g3
        · by_cases hk : g.key ∈ keys
          · rcases hfree g.key hk l l1 with he | he
            · left; have := (isExpired_iff l s.now).mp he; dsimp only; omega
            · right
              refine ⟨newLock s.t s.now tx g.key, by simp [aGet_acquireAll, hk], by simp [newLock, ← l2, he], ?_⟩
              simp only [newLock]; omega
          · right; exact ⟨l, by simp [aGet_acquireAll, hk, l1], l2, l3⟩
      · refine ⟨Nat.le_refl _, rfl, Or.inr ⟨newLock s.t s.now tx k, by simp [aGet_acquireAll, hk], rfl, ?_⟩⟩
        simp [newLock]

theorem inv_release (s : Sys) (tx : Nat) (hi : Inv s) : Inv (step s (.release tx)) := by
  simp only [step, release]
  cases hk : aGet s.t.txLocks tx with
  | none =>
    simp only
    refine ⟨hi.nd, hi.nd2, hi.lk, ?_⟩
    intro g hg
    exact hi.gh g (List.mem_filter.mp hg).1
  | some keys =>
    simp only
    refine ⟨keys_foldl_releaseKey_nodup _ _ _ hi.nd, keys_aRemove_nodup _ _ hi.nd2, ?_, ?_⟩
    · intro k l h
      rw [aGet_foldl_releaseKey] at h
      cases ho : aGet s.t.locks k with
      | none => simp [ho] at h
      | some l0 =>
        simp only [ho] at h
        by_cases hc : l0.tx = tx ∧ k ∈ keys
        · simp [hc] at h
        · simp only [hc, ↓reduceIte, Option.some.injEq] at h
          subst h
          obtain ⟨h1, h2, h3, h4, ks, h5, h6⟩ := hi.lk k l0 ho
          refine ⟨h1, h2, h3, h4, ks, ?_, h6⟩
          rw [aGet_aRemove]
          have : l0.tx ≠ tx := by
            intro e; subst e
            rw [hk] at h5; simp at h5; subst h5
            exact hc ⟨rfl, h6⟩
          simp [this, h5]
    · intro g hg
      obtain ⟨hg1, hg2⟩ := List.mem_filter.mp hg
      simp only [bne_iff_ne, ne_eq] at hg2
      obtain ⟨g1, g2, g3⟩ := hi.gh g hg1
      refine ⟨g1, g2, ?_⟩
      rcases g3 with g3 | ⟨l, l1, l2, l3⟩
      · exact Or.inl g3
      · right
        refine ⟨l, ?_, l2, l3⟩
        rw [aGet_foldl_releaseKey, l1]
        have : ¬ (l.tx = tx ∧ g.key ∈ keys) := fun h => hg2 (l2 ▸ h.1)
        simp [this]

theorem inv_dropKeys (s : Sys) (ks : List Nat) (ghost' : List Grant) (hi : Inv s)
    (hsub : ∀ g ∈ ghost', g ∈ s.ghost)
    (hkeep : ∀ g ∈ ghost', g.key ∈ ks → ∀ l, aGet s.t.locks g.key = some l → l.tx = g.tx →
              g.at_ + g.to ≤ l.acquiredAt + l.timeout → g.at_ + g.to < s.now) :
    Inv { s with t := ks.foldl dropKey s.t, ghost := ghost' } := by
  have hf := foldl_dropKey_fields ks s.t
  have hn := foldl_dropKey_nodup ks s.t hi.nd hi.nd2
  refine ⟨hn.1, hn.2, ?_, ?_⟩
  · intro k l h
    simp only [foldl_dropKey_locks] at h
    by_cases hk : k ∈ ks
    · simp [hk] at h
    · simp only [hk, ↓reduceIte] at h
      obtain ⟨h1, h2, h3, h4, ks0, h5, h6⟩ := hi.lk k l h
      obtain ⟨ks1, h7, h8⟩ := foldl_dropKey_tx ks s.t l.tx ks0 h5
      exact ⟨h1, by simp only [hf.1]; exact h2, by simp only [hf.2]; exact h3, h4, ks1, h7, h8 k h6 hk⟩
  · intro g hg
    obtain ⟨g1, g2, g3⟩ := hi.gh g (hsub g hg)
    refine ⟨g1, by simp only [hf.2]; exact g2, ?_⟩
    rcases g3 with g3 | ⟨l, l1, l2, l3⟩
    · exact Or.inl g3
    · by_cases hk : g.key ∈ ks
      · exact Or.inl (hkeep g hg hk l l1 l2 l3)
      · right; exact ⟨l, by simp [foldl_dropKey_locks, hk, l1], l2, l3⟩

theorem inv_releaseByHandle (s : Sys) (h : Nat) (hi : Inv s) : Inv (step s (.releaseByHandle h)) := by
  simp only [step, releaseByHandle]
  apply inv_dropKeys s _ _ hi
  · intro g hg; exact (List.mem_filter.mp hg).1
  · intro g hg hk l l1 l2 _
    have hkeep := (List.mem_filter.mp hg).2
    obtain ⟨l', l1', lh⟩ := (mem_keysWithHandle s.t h g.key hi.nd).mp hk
    rw [l1] at l1'; simp at l1'; subst l1'
    simp [ghostRelH, l1, lh, l2] at hkeep

theorem inv_cleanupExpired (s : Sys) (hi : Inv s) : Inv (step s .cleanupExpired) := by
  simp only [step, cleanupExpired]
  apply inv_dropKeys s _ _ hi
  · intro g hg; exact hg
  · intro g _ hk l l1 _ l3
    obtain ⟨l', l1', lh⟩ := (mem_expiredKeys s.t s.now g.key hi.nd).mp hk
    rw [l1] at l1'; simp at l1'; subst l1'
    have := (isExpired_iff l s.now).mp lh
    omega

theorem inv_sweep (s : Sys) (active : List Nat) (ps : Nat) (hi : Inv s) : Inv (step s (.sweep active ps)) := by
  simp only [step]
  have hf := foldl_sweepKey_fields (orphanKeys s.t active ps) s.t
  have hn := foldl_sweepKey_nodup (orphanKeys s.t active ps) s.t hi.nd hi.nd2
  refine ⟨hn.1, hn.2, ?_, ?_⟩
  · intro k l h
    simp only [foldl_sweepKey_locks] at h
    by_cases hk : k ∈ (orphanKeys s.t active ps).map (·.1)
    · simp [hk] at h
    · simp only [hk, ↓reduceIte] at h
      obtain ⟨h1, h2, h3, h4, ks0, h5, h6⟩ := hi.lk k l h
      have hno : (k, l.tx) ∉ orphanKeys s.t active ps :=
        fun hm => hk (List.mem_map.mpr ⟨(k, l.tx), hm, rfl⟩)
      obtain ⟨ks1, h7, h8⟩ := foldl_sweepKey_tx _ s.t l.tx k ⟨ks0, h5, h6⟩ hno
      exact ⟨h1, by simp only [hf.1]; exact h2, by simp only [hf.2]; exact h3, h4, ks1, h7, h8⟩
  · intro g hg
    obtain ⟨hg1, hg2⟩ := List.mem_filter.mp hg
    obtain ⟨g1, g2, g3⟩ := hi.gh g hg1
    refine ⟨g1, by simp only [hf.2]; exact g2, ?_⟩
    rcases g3 with g3 | ⟨l, l1, l2, l3⟩
    · exact Or.inl g3
    · right
      refine ⟨l, ?_, l2, l3⟩
      rw [foldl_sweepKey_locks]
      have : g.key ∉ (orphanKeys s.t active ps).map (·.1) := by
        intro hm
        obtain ⟨l', e1, e2, e3⟩ := (mem_orphanKeys_fst s.t active ps g.key hi.nd).mp hm
        rw [l1] at e1; simp only [Option.some.injEq] at e1; subst e1
        simp [ghostSweep, l1, l2, e3] at hg2
        exact e2 (l2 ▸ hg2)
      simp [this, l1]

theorem inv_advance (s : Sys) (d : Nat) (hi : Inv s) : Inv (step s (.advance d)) := by
  simp only [step]
  refine ⟨hi.nd, hi.nd2, ?_, ?_⟩
  · intro k l h
    obtain ⟨h1, h2, h3, h4, r⟩ := hi.lk k l h
    exact ⟨h1, h2, h3, by simp only; omega, r⟩
  · intro g hg
    obtain ⟨g1, g2, g3⟩ := hi.gh g hg
    refine ⟨by simp only; omega, g2, ?_⟩
    rcases g3 with g3 | g3
    · left; simp only; omega
    · exact Or.inr g3

theorem restore_serialize (t : LockTable) : restore (serialize t) t.nextHandle = t := by
  cases t; rfl

theorem inv_step (s : Sys) (op : Op) (hi : Inv s) : Inv (step s op) := by
  cases op with
  | tryLock tx keys => exact inv_tryLock s tx keys hi
  | release tx => exact inv_release s tx hi
  | releaseByHandle h => exact inv_releaseByHandle s h hi
  | cleanupExpired => exact inv_cleanupExpired s hi
  | advance d => exact inv_advance s d hi
  | serializeRestore => simp only [step, restore_serialize]; exact hi
  | sweep active ps => exact inv_sweep s active ps hi

theorem inv_run (ops : List Op) (s : Sys) (hi : Inv s) : Inv (run ops s) := by
  induction ops generalizing s with
  | nil => exact hi
  | cons op r ih => exact ih _ (inv_step s op hi)

end Neumann.Locks

namespace Neumann.Locks

/-! ### wait-for graph bookkeeping -/

theorem eraseFromEach_none (m : List (Nat × List Nat)) (xs : List Nat) (tx k : Nat)
    (h : aGet m k = none) : aGet (eraseFromEach m xs tx) k = none := by
  unfold eraseFromEach
  induction xs generalizing m with
  | nil => exact h
  | cons a r ih =>
    simp only [List.foldl_cons]
    apply ih
    rw [aGet_aModify]
    by_cases e : k = a <;> simp [e, h]
    · subst e; simp [h]

/-- `remove_transaction` always removes the transaction as a *waiter* (its out-edges, wait-start
    and priority); whether it disappears as a *holder* depends on the reverse index -/
theorem removeTransaction_waiter_gone (g : WaitGraph) (tx : Nat) :
    aGet (removeTransaction g tx).edges tx = none ∧ aGet (removeTransaction g tx).waitStarted tx = none ∧
    aGet (removeTransaction g tx).priorities tx = none := by
  unfold removeTransaction
  refine ⟨?_, by simp [aGet_aRemove], by simp [aGet_aRemove]⟩
  simp only
  split
  · exact eraseFromEach_none _ _ _ _ (by simp [aGet_aRemove])
  · simp [aGet_aRemove]

end Neumann.Locks
