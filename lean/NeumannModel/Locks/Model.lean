/-
  C12 — model of `tensor_chain::distributed_tx::LockManager` and
  `tensor_chain::deadlock::{WaitForGraph, dfs_detect, DeadlockDetector}`.

  Import-free, total, computable.  The Rust code is mirrored branch by branch:
  * `HashMap<K,V>` is an association list (`aGet/aInsert/aRemove/aModify`); iteration order of the
    real hash maps is *not* part of the model state — where the code's result depends on it
    (`detect_cycles`, `blocking_tx_id`) the order is an explicit input.
  * keys are `Nat` (the harness maps key strings to dense ids), tx ids and handles are `Nat`.
  * wall-clock reads (`now_epoch_millis()`) are the explicit argument `now`.
  * the process-global `LOCK_COUNTER` is the field `nextHandle`.
-/
namespace Neumann.Locks

/-! ### association lists standing in for `HashMap` -/

def aGet {β : Type} : List (Nat × β) → Nat → Option β
  | [], _ => none
  | (k', v) :: r, k => if k' = k then some v else aGet r k

def aRemove {β : Type} (m : List (Nat × β)) (k : Nat) : List (Nat × β) :=
  m.filter (fun p => p.1 != k)

/-- `HashMap::insert`: replaces the previous value of the key -/
def aInsert {β : Type} (m : List (Nat × β)) (k : Nat) (v : β) : List (Nat × β) :=
  (k, v) :: aRemove m k

/-- `if let Some(x) = map.get_mut(&k) { *x = f(*x) }` -/
def aModify {β : Type} (m : List (Nat × β)) (k : Nat) (f : β → β) : List (Nat × β) :=
  m.map (fun p => if p.1 = k then (p.1, f p.2) else p)

/-! ### lock table -/

structure KeyLock where
  key : Nat
  tx : Nat
  handle : Nat
  acquiredAt : Nat
  timeout : Nat
deriving DecidableEq, Repr

/-- `now_epoch_millis().saturating_sub(self.acquired_at_ms) > self.timeout_ms` (Nat `-` saturates) -/
def KeyLock.isExpired (l : KeyLock) (now : Nat) : Bool := decide (now - l.acquiredAt > l.timeout)

structure LockTable where
  /-- `locks: HashMap<String, KeyLock>` -/
  locks : List (Nat × KeyLock)
  /-- `tx_locks: HashMap<u64, Vec<String>>` -/
  txLocks : List (Nat × List Nat)
  defaultTimeout : Nat
  /-- the global `LOCK_COUNTER` -/
  nextHandle : Nat
deriving Repr

def LockTable.empty (timeout : Nat) : LockTable :=
  { locks := [], txLocks := [], defaultTimeout := timeout, nextHandle := 0 }

/-- first loop of `try_lock`: the first key (in argument order) held by an unexpired lock of
    another transaction yields that holder -/
def firstConflict (locks : List (Nat × KeyLock)) (now tx : Nat) : List Nat → Option Nat
  | [] => none
  | k :: ks =>
    match aGet locks k with
    | some l => if !l.isExpired now && l.tx != tx then some l.tx else firstConflict locks now tx ks
    | none => firstConflict locks now tx ks

def newLock (t : LockTable) (now tx k : Nat) : KeyLock :=
  { key := k, tx := tx, handle := t.nextHandle, acquiredAt := now, timeout := t.defaultTimeout }

/-- second loop of `try_lock` -/
def acquireAll (t : LockTable) (now tx : Nat) (keys : List Nat) : List (Nat × KeyLock) :=
  keys.foldl (fun m k => aInsert m k (newLock t now tx k)) t.locks

/-- `tx_locks.entry(tx_id).or_default().extend(keys)` -/
def extendTx (m : List (Nat × List Nat)) (tx : Nat) (keys : List Nat) : List (Nat × List Nat) :=
  match aGet m tx with
  | some _ => aModify m tx (· ++ keys)
  | none => aInsert m tx keys

/-- `LockManager::try_lock`: check all, then acquire all. `Except.error c` = `Err(c)`. -/
def tryLock (t : LockTable) (now tx : Nat) (keys : List Nat) : LockTable × Except Nat Nat :=
  match firstConflict t.locks now tx keys with
  | some c => (t, .error c)
  | none =>
    ({ locks := acquireAll t now tx keys
       txLocks := extendTx t.txLocks tx keys
       defaultTimeout := t.defaultTimeout
       nextHandle := t.nextHandle + 1 }, .ok t.nextHandle)

/-- one iteration of the loop of `release` -/
def releaseKey (tx : Nat) (m : List (Nat × KeyLock)) (k : Nat) : List (Nat × KeyLock) :=
  match aGet m k with
  | some l => if l.tx = tx then aRemove m k else m
  | none => m

/-- `LockManager::release(tx_id)` -/
def release (t : LockTable) (tx : Nat) : LockTable :=
  match aGet t.txLocks tx with
  | none => t
  | some keys =>
    { t with locks := keys.foldl (releaseKey tx) t.locks, txLocks := aRemove t.txLocks tx }

/-- body of the removal loops of `release_by_handle` / `cleanup_expired`:
    remove the lock of `k`, retain the other keys of its transaction -/
def dropKey (t : LockTable) (k : Nat) : LockTable :=
  match aGet t.locks k with
  | some l =>
    { t with locks := aRemove t.locks k
             txLocks := aModify t.txLocks l.tx (fun ks => ks.filter (· != k)) }
  | none => t

def keysWithHandle (t : LockTable) (h : Nat) : List Nat :=
  (t.locks.filter (fun p => p.2.handle == h)).map (·.1)

/-- `LockManager::release_by_handle` -/
def releaseByHandle (t : LockTable) (h : Nat) : LockTable :=
  (keysWithHandle t h).foldl dropKey t

def expiredKeys (t : LockTable) (now : Nat) : List Nat :=
  (t.locks.filter (fun p => p.2.isExpired now)).map (·.1)

/-- `LockManager::cleanup_expired`: returns the number of removed locks -/
def cleanupExpired (t : LockTable) (now : Nat) : LockTable × Nat :=
  ((expiredKeys t now).foldl dropKey t, (expiredKeys t now).length)

/-- `is_locked` -/
def isLocked (t : LockTable) (now k : Nat) : Bool :=
  match aGet t.locks k with
  | some l => !l.isExpired now
  | none => false

/-- `lock_holder` -/
def lockHolder (t : LockTable) (now k : Nat) : Option Nat :=
  match aGet t.locks k with
  | some l => if l.isExpired now then none else some l.tx
  | none => none

/-- `SerializableLockState` -/
structure SerState where
  locks : List (Nat × KeyLock)
  txLocks : List (Nat × List Nat)
  defaultTimeoutMs : Nat
deriving Repr

/-- `to_serializable` -/
def serialize (t : LockTable) : SerState :=
  { locks := t.locks, txLocks := t.txLocks, defaultTimeoutMs := t.defaultTimeout }

/-- `from_serializable`; the handle counter is process-global and is not part of the image -/
def restore (s : SerState) (nextHandle : Nat) : LockTable :=
  { locks := s.locks, txLocks := s.txLocks, defaultTimeout := s.defaultTimeoutMs, nextHandle := nextHandle }

/-! ### wait-for graph -/

/-- `HashSet::insert` on a list without duplicates -/
def setInsert (s : List Nat) (x : Nat) : List Nat := if x ∈ s then s else s ++ [x]

structure WaitGraph where
  edges : List (Nat × List Nat)
  reverse : List (Nat × List Nat)
  waitStarted : List (Nat × Nat)
  priorities : List (Nat × Nat)
  maxEdgesPerTx : Nat
deriving Repr

def WaitGraph.empty (maxEdges : Nat) : WaitGraph :=
  { edges := [], reverse := [], waitStarted := [], priorities := [], maxEdgesPerTx := maxEdges }

/-- `map.entry(k).or_default().insert(x)` -/
def addToSet (m : List (Nat × List Nat)) (k x : Nat) : List (Nat × List Nat) :=
  match aGet m k with
  | some _ => aModify m k (fun s => setInsert s x)
  | none => aInsert m k [x]

/-- `WaitForGraph::add_wait` -/
def addWait (g : WaitGraph) (now waiter holder : Nat) (priority : Option Nat) : WaitGraph :=
  if waiter = holder then g
  else if g.maxEdgesPerTx > 0 ∧ ((aGet g.edges waiter).getD []).length ≥ g.maxEdgesPerTx then
    -- `entry(waiter).or_default()` has already materialised the (empty) entry
    match aGet g.edges waiter with
    | some _ => g
    | none => { g with edges := aInsert g.edges waiter [] }
  else
    { g with
      edges := addToSet g.edges waiter holder
      reverse := addToSet g.reverse holder waiter
      waitStarted := match aGet g.waitStarted waiter with
        | some _ => g.waitStarted
        | none => aInsert g.waitStarted waiter now
      priorities := match priority with
        | some p => aInsert g.priorities waiter p
        | none => g.priorities }

/-- `for x in xs { if let Some(s) = m.get_mut(&x) { s.remove(&tx) } }` -/
def eraseFromEach (m : List (Nat × List Nat)) (xs : List Nat) (tx : Nat) : List (Nat × List Nat) :=
  xs.foldl (fun m x => aModify m x (fun s => s.filter (· != tx))) m

/-- `WaitForGraph::remove_transaction` -/
def removeTransaction (g : WaitGraph) (tx : Nat) : WaitGraph :=
  let outgoing := aGet g.edges tx
  let edges1 := aRemove g.edges tx
  let reverse1 := match outgoing with
    | some holders => eraseFromEach g.reverse holders tx
    | none => g.reverse
  let incoming := aGet reverse1 tx
  let reverse2 := aRemove reverse1 tx
  let edges2 := match incoming with
    | some waiters => eraseFromEach edges1 waiters tx
    | none => edges1
  { g with edges := edges2, reverse := reverse2
           waitStarted := aRemove g.waitStarted tx, priorities := aRemove g.priorities tx }

/-- `WaitForGraph::remove_wait` -/
def removeWait (g : WaitGraph) (waiter holder : Nat) : WaitGraph :=
  let g1 : WaitGraph := match aGet g.edges waiter with
    | some hs =>
      let hs' := hs.filter (· != holder)
      if hs'.isEmpty then
        { g with edges := aRemove g.edges waiter, waitStarted := aRemove g.waitStarted waiter }
      else { g with edges := aModify g.edges waiter (fun _ => hs') }
    | none => g
  match aGet g1.reverse holder with
  | some ws =>
    let ws' := ws.filter (· != waiter)
    if ws'.isEmpty then { g1 with reverse := aRemove g1.reverse holder }
    else { g1 with reverse := aModify g1.reverse holder (fun _ => ws') }
  | none => g1

/-! ### cycle detection (`detect_cycles` / `dfs_detect`) -/

/-- adjacency in iteration order: outer list = `edges.keys()` order, inner = `HashSet` order -/
abbrev Adj := List (Nat × List Nat)

def neighbors (g : Adj) (v : Nat) : List Nat := (aGet g v).getD []

structure DfsState where
  visited : List Nat
  recStack : List Nat
  path : List Nat
  cycles : List (List Nat)
deriving Repr

/-- `path.iter().position(|&n| n == x).map(|i| path[i..].to_vec())` -/
def suffixFrom (x : Nat) : List Nat → Option (List Nat)
  | [] => none
  | y :: ys => if y = x then some (y :: ys) else suffixFrom x ys

/-- body of `for &neighbor in neighbors` with the recursive call abstracted -/
def dfsStep (recur : Nat → DfsState → DfsState) (s : DfsState) (nb : Nat) : DfsState :=
  if nb ∉ s.visited then recur nb s
  else if nb ∈ s.recStack then
    match suffixFrom nb s.path with
    | some c => { s with cycles := s.cycles ++ [c] }
    | none => s
  else s

/-- `dfs_detect`, with fuel for the recursion depth (each nested call visits a new vertex).
    `visited.insert / rec_stack.insert` are `cons` (the function is only entered for unvisited
    nodes), `rec_stack.remove` is `erase`, `path.pop` is `dropLast`. -/
def dfs (g : Adj) : Nat → Nat → DfsState → DfsState
  | 0, _, s => s
  | fuel + 1, node, s =>
    let s1 : DfsState :=
      { visited := node :: s.visited, recStack := node :: s.recStack
        path := s.path ++ [node], cycles := s.cycles }
    let s2 := (neighbors g node).foldl (fun acc nb => dfsStep (dfs g fuel) acc nb) s1
    { s2 with path := s2.path.dropLast, recStack := s2.recStack.erase node }

/-- every vertex mentioned by the adjacency (with repetitions) -/
def vertices (g : Adj) : List Nat := g.flatMap (fun p => p.1 :: p.2)

def dfsFuel (g : Adj) : Nat := (vertices g).length + 1

def dfsInit : DfsState := { visited := [], recStack := [], path := [], cycles := [] }

def detectLoop (g : Adj) (starts : List Nat) (s : DfsState) : DfsState :=
  starts.foldl (fun s start => if start ∉ s.visited then dfs g (dfsFuel g) start s else s) s

/-- `WaitForGraph::detect_cycles` on the adjacency in iteration order -/
def detectCycles (g : Adj) : List (List Nat) :=
  (detectLoop g (g.map (·.1)) dfsInit).cycles

/-! ### victim selection and `DeadlockDetector::detect` -/

inductive Policy | youngest | oldest | lowestPriority | mostLocks
deriving DecidableEq, Repr

/-- `Iterator::max_by_key`: the **last** maximal element -/
def maxByKeyLast (f : Nat → Nat) : List Nat → Option Nat
  | [] => none
  | x :: xs => some (xs.foldl (fun b y => if f y ≥ f b then y else b) x)

/-- `Iterator::min_by_key`: the **first** minimal element -/
def minByKeyFirst (f : Nat → Nat) : List Nat → Option Nat
  | [] => none
  | x :: xs => some (xs.foldl (fun b y => if f y < f b then y else b) x)

def U64MAX : Nat := 18446744073709551615

/-- `DeadlockDetector::select_victim`; `lockCount = none` ⇔ no `lock_count_fn` installed -/
def selectVictim (policy : Policy) (g : WaitGraph) (lockCount : Option (Nat → Nat)) (cycle : List Nat) : Nat :=
  match cycle with
  | [] => 0
  | [x] => x
  | c0 :: _ =>
    let ws := fun tx => (aGet g.waitStarted tx).getD 0
    match policy with
    | .youngest => (maxByKeyLast ws cycle).getD c0
    | .oldest => (minByKeyFirst (fun tx => (aGet g.waitStarted tx).getD U64MAX) cycle).getD c0
    | .lowestPriority => (maxByKeyLast (fun tx => (aGet g.priorities tx).getD 0) cycle).getD c0
    | .mostLocks =>
      match lockCount with
      | none => (maxByKeyLast ws cycle).getD c0
      | some f => (maxByKeyLast f cycle).getD c0

structure DetectorCfg where
  enabled : Bool
  policy : Policy
  maxCycleLength : Nat
  cascadeDepth : Nat

/-- the cascading loop of `detect`: state = (reported, resolved victims, cascade count) -/
def detectFold (cfg : DetectorCfg) (g : WaitGraph) (lockCount : Option (Nat → Nat))
    (acc : List (List Nat × Nat) × List Nat × Nat) (cycle : List Nat) : List (List Nat × Nat) × List Nat × Nat :=
  let (out, resolved, cascade) := acc
  if cycle.any (· ∈ resolved) ∧ cascade < cfg.cascadeDepth then (out, resolved, cascade + 1)
  else
    let v := selectVictim cfg.policy g lockCount cycle
    (out ++ [(cycle, v)], setInsert resolved v, cascade)

/-- `DeadlockDetector::detect` given the adjacency in the iteration order of this call -/
def detect (cfg : DetectorCfg) (g : WaitGraph) (lockCount : Option (Nat → Nat)) (adj : Adj) : List (List Nat × Nat) :=
  if !cfg.enabled then []
  else
    let valid := (detectCycles adj).filter (fun c => c.length ≤ cfg.maxCycleLength)
    (valid.foldl (detectFold cfg g lockCount) ([], [], 0)).1

/-! ### lock manager + wait graph (`*_with_wait_*` variants) -/

/-- keys (in argument order) and holders of the unexpired foreign locks met by `keys` -/
def conflicts (locks : List (Nat × KeyLock)) (now tx : Nat) : List Nat → List (Nat × Nat)
  | [] => []
  | k :: ks =>
    match aGet locks k with
    | some l => if !l.isExpired now && l.tx != tx then (k, l.tx) :: conflicts locks now tx ks
                else conflicts locks now tx ks
    | none => conflicts locks now tx ks

/-- `try_lock_with_wait_tracking`. On conflict: one wait edge per distinct blocker (order of the
    `HashSet` does not matter for the resulting graph because `add_wait` of distinct holders
    commute up to map order; `wnow` = the clock read by `add_wait`). Error payload = conflicting keys. -/
def tryLockWait (t : LockTable) (g : WaitGraph) (now wnow tx : Nat) (keys : List Nat) (prio : Option Nat) :
    LockTable × WaitGraph × Except (List Nat) Nat :=
  let cs := conflicts t.locks now tx keys
  if cs.isEmpty then
    let (t', _) := tryLock t now tx keys
    -- no conflict ⇒ `tryLock` takes its grant branch
    (t', removeTransaction g tx, .ok t.nextHandle)
  else
    let blockers := cs.foldl (fun s c => setInsert s c.2) []
    (t, blockers.foldl (fun g b => addWait g wnow tx b prio) g, .error (cs.map (·.1)))

/-- `release_by_handle_with_wait_cleanup` -/
def releaseByHandleWait (t : LockTable) (g : WaitGraph) (h : Nat) : LockTable × WaitGraph :=
  let found := (t.locks.filter (fun p => p.2.handle == h)).map (·.2.tx)
  let t' := releaseByHandle t h
  match found.getLast? with
  | some tx => (t', removeTransaction g tx)
  | none => (t', g)

/-- `cleanup_expired_with_wait_cleanup` -/
def cleanupExpiredWait (t : LockTable) (g : WaitGraph) (now : Nat) : LockTable × WaitGraph × Nat :=
  let txs := (t.locks.filter (fun p => p.2.isExpired now)).map (·.2.tx)
  let (t', n) := cleanupExpired t now
  (t', txs.foldl removeTransaction g, n)

/-! ### end of a distributed transaction (`DistributedTxCoordinator`) -/

/-- the handle loop every end-of-transaction site of `distributed_tx.rs` runs (`commit`, `abort`,
    `cleanup_timeouts`, recovery — eight sites):
    `for each recorded lock handle { lock_manager.release_by_handle_with_wait_cleanup(h, &wait_graph) }` -/
def releaseHandles (t : LockTable) (g : WaitGraph) (handles : List Nat) : LockTable × WaitGraph :=
  handles.foldl (fun s h => releaseByHandleWait s.1 s.2 h) (t, g)

/-- the end-of-transaction sequence as the code has it since /repo db804a9a: the handle loop, then
    unconditionally `self.wait_graph.remove_transaction(tx_id)` -/
def endTx (t : LockTable) (g : WaitGraph) (tx : Nat) (handles : List Nat) : LockTable × WaitGraph :=
  let s := releaseHandles t g handles
  (s.1, removeTransaction s.2 tx)

/-- PRE-FIX code (before /repo db804a9a): the handle loop only — the wait-for graph was reached
    only through a handle that still found a lock.  Not a model of the current tree. -/
def endTxOld (t : LockTable) (g : WaitGraph) (_tx : Nat) (handles : List Nat) : LockTable × WaitGraph :=
  releaseHandles t g handles

end Neumann.Locks
