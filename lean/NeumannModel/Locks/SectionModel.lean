import NeumannModel.Locks.Model
/-
  C12 — the critical SECTIONS of the lock table: which statements of
  `LockManager::try_lock_with_wait_tracking` and of the end-of-transaction path run while the two
  lock-table guards (`locks.write()`, `tx_locks.write()`, always taken together — one resource
  here) are held, and what that buys: "conflict found" and "wait-for edge recorded" are one step
  with respect to the lock table, so a transaction that has ended is never recorded as a holder.

  Import-free apart from `Locks/Model.lean` (itself import-free), total, computable.  The data
  operations are the ones of `Model.lean` (`conflicts`, `tryLock`, `addWait`, `removeTransaction`,
  `releaseByHandle`) — the same functions the sequential correspondence streams compare with the
  real `LockManager` / `WaitForGraph` after every call.  New here is the granularity: a call is no
  longer one step but the sequence of the steps that another thread can interleave with.

  Threads: thread `i` runs transaction `i` (one transaction life per thread: prepares over its
  shards, then the end of the transaction; a thread that runs several lives one after the other has
  fewer interleavings than the same lives on separate threads).  Its control point `Pc`:

    prep (ks :: rest)   handle_prepare → try_lock_with_wait_tracking(i, ks): takes the guards (enabled
                        only when nobody holds them), scans `ks` for live foreign holders;
                          none  → inserts the locks under a fresh handle (recorded as this
                                   transaction's Yes vote)                         → granted rest
                          some  → keeps the blocker set                            → adding bs rest
    granted rest        `wait_graph.remove_transaction(i)` (still inside the section) → adding [] rest
    adding (b :: bs) _  `wait_graph.add_wait(i, b, None)`                          → adding bs rest
    adding [] rest      `drop(tx_locks); drop(locks)`                              → prep rest
    prep []             commit / abort / … is called                               → ending handles
    ending (h :: hs)    release_by_handle_with_wait_cleanup(h), its lock-table section (one step: the
                        guards are taken, the locks carrying `h` removed, the guards dropped;
                        enabled only when nobody holds them)     → cleaning x hs (a lock was found,
                                                                   x its owner) | ending hs
    cleaning x hs       `wait_graph.remove_transaction(x)` — OUTSIDE the section     → ending hs
    ending []           the unconditional `wait_graph.remove_transaction(i)` of every end site
                        (/repo db804a9a); the transaction has ended                 → done

  `early = false` is the code as it is: the guards stay from the scan to the last `add_wait`.
  `early = true` mirrors the regression class "the guards are dropped as soon as the conflict set
  is complete, the edges are recorded afterwards": the scan step leaves the guards free.

  Every step reads its own clock value (`now` comes with the schedule, no monotonicity assumed):
  expiry may strike between any two steps.  Each `add_wait` / `remove_transaction` is one step
  (the four `RwLock`s inside `WaitForGraph` are not modelled here — see the area's assumptions).
-/
namespace Neumann.Locks.Section
open Neumann.Locks

inductive Pc
  | prep (shards : List (List Nat))
  | granted (rest : List (List Nat))
  | adding (bs : List Nat) (rest : List (List Nat))
  | ending (hs : List Nat)
  | cleaning (x : Nat) (hs : List Nat)
  | done
  deriving DecidableEq, Repr

structure Th where
  pc : Pc
  /-- lock handles of the Yes votes recorded for this thread's transaction -/
  handles : List Nat
  deriving Repr

structure St where
  t : LockTable
  g : WaitGraph
  /-- the thread that holds `locks.write()` + `tx_locks.write()` -/
  guard : Option Nat
  /-- transactions whose end-of-transaction call has returned -/
  ended : List Nat
  ths : List Th
  deriving Repr

/-- `blocking_tx_ids`: the distinct holders of the conflicting keys -/
def blockersOf (cs : List (Nat × Nat)) : List Nat := cs.foldl (fun s c => setInsert s c.2) []

/-- the lock handles a thread will still release -/
def remaining (th : Th) : List Nat :=
  match th.pc with
  | .prep _ | .granted _ | .adding _ _ => th.handles
  | .ending hs | .cleaning _ hs => hs
  | .done => []

/-- thread `i` performs its next step with clock reading `now`; `none` = it has finished, or the
    step needs the lock-table guards and another thread holds them -/
def step (early : Bool) (s : St) (i now : Nat) : Option St :=
  match s.ths[i]? with
  | none => none
  | some th =>
    match th.pc with
    | .prep [] => some { s with ths := s.ths.set i { th with pc := .ending th.handles } }
    | .prep (ks :: rest) =>
      if s.guard.isSome then none else
      let cs := conflicts s.t.locks now i ks
      if cs.isEmpty then
        some { s with t := (tryLock s.t now i ks).1, guard := some i
                      ths := s.ths.set i { pc := .granted rest, handles := th.handles ++ [s.t.nextHandle] } }
      else
        some { s with guard := if early then none else some i
                      ths := s.ths.set i { th with pc := .adding (blockersOf cs) rest } }
    | .granted rest =>
      some { s with g := removeTransaction s.g i, ths := s.ths.set i { th with pc := .adding [] rest } }
    | .adding (b :: bs) rest =>
      some { s with g := addWait s.g now i b none, ths := s.ths.set i { th with pc := .adding bs rest } }
    | .adding [] rest =>
      some { s with guard := if s.guard = some i then none else s.guard
                    ths := s.ths.set i { th with pc := .prep rest } }
    | .ending (h :: hs) =>
      if s.guard.isSome then none else
      match ((s.t.locks.filter (fun p => p.2.handle == h)).map (·.2.tx)).getLast? with
      | some x => some { s with t := releaseByHandle s.t h, ths := s.ths.set i { th with pc := .cleaning x hs } }
      | none => some { s with t := releaseByHandle s.t h, ths := s.ths.set i { th with pc := .ending hs } }
    | .cleaning x hs =>
      some { s with g := removeTransaction s.g x, ths := s.ths.set i { th with pc := .ending hs } }
    | .ending [] =>
      some { s with g := removeTransaction s.g i, ended := i :: s.ended
                    ths := s.ths.set i { th with pc := .done } }
    | .done => none

/-- a schedule: which thread moves, and the clock value its step reads -/
def run (early : Bool) : St → List (Nat × Nat) → Option St
  | s, [] => some s
  | s, (i, now) :: rest =>
    match step early s i now with
    | none => none
    | some s' => run early s' rest

/-- thread `i` is about to prepare the shards `progs[i]` (one key list per shard) of transaction `i` -/
def init (timeout maxEdges : Nat) (progs : List (List (List Nat))) : St :=
  { t := LockTable.empty timeout, g := WaitGraph.empty maxEdges, guard := none, ended := []
    ths := progs.map (fun p => { pc := .prep p, handles := [] }) }

/-- `tx` occurs in the wait-for graph: as a waiter or a holder, in either index (decidable form of
    "not `Absent`") -/
def inGraph (g : WaitGraph) (tx : Nat) : Bool :=
  (aGet g.edges tx).isSome || (aGet g.reverse tx).isSome ||
    g.edges.any (fun p => p.2.contains tx) || g.reverse.any (fun p => p.2.contains tx) ||
    (aGet g.waitStarted tx).isSome || (aGet g.priorities tx).isSome

end Neumann.Locks.Section
